/-
Proofs/C04Inv - the invariant of the closed system (host + device + packets in flight) and its preservation by every
event; from it Props/C04 derives `one_outstanding_fifo` and `reply_attribution_partial`.  Core Lean only.
-/
import CfVerif.Proofs.C04Sys
namespace CfVerif.C04
open CfVerif

/-! ### list helpers -/

theorem answersZip_append_left (v2 : Bool) : ∀ (a r t : List Pkt), answersZip v2 a r = true → answersZip v2 (a ++ t) r = true
  | _, [], _, _ => by cases ‹List Pkt› <;> simp [answersZip]
  | [], _ :: _, _, h => by simp [answersZip] at h
  | q :: qs, x :: xs, t, h => by
    simp only [answersZip, Bool.and_eq_true] at h
    simp only [List.cons_append, answersZip, Bool.and_eq_true]
    exact ⟨h.1, answersZip_append_left v2 qs xs t h.2⟩

theorem answersZip_nil (v2 : Bool) (a : List Pkt) : answersZip v2 a [] = true := by cases a <;> rfl

theorem answersZip_snoc (v2 : Bool) : ∀ (a r : List Pkt) (q x : Pkt) (t : List Pkt), a.length = r.length →
    answersZip v2 a r = true → Answers v2 q x = true → answersZip v2 (a ++ q :: t) (r ++ [x]) = true
  | [], [], q, x, t, _, _, hq => by simp [answersZip, hq, answersZip_nil]
  | [], _ :: _, _, _, _, hl, _, _ => by simp at hl
  | _ :: _, [], _, _, _, hl, _, _ => by simp at hl
  | a :: as, r :: rs, q, x, t, hl, h, hq => by
    simp only [answersZip, Bool.and_eq_true] at h
    simp only [List.cons_append, answersZip, Bool.and_eq_true]
    exact ⟨h.1, answersZip_snoc v2 as rs q x t (by simpa using hl) h.2 hq⟩

theorem expectedMisc_snoc : ∀ (A : List (Pkt × Option Pending)) (R : List Pkt) (x : Pkt × Option Pending) (rep : Pkt),
    A.length = R.length →
    expectedMisc (A ++ [x]) (R ++ [rep]) = expectedMisc A R ++
      (match x.2 with | some e => miscCallsOf (handleMisc e rep).1 | none => [])
  | [], [], (p, some e), rep, _ => by simp [expectedMisc]
  | [], [], (p, none), rep, _ => by simp [expectedMisc]
  | [], _ :: _, _, _, hl => by simp at hl
  | _ :: _, [], _, _, hl => by simp at hl
  | (p, some e) :: as, r :: rs, x, rep, hl => by
    simp only [List.cons_append, expectedMisc, List.append_assoc]
    rw [expectedMisc_snoc as rs x rep (by simpa using hl)]
  | (p, none) :: as, r :: rs, x, rep, hl => by
    simp only [List.cons_append, expectedMisc]
    rw [expectedMisc_snoc as rs x rep (by simpa using hl)]

theorem altRun_append (v2 : Bool) : ∀ (a b : List Obs) (st : Option Pkt),
    altRun v2 st (a ++ b) = match altRun v2 st a with | none => none | some st' => altRun v2 st' b
  | [], b, st => by simp [altRun]
  | o :: os, b, st => by
    simp only [List.cons_append, altRun]
    cases altStep v2 st o with
    | none => rfl
    | some st' => exact altRun_append v2 os b st'

theorem solicited_notif {p : Pkt} (h : isNotif p = true) : solicited [p] = [] := by simp [solicited, h]
theorem solicited_reply {p : Pkt} (h : isNotif p = false) : solicited [p] = [p] := by simp [solicited, h]

theorem sublist_erase_head {α} [DecidableEq α] {e : α} {rest es1 es2 : List α} (hne : e ∉ es1)
    (h : (e :: rest).Sublist (es1 ++ e :: es2)) : rest.Sublist (es1 ++ es2) := by
  induction es1 with
  | nil =>
    simp only [List.nil_append] at h ⊢
    cases h with
    | cons _ h' => exact (List.sublist_cons_self e rest).trans h'
    | cons_cons _ h' => exact h'
  | cons y ys ih =>
    have hy : e ≠ y := fun h => hne (by simp [h])
    have hys : e ∉ ys := fun h => hne (by simp [h])
    simp only [List.cons_append] at h ⊢
    cases h with
    | cons _ h' => exact (ih hys h').trans (List.sublist_cons_self _ _)
    | cons_cons _ h' => exact absurd rfl hy

/-! ### the invariant -/

/-- the updater waits for the reply `rep` (in flight) to the request `req` -/
structure Waiting (v2 : Bool) (s : Sys) (W : List Pkt) (req rep : Pkt) : Prop where
  w : W = [req]
  held : s.host.lockHeld = true
  down : solicited s.down = [rep]
  ans : Answers v2 req rep = true
  chan : rep.chan = req.chan
  body : req.chan = 3 → ∃ body, rep.data = req.data ++ body

/-- `outs`: the outputs so far.  `A`: the requests whose reply has been delivered, `G`: the other issued requests (oldest
first), each with its registered reply handler; `W`: the transmitted request whose reply is still in flight. -/
structure Inv (v2 : Bool) (s : Sys) (outs : List Out) (A G : List (Pkt × Option Pending)) (W : List Pkt) : Prop where
  dv2 : s.dev.v2 = v2
  useV2 : s.host.useV2 = v2
  updV2 : s.host.updV2 = v2
  enq : enqsOf outs = A ++ G
  gq : G.map Prod.fst = W ++ s.host.cur.toList ++ s.host.queue
  wf : ∀ x ∈ G, ReqWF v2 x
  lock : s.host.pattern.isSome = s.host.lockHeld
  pat : s.host.pattern = none ∨ ∃ x, ReqWF v2 x ∧ s.host.pattern = some (lockPatternOf v2 x.1)
  wait : (W = [] ∧ solicited s.down = []) ∨ ∃ req rep, Waiting v2 s W req rep
  txs : txsOf outs = A.map Prod.fst ++ W
  rx : (solicited (rxdsOf outs)).length = A.length
  ans : answersZip v2 (txsOf outs) (solicited (rxdsOf outs)) = true
  alt : ∃ st, altRun v2 none (obsOf outs) = some st ∧ st.isSome = s.host.lockHeld ∧ ∀ req, W = [req] → st = some req

/-- the part that needs the side condition `KeysDistinct` -/
structure Att (s : Sys) (outs : List Out) (A G : List (Pkt × Option Pending)) : Prop where
  pendSub : (G.filterMap Prod.snd).Sublist s.host.pending
  misc : miscCallsOf outs = expectedMisc A (solicited (rxdsOf outs))

theorem Inv.unanswered {v2 : Bool} {s : Sys} {outs : List Out} {A G : List (Pkt × Option Pending)} {W : List Pkt}
    (h : Inv v2 s outs A G W) : unanswered outs = G := by
  unfold CfVerif.C04.unanswered
  rw [h.enq, h.rx, List.drop_left]

/-! ### API calls -/

theorem step_api (S2F : List Char → Except PyErr Nat) (v : Variant) (hv : v.routing = 1) {v2 : Bool} {s : Sys} {pre : List Out}
    {A G : List (Pkt × Option Pending)} {W : List Pkt} (hinv : Inv v2 s pre A G W) (c : Api) :
    let r := c.run S2F v s.dev.v2 s.host
    ∃ G', Inv v2 { s with host := r.1 } (pre ++ r.2) A G' W ∧
      (Att s pre A G → Att { s with host := r.1 } (pre ++ r.2) A G') := by
  intro r
  have he : ApiEffect v2 s.host r.1 r.2 := by
    have := api_effect S2F v hv s.host c
    rw [hinv.useV2] at this
    show ApiEffect v2 s.host (c.run S2F v s.dev.v2 s.host).1 (c.run S2F v s.dev.v2 s.host).2
    rw [hinv.dv2]; exact this
  obtain ⟨t1, t2, t3, t4⟩ := he.io
  have hupd : r.1.updV2 = v2 := by
    rcases he.updV2 with h | h
    · rw [h, hinv.updV2]
    · exact h
  have hwait : (W = [] ∧ solicited s.down = []) ∨ ∃ req rep, Waiting v2 { s with host := r.1 } W req rep := by
    rcases hinv.wait with h | ⟨req, rep, hw⟩
    · exact Or.inl h
    · exact Or.inr ⟨req, rep, ⟨hw.w, by show r.1.lockHeld = true; rw [he.lockHeld]; exact hw.held, hw.down, hw.ans, hw.chan, hw.body⟩⟩
  have halt : ∃ st, altRun v2 none (obsOf (pre ++ r.2)) = some st ∧ st.isSome = r.1.lockHeld ∧ ∀ req, W = [req] → st = some req := by
    rw [obsOf_append, t3, List.append_nil, he.lockHeld]; exact hinv.alt
  rcases he.q with ⟨q1, q2, q3⟩ | ⟨p, eo, q1, q2, q3, q4⟩
  · refine ⟨G, ⟨hinv.dv2, by show r.1.useV2 = v2; rw [he.useV2, hinv.useV2], hupd, ?_, ?_, hinv.wf, ?_, ?_, hwait, ?_, ?_, ?_, halt⟩, ?_⟩
    · rw [enqsOf_append, q1, List.append_nil]; exact hinv.enq
    · show G.map Prod.fst = W ++ r.1.cur.toList ++ r.1.queue
      rw [he.cur, q2]; exact hinv.gq
    · show r.1.pattern.isSome = r.1.lockHeld
      rw [he.pattern, he.lockHeld]; exact hinv.lock
    · show r.1.pattern = none ∨ _
      rw [he.pattern]; exact hinv.pat
    · rw [txsOf_append, t1, List.append_nil]; exact hinv.txs
    · rw [rxdsOf_append, t2, List.append_nil]; exact hinv.rx
    · rw [txsOf_append, t1, List.append_nil, rxdsOf_append, t2, List.append_nil]; exact hinv.ans
    · intro ha
      refine ⟨?_, ?_⟩
      · show (G.filterMap Prod.snd).Sublist r.1.pending
        rcases q3 with q3 | ⟨e, q3⟩
        · rw [q3]; exact ha.pendSub
        · rw [q3]; exact ha.pendSub.trans (List.sublist_append_left _ _)
      · rw [miscCallsOf_append, t4, List.append_nil, rxdsOf_append, t2, List.append_nil]; exact ha.misc
  · refine ⟨G ++ [(p, eo)], ⟨hinv.dv2, by show r.1.useV2 = v2; rw [he.useV2, hinv.useV2], hupd, ?_, ?_, ?_, ?_, ?_, hwait, ?_, ?_, ?_, halt⟩, ?_⟩
    · rw [enqsOf_append, q1, hinv.enq, List.append_assoc]
    · show (G ++ [(p, eo)]).map Prod.fst = W ++ r.1.cur.toList ++ r.1.queue
      rw [he.cur, q2, List.map_append, hinv.gq]; simp
    · intro x hx
      simp only [List.mem_append, List.mem_singleton] at hx
      rcases hx with hx | rfl
      · exact hinv.wf x hx
      · exact q4
    · show r.1.pattern.isSome = r.1.lockHeld
      rw [he.pattern, he.lockHeld]; exact hinv.lock
    · show r.1.pattern = none ∨ _
      rw [he.pattern]; exact hinv.pat
    · rw [txsOf_append, t1, List.append_nil]; exact hinv.txs
    · rw [rxdsOf_append, t2, List.append_nil]; exact hinv.rx
    · rw [txsOf_append, t1, List.append_nil, rxdsOf_append, t2, List.append_nil]; exact hinv.ans
    · intro ha
      refine ⟨?_, ?_⟩
      · show ((G ++ [(p, eo)]).filterMap Prod.snd).Sublist r.1.pending
        rw [q3, List.filterMap_append]
        apply List.Sublist.append ha.pendSub
        cases eo <;> simp
      · rw [miscCallsOf_append, t4, List.append_nil, rxdsOf_append, t2, List.append_nil]; exact ha.misc

/-! ### the updater thread -/

theorem step_updGet {v2 : Bool} {s : Sys} {pre : List Out} {A G : List (Pkt × Option Pending)} {W : List Pkt}
    (hinv : Inv v2 s pre A G W) {h' : Host} (hg : updGet s.host = some h') :
    Inv v2 { s with host := h' } (pre ++ []) A G W ∧ (Att s pre A G → Att { s with host := h' } (pre ++ []) A G) := by
  unfold updGet at hg
  split at hg
  · rename_i p q hc hq
    cases hg
    rw [List.append_nil]
    refine ⟨⟨hinv.dv2, hinv.useV2, hinv.updV2, hinv.enq, ?_, hinv.wf, hinv.lock, hinv.pat, ?_, hinv.txs, hinv.rx, hinv.ans, hinv.alt⟩,
      fun ha => ⟨ha.pendSub, ha.misc⟩⟩
    · show G.map Prod.fst = W ++ (some p).toList ++ q
      rw [hinv.gq, hc, hq]; simp
    · rcases hinv.wait with h | ⟨req, rep, hw⟩
      · exact Or.inl h
      · exact Or.inr ⟨req, rep, ⟨hw.w, hw.held, hw.down, hw.ans, hw.chan, hw.body⟩⟩
  · cases hg

theorem step_updSend {v2 : Bool} {s : Sys} {pre : List Out} {A G : List (Pkt × Option Pending)} {W : List Pkt}
    (hinv : Inv v2 s pre A G W) {h' : Host} {o : List Out} (hs : updSend s.host = some (h', o)) :
    ∃ p, o = [.tx p] ∧ Inv v2 { host := h', dev := (s.dev.handle p).1, down := s.down ++ (s.dev.handle p).2 } (pre ++ o) A G [p] ∧
      (Att s pre A G → Att { host := h', dev := (s.dev.handle p).1, down := s.down ++ (s.dev.handle p).2 } (pre ++ o) A G) := by
  unfold updSend at hs
  split at hs
  · rename_i p hc
    split at hs
    · cases hs
    · rename_i hl
      have hl : s.host.lockHeld = false := by simpa using hl
      simp only [Option.some.injEq, Prod.mk.injEq] at hs
      obtain ⟨rfl, rfl⟩ := hs
      -- nothing is in flight
      have hW : W = [] ∧ solicited s.down = [] := by
        rcases hinv.wait with h | ⟨req, rep, hw⟩
        · exact h
        · rw [hw.held] at hl; cases hl
      obtain ⟨hW1, hW2⟩ := hW
      subst hW1
      -- the packet sent is the oldest unanswered request
      have hgq := hinv.gq
      rw [hc] at hgq
      simp only [List.nil_append, Option.toList, List.cons_append] at hgq
      obtain ⟨x, G1, rfl⟩ : ∃ x G1, G = x :: G1 := by
        cases G with
        | nil => simp at hgq
        | cons x G1 => exact ⟨x, G1, rfl⟩
      simp only [List.map_cons, List.cons.injEq] at hgq
      obtain ⟨hx1, hG1⟩ := hgq
      have hwfx : ReqWF s.dev.v2 x := by rw [hinv.dv2]; exact hinv.wf x (by simp)
      obtain ⟨d', rep, hh, hdv, hnn, hans, hch, hbody⟩ := handle_wf s.dev x hwfx
      rw [hx1] at hh hans hch hbody
      refine ⟨p, rfl, ⟨?_, hinv.useV2, hinv.updV2, ?_, ?_, hinv.wf, rfl, ?_, ?_, ?_, ?_, ?_, ?_⟩, ?_⟩
      · show (s.dev.handle p).1.v2 = v2
        rw [hh, hdv, hinv.dv2]
      · rw [enqsOf_append]; show enqsOf pre ++ [] = _; rw [List.append_nil]; exact hinv.enq
      · show (x :: G1).map Prod.fst = [p] ++ (none : Option Pkt).toList ++ s.host.queue
        simp [hx1, hG1]
      · exact Or.inr ⟨x, by rw [← hinv.dv2]; exact hwfx, by show some _ = some _; rw [hinv.updV2, hx1]⟩
      · refine Or.inr ⟨p, rep, ⟨rfl, rfl, ?_, by rw [← hinv.dv2]; exact hans, hch, hbody⟩⟩
        show solicited (s.down ++ (s.dev.handle p).2) = [rep]
        rw [hh, solicited_append, hW2, solicited_reply hnn]; rfl
      · rw [txsOf_append, hinv.txs, List.append_nil]; rfl
      · rw [rxdsOf_append]; show (solicited (rxdsOf pre ++ [])).length = _; rw [List.append_nil]; exact hinv.rx
      · rw [txsOf_append, rxdsOf_append]
        show answersZip v2 (txsOf pre ++ [p]) (solicited (rxdsOf pre ++ [])) = true
        rw [List.append_nil]; exact answersZip_append_left v2 _ _ _ hinv.ans
      · obtain ⟨st, h1, h2, _⟩ := hinv.alt
        rw [hl] at h2
        have hst : st = none := by cases st <;> simp_all
        subst hst
        refine ⟨some p, ?_, rfl, fun req hreq => by cases hreq; rfl⟩
        rw [obsOf_append, altRun_append, h1]
        rfl
      · intro ha
        refine ⟨ha.pendSub, ?_⟩
        rw [miscCallsOf_append, rxdsOf_append]
        show miscCallsOf pre ++ [] = expectedMisc A (solicited (rxdsOf pre ++ []))
        rw [List.append_nil, List.append_nil]; exact ha.misc
  · cases hs

/-! ### firmware-side changes -/

theorem notify_isNotif {d : Dev} {i : Nat} {p : Pkt} (h : d.notify i = some p) : isNotif p = true := by
  unfold Dev.notify at h
  cases hp : d.params[i]? with
  | none => rw [hp] at h; cases h
  | some q => rw [hp] at h; cases h; simp [isNotif]

theorem step_devSet {v2 : Bool} {s : Sys} {pre : List Out} {A G : List (Pkt × Option Pending)} {W : List Pkt}
    (hinv : Inv v2 s pre A G W) (i : Nat) (raw : List UInt8) (n : Bool) :
    let d := s.dev.setValue i raw
    let s' : Sys := { s with dev := d, down := s.down ++ (if n then (d.notify i).toList else []) }
    Inv v2 s' (pre ++ []) A G W ∧ (Att s pre A G → Att s' (pre ++ []) A G) := by
  intro d s'
  have hsol : solicited s'.down = solicited s.down := by
    show solicited (s.down ++ _) = _
    rw [solicited_append]
    split
    · cases hn : d.notify i with
      | none => simp [solicited]
      | some p => simp [solicited_notif (notify_isNotif hn)]
    · simp [solicited]
  rw [List.append_nil]
  refine ⟨⟨hinv.dv2, hinv.useV2, hinv.updV2, hinv.enq, hinv.gq, hinv.wf, hinv.lock, hinv.pat, ?_, hinv.txs, hinv.rx, hinv.ans, hinv.alt⟩,
    fun ha => ⟨ha.pendSub, ha.misc⟩⟩
  rcases hinv.wait with h | ⟨req, rep, hw⟩
  · exact Or.inl ⟨h.1, by rw [hsol]; exact h.2⟩
  · exact Or.inr ⟨req, rep, ⟨hw.w, hw.held, by rw [hsol]; exact hw.down, hw.ans, hw.chan, hw.body⟩⟩

/-! ### delivery of a packet by the incoming-packet thread -/

theorem isNotif_iff {p : Pkt} (h : isNotif p = true) : p.chan = 3 ∧ ∃ t, p.data = 1 :: t ∧ 2 ≤ t.length := by
  simp only [isNotif, Bool.and_eq_true, beq_iff_eq, decide_eq_true_eq] at h
  obtain ⟨⟨h1, h2⟩, h3⟩ := h
  refine ⟨h1, ?_⟩
  cases hd : p.data with
  | nil => rw [hd] at h2; simp at h2
  | cons c t =>
    rw [hd] at h2 h3
    simp only [List.head?_cons, Option.some.injEq] at h2
    exact ⟨t, by rw [h2], by simpa using h3⟩

theorem notif_key_ne {v2 u : Bool} {x : Pkt × Option Pending} (hwf : ReqWF v2 x) {p : Pkt} (hn : isNotif p = true) :
    lockPatternOf u x.1 ≠ rxKey u p := by
  obtain ⟨hc, t, hd, ht⟩ := isNotif_iff hn
  obtain ⟨l1, l2, l3, _⟩ := gen_lens
  have hk : rxKey u p = 1 :: t.take 2 := by rw [rxKey, if_pos hc, hd]; rfl
  have hklen : (rxKey u p).length = 3 := by rw [hk]; simp [List.length_take]; omega
  intro heq
  unfold lockPatternOf at heq
  rw [l1, l2, l3, gen_write_channel.2.2.1] at heq
  rcases hwf with ⟨hch, _, _⟩ | ⟨hch, k, i, _, hdat, _⟩
  · have hne : x.1.chan ≠ 3 := by rcases hch with h | h <;> omega
    rw [if_neg hne] at heq
    have := congrArg List.length heq
    rw [hklen] at this
    split at this <;> simp [List.length_take] at this <;> omega
  · rw [if_pos hch, hdat, miscKey_eq, hk] at heq
    cases u
    · simp at heq
      rw [heq.2] at ht; simp at ht
    · simp only [if_true, List.take_succ_cons, List.take_zero, List.cons.injEq] at heq
      have hk := kind_cmd k
      have h1 := heq.1
      rcases hk with h | h | h | h <;> rw [h] at h1 <;> revert h1 <;> decide

theorem nofire_notif (e : Pending) {p : Pkt} (hn : isNotif p = true) : oneShotMatches true e p ≠ .ok true := by
  obtain ⟨hc, t, hd, _⟩ := isNotif_iff hn
  unfold oneShotMatches
  rw [if_neg (by rw [hc, gen_write_channel.2.2.1]; simp), hd]
  simp only
  have : (1 : UInt8).toNat ≠ e.kind.cmd := by
    rcases kind_cmd e.kind with h | h | h | h <;> rw [h] <;> decide
  rw [if_pos this]
  simp

theorem miscRx_snap (v : Variant) (hv : v.routing = 1) (hs : v.snap = true) (h : Host) (p : Pkt) :
    miscRx v h p = oneShotSnap true p h.pending h [] := by
  unfold miscRx
  rw [if_neg (by omega), if_pos hs]
  simp [hv]

theorem rx_proj {p : Pkt} {o1 o2 : List Out} (h1 : NoIO o1) (h2 : ∀ x ∈ o2, x.noCtl = true) :
    enqsOf (.rxd p :: (o1 ++ o2)) = [] ∧ txsOf (.rxd p :: (o1 ++ o2)) = [] ∧ rxdsOf (.rxd p :: (o1 ++ o2)) = [p] ∧
    obsOf (.rxd p :: (o1 ++ o2)) = obsOf o1 ∧ miscCallsOf (.rxd p :: (o1 ++ o2)) = miscCallsOf o2 := by
  obtain ⟨a, b, c, d⟩ := h1
  obtain ⟨a2, b2, c2, d2⟩ := noCtl_proj h2
  have e1 : enqsOf (.rxd p :: (o1 ++ o2)) = enqsOf (o1 ++ o2) := rfl
  have e2 : txsOf (.rxd p :: (o1 ++ o2)) = txsOf (o1 ++ o2) := rfl
  have e3 : rxdsOf (.rxd p :: (o1 ++ o2)) = p :: rxdsOf (o1 ++ o2) := rfl
  have e4 : obsOf (.rxd p :: (o1 ++ o2)) = obsOf (o1 ++ o2) := rfl
  have e5 : miscCallsOf (.rxd p :: (o1 ++ o2)) = miscCallsOf (o1 ++ o2) := rfl
  rw [e1, e2, e3, e4, e5, enqsOf_append, txsOf_append, rxdsOf_append, obsOf_append, miscCallsOf_append, a, b, c, d, a2, b2, c2, d2]
  simp

theorem step_deliver_notif (v : Variant) (hv : v.routing = 1) (hs : v.snap = true) {v2 : Bool} {s : Sys} {pre : List Out}
    {A G : List (Pkt × Option Pending)} {W : List Pkt} (hinv : Inv v2 s pre A G W) {p : Pkt} {rest : List Pkt}
    (hd : s.down = p :: rest) (hn : isNotif p = true) :
    Inv v2 { s with host := (rx v s.host p).1, down := rest } (pre ++ (rx v s.host p).2) A G W ∧
      (Att s pre A G → Att { s with host := (rx v s.host p).1, down := rest } (pre ++ (rx v s.host p).2) A G) := by
  obtain ⟨hc3, _⟩ := isNotif_iff hn
  unfold rx
  rcases hu : updaterRx s.host p with ⟨h1, o1, p1⟩
  obtain ⟨sq, nio, lk, _, hp1⟩ := updaterRx_spec hu
  have hp1 := hp1 hc3
  subst hp1
  simp only
  rw [miscRx_snap v hv hs]
  obtain ⟨o2, hsn, q2⟩ := oneShotSnap_nofire (p := p1) h1.pending h1 [] (fun e _ => nofire_notif e hn)
  rw [hsn]
  simp only [List.nil_append]
  obtain ⟨r1, r2, r3, r4, r5⟩ := rx_proj (p := p1) nio (fun x hx => quiet_noCtl (q2 x hx))
  have hm2 : miscCallsOf o2 = [] := (quiet_proj q2).2.2.2.2
  -- the lock is untouched
  have hsame : h1.lockHeld = s.host.lockHeld ∧ h1.pattern = s.host.pattern ∧ obsOf o1 = [] := by
    have hcontra : s.host.pattern = some (rxKey s.host.updV2 p1) → False := by
      intro hk
      rcases hinv.pat with hnone | ⟨x, hwf, hx⟩
      · rw [hnone] at hk; cases hk
      · rw [hx, hinv.updV2] at hk
        exact notif_key_ne hwf hn (Option.some.inj hk)
    cases lk with
    | same a b c => exact ⟨a, b, c⟩
    | released _ _ _ hp => exact absurd hp (fun h => hcontra h)
    | cleared _ _ _ _ hp => exact absurd hp (fun h => hcontra h)
  obtain ⟨hl, hpt, hob⟩ := hsame
  have hsol : solicited s.down = solicited rest := by
    rw [hd]; show solicited ([p1] ++ rest) = _
    rw [solicited_append, solicited_notif hn]; rfl
  refine ⟨⟨hinv.dv2, by show h1.useV2 = v2; rw [sq.useV2, hinv.useV2], by show h1.updV2 = v2; rw [sq.updV2, hinv.updV2], ?_, ?_,
    hinv.wf, ?_, ?_, ?_, ?_, ?_, ?_, ?_⟩, ?_⟩
  · rw [enqsOf_append, r1, List.append_nil]; exact hinv.enq
  · show G.map Prod.fst = W ++ h1.cur.toList ++ h1.queue
    rw [sq.cur, sq.queue]; exact hinv.gq
  · show h1.pattern.isSome = h1.lockHeld
    rw [hl, hpt]; exact hinv.lock
  · show h1.pattern = none ∨ _
    rw [hpt]; exact hinv.pat
  · rcases hinv.wait with h | ⟨req, rep, hw⟩
    · exact Or.inl ⟨h.1, by show solicited rest = []; rw [← hsol]; exact h.2⟩
    · exact Or.inr ⟨req, rep, ⟨hw.w, by show h1.lockHeld = true; rw [hl]; exact hw.held,
        by show solicited rest = [rep]; rw [← hsol]; exact hw.down, hw.ans, hw.chan, hw.body⟩⟩
  · rw [txsOf_append, r2, List.append_nil]; exact hinv.txs
  · rw [rxdsOf_append, r3, solicited_append, solicited_notif hn, List.append_nil]; exact hinv.rx
  · rw [txsOf_append, r2, List.append_nil, rxdsOf_append, r3, solicited_append, solicited_notif hn, List.append_nil]; exact hinv.ans
  · rw [obsOf_append, r4, hob, List.append_nil]
    obtain ⟨st, a1, a2, a3⟩ := hinv.alt
    exact ⟨st, a1, by show st.isSome = h1.lockHeld; rw [hl]; exact a2, a3⟩
  · intro ha
    refine ⟨by show (G.filterMap Prod.snd).Sublist h1.pending; rw [sq.pending]; exact ha.pendSub, ?_⟩
    rw [miscCallsOf_append, r5, hm2, List.append_nil, rxdsOf_append, r3, solicited_append, solicited_notif hn, List.append_nil]
    exact ha.misc

/-- the one-shot callbacks only touch the list of registered callbacks -/
structure SameButPending (h h' : Host) : Prop where
  queue : h'.queue = h.queue
  cur : h'.cur = h.cur
  lockHeld : h'.lockHeld = h.lockHeld
  pattern : h'.pattern = h.pattern
  useV2 : h'.useV2 = h.useV2
  updV2 : h'.updV2 = h.updV2

theorem oneShotCall_frame (m : Bool) (h : Host) (e : Pending) (p : Pkt) :
    SameButPending h (oneShotCall m h e p).1 ∧ ∀ x ∈ (oneShotCall m h e p).2, x.noCtl = true := by
  unfold oneShotCall
  split
  · exact ⟨⟨rfl, rfl, rfl, rfl, rfl, rfl⟩, by intro y hy; simp only [List.mem_singleton] at hy; subst hy; rfl⟩
  · exact ⟨⟨rfl, rfl, rfl, rfl, rfl, rfl⟩, by simp⟩
  · simp only
    refine ⟨?_, handleMisc_noCtl e p⟩
    split <;> exact ⟨rfl, rfl, rfl, rfl, rfl, rfl⟩

theorem oneShotSnap_frame (m : Bool) (p : Pkt) : ∀ (es : List Pending) (h : Host) (acc : List Out),
    (∀ x ∈ acc, x.noCtl = true) →
    SameButPending h (oneShotSnap m p es h acc).1 ∧ ∀ x ∈ (oneShotSnap m p es h acc).2, x.noCtl = true
  | [], h, acc, ha => ⟨⟨rfl, rfl, rfl, rfl, rfl, rfl⟩, ha⟩
  | e :: es, h, acc, ha => by
    obtain ⟨f1, q1⟩ := oneShotCall_frame m h e p
    have := oneShotSnap_frame m p es (oneShotCall m h e p).1 (acc ++ (oneShotCall m h e p).2) (by
      intro x hx; simp only [List.mem_append] at hx
      rcases hx with hx | hx
      · exact ha x hx
      · exact q1 x hx)
    obtain ⟨f2, q2⟩ := this
    simp only [oneShotSnap]
    exact ⟨⟨f2.queue.trans f1.queue, f2.cur.trans f1.cur, f2.lockHeld.trans f1.lockHeld, f2.pattern.trans f1.pattern,
      f2.useV2.trans f1.useV2, f2.updV2.trans f1.updV2⟩, q2⟩

theorem nodup_mid {α β} [DecidableEq β] (f : α → β) (P : α → Bool) {es1 es2 : List α} {e y : α}
    (hnd : (((es1 ++ e :: es2).filter P).map f).Nodup) (hPe : P e = true) (hPy : P y = true) (hf : f y = f e)
    (hy : y ∈ es1 ∨ y ∈ es2) : False := by
  rw [List.filter_append, List.filter_cons_of_pos hPe, List.map_append, List.map_cons] at hnd
  have h1 := List.nodup_append.mp hnd
  obtain ⟨_, h2, h3⟩ := h1
  have h4 := List.nodup_cons.mp h2
  rcases hy with hy | hy
  · have : f y ∈ (es1.filter P).map f := List.mem_map.mpr ⟨y, List.mem_filter.mpr ⟨hy, hPy⟩, rfl⟩
    exact h3 _ this _ (by simp) hf
  · have : f y ∈ (es2.filter P).map f := List.mem_map.mpr ⟨y, List.mem_filter.mpr ⟨hy, hPy⟩, rfl⟩
    exact h4.1 (hf ▸ this)

/-- the attribution part of the delivery of a reply: under `KeysDistinct` exactly the handler registered with the answered
request runs (if it has one), and the registered callbacks of the other unanswered requests stay registered -/
theorem deliver_reply_att {v2 : Bool} {h1 : Host} {p : Pkt} {x : Pkt × Option Pending} {G1 : List (Pkt × Option Pending)}
    (hwf : ReqWF v2 x) (hch : p.chan = x.1.chan) (hbody : x.1.chan = 3 → ∃ body, p.data = x.1.data ++ body)
    (hsub : ((x :: G1).filterMap Prod.snd).Sublist h1.pending) (hkd : KeysDistinct h1.pending (x :: G1)) :
    (G1.filterMap Prod.snd).Sublist (oneShotSnap true p h1.pending h1 []).1.pending ∧
    miscCallsOf (oneShotSnap true p h1.pending h1 []).2 =
      (match x.2 with | some e => miscCallsOf (handleMisc e p).1 | none => []) := by
  rcases hwf with ⟨hc12, _, hnone⟩ | ⟨hc3, k, i, hi, hdat, hent⟩
  · -- read / write reply: no callback looks at it
    have hne : p.chan ≠ 3 := by rw [hch]; rcases hc12 with h | h <;> omega
    obtain ⟨o2, hsn, q2⟩ := oneShotSnap_nofire (p := p) h1.pending h1 []
      (fun e _ => by rw [nofire_of_chan hne]; simp)
    rw [hsn, hnone]
    rw [List.filterMap_cons, hnone] at hsub
    exact ⟨hsub, (quiet_proj q2).2.2.2.2⟩
  · obtain ⟨body, hpd⟩ := hbody hc3
    rw [hdat] at hpd
    have hpc : p.chan = 3 := by rw [hch, hc3]
    have hk8 := kind_cmd_lt k
    cases hx2 : x.2 with
    | none =>
      -- issued without callback: nobody may consume the reply
      have hnf : ∀ y ∈ h1.pending, oneShotMatches true y p ≠ .ok true := by
        intro y hy hf
        obtain ⟨f1, f2, f3⟩ := fires_key hpc hk8 hi hpd hf
        have hkey : y.key = x.1.data := by rw [Pending.key, f1, f2, hdat]
        have h1' : y.key ∈ regKeys h1.pending :=
          List.mem_map.mpr ⟨y, List.mem_filter.mpr ⟨hy, by simp [f3]⟩, rfl⟩
        have h2' : x.1.data ∈ cblessKeys (x :: G1) :=
          List.mem_map.mpr ⟨x, List.mem_filter.mpr ⟨by simp, by simp [hc3, hx2]⟩, rfl⟩
        exact (List.nodup_append.mp hkd).2.2 _ h1' _ h2' hkey
      obtain ⟨o2, hsn, q2⟩ := oneShotSnap_nofire (p := p) h1.pending h1 [] hnf
      rw [hsn]
      rw [List.filterMap_cons, hx2] at hsub
      exact ⟨hsub, (quiet_proj q2).2.2.2.2⟩
    | some e =>
      obtain ⟨e1, e2, e3⟩ := hent e hx2
      rw [List.filterMap_cons, hx2] at hsub
      have hmem : e ∈ h1.pending := hsub.subset (by simp)
      obtain ⟨es1, es2, hsplit⟩ := List.append_of_mem hmem
      have hfe : oneShotMatches true e p = .ok true :=
        fires_of hpc (by rw [e2]; exact hi) e3 (body := body) (by rw [Pending.key, e1, e2]; exact hpd)
      have hnd : (((es1 ++ e :: es2).filter (fun e => !e.noElem)).map Pending.key).Nodup := by
        have := (List.nodup_append.mp hkd).1
        rw [regKeys, hsplit] at this; exact this
      have hother : ∀ y, y ∈ es1 ∨ y ∈ es2 → oneShotMatches true y p ≠ .ok true := by
        intro y hy hf
        obtain ⟨f1, f2, f3⟩ := fires_key hpc hk8 hi hpd hf
        exact nodup_mid Pending.key (fun e => !e.noElem) hnd (by simp [e3]) (by simp [f3])
          (by rw [Pending.key, Pending.key, f1, f2, e1, e2]) hy
      obtain ⟨o1, o2, hsn, q1, q2⟩ := oneShotSnap_one (p := p) (e := e) es1 es2 h1 []
        (fun y hy => hother y (Or.inl hy)) (fun y hy => hother y (Or.inr hy)) hfe
      rw [hsplit, hsn]
      refine ⟨?_, ?_⟩
      · -- the other registered callbacks stay registered
        have hne1 : e ∉ es1 := by
          intro hin
          exact nodup_mid Pending.key (fun e => !e.noElem) hnd (by simp [e3]) (by simp [e3]) rfl (Or.inl hin)
        split
        · show (G1.filterMap Prod.snd).Sublist (h1.pending.erase e)
          rw [hsplit, List.erase_append_right _ hne1, List.erase_cons_head]
          rw [hsplit] at hsub
          exact sublist_erase_head hne1 hsub
        · exact (List.sublist_cons_self _ _).trans hsub
      · simp only [List.nil_append, miscCallsOf_append, (quiet_proj q1).2.2.2.2, (quiet_proj q2).2.2.2.2, List.append_nil]

theorem step_deliver_reply (v : Variant) (hv : v.routing = 1) (hs : v.snap = true) {v2 : Bool} {s : Sys} {pre : List Out}
    {A G : List (Pkt × Option Pending)} {W : List Pkt} (hinv : Inv v2 s pre A G W) {p : Pkt} {rest : List Pkt}
    (hd : s.down = p :: rest) (hn : isNotif p = false) :
    ∃ x G1, G = x :: G1 ∧
      Inv v2 { s with host := (rx v s.host p).1, down := rest } (pre ++ (rx v s.host p).2) (A ++ [x]) G1 [] ∧
      (Att s pre A G → KeysDistinct s.host.pending G →
        Att { s with host := (rx v s.host p).1, down := rest } (pre ++ (rx v s.host p).2) (A ++ [x]) G1) := by
  -- the packet is the reply the updater is waiting for
  have hsol : solicited s.down = p :: solicited rest := by
    rw [hd]; show solicited ([p] ++ rest) = _
    rw [solicited_append, solicited_reply hn]; rfl
  obtain ⟨req, rep, hw⟩ : ∃ req rep, Waiting v2 s W req rep := by
    rcases hinv.wait with h | h
    · rw [hsol] at h; cases h.2
    · exact h
  have hdn := hw.down
  rw [hsol] at hdn
  simp only [List.cons.injEq] at hdn
  obtain ⟨hprep, hrest⟩ := hdn
  subst hprep
  have hW := hw.w
  subst hW
  have hgq := hinv.gq
  obtain ⟨x, G1, rfl⟩ : ∃ x G1, G = x :: G1 := by
    cases G with
    | nil => simp at hgq
    | cons x G1 => exact ⟨x, G1, rfl⟩
  simp only [List.map_cons, List.cons_append, List.nil_append, List.cons.injEq] at hgq
  obtain ⟨hx1, hG1⟩ := hgq
  have hwfx : ReqWF v2 x := hinv.wf x (by simp)
  refine ⟨x, G1, rfl, ?_⟩
  unfold rx
  rcases hu : updaterRx s.host p with ⟨h1, o1, p1⟩
  obtain ⟨sq, nio, lk, hp1c, hp1⟩ := updaterRx_spec hu
  simp only
  rw [miscRx_snap v hv hs]
  obtain ⟨fr, q2⟩ := oneShotSnap_frame true p1 h1.pending h1 [] (by simp)
  obtain ⟨r1, r2, r3, r4, r5⟩ := rx_proj (p := p) nio q2
  generalize hsnap : oneShotSnap true p1 h1.pending h1 [] = res at fr q2 r1 r2 r3 r4 r5
  obtain ⟨h2, o2⟩ := res
  simp only at fr q2 r1 r2 r3 r4 r5 ⊢
  have hans : Answers v2 req p = true := hw.ans
  refine ⟨⟨hinv.dv2, by show h2.useV2 = v2; rw [fr.useV2, sq.useV2, hinv.useV2],
    by show h2.updV2 = v2; rw [fr.updV2, sq.updV2, hinv.updV2], ?_, ?_, ?_, ?_, ?_, ?_, ?_, ?_, ?_, ?_⟩, ?_⟩
  · rw [enqsOf_append, r1, List.append_nil, hinv.enq]; simp
  · show G1.map Prod.fst = [] ++ h2.cur.toList ++ h2.queue
    rw [fr.cur, fr.queue, sq.cur, sq.queue, hG1]; simp
  · exact fun y hy => hinv.wf y (by simp [hy])
  · show h2.pattern.isSome = h2.lockHeld
    rw [fr.pattern, fr.lockHeld]
    cases lk with
    | same a b _ => rw [a, b]; exact hinv.lock
    | released a b _ _ => rw [a, b]; rfl
    | cleared _ a b _ _ => rw [a, b]; rfl
  · show h2.pattern = none ∨ _
    rw [fr.pattern]
    cases lk with
    | same _ b _ => rw [b]; exact hinv.pat
    | released _ b _ _ => exact Or.inl b
    | cleared _ _ b _ _ => exact Or.inl b
  · exact Or.inl ⟨rfl, hrest⟩
  · rw [txsOf_append, r2, List.append_nil, hinv.txs, List.map_append]; simp [hx1]
  · rw [rxdsOf_append, r3, solicited_append, solicited_reply hn, List.length_append, hinv.rx]; simp
  · rw [txsOf_append, r2, List.append_nil, rxdsOf_append, r3, solicited_append, solicited_reply hn, hinv.txs]
    have := answersZip_snoc v2 (A.map Prod.fst) (solicited (rxdsOf pre)) req p [] (by rw [List.length_map, hinv.rx])
      (by have h := hinv.ans; rw [hinv.txs] at h
          -- drop the trailing `[req]`
          have : ∀ (a r t : List Pkt), a.length = r.length → answersZip v2 (a ++ t) r = true → answersZip v2 a r = true := by
            intro a r t
            induction a generalizing r with
            | nil => intro hl _; cases r <;> simp_all [answersZip]
            | cons q qs ih =>
              intro hl hz
              cases r with
              | nil => rfl
              | cons y ys =>
                simp only [List.cons_append, answersZip, Bool.and_eq_true] at hz ⊢
                exact ⟨hz.1, ih ys (by simpa using hl) hz.2⟩
          exact this _ _ _ (by rw [List.length_map, hinv.rx]) h) hans
    exact this
  · rw [obsOf_append, r4]
    obtain ⟨st, a1, a2, a3⟩ := hinv.alt
    have hst : st = some req := a3 req rfl
    subst hst
    cases lk with
    | same a _ c =>
      rw [c, List.append_nil]
      exact ⟨some req, a1, by show (some req).isSome = h2.lockHeld; rw [fr.lockHeld, a]; exact a2, fun r hr => by cases hr⟩
    | released a _ c _ =>
      refine ⟨none, ?_, by show (none : Option Pkt).isSome = h2.lockHeld; rw [fr.lockHeld, a]; rfl, fun r hr => by cases hr⟩
      rw [altRun_append, a1, c]
      simp only [altRun, altStep, hans, if_true]
    | cleared a0 _ _ _ _ =>
      rw [hw.held] at a0; cases a0
  · intro ha hkd
    have hkd1 : KeysDistinct h1.pending (x :: G1) := by rw [sq.pending]; exact hkd
    have hsub1 : ((x :: G1).filterMap Prod.snd).Sublist h1.pending := by rw [sq.pending]; exact ha.pendSub
    have hchx : p1.chan = x.1.chan := by rw [hp1c, hw.chan, hx1]
    have hbodyx : x.1.chan = 3 → ∃ body, p1.data = x.1.data ++ body := by
      intro h3
      have hp3 : p.chan = 3 := by rw [hw.chan, ← hx1]; exact h3
      rw [hp1 hp3, hx1]
      exact hw.body (by rw [← hx1]; exact h3)
    obtain ⟨b1, b2⟩ := deliver_reply_att hwfx hchx hbodyx hsub1 hkd1
    rw [hsnap] at b1 b2
    refine ⟨b1, ?_⟩
    rw [miscCallsOf_append, r5, rxdsOf_append, r3, solicited_append, solicited_reply hn, ha.misc,
      expectedMisc_snoc A _ x p hinv.rx.symm]
    congr 1
    simp only at b2
    rw [b2]
    cases hx2 : x.2 with
    | none => rfl
    | some e =>
      -- a misc reply is not modified by the updater's callback
      have hwf3 : x.1.chan = 3 := by
        rcases hwfx with ⟨_, _, hnn⟩ | ⟨h3, _⟩
        · rw [hnn] at hx2; cases hx2
        · exact h3
      have hp3 : p.chan = 3 := by rw [hw.chan, ← hx1]; exact hwf3
      rw [hp1 hp3]

/-! ### every event preserves the invariant; induction on the event list -/

theorem step_inv (S2F : List Char → Except PyErr Nat) (v : Variant) (hv : v.routing = 1) (hs : v.snap = true) {v2 : Bool}
    {s s1 : Sys} {pre o1 : List Out} {A G : List (Pkt × Option Pending)} {W : List Pkt} (hinv : Inv v2 s pre A G W)
    (e : Ev) (hstep : s.step S2F v e = some (s1, o1)) :
    ∃ A1 G1 W1, Inv v2 s1 (pre ++ o1) A1 G1 W1 ∧ (Att s pre A G → KeysDistinct s.host.pending G → Att s1 (pre ++ o1) A1 G1) := by
  cases e with
  | api t c =>
    simp only [Sys.step, Option.some.injEq, Prod.mk.injEq] at hstep
    obtain ⟨rfl, rfl⟩ := hstep
    obtain ⟨G', hi, ha⟩ := step_api S2F v hv hinv c
    exact ⟨A, G', W, hi, fun h _ => ha h⟩
  | updGet =>
    simp only [Sys.step] at hstep
    cases hg : updGet s.host with
    | none => rw [hg] at hstep; cases hstep
    | some h' =>
      rw [hg] at hstep
      simp only [Option.map_some, Option.some.injEq, Prod.mk.injEq] at hstep
      obtain ⟨rfl, rfl⟩ := hstep
      obtain ⟨hi, ha⟩ := step_updGet hinv hg
      exact ⟨A, G, W, hi, fun h _ => ha h⟩
  | updSend =>
    simp only [Sys.step] at hstep
    cases hg : updSend s.host with
    | none => rw [hg] at hstep; cases hstep
    | some r =>
      obtain ⟨h', o⟩ := r
      rw [hg] at hstep
      obtain ⟨p, rfl, hi, ha⟩ := step_updSend hinv hg
      simp only [Option.some.injEq, Prod.mk.injEq] at hstep
      obtain ⟨rfl, rfl⟩ := hstep
      exact ⟨A, G, [p], hi, fun h _ => ha h⟩
  | deliver =>
    simp only [Sys.step] at hstep
    cases hd : s.down with
    | nil => rw [hd] at hstep; cases hstep
    | cons p rest =>
      rw [hd] at hstep
      simp only [Option.some.injEq, Prod.mk.injEq] at hstep
      obtain ⟨rfl, rfl⟩ := hstep
      cases hn : isNotif p with
      | true =>
        obtain ⟨hi, ha⟩ := step_deliver_notif v hv hs hinv hd hn
        exact ⟨A, G, W, hi, fun h _ => ha h⟩
      | false =>
        obtain ⟨x, G1, rfl, hi, ha⟩ := step_deliver_reply v hv hs hinv hd hn
        exact ⟨A ++ [x], G1, [], hi, ha⟩
  | devSet i raw n =>
    simp only [Sys.step, Option.some.injEq, Prod.mk.injEq] at hstep
    obtain ⟨rfl, rfl⟩ := hstep
    obtain ⟨hi, ha⟩ := step_devSet hinv i raw n
    exact ⟨A, G, W, hi, fun h _ => ha h⟩

theorem run_inv (S2F : List Char → Except PyErr Nat) (v : Variant) (hv : v.routing = 1) (hs : v.snap = true) {v2 : Bool} :
    ∀ (evs : List Ev) (s : Sys) (pre : List Out) (A G : List (Pkt × Option Pending)) (W : List Pkt),
      Inv v2 s pre A G W → ∀ (s' : Sys) (o : List Out), Sys.run S2F v s evs = some (s', o) →
      ∃ A' G' W', Inv v2 s' (pre ++ o) A' G' W' ∧
        (Att s pre A G → DistinctAlong S2F v s pre evs → Att s' (pre ++ o) A' G')
  | [], s, pre, A, G, W, hinv, s', o, hrun => by
    simp only [Sys.run, Option.some.injEq, Prod.mk.injEq] at hrun
    obtain ⟨rfl, rfl⟩ := hrun
    exact ⟨A, G, W, by rw [List.append_nil]; exact hinv, fun h _ => by rw [List.append_nil]; exact h⟩
  | e :: es, s, pre, A, G, W, hinv, s', o, hrun => by
    simp only [Sys.run] at hrun
    cases hst : s.step S2F v e with
    | none => rw [hst] at hrun; cases hrun
    | some r1 =>
      obtain ⟨s1, o1⟩ := r1
      rw [hst] at hrun
      simp only at hrun
      cases hr2 : Sys.run S2F v s1 es with
      | none => rw [hr2] at hrun; cases hrun
      | some r2 =>
        obtain ⟨s2, o2⟩ := r2
        rw [hr2] at hrun
        simp only [Option.some.injEq, Prod.mk.injEq] at hrun
        obtain ⟨rfl, rfl⟩ := hrun
        obtain ⟨A1, G1, W1, hi1, ha1⟩ := step_inv S2F v hv hs hinv e hst
        obtain ⟨A2, G2, W2, hi2, ha2⟩ := run_inv S2F v hv hs es s1 (pre ++ o1) A1 G1 W1 hi1 s2 o2 hr2
        refine ⟨A2, G2, W2, by rw [← List.append_assoc]; exact hi2, ?_⟩
        intro hatt hda
        simp only [DistinctAlong, hst] at hda
        rw [hinv.unanswered] at hda
        have := ha2 (ha1 hatt hda.1) hda.2
        rw [← List.append_assoc]; exact this

theorem Inv.init {s : Sys} (h0 : s.Idle) : Inv s.dev.v2 s [] [] [] [] ∧ Att s [] [] [] := by
  refine ⟨⟨rfl, h0.useV2, h0.updV2, rfl, ?_, by simp, ?_, Or.inl h0.pattern, Or.inl ⟨rfl, h0.down⟩, rfl, rfl, rfl,
    ⟨none, rfl, by rw [h0.lock]; rfl, fun r hr => by cases hr⟩⟩, ⟨by simp, rfl⟩⟩
  · rw [h0.cur, h0.queue]; rfl
  · rw [h0.pattern, h0.lock]; rfl

theorem expectedMisc_append_unmatched : ∀ (A G : List (Pkt × Option Pending)) (R : List Pkt), R.length = A.length →
    expectedMisc (A ++ G) R = expectedMisc A R
  | [], G, [], _ => by cases G with
    | nil => rfl
    | cons x xs => obtain ⟨p, eo⟩ := x; cases eo <;> rfl
  | [], _, _ :: _, hl => by simp at hl
  | _ :: _, _, [], hl => by simp at hl
  | (p, some e) :: as, G, r :: rs, hl => by
    simp only [List.cons_append, expectedMisc]
    rw [expectedMisc_append_unmatched as G rs (by simpa using hl)]
  | (p, none) :: as, G, r :: rs, hl => by
    simp only [List.cons_append, expectedMisc]
    rw [expectedMisc_append_unmatched as G rs (by simpa using hl)]

/-! ### a checker for the side condition, for concrete runs -/

def keysDistinctB (pending : List Pending) (G : List (Pkt × Option Pending)) : Bool :=
  decide (regKeys pending ++ cblessKeys G).Nodup

def distinctAlongB (S2F : List Char → Except PyErr Nat) (v : Variant) : Sys → List Out → List Ev → Bool
  | s, pre, [] => keysDistinctB s.host.pending (unanswered pre)
  | s, pre, e :: es =>
    keysDistinctB s.host.pending (unanswered pre) &&
      match s.step S2F v e with
      | none => true
      | some (s1, o1) => distinctAlongB S2F v s1 (pre ++ o1) es

theorem distinctAlong_of_B (S2F : List Char → Except PyErr Nat) (v : Variant) :
    ∀ (evs : List Ev) (s : Sys) (pre : List Out), distinctAlongB S2F v s pre evs = true → DistinctAlong S2F v s pre evs
  | [], s, pre, h => by simpa [distinctAlongB, keysDistinctB, DistinctAlong, KeysDistinct] using h
  | e :: es, s, pre, h => by
    simp only [distinctAlongB, Bool.and_eq_true] at h
    simp only [DistinctAlong]
    refine ⟨by simpa [keysDistinctB, KeysDistinct] using h.1, ?_⟩
    cases hst : s.step S2F v e with
    | none => trivial
    | some r =>
      obtain ⟨s1, o1⟩ := r
      have h2 := h.2
      rw [hst] at h2
      exact distinctAlong_of_B S2F v es s1 (pre ++ o1) h2

end CfVerif.C04

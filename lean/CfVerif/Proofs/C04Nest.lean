/-
Proofs/C04Nest - re-entrant callbacks: the caller's callback of a misc request issues further API calls from inside the reply
dispatch.  Under snapshot dispatch a nested delivery step is a plain delivery step followed by those API calls; the invariants
of the closed system carry over, so FIFO / one-outstanding / attribution hold for nested histories.  Core Lean only.
-/
import CfVerif.Proofs.C04Seq
namespace CfVerif.C04
open CfVerif

theorem sendMisc_pending_indep (v : Variant) (h : Host) (k : MiscKind) (el : Elem) (cn : List Nat) (rid : Option Nat) (P : List Pending) :
    sendMisc v { h with pending := P } k el cn rid =
      ({ (sendMisc v h k el cn rid).1 with pending := P ++ (sendMisc v h k el cn rid).1.pending.drop h.pending.length },
       (sendMisc v h k el cn rid).2) := by
  unfold sendMisc
  cases miscPkt k el.ident with
  | error er =>
    simp only
    split <;> simp
  | ok p =>
    simp only
    split <;> simp [enqueue]

/-- the API calls read the list of registered handlers only to append to it -/
theorem api_pending_indep (S2F : List Char → Except PyErr Nat) (v : Variant) (p4 : Bool) (h : Host) (c : Api) (P : List Pending) :
    c.run S2F v p4 { h with pending := P } =
      ({ (c.run S2F v p4 h).1 with pending := P ++ (c.run S2F v p4 h).1.pending.drop h.pending.length }, (c.run S2F v p4 h).2) := by
  cases c with
  | setValue cn x cb =>
    simp only [Api.run, setValue]
    have h1 : gate { h with pending := P } cb = gate h cb := rfl
    have h2 : setValuePkt S2F { h with pending := P } cn x = setValuePkt S2F h cn x := rfl
    rw [h1, h2]
    cases gate h cb with
    | some o => simp
    | none => cases setValuePkt S2F h cn x <;> simp [enqueue]
  | getValue cn cb =>
    simp only [Api.run, getValue]
    have h1 : gate { h with pending := P } cb = gate h cb := rfl
    rw [h1]
    cases gate h cb with
    | some o => simp
    | none =>
      simp only
      cases cn with
      | nil => simp
      | cons g t =>
        cases t with
        | nil => simp
        | cons n t2 =>
          cases t2 with
          | nil =>
            simp only
            split
            · split <;> simp
            · simp
          | cons _ _ => simp
  | requestUpdate cn =>
    simp only [Api.run, requestUpdate]
    have h1 : elementId ({ h with pending := P } : Host).toc cn = elementId h.toc cn := rfl
    rw [h1]
    cases elementId h.toc cn with
    | error e => simp
    | ok i =>
      simp only
      cases idBytes p4 Gen.C04.readIdFmtV2 Gen.C04.readIdFmtV1 i <;> simp [enqueue]
  | getDefault cn r =>
    simp only [Api.run, getDefault]
    have h1 : elemByName ({ h with pending := P } : Host).toc cn = elemByName h.toc cn := rfl
    rw [h1]
    cases elemByName h.toc cn with
    | none => simp only; split <;> simp
    | some el => exact sendMisc_pending_indep v h _ el cn _ P
  | getState cn r =>
    simp only [Api.run, getState]
    have h1 : elemByName ({ h with pending := P } : Host).toc cn = elemByName h.toc cn := rfl
    rw [h1]
    cases elemByName h.toc cn with
    | none => simp
    | some el =>
      simp only
      split
      · simp
      · exact sendMisc_pending_indep v h _ el cn _ P
  | store cn r =>
    simp only [Api.run, store]
    have h1 : elemByName ({ h with pending := P } : Host).toc cn = elemByName h.toc cn := rfl
    rw [h1]
    cases elemByName h.toc cn with
    | none => simp only; cases r <;> simp
    | some el =>
      simp only
      split
      · simp
      · exact sendMisc_pending_indep v h _ el cn _ P
  | clear cn r =>
    simp only [Api.run, clear]
    have h1 : elemByName ({ h with pending := P } : Host).toc cn = elemByName h.toc cn := rfl
    rw [h1]
    cases elemByName h.toc cn with
    | none => simp
    | some el =>
      simp only
      split
      · simp
      · exact sendMisc_pending_indep v h _ el cn _ P
  | addCb g n cb =>
    simp only [Api.run, addCb]
    cases g <;> cases n <;> simp
  | removeCb g n cb =>
    simp only [Api.run, removeCb]
    cases n with
    | none =>
      simp only
      split
      · split <;> simp
      · simp
    | some nn =>
      simp only
      split
      · split <;> simp
      · simp


/-- ... and so does a whole callback script: what it appends (`Δ`), what it outputs and whether it completes do not depend on
the handlers already registered -/
theorem runScript_indep (S2F : List Char → Except PyErr Nat) (v : Variant) (p4 : Bool) : ∀ (cs : List Api) (h : Host),
    ∃ (hq : Host) (Δ : List Pending) (o : List Out) (ok : Bool),
      ∀ P, runScript S2F v p4 { h with pending := P } cs = ({ hq with pending := P ++ Δ }, o, ok)
  | [], h => ⟨h, [], [], true, fun P => by simp [runScript]⟩
  | c :: cs, h => by
    have hc := api_pending_indep S2F v p4 h c
    generalize hr : c.run S2F v p4 h = r at hc
    cases hro : r.2 with
    | nil =>
      obtain ⟨hq, Δ, o, ok, ih⟩ := runScript_indep S2F v p4 cs r.1
      refine ⟨hq, r.1.pending.drop h.pending.length ++ Δ, [] ++ o, ok, fun P => ?_⟩
      simp only [runScript, hc P, hro]
      have := ih (P ++ r.1.pending.drop h.pending.length)
      simp only [this, List.append_assoc]
    | cons x xs =>
      by_cases hraise : ∃ e, x = .raised e ∧ xs = []
      · obtain ⟨e, rfl, rfl⟩ := hraise
        refine ⟨r.1, r.1.pending.drop h.pending.length, [.cbError e], false, fun P => ?_⟩
        simp only [runScript, hc P, hro]
      · obtain ⟨hq, Δ, o, ok, ih⟩ := runScript_indep S2F v p4 cs r.1
        refine ⟨hq, r.1.pending.drop h.pending.length ++ Δ, (x :: xs) ++ o, ok, fun P => ?_⟩
        have := ih (P ++ r.1.pending.drop h.pending.length)
        simp only [runScript, hc P, hro]
        split
        · rename_i e heq
          exact absurd ⟨e, by simp_all, by simp_all⟩ hraise
        · simp only [this, List.append_assoc]

theorem runScript_fail {S2F : List Char → Except PyErr Nat} {v : Variant} {p4 : Bool} : ∀ (cs : List Api) (h : Host),
    (runScript S2F v p4 h cs).2.2 = false → ∃ e, Out.cbError e ∈ (runScript S2F v p4 h cs).2.1
  | [], h, hf => by simp [runScript] at hf
  | c :: cs, h, hf => by
    simp only [runScript] at hf ⊢
    split at hf
    · rename_i e _; exact ⟨e, by simp⟩
    · obtain ⟨e, he⟩ := runScript_fail cs _ hf
      exact ⟨e, List.mem_append_right _ he⟩

/-! ### snapshot dispatch with re-entrant callbacks -/

theorem oneShotCallS_nofire {S2F : List Char → Except PyErr Nat} {v : Variant} {p4 : Bool} {sc : Scripts} {h : Host} {e : Pending}
    {p : Pkt} (hn : oneShotMatches true e p ≠ .ok true) :
    ∃ o, oneShotCallS S2F v p4 sc true h e p = (h, o) ∧ ∀ x ∈ o, x.quiet = true := by
  unfold oneShotCallS
  split
  · exact ⟨_, rfl, by intro y hy; simp only [List.mem_singleton] at hy; subst hy; rfl⟩
  · exact ⟨[], rfl, by simp⟩
  · rename_i hm; exact absurd hm hn

theorem oneShotSnapS_nofire {S2F : List Char → Except PyErr Nat} {v : Variant} {p4 : Bool} {sc : Scripts} {p : Pkt} :
    ∀ (es : List Pending) (h : Host) (acc : List Out), (∀ e ∈ es, oneShotMatches true e p ≠ .ok true) →
    ∃ o, oneShotSnapS S2F v p4 sc true p es h acc = (h, acc ++ o) ∧ ∀ x ∈ o, x.quiet = true
  | [], h, acc, _ => ⟨[], by simp [oneShotSnapS], by simp⟩
  | e :: es, h, acc, hn => by
    obtain ⟨o1, h1, q1⟩ := oneShotCallS_nofire (S2F := S2F) (v := v) (p4 := p4) (sc := sc) (h := h) (hn e (by simp))
    obtain ⟨o2, h2, q2⟩ := oneShotSnapS_nofire (S2F := S2F) (v := v) (p4 := p4) (sc := sc) es h (acc ++ o1) (fun e' he' => hn e' (by simp [he']))
    refine ⟨o1 ++ o2, ?_, ?_⟩
    · simp only [oneShotSnapS, h1, h2, List.append_assoc]
    · intro x hx
      simp only [List.mem_append] at hx
      rcases hx with hx | hx
      · exact q1 x hx
      · exact q2 x hx

theorem oneShotSnapS_one {S2F : List Char → Except PyErr Nat} {v : Variant} {p4 : Bool} {sc : Scripts} {p : Pkt} {e : Pending} :
    ∀ (es1 es2 : List Pending) (h : Host) (acc : List Out),
    (∀ x ∈ es1, oneShotMatches true x p ≠ .ok true) → (∀ x ∈ es2, oneShotMatches true x p ≠ .ok true) →
    ∃ o1 o2, oneShotSnapS S2F v p4 sc true p (es1 ++ e :: es2) h acc =
        ((oneShotCallS S2F v p4 sc true h e p).1, acc ++ o1 ++ (oneShotCallS S2F v p4 sc true h e p).2 ++ o2) ∧
      (∀ x ∈ o1, x.quiet = true) ∧ (∀ x ∈ o2, x.quiet = true)
  | [], es2, h, acc, _, h2 => by
    obtain ⟨o2, hs, q2⟩ := oneShotSnapS_nofire (S2F := S2F) (v := v) (p4 := p4) (sc := sc) (p := p) es2
      (oneShotCallS S2F v p4 sc true h e p).1 (acc ++ (oneShotCallS S2F v p4 sc true h e p).2) h2
    exact ⟨[], o2, by simp only [List.nil_append, oneShotSnapS, hs, List.append_nil], by simp, q2⟩
  | x :: es1, es2, h, acc, h1, h2 => by
    obtain ⟨oa, ha, qa⟩ := oneShotCallS_nofire (S2F := S2F) (v := v) (p4 := p4) (sc := sc) (h := h) (h1 x (by simp))
    obtain ⟨o1, o2, hs, q1, q2⟩ := oneShotSnapS_one (S2F := S2F) (v := v) (p4 := p4) (sc := sc) (e := e) es1 es2 h (acc ++ oa) (fun y hy => h1 y (by simp [hy])) h2
    refine ⟨oa ++ o1, o2, ?_, ?_, q2⟩
    · simp only [List.cons_append, oneShotSnapS, ha, hs, List.append_assoc]
    · intro y hy
      simp only [List.mem_append] at hy
      rcases hy with hy | hy
      · exact qa y hy
      · exact q1 y hy

/-- equality of everything the system theorems look at in a list of outputs -/
def ProjEq (a b : List Out) : Prop :=
  enqsOf a = enqsOf b ∧ txsOf a = txsOf b ∧ rxdsOf a = rxdsOf b ∧ obsOf a = obsOf b ∧ miscCallsOf a = miscCallsOf b

theorem ProjEq.refl (a : List Out) : ProjEq a a := ⟨rfl, rfl, rfl, rfl, rfl⟩

theorem ProjEq.append_left {a b : List Out} (pre : List Out) (h : ProjEq a b) : ProjEq (pre ++ a) (pre ++ b) := by
  obtain ⟨h1, h2, h3, h4, h5⟩ := h
  exact ⟨by rw [enqsOf_append, enqsOf_append, h1], by rw [txsOf_append, txsOf_append, h2], by rw [rxdsOf_append, rxdsOf_append, h3],
    by rw [obsOf_append, obsOf_append, h4], by rw [miscCallsOf_append, miscCallsOf_append, h5]⟩

/-- a quiet tail may be moved behind further outputs -/
theorem ProjEq.swap_quiet (a q b : List Out) (hq : ∀ x ∈ q, x.quiet = true) : ProjEq (a ++ b ++ q) (a ++ q ++ b) := by
  obtain ⟨q1, q2, q3, q4, q5⟩ := quiet_proj hq
  refine ⟨?_, ?_, ?_, ?_, ?_⟩
  · simp only [enqsOf_append, q1, List.append_nil]
  · simp only [txsOf_append, q2, List.append_nil]
  · simp only [rxdsOf_append, q3, List.append_nil]
  · simp only [obsOf_append, q4, List.append_nil]
  · simp only [miscCallsOf_append, q5, List.append_nil]

theorem ProjEq.of_quiet {a b : List Out} (ha : ∀ x ∈ a, x.quiet = true) (hb : ∀ x ∈ b, x.quiet = true) : ProjEq a b := by
  obtain ⟨a1, a2, a3, a4, a5⟩ := quiet_proj ha
  obtain ⟨b1, b2, b3, b4, b5⟩ := quiet_proj hb
  exact ⟨by rw [a1, b1], by rw [a2, b2], by rw [a3, b3], by rw [a4, b4], by rw [a5, b5]⟩

theorem host_eta (h : Host) : ({ h with pending := h.pending } : Host) = h := by cases h; rfl

/-- what `snapS_flat` concludes -/
def FlatOf (S2F : List Char → Except PyErr Nat) (v : Variant) (p4 : Bool) (sc : Scripts) (h1 : Host) (p : Pkt) : Prop :=
  ∃ cs, (oneShotSnapS S2F v p4 sc true p h1.pending h1 []).1 = (runScript S2F v p4 (oneShotSnap true p h1.pending h1 []).1 cs).1 ∧
    (runScript S2F v p4 (oneShotSnap true p h1.pending h1 []).1 cs).2.2 = true ∧
    ProjEq (oneShotSnapS S2F v p4 sc true p h1.pending h1 []).2
      ((oneShotSnap true p h1.pending h1 []).2 ++ (runScript S2F v p4 (oneShotSnap true p h1.pending h1 []).1 cs).2.1)

theorem flatOf_nofire (S2F : List Char → Except PyErr Nat) (v : Variant) (p4 : Bool) (sc : Scripts) (h1 : Host) (p : Pkt)
    (hnf : ∀ y ∈ h1.pending, oneShotMatches true y p ≠ .ok true) : FlatOf S2F v p4 sc h1 p := by
  obtain ⟨o2, hsn, q2⟩ := oneShotSnap_nofire (p := p) h1.pending h1 [] hnf
  obtain ⟨o2', hsn', q2'⟩ := oneShotSnapS_nofire (S2F := S2F) (v := v) (p4 := p4) (sc := sc) (p := p) h1.pending h1 [] hnf
  refine ⟨[], ?_, rfl, ?_⟩
  · rw [hsn, hsn']; rfl
  · rw [hsn, hsn']
    simp only [runScript, List.append_nil, List.nil_append]
    exact ProjEq.of_quiet q2' q2

/-- Delivery of the reply to the oldest unanswered request `x`, callbacks re-entrant: the result is the result of the plain
dispatch followed by the API calls of the callback that was called (none when no callback was called) - same state, same
transmissions / queue insertions / callbacks in the same order. -/
theorem snapS_flat {v2 : Bool} (S2F : List Char → Except PyErr Nat) (v : Variant) (hv : v.routing = 1) (p4 : Bool) (sc : Scripts)
    {h1 : Host} {p : Pkt} {x : Pkt × Option Pending} {G1 : List (Pkt × Option Pending)}
    (hwf : ReqWF v2 x) (hch : p.chan = x.1.chan) (hbody : x.1.chan = 3 → ∃ body, p.data = x.1.data ++ body)
    (hsub : ((x :: G1).filterMap Prod.snd).Sublist h1.pending) (hkd : KeysDistinct h1.pending (x :: G1))
    (hclean : ∀ e, Out.cbError e ∉ (oneShotSnapS S2F v p4 sc true p h1.pending h1 []).2) :
    FlatOf S2F v p4 sc h1 p := by
  have nofire := flatOf_nofire S2F v p4 sc h1 p
  rcases hwf with ⟨hc12, _, hnone⟩ | ⟨hc3, k, i, hi, hdat, hent⟩
  · have hne : p.chan ≠ 3 := by rw [hch]; rcases hc12 with h | h <;> omega
    exact nofire (fun e _ => by rw [nofire_of_chan hne]; simp)
  · obtain ⟨body, hpd⟩ := hbody hc3
    rw [hdat] at hpd
    have hpc : p.chan = 3 := by rw [hch, hc3]
    have hk8 := kind_cmd_lt k
    cases hx2 : x.2 with
    | none =>
      apply nofire
      intro y hy hf
      obtain ⟨f1, f2, f3⟩ := fires_key hpc hk8 hi hpd hf
      have hkey : y.key = x.1.data := by rw [Pending.key, f1, f2, hdat]
      have h1' : y.key ∈ regKeys h1.pending := List.mem_map.mpr ⟨y, List.mem_filter.mpr ⟨hy, by simp [f3]⟩, rfl⟩
      have h2' : x.1.data ∈ cblessKeys (x :: G1) :=
        List.mem_map.mpr ⟨x, List.mem_filter.mpr ⟨by simp, by simp [hc3, hx2]⟩, rfl⟩
      exact (List.nodup_append.mp hkd).2.2 _ h1' _ h2' hkey
    | some e =>
      obtain ⟨e1, e2, e3⟩ := hent e hx2
      rw [List.filterMap_cons, hx2] at hsub
      have hmem : e ∈ h1.pending := hsub.subset (by simp)
      obtain ⟨es1, es2, hsplit⟩ := List.append_of_mem hmem
      have hfe : oneShotMatches true e p = .ok true :=
        fires_of hpc (by rw [e2]; exact hi) e3 (body := body) (by rw [Pending.key, e1, e2]; exact hpd)
      have hnd : (((es1 ++ e :: es2).filter (fun e => !e.noElem)).map Pending.key).Nodup := by
        have := (List.nodup_append.mp hkd).1
        rw [regKeys, hsplit] at this; exact this
      have hother : ∀ y, y ∈ es1 ∨ y ∈ es2 → oneShotMatches true y p ≠ .ok true := by
        intro y hy hf
        obtain ⟨f1, f2, f3⟩ := fires_key hpc hk8 hi hpd hf
        exact nodup_mid Pending.key (fun e => !e.noElem) hnd (by simp [e3]) (by simp [f3])
          (by rw [Pending.key, Pending.key, f1, f2, e1, e2]) hy
      obtain ⟨o1, o2, hsn, q1, q2⟩ := oneShotSnap_one (p := p) (e := e) es1 es2 h1 []
        (fun y hy => hother y (Or.inl hy)) (fun y hy => hother y (Or.inr hy)) hfe
      obtain ⟨o1', o2', hsn', q1', q2'⟩ := oneShotSnapS_one (S2F := S2F) (v := v) (p4 := p4) (sc := sc) (p := p) (e := e) es1 es2 h1 []
        (fun y hy => hother y (Or.inl hy)) (fun y hy => hother y (Or.inr hy))
      rw [hsplit] at hclean
      rw [hsn'] at hclean
      rw [← hsplit] at hsn hsn'
      unfold FlatOf
      rw [hsn, hsn']
      obtain ⟨a1, a2, a3, a4, a5⟩ := quiet_proj q1
      obtain ⟨b1, b2, b3, b4, b5⟩ := quiet_proj q2
      obtain ⟨a1', a2', a3', a4', a5'⟩ := quiet_proj q1'
      obtain ⟨b1', b2', b3', b4', b5'⟩ := quiet_proj q2'
      -- what the firing callback does
      by_cases hmisc : ∃ r cn res, (handleMisc e p).1 = [.misc r cn res]
      · obtain ⟨r, cn, res, hout⟩ := hmisc
        obtain ⟨hq, Δ, so, ok, hind⟩ := runScript_indep S2F v p4 (sc r) h1
        have hrs : runScript S2F v p4 h1 (sc r) = ({ hq with pending := h1.pending ++ Δ }, so, ok) := by
          have := hind h1.pending
          rw [show ({ h1 with pending := h1.pending } : Host) = h1 from host_eta h1] at this
          exact this
        have hcall : oneShotCallS S2F v p4 sc true h1 e p =
            (if (handleMisc e p).2 && (ok || !Gen.C04.unregAfterCallback) then { hq with pending := (h1.pending ++ Δ).erase e }
             else { hq with pending := h1.pending ++ Δ }, [.misc r cn res] ++ so) := by
          unfold oneShotCallS
          rw [hfe]
          simp only [hout, hrs]
        rw [hcall] at hclean ⊢
        have hok : ok = true := by
          cases hok : ok with
          | true => rfl
          | false =>
            exfalso
            have := runScript_fail (S2F := S2F) (v := v) (p4 := p4) (sc r) h1 (by rw [hrs, hok])
            obtain ⟨er, her⟩ := this
            rw [hrs] at her
            exact hclean er (by simp only [List.mem_append]; exact Or.inl (Or.inr (Or.inr her)))
        subst hok
        refine ⟨sc r, ?_, ?_, ?_⟩
        · simp only [Bool.true_or, Bool.and_true]
          by_cases hdone : (handleMisc e p).2 = true
          · simp only [hdone, if_true]
            rw [hind (h1.pending.erase e), List.erase_append_left _ hmem]
          · simp only [hdone, Bool.false_eq_true, if_false]
            rw [hrs]
        · by_cases hdone : (handleMisc e p).2 = true
          · simp only [hdone, if_true]; rw [hind (h1.pending.erase e)]
          · simp only [hdone, Bool.false_eq_true, if_false]; rw [hrs]
        · have hso : (runScript S2F v p4 (if (handleMisc e p).2 = true then { h1 with pending := h1.pending.erase e } else h1) (sc r)).2.1 = so := by
            by_cases hdone : (handleMisc e p).2 = true
            · simp only [hdone, if_true]; rw [hind (h1.pending.erase e)]
            · simp only [hdone, Bool.false_eq_true, if_false]; rw [hrs]
          rw [hso, hout]
          refine ⟨?_, ?_, ?_, ?_, ?_⟩
          · simp only [enqsOf_append, a1, b1, a1', b1', List.append_nil, List.nil_append]
          · simp only [txsOf_append, a2, b2, a2', b2', List.append_nil, List.nil_append]
          · simp only [rxdsOf_append, a3, b3, a3', b3', List.append_nil, List.nil_append]
          · simp only [obsOf_append, a4, b4, a4', b4', List.append_nil, List.nil_append]
          · simp only [miscCallsOf_append, a5, b5, a5', b5', List.append_nil, List.nil_append]
      · -- the handler raised before calling the callback, or there is no callback: nothing re-enters
        have hcall : oneShotCallS S2F v p4 sc true h1 e p =
            (if (handleMisc e p).2 then { h1 with pending := h1.pending.erase e } else h1, (handleMisc e p).1) := by
          unfold oneShotCallS
          rw [hfe]
          simp only
          split
          · rename_i r cn res hh; exact absurd ⟨r, cn, res, hh⟩ hmisc
          · rfl
        rw [hcall]
        refine ⟨[], rfl, rfl, ?_⟩
        simp only [runScript, List.append_nil]
        refine ⟨?_, ?_, ?_, ?_, ?_⟩
        · simp only [enqsOf_append, a1, b1, a1', b1']
        · simp only [txsOf_append, a2, b2, a2', b2']
        · simp only [rxdsOf_append, a3, b3, a3', b3']
        · simp only [obsOf_append, a4, b4, a4', b4']
        · simp only [miscCallsOf_append, a5, b5, a5', b5']

/-! ### the closed system with re-entrant callbacks -/

theorem Inv.proj {v2 : Bool} {s : Sys} {outs outs' : List Out} {A G : List (Pkt × Option Pending)} {W : List Pkt}
    (h : Inv v2 s outs A G W) (hp : ProjEq outs' outs) : Inv v2 s outs' A G W := by
  obtain ⟨p1, p2, p3, p4, _⟩ := hp
  exact ⟨h.dv2, h.useV2, h.updV2, by rw [p1]; exact h.enq, h.gq, h.wf, h.lock, h.pat, h.wait, by rw [p2]; exact h.txs,
    by rw [p3]; exact h.rx, by rw [p2, p3]; exact h.ans, by rw [p4]; exact h.alt⟩

theorem Att.proj {s : Sys} {outs outs' : List Out} {A G : List (Pkt × Option Pending)} (h : Att s outs A G) (hp : ProjEq outs' outs) :
    Att s outs' A G := by
  obtain ⟨_, _, p3, _, p5⟩ := hp
  exact ⟨h.pendSub, by rw [p5, p3]; exact h.misc⟩

theorem runScript_cons_ok (S2F : List Char → Except PyErr Nat) (v : Variant) (p4 : Bool) (h : Host) (c : Api) (cs : List Api)
    (hne : ∀ e, (c.run S2F v p4 h).2 ≠ [.raised e]) :
    runScript S2F v p4 h (c :: cs) =
      ((runScript S2F v p4 (c.run S2F v p4 h).1 cs).1, (c.run S2F v p4 h).2 ++ (runScript S2F v p4 (c.run S2F v p4 h).1 cs).2.1,
       (runScript S2F v p4 (c.run S2F v p4 h).1 cs).2.2) := by
  have hm : ∀ o : List Out, (∀ e, o ≠ [.raised e]) → ∀ (α : Type) (a : PyErr → α) (b : α),
      (match o with | [.raised e] => a e | _ => b) = b := by
    intro o ho α a b
    split
    · rename_i e; exact absurd rfl (ho e)
    · rfl
  simp only [runScript]
  first | done | exact hm _ hne _ _ _

theorem runScript_cons_raise (S2F : List Char → Except PyErr Nat) (v : Variant) (p4 : Bool) (h : Host) (c : Api) (cs : List Api)
    (e : PyErr) (he : (c.run S2F v p4 h).2 = [.raised e]) : (runScript S2F v p4 h (c :: cs)).2.2 = false := by
  simp only [runScript, he]

theorem runScript_inv (S2F : List Char → Except PyErr Nat) (v : Variant) (hv : v.routing = 1) {v2 : Bool} :
    ∀ (cs : List Api) (s : Sys) (pre : List Out) (A G : List (Pkt × Option Pending)) (W : List Pkt), Inv v2 s pre A G W →
      (runScript S2F v s.dev.v2 s.host cs).2.2 = true →
      ∃ G', Inv v2 { s with host := (runScript S2F v s.dev.v2 s.host cs).1 } (pre ++ (runScript S2F v s.dev.v2 s.host cs).2.1) A G' W ∧
        (Att s pre A G → Att { s with host := (runScript S2F v s.dev.v2 s.host cs).1 } (pre ++ (runScript S2F v s.dev.v2 s.host cs).2.1) A G')
  | [], s, pre, A, G, W, hinv, _ => ⟨G, by simpa [runScript] using hinv, fun h => by simpa [runScript] using h⟩
  | c :: cs, s, pre, A, G, W, hinv, hok => by
    obtain ⟨G1, hi1, ha1⟩ := step_api S2F v hv hinv c
    by_cases hr : ∃ e, (c.run S2F v s.dev.v2 s.host).2 = [.raised e]
    · obtain ⟨e, he⟩ := hr
      rw [runScript_cons_raise S2F v _ _ c cs e he] at hok
      cases hok
    · have hne : ∀ e, (c.run S2F v s.dev.v2 s.host).2 ≠ [.raised e] := fun e he => hr ⟨e, he⟩
      rw [runScript_cons_ok S2F v _ _ c cs hne] at hok ⊢
      simp only at hok ⊢
      obtain ⟨G2, hi2, ha2⟩ := runScript_inv S2F v hv cs { s with host := (c.run S2F v s.dev.v2 s.host).1 }
        (pre ++ (c.run S2F v s.dev.v2 s.host).2) A G1 W hi1 hok
      refine ⟨G2, ?_, fun h => ?_⟩
      · rw [← List.append_assoc]; exact hi2
      · rw [← List.append_assoc]; exact ha2 (ha1 h)

theorem rxS_snap (S2F : List Char → Except PyErr Nat) (v : Variant) (hv : v.routing = 1) (hs : v.snap = true) (p4 : Bool) (sc : Scripts)
    (h : Host) (p : Pkt) :
    rxS S2F v p4 sc h p =
      ((oneShotSnapS S2F v p4 sc true (updaterRx h p).2.2 (updaterRx h p).1.pending (updaterRx h p).1 []).1,
       .rxd p :: ((updaterRx h p).2.1 ++ (oneShotSnapS S2F v p4 sc true (updaterRx h p).2.2 (updaterRx h p).1.pending (updaterRx h p).1 []).2)) := by
  unfold rxS
  simp only [hv, hs, if_true, show ¬ ((1 : Nat) = 2) by decide, if_false, decide_true]

theorem rx_snap' (v : Variant) (hv : v.routing = 1) (hs : v.snap = true) (h : Host) (p : Pkt) :
    rx v h p =
      ((oneShotSnap true (updaterRx h p).2.2 (updaterRx h p).1.pending (updaterRx h p).1 []).1,
       .rxd p :: ((updaterRx h p).2.1 ++ (oneShotSnap true (updaterRx h p).2.2 (updaterRx h p).1.pending (updaterRx h p).1 []).2)) := by
  unfold rx
  simp only
  rw [miscRx_snap v hv hs]

/-- a nested delivery step = the plain delivery step, then the API calls of the callback that ran -/
theorem rxS_flat_of (S2F : List Char → Except PyErr Nat) (v : Variant) (hv : v.routing = 1) (hs : v.snap = true) (p4 : Bool)
    (sc : Scripts) (h : Host) (p : Pkt)
    (hf : FlatOf S2F v p4 sc (updaterRx h p).1 (updaterRx h p).2.2) :
    ∃ cs, (rxS S2F v p4 sc h p).1 = (runScript S2F v p4 (rx v h p).1 cs).1 ∧ (runScript S2F v p4 (rx v h p).1 cs).2.2 = true ∧
      ProjEq (rxS S2F v p4 sc h p).2 ((rx v h p).2 ++ (runScript S2F v p4 (rx v h p).1 cs).2.1) := by
  obtain ⟨cs, f1, f2, f3⟩ := hf
  rw [rxS_snap S2F v hv hs, rx_snap' v hv hs]
  refine ⟨cs, f1, f2, ?_⟩
  simp only
  have := ProjEq.append_left ([Out.rxd p] ++ (updaterRx h p).2.1) f3
  simpa [List.append_assoc] using this

theorem stepS_inv (S2F : List Char → Except PyErr Nat) (v : Variant) (hv : v.routing = 1) (hs : v.snap = true) (sc : Scripts) {v2 : Bool}
    {s s1 : Sys} {pre o1 : List Out} {A G : List (Pkt × Option Pending)} {W : List Pkt} (hinv : Inv v2 s pre A G W)
    (e : Ev) (hstep : s.stepS S2F v sc e = some (s1, o1)) (hatt : Att s pre A G) (hkd : KeysDistinct s.host.pending G)
    (hclean : ∀ er, Out.cbError er ∉ o1) :
    ∃ A1 G1 W1, Inv v2 s1 (pre ++ o1) A1 G1 W1 ∧ Att s1 (pre ++ o1) A1 G1 := by
  have plain : s.step S2F v e = some (s1, o1) → ∃ A1 G1 W1, Inv v2 s1 (pre ++ o1) A1 G1 W1 ∧ Att s1 (pre ++ o1) A1 G1 := fun h => by
    obtain ⟨A1, G1, W1, hi, ha⟩ := step_inv S2F v hv hs hinv e h
    exact ⟨A1, G1, W1, hi, ha hatt hkd⟩
  cases e with
  | api t c => exact plain hstep
  | updGet => exact plain hstep
  | updSend => exact plain hstep
  | devSet i raw n => exact plain hstep
  | deliver =>
    simp only [Sys.stepS] at hstep
    cases hd : s.down with
    | nil => rw [hd] at hstep; cases hstep
    | cons p rest =>
      rw [hd] at hstep
      simp only [Option.some.injEq, Prod.mk.injEq] at hstep
      obtain ⟨rfl, rfl⟩ := hstep
      -- the nested dispatch is the plain one followed by the API calls of the callback that ran
      have hflat : FlatOf S2F v s.dev.v2 sc (updaterRx s.host p).1 (updaterRx s.host p).2.2 := by
        rcases hu : updaterRx s.host p with ⟨h1, o1', p1⟩
        obtain ⟨sq, _, _, hp1c, hp1⟩ := updaterRx_spec hu
        simp only
        cases hn : isNotif p with
        | true =>
          obtain ⟨hc3, _⟩ := isNotif_iff hn
          have := hp1 hc3; subst this
          exact flatOf_nofire S2F v _ sc h1 p1 (fun e _ => nofire_notif e hn)
        | false =>
          have hsol : solicited s.down = p :: solicited rest := by
            rw [hd]; show solicited ([p] ++ rest) = _
            rw [solicited_append, solicited_reply hn]; rfl
          obtain ⟨req, rep, hw⟩ : ∃ req rep, Waiting v2 s W req rep := by
            rcases hinv.wait with h | h
            · rw [hsol] at h; cases h.2
            · exact h
          have hdn := hw.down
          rw [hsol] at hdn
          simp only [List.cons.injEq] at hdn
          obtain ⟨hprep, _⟩ := hdn
          subst hprep
          have hgq := hinv.gq
          rw [hw.w] at hgq
          obtain ⟨x, G1, rfl⟩ : ∃ x G1, G = x :: G1 := by
            cases G with
            | nil => simp at hgq
            | cons x G1 => exact ⟨x, G1, rfl⟩
          simp only [List.map_cons, List.cons_append, List.nil_append, List.cons.injEq] at hgq
          have hx1 : x.1 = req := hgq.1
          have hwfx : ReqWF v2 x := hinv.wf x (by simp)
          have hchx : p1.chan = x.1.chan := by rw [hp1c, hw.chan, hx1]
          have hbodyx : x.1.chan = 3 → ∃ body, p1.data = x.1.data ++ body := by
            intro h3
            have hp3 : p.chan = 3 := by rw [hw.chan, ← hx1]; exact h3
            rw [hp1 hp3, hx1]
            exact hw.body (by rw [← hx1]; exact h3)
          refine snapS_flat S2F v hv _ sc hwfx hchx hbodyx (by rw [sq.pending]; exact hatt.pendSub) (by rw [sq.pending]; exact hkd) ?_
          intro er her
          apply hclean er
          rw [rxS_snap S2F v hv hs, hu]
          simp only [List.mem_cons, List.mem_append]
          exact Or.inr (Or.inr her)
      obtain ⟨cs, f1, f2, f3⟩ := rxS_flat_of S2F v hv hs s.dev.v2 sc s.host p hflat
      -- the plain step
      have hstepF : s.step S2F v .deliver = some ({ s with host := (rx v s.host p).1, down := rest }, (rx v s.host p).2) := by
        simp only [Sys.step, hd]
      obtain ⟨A1, G1, W1, hi1, ha1⟩ := step_inv S2F v hv hs hinv .deliver hstepF
      -- followed by the script
      obtain ⟨G2, hi2, ha2⟩ := runScript_inv S2F v hv cs { s with host := (rx v s.host p).1, down := rest }
        (pre ++ (rx v s.host p).2) A1 G1 W1 hi1 f2
      refine ⟨A1, G2, W1, ?_, ?_⟩
      · have := hi2.proj (outs' := pre ++ (rxS S2F v s.dev.v2 sc s.host p).2) (by
          rw [List.append_assoc]; exact ProjEq.append_left pre f3)
        rw [f1]; exact this
      · have := (ha2 (ha1 hatt hkd)).proj (outs' := pre ++ (rxS S2F v s.dev.v2 sc s.host p).2) (by
          rw [List.append_assoc]; exact ProjEq.append_left pre f3)
        rw [f1]; exact this

theorem runS_inv (S2F : List Char → Except PyErr Nat) (v : Variant) (hv : v.routing = 1) (hs : v.snap = true) (sc : Scripts) {v2 : Bool} :
    ∀ (evs : List Ev) (s : Sys) (pre : List Out) (A G : List (Pkt × Option Pending)) (W : List Pkt),
      Inv v2 s pre A G W → Att s pre A G → ∀ (s' : Sys) (o : List Out), Sys.runS S2F v sc s evs = some (s', o) →
      DistinctAlongS S2F v sc s pre evs → (∀ er, Out.cbError er ∉ o) →
      ∃ A' G' W', Inv v2 s' (pre ++ o) A' G' W' ∧ Att s' (pre ++ o) A' G'
  | [], s, pre, A, G, W, hinv, hatt, s', o, hrun, _, _ => by
    simp only [Sys.runS, Option.some.injEq, Prod.mk.injEq] at hrun
    obtain ⟨rfl, rfl⟩ := hrun
    exact ⟨A, G, W, by rw [List.append_nil]; exact hinv, by rw [List.append_nil]; exact hatt⟩
  | e :: es, s, pre, A, G, W, hinv, hatt, s', o, hrun, hda, hclean => by
    simp only [Sys.runS] at hrun
    cases hst : s.stepS S2F v sc e with
    | none => rw [hst] at hrun; cases hrun
    | some r1 =>
      obtain ⟨s1, o1⟩ := r1
      rw [hst] at hrun
      simp only at hrun
      cases hr2 : Sys.runS S2F v sc s1 es with
      | none => rw [hr2] at hrun; cases hrun
      | some r2 =>
        obtain ⟨s2, o2⟩ := r2
        rw [hr2] at hrun
        simp only [Option.some.injEq, Prod.mk.injEq] at hrun
        obtain ⟨rfl, rfl⟩ := hrun
        simp only [DistinctAlongS, hst] at hda
        rw [hinv.unanswered] at hda
        obtain ⟨A1, G1, W1, hi1, ha1⟩ := stepS_inv S2F v hv hs sc hinv e hst hatt hda.1
          (fun er her => hclean er (List.mem_append_left _ her))
        obtain ⟨A2, G2, W2, hi2, ha2⟩ := runS_inv S2F v hv hs sc es s1 (pre ++ o1) A1 G1 W1 hi1 ha1 s2 o2 hr2 hda.2
          (fun er her => hclean er (List.mem_append_right _ her))
        exact ⟨A2, G2, W2, by rw [← List.append_assoc]; exact hi2, by rw [← List.append_assoc]; exact ha2⟩

end CfVerif.C04

/-
Proofs/C04Open - the open system (Spec/C04 `EvX`): arbitrary packets - duplicated, late, stale, forged - may be dispatched
at any time.  Lock discipline, FIFO and "updates only when answering" hold for ALL such histories.  Core Lean only.
-/
import CfVerif.Proofs.C04Round
namespace CfVerif.C04
open CfVerif

/-! ### a packet that does not match the armed pattern is ignored -/

theorem oneShotSnap_chan {m : Bool} {p : Pkt} (hc : p.chan ≠ 3) : ∀ (es : List Pending) (h : Host) (acc : List Out),
    oneShotSnap m p es h acc = (h, acc)
  | [], _, _ => rfl
  | e :: es, h, acc => by
    have hm : oneShotMatches m e p = .ok false := by
      unfold oneShotMatches
      rw [if_pos (by rw [gen_write_channel.2.2.1]; exact hc)]
    simp only [oneShotSnap, oneShotCall, hm, List.append_nil]
    exact oneShotSnap_chan hc es h acc

/-- a read/write-channel packet whose index bytes are not the armed pattern: nothing changes, nobody is called -/
theorem rx_unmatched (v : Variant) (hv : v.routing = 1) (hs : v.snap = true) (h : Host) (p : Pkt)
    (hc : p.chan = 1 ∨ p.chan = 2) (hne : h.pattern ≠ some (relPattern h.updV2 p)) :
    rx v h p = (h, [.rxd p]) := by
  obtain ⟨c0, c1, c2, c3⟩ := gen_write_channel
  have hch : p.chan = Gen.C04.READ_CHANNEL ∨ p.chan = Gen.C04.WRITE_CHANNEL := by rw [c0, c1]; exact hc
  have hur : updaterRx h p = (h, [], stripStatus h.updV2 p) := by
    unfold updaterRx
    rw [if_pos hch]
    simp only
    rw [if_neg hne]
  have hsc : (stripStatus h.updV2 p).chan ≠ 3 := by
    have : (stripStatus h.updV2 p).chan = p.chan := by unfold stripStatus; split <;> rfl
    rw [this]; rcases hc with h1 | h1 <;> omega
  unfold rx
  rw [hur]
  simp only
  rw [miscRx_snap v hv hs, oneShotSnap_chan hsc]
  rfl

/-- an accepted read/write reply: exactly one `_param_updated` (one fan-out), then the release -/
theorem rx_rw_cases (v : Variant) (hv : v.routing = 1) (hs : v.snap = true) (h : Host) (p : Pkt) (hc : p.chan = 1 ∨ p.chan = 2) :
    rx v h p = (h, [.rxd p]) ∨
    (∃ e, rx v h p = (h, [.rxd p, .cbError e])) ∨
    (h.pattern = some (relPattern h.updV2 p) ∧ ∃ h1 fo, paramUpdated h (stripStatus h.updV2 p) = .ok (h1, fo) ∧
      rx v h p = (release h1, .rxd p :: (fo ++ [.released p]))) := by
  by_cases hpat : h.pattern = some (relPattern h.updV2 p)
  · obtain ⟨c0, c1, c2, c3⟩ := gen_write_channel
    have hch : p.chan = Gen.C04.READ_CHANNEL ∨ p.chan = Gen.C04.WRITE_CHANNEL := by rw [c0, c1]; exact hc
    have hsc : (stripStatus h.updV2 p).chan ≠ 3 := by
      have : (stripStatus h.updV2 p).chan = p.chan := by unfold stripStatus; split <;> rfl
      rw [this]; rcases hc with h1 | h1 <;> omega
    cases hpu : paramUpdated h (stripStatus h.updV2 p) with
    | error e =>
      refine Or.inr (Or.inl ⟨e, ?_⟩)
      have hur : updaterRx h p = (h, [.cbError e], stripStatus h.updV2 p) := by
        unfold updaterRx; rw [if_pos hch]; simp only; rw [if_pos hpat, hpu]
      unfold rx; rw [hur]; simp only
      rw [miscRx_snap v hv hs, oneShotSnap_chan hsc]; rfl
    | ok r =>
      obtain ⟨h1, fo⟩ := r
      refine Or.inr (Or.inr ⟨hpat, h1, fo, rfl, ?_⟩)
      have hur : updaterRx h p = (release h1, fo ++ [.released p], stripStatus h.updV2 p) := by
        unfold updaterRx; rw [if_pos hch]; simp only; rw [if_pos hpat, hpu]
      unfold rx; rw [hur]; simp only
      rw [miscRx_snap v hv hs, oneShotSnap_chan hsc]; simp
  · exact Or.inl (rx_unmatched v hv hs h p hc hpat)

/-! ### the invariant of the open system -/

theorem Dev.handle_v2_any (d : Dev) (p : Pkt) : (d.handle p).1.v2 = d.v2 := by
  unfold Dev.handle
  split
  · unfold Dev.read; repeat' split
    all_goals rfl
  · split
    · unfold Dev.write
      split
      · rfl
      · split
        · rfl
        · simp only
          split <;> rfl
    · split
      · unfold Dev.misc
        split
        · split
          · rename_i hb; exact Dev.miscBody_v2 hb
          · rfl
        · rfl
      · rfl

/-- `outs`: the outputs so far -/
structure InvO (v2 : Bool) (s : Sys) (outs : List Out) : Prop where
  dv2 : s.dev.v2 = v2
  useV2 : s.host.useV2 = v2
  updV2 : s.host.updV2 = v2
  fifo : txsOf outs ++ s.host.cur.toList ++ s.host.queue = (enqsOf outs).map Prod.fst
  lock : s.host.pattern.isSome = s.host.lockHeld
  alt : ∃ st, altRunM v2 none (obsOf outs) = some st ∧ st.isSome = s.host.lockHeld ∧
    ∀ req, st = some req → s.host.pattern = some (lockPatternOf v2 req)

theorem altRunM_append (v2 : Bool) : ∀ (a b : List Obs) (st : Option Pkt),
    altRunM v2 st (a ++ b) = match altRunM v2 st a with | none => none | some st' => altRunM v2 st' b
  | [], b, st => by simp [altRunM]
  | o :: os, b, st => by
    simp only [List.cons_append, altRunM]
    cases altStepM v2 st o with
    | none => rfl
    | some st' => exact altRunM_append v2 os b st'

/-- dispatching ANY packet preserves the invariant -/
theorem rx_invO (v : Variant) (hv : v.routing = 1) (hs : v.snap = true) {v2 : Bool} {s : Sys} {pre : List Out}
    (hinv : InvO v2 s pre) (p : Pkt) (down' : List Pkt) :
    InvO v2 { s with host := (rx v s.host p).1, down := down' } (pre ++ (rx v s.host p).2) := by
  unfold rx
  rcases hu : updaterRx s.host p with ⟨h1, o1, p1⟩
  obtain ⟨sq, nio, lk, _, _⟩ := updaterRx_spec hu
  simp only
  rw [miscRx_snap v hv hs]
  obtain ⟨fr, q2⟩ := oneShotSnap_frame true p1 h1.pending h1 [] (by simp)
  obtain ⟨r1, r2, r3, r4, r5⟩ := rx_proj (p := p) nio q2
  generalize oneShotSnap true p1 h1.pending h1 [] = res at fr q2 r1 r2 r3 r4 r5
  obtain ⟨h2, o2⟩ := res
  simp only at fr q2 r1 r2 r3 r4 r5 ⊢
  refine ⟨hinv.dv2, by show h2.useV2 = v2; rw [fr.useV2, sq.useV2, hinv.useV2],
    by show h2.updV2 = v2; rw [fr.updV2, sq.updV2, hinv.updV2], ?_, ?_, ?_⟩
  · show txsOf _ ++ h2.cur.toList ++ h2.queue = _
    rw [txsOf_append, r2, List.append_nil, enqsOf_append, r1, List.append_nil, fr.cur, fr.queue, sq.cur, sq.queue]
    exact hinv.fifo
  · show h2.pattern.isSome = h2.lockHeld
    rw [fr.pattern, fr.lockHeld]
    cases lk with
    | same a b _ => rw [a, b]; exact hinv.lock
    | released a b _ _ => rw [a, b]; rfl
    | cleared _ a b _ _ => rw [a, b]; rfl
  · rw [obsOf_append, r4]
    obtain ⟨st, a1, a2, a3⟩ := hinv.alt
    cases lk with
    | same a b c =>
      rw [c, List.append_nil]
      exact ⟨st, a1, by show st.isSome = h2.lockHeld; rw [fr.lockHeld, a]; exact a2,
        fun req hr => by show h2.pattern = _; rw [fr.pattern, b]; exact a3 req hr⟩
    | released a b c hp =>
      -- the pattern was armed, so a request is outstanding, and the packet matches it
      have hheld : s.host.lockHeld = true := by rw [← hinv.lock, hp]; rfl
      cases st with
      | none => rw [hheld] at a2; cases a2
      | some req =>
        have hpat := a3 req rfl
        rw [hp, hinv.updV2] at hpat
        have hm : Matches v2 req p = true := by
          unfold Matches
          have := Option.some.inj hpat
          unfold rxKey at this
          simp only [beq_iff_eq]
          exact this.symm
        refine ⟨none, ?_, by show (none : Option Pkt).isSome = h2.lockHeld; rw [fr.lockHeld, a]; rfl, fun r hr => by cases hr⟩
        rw [altRunM_append, a1, c]
        simp only [altRunM, altStepM, hm, if_true]
    | cleared a0 _ _ _ hp =>
      have : s.host.lockHeld = true := by rw [← hinv.lock, hp]; rfl
      rw [this] at a0; cases a0

theorem stepX_invO (S2F : List Char → Except PyErr Nat) (v : Variant) (hv : v.routing = 1) (hs : v.snap = true) {v2 : Bool}
    {s s1 : Sys} {pre o1 : List Out} (hinv : InvO v2 s pre) (e : EvX) (hstep : s.stepX S2F v e = some (s1, o1)) :
    InvO v2 s1 (pre ++ o1) := by
  cases e with
  | inject p =>
    simp only [Sys.stepX, Option.some.injEq, Prod.mk.injEq] at hstep
    obtain ⟨rfl, rfl⟩ := hstep
    exact rx_invO v hv hs hinv p s.down
  | ev e =>
    simp only [Sys.stepX] at hstep
    cases e with
    | api t c =>
      simp only [Sys.step, Option.some.injEq, Prod.mk.injEq] at hstep
      obtain ⟨rfl, rfl⟩ := hstep
      have he : ApiEffect v2 s.host (c.run S2F v s.dev.v2 s.host).1 (c.run S2F v s.dev.v2 s.host).2 := by
        have := api_effect S2F v hv s.host c
        rw [hinv.useV2] at this
        rw [hinv.dv2]; exact this
      generalize c.run S2F v s.dev.v2 s.host = r at he
      obtain ⟨t1, t2, t3, t4⟩ := he.io
      refine ⟨hinv.dv2, by show r.1.useV2 = v2; rw [he.useV2, hinv.useV2], ?_, ?_, ?_, ?_⟩
      · rcases he.updV2 with h | h
        · show r.1.updV2 = v2; rw [h, hinv.updV2]
        · exact h
      · show txsOf _ ++ r.1.cur.toList ++ r.1.queue = _
        rw [txsOf_append, t1, List.append_nil, enqsOf_append, he.cur, List.map_append, ← hinv.fifo]
        rcases he.q with ⟨q1, q2, _⟩ | ⟨p, eo, q1, q2, _, _⟩
        · rw [q1, q2]; simp
        · rw [q1, q2]; simp
      · show r.1.pattern.isSome = r.1.lockHeld
        rw [he.pattern, he.lockHeld]; exact hinv.lock
      · rw [obsOf_append, t3, List.append_nil]
        obtain ⟨st, a1, a2, a3⟩ := hinv.alt
        exact ⟨st, a1, by show st.isSome = r.1.lockHeld; rw [he.lockHeld]; exact a2,
          fun req hr => by show r.1.pattern = _; rw [he.pattern]; exact a3 req hr⟩
    | updGet =>
      simp only [Sys.step] at hstep
      cases hg : updGet s.host with
      | none => rw [hg] at hstep; cases hstep
      | some h' =>
        rw [hg] at hstep
        simp only [Option.map_some, Option.some.injEq, Prod.mk.injEq] at hstep
        obtain ⟨rfl, rfl⟩ := hstep
        unfold updGet at hg
        split at hg
        · rename_i p q hc hq
          cases hg
          rw [List.append_nil]
          refine ⟨hinv.dv2, hinv.useV2, hinv.updV2, ?_, hinv.lock, hinv.alt⟩
          show txsOf pre ++ (some p).toList ++ q = _
          rw [← hinv.fifo, hc, hq]; simp
        · cases hg
    | updSend =>
      simp only [Sys.step] at hstep
      cases hg : updSend s.host with
      | none => rw [hg] at hstep; cases hstep
      | some r =>
        obtain ⟨h', o⟩ := r
        rw [hg] at hstep
        unfold updSend at hg
        split at hg
        · rename_i p hc
          split at hg
          · cases hg
          · rename_i hl
            have hl : s.host.lockHeld = false := by simpa using hl
            simp only [Option.some.injEq, Prod.mk.injEq] at hg
            obtain ⟨rfl, rfl⟩ := hg
            simp only [Option.some.injEq, Prod.mk.injEq] at hstep
            obtain ⟨rfl, rfl⟩ := hstep
            refine ⟨by show (s.dev.handle p).1.v2 = v2; rw [Dev.handle_v2_any, hinv.dv2], hinv.useV2, hinv.updV2, ?_, rfl, ?_⟩
            · show txsOf (pre ++ [.tx p]) ++ (none : Option Pkt).toList ++ s.host.queue = _
              have := hinv.fifo
              rw [hc] at this
              rw [txsOf_append, enqsOf_append, show enqsOf [Out.tx p] = [] from rfl, show txsOf [Out.tx p] = [p] from rfl,
                List.append_nil, ← this]
              simp
            · obtain ⟨st, a1, a2, _⟩ := hinv.alt
              rw [hl] at a2
              have hst : st = none := by cases st <;> simp_all
              subst hst
              refine ⟨some p, ?_, rfl, fun req hr => by cases hr; show some _ = some _; rw [hinv.updV2]⟩
              rw [obsOf_append, altRunM_append, a1]; rfl
        · cases hg
    | deliver =>
      simp only [Sys.step] at hstep
      cases hd : s.down with
      | nil => rw [hd] at hstep; cases hstep
      | cons p rest =>
        rw [hd] at hstep
        simp only [Option.some.injEq, Prod.mk.injEq] at hstep
        obtain ⟨rfl, rfl⟩ := hstep
        exact rx_invO v hv hs hinv p rest
    | devSet i raw n =>
      simp only [Sys.step, Option.some.injEq, Prod.mk.injEq] at hstep
      obtain ⟨rfl, rfl⟩ := hstep
      rw [List.append_nil]
      exact ⟨hinv.dv2, hinv.useV2, hinv.updV2, hinv.fifo, hinv.lock, hinv.alt⟩

theorem runX_invO (S2F : List Char → Except PyErr Nat) (v : Variant) (hv : v.routing = 1) (hs : v.snap = true) {v2 : Bool} :
    ∀ (evs : List EvX) (s : Sys) (pre : List Out), InvO v2 s pre → ∀ (s' : Sys) (o : List Out),
      Sys.runX S2F v s evs = some (s', o) → InvO v2 s' (pre ++ o)
  | [], s, pre, hinv, s', o, hrun => by
    simp only [Sys.runX, Option.some.injEq, Prod.mk.injEq] at hrun
    obtain ⟨rfl, rfl⟩ := hrun
    rw [List.append_nil]; exact hinv
  | e :: es, s, pre, hinv, s', o, hrun => by
    simp only [Sys.runX] at hrun
    cases hst : s.stepX S2F v e with
    | none => rw [hst] at hrun; cases hrun
    | some r1 =>
      obtain ⟨s1, o1⟩ := r1
      rw [hst] at hrun
      simp only at hrun
      cases hr2 : Sys.runX S2F v s1 es with
      | none => rw [hr2] at hrun; cases hrun
      | some r2 =>
        obtain ⟨s2, o2⟩ := r2
        rw [hr2] at hrun
        simp only [Option.some.injEq, Prod.mk.injEq] at hrun
        obtain ⟨rfl, rfl⟩ := hrun
        have := runX_invO S2F v hv hs es s1 (pre ++ o1) (stepX_invO S2F v hv hs hinv e hst) s2 o2 hr2
        rw [← List.append_assoc]; exact this

theorem InvO.init {s : Sys} (h0 : s.Idle) : InvO s.dev.v2 s [] :=
  ⟨rfl, h0.useV2, h0.updV2, by rw [h0.cur, h0.queue]; rfl, by rw [h0.pattern, h0.lock]; rfl,
    ⟨none, rfl, by rw [h0.lock]; rfl, fun r hr => by cases hr⟩⟩

end CfVerif.C04

/-
Proofs/C04Retry - the retransmission path of `Crazyflie.send_packet` in the system (Spec/C04 `SysR`): whatever is duplicated,
delayed or injected, and however timer expiry, timer callback, answers and new requests interleave, a retransmission repeats
the outstanding request (unless an answer was accepted from the other channel before: D5c).  Core Lean only.
-/
import CfVerif.Proofs.C04Open
namespace CfVerif.C04
open CfVerif

/-! ### the guard of the resend path (Tie A obligations on the extracted conditions) -/

theorem gen_guard_stale : ∀ lo he nr pe : Bool,
    Gen.C04.sendTransmits lo he true nr pe false = false ∧ Gen.C04.sendArms lo he true nr pe false = false := by decide
theorem gen_guard_live : ∀ he nr pe : Bool,
    Gen.C04.sendTransmits true he true nr pe true = true ∧ Gen.C04.sendArms true he true nr pe true = true := by decide
theorem gen_fresh : ∀ he nr pe ti : Bool,
    Gen.C04.sendTransmits true he false nr pe ti = true ∧ Gen.C04.sendArms true he false nr pe ti = (he && nr) := by decide

/-! ### helpers -/

theorem altRunR_append (v2 : Bool) : ∀ (a b : List ObsR) (st : Option Pkt × Bool),
    altRunR v2 st (a ++ b) = match altRunR v2 st a with | none => none | some st' => altRunR v2 st' b
  | [], b, st => by simp [altRunR]
  | o :: os, b, st => by
    simp only [List.cons_append, altRunR]
    cases altStepR v2 st o with
    | none => rfl
    | some st' => exact altRunR_append v2 os b st'

theorem take_take_self {α} (d : List α) (k : Nat) : d.take (d.take k).length = d.take k := by
  rw [List.length_take]
  rcases Nat.le_total k d.length with h | h
  · rw [Nat.min_eq_left h]
  · rw [Nat.min_eq_right h, List.take_of_length_le h, List.take_of_length_le (Nat.le_refl _)]

/-- an answer accepted from the request's own channel is also recognised by `_check_for_answers` -/
theorem matches_patMatches {v2 : Bool} {r q : Pkt} (hm : Matches v2 r q = true) (hc : q.chan = r.chan) :
    patMatches (patOf v2 r) q = true := by
  unfold Matches at hm
  simp only [beq_iff_eq] at hm
  have hk : ∃ k, lockPatternOf v2 r = q.data.take k := by
    split at hm
    · exact ⟨3, hm⟩
    · unfold relPattern at hm
      split at hm
      · exact ⟨_, hm⟩
      · exact ⟨_, hm⟩
  obtain ⟨k, hk⟩ := hk
  have h1 : (lockPatternOf v2 r).length ≤ q.data.length := by rw [hk, List.length_take]; exact Nat.min_le_right _ _
  have h2 : q.data.take (lockPatternOf v2 r).length = lockPatternOf v2 r := by rw [hk]; exact take_take_self _ _
  simp [patMatches, patOf, hc, h1, h2]

/-! ### the invariant -/

/-- while no answer was accepted from the other channel: at most one pattern is registered, it is the pattern of the
outstanding request, and its timer holds that request -/
def RetryOK (v2 : Bool) (s : SysR) (st : Option Pkt) : Prop :=
  s.pats = [] ∨ ∃ r i t, st = some r ∧ s.pats = [(patOf v2 r, i)] ∧ s.timers[i]? = some t ∧ t.pk = r ∧ t.pat = patOf v2 r

structure InvR (v2 : Bool) (s : SysR) (outs : List Out) (w : List ObsR) : Prop where
  o : InvO v2 s.base outs
  r : ∃ st x, altRunR v2 (none, false) w = some (st, x) ∧ altRunM v2 none (obsOf outs) = some st ∧
        (x = false → RetryOK v2 s st)

theorem InvR.init {s : SysR} (h0 : s.base.Idle) (hp : s.pats = []) : InvR s.base.dev.v2 s [] [] :=
  ⟨InvO.init h0, none, false, rfl, rfl, fun _ => Or.inl hp⟩

/-- a step that neither transmits, releases nor touches the retry state -/
theorem InvR.quiet_step {v2 : Bool} {s : SysR} {pre : List Out} {w : List ObsR} (hinv : InvR v2 s pre w)
    {b : Sys} {o : List Out} (hb : InvO v2 b (pre ++ o)) (hobs : obsOf o = []) :
    InvR v2 { s with base := b } (pre ++ o) (w ++ (obsOf o).map liftObs) := by
  obtain ⟨st, x, h1, h2, h3⟩ := hinv.r
  refine ⟨hb, st, x, ?_, ?_, h3⟩
  · rw [hobs]; simpa using h1
  · rw [obsOf_append, hobs, List.append_nil]; exact h2

theorem getPat_nil (P : Pat) : getPat [] P = none := rfl
theorem getPat_single (P Q : Pat) (i : Nat) : getPat [(P, i)] Q = if P = Q then some i else none := by
  unfold getPat
  by_cases h : P = Q
  · simp [h]
  · simp [h]
theorem setPat_nil (P : Pat) (i : Nat) : setPat [] P i = [(P, i)] := rfl
theorem setPat_single (P : Pat) (i j : Nat) : setPat [(P, i)] P j = [(P, j)] := by simp [setPat]

theorem longestMatch_single (q : Pkt) (P : Pat) (i : Nat) :
    longestMatch q [(P, i)] none = if patMatches P q then some (P, i) else none := by
  simp only [longestMatch]

/-- `_check_for_answers` only forgets patterns; with the single pattern of the outstanding request registered it forgets it
exactly when the packet matches it -/
theorem onReceive_ok {v2 : Bool} {s : SysR} {st : Option Pkt} (h : RetryOK v2 s st) (q : Pkt) :
    (s.onReceive q).base = s.base ∧ (s.onReceive q).nr = s.nr ∧ RetryOK v2 (s.onReceive q) st ∧
    (∀ r, st = some r → patMatches (patOf v2 r) q = true → (s.onReceive q).pats = []) := by
  rcases h with hp | ⟨r, i, t, hst, hp, ht, hpk, hpat⟩
  · have : s.onReceive q = s := by simp [SysR.onReceive, hp, longestMatch]
    rw [this]
    exact ⟨rfl, rfl, Or.inl hp, fun _ _ _ => hp⟩
  · unfold SysR.onReceive
    rw [hp, longestMatch_single]
    by_cases hm : patMatches (patOf v2 r) q = true
    · rw [if_pos hm]
      refine ⟨rfl, rfl, Or.inl (by simp), fun _ _ _ => by simp⟩
    · rw [if_neg hm]
      refine ⟨rfl, rfl, Or.inr ⟨r, i, t, hst, hp, ht, hpk, hpat⟩, ?_⟩
      intro r' hr' hm'
      rw [hst] at hr'; cases hr'
      exact absurd hm' hm

theorem RetryOK.congr {v2 : Bool} {s s' : SysR} {st : Option Pkt} (h : RetryOK v2 s st) (hp : s'.pats = s.pats)
    (ht : s'.timers = s.timers) : RetryOK v2 s' st := by
  unfold RetryOK at h ⊢
  rw [hp, ht]; exact h

/-- dispatching a packet either leaves the lock alone or releases it while handling that packet -/
theorem rx_obs (v : Variant) (hv : v.routing = 1) (hs : v.snap = true) (h : Host) (q : Pkt) :
    obsOf (rx v h q).2 = [] ∨ obsOf (rx v h q).2 = [.rel q] := by
  unfold rx
  rcases hu : updaterRx h q with ⟨h1, o1, p1⟩
  obtain ⟨_, nio, lk, _, _⟩ := updaterRx_spec hu
  simp only
  rw [miscRx_snap v hv hs]
  obtain ⟨_, q2⟩ := oneShotSnap_frame true p1 h1.pending h1 [] (by simp)
  obtain ⟨_, _, _, r4, _⟩ := rx_proj (p := q) nio q2
  rw [r4]
  cases lk with
  | same _ _ c => exact Or.inl c
  | released _ _ c _ => exact Or.inr c
  | cleared _ _ _ c _ => exact Or.inl c

/-- a received packet: `_check_for_answers`, then the port callbacks -/
theorem step_rx_invR (v : Variant) (hv : v.routing = 1) (hs : v.snap = true) {v2 : Bool}
    {s : SysR} {pre : List Out} {w : List ObsR} (hinv : InvR v2 s pre w) (q : Pkt) (down' : List Pkt) :
    let r := rx v s.base.host q
    InvR v2 { s.onReceive q with base := { s.base with host := r.1, down := down' } } (pre ++ r.2) (w ++ (obsOf r.2).map liftObs) := by
  intro r
  have hb : InvO v2 { s.base with host := r.1, down := down' } (pre ++ r.2) := rx_invO v hv hs hinv.o q down'
  obtain ⟨st, x, h1, h2, h3⟩ := hinv.r
  rcases rx_obs v hv hs s.base.host q with hob | hob
  · refine ⟨hb, st, x, ?_, ?_, ?_⟩
    · show altRunR v2 (none, false) (w ++ (obsOf r.2).map liftObs) = _
      rw [hob]; simpa using h1
    · show altRunM v2 none (obsOf (pre ++ r.2)) = _
      rw [obsOf_append, hob, List.append_nil]; exact h2
    · intro hx
      exact ((onReceive_ok (h3 hx) q).2.2.1).congr rfl rfl
  · -- released while handling q: a request r0 was outstanding and q matches it
    obtain ⟨st', a1, _, _⟩ := hb.alt
    have ha : altRunM v2 none (obsOf (pre ++ r.2)) = some st' := a1
    rw [obsOf_append, altRunM_append, h2] at ha
    have hob' : obsOf r.2 = [.rel q] := hob
    rw [hob'] at ha
    cases st with
    | none => simp [altRunM, altStepM] at ha
    | some r0 =>
      simp only [altRunM, altStepM] at ha
      by_cases hm : Matches v2 r0 q = true
      · rw [if_pos hm] at ha
        simp only [Option.some.injEq] at ha
        subst ha
        refine ⟨hb, none, x || !(q.chan == r0.chan), ?_, ?_, ?_⟩
        · show altRunR v2 (none, false) (w ++ (obsOf r.2).map liftObs) = _
          rw [hob', altRunR_append, h1]
          simp [altRunR, altStepR, liftObs, hm]
        · show altRunM v2 none (obsOf (pre ++ r.2)) = _
          rw [obsOf_append, altRunM_append, h2, hob']
          simp [altRunM, altStepM, hm]
        · intro hx
          simp only [Bool.or_eq_false_iff, Bool.not_eq_false', beq_iff_eq] at hx
          obtain ⟨hx0, hch⟩ := hx
          have hok := onReceive_ok (h3 hx0) q
          exact Or.inl (hok.2.2.2 r0 rfl (matches_patMatches hm hch))
      · rw [if_neg hm] at ha; cases ha

theorem stepR_invR (S2F : List Char → Except PyErr Nat) (v : Variant) (hv : v.routing = 1) (hs : v.snap = true) {v2 : Bool}
    {s s1 : SysR} {pre o1 : List Out} {w w1 : List ObsR} (hinv : InvR v2 s pre w) (e : EvR)
    (hstep : s.step S2F v e = some (s1, o1, w1)) : InvR v2 s1 (pre ++ o1) (w ++ w1) := by
  obtain ⟨st, x, h1, h2, h3⟩ := hinv.r
  cases e with
  | expire i =>
    simp only [SysR.step] at hstep
    cases ht : s.timers[i]? with
    | none => rw [ht] at hstep; cases hstep
    | some t =>
      rw [ht] at hstep
      simp only at hstep
      split at hstep
      · simp only [Option.some.injEq, Prod.mk.injEq] at hstep
        obtain ⟨rfl, rfl, rfl⟩ := hstep
        rw [List.append_nil, List.append_nil]
        refine ⟨hinv.o, st, x, h1, h2, fun hx => ?_⟩
        rcases h3 hx with hp | ⟨r, i0, t0, a, b, c, d, e'⟩
        · exact Or.inl hp
        · refine Or.inr ⟨r, i0, if i0 = i then { t0 with state := .expired } else t0, a, b, ?_, ?_, ?_⟩
          · show (s.timers.modify i _)[i0]? = _
            rw [List.getElem?_modify, c]
            by_cases hi : i = i0
            · subst hi; simp
            · have : ¬ i0 = i := fun h => hi h.symm
              simp [hi, this]
          · split <;> exact d
          · split <;> exact e'
      · cases hstep
  | timerRun i =>
    simp only [SysR.step] at hstep
    cases ht : s.timers[i]? with
    | none => rw [ht] at hstep; cases hstep
    | some t =>
      rw [ht] at hstep
      simp only at hstep
      split at hstep
      · rename_i hexp
        by_cases hti : getPat s.pats t.pat = some i
        · -- the registered timer is the one that asks
          have hpe : (getPat s.pats t.pat).isSome = true := by rw [hti]; rfl
          have hbe : (getPat s.pats t.pat == some i) = true := by rw [hti]; simp
          obtain ⟨g1, g2⟩ := gen_guard_live (!t.pat.2.isEmpty) s.nr true
          rw [hpe, hbe, g1, g2] at hstep
          simp only [if_true, Option.some.injEq, Prod.mk.injEq] at hstep
          obtain ⟨rfl, rfl, rfl⟩ := hstep
          rw [List.append_nil]
          have hbase : InvO v2 { s.base with dev := (s.base.dev.handle t.pk).1, down := s.base.down ++ (s.base.dev.handle t.pk).2 } pre :=
            ⟨by show (s.base.dev.handle t.pk).1.v2 = v2; rw [Dev.handle_v2_any]; exact hinv.o.dv2, hinv.o.useV2, hinv.o.updV2,
              hinv.o.fifo, hinv.o.lock, hinv.o.alt⟩
          cases x with
          | true =>
            refine ⟨hbase, st, true, ?_, h2, fun hx => by cases hx⟩
            rw [altRunR_append, h1]
            cases st <;> simp [altRunR, altStepR]
          | false =>
            rcases h3 rfl with hp | ⟨r, i0, t0, a, b, c, d, e'⟩
            · rw [hp, getPat_nil] at hti; cases hti
            · rw [b, getPat_single] at hti
              have hP : patOf v2 r = t.pat := by
                by_cases h : patOf v2 r = t.pat
                · exact h
                · rw [if_neg h] at hti; cases hti
              rw [if_pos hP] at hti
              have hi : i0 = i := Option.some.inj hti
              subst hi
              rw [ht] at c
              have htt : t = t0 := Option.some.inj c
              subst htt
              subst a
              refine ⟨hbase, some r, false, ?_, h2, fun _ => ?_⟩
              · rw [altRunR_append, h1]
                simp [altRunR, altStepR, d]
              · refine Or.inr ⟨r, (s.timers.modify i0 fun t => { t with state := .done }).length, ⟨t.pk, t.pat, .armed⟩, rfl, ?_, ?_, d, e'⟩
                · show setPat s.pats t.pat _ = _
                  rw [b, ← hP, setPat_single]
                · show ((s.timers.modify i0 _) ++ [_])[_]? = _
                  simp
        · -- stale: some other timer (or none) is registered for the pattern - nothing is sent, nothing is armed
          have hbe : (getPat s.pats t.pat == some i) = false := by
            cases hg : getPat s.pats t.pat with
            | none => simp
            | some j => rw [hg] at hti; simp only [Option.some.injEq] at hti; simp [hti]
          obtain ⟨g1, g2⟩ := gen_guard_stale true (!t.pat.2.isEmpty) s.nr (getPat s.pats t.pat).isSome
          rw [hbe, g1, g2] at hstep
          simp only [Bool.false_eq_true, if_false, Option.some.injEq, Prod.mk.injEq] at hstep
          obtain ⟨rfl, rfl, rfl⟩ := hstep
          rw [List.append_nil, List.append_nil]
          refine ⟨hinv.o, st, x, h1, h2, fun hx => ?_⟩
          rcases h3 hx with hp | ⟨r, i0, t0, a, b, c, d, e'⟩
          · exact Or.inl hp
          · have hne : i0 ≠ i := by
              intro h; subst h
              rw [ht] at c; cases c
              apply hti
              rw [b, e', getPat_single, if_pos rfl]
            refine Or.inr ⟨r, i0, t0, a, b, ?_, d, e'⟩
            show (s.timers.modify i _)[i0]? = _
            rw [List.getElem?_modify, c]
            have : ¬ i = i0 := fun h => hne h.symm
            simp [this]
      · cases hstep
  | x e =>
    cases e with
    | inject q =>
      simp only [SysR.step, Sys.stepX, Option.map_some, Option.some.injEq, Prod.mk.injEq] at hstep
      obtain ⟨rfl, rfl, rfl⟩ := hstep
      have hb := (onReceive_ok (v2 := v2) (st := none) (s := { s with pats := [] }) (Or.inl rfl) q).1
      have hbase : (s.onReceive q).base = s.base := by
        unfold SysR.onReceive; split <;> rfl
      have := step_rx_invR v hv hs hinv q s.base.down
      simp only at this
      rw [hbase]
      exact this
    | ev e =>
      cases e with
      | deliver =>
        simp only [SysR.step] at hstep
        cases hd : s.base.down with
        | nil => rw [hd] at hstep; cases hstep
        | cons q rest =>
          rw [hd] at hstep
          have hbase : (s.onReceive q).base = s.base := by
            unfold SysR.onReceive; split <;> rfl
          simp only [hbase, Sys.step, hd, Option.map_some, Option.some.injEq, Prod.mk.injEq] at hstep
          obtain ⟨rfl, rfl, rfl⟩ := hstep
          exact step_rx_invR v hv hs hinv q rest
      | updSend =>
        simp only [SysR.step] at hstep
        cases hb : s.base.step S2F v .updSend with
        | none => rw [hb] at hstep; cases hstep
        | some r =>
          obtain ⟨b, o⟩ := r
          rw [hb] at hstep
          have hbo : InvO v2 b (pre ++ o) := stepX_invO S2F v hv hs hinv.o (.ev .updSend) (by simpa [Sys.stepX] using hb)
          -- the base step transmits exactly the held packet, and only when nothing is outstanding
          have hshape : ∃ p, o = [.tx p] ∧ s.base.host.lockHeld = false := by
            simp only [Sys.step] at hb
            cases hc : s.base.host.cur with
            | none => simp [updSend, hc] at hb
            | some p =>
              by_cases hl : s.base.host.lockHeld = true
              · simp [updSend, hc, hl] at hb
              · simp [updSend, hc, hl] at hb
                exact ⟨p, hb.2.symm, by simpa using hl⟩
          obtain ⟨p, rfl, hl⟩ := hshape
          -- nothing was outstanding
          obtain ⟨st0, a1, a2, _⟩ := hinv.o.alt
          rw [h2] at a1
          have hst : st = none := by
            have := Option.some.inj a1
            rw [hl] at a2
            cases st0 <;> simp_all
          subst hst
          have hw : altRunR v2 (none, false) (w ++ [ObsR.tx p]) = some (some p, x) := by
            rw [altRunR_append, h1]; rfl
          have hm : altRunM v2 none (obsOf (pre ++ [Out.tx p])) = some (some p) := by
            rw [obsOf_append, altRunM_append, h2]; rfl
          simp only at hstep
          split at hstep
          · rename_i harm
            simp only [Option.some.injEq, Prod.mk.injEq] at hstep
            obtain ⟨rfl, rfl, rfl⟩ := hstep
            refine ⟨hbo, some p, x, hw, hm, fun hx => ?_⟩
            rcases h3 hx with hp | ⟨r, _, _, a, _⟩
            · refine Or.inr ⟨p, s.timers.length, ⟨p, patOf s.base.host.updV2 p, .armed⟩, rfl, ?_, ?_, rfl, ?_⟩
              · show setPat s.pats _ _ = _
                rw [hp, setPat_nil, hinv.o.updV2]
              · show (s.timers ++ [_])[s.timers.length]? = _
                simp
              · show patOf s.base.host.updV2 p = patOf v2 p
                rw [hinv.o.updV2]
            · cases a
          · simp only [Option.some.injEq, Prod.mk.injEq] at hstep
            obtain ⟨rfl, rfl, rfl⟩ := hstep
            refine ⟨hbo, some p, x, hw, hm, fun hx => ?_⟩
            rcases h3 hx with hp | ⟨r, _, _, a, _⟩
            · exact Or.inl hp
            · cases a
      | api t c =>
        simp only [SysR.step, Option.map_eq_some_iff] at hstep
        obtain ⟨r, hr, heq⟩ := hstep
        simp only [Prod.mk.injEq] at heq
        obtain ⟨rfl, rfl, rfl⟩ := heq
        have hbo : InvO v2 r.1 (pre ++ r.2) := stepX_invO S2F v hv hs hinv.o _ hr
        have hob : obsOf r.2 = [] := by
          simp only [Sys.stepX, Sys.step, Option.some.injEq] at hr
          rw [← hr]
          have := api_effect S2F v hv s.base.host c
          rw [hinv.o.useV2, ← hinv.o.dv2] at this
          exact this.io.2.2.1
        exact hinv.quiet_step hbo hob
      | updGet =>
        simp only [SysR.step, Option.map_eq_some_iff] at hstep
        obtain ⟨r, hr, heq⟩ := hstep
        simp only [Prod.mk.injEq] at heq
        obtain ⟨rfl, rfl, rfl⟩ := heq
        have hbo : InvO v2 r.1 (pre ++ r.2) := stepX_invO S2F v hv hs hinv.o _ hr
        have hob : obsOf r.2 = [] := by
          simp only [Sys.stepX, Sys.step, Option.map_eq_some_iff] at hr
          obtain ⟨h', _, hh⟩ := hr
          rw [← hh]; rfl
        exact hinv.quiet_step hbo hob
      | devSet i raw n =>
        simp only [SysR.step, Option.map_eq_some_iff] at hstep
        obtain ⟨r, hr, heq⟩ := hstep
        simp only [Prod.mk.injEq] at heq
        obtain ⟨rfl, rfl, rfl⟩ := heq
        have hbo : InvO v2 r.1 (pre ++ r.2) := stepX_invO S2F v hv hs hinv.o _ hr
        have hob : obsOf r.2 = [] := by
          simp only [Sys.stepX, Sys.step, Option.some.injEq] at hr
          rw [← hr]; rfl
        exact hinv.quiet_step hbo hob

theorem runR_invR (S2F : List Char → Except PyErr Nat) (v : Variant) (hv : v.routing = 1) (hs : v.snap = true) {v2 : Bool} :
    ∀ (evs : List EvR) (s : SysR) (pre : List Out) (w : List ObsR), InvR v2 s pre w → ∀ (s' : SysR) (o : List Out) (w' : List ObsR),
      SysR.run S2F v s evs = some (s', o, w') → InvR v2 s' (pre ++ o) (w ++ w')
  | [], s, pre, w, hinv, s', o, w', hrun => by
    simp only [SysR.run, Option.some.injEq, Prod.mk.injEq] at hrun
    obtain ⟨rfl, rfl, rfl⟩ := hrun
    rw [List.append_nil, List.append_nil]; exact hinv
  | e :: es, s, pre, w, hinv, s', o, w', hrun => by
    simp only [SysR.run] at hrun
    cases hst : s.step S2F v e with
    | none => rw [hst] at hrun; cases hrun
    | some r1 =>
      obtain ⟨s1, o1, w1⟩ := r1
      rw [hst] at hrun
      simp only at hrun
      cases hr2 : SysR.run S2F v s1 es with
      | none => rw [hr2] at hrun; cases hrun
      | some r2 =>
        obtain ⟨s2, o2, w2⟩ := r2
        rw [hr2] at hrun
        simp only [Option.some.injEq, Prod.mk.injEq] at hrun
        obtain ⟨rfl, rfl, rfl⟩ := hrun
        have := runR_invR S2F v hv hs es s1 (pre ++ o1) (w ++ w1) (stepR_invR S2F v hv hs hinv e hst) s2 o2 w2 hr2
        rw [← List.append_assoc, ← List.append_assoc]; exact this

end CfVerif.C04

/-
Proofs/C04Round - the write round trip through the closed system (set_value -> wire -> device -> reply -> cache, callbacks).
Core Lean only.
-/
import CfVerif.Proofs.C04Inv
namespace CfVerif.C04
open CfVerif

/-! ### value bytes encode a value of the declared type and decode back to it -/

theorem unpack1_pack1 {c : Code} {val : Val} {bs : List UInt8} (hc : val.canonFor c = true) (h : pack [c] [val] = .ok bs) :
    unpack [c] bs = .ok [val] :=
  unpack_pack (f := [c]) (vs := [val]) (by cases c <;> cases val <;> simp_all [canonVals, Val.canonFor]) h

/-- whatever Python value is passed: if `set_value` can convert and pack it, the bytes have the width of the declared type
and are the encoding of a value `val` of that type, which is what `struct.unpack` gives back -/
theorem valueBytes_roundtrip (S2F : List Char → Except PyErr Nat) (t : NumType) (x : PyVal) (vb : List UInt8)
    (h : valueBytes S2F (fmtOf t.code) x = .ok vb) :
    vb.length = t.width ∧ ∃ val, unpack1 (fmtOf t.code) vb = .ok val ∧ pack [t.structCode] [val] = .ok vb ∧
      (t.isFloat = false → ∃ n, pyInt x = .ok n ∧ t.InRange n ∧ val = .int n ∧ vb = encodeInt t.width n) := by
  obtain ⟨_, hp, _, _⟩ := type_table t
  have key : ∀ val : Val, val.canonFor t.structCode = true → pack [t.structCode] [val] = .ok vb →
      vb.length = t.width ∧ unpack1 (fmtOf t.code) vb = .ok val := by
    intro val hc hpk
    refine ⟨?_, ?_⟩
    · have := pack_length hpk
      rw [this]; cases t <;> rfl
    · unfold unpack1; rw [hp, unpack1_pack1 hc hpk]
  by_cases hf : t.isFloat = false
  · rw [valueBytes_int S2F t hf] at h
    cases hn : pyInt x with
    | error e => rw [hn] at h; cases h
    | ok n =>
      rw [hn] at h
      simp only at h
      by_cases hr : t.InRange n
      · rw [if_pos hr] at h; cases h
        have hpk : pack [t.structCode] [.int n] = .ok (encodeInt t.width n) := by rw [pack_int t hf, if_pos hr]
        obtain ⟨k1, k2⟩ := key (.int n) (by cases t <;> first | rfl | cases hf) hpk
        exact ⟨k1, .int n, k2, hpk, fun _ => ⟨n, rfl, hr, rfl, rfl⟩⟩
      · rw [if_neg hr] at h; cases h
  · have hfl : t = .f32 ∨ t = .f64 := by cases t <;> simp_all [NumType.isFloat]
    rcases hfl with rfl | rfl
    · rw [valueBytes_f32] at h
      cases hx : pyFloat S2F x with
      | error e => rw [hx] at h; cases h
      | ok b =>
        rw [hx] at h; simp only at h
        cases hy : f64ToF32 b with
        | error e => rw [hy] at h; cases h
        | ok y =>
          rw [hy] at h; simp only at h
          have hpk : pack [NumType.f32.structCode] [.flt y] = .ok vb := by
            simp only [pack, packOne, NumType.structCode, bind, Except.bind, pure, Except.pure, h, List.append_nil]
          obtain ⟨k1, k2⟩ := key (.flt y) rfl hpk
          exact ⟨k1, .flt y, k2, hpk, fun hh => by cases hh⟩
    · rw [valueBytes_f64] at h
      cases hx : pyFloat S2F x with
      | error e => rw [hx] at h; cases h
      | ok b =>
        rw [hx] at h; simp only at h
        have hpk : pack [NumType.f64.structCode] [.flt b] = .ok vb := by
          simp only [pack, packOne, NumType.structCode, bind, Except.bind, pure, Except.pure, h, List.append_nil]
        obtain ⟨k1, k2⟩ := key (.flt b) rfl hpk
        exact ⟨k1, .flt b, k2, hpk, fun hh => by cases hh⟩

/-! ### the four steps of a write: call, `get`, transmit (+ device), delivery of the reply -/

/-- an idle, fully connected system in which `e` is a writable parameter of numeric type `t`, known to the device under the
same index and type -/
structure WriteReady (s : Sys) (e : Elem) (t : NumType) (dp : DevParam) : Prop where
  idle : s.Idle
  down : s.down = []
  init : s.host.initialized = true
  upd : s.host.isUpdated = true
  byName : lookupElem s.host.toc e.group e.name = some e
  byId : elemById s.host.toc e.ident = some e
  rw : e.ro = false
  ty : e.tcode = t.code
  idr : e.ident < 256 ^ idWidth s.dev.v2
  dev : s.dev.params[e.ident]? = some dp
  devTy : dp.tcode = t.code
  devRw : dp.ro = false

theorem elemByName_of {toc : List Elem} {e : Elem} (h1 : lookupElem toc e.group e.name = some e) (h2 : elemById toc e.ident = some e) :
    elemByName toc [e.group, e.name] = some e := by
  simp only [elemByName, elementId, h1, Option.map_some, h2]

theorem unpack1_H {i : Nat} (h : i < 256 ^ 2) : unpack1 "<H" (leBytes 2 i) = .ok (.int i) := by
  have hp : parseFmt! "<H" = [.H] := by decide
  unfold unpack1
  rw [hp]
  simp only [unpack, leBytes_length, Code.size, Nat.lt_irrefl, if_false, List.drop_of_length_le (Nat.le_of_eq (leBytes_length 2 i)),
    bind, Except.bind, Code.takesVal, if_true, pure, Except.pure, unpackOne]
  rw [List.take_of_length_le (Nat.le_of_eq (leBytes_length 2 i)), leVal_leBytes_of_lt h]

/-- `_param_updated` on a write reply `index ++ value bytes` for element `e` -/
theorem paramUpdated_reply (c : Nat) (hc3 : c ≠ 3) (h : Host) (e : Elem) (vb : List UInt8) (val : Val)
    (hid : e.ident < 256 ^ idWidth h.useV2) (hby : elemById h.toc e.ident = some e) (hdec : unpack1 e.fmt vb = .ok val)
    (hupd : h.isUpdated = true) :
    paramUpdated h { chan := c, data := leBytes (idWidth h.useV2) e.ident ++ vb } =
      .ok ({ h with values := (e.group, e.name, val) :: h.values }, fanout h e.group e.name val) := by
  unfold paramUpdated
  have hc : c ≠ Gen.C04.MISC_CHANNEL := by rw [gen_write_channel.2.2.1]; exact hc3
  simp only [hc, if_false]
  cases hv : h.useV2
  · rw [hv] at hid
    simp only [idWidth, Bool.false_eq_true, if_false] at hid ⊢
    have hd : leBytes 1 e.ident ++ vb = UInt8.ofNat (e.ident % 256) :: vb := by simp [leBytes]
    rw [hd]
    have hlt : e.ident < 256 := by simpa using hid
    have hx : (UInt8.ofNat (e.ident % 256)).toNat = e.ident := by simp; omega
    simp only [hx, hby, List.drop_succ_cons, List.drop_zero, hdec, hupd, Bool.not_true, Bool.and_false, Bool.false_eq_true, if_false]
  · rw [hv] at hid
    simp only [idWidth, if_true] at hid ⊢
    have ht : (leBytes 2 e.ident ++ vb).take 2 = leBytes 2 e.ident := by
      rw [List.take_append_of_le_length (by simp), List.take_of_length_le (by simp)]
    have hdr : (leBytes 2 e.ident ++ vb).drop 2 = vb := by
      rw [List.drop_append_of_le_length (by simp), List.drop_of_length_le (by simp)]; rfl
    simp only [List.drop_zero, ht, unpack1_H hid, Int.toNat_natCast, hby, Nat.zero_add, hdr, hdec, hupd, Bool.not_true, Bool.and_false,
      Bool.false_eq_true, if_false]

theorem Dev.write_ok (d : Dev) (i : Nat) (dp : DevParam) (t : NumType) (vb : List UInt8) (hi : i < 256 ^ idWidth d.v2)
    (hd : d.params[i]? = some dp) (ht : dp.tcode = t.code) (hrw : dp.ro = false) (hl : vb.length = t.width) :
    d.handle { chan := 2, data := leBytes (idWidth d.v2) i ++ vb } =
      (d.setValue i vb, [{ chan := 2, data := leBytes (idWidth d.v2) i ++ vb }]) := by
  have hlen : (leBytes (idWidth d.v2) i).length = idWidth d.v2 := leBytes_length _ _
  have ht2 : (leBytes (idWidth d.v2) i ++ vb).take (idWidth d.v2) = leBytes (idWidth d.v2) i := by
    rw [List.take_append_of_le_length (by omega), List.take_of_length_le (by omega)]
  have hh : d.handle { chan := 2, data := leBytes (idWidth d.v2) i ++ vb } = d.write (leBytes (idWidth d.v2) i ++ vb) := by
    simp [Dev.handle]
  rw [hh]
  unfold Dev.write Dev.pid
  rw [Dev.idw_eq, if_pos (by simp only [List.length_append]; omega)]
  simp only [ht2, leVal_leBytes_of_lt hi, hd, hlen]
  rw [List.drop_append_of_le_length (by omega), List.drop_of_length_le (by omega)]
  simp [hrw, ht, devWidth_code, hl]

theorem updatesOf_append (a b : List Out) : updatesOf (a ++ b) = updatesOf a ++ updatesOf b := by
  simp [updatesOf, List.filter_append]

theorem updatesOf_fanout (h : Host) (g n : Nat) (v : Val) : updatesOf (fanout h g n v) = fanout h g n v := by
  unfold updatesOf
  rw [List.filter_eq_self]
  intro x hx
  simp only [fanout, List.mem_append, List.mem_map] at hx
  rcases hx with (⟨_, _, rfl⟩ | ⟨_, _, rfl⟩) | ⟨_, _, rfl⟩ <;> rfl

/-- One write, step by step, for ANY Python value that `set_value` accepts for the parameter's type. -/
theorem write_roundtrip (S2F : List Char → Except PyErr Nat) (v : Variant) (hv : v.routing = 1) (hs : v.snap = true)
    (s : Sys) (e : Elem) (t : NumType) (dp : DevParam) (hr : WriteReady s e t dp) (x : PyVal) (vb : List UInt8)
    (hvb : valueBytes S2F e.fmt x = .ok vb) (th : Nat) :
    ∃ s' outs val,
      Sys.run S2F v s [.api th (.setValue [e.group, e.name] x false), .updGet, .updSend, .deliver] = some (s', outs) ∧
      txsOf outs = [{ chan := 2, data := leBytes (idWidth s.dev.v2) e.ident ++ vb }] ∧
      s'.dev = s.dev.setValue e.ident vb ∧
      unpack1 e.fmt vb = .ok val ∧ pack [t.structCode] [val] = .ok vb ∧
      getValue s'.host [e.group, e.name] false = (s'.host, [.ret val]) ∧
      updatesOf outs = fanout s.host e.group e.name val ∧
      s'.Idle ∧ s'.down = [] := by
  have hfmt : e.fmt = fmtOf t.code := by rw [Elem.fmt_eq, hr.ty]
  rw [hfmt] at hvb
  obtain ⟨hlen, val, hdec, hpk, _⟩ := valueBytes_roundtrip S2F t x vb hvb
  rw [← hfmt] at hvb hdec
  obtain ⟨⟨i1, i2, i3, i4, i5, i6, i7, i8⟩, hdown, hinit, hupd, hbn, hbi, hrw, hty, hidr, hdev, hdty, hdrw⟩ := hr
  rcases s with ⟨⟨toc, useV2, updV2, ini, isU, vals, q, cur, lk, pat, pend, ncb, gcb, acb, ncl, gcl, con⟩, dev, down⟩
  simp only at i1 i2 i3 i4 i5 i6 i7 i8 hdown hinit hupd hbn hbi hidr hdev
  subst i1 i2 i3 i4 i5 i7 i8 hdown hinit hupd
  simp only
  let h0 : Host := ⟨toc, dev.v2, dev.v2, true, true, vals, [], none, false, none, [], ncb, gcb, acb, ncl, gcl, con⟩
  let p : Pkt := { chan := 2, data := leBytes (idWidth dev.v2) e.ident ++ vb }
  -- 1. the call queues the packet
  have h1 : setValue S2F h0 [e.group, e.name] x false = (enqueue h0 p, [.enq p none]) := by
    have hp : setValuePkt S2F h0 [e.group, e.name] x = .ok p := by
      rw [setValuePkt_elem S2F h0 _ e x (elemByName_of hbn hbi) hrw hidr, hvb]
    simp only [setValue, gate, h0, if_true, hp]
  -- 2.-3. the updater takes it and transmits; the device stores the value and answers
  let hA : Host := ⟨toc, dev.v2, dev.v2, true, true, vals, [], none, true, some (lockPatternOf dev.v2 p), [], ncb, gcb, acb, ncl, gcl, con⟩
  have hdevh := Dev.write_ok dev e.ident dp t vb hidr hdev hdty hdrw hlen
  -- 4. the reply releases the lock and updates the cache
  have hlp : lockPatternOf dev.v2 p = relPattern dev.v2 p := by
    obtain ⟨l1, l2, l3, l4, l5, l6⟩ := gen_lens
    simp only [lockPatternOf, relPattern, l1, l2, l3, l5, l6, gen_write_channel.2.2.1, show ¬ (p.chan = 3) from (by show ¬ ((2 : Nat) = 3); decide), if_false]
  have hpu : paramUpdated hA p = .ok ({ hA with values := (e.group, e.name, val) :: vals }, fanout hA e.group e.name val) :=
    paramUpdated_reply 2 (by decide) hA e vb val hidr hbi hdec rfl
  let hB : Host := ⟨toc, dev.v2, dev.v2, true, true, (e.group, e.name, val) :: vals, [], none, false, none, [], ncb, gcb, acb, ncl, gcl, con⟩
  have hfo : fanout hA e.group e.name val = fanout h0 e.group e.name val := rfl
  have hrx : rx v hA p = (hB, .rxd p :: (fanout h0 e.group e.name val ++ [.released p] ++ [])) := by
    have hur : updaterRx hA p = (hB, fanout h0 e.group e.name val ++ [.released p], p) := by
      unfold updaterRx
      rw [if_pos (Or.inr gen_write_channel.1.symm)]
      simp only
      have hst : stripStatus hA.updV2 p = p := by
        unfold stripStatus
        rw [if_neg (by rw [gen_write_channel.2.1]; intro h; exact absurd h.2 (by show ¬ ((2 : Nat) = 1); decide))]
      rw [hst, show hA.updV2 = dev.v2 from rfl, show hA.pattern = some (lockPatternOf dev.v2 p) from rfl, hlp, if_pos rfl, hpu, hfo]
      rfl
    unfold rx
    rw [hur]
    simp only
    rw [miscRx_snap v hv hs]
    rfl
  refine ⟨{ host := hB, dev := dev.setValue e.ident vb, down := [] },
    [.enq p none] ++ ([] ++ ([.tx p] ++ (.rxd p :: (fanout h0 e.group e.name val ++ [.released p] ++ [])))), val, ?_, ?_, rfl,
    hdec, hpk, ?_, ?_, ?_, rfl⟩
  · -- the run
    have hg : updGet (enqueue h0 p) = some { h0 with cur := some p, queue := [] } := rfl
    have hsnd : updSend { h0 with cur := some p, queue := [] } = some (hA, [.tx p]) := rfl
    simp only [Sys.run, Sys.step, Api.run]
    rw [show setValue S2F ⟨toc, dev.v2, dev.v2, true, true, vals, [], none, false, none, [], ncb, gcb, acb, ncl, gcl, con⟩ [e.group, e.name] x false
      = (enqueue h0 p, [.enq p none]) from h1]
    simp only [hg, Option.map_some, hsnd, List.nil_append]
    rw [show dev.handle p = (dev.setValue e.ident vb, [p]) from hdevh]
    simp only [hrx, List.append_nil]
  · simp [txsOf, fanout, List.filterMap_append, List.filterMap_map]
    rfl
  · simp only [getValue, gate, hB, if_true, hasGroup, getVal, List.any_cons, beq_self_eq_true,
      Bool.true_or, List.find?_cons_of_pos, Bool.and_self, Option.map_some]
  · have e1 : updatesOf [Out.enq p none] = [] := rfl
    have e2 : updatesOf [Out.tx p] = [] := rfl
    have e3 : ∀ l, updatesOf (Out.rxd p :: l) = updatesOf l := fun _ => rfl
    have e4 : updatesOf [Out.released p] = [] := rfl
    simp only [List.nil_append, List.append_nil]
    rw [updatesOf_append, e1, updatesOf_append, e2, e3, updatesOf_append, e4, updatesOf_fanout]
    simp only [List.nil_append, List.append_nil]
    rfl
  · exact ⟨rfl, rfl, rfl, rfl, rfl, rfl, rfl, rfl⟩

/-! ### a read: request, transmit, reply with status byte, cache -/

theorem unpack1_of_length {c : Code} (hc : c.takesVal = true) (bs : List UInt8) (hl : bs.length = c.size) :
    unpack [c] bs = .ok [unpackOne c (bs.take c.size)] := by
  simp only [unpack, hl, Nat.lt_irrefl, if_false, hc, if_true]
  rw [List.drop_of_length_le (Nat.le_of_eq hl)]
  simp [unpack, bind, Except.bind, pure, Except.pure]

structure ReadReady (s : Sys) (e : Elem) (t : NumType) (dp : DevParam) : Prop where
  idle : s.Idle
  down : s.down = []
  upd : s.host.isUpdated = true
  byName : lookupElem s.host.toc e.group e.name = some e
  byId : elemById s.host.toc e.ident = some e
  ty : e.tcode = t.code
  idr : e.ident < 256 ^ idWidth s.dev.v2
  dev : s.dev.params[e.ident]? = some dp
  width : dp.value.length = t.width

/-- `request_param_update`: one packet `index` on the read channel; the device answers `index [status] value`; the status
byte (current protocol generation only) is removed before decoding; cache and callbacks carry the device's value -/
theorem read_roundtrip (S2F : List Char → Except PyErr Nat) (v : Variant) (hv : v.routing = 1) (hs : v.snap = true)
    (s : Sys) (e : Elem) (t : NumType) (dp : DevParam) (hr : ReadReady s e t dp) (th : Nat) :
    ∃ s' outs val,
      Sys.run S2F v s [.api th (.requestUpdate [e.group, e.name]), .updGet, .updSend, .deliver] = some (s', outs) ∧
      txsOf outs = [{ chan := 1, data := leBytes (idWidth s.dev.v2) e.ident }] ∧
      rxdsOf outs = [{ chan := 1, data := leBytes (idWidth s.dev.v2) e.ident ++ (if s.dev.v2 then [0] else []) ++ dp.value }] ∧
      s'.dev = s.dev ∧
      unpack1 e.fmt dp.value = .ok val ∧
      getVal s'.host.values e.group e.name = some val ∧
      updatesOf outs = fanout s.host e.group e.name val ∧
      s'.Idle ∧ s'.down = [] := by
  obtain ⟨_, hpf, _, _⟩ := type_table t
  have hfmt : e.fmt = fmtOf t.code := by rw [Elem.fmt_eq, hr.ty]
  let val : Val := unpackOne t.structCode (dp.value.take t.structCode.size)
  have hdec : unpack1 e.fmt dp.value = .ok val := by
    unfold unpack1
    rw [hfmt, hpf, unpack1_of_length (by cases t <;> rfl) dp.value (by rw [hr.width]; cases t <;> rfl)]
  obtain ⟨⟨i1, i2, i3, i4, i5, i6, i7, i8⟩, hdown, hupd, hbn, hbi, hty, hidr, hdev, hwid⟩ := hr
  rcases s with ⟨⟨toc, useV2, updV2, ini, isU, vals, q, cur, lk, pat, pend, ncb, gcb, acb, ncl, gcl, con⟩, dev, down⟩
  simp only at i1 i2 i3 i4 i5 i6 i7 i8 hdown hupd hbn hbi hidr hdev
  subst i1 i2 i3 i4 i5 i7 i8 hdown hupd
  simp only
  let h0 : Host := ⟨toc, dev.v2, dev.v2, ini, true, vals, [], none, false, none, [], ncb, gcb, acb, ncl, gcl, con⟩
  let p : Pkt := { chan := 1, data := leBytes (idWidth dev.v2) e.ident }
  let rep : Pkt := { chan := 1, data := leBytes (idWidth dev.v2) e.ident ++ (if dev.v2 then [0] else []) ++ dp.value }
  have hlen : (leBytes (idWidth dev.v2) e.ident).length = idWidth dev.v2 := leBytes_length _ _
  have h1 : requestUpdate h0 [e.group, e.name] dev.v2 = (enqueue h0 p, [.enq p none]) := by
    have hbn' : lookupElem h0.toc e.group e.name = some e := hbn
    simp only [requestUpdate, elementId, hbn', Option.map_some, idBytes_ok gen_set_id_fmts.2.2.1 gen_set_id_fmts.2.2.2 hidr,
      gen_write_channel.2.1]
    rfl
  let hA : Host := ⟨toc, dev.v2, dev.v2, ini, true, vals, [], none, true, some (lockPatternOf dev.v2 p), [], ncb, gcb, acb, ncl, gcl, con⟩
  have hdevh : dev.handle p = (dev, [rep]) := by
    have hh : dev.handle p = dev.read p.data := by simp [Dev.handle, p]
    rw [hh]
    unfold Dev.read Dev.pid
    rw [Dev.idw_eq, if_pos (by show idWidth dev.v2 ≤ (leBytes (idWidth dev.v2) e.ident).length; omega)]
    have ht : (leBytes (idWidth dev.v2) e.ident).take (idWidth dev.v2) = leBytes (idWidth dev.v2) e.ident :=
      List.take_of_length_le (by omega)
    simp only [p, ht, leVal_leBytes_of_lt hidr, hdev]
    rfl
  have hw : idWidth dev.v2 = (if dev.v2 then 2 else 1) := rfl
  have htk : ∀ (x y : List UInt8), (leBytes (idWidth dev.v2) e.ident ++ x ++ y).take (idWidth dev.v2) = leBytes (idWidth dev.v2) e.ident := by
    intro x y
    rw [List.append_assoc, List.take_append_of_le_length (by omega), List.take_of_length_le (by omega)]
  have hpat : lockPatternOf dev.v2 p = leBytes (idWidth dev.v2) e.ident := by
    obtain ⟨l1, l2, l3, _⟩ := gen_lens
    have hd : p.data = leBytes (idWidth dev.v2) e.ident := rfl
    simp only [lockPatternOf, l1, l2, l3, gen_write_channel.2.2.1, show ¬ (p.chan = 3) from (by show ¬ ((1 : Nat) = 3); decide), if_false, hd]
    split
    · rename_i h2; rw [List.take_of_length_le (by rw [hlen, hw, if_pos h2]; omega)]
    · rename_i h2; rw [List.take_of_length_le (by rw [hlen, hw, if_neg h2]; omega)]
  have hrel : relPattern dev.v2 rep = leBytes (idWidth dev.v2) e.ident := by
    obtain ⟨_, _, _, _, l5, l6⟩ := gen_lens
    have hd : rep.data = leBytes (idWidth dev.v2) e.ident ++ (if dev.v2 then [0] else []) ++ dp.value := rfl
    simp only [relPattern, l5, l6, hd]
    split
    · rename_i h2
      have := htk (if dev.v2 then [0] else []) dp.value
      rw [hw, if_pos h2] at this; rw [hw, if_pos h2]; exact this
    · rename_i h2
      have := htk (if dev.v2 then [0] else []) dp.value
      rw [hw, if_neg h2] at this; rw [hw, if_neg h2]; exact this
  have hstrip : stripStatus dev.v2 rep = { chan := 1, data := leBytes (idWidth dev.v2) e.ident ++ dp.value } := by
    unfold stripStatus
    have hd : rep.data = leBytes (idWidth dev.v2) e.ident ++ (if dev.v2 then [0] else []) ++ dp.value := rfl
    split
    · rename_i h2
      have hv2 : dev.v2 = true := h2.1
      have hl2 : (leBytes (idWidth dev.v2) e.ident).length = 2 := by rw [hlen, hw, if_pos hv2]
      show ({ chan := 1, data := rep.data.take 2 ++ rep.data.drop 3 } : Pkt) = _
      rw [hd, if_pos hv2]
      congr 1
      rw [List.append_assoc, List.take_append_of_le_length (by omega), List.take_of_length_le (by omega),
        List.drop_append, List.drop_of_length_le (by omega : (leBytes (idWidth dev.v2) e.ident).length ≤ 3), hl2]
      simp
    · rename_i h2
      have hv2 : dev.v2 = false := by
        cases hv : dev.v2
        · rfl
        · exact absurd ⟨hv, gen_write_channel.2.1.symm⟩ h2
      show rep = _
      show ({ chan := 1, data := rep.data } : Pkt) = _
      rw [hd, if_neg (by simp [hv2])]
      simp
  have hpu : paramUpdated hA { chan := 1, data := leBytes (idWidth dev.v2) e.ident ++ dp.value } =
      .ok ({ hA with values := (e.group, e.name, val) :: vals }, fanout hA e.group e.name val) :=
    paramUpdated_reply 1 (by decide) hA e dp.value val hidr hbi hdec rfl
  let hB : Host := ⟨toc, dev.v2, dev.v2, ini, true, (e.group, e.name, val) :: vals, [], none, false, none, [], ncb, gcb, acb, ncl, gcl, con⟩
  have hrx : rx v hA rep = (hB, .rxd rep :: (fanout h0 e.group e.name val ++ [.released rep] ++ [])) := by
    have hur : updaterRx hA rep = (hB, fanout h0 e.group e.name val ++ [.released rep],
        { chan := 1, data := leBytes (idWidth dev.v2) e.ident ++ dp.value }) := by
      unfold updaterRx
      rw [if_pos (Or.inl gen_write_channel.2.1.symm)]
      simp only
      rw [show hA.updV2 = dev.v2 from rfl, hstrip, show hA.pattern = some (lockPatternOf dev.v2 p) from rfl, hpat, hrel, if_pos rfl, hpu]
      rfl
    unfold rx
    rw [hur]
    simp only
    rw [miscRx_snap v hv hs]
    rfl
  refine ⟨{ host := hB, dev := dev, down := [] },
    [.enq p none] ++ ([] ++ ([.tx p] ++ (.rxd rep :: (fanout h0 e.group e.name val ++ [.released rep] ++ [])))), val, ?_, ?_, ?_, rfl,
    hdec, ?_, ?_, ⟨rfl, rfl, rfl, rfl, rfl, rfl, rfl, rfl⟩, rfl⟩
  · have hg : updGet (enqueue h0 p) = some { h0 with cur := some p, queue := [] } := rfl
    have hsnd : updSend { h0 with cur := some p, queue := [] } = some (hA, [.tx p]) := rfl
    simp only [Sys.run, Sys.step, Api.run]
    rw [show requestUpdate ⟨toc, dev.v2, dev.v2, ini, true, vals, [], none, false, none, [], ncb, gcb, acb, ncl, gcl, con⟩ [e.group, e.name] dev.v2
      = (enqueue h0 p, [.enq p none]) from h1]
    simp only [hg, Option.map_some, hsnd, List.nil_append]
    rw [hdevh]
    simp only [hrx, List.append_nil]
  · simp [txsOf, fanout, List.filterMap_append, List.filterMap_map]
    rfl
  · simp [rxdsOf, fanout, List.filterMap_append, List.filterMap_map]
    simp [rep, List.append_assoc]
  · simp [getVal, hB]
  · have e1 : updatesOf [Out.enq p none] = [] := rfl
    have e2 : updatesOf [Out.tx p] = [] := rfl
    have e3 : ∀ l, updatesOf (Out.rxd rep :: l) = updatesOf l := fun _ => rfl
    have e4 : updatesOf [Out.released rep] = [] := rfl
    simp only [List.nil_append, List.append_nil]
    rw [updatesOf_append, e1, updatesOf_append, e2, e3, updatesOf_append, e4, updatesOf_fanout]
    simp only [List.nil_append, List.append_nil]
    rfl

/-! ### update-callback fan-out: every registration is called exactly once -/

theorem count_map_filter {α : Type} [BEq α] [LawfulBEq α] (l : List α) (P : α → Bool) (f : α → Out) (a : α) (hP : P a = true)
    (hinj : ∀ b, P b = true → f b = f a → b = a) : ((l.filter P).map f).count (f a) = l.count a := by
  induction l with
  | nil => rfl
  | cons x xs ih =>
    by_cases hx : P x = true
    · rw [List.filter_cons_of_pos hx, List.map_cons, List.count_cons, List.count_cons, ih]
      rcases Classical.em (x = a) with hxa | hxa
      · subst hxa; simp
      · have : f x ≠ f a := fun h => hxa (hinj x hx h)
        simp [hxa, this]
    · rw [List.filter_cons_of_neg hx, ih, List.count_cons]
      have : x ≠ a := fun h => hx (h ▸ hP)
      simp [this]

theorem count_map_filter_none {α : Type} (l : List α) (P : α → Bool) (f : α → Out) (y : Out)
    (hne : ∀ b, P b = true → f b ≠ y) : ((l.filter P).map f).count y = 0 := by
  rw [List.count_eq_zero]
  intro hmem
  obtain ⟨b, hb, rfl⟩ := List.mem_map.mp hmem
  exact hne b (List.mem_filter.mp hb).2 rfl

/-- the number of times callback `cb` is called for an update of `g.n` = the number of its registrations that cover
`g.n` (under the name, under the group, for everything) -/
theorem fanout_count (h : Host) (g n : Nat) (v : Val) (cb : Nat) :
    (fanout h g n v).count (.update cb [g, n] v) =
      h.nameCbs.count (g, n, cb) + h.groupCbs.count (g, cb) + h.allCbs.count cb := by
  unfold fanout
  rw [List.count_append, List.count_append]
  congr 1
  · congr 1
    · exact count_map_filter h.nameCbs (fun x => x.1 == g && x.2.1 == n) (fun x => Out.update x.2.2 [g, n] v) (g, n, cb)
        (by simp) (by
          intro b hb hf
          simp only [Bool.and_eq_true, beq_iff_eq] at hb
          simp only [Out.update.injEq, and_true] at hf
          obtain ⟨b1, b2, b3⟩ := b
          simp only at hb hf
          rw [hb.1, hb.2, hf])
    · exact count_map_filter h.groupCbs (fun x => x.1 == g) (fun x => Out.update x.2 [g, n] v) (g, cb)
        (by simp) (by
          intro b hb hf
          simp only [beq_iff_eq] at hb
          simp only [Out.update.injEq, and_true] at hf
          obtain ⟨b1, b2⟩ := b
          simp only at hb hf
          rw [hb, hf])
  · have := count_map_filter h.allCbs (fun _ => true) (fun c => Out.update c [g, n] v) cb rfl (by
      intro b _ hf
      simpa using hf)
    rw [List.filter_eq_self.mpr (by simp)] at this
    exact this

theorem addUnique_nodup {α} [BEq α] [LawfulBEq α] {l : List α} (x : α) (h : l.Nodup) : (addUnique l x).Nodup := by
  unfold addUnique
  split
  · exact h
  · rename_i hc
    have hx : x ∉ l := by simpa using hc
    rw [List.nodup_append]
    exact ⟨h, by simp, by intro a ha b hb; simp only [List.mem_singleton] at hb; subst hb; exact fun hab => hx (hab ▸ ha)⟩

end CfVerif.C04

/-
Proofs/C04Seq - the registration lifecycle of the one-shot reply handlers: registered with the request, unregistered on EVERY
reply path.  In a typed closed system the registered handlers are exactly those of the requests not yet answered, after any
history; so a request that has been answered never hears of a later reply.  Core Lean only.
-/
import CfVerif.Proofs.C04Retry
namespace CfVerif.C04
open CfVerif

/-! ### Tie A: every return path of a handler that was given its reply unregisters it -/

theorem gen_unreg : Gen.C04.getDefaultEnoentUnreg = true ∧ Gen.C04.getDefaultEndUnreg = true ∧ Gen.C04.getStateEnoentUnreg = true ∧
    Gen.C04.getStateEndUnreg = true ∧ Gen.C04.storeEndUnreg = true ∧ Gen.C04.clearEndUnreg = true := by decide

/-! ### reply variants -/

/-- the reply bodies (after `cmd id16`) the device of Appendix D gives to a misc request of kind `k` about a parameter of
width `w`: ENOENT (or any body that starts with 2); the default value; state 0 + default / state 1 + default + stored; a status -/
def ReplyOK (k : MiscKind) (w : Nat) (body : List UInt8) : Prop :=
  body.head? = some 2 ∨
  match k with
  | .getDefault => body.length = w
  | .getState => ∃ b d, body = b :: d ∧ ((b = 1 ∧ d.length = w + w) ∨ (b ≠ 1 ∧ d.length = w))
  | .store => body ≠ []
  | .clear => body ≠ []

theorem numericCode_numType {tc : Nat} (h : numericCode tc) : ∃ t : NumType, tc = t.code ∧ devWidth tc = some t.width := by
  obtain ⟨w, hw, _, h5⟩ := h
  unfold devWidth at hw
  split at hw
  · exact ⟨.u8, rfl, rfl⟩
  · exact ⟨.i8, rfl, rfl⟩
  · exact ⟨.u16, rfl, rfl⟩
  · exact ⟨.i16, rfl, rfl⟩
  · exact absurd rfl h5
  · exact ⟨.u32, rfl, rfl⟩
  · exact ⟨.i32, rfl, rfl⟩
  · exact ⟨.f32, rfl, rfl⟩
  · exact ⟨.u64, rfl, rfl⟩
  · exact ⟨.i64, rfl, rfl⟩
  · exact ⟨.f64, rfl, rfl⟩
  · cases hw

theorem unpack_two {c : Code} (hc : c.takesVal = true) (bs : List UInt8) (hl : bs.length = c.size + c.size) :
    ∃ a b, unpack ([c] ++ [c]) bs = .ok [a, b] := by
  have h1 : ¬ bs.length < c.size := by omega
  have h2 : (bs.drop c.size).length = c.size := by rw [List.length_drop]; omega
  refine ⟨unpackOne c (bs.take c.size), unpackOne c ((bs.drop c.size).take c.size), ?_⟩
  simp only [List.cons_append, List.nil_append, unpack, h1, if_false, hc, if_true, h2, Nat.lt_irrefl]
  rw [List.drop_of_length_le (Nat.le_of_eq h2)]
  simp [unpack, bind, Except.bind, pure, Except.pure]

theorem key_length (e : Pending) : e.key.length = 3 := by simp [Pending.key, miscKey_eq]

/-- given any reply variant of the device, the handler calls the caller's callback exactly once and unregisters itself -/
theorem handleMisc_done (e : Pending) (t : NumType) (ht : e.tcode = t.code) (hne : e.noElem = false)
    (hrid : (e.kind = .getDefault ∨ e.kind = .getState) → e.rid.isSome = true)
    (body : List UInt8) (hok : ReplyOK e.kind t.width body) (p : Pkt) (hd : p.data = e.key ++ body) :
    (handleMisc e p).2 = true ∧ (∀ r, e.rid = some r → ∃ res, (handleMisc e p).1 = [.misc r e.cn res]) := by
  obtain ⟨u1, u2, u3, u4, u5, u6⟩ := gen_unreg
  obtain ⟨_, hpf, _, _⟩ := type_table t
  have hfmt : (typeFmt e.tcode).getD "" = fmtOf t.code := by rw [ht]; rfl
  have hsz : t.structCode.size = t.width := by cases t <;> rfl
  have htv : t.structCode.takesVal = true := by cases t <;> rfl
  have hkl := key_length e
  have h3 : p.data[3]? = body.head? := by
    rw [hd, List.getElem?_append_right (by omega), hkl]
    cases body <;> simp
  have hd3 : p.data.drop 3 = body := by rw [hd, List.drop_append_of_le_length (by omega), List.drop_of_length_le (by omega)]; rfl
  have hd4 : p.data.drop 4 = body.drop 1 := by
    rw [show 4 = 3 + 1 from rfl, ← List.drop_drop, hd3]
  have hen : Gen.C04.ENOENT = 2 := by decide
  unfold handleMisc
  simp only [hfmt, hpf, hne, Bool.false_eq_true, if_false, h3, hd3, hd4, hen, u1, u2, u3, u4, u5, u6]
  cases hk : e.kind with
  | getDefault =>
    obtain ⟨r, hr⟩ := Option.isSome_iff_exists.mp (hrid (Or.inl hk))
    rw [hk] at hok
    rcases hok with h2 | hl
    · simp only [h2, hr]
      rw [if_pos (by decide)]
      exact ⟨rfl, fun r' hr' => ⟨_, by cases hr'; rfl⟩⟩
    · simp only at hl
      cases hb : body.head? with
      | none =>
        have : body = [] := by cases body <;> simp_all
        rw [this] at hl
        have : 0 < t.width := by cases t <;> decide
        simp at hl; omega
      | some b =>
        simp only [hr]
        by_cases hb2 : b.toNat = 2
        · rw [if_pos hb2]; exact ⟨rfl, fun r' hr' => ⟨_, by cases hr'; rfl⟩⟩
        · rw [if_neg hb2]
          unfold unpack1
          rw [hpf, unpack1_of_length htv body (by rw [hl, hsz])]
          exact ⟨rfl, fun r' hr' => ⟨_, by cases hr'; rfl⟩⟩
  | getState =>
    obtain ⟨r, hr⟩ := Option.isSome_iff_exists.mp (hrid (Or.inr hk))
    rw [hk] at hok
    rcases hok with h2 | ⟨b, d, hbd, hcase⟩
    · simp only [h2, hr]
      rw [if_pos (by decide)]
      exact ⟨rfl, fun r' hr' => ⟨_, by cases hr'; rfl⟩⟩
    · subst hbd
      simp only [List.head?_cons, hr, List.drop_succ_cons, List.drop_zero]
      by_cases hb2 : b.toNat = 2
      · rw [if_pos hb2]; exact ⟨rfl, fun r' hr' => ⟨_, by cases hr'; rfl⟩⟩
      · rw [if_neg hb2]
        rcases hcase with ⟨hb1, hl⟩ | ⟨hb1, hl⟩
        · subst hb1
          rw [if_pos (by decide)]
          obtain ⟨a, b', hab⟩ := unpack_two htv d (by rw [hl, hsz])
          rw [hab]
          exact ⟨rfl, fun r' hr' => ⟨_, by cases hr'; rfl⟩⟩
        · have : b.toNat ≠ 1 := by
            intro h; apply hb1; exact UInt8.toNat_inj.mp (by simpa using h)
          rw [if_neg this]
          unfold unpack1
          rw [hpf, unpack1_of_length htv d (by rw [hl, hsz])]
          exact ⟨rfl, fun r' hr' => ⟨_, by cases hr'; rfl⟩⟩
  | store =>
    rw [hk] at hok
    cases hr : e.rid with
    | none => exact ⟨rfl, fun r' hr' => by cases hr'⟩
    | some r =>
      have hne' : body ≠ [] := by
        rcases hok with h2 | h
        · intro hb; rw [hb] at h2; cases h2
        · exact h
      cases body with
      | nil => exact absurd rfl hne'
      | cons b d => exact ⟨rfl, fun r' hr' => ⟨_, by cases hr'; rfl⟩⟩
  | clear =>
    rw [hk] at hok
    cases hr : e.rid with
    | none => exact ⟨rfl, fun r' hr' => by cases hr'⟩
    | some r =>
      have hne' : body ≠ [] := by
        rcases hok with h2 | h
        · intro hb; rw [hb] at h2; cases h2
        · exact h
      cases body with
      | nil => exact absurd rfl hne'
      | cons b d => exact ⟨rfl, fun r' hr' => ⟨_, by cases hr'; rfl⟩⟩

/-! ### the device keeps types and widths -/

/-- `d'` has the same parameter types as `d` -/
def SameTypes (d d' : Dev) : Prop :=
  ∀ j : Nat, (d'.params[j]?).map DevParam.tcode = (d.params[j]?).map DevParam.tcode

theorem SameTypes.refl (d : Dev) : SameTypes d d := fun _ => rfl

theorem setParam_types (d : Dev) (i : Nat) (f : DevParam → DevParam) (hf : ∀ x, (f x).tcode = x.tcode) :
    SameTypes d (d.setParam i f) := by
  intro j
  show ((d.params.modify i f)[j]?).map _ = _
  rw [List.getElem?_modify]
  cases d.params[j]? with
  | none => rfl
  | some x => simp only [Functor.map, Option.map_some]; split <;> simp [hf]

theorem setParam_wf (d : Dev) (i : Nat) (f : DevParam → DevParam) (hwf : DevWF d)
    (hf : ∀ x, d.params[i]? = some x → (f x).tcode = x.tcode ∧ ∀ w, devWidth x.tcode = some w →
      (f x).value.length = w ∧ (f x).dflt.length = w ∧ ∀ st, (f x).stored = some st → st.length = w) : DevWF (d.setParam i f) := by
  intro j dp hdp w hw
  have hdp' : (d.params.modify i f)[j]? = some dp := hdp
  rw [List.getElem?_modify] at hdp'
  cases hx : d.params[j]? with
  | none => rw [hx] at hdp'; cases hdp'
  | some x =>
    rw [hx] at hdp'
    simp only [Functor.map, Option.map_some, Option.some.injEq] at hdp'
    by_cases hij : i = j
    · subst hij
      rw [if_pos rfl] at hdp'
      subst hdp'
      rw [(hf x hx).1] at hw
      exact (hf x hx).2 w hw
    · rw [if_neg hij] at hdp'
      subst hdp'
      exact hwf j _ hx w hw

theorem Dev.miscBody_typed {d d' : Dev} {c i : Nat} {b : List UInt8} (hwf : DevWF d) (h : d.miscBody c i = some (d', b)) :
    SameTypes d d' ∧ DevWF d' := by
  unfold Dev.miscBody at h
  split at h
  · split at h
    · cases h; exact ⟨SameTypes.refl _, hwf⟩
    · rename_i p hp
      have hstore : SameTypes d (d.setParam i fun q => { q with stored := some q.value }) ∧
          DevWF (d.setParam i fun q => { q with stored := some q.value }) :=
        ⟨setParam_types _ _ _ (fun _ => rfl), setParam_wf _ _ _ hwf (fun x hx => ⟨rfl, fun w hw => by
          obtain ⟨a, b', _⟩ := hwf i x hx w hw
          exact ⟨a, b', fun st hst => by cases hst; exact a⟩⟩)⟩
      have hclear : SameTypes d (d.setParam i fun q => { q with stored := none }) ∧
          DevWF (d.setParam i fun q => { q with stored := none }) :=
        ⟨setParam_types _ _ _ (fun _ => rfl), setParam_wf _ _ _ hwf (fun x hx => ⟨rfl, fun w hw => by
          obtain ⟨a, b', _⟩ := hwf i x hx w hw
          exact ⟨a, b', fun st hst => by cases hst⟩⟩)⟩
      repeat' split at h
      all_goals first
        | (cases h; exact ⟨SameTypes.refl _, hwf⟩)
        | (cases h; exact hstore)
        | (cases h; exact hclear)
  · cases h

/-- `handle` keeps every parameter's type, and the widths -/
theorem Dev.handle_typed (d : Dev) (p : Pkt) (hwf : DevWF d) : SameTypes d (d.handle p).1 ∧ DevWF (d.handle p).1 := by
  unfold Dev.handle
  split
  · unfold Dev.read; repeat' split
    all_goals exact ⟨SameTypes.refl _, hwf⟩
  · split
    · unfold Dev.write
      split
      · exact ⟨SameTypes.refl _, hwf⟩
      · split
        · exact ⟨SameTypes.refl _, hwf⟩
        · rename_i _ i ib _ _ dp hdp
          simp only
          split
          · rename_i hacc
            simp only [Bool.and_eq_true, Bool.not_eq_true', beq_iff_eq] at hacc
            refine ⟨setParam_types _ _ _ (fun _ => rfl), setParam_wf _ _ _ hwf ?_⟩
            intro x hx
            rw [hdp] at hx; cases hx
            refine ⟨rfl, fun w hw => ?_⟩
            obtain ⟨_, b', c'⟩ := hwf i dp hdp w hw
            rw [hacc.2] at hw
            exact ⟨(Option.some.inj hw), b', c'⟩
          · exact ⟨SameTypes.refl _, hwf⟩
    · split
      · unfold Dev.misc
        split
        · split
          · rename_i d' body hb
            exact Dev.miscBody_typed hwf hb
          · exact ⟨SameTypes.refl _, hwf⟩
        · exact ⟨SameTypes.refl _, hwf⟩
      · exact ⟨SameTypes.refl _, hwf⟩

/-- the body of the device's reply to a misc request about a known, typed parameter is one of the reply variants -/
theorem miscBody_replyOK (d : Dev) (hwf : DevWF d) (k : MiscKind) (i : Nat) (dp : DevParam) (hdp : d.params[i]? = some dp)
    (t : NumType) (hdt : dp.tcode = t.code) {d' : Dev} {b : List UInt8} (h : d.miscBody k.cmd i = some (d', b)) :
    ReplyOK k t.width b := by
  obtain ⟨wv, wd, ws⟩ := hwf i dp hdp t.width (by rw [hdt]; exact devWidth_code t)
  obtain ⟨_, c3, c4, c5, c6⟩ := gen_cmds
  have hw : 0 < t.width := by cases t <;> decide
  unfold Dev.miscBody at h
  cases k with
  | getDefault =>
    simp only [MiscKind.cmd, c6, hdp] at h
    simp at h
    obtain ⟨_, rfl⟩ := h
    exact Or.inr wd
  | getState =>
    simp only [MiscKind.cmd, c4, hdp] at h
    simp at h
    by_cases hp : dp.persistent = true
    · simp [hp] at h
      cases hs : dp.stored with
      | none =>
        rw [hs] at h; simp at h
        obtain ⟨_, rfl⟩ := h
        exact Or.inr ⟨0, dp.dflt, rfl, Or.inr ⟨by decide, wd⟩⟩
      | some st =>
        rw [hs] at h; simp at h
        obtain ⟨_, rfl⟩ := h
        exact Or.inr ⟨1, dp.dflt ++ st, rfl, Or.inl ⟨rfl, by rw [List.length_append, wd, ws st hs]⟩⟩
    · simp [hp] at h
      obtain ⟨_, rfl⟩ := h
      exact Or.inl rfl
  | store =>
    simp only [MiscKind.cmd, c3, hdp] at h
    simp at h
    by_cases hp : dp.persistent = true
    · simp [hp] at h; obtain ⟨_, rfl⟩ := h; exact Or.inr (by simp)
    · simp [hp] at h; obtain ⟨_, rfl⟩ := h; exact Or.inl rfl
  | clear =>
    simp only [MiscKind.cmd, c5, hdp] at h
    simp at h
    by_cases hp : dp.persistent = true
    · simp [hp] at h; obtain ⟨_, rfl⟩ := h; exact Or.inr (by simp)
    · simp [hp] at h; obtain ⟨_, rfl⟩ := h; exact Or.inl rfl

theorem Dev.misc_reply_ok (d : Dev) (hwf : DevWF d) (k : MiscKind) (i : Nat) (hi : i < 65536) (dp : DevParam)
    (hdp : d.params[i]? = some dp) (t : NumType) (hdt : dp.tcode = t.code) :
    ∃ d' body, d.handle { chan := 3, data := miscKey k.cmd i } = (d', [{ chan := 3, data := miscKey k.cmd i ++ body }]) ∧
      ReplyOK k t.width body := by
  have hk := kind_cmd_lt k
  have hh : d.handle { chan := 3, data := miscKey k.cmd i } = d.misc (miscKey k.cmd i) := by simp [Dev.handle]
  rw [hh, miscKey_eq]
  unfold Dev.misc
  simp only
  have h1 : (UInt8.ofNat (k.cmd % 256)).toNat = k.cmd := by simp; omega
  have h2 : (UInt8.ofNat (i % 256)).toNat + 256 * (UInt8.ofNat (i / 256 % 256)).toNat = i := by simp; omega
  rw [h1, h2]
  obtain ⟨d', b, hb⟩ := d.miscBody_some k i
  rw [hb]
  exact ⟨d', b, rfl, miscBody_replyOK d hwf k i dp hdp t hdt hb⟩

/-! ### what the API calls register -/

/-- a handler registered together with a request: for an element of the table, with the caller's callback -/
def EntryOf (toc : List Elem) (e : Pending) : Prop :=
  e.noElem = false ∧ ((e.kind = .getDefault ∨ e.kind = .getState) → e.rid.isSome = true) ∧
    ∃ el ∈ toc, el.ident = e.ident ∧ el.tcode = e.tcode

/-- beyond `ApiEffect`: the table is untouched; a handler registered WITHOUT a request is a leftover that can never fire
(unknown name, or an index that does not fit 16 bits); a handler registered with a request is an `EntryOf` the table -/
structure ApiExtra (h h' : Host) (o : List Out) : Prop where
  toc : h'.toc = h.toc
  stale : enqsOf o = [] → ∀ e, h'.pending = h.pending ++ [e] → e.noElem = true ∨ ∃ el ∈ h.toc, 65536 ≤ el.ident
  entry : ∀ p e, enqsOf o = [(p, some e)] → EntryOf h.toc e

theorem append_singleton_ne {α} (l : List α) (e : α) : l ≠ l ++ [e] := by
  intro h
  have := congrArg List.length h
  simp at this

theorem ApiExtra.same {h : Host} {o : List Out} (ho : ∀ p e, enqsOf o ≠ [(p, some e)]) : ApiExtra h h o :=
  ⟨rfl, fun _ e he => absurd he (append_singleton_ne _ _), fun p e hp => absurd hp (ho p e)⟩

theorem elemByName_mem {toc : List Elem} {cn : List Nat} {el : Elem} (h : elemByName toc cn = some el) : el ∈ toc := by
  unfold elemByName at h
  split at h
  · exact List.mem_of_find?_eq_some h
  · cases h

theorem miscPkt_err {k : MiscKind} {i : Nat} {er : PyErr} (h : miscPkt k i = .error er) : 65536 ≤ i := by
  by_cases hi : i < 65536
  · exfalso
    have hk := kind_cmd_lt k
    unfold miscPkt at h
    rw [gen_misc_fmt] at h
    simp only [pack, packOne, bind, Except.bind, pure, Except.pure] at h
    have h1 : packUnsigned 1 ((k.cmd : Nat) : Int) = .ok (leBytes 1 k.cmd) := by
      show packUnsigned 1 (Int.ofNat k.cmd) = _
      simp only [packUnsigned]; rw [if_pos (by simpa using hk)]
    have h2 : packUnsigned 2 ((i : Nat) : Int) = .ok (leBytes 2 i) := by
      show packUnsigned 2 (Int.ofNat i) = _
      simp only [packUnsigned]; rw [if_pos (by simpa using hi)]
    rw [h1, h2] at h
    cases h
  · omega

theorem sendMisc_extra (v : Variant) (hv : v.routing = 1) (h : Host) (k : MiscKind) (el : Elem) (cn : List Nat) (rid : Option Nat)
    (hel : el ∈ h.toc) (hrid : (k = .getDefault ∨ k = .getState) → rid.isSome = true) :
    ApiExtra h (sendMisc v h k el cn rid).1 (sendMisc v h k el cn rid).2 := by
  unfold sendMisc
  split
  · rename_i er herr
    have hbig := miscPkt_err herr
    split
    · exact ApiExtra.same (by intro p e; simp [enqsOf])
    · refine ⟨rfl, fun _ e he => Or.inr ⟨el, hel, hbig⟩, fun p e hp => by simp [enqsOf] at hp⟩
  · rename_i p hp
    simp only
    split
    · refine ⟨rfl, fun he => by simp [enqsOf] at he, fun p' e hpe => ?_⟩
      simp only [enqsOf, List.filterMap_cons, List.filterMap_nil, List.cons.injEq, Prod.mk.injEq, Option.some.injEq, and_true] at hpe
      obtain ⟨_, rfl⟩ := hpe
      exact ⟨rfl, hrid, el, hel, rfl, rfl⟩
    · refine ⟨rfl, fun he => by simp [enqsOf] at he, fun p' e hpe => ?_⟩
      simp [enqsOf] at hpe

theorem api_extra (S2F : List Char → Except PyErr Nat) (v : Variant) (hv : v.routing = 1) (v2 : Bool) (h : Host) (c : Api) :
    ApiExtra h (c.run S2F v v2 h).1 (c.run S2F v v2 h).2 := by
  cases c with
  | setValue cn x cb =>
    simp only [Api.run, setValue]
    split
    · rename_i o ho
      have := (quiet_proj (o := [o]) (by intro y hy; simp only [List.mem_singleton] at hy; subst hy; exact gate_quiet ho)).1
      exact ApiExtra.same (by intro p e; rw [this]; simp)
    · split
      · exact ApiExtra.same (by intro p e; simp [enqsOf])
      · exact ⟨rfl, fun _ e he => absurd he (append_singleton_ne _ _), fun p e hp => by simp [enqsOf] at hp⟩
  | getValue cn cb =>
    simp only [Api.run, getValue]
    split
    · rename_i o ho
      have := (quiet_proj (o := [o]) (by intro y hy; simp only [List.mem_singleton] at hy; subst hy; exact gate_quiet ho)).1
      exact ApiExtra.same (by intro p e; rw [this]; simp)
    · repeat' split
      all_goals exact ApiExtra.same (by intro p e; simp [enqsOf])
  | requestUpdate cn =>
    simp only [Api.run, requestUpdate]
    repeat' split
    all_goals exact ⟨rfl, fun _ e he => absurd he (append_singleton_ne _ _), fun p e hp => by simp [enqsOf] at hp⟩
  | getDefault cn r =>
    simp only [Api.run, getDefault]
    split
    · rw [if_neg (by omega)]
      exact ⟨rfl, fun _ e he => by
        have := List.append_cancel_left he
        simp only [List.cons.injEq, and_true] at this
        subst this; exact Or.inl rfl, fun p e hp => by simp [enqsOf] at hp⟩
    · rename_i el hel
      exact sendMisc_extra v hv h _ el cn _ (elemByName_mem hel) (fun _ => rfl)
  | getState cn r =>
    simp only [Api.run, getState]
    split
    · exact ApiExtra.same (by intro p e; simp [enqsOf])
    · rename_i el hel
      split
      · exact ApiExtra.same (by intro p e; simp [enqsOf])
      · exact sendMisc_extra v hv h _ el cn _ (elemByName_mem hel) (fun _ => rfl)
  | store cn r =>
    simp only [Api.run, store]
    split
    · split <;> exact ApiExtra.same (by intro p e; simp [enqsOf])
    · rename_i el hel
      split
      · exact ApiExtra.same (by intro p e; simp [enqsOf])
      · exact sendMisc_extra v hv h _ el cn _ (elemByName_mem hel) (fun hk => by rcases hk with hk | hk <;> cases hk)
  | clear cn r =>
    simp only [Api.run, clear]
    split
    · exact ApiExtra.same (by intro p e; simp [enqsOf])
    · rename_i el hel
      split
      · exact ApiExtra.same (by intro p e; simp [enqsOf])
      · exact sendMisc_extra v hv h _ el cn _ (elemByName_mem hel) (fun hk => by rcases hk with hk | hk <;> cases hk)
  | addCb g n cb =>
    simp only [Api.run, addCb]
    repeat' split
    all_goals exact ⟨rfl, fun _ e he => absurd he (append_singleton_ne _ _), fun p e hp => by simp [enqsOf] at hp⟩
  | removeCb g n cb =>
    simp only [Api.run, removeCb]
    repeat' split
    all_goals exact ⟨rfl, fun _ e he => absurd he (append_singleton_ne _ _), fun p e hp => by simp [enqsOf] at hp⟩

/-! ### which handlers are registered after a packet was dispatched -/

theorem rx_pending_notif (v : Variant) (hv : v.routing = 1) (hs : v.snap = true) (h : Host) {p : Pkt} (hn : isNotif p = true) :
    (rx v h p).1.pending = h.pending := by
  obtain ⟨hc3, _⟩ := isNotif_iff hn
  unfold rx
  rcases hu : updaterRx h p with ⟨h1, o1, p1⟩
  obtain ⟨sq, _, _, _, hp1⟩ := updaterRx_spec hu
  have hp1 := hp1 hc3
  subst hp1
  simp only
  rw [miscRx_snap v hv hs]
  obtain ⟨o2, hsn, _⟩ := oneShotSnap_nofire (p := p1) h1.pending h1 [] (fun e _ => nofire_notif e hn)
  rw [hsn]
  exact sq.pending

/-- the reply to the oldest unanswered request `x` is dispatched: under `KeysDistinct` exactly the handler registered with
`x` (if any) is affected - unregistered iff it ran to one of its unregistering exits -/
theorem snap_pending_reply {v2 : Bool} {h1 : Host} {p : Pkt} {x : Pkt × Option Pending} {G1 : List (Pkt × Option Pending)}
    (hwf : ReqWF v2 x) (hch : p.chan = x.1.chan) (hbody : x.1.chan = 3 → ∃ body, p.data = x.1.data ++ body)
    (hsub : ((x :: G1).filterMap Prod.snd).Sublist h1.pending) (hkd : KeysDistinct h1.pending (x :: G1)) :
    (oneShotSnap true p h1.pending h1 []).1.pending =
      (match x.2 with | some e => if (handleMisc e p).2 then h1.pending.erase e else h1.pending | none => h1.pending) := by
  rcases hwf with ⟨hc12, _, hnone⟩ | ⟨hc3, k, i, hi, hdat, hent⟩
  · have hne : p.chan ≠ 3 := by rw [hch]; rcases hc12 with h | h <;> omega
    obtain ⟨o2, hsn, q2⟩ := oneShotSnap_nofire (p := p) h1.pending h1 [] (fun e _ => by rw [nofire_of_chan hne]; simp)
    rw [hsn, hnone]
  · obtain ⟨body, hpd⟩ := hbody hc3
    rw [hdat] at hpd
    have hpc : p.chan = 3 := by rw [hch, hc3]
    have hk8 := kind_cmd_lt k
    cases hx2 : x.2 with
    | none =>
      have hnf : ∀ y ∈ h1.pending, oneShotMatches true y p ≠ .ok true := by
        intro y hy hf
        obtain ⟨f1, f2, f3⟩ := fires_key hpc hk8 hi hpd hf
        have hkey : y.key = x.1.data := by rw [Pending.key, f1, f2, hdat]
        have h1' : y.key ∈ regKeys h1.pending := List.mem_map.mpr ⟨y, List.mem_filter.mpr ⟨hy, by simp [f3]⟩, rfl⟩
        have h2' : x.1.data ∈ cblessKeys (x :: G1) :=
          List.mem_map.mpr ⟨x, List.mem_filter.mpr ⟨by simp, by simp [hc3, hx2]⟩, rfl⟩
        exact (List.nodup_append.mp hkd).2.2 _ h1' _ h2' hkey
      obtain ⟨o2, hsn, _⟩ := oneShotSnap_nofire (p := p) h1.pending h1 [] hnf
      rw [hsn]
    | some e =>
      obtain ⟨e1, e2, e3⟩ := hent e hx2
      rw [List.filterMap_cons, hx2] at hsub
      have hmem : e ∈ h1.pending := hsub.subset (by simp)
      obtain ⟨es1, es2, hsplit⟩ := List.append_of_mem hmem
      have hfe : oneShotMatches true e p = .ok true :=
        fires_of hpc (by rw [e2]; exact hi) e3 (body := body) (by rw [Pending.key, e1, e2]; exact hpd)
      have hnd : (((es1 ++ e :: es2).filter (fun e => !e.noElem)).map Pending.key).Nodup := by
        have := (List.nodup_append.mp hkd).1
        rw [regKeys, hsplit] at this; exact this
      have hother : ∀ y, y ∈ es1 ∨ y ∈ es2 → oneShotMatches true y p ≠ .ok true := by
        intro y hy hf
        obtain ⟨f1, f2, f3⟩ := fires_key hpc hk8 hi hpd hf
        exact nodup_mid Pending.key (fun e => !e.noElem) hnd (by simp [e3]) (by simp [f3])
          (by rw [Pending.key, Pending.key, f1, f2, e1, e2]) hy
      obtain ⟨o1, o2, hsn, _, _⟩ := oneShotSnap_one (p := p) (e := e) es1 es2 h1 []
        (fun y hy => hother y (Or.inl hy)) (fun y hy => hother y (Or.inr hy)) hfe
      rw [hsplit, hsn]
      simp only
      split <;> simp [hsplit]

/-! ### the lifecycle invariant -/

/-- a registered handler whose parameter the device knows under the same numeric type -/
def EntryTyped (d : Dev) (e : Pending) : Prop :=
  e.noElem = false ∧ ((e.kind = .getDefault ∨ e.kind = .getState) → e.rid.isSome = true) ∧ e.ident < 65536 ∧
    ∃ dp t, d.params[e.ident]? = some dp ∧ dp.tcode = NumType.code t ∧ e.tcode = NumType.code t

structure AttT (s : Sys) (G : List (Pkt × Option Pending)) (W : List Pkt) : Prop where
  toc : TocOK s.host.toc s.dev
  devwf : DevWF s.dev
  pendEq : handlersOf s.host.pending = G.filterMap Prod.snd
  typed : ∀ x ∈ G, ∀ e, x.2 = some e → EntryTyped s.dev e
  inflight : ∀ req rep, W = [req] → solicited s.down = [rep] → ∀ x, G.head? = some x → ∀ e, x.2 = some e →
    ∃ t body, e.tcode = NumType.code t ∧ rep.data = e.key ++ body ∧ ReplyOK e.kind t.width body

theorem TocOK.mono {toc : List Elem} {d d' : Dev} (h : TocOK toc d) (hs : SameTypes d d') : TocOK toc d' := by
  intro el hel
  obtain ⟨a, b, dp, hdp, ht⟩ := h el hel
  refine ⟨a, b, ?_⟩
  have := hs el.ident
  rw [hdp] at this
  cases hd' : d'.params[el.ident]? with
  | none => rw [hd'] at this; cases this
  | some dp' =>
    rw [hd'] at this
    simp only [Option.map_some, Option.some.injEq] at this
    exact ⟨dp', rfl, by rw [this, ht]⟩

theorem EntryTyped.mono {d d' : Dev} {e : Pending} (h : EntryTyped d e) (hs : SameTypes d d') : EntryTyped d' e := by
  obtain ⟨a, b, c, dp, t, hdp, h1, h2⟩ := h
  refine ⟨a, b, c, ?_⟩
  have := hs e.ident
  rw [hdp] at this
  cases hd' : d'.params[e.ident]? with
  | none => rw [hd'] at this; cases this
  | some dp' =>
    rw [hd'] at this
    simp only [Option.map_some, Option.some.injEq] at this
    exact ⟨dp', t, rfl, by rw [this, h1], h2⟩

theorem EntryOf.typed {toc : List Elem} {d : Dev} {e : Pending} (h : EntryOf toc e) (ht : TocOK toc d) : EntryTyped d e := by
  obtain ⟨a, b, el, hel, hi, htc⟩ := h
  obtain ⟨h1, h2, dp, hdp, hdt⟩ := ht el hel
  obtain ⟨t, htt, _⟩ := numericCode_numType h2
  exact ⟨a, b, by rw [← hi]; exact h1, dp, t, by rw [← hi]; exact hdp, by rw [hdt, htt], by rw [← htc, htt]⟩

theorem handlersOf_append (a b : List Pending) : handlersOf (a ++ b) = handlersOf a ++ handlersOf b := by
  simp [handlersOf, List.filter_append]

theorem unanswered_append {pre o : List Out} {A G : List (Pkt × Option Pending)} (he : enqsOf pre = A ++ G)
    (hr : (solicited (rxdsOf pre)).length = A.length) (hro : rxdsOf o = []) : unanswered (pre ++ o) = G ++ enqsOf o := by
  unfold unanswered
  rw [enqsOf_append, rxdsOf_append, hro, List.append_nil, hr, he, List.append_assoc, List.drop_left]

theorem stepT_api (S2F : List Char → Except PyErr Nat) (v : Variant) (hv : v.routing = 1) {v2 : Bool} {s : Sys} {pre : List Out}
    {A G : List (Pkt × Option Pending)} {W : List Pkt} (hinv : Inv v2 s pre A G W) (c : Api) (hT : AttT s G W) :
    AttT { s with host := (c.run S2F v s.dev.v2 s.host).1 } (G ++ enqsOf (c.run S2F v s.dev.v2 s.host).2) W := by
  have he : ApiEffect v2 s.host (c.run S2F v s.dev.v2 s.host).1 (c.run S2F v s.dev.v2 s.host).2 := by
    have := api_effect S2F v hv s.host c
    rw [hinv.useV2] at this
    rw [hinv.dv2]; exact this
  have hx := api_extra S2F v hv s.dev.v2 s.host c
  generalize c.run S2F v s.dev.v2 s.host = r at he hx
  have htoc : TocOK r.1.toc s.dev := by rw [hx.toc]; exact hT.toc
  have hinfl : ∀ (new : List (Pkt × Option Pending)) req rep, W = [req] → solicited s.down = [rep] → ∀ x, (G ++ new).head? = some x →
      ∀ e, x.2 = some e → ∃ t body, e.tcode = NumType.code t ∧ rep.data = e.key ++ body ∧ ReplyOK e.kind t.width body := by
    intro new req rep hw hd x hx' e he'
    cases G with
    | nil =>
      have := hinv.gq
      rw [hw] at this
      simp at this
    | cons g gs => exact hT.inflight req rep hw hd x (by simpa using hx') e he'
  rcases he.q with ⟨q1, _, q3⟩ | ⟨p, eo, q1, _, q3, _⟩
  · rw [q1, List.append_nil]
    refine ⟨htoc, hT.devwf, ?_, hT.typed, fun req rep hw hd x hx' => hinfl [] req rep hw hd x (by simpa using hx')⟩
    show handlersOf r.1.pending = _
    rcases q3 with q3 | ⟨e, q3⟩
    · rw [q3]; exact hT.pendEq
    · rw [q3, handlersOf_append, hT.pendEq]
      rcases hx.stale q1 e q3 with hn | ⟨el, hel, hbig⟩
      · simp [handlersOf, hn]
      · have := (hT.toc el hel).1
        omega
  · rw [q1]
    refine ⟨htoc, hT.devwf, ?_, ?_, fun req rep hw hd x hx' => hinfl [(p, eo)] req rep hw hd x hx'⟩
    · show handlersOf r.1.pending = _
      rw [q3, handlersOf_append, hT.pendEq, List.filterMap_append]
      cases eo with
      | none => simp [handlersOf]
      | some e =>
        have := (hx.entry p e q1).1
        simp [handlersOf, this]
    · intro x hxm e he'
      simp only [List.mem_append, List.mem_singleton] at hxm
      rcases hxm with hxm | rfl
      · exact hT.typed x hxm e he'
      · simp only at he'
        subst he'
        exact (hx.entry p e q1).typed hT.toc

theorem solicited_snoc_notif {l : List Pkt} {d : Dev} {i : Nat} {n : Bool} :
    solicited (l ++ (if n then (d.notify i).toList else [])) = solicited l := by
  rw [solicited_append]
  split
  · cases hn : d.notify i with
    | none => simp [solicited]
    | some p => simp [solicited_notif (notify_isNotif hn)]
  · simp [solicited]

theorem stepT_devSet {s : Sys} {G : List (Pkt × Option Pending)} {W : List Pkt} (hT : AttT s G W) (i : Nat) (raw : List UInt8) (n : Bool)
    (hw : ∀ dp, s.dev.params[i]? = some dp → devWidth dp.tcode = some raw.length) :
    AttT { s with dev := s.dev.setValue i raw,
                  down := s.down ++ (if n then ((s.dev.setValue i raw).notify i).toList else []) } G W := by
  have hst : SameTypes s.dev (s.dev.setValue i raw) := setParam_types _ _ _ (fun _ => rfl)
  have hwf : DevWF (s.dev.setValue i raw) := setParam_wf _ _ _ hT.devwf (fun x hx => ⟨rfl, fun w hw' => by
    obtain ⟨_, b, c⟩ := hT.devwf i x hx w hw'
    have := hw x hx
    rw [hw'] at this
    exact ⟨(Option.some.inj this).symm, b, c⟩⟩)
  refine ⟨hT.toc.mono hst, hwf, hT.pendEq, fun x hx e he => (hT.typed x hx e he).mono hst, ?_⟩
  intro req rep hw' hd
  rw [solicited_snoc_notif] at hd
  exact hT.inflight req rep hw' hd

theorem oneShotSnap_toc (m : Bool) (p : Pkt) : ∀ (es : List Pending) (h : Host) (acc : List Out),
    (oneShotSnap m p es h acc).1.toc = h.toc
  | [], _, _ => rfl
  | e :: es, h, acc => by
    simp only [oneShotSnap]
    rw [oneShotSnap_toc m p es]
    unfold oneShotCall
    split
    · rfl
    · rfl
    · simp only; split <;> rfl

theorem rx_toc (v : Variant) (hv : v.routing = 1) (hs : v.snap = true) (h : Host) (p : Pkt) : (rx v h p).1.toc = h.toc := by
  unfold rx
  rcases hu : updaterRx h p with ⟨h1, o1, p1⟩
  obtain ⟨sq, _⟩ := updaterRx_spec hu
  simp only
  rw [miscRx_snap v hv hs, oneShotSnap_toc]
  exact sq.toc

theorem stepT_updSend {v2 : Bool} {s : Sys} {pre : List Out} {A G : List (Pkt × Option Pending)} {W : List Pkt}
    (hinv : Inv v2 s pre A G W) {h' : Host} {p : Pkt} (hs : updSend s.host = some (h', [.tx p])) (hT : AttT s G W) :
    AttT { host := h', dev := (s.dev.handle p).1, down := s.down ++ (s.dev.handle p).2 } G [p] := by
  -- shape of the step
  have hsh : s.host.cur = some p ∧ s.host.lockHeld = false ∧ h'.pending = s.host.pending ∧ h'.toc = s.host.toc := by
    unfold updSend at hs
    cases hc : s.host.cur with
    | none => rw [hc] at hs; cases hs
    | some q =>
      rw [hc] at hs
      simp only at hs
      split at hs
      · cases hs
      · rename_i hl
        simp only [Option.some.injEq, Prod.mk.injEq, List.cons.injEq, Out.tx.injEq, and_true] at hs
        obtain ⟨rfl, rfl⟩ := hs
        exact ⟨rfl, by simpa using hl, rfl, rfl⟩
  obtain ⟨hc, hl, hpend, htoc⟩ := hsh
  obtain ⟨hst, hwf⟩ := Dev.handle_typed s.dev p hT.devwf
  have hW : W = [] ∧ solicited s.down = [] := by
    rcases hinv.wait with h | ⟨req, rep, hw⟩
    · exact h
    · rw [hw.held] at hl; cases hl
  obtain ⟨hW1, hW2⟩ := hW
  subst hW1
  have hgq := hinv.gq
  rw [hc] at hgq
  simp only [List.nil_append, Option.toList, List.cons_append] at hgq
  refine ⟨by show TocOK h'.toc _; rw [htoc]; exact hT.toc.mono hst, hwf, by show handlersOf h'.pending = _; rw [hpend]; exact hT.pendEq,
    fun x hx e he => (hT.typed x hx e he).mono hst, ?_⟩
  intro req rep hreq hd x hx e he
  cases G with
  | nil => simp at hx
  | cons g gs =>
    simp only [List.head?_cons, Option.some.injEq] at hx
    subst hx
    simp only [List.map_cons, List.cons.injEq] at hgq
    have hg1 : g.1 = p := hgq.1
    have hwfg : ReqWF v2 g := hinv.wf g (by simp)
    rcases hwfg with ⟨_, _, hnone⟩ | ⟨hc3, k, i, hi, hdat, hent⟩
    · rw [hnone] at he; cases he
    · obtain ⟨e1, e2, _⟩ := hent e he
      obtain ⟨_, _, _, dp, t, hdp, hdt, het⟩ := hT.typed g (by simp) e he
      rw [e2] at hdp
      obtain ⟨d', body, hh, hok⟩ := Dev.misc_reply_ok s.dev hT.devwf k i hi dp hdp t hdt
      have hp : p = { chan := 3, data := miscKey k.cmd i } := by
        rw [← hg1]; cases g with | mk g1 g2 => cases g1; simp_all
      rw [hp] at hd
      simp only at hd
      rw [hh, solicited_append, hW2, solicited_reply (notif_not_isNotif_of_cmd (k := k) (i := i) (rest := body) rfl)] at hd
      simp only [List.nil_append, List.cons.injEq, and_true] at hd
      subst hd
      exact ⟨t, body, het, by simp only [Pending.key, e1, e2], by rw [e1]; exact hok⟩

theorem stepT_deliver_notif (v : Variant) (hv : v.routing = 1) (hs : v.snap = true) {s : Sys} {G : List (Pkt × Option Pending)}
    {W : List Pkt} (hT : AttT s G W) {p : Pkt} {rest : List Pkt} (hd : s.down = p :: rest) (hn : isNotif p = true) :
    AttT { s with host := (rx v s.host p).1, down := rest } G W := by
  refine ⟨by show TocOK (rx v s.host p).1.toc _; rw [rx_toc v hv hs]; exact hT.toc, hT.devwf,
    by show handlersOf (rx v s.host p).1.pending = _; rw [rx_pending_notif v hv hs _ hn]; exact hT.pendEq, hT.typed, ?_⟩
  intro req rep hw hd'
  have : solicited s.down = solicited rest := by
    rw [hd]; show solicited ([p] ++ rest) = _
    rw [solicited_append, solicited_notif hn]; rfl
  exact hT.inflight req rep hw (by rw [this]; exact hd')

theorem stepT_deliver_reply (v : Variant) (hv : v.routing = 1) (hs : v.snap = true) {v2 : Bool} {s : Sys} {pre : List Out}
    {A : List (Pkt × Option Pending)} {x : Pkt × Option Pending} {G1 : List (Pkt × Option Pending)} {W : List Pkt}
    (hinv : Inv v2 s pre A (x :: G1) W) (hT : AttT s (x :: G1) W) (hkd : KeysDistinct s.host.pending (x :: G1))
    {p : Pkt} {rest : List Pkt} (hd : s.down = p :: rest) (hn : isNotif p = false) :
    AttT { s with host := (rx v s.host p).1, down := rest } G1 [] := by
  -- the packet is the reply the updater waits for
  have hsol : solicited s.down = p :: solicited rest := by
    rw [hd]; show solicited ([p] ++ rest) = _
    rw [solicited_append, solicited_reply hn]; rfl
  obtain ⟨req, rep, hw⟩ : ∃ req rep, Waiting v2 s W req rep := by
    rcases hinv.wait with h | h
    · rw [hsol] at h; cases h.2
    · exact h
  have hdn := hw.down
  rw [hsol] at hdn
  simp only [List.cons.injEq] at hdn
  obtain ⟨hprep, hrest⟩ := hdn
  subst hprep
  have hgq := hinv.gq
  rw [hw.w] at hgq
  simp only [List.map_cons, List.cons_append, List.nil_append, List.cons.injEq] at hgq
  have hx1 : x.1 = req := hgq.1
  have hwfx : ReqWF v2 x := hinv.wf x (by simp)
  -- registered handlers after the dispatch
  have hpend : handlersOf (rx v s.host p).1.pending = G1.filterMap Prod.snd := by
    unfold rx
    rcases hu : updaterRx s.host p with ⟨h1, o1, p1⟩
    obtain ⟨sq, _, _, hp1c, hp1⟩ := updaterRx_spec hu
    simp only
    rw [miscRx_snap v hv hs]
    have hkd1 : KeysDistinct h1.pending (x :: G1) := by rw [sq.pending]; exact hkd
    have hsub1 : ((x :: G1).filterMap Prod.snd).Sublist h1.pending := by
      rw [sq.pending, ← hT.pendEq]; exact List.filter_sublist
    have hchx : p1.chan = x.1.chan := by rw [hp1c, hw.chan, hx1]
    have hbodyx : x.1.chan = 3 → ∃ body, p1.data = x.1.data ++ body := by
      intro h3
      have hp3 : p.chan = 3 := by rw [hw.chan, ← hx1]; exact h3
      rw [hp1 hp3, hx1]
      exact hw.body (by rw [← hx1]; exact h3)
    rw [snap_pending_reply hwfx hchx hbodyx hsub1 hkd1, sq.pending]
    have hpe := hT.pendEq
    cases hx2 : x.2 with
    | none =>
      simp only
      rw [hpe, List.filterMap_cons, hx2]
    | some e =>
      simp only
      -- the reply is one of the device's reply variants: the handler unregisters itself
      have hwf3 : x.1.chan = 3 := by
        rcases hwfx with ⟨_, _, hnn⟩ | ⟨h3, _⟩
        · rw [hnn] at hx2; cases hx2
        · exact h3
      have hp3 : p.chan = 3 := by rw [hw.chan, ← hx1]; exact hwf3
      have hpp : p1 = p := hp1 hp3
      obtain ⟨t, body, het, hdat, hok⟩ := hT.inflight req p hw.w (by rw [hsol, hrest]) x rfl e hx2
      obtain ⟨hne, hrid, _, _⟩ := hT.typed x (by simp) e hx2
      have hdone := (handleMisc_done e t het hne hrid body hok p1 (by rw [hpp]; exact hdat)).1
      rw [hdone, if_pos rfl]
      unfold handlersOf at hpe ⊢
      rw [← List.erase_filter, hpe, List.filterMap_cons, hx2]
      simp
  refine ⟨by show TocOK (rx v s.host p).1.toc _; rw [rx_toc v hv hs]; exact hT.toc, hT.devwf, hpend,
    fun y hy e he => hT.typed y (by simp [hy]) e he, fun req' rep' hw' => by cases hw'⟩

/-! ### all events, all histories -/

theorem step_all (S2F : List Char → Except PyErr Nat) (v : Variant) (hv : v.routing = 1) (hs : v.snap = true) {v2 : Bool}
    {s s1 : Sys} {pre o1 : List Out} {A G : List (Pkt × Option Pending)} {W : List Pkt} (hinv : Inv v2 s pre A G W)
    (e : Ev) (hstep : s.step S2F v e = some (s1, o1))
    (hdev : ∀ i raw n, e = .devSet i raw n → ∀ dp, s.dev.params[i]? = some dp → devWidth dp.tcode = some raw.length) :
    ∃ A1 G1 W1, Inv v2 s1 (pre ++ o1) A1 G1 W1 ∧
      (Att s pre A G → KeysDistinct s.host.pending G → Att s1 (pre ++ o1) A1 G1) ∧
      (AttT s G W → KeysDistinct s.host.pending G → AttT s1 G1 W1) := by
  cases e with
  | api t c =>
    simp only [Sys.step, Option.some.injEq, Prod.mk.injEq] at hstep
    obtain ⟨rfl, rfl⟩ := hstep
    obtain ⟨G', hi, ha⟩ := step_api S2F v hv hinv c
    have hG : G' = G ++ enqsOf (c.run S2F v s.dev.v2 s.host).2 := by
      rw [← hi.unanswered]
      have he : ApiEffect v2 s.host (c.run S2F v s.dev.v2 s.host).1 (c.run S2F v s.dev.v2 s.host).2 := by
        have := api_effect S2F v hv s.host c
        rw [hinv.useV2] at this
        rw [hinv.dv2]; exact this
      exact unanswered_append hinv.enq hinv.rx he.io.2.1
    subst hG
    exact ⟨A, _, W, hi, fun h _ => ha h, fun hT _ => stepT_api S2F v hv hinv c hT⟩
  | updGet =>
    simp only [Sys.step] at hstep
    cases hg : updGet s.host with
    | none => rw [hg] at hstep; cases hstep
    | some h' =>
      rw [hg] at hstep
      simp only [Option.map_some, Option.some.injEq, Prod.mk.injEq] at hstep
      obtain ⟨rfl, rfl⟩ := hstep
      obtain ⟨hi, ha⟩ := step_updGet hinv hg
      refine ⟨A, G, W, hi, fun h _ => ha h, fun hT _ => ?_⟩
      unfold updGet at hg
      split at hg
      · cases hg
        exact ⟨hT.toc, hT.devwf, hT.pendEq, hT.typed, hT.inflight⟩
      · cases hg
  | updSend =>
    simp only [Sys.step] at hstep
    cases hg : updSend s.host with
    | none => rw [hg] at hstep; cases hstep
    | some r =>
      obtain ⟨h', o⟩ := r
      rw [hg] at hstep
      obtain ⟨p, rfl, hi, ha⟩ := step_updSend hinv hg
      simp only [Option.some.injEq, Prod.mk.injEq] at hstep
      obtain ⟨rfl, rfl⟩ := hstep
      exact ⟨A, G, [p], hi, fun h _ => ha h, fun hT _ => stepT_updSend hinv hg hT⟩
  | deliver =>
    simp only [Sys.step] at hstep
    cases hd : s.down with
    | nil => rw [hd] at hstep; cases hstep
    | cons p rest =>
      rw [hd] at hstep
      simp only [Option.some.injEq, Prod.mk.injEq] at hstep
      obtain ⟨rfl, rfl⟩ := hstep
      cases hn : isNotif p with
      | true =>
        obtain ⟨hi, ha⟩ := step_deliver_notif v hv hs hinv hd hn
        exact ⟨A, G, W, hi, fun h _ => ha h, fun hT _ => stepT_deliver_notif v hv hs hT hd hn⟩
      | false =>
        obtain ⟨x, G1, rfl, hi, ha⟩ := step_deliver_reply v hv hs hinv hd hn
        exact ⟨A ++ [x], G1, [], hi, ha, fun hT hkd => stepT_deliver_reply v hv hs hinv hT hkd hd hn⟩
  | devSet i raw n =>
    simp only [Sys.step, Option.some.injEq, Prod.mk.injEq] at hstep
    obtain ⟨rfl, rfl⟩ := hstep
    obtain ⟨hi, ha⟩ := step_devSet hinv i raw n
    exact ⟨A, G, W, hi, fun h _ => ha h, fun hT _ => stepT_devSet hT i raw n (hdev i raw n rfl)⟩

theorem run_all (S2F : List Char → Except PyErr Nat) (v : Variant) (hv : v.routing = 1) (hs : v.snap = true) {v2 : Bool} :
    ∀ (evs : List Ev) (s : Sys) (pre : List Out) (A G : List (Pkt × Option Pending)) (W : List Pkt),
      Inv v2 s pre A G W → ∀ (s' : Sys) (o : List Out), Sys.run S2F v s evs = some (s', o) →
      ∃ A' G' W', Inv v2 s' (pre ++ o) A' G' W' ∧
        (Att s pre A G → AttT s G W → DistinctAlong S2F v s pre evs → TypedSetsAlong S2F v s evs →
          Att s' (pre ++ o) A' G' ∧ AttT s' G' W')
  | [], s, pre, A, G, W, hinv, s', o, hrun => by
    simp only [Sys.run, Option.some.injEq, Prod.mk.injEq] at hrun
    obtain ⟨rfl, rfl⟩ := hrun
    exact ⟨A, G, W, by rw [List.append_nil]; exact hinv, fun h hT _ _ => ⟨by rw [List.append_nil]; exact h, hT⟩⟩
  | e :: es, s, pre, A, G, W, hinv, s', o, hrun => by
    simp only [Sys.run] at hrun
    cases hst : s.step S2F v e with
    | none => rw [hst] at hrun; cases hrun
    | some r1 =>
      obtain ⟨s1, o1⟩ := r1
      rw [hst] at hrun
      simp only at hrun
      cases hr2 : Sys.run S2F v s1 es with
      | none => rw [hr2] at hrun; cases hrun
      | some r2 =>
        obtain ⟨s2, o2⟩ := r2
        rw [hr2] at hrun
        simp only [Option.some.injEq, Prod.mk.injEq] at hrun
        obtain ⟨rfl, rfl⟩ := hrun
        by_cases hdev : ∀ i raw n, e = .devSet i raw n → ∀ dp, s.dev.params[i]? = some dp → devWidth dp.tcode = some raw.length
        · obtain ⟨A1, G1, W1, hi1, ha1, hT1⟩ := step_all S2F v hv hs hinv e hst hdev
          obtain ⟨A2, G2, W2, hi2, ha2⟩ := run_all S2F v hv hs es s1 (pre ++ o1) A1 G1 W1 hi1 s2 o2 hr2
          refine ⟨A2, G2, W2, by rw [← List.append_assoc]; exact hi2, ?_⟩
          intro hatt hT hda hts
          simp only [DistinctAlong, hst] at hda
          simp only [TypedSetsAlong, hst] at hts
          rw [hinv.unanswered] at hda
          have := ha2 (ha1 hatt hda.1) (hT1 hT hda.1) hda.2 hts.2
          rw [← List.append_assoc]; exact this
        · -- an untyped firmware-side change: outside the hypothesis; only the unconditional part is claimed
          obtain ⟨A1, G1, W1, hi1, _⟩ := step_inv S2F v hv hs hinv e hst
          obtain ⟨A2, G2, W2, hi2, _⟩ := run_all S2F v hv hs es s1 (pre ++ o1) A1 G1 W1 hi1 s2 o2 hr2
          refine ⟨A2, G2, W2, by rw [← List.append_assoc]; exact hi2, ?_⟩
          intro _ _ _ hts
          simp only [TypedSetsAlong, hst] at hts
          exact absurd hts.1 hdev

end CfVerif.C04

/-
Proofs/C04Sess - several connections of ONE Crazyflie object (close_link / open_link), each to a device with its own
parameter table.  (1) What `_param_updated` decodes / caches / reports on a connection depends on THAT connection's table and
the callbacks registered by name, on nothing else the previous connections left behind.  (2) A connection that is closed while
nothing is outstanding leaves the objects in a state from which the next connection is again a history from an `Idle` state of
its own device - so every theorem about such histories applies to every connection of a life.  Core Lean only.
-/
import CfVerif.Proofs.C04Nest
namespace CfVerif.C04
open CfVerif

/-- the part of the host that the value path (`_param_updated`) can see -/
structure ValueView where
  toc : List Elem
  useV2 : Bool
  values : List (Nat × Nat × Val)
  isUpdated : Bool
  connected : Bool
  nameCbs : List (Nat × Nat × Nat)
  groupCbs : List (Nat × Nat)
  allCbs : List Nat
  deriving DecidableEq

def Host.valueView (h : Host) : ValueView :=
  { toc := h.toc, useV2 := h.useV2, values := h.values, isUpdated := h.isUpdated, connected := h.connected,
    nameCbs := h.nameCbs, groupCbs := h.groupCbs, allCbs := h.allCbs }

theorem map_ite {ε α β : Type} {c : Prop} [Decidable c] (f : α → β) (x y : Except ε α) :
    (if c then x else y).map f = if c then x.map f else y.map f := by
  split <;> rfl

/-- `_param_updated` neither reads nor writes the updater's control state -/
theorem paramUpdated_ctl (h : Host) (a : Bool) (b : Option Pkt) (c : Option (List UInt8)) (d : List Pending) (e : List (Nat × Nat))
    (f : List Nat) (p : Pkt) :
    paramUpdated { h with updV2 := a, cur := b, pattern := c, pending := d, nameCallers := e, groupCallers := f } p =
      (paramUpdated h p).map (fun r => ({ r.1 with updV2 := a, cur := b, pattern := c, pending := d, nameCallers := e,
                                                    groupCallers := f }, r.2)) := by
  unfold paramUpdated
  simp only
  split
  · rename_i hq; rw [hq]; rfl
  · rename_i hq; rw [hq]; simp only
    split
    · rfl
    · split
      · rename_i hq3; rw [hq3]; rfl
      · rename_i hq3; rw [hq3]; simp only
        rw [map_ite]
        congr 1

/-- the host a connection to (`toc`, `v2`) starts with, apart from the updater's control state -/
def sessHost (toc : List Elem) (v2 : Bool) (n : List (Nat × Nat × Nat)) (g : List (Nat × Nat)) (a : List Nat) : Host :=
  { Host.init toc v2 with nameCbs := n, groupCbs := g, allCbs := a, connected := true }

/-- `a` with the updater's control state of `h` -/
def sessCtl (a h : Host) : Host :=
  { a with updV2 := h.updV2, cur := h.cur, pattern := h.pattern, pending := h.pending, nameCallers := h.nameCallers,
           groupCallers := h.groupCallers }

theorem reconnect_eq (h : Host) (toc : List Elem) (v2 : Bool) :
    h.reconnect toc v2 = sessCtl (sessHost toc v2 h.nameCbs h.groupCbs h.allCbs) h := by
  cases h; rfl

/-- the view right after a reconnection: the new table, no values, not updated - and the callbacks registered by name -/
theorem reconnect_view (h : Host) (toc : List Elem) (v2 : Bool) :
    (h.reconnect toc v2).valueView =
      { toc := toc, useV2 := v2, values := [], isUpdated := false, connected := true,
        nameCbs := h.nameCbs, groupCbs := h.groupCbs, allCbs := h.allCbs } := rfl

/-- NO LEAK between connections: after a reconnection the value path behaves the same whatever the earlier connections were
(their tables, their cached values, their requests) - only the callbacks registered by name carry over -/
theorem reconnect_no_leak (h1 h2 : Host) (hn : h1.nameCbs = h2.nameCbs) (hg : h1.groupCbs = h2.groupCbs) (ha : h1.allCbs = h2.allCbs)
    (toc : List Elem) (v2 : Bool) (p : Pkt) :
    (paramUpdated (h1.reconnect toc v2) p).map (fun r => (r.1.valueView, r.2)) =
      (paramUpdated (h2.reconnect toc v2) p).map (fun r => (r.1.valueView, r.2)) := by
  have e1 := paramUpdated_ctl (sessHost toc v2 h2.nameCbs h2.groupCbs h2.allCbs) h1.updV2 h1.cur h1.pattern h1.pending h1.nameCallers
    h1.groupCallers p
  have e2 := paramUpdated_ctl (sessHost toc v2 h2.nameCbs h2.groupCbs h2.allCbs) h2.updV2 h2.cur h2.pattern h2.pending h2.nameCallers
    h2.groupCallers p
  rw [reconnect_eq h1, reconnect_eq h2, hn, hg, ha]
  unfold sessCtl
  rw [e1, e2]
  cases paramUpdated (sessHost toc v2 h2.nameCbs h2.groupCbs h2.allCbs) p <;> rfl

/-- a connection closed while nothing is outstanding: the next connection (same protocol generation) starts `Idle` -/
theorem reconnect_idle {s : Sys} (h : s.Idle) (toc : List Elem) (d : Dev) (hv : d.v2 = s.dev.v2) : (s.reconnect toc d).Idle := by
  refine ⟨rfl, h.cur, rfl, h.pattern, h.pending, rfl, rfl, ?_⟩
  show s.host.updV2 = d.v2
  rw [h.updV2, hv]

/-- another protocol generation: the updater's own width flag is the previous connection's until the first read is queued
(`request_update_of_all_params` at `connected` does that for every parameter of a non-empty table) -/
theorem requestUpdate_sets_width (h : Host) (cn : List Nat) (v2 : Bool) (i : Option Nat) (hi : elementId h.toc cn = .ok i) :
    (requestUpdate h cn v2).1.updV2 = v2 := by
  unfold requestUpdate
  rw [hi]
  simp only
  split <;> simp [enqueue]

theorem runLife_ne_nil (S2F : List Char → Except PyErr Nat) (v : Variant) :
    ∀ (rest : List (List Elem × Dev × List Ev)) (s : Sys) (evs : List Ev) (l : List (Sys × Sys × List Out)),
      Sys.runLife S2F v s evs rest = some l → l ≠ []
  | [], s, evs, l, h => by
    simp only [Sys.runLife, Option.map_eq_some_iff] at h
    obtain ⟨r, _, rfl⟩ := h
    simp
  | (toc, d, evs') :: rest, s, evs, l, h => by
    simp only [Sys.runLife] at h
    cases hr : Sys.run S2F v s evs with
    | none => rw [hr] at h; cases h
    | some r =>
      rw [hr] at h
      simp only [Option.map_eq_some_iff] at h
      obtain ⟨l', _, rfl⟩ := h
      simp

/-- Every connection of a life is a history from an `Idle` state of ITS OWN device, provided every connection is closed while
nothing is outstanding (and the firmware generations agree). -/
theorem life_sessions (S2F : List Char → Except PyErr Nat) (v : Variant) (hv : v.routing = 1) (hs : v.snap = true) :
    ∀ (rest : List (List Elem × Dev × List Ev)) (s0 : Sys) (evs : List Ev) (l : List (Sys × Sys × List Out)),
      s0.Idle → Sys.runLife S2F v s0 evs rest = some l →
      (∀ x ∈ rest, x.2.1.v2 = s0.dev.v2) → (∀ x ∈ l.dropLast, x.2.1.Idle) →
      ∀ x ∈ l, x.1.Idle ∧ ∃ evs', Sys.run S2F v x.1 evs' = some (x.2.1, x.2.2)
  | [], s0, evs, l, h0, hrun, _, _ => by
    simp only [Sys.runLife, Option.map_eq_some_iff] at hrun
    obtain ⟨r, hr, rfl⟩ := hrun
    intro x hx
    simp only [List.mem_singleton] at hx
    subst hx
    exact ⟨h0, evs, hr⟩
  | (toc, d, evs') :: rest, s0, evs, l, h0, hrun, hg, hi => by
    simp only [Sys.runLife] at hrun
    cases hr : Sys.run S2F v s0 evs with
    | none => rw [hr] at hrun; cases hrun
    | some r =>
      rw [hr] at hrun
      simp only [Option.map_eq_some_iff] at hrun
      obtain ⟨l', hl', rfl⟩ := hrun
      have hne := runLife_ne_nil S2F v rest _ _ _ hl'
      rw [List.dropLast_cons_of_ne_nil hne] at hi
      have hri : r.1.Idle := hi _ (List.mem_cons_self ..)
      obtain ⟨hi0, _⟩ := Inv.init h0
      obtain ⟨A, G, W, hinv, _⟩ := run_inv S2F v hv hs evs s0 [] [] [] [] hi0 r.1 r.2 hr
      have hd : d.v2 = r.1.dev.v2 := by rw [hinv.dv2]; exact hg _ (List.mem_cons_self ..)
      have ih := life_sessions S2F v hv hs rest (r.1.reconnect toc d) evs' l' (reconnect_idle hri toc d hd) hl'
        (fun x hx => by
          show x.2.1.v2 = d.v2
          rw [hg x (List.mem_cons_of_mem _ hx), hg _ (List.mem_cons_self ..)])
        (fun x hx => hi x (List.mem_cons_of_mem _ hx))
      intro x hx
      rcases List.mem_cons.1 hx with rfl | hx
      · exact ⟨h0, evs, hr⟩
      · exact ih x hx

end CfVerif.C04

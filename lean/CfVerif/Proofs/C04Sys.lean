/-
Proofs/C04Sys - the closed-system invariant behind `one_outstanding_fifo` and `reply_attribution` (Props/C04).
Core Lean only.
-/
import CfVerif.Proofs.C04
namespace CfVerif.C04
open CfVerif

/-! ### Gen obligations used by the proofs -/

theorem gen_lens : Gen.C04.patLenMisc = 3 ∧ Gen.C04.patLenV2 = 2 ∧ Gen.C04.patLenV1 = 1 ∧
    Gen.C04.relLenMisc = 3 ∧ Gen.C04.relLenV2 = 2 ∧ Gen.C04.relLenV1 = 1 := by decide

theorem gen_cmds : Gen.C04.MISC_VALUE_UPDATED = 1 ∧ Gen.C04.MISC_PERSISTENT_STORE = 3 ∧ Gen.C04.MISC_PERSISTENT_GET_STATE = 4 ∧
    Gen.C04.MISC_PERSISTENT_CLEAR = 5 ∧ Gen.C04.MISC_GET_DEFAULT_VALUE = 6 := by decide

theorem gen_misc_fmt : parseFmt! Gen.C04.miscReqFmt = [.B, .H] := by decide

theorem kind_cmd (k : MiscKind) : k.cmd = 3 ∨ k.cmd = 4 ∨ k.cmd = 5 ∨ k.cmd = 6 := by
  cases k <;> simp [MiscKind.cmd, gen_cmds]

/-! ### projections distribute over append -/

theorem enqsOf_append (a b : List Out) : enqsOf (a ++ b) = enqsOf a ++ enqsOf b := by simp [enqsOf, List.filterMap_append]
theorem txsOf_append (a b : List Out) : txsOf (a ++ b) = txsOf a ++ txsOf b := by simp [txsOf, List.filterMap_append]
theorem rxdsOf_append (a b : List Out) : rxdsOf (a ++ b) = rxdsOf a ++ rxdsOf b := by simp [rxdsOf, List.filterMap_append]
theorem obsOf_append (a b : List Out) : obsOf (a ++ b) = obsOf a ++ obsOf b := by simp [obsOf, List.filterMap_append]
theorem miscCallsOf_append (a b : List Out) : miscCallsOf (a ++ b) = miscCallsOf a ++ miscCallsOf b := by
  simp [miscCallsOf, List.filter_append]
theorem solicited_append (a b : List Pkt) : solicited (a ++ b) = solicited a ++ solicited b := by
  simp [solicited, List.filter_append]

/-- outputs that are invisible to all the projections used by the system theorems -/
def Out.quiet : Out → Bool
  | .enq .. | .tx .. | .rxd .. | .released .. | .misc .. => false
  | _ => true

theorem quiet_proj {o : List Out} (h : ∀ x ∈ o, x.quiet = true) :
    enqsOf o = [] ∧ txsOf o = [] ∧ rxdsOf o = [] ∧ obsOf o = [] ∧ miscCallsOf o = [] := by
  induction o with
  | nil => simp [enqsOf, txsOf, rxdsOf, obsOf, miscCallsOf]
  | cons x xs ih =>
    have hx := h x (by simp)
    have ih' := ih (fun y hy => h y (by simp [hy]))
    cases x <;> simp [Out.quiet] at hx <;>
      simp_all [enqsOf, txsOf, rxdsOf, obsOf, miscCallsOf]

/-! ### `_param_updated` only touches the value cache and the "all updated" flags; it tells nobody but update callbacks -/

theorem fanout_quiet (h : Host) (g n : Nat) (v : Val) : ∀ x ∈ fanout h g n v, x.quiet = true := by
  intro x hx
  simp only [fanout, List.mem_append, List.mem_map] at hx
  rcases hx with (⟨_, _, rfl⟩ | ⟨_, _, rfl⟩) | ⟨_, _, rfl⟩ <;> rfl

structure SameCtl (h h' : Host) : Prop where
  queue : h'.queue = h.queue
  cur : h'.cur = h.cur
  lockHeld : h'.lockHeld = h.lockHeld
  pattern : h'.pattern = h.pattern
  pending : h'.pending = h.pending
  useV2 : h'.useV2 = h.useV2
  updV2 : h'.updV2 = h.updV2
  toc : h'.toc = h.toc

theorem SameCtl.refl (h : Host) : SameCtl h h := ⟨rfl, rfl, rfl, rfl, rfl, rfl, rfl, rfl⟩

theorem paramUpdated_frame {h h' : Host} {p : Pkt} {o : List Out} (hr : paramUpdated h p = .ok (h', o)) :
    SameCtl h h' ∧ ∀ x ∈ o, x.quiet = true := by
  unfold paramUpdated at hr
  simp only at hr
  split at hr
  · cases hr
  · split at hr
    · cases hr; exact ⟨SameCtl.refl _, by simp⟩
    · split at hr
      · cases hr
      · split at hr
        · cases hr
          refine ⟨⟨rfl, rfl, rfl, rfl, rfl, rfl, rfl, rfl⟩, ?_⟩
          intro x hx
          simp only [List.mem_append, List.mem_singleton] at hx
          rcases hx with hx | rfl
          · exact fanout_quiet _ _ _ _ x hx
          · rfl
        · cases hr
          exact ⟨⟨rfl, rfl, rfl, rfl, rfl, rfl, rfl, rfl⟩, fun x hx => fanout_quiet _ _ _ _ x hx⟩

/-! ### the updater's port callback -/

/-- everything but the lock, the pattern and the value cache is unchanged -/
structure SameQ (h h' : Host) : Prop where
  queue : h'.queue = h.queue
  cur : h'.cur = h.cur
  pending : h'.pending = h.pending
  useV2 : h'.useV2 = h.useV2
  updV2 : h'.updV2 = h.updV2
  toc : h'.toc = h.toc

theorem SameCtl.toQ {h h' : Host} (c : SameCtl h h') : SameQ h h' := ⟨c.queue, c.cur, c.pending, c.useV2, c.updV2, c.toc⟩

/-- the `release_pattern` the callback compares `_lock_pattern` with -/
def rxKey (updV2 : Bool) (p : Pkt) : List UInt8 :=
  if p.chan = 3 then p.data.take 3 else relPattern updV2 p

/-- what the callback did to the lock -/
inductive RxLock (h h' : Host) (o : List Out) (p : Pkt) : Prop
  | same (h1 : h'.lockHeld = h.lockHeld) (h2 : h'.pattern = h.pattern) (h3 : obsOf o = []) : RxLock h h' o p
  | released (h1 : h'.lockHeld = false) (h2 : h'.pattern = none) (h3 : obsOf o = [.rel p])
      (hp : h.pattern = some (rxKey h.updV2 p)) : RxLock h h' o p
  | cleared (h0 : h.lockHeld = false) (h1 : h'.lockHeld = false) (h2 : h'.pattern = none) (h3 : obsOf o = [])
      (hp : h.pattern = some (rxKey h.updV2 p)) : RxLock h h' o p

/-- projections other than `obsOf` vanish on the outputs -/
def NoIO (o : List Out) : Prop := enqsOf o = [] ∧ txsOf o = [] ∧ rxdsOf o = [] ∧ miscCallsOf o = []

theorem NoIO.of_quiet {o : List Out} (h : ∀ x ∈ o, x.quiet = true) : NoIO o ∧ obsOf o = [] := by
  obtain ⟨a, b, c, d, e⟩ := quiet_proj h
  exact ⟨⟨a, b, c, e⟩, d⟩

theorem NoIO.append_released {o : List Out} (p : Pkt) (h : ∀ x ∈ o, x.quiet = true) :
    NoIO (o ++ [.released p]) ∧ obsOf (o ++ [.released p]) = [.rel p] := by
  obtain ⟨⟨a, b, c, d⟩, e⟩ := NoIO.of_quiet h
  refine ⟨⟨?_, ?_, ?_, ?_⟩, ?_⟩
  · rw [enqsOf_append, a]; rfl
  · rw [txsOf_append, b]; rfl
  · rw [rxdsOf_append, c]; rfl
  · rw [miscCallsOf_append, d]; rfl
  · rw [obsOf_append, e]; rfl

theorem NoIO.append_cbError {o : List Out} (e : PyErr) (h : ∀ x ∈ o, x.quiet = true) :
    NoIO (o ++ [.cbError e]) ∧ obsOf (o ++ [.cbError e]) = [] := by
  apply NoIO.of_quiet
  intro x hx
  simp only [List.mem_append, List.mem_singleton] at hx
  rcases hx with hx | rfl
  · exact h x hx
  · rfl

theorem updaterRx_spec {h h' : Host} {p p' : Pkt} {o : List Out} (hr : updaterRx h p = (h', o, p')) :
    SameQ h h' ∧ NoIO o ∧ RxLock h h' o p ∧ p'.chan = p.chan ∧ (p.chan = 3 → p' = p) := by
  have hq : ∀ h : Host, SameQ h h := fun h => ⟨rfl, rfl, rfl, rfl, rfl, rfl⟩
  have hnil : NoIO [] := ⟨rfl, rfl, rfl, rfl⟩
  obtain ⟨c0, c1, c2, c3⟩ := gen_write_channel
  unfold updaterRx at hr
  split at hr
  · -- read / write channel
    rename_i hch
    have hne : p.chan ≠ 3 := by rw [c0, c1] at hch; omega
    simp only at hr
    have hpc : (stripStatus h.updV2 p).chan = p.chan := by
      unfold stripStatus; split <;> rfl
    split at hr
    · rename_i hpat
      have hkey : h.pattern = some (rxKey h.updV2 p) := by rw [rxKey, if_neg hne]; exact hpat
      split at hr
      · rename_i h1 outs hpu
        obtain ⟨fr, qt⟩ := paramUpdated_frame hpu
        obtain ⟨nio, ob⟩ := NoIO.append_released p qt
        simp only [Prod.mk.injEq] at hr
        obtain ⟨rfl, rfl, rfl⟩ := hr
        exact ⟨⟨fr.queue, fr.cur, fr.pending, fr.useV2, fr.updV2, fr.toc⟩, nio, .released rfl rfl ob hkey, hpc, fun h3 => absurd h3 hne⟩
      · simp only [Prod.mk.injEq] at hr
        obtain ⟨rfl, rfl, rfl⟩ := hr
        exact ⟨hq _, ⟨rfl, rfl, rfl, rfl⟩, .same rfl rfl rfl, hpc, fun h3 => absurd h3 hne⟩
    · simp only [Prod.mk.injEq] at hr
      obtain ⟨rfl, rfl, rfl⟩ := hr
      exact ⟨hq _, hnil, .same rfl rfl rfl, hpc, fun h3 => absurd h3 hne⟩
  · split at hr
    · -- misc channel
      rename_i hch3
      have hc3 : p.chan = 3 := by rw [hch3, c2]
      split at hr
      · simp only [Prod.mk.injEq] at hr
        obtain ⟨rfl, rfl, rfl⟩ := hr
        exact ⟨hq _, ⟨rfl, rfl, rfl, rfl⟩, .same rfl rfl rfl, rfl, fun _ => rfl⟩
      · rename_i c cs hd
        split at hr
        · simp only [Prod.mk.injEq] at hr
          obtain ⟨rfl, rfl, rfl⟩ := hr
          exact ⟨hq _, ⟨rfl, rfl, rfl, rfl⟩, .same rfl rfl rfl, rfl, fun _ => rfl⟩
        · rename_i h1 outs hpu
          have hfr : SameCtl h h1 ∧ ∀ x ∈ outs, x.quiet = true := by
            unfold notifUpdate at hpu
            split at hpu
            · exact paramUpdated_frame hpu
            · cases hpu; exact ⟨SameCtl.refl _, by simp⟩
          obtain ⟨fr, qt⟩ := hfr
          split at hr
          · rename_i hpat
            have hkey : h.pattern = some (rxKey h.updV2 p) := by
              rw [rxKey, if_pos hc3, ← fr.pattern, hpat, gen_lens.2.2.2.1]
            split at hr
            · obtain ⟨nio, ob⟩ := NoIO.append_released p qt
              simp only [Prod.mk.injEq] at hr
              obtain ⟨rfl, rfl, rfl⟩ := hr
              exact ⟨⟨fr.queue, fr.cur, fr.pending, fr.useV2, fr.updV2, fr.toc⟩, nio, .released rfl rfl ob hkey, rfl, fun _ => rfl⟩
            · rename_i hl
              obtain ⟨nio, ob⟩ := NoIO.append_cbError .other qt
              have hl' : h.lockHeld = false := by rw [← fr.lockHeld]; simpa using hl
              simp only [Prod.mk.injEq] at hr
              obtain ⟨rfl, rfl, rfl⟩ := hr
              exact ⟨⟨fr.queue, fr.cur, fr.pending, fr.useV2, fr.updV2, fr.toc⟩, nio,
                .cleared hl' (by simpa using hl) rfl ob hkey, rfl, fun _ => rfl⟩
          · obtain ⟨nio, ob⟩ := NoIO.of_quiet qt
            simp only [Prod.mk.injEq] at hr
            obtain ⟨rfl, rfl, rfl⟩ := hr
            exact ⟨fr.toQ, nio, .same fr.lockHeld fr.pattern ob, rfl, fun _ => rfl⟩
    · simp only [Prod.mk.injEq] at hr
      obtain ⟨rfl, rfl, rfl⟩ := hr
      exact ⟨hq _, hnil, .same rfl rfl rfl, rfl, fun _ => rfl⟩

/-! ### well-formed requests and the device's reply to them -/

/-- a request as the API calls build it, with the reply handler registered for it (if any) -/
def ReqWF (v2 : Bool) (x : Pkt × Option Pending) : Prop :=
  ((x.1.chan = 1 ∨ x.1.chan = 2) ∧ idWidth v2 ≤ x.1.data.length ∧ x.2 = none) ∨
  (x.1.chan = 3 ∧ ∃ (k : MiscKind) (i : Nat), i < 65536 ∧ x.1.data = miscKey k.cmd i ∧
    ∀ e, x.2 = some e → e.kind = k ∧ e.ident = i ∧ e.noElem = false)

theorem miscKey_eq (c i : Nat) : miscKey c i = [UInt8.ofNat (c % 256), UInt8.ofNat (i % 256), UInt8.ofNat (i / 256 % 256)] := by
  simp [miscKey, leBytes]

theorem notif_not_isNotif_of_cmd {p : Pkt} {k : MiscKind} {i : Nat} {rest : List UInt8}
    (h : p.data = miscKey k.cmd i ++ rest) : isNotif p = false := by
  rw [miscKey_eq] at h
  have hk := kind_cmd k
  have : p.data.head? ≠ some 1 := by
    rw [h]; simp only [List.cons_append, List.head?_cons, ne_eq, Option.some.injEq]
    rcases hk with hk | hk | hk | hk <;> rw [hk] <;> decide
  simp [isNotif, this]

theorem take_take_append {α} (l r : List α) (n : Nat) (h : n ≤ l.length) : (l.take n ++ r).take n = l.take n := by
  have : (l.take n).length = n := by simp [List.length_take, Nat.min_eq_left h]
  rw [List.take_append_of_le_length (by omega)]
  rw [List.take_of_length_le (by omega)]

theorem Dev.idw_eq (d : Dev) : d.idw = idWidth d.v2 := rfl

theorem answers_rw (v2 : Bool) (rq rep : Pkt) (hc : rq.chan = 1 ∨ rq.chan = 2) (hch : rep.chan = rq.chan)
    (hl : idWidth v2 ≤ rq.data.length) (ht : rep.data.take (idWidth v2) = rq.data.take (idWidth v2)) :
    Answers v2 rq rep = true := by
  have h3 : (rq.chan == 3) = false := by rcases hc with h | h <;> simp [h]
  cases v2
  · simp only [idWidth, Bool.false_eq_true, if_false] at hl ht
    simp [Answers, hch, h3, ht, hl]
  · simp only [idWidth, if_true] at hl ht
    simp [Answers, hch, h3, ht, hl]

theorem Dev.read_wf (d : Dev) (data : List UInt8) (hl : idWidth d.v2 ≤ data.length) :
    ∃ rep, d.read data = (d, [rep]) ∧ rep.chan = 1 ∧ rep.data.take (idWidth d.v2) = data.take (idWidth d.v2) := by
  unfold Dev.read Dev.pid
  rw [Dev.idw_eq, if_pos hl]
  simp only
  split
  · refine ⟨_, rfl, rfl, ?_⟩
    simp only
    split
    · exact take_take_append _ _ _ hl
    · rw [List.take_of_length_le (by rw [List.length_take]; exact Nat.min_le_left _ _)]
  · refine ⟨_, rfl, rfl, ?_⟩
    simp only [List.append_assoc]
    exact take_take_append _ _ _ hl

theorem Dev.setParam_v2 (d : Dev) (i : Nat) (f : DevParam → DevParam) : (d.setParam i f).v2 = d.v2 := rfl

theorem Dev.write_wf (d : Dev) (data : List UInt8) (hl : idWidth d.v2 ≤ data.length) :
    ∃ d' rep, d.write data = (d', [rep]) ∧ d'.v2 = d.v2 ∧ rep.chan = 2 ∧ rep.data.take (idWidth d.v2) = data.take (idWidth d.v2) := by
  unfold Dev.write Dev.pid
  rw [Dev.idw_eq, if_pos hl]
  simp only
  split
  · exact ⟨_, _, rfl, rfl, rfl, take_take_append _ _ _ hl⟩
  · split
    · exact ⟨_, _, rfl, rfl, rfl, take_take_append _ _ _ hl⟩
    · exact ⟨_, _, rfl, rfl, rfl, take_take_append _ _ _ hl⟩

theorem Dev.miscBody_v2 {d d' : Dev} {c i : Nat} {b : List UInt8} (h : d.miscBody c i = some (d', b)) : d'.v2 = d.v2 := by
  unfold Dev.miscBody at h
  split at h
  · split at h
    · cases h; rfl
    · repeat' split at h
      all_goals cases h; rfl
  · cases h

theorem Dev.miscBody_some (d : Dev) (k : MiscKind) (i : Nat) : ∃ d' b, d.miscBody k.cmd i = some (d', b) := by
  have hk : k.cmd = 2 ∨ k.cmd = 3 ∨ k.cmd = 4 ∨ k.cmd = 5 ∨ k.cmd = 6 := Or.inr (kind_cmd k)
  unfold Dev.miscBody
  rw [if_pos hk]
  split
  · exact ⟨_, _, rfl⟩
  · repeat' split
    all_goals exact ⟨_, _, rfl⟩

theorem kind_cmd_lt (k : MiscKind) : k.cmd < 256 := by
  rcases kind_cmd k with h | h | h | h <;> omega

theorem Dev.misc_wf (d : Dev) (k : MiscKind) (i : Nat) (hi : i < 65536) :
    ∃ d' body, d.misc (miscKey k.cmd i) = (d', [{ chan := 3, data := miscKey k.cmd i ++ body }]) ∧ d'.v2 = d.v2 := by
  have hk := kind_cmd_lt k
  rw [miscKey_eq]
  unfold Dev.misc
  simp only
  have h1 : (UInt8.ofNat (k.cmd % 256)).toNat = k.cmd := by simp; omega
  have h2 : (UInt8.ofNat (i % 256)).toNat + 256 * (UInt8.ofNat (i / 256 % 256)).toNat = i := by simp; omega
  rw [h1, h2]
  obtain ⟨d', b, hb⟩ := d.miscBody_some k i
  rw [hb]
  exact ⟨d', b, rfl, Dev.miscBody_v2 hb⟩

/-- every well-formed request gets exactly one reply: it is not a notification, it answers the request, and for a misc
request it starts with the request's three bytes -/
theorem handle_wf (d : Dev) (x : Pkt × Option Pending) (hwf : ReqWF d.v2 x) :
    ∃ d' rep, d.handle x.1 = (d', [rep]) ∧ d'.v2 = d.v2 ∧ isNotif rep = false ∧ Answers d.v2 x.1 rep = true ∧
      rep.chan = x.1.chan ∧ (x.1.chan = 3 → ∃ body, rep.data = x.1.data ++ body) := by
  rcases hwf with ⟨hc, hl, _⟩ | ⟨hc, k, i, hi, hd, _⟩
  · rcases hc with hc | hc
    · obtain ⟨rep, hr, hch, ht⟩ := d.read_wf x.1.data hl
      refine ⟨d, rep, ?_, rfl, ?_, answers_rw _ _ _ (Or.inl hc) (by rw [hch, hc]) hl ht, by rw [hch, hc], fun h3 => by omega⟩
      · simp only [Dev.handle, hc, if_true, hr]
      · simp [isNotif, hch]
    · obtain ⟨d', rep, hr, hv, hch, ht⟩ := d.write_wf x.1.data hl
      refine ⟨d', rep, ?_, hv, ?_, answers_rw _ _ _ (Or.inr hc) (by rw [hch, hc]) hl ht, by rw [hch, hc], fun h3 => by omega⟩
      · simp only [Dev.handle, hc, hr]; simp
      · simp [isNotif, hch]
  · obtain ⟨d', body, hr, hv⟩ := d.misc_wf k i hi
    refine ⟨d', { chan := 3, data := miscKey k.cmd i ++ body }, ?_, hv,
      notif_not_isNotif_of_cmd (k := k) (i := i) (rest := body) rfl, ?_, hc.symm, fun _ => ⟨body, by rw [hd]⟩⟩
    · simp only [Dev.handle, hc, hd, hr]; simp
    · have h3 : (miscKey k.cmd i).length = 3 := by simp [miscKey_eq]
      simp only [Answers, hc, hd, beq_self_eq_true, Bool.true_and, if_true]
      rw [List.take_append_of_le_length (by omega), h3]
      simp

theorem Dev.handle_v2' (d : Dev) (x : Pkt × Option Pending) (hwf : ReqWF d.v2 x) : (d.handle x.1).1.v2 = d.v2 := by
  obtain ⟨d', rep, h, hv, _⟩ := handle_wf d x hwf
  rw [h]; exact hv

/-! ### effect of the API calls on the control state (one-shot routing) -/

structure ApiEffect (v2 : Bool) (h h' : Host) (o : List Out) : Prop where
  cur : h'.cur = h.cur
  lockHeld : h'.lockHeld = h.lockHeld
  pattern : h'.pattern = h.pattern
  useV2 : h'.useV2 = h.useV2
  updV2 : h'.updV2 = h.updV2 ∨ h'.updV2 = v2
  io : txsOf o = [] ∧ rxdsOf o = [] ∧ obsOf o = [] ∧ miscCallsOf o = []
  q : (enqsOf o = [] ∧ h'.queue = h.queue ∧ (h'.pending = h.pending ∨ ∃ e, h'.pending = h.pending ++ [e])) ∨
      (∃ p eo, enqsOf o = [(p, eo)] ∧ h'.queue = h.queue ++ [p] ∧ h'.pending = h.pending ++ eo.toList ∧ ReqWF v2 (p, eo))

theorem ApiEffect.quiet_same {v2 : Bool} {h : Host} {o : List Out} (hq : ∀ x ∈ o, x.quiet = true) : ApiEffect v2 h h o := by
  obtain ⟨a, b, c, d, e⟩ := quiet_proj hq
  exact ⟨rfl, rfl, rfl, rfl, Or.inl rfl, ⟨b, c, d, e⟩, Or.inl ⟨a, rfl, Or.inl rfl⟩⟩

theorem idBytes_length {v2 : Bool} {f2 f1 : String} (h2 : parseFmt! f2 = [.H]) (h1 : parseFmt! f1 = [.B]) {x : Option Nat}
    {ib : List UInt8} (h : idBytes v2 f2 f1 x = .ok ib) : ib.length = idWidth v2 := by
  unfold idBytes at h
  cases x with
  | none => cases h
  | some i =>
    simp only at h
    have := pack_length h
    cases v2
    · simpa [h1, Fmt.size, Code.size, idWidth] using this
    · simpa [h2, Fmt.size, Code.size, idWidth] using this

theorem enq_effect {v2 : Bool} {h : Host} {p : Pkt} {eo : Option Pending} (hwf : ReqWF v2 (p, eo)) :
    ApiEffect v2 h (enqueue { h with pending := h.pending ++ eo.toList } p) [.enq p eo] :=
  ⟨rfl, rfl, rfl, rfl, Or.inl rfl, ⟨rfl, rfl, rfl, rfl⟩, Or.inr ⟨p, eo, rfl, rfl, rfl, hwf⟩⟩

theorem setValue_effect (S2F : List Char → Except PyErr Nat) (h : Host) (cn : List Nat) (x : PyVal) (c : Bool) :
    ApiEffect h.useV2 h (setValue S2F h cn x c).1 (setValue S2F h cn x c).2 := by
  unfold setValue
  split
  · rename_i o ho
    apply ApiEffect.quiet_same
    intro y hy
    simp only [List.mem_singleton] at hy; subst hy
    unfold gate at ho
    split at ho
    · cases ho
    · split at ho <;> cases ho <;> rfl
  · split
    · exact ApiEffect.quiet_same (by intro y hy; simp only [List.mem_singleton] at hy; subst hy; rfl)
    · rename_i p hp
      have hwf : ReqWF h.useV2 (p, none) := by
        unfold setValuePkt at hp
        split at hp
        · cases hp
        · split at hp
          · cases hp
          · split at hp
            · cases hp
            · rename_i ib hib
              split at hp
              · cases hp
              · cases hp
                refine Or.inl ⟨Or.inr gen_write_channel.1, ?_, rfl⟩
                have := idBytes_length gen_set_id_fmts.1 gen_set_id_fmts.2.1 hib
                simp only [List.length_append]; omega
      have := enq_effect (h := h) hwf
      simpa [enqueue] using this

theorem requestUpdate_effect (h : Host) (cn : List Nat) (v2 : Bool) :
    ApiEffect v2 h (requestUpdate h cn v2).1 (requestUpdate h cn v2).2 := by
  unfold requestUpdate
  split
  · exact ApiEffect.quiet_same (by intro y hy; simp only [List.mem_singleton] at hy; subst hy; rfl)
  · simp only
    split
    · obtain ⟨a, b, c, d, e⟩ := quiet_proj (o := [Out.raised _]) (by intro y hy; simp only [List.mem_singleton] at hy; subst hy; rfl)
      exact ⟨rfl, rfl, rfl, rfl, Or.inr rfl, ⟨b, c, d, e⟩, Or.inl ⟨a, rfl, Or.inl rfl⟩⟩
    · rename_i ib hib
      have hwf : ReqWF v2 ({ chan := Gen.C04.READ_CHANNEL, data := ib }, none) :=
        Or.inl ⟨Or.inl gen_write_channel.2.1, by
          have := idBytes_length gen_set_id_fmts.2.2.1 gen_set_id_fmts.2.2.2 hib
          simp only; omega, rfl⟩
      exact ⟨rfl, rfl, rfl, rfl, Or.inr rfl, ⟨rfl, rfl, rfl, rfl⟩, Or.inr ⟨_, none, rfl, rfl, by simp [enqueue], hwf⟩⟩

theorem raised_quiet (er : PyErr) : ∀ x ∈ [Out.raised er], x.quiet = true := by
  intro y hy; simp only [List.mem_singleton] at hy; subst hy; rfl

theorem miscPkt_ok {k : MiscKind} {i : Nat} {p : Pkt} (h : miscPkt k i = .ok p) :
    p.chan = 3 ∧ i < 65536 ∧ p.data = miscKey k.cmd i := by
  unfold miscPkt at h
  rw [gen_misc_fmt] at h
  simp only [pack, packOne, bind, Except.bind, pure, Except.pure] at h
  cases h1 : packUnsigned 1 ((k.cmd : Nat) : Int) with
  | error e => rw [h1] at h; cases h
  | ok a =>
    rw [h1] at h
    cases h2 : packUnsigned 2 ((i : Nat) : Int) with
    | error e => rw [h2] at h; cases h
    | ok b =>
      rw [h2] at h
      simp only [List.append_nil] at h
      cases h
      obtain ⟨_, _, _, ha⟩ := packUnsigned_ok h1
      obtain ⟨_, _, hb1, hb⟩ := packUnsigned_ok h2
      refine ⟨gen_write_channel.2.2.1, by simpa using hb1, ?_⟩
      simp only [ha, hb, miscKey, Int.toNat_natCast]

theorem sendMisc_effect (v : Variant) (hv : v.routing = 1) (v2 : Bool) (h : Host) (k : MiscKind) (e : Elem) (cn : List Nat)
    (rid : Option Nat) : ApiEffect v2 h (sendMisc v h k e cn rid).1 (sendMisc v h k e cn rid).2 := by
  unfold sendMisc
  have hq : ∀ er : PyErr, ∀ x ∈ [Out.raised er], x.quiet = true := by
    intro er y hy; simp only [List.mem_singleton] at hy; subst hy; rfl
  split
  · rename_i er _
    split
    · exact ApiEffect.quiet_same (hq er)
    · obtain ⟨a, b, c, d, e'⟩ := quiet_proj (hq er)
      exact ⟨rfl, rfl, rfl, rfl, Or.inl rfl, ⟨b, c, d, e'⟩, Or.inl ⟨a, rfl, Or.inr ⟨_, rfl⟩⟩⟩
  · rename_i p hp
    obtain ⟨hc, hi, hd⟩ := miscPkt_ok hp
    simp only
    split
    · rename_i hreg
      have hrid : rid.isSome = true := by simpa [hv] using hreg
      have hwf : ReqWF v2 (p, some { kind := k, ident := e.ident, cn := cn, tcode := e.tcode, rid := rid }) :=
        Or.inr ⟨hc, k, e.ident, hi, hd, by intro e' he'; cases he'; exact ⟨rfl, rfl, rfl⟩⟩
      exact ⟨rfl, rfl, rfl, rfl, Or.inl rfl, ⟨rfl, rfl, rfl, rfl⟩, Or.inr ⟨_, _, rfl, rfl, rfl, hwf⟩⟩
    · have hwf : ReqWF v2 (p, none) := Or.inr ⟨hc, k, e.ident, hi, hd, by intro e' he'; cases he'⟩
      exact ⟨rfl, rfl, rfl, rfl, Or.inl rfl, ⟨rfl, rfl, rfl, rfl⟩, Or.inr ⟨_, _, rfl, rfl, by simp [enqueue], hwf⟩⟩

theorem gate_quiet {h : Host} {c : Bool} {o : Out} (ho : gate h c = some o) : o.quiet = true := by
  unfold gate at ho
  split at ho
  · cases ho
  · split at ho <;> cases ho <;> rfl

theorem getValue_effect (v2 : Bool) (h : Host) (cn : List Nat) (c : Bool) :
    ApiEffect v2 h (getValue h cn c).1 (getValue h cn c).2 := by
  unfold getValue
  split
  · rename_i o ho
    exact ApiEffect.quiet_same (by intro y hy; simp only [List.mem_singleton] at hy; subst hy; exact gate_quiet ho)
  · split
    · split
      · split
        · exact ApiEffect.quiet_same (by intro y hy; simp only [List.mem_singleton] at hy; subst hy; rfl)
        · exact ApiEffect.quiet_same (raised_quiet _)
      · exact ApiEffect.quiet_same (raised_quiet _)
    · exact ApiEffect.quiet_same (raised_quiet _)

theorem api_effect (S2F : List Char → Except PyErr Nat) (v : Variant) (hv : v.routing = 1) (h : Host) (c : Api) :
    ApiEffect h.useV2 h (c.run S2F v h.useV2 h).1 (c.run S2F v h.useV2 h).2 := by
  cases c with
  | setValue cn x cb => exact setValue_effect S2F h cn x cb
  | getValue cn cb => exact getValue_effect _ h cn cb
  | requestUpdate cn => exact requestUpdate_effect h cn h.useV2
  | getDefault cn r =>
    simp only [Api.run, getDefault]
    split
    · rw [if_neg (by omega)]
      obtain ⟨a, b, c, d, e'⟩ := quiet_proj (raised_quiet .attributeError)
      exact ⟨rfl, rfl, rfl, rfl, Or.inl rfl, ⟨b, c, d, e'⟩, Or.inl ⟨a, rfl, Or.inr ⟨_, rfl⟩⟩⟩
    · exact sendMisc_effect v hv _ h _ _ _ _
  | getState cn r =>
    simp only [Api.run, getState]
    split
    · exact ApiEffect.quiet_same (raised_quiet _)
    · split
      · exact ApiEffect.quiet_same (raised_quiet _)
      · exact sendMisc_effect v hv _ h _ _ _ _
  | store cn r =>
    simp only [Api.run, store]
    split
    · split
      · exact ApiEffect.quiet_same (by intro y hy; simp only [List.mem_singleton] at hy; subst hy; rfl)
      · exact ApiEffect.quiet_same (raised_quiet _)
    · split
      · exact ApiEffect.quiet_same (raised_quiet _)
      · exact sendMisc_effect v hv _ h _ _ _ _
  | clear cn r =>
    simp only [Api.run, clear]
    split
    · exact ApiEffect.quiet_same (raised_quiet _)
    · split
      · exact ApiEffect.quiet_same (raised_quiet _)
      · exact sendMisc_effect v hv _ h _ _ _ _
  | addCb g n cb =>
    simp only [Api.run, addCb]
    repeat' split
    all_goals exact ⟨rfl, rfl, rfl, rfl, Or.inl rfl, ⟨rfl, rfl, rfl, rfl⟩, Or.inl ⟨rfl, rfl, Or.inl rfl⟩⟩
  | removeCb g n cb =>
    simp only [Api.run, removeCb]
    repeat' split
    all_goals first
      | exact ⟨rfl, rfl, rfl, rfl, Or.inl rfl, ⟨rfl, rfl, rfl, rfl⟩, Or.inl ⟨rfl, rfl, Or.inl rfl⟩⟩
      | (obtain ⟨a, b, c, d, e'⟩ := quiet_proj (raised_quiet .valueError)
         exact ⟨rfl, rfl, rfl, rfl, Or.inl rfl, ⟨b, c, d, e'⟩, Or.inl ⟨a, rfl, Or.inl rfl⟩⟩)

/-! ### the one-shot reply callbacks under snapshot dispatch -/

/-- outputs that are neither queue insertions, transmissions, receptions nor lock releases -/
def Out.noCtl : Out → Bool
  | .enq .. | .tx .. | .rxd .. | .released .. => false
  | _ => true

theorem noCtl_proj {o : List Out} (h : ∀ x ∈ o, x.noCtl = true) :
    enqsOf o = [] ∧ txsOf o = [] ∧ rxdsOf o = [] ∧ obsOf o = [] := by
  induction o with
  | nil => simp [enqsOf, txsOf, rxdsOf, obsOf]
  | cons x xs ih =>
    have hx := h x (by simp)
    have ih' := ih (fun y hy => h y (by simp [hy]))
    cases x <;> simp [Out.noCtl] at hx <;> simp_all [enqsOf, txsOf, rxdsOf, obsOf]

theorem quiet_noCtl {x : Out} (h : x.quiet = true) : x.noCtl = true := by
  cases x <;> simp [Out.quiet] at h <;> rfl

theorem handleMisc_noCtl (e : Pending) (p : Pkt) : ∀ x ∈ (handleMisc e p).1, x.noCtl = true := by
  intro x hx
  unfold handleMisc at hx
  simp only at hx
  repeat' split at hx
  all_goals first
    | (simp only [List.mem_singleton] at hx; subst hx; rfl)
    | (simp at hx)

theorem fires_key {e : Pending} {p : Pkt} {c i : Nat} {body : List UInt8} (hc : p.chan = 3) (hc8 : c < 256) (hi : i < 65536)
    (hd : p.data = miscKey c i ++ body) (hf : oneShotMatches true e p = .ok true) :
    e.kind.cmd = c ∧ e.ident = i ∧ e.noElem = false := by
  unfold oneShotMatches at hf
  rw [miscKey_eq] at hd
  rw [if_neg (by rw [hc, gen_write_channel.2.2.1]; simp), hd] at hf
  simp only [List.cons_append, List.nil_append, ne_eq, Bool.not_true, Bool.false_eq_true, if_false, List.drop_succ_cons, List.drop_zero,
    List.take_succ_cons, List.take_zero, List.length_cons, List.length_nil] at hf
  split at hf
  · cases hf
  · rename_i hcmd
    simp only [Nat.reduceAdd, not_true_eq_false, if_false] at hf
    split at hf
    · cases hf
    · rename_i hne
      simp only [Except.ok.injEq, beq_iff_eq] at hf
      have h1 : (UInt8.ofNat (c % 256)).toNat = c := by simp; omega
      refine ⟨by rw [← h1]; exact (by simpa using hcmd : (UInt8.ofNat (c % 256)).toNat = e.kind.cmd).symm, ?_, by simpa using hne⟩
      rw [← hf]
      simp [leVal]; omega

theorem fires_of {e : Pending} {p : Pkt} {body : List UInt8} (hc : p.chan = 3) (hi : e.ident < 65536) (hn : e.noElem = false)
    (hd : p.data = e.key ++ body) : oneShotMatches true e p = .ok true := by
  have hk := kind_cmd_lt e.kind
  unfold oneShotMatches
  rw [Pending.key, miscKey_eq] at hd
  rw [if_neg (by rw [hc, gen_write_channel.2.2.1]; simp), hd]
  have h1 : (UInt8.ofNat (e.kind.cmd % 256)).toNat = e.kind.cmd := by simp; omega
  simp only [List.cons_append, List.nil_append, ne_eq, h1, not_true_eq_false, if_false, Bool.not_true, Bool.false_eq_true,
    List.drop_succ_cons, List.drop_zero, List.take_succ_cons, List.take_zero, List.length_cons, List.length_nil, Nat.reduceAdd, hn]
  simp [leVal]; omega

theorem nofire_of_chan {e : Pending} {p : Pkt} (hc : p.chan ≠ 3) : oneShotMatches true e p = .ok false := by
  unfold oneShotMatches
  rw [if_pos (by rw [gen_write_channel.2.2.1]; exact hc)]

theorem oneShotCall_nofire {h : Host} {e : Pending} {p : Pkt} (hn : oneShotMatches true e p ≠ .ok true) :
    ∃ o, oneShotCall true h e p = (h, o) ∧ ∀ x ∈ o, x.quiet = true := by
  unfold oneShotCall
  split
  · exact ⟨_, rfl, by intro y hy; simp only [List.mem_singleton] at hy; subst hy; rfl⟩
  · exact ⟨[], rfl, by simp⟩
  · rename_i hm; exact absurd hm hn

theorem oneShotSnap_nofire {p : Pkt} : ∀ (es : List Pending) (h : Host) (acc : List Out),
    (∀ e ∈ es, oneShotMatches true e p ≠ .ok true) →
    ∃ o, oneShotSnap true p es h acc = (h, acc ++ o) ∧ ∀ x ∈ o, x.quiet = true
  | [], h, acc, _ => ⟨[], by simp [oneShotSnap], by simp⟩
  | e :: es, h, acc, hn => by
    obtain ⟨o1, h1, q1⟩ := oneShotCall_nofire (h := h) (hn e (by simp))
    obtain ⟨o2, h2, q2⟩ := oneShotSnap_nofire es h (acc ++ o1) (fun e' he' => hn e' (by simp [he']))
    refine ⟨o1 ++ o2, ?_, ?_⟩
    · simp only [oneShotSnap, h1, h2, List.append_assoc]
    · intro x hx
      simp only [List.mem_append] at hx
      rcases hx with hx | hx
      · exact q1 x hx
      · exact q2 x hx

/-- exactly one registered callback fires: its handler runs once on the packet and it unregisters itself when it ran to
the end; the other callbacks do nothing observable (beyond logged exceptions) -/
theorem oneShotSnap_one {p : Pkt} {e : Pending} : ∀ (es1 es2 : List Pending) (h : Host) (acc : List Out),
    (∀ x ∈ es1, oneShotMatches true x p ≠ .ok true) → (∀ x ∈ es2, oneShotMatches true x p ≠ .ok true) →
    oneShotMatches true e p = .ok true →
    ∃ o1 o2, oneShotSnap true p (es1 ++ e :: es2) h acc =
        (if (handleMisc e p).2 then { h with pending := h.pending.erase e } else h, acc ++ o1 ++ (handleMisc e p).1 ++ o2) ∧
      (∀ x ∈ o1, x.quiet = true) ∧ (∀ x ∈ o2, x.quiet = true)
  | [], es2, h, acc, _, h2, hf => by
    have hc : oneShotCall true h e p = (if (handleMisc e p).2 then { h with pending := h.pending.erase e } else h, (handleMisc e p).1) := by
      unfold oneShotCall; rw [hf]
    obtain ⟨o2, hs, q2⟩ := oneShotSnap_nofire es2 (if (handleMisc e p).2 then { h with pending := h.pending.erase e } else h)
      (acc ++ (handleMisc e p).1) h2
    exact ⟨[], o2, by simp only [List.nil_append, oneShotSnap, hc, hs, List.append_nil], by simp, q2⟩
  | x :: es1, es2, h, acc, h1, h2, hf => by
    obtain ⟨oa, ha, qa⟩ := oneShotCall_nofire (h := h) (h1 x (by simp))
    obtain ⟨o1, o2, hs, q1, q2⟩ := oneShotSnap_one es1 es2 h (acc ++ oa) (fun y hy => h1 y (by simp [hy])) h2 hf
    refine ⟨oa ++ o1, o2, ?_, ?_, q2⟩
    · simp only [List.cons_append, oneShotSnap, ha, hs, List.append_assoc]
    · intro y hy
      simp only [List.mem_append] at hy
      rcases hy with hy | hy
      · exact qa y hy
      · exact q1 y hy

end CfVerif.C04

/-
Proofs/C05: helper lemmas for Props/C05 (core Lean only).
-/
import CfVerif.Model.C05
import CfVerif.Spec.C05
import CfVerif.Base.StructLemmas
namespace CfVerif.C05
open CfVerif Spec

/-! ## block creation (V2) -/

/-- a variable the V2 create path can encode: a TOC variable whose type ids are nibbles (all ids of
`LogTocElement.types` are) and whose TOC element has a 16-bit ident -/
def GoodVar (toc : Toc) (v : LVar) : Prop :=
  v.isToc = true ∧ v.fetch < 16 ∧ v.stored < 16 ∧ ∃ e, toc.elementId v.name = some e ∧ e < 65536

/-- the ident the table gives the variable's name -/
def identOf (toc : Toc) (v : LVar) : Nat := (toc.elementId v.name).getD 0

/-- what the firmware must see for a variable: (logType byte, ident) -/
def entryOf (toc : Toc) (v : LVar) : Nat × Nat := (typeByte v, identOf toc v)

def encV2 (toc : Toc) (v : LVar) : List UInt8 :=
  [UInt8.ofNat (typeByte v), UInt8.ofNat (Gen.C05.idLoExpr (identOf toc v)), UInt8.ofNat (Gen.C05.idHiExpr (identOf toc v))]

theorem tb_table : ∀ f < 16, ∀ s < 16, Gen.C05.typeByteExpr f s < 256 ∧
    Gen.C05.typeByteExpr f s % 16 = f ∧ Gen.C05.typeByteExpr f s / 16 = s := by decide

theorem id_bytes (e : Nat) (h : e < 65536) :
    (UInt8.ofNat (Gen.C05.idLoExpr e)).toNat + 256 * (UInt8.ofNat (Gen.C05.idHiExpr e)).toNat = e := by
  unfold Gen.C05.idLoExpr Gen.C05.idHiExpr
  have h1 : e &&& 255 = e % 256 := Nat.and_two_pow_sub_one_eq_mod e 8
  have h2 : (e >>> 8) &&& 255 = (e >>> 8) % 256 := Nat.and_two_pow_sub_one_eq_mod _ 8
  rw [h1, h2, Nat.shiftRight_eq_div_pow]
  simp
  omega

theorem GoodVar.tb_lt {toc v} (h : GoodVar toc v) : typeByte v < 256 :=
  (tb_table v.fetch h.2.1 v.stored h.2.2.1).1

theorem GoodVar.elementId {toc v} (h : GoodVar toc v) : toc.elementId v.name = some (identOf toc v) := by
  obtain ⟨_, _, _, e, he, _⟩ := h
  simp [identOf, he]

theorem GoodVar.ident_lt {toc v} (h : GoodVar toc v) : identOf toc v < 65536 := by
  obtain ⟨_, _, _, e, he, hl⟩ := h
  simp [identOf, he, hl]

/-- the firmware reads back exactly (logType, ident) from the three bytes of a good variable -/
theorem entries3_enc (toc : Toc) (v : LVar) (h : GoodVar toc v) (r : List UInt8) :
    entries3 (encV2 toc v ++ r) = entryOf toc v :: entries3 r := by
  have h1 : (UInt8.ofNat (typeByte v)).toNat = typeByte v := by
    have := h.tb_lt; simp; omega
  simp only [encV2, List.cons_append, List.nil_append, entries3, entryOf, h1, id_bytes _ h.ident_lt]

theorem entries3_flatMap (toc : Toc) (vs : List LVar) (h : ∀ v ∈ vs, GoodVar toc v) (dang : List UInt8)
    (hd : dang.length < 3) : entries3 (vs.flatMap (encV2 toc) ++ dang) = vs.map (entryOf toc) := by
  induction vs with
  | nil =>
    match dang, hd with
    | [], _ => rfl
    | [_], _ => rfl
    | [_, _], _ => rfl
  | cons v vs ih =>
    rw [List.flatMap_cons, List.append_assoc, entries3_enc toc v (h v (by simp)), ih (fun w hw => h w (by simp [hw]))]
    rfl

/-- one loop iteration of `_setup_log_elements` for a good variable -/
theorem fill_cons (toc : Toc) (data : List UInt8) (v : LVar) (vs : List LVar) (h : GoodVar toc v) :
    fill (some toc) true data (v :: vs) =
      if Gen.C05.maxDataSize - (data.length + 1) ≥ Gen.C05.sizeToAdd then fill (some toc) true (data ++ encV2 toc v) vs
      else .ok (data ++ [UInt8.ofNat (typeByte v)], some (v :: vs)) := by
  have h1 := h.1
  have h2 := h.tb_lt
  have h3 := h.elementId
  simp only [fill, h1, h2, h3, Bool.not_true, Bool.false_eq_true, if_false, if_true, List.length_append,
    List.length_cons, List.length_nil, encV2, List.append_assoc, List.cons_append, List.nil_append]

/-- `_setup_log_elements` on a packet holding a (cmd, id) header and whole entries: it appends whole
entries for the first `k` variables and, when the packet is full, one dangling type byte. -/
theorem fill_spec (toc : Toc) (hS : Gen.C05.sizeToAdd = 2) (hM : Gen.C05.maxDataSize % 3 ≠ 2) :
    ∀ (vs : List LVar) (data : List UInt8), (∀ v ∈ vs, GoodVar toc v) → data.length % 3 = 2 →
      data.length ≤ Gen.C05.maxDataSize →
      ∃ k dang rest, fill (some toc) true data vs = .ok (data ++ (vs.take k).flatMap (encV2 toc) ++ dang, rest) ∧
        k ≤ vs.length ∧
        (data ++ (vs.take k).flatMap (encV2 toc) ++ dang).length ≤ Gen.C05.maxDataSize ∧
        (rest = none → k = vs.length ∧ dang = []) ∧
        (∀ r, rest = some r → r = vs.drop k ∧ k < vs.length ∧ dang.length = 1 ∧
           (data.length + 5 ≤ Gen.C05.maxDataSize → 1 ≤ k)) := by
  intro vs
  induction vs with
  | nil =>
    intro data _ _ hl
    exact ⟨0, [], none, by simp [fill], by simp, by simpa using hl, by simp, by simp⟩
  | cons v vs ih =>
    intro data hg hmod hl
    have hv := hg v (by simp)
    rw [fill_cons toc data v vs hv]
    by_cases hc : Gen.C05.maxDataSize - (data.length + 1) ≥ Gen.C05.sizeToAdd
    · rw [if_pos hc]
      have hlen : (data ++ encV2 toc v).length = data.length + 3 := by simp [encV2]
      obtain ⟨k, dang, rest, hf, hk, hlen', hnone, hsome⟩ :=
        ih (data ++ encV2 toc v) (fun w hw => hg w (by simp [hw])) (by rw [hlen]; omega) (by rw [hlen]; omega)
      refine ⟨k + 1, dang, rest, ?_, by simpa using hk, ?_, ?_, ?_⟩
      · rw [hf]; simp [List.take_succ_cons, List.flatMap_cons, List.append_assoc]
      · simpa [List.take_succ_cons, List.flatMap_cons, List.append_assoc] using hlen'
      · intro hr; obtain ⟨a, b⟩ := hnone hr; exact ⟨by simp [a], b⟩
      · intro r hr
        obtain ⟨a, b, c, _⟩ := hsome r hr
        exact ⟨by simpa using a, by simpa using b, c, fun _ => by omega⟩
    · rw [if_neg hc]
      refine ⟨0, [UInt8.ofNat (typeByte v)], some (v :: vs), by simp, by simp, ?_, by simp, ?_⟩
      · simp; omega
      · intro r hr
        cases hr
        exact ⟨by simp, by simp, by simp, fun h5 => by omega⟩

/-- the observable of one settings message -/
def mkTx (id c : Nat) (m : List UInt8) : Out := .tx m [c, id]

/-- the messages `create` hands to `send_packet`: the first with the create command, the rest append -/
def txs (id cmd app : Nat) : List (List UInt8) → List Out
  | [] => []
  | m :: ms => mkTx id cmd m :: ms.map (mkTx id app)

theorem bytesOf_pair (a b : Nat) (ha : a < 256) (hb : b < 256) :
    bytesOf [(a : Int), (b : Int)] = .ok [UInt8.ofNat a, UInt8.ofNat b] := by
  show bytesOf [Int.ofNat a, Int.ofNat b] = _
  simp [bytesOf, ha, hb]

/-- every message starts with its command and the block id -/
def HasHeader (c id : Nat) (m : List UInt8) : Prop := m.take 2 = [UInt8.ofNat c, UInt8.ofNat id]

theorem createLoop_spec (toc : Toc) (id app : Nat) (hid : id < 256) (happ : app < 256)
    (hS : Gen.C05.sizeToAdd = 2) (hM : Gen.C05.maxDataSize % 3 ≠ 2) (hM7 : 7 ≤ Gen.C05.maxDataSize) :
    ∀ (fuel : Nat) (vars : List LVar) (cmd : Nat), cmd < 256 → vars.length < fuel → (∀ v ∈ vars, GoodVar toc v) →
      ∃ m ms, createLoop (some toc) true id app fuel cmd vars = (txs id cmd app (m :: ms), none) ∧
        (∀ x ∈ m :: ms, x.length ≤ Gen.C05.maxDataSize) ∧
        HasHeader cmd id m ∧ (∀ x ∈ ms, HasHeader app id x) ∧
        ((m :: ms).map fwEntries).flatten = vars.map (entryOf toc) := by
  intro fuel
  induction fuel with
  | zero => intro vars cmd _ h; omega
  | succ fuel ih =>
    intro vars cmd hcmd hlen hg
    obtain ⟨k, dang, rest, hf, hk, hl, hnone, hsome⟩ :=
      fill_spec toc hS hM vars [UInt8.ofNat cmd, UInt8.ofNat id] hg (by simp) (by simp; omega)
    have hhdr : HasHeader cmd id ([UInt8.ofNat cmd, UInt8.ofNat id] ++ (vars.take k).flatMap (encV2 toc) ++ dang) := by
      simp [HasHeader]
    have hent : ∀ d : List UInt8, d.length < 3 →
        fwEntries ([UInt8.ofNat cmd, UInt8.ofNat id] ++ (vars.take k).flatMap (encV2 toc) ++ d) = (vars.take k).map (entryOf toc) := by
      intro d hd
      simp only [fwEntries, List.cons_append, List.nil_append, List.drop_succ_cons, List.drop_zero]
      exact entries3_flatMap toc _ (fun v hv => hg v (List.mem_of_mem_take hv)) d hd
    unfold createLoop
    rw [bytesOf_pair cmd id hcmd hid]
    simp only [hf]
    cases rest with
    | none =>
      obtain ⟨rfl, rfl⟩ := hnone rfl
      refine ⟨_, [], rfl, ?_, hhdr, by simp, ?_⟩
      · intro x hx; simp at hx; subst hx; simpa using hl
      · simp only [List.map_cons, List.map_nil, List.flatten_cons, List.flatten_nil, List.append_nil]
        have := hent [] (by simp)
        simpa using this
    | some r =>
      obtain ⟨rfl, hk', hd1, hprog⟩ := hsome r rfl
      have hk1 : 1 ≤ k := hprog (by simp; omega)
      obtain ⟨m2, ms2, hrec, hl2, hh2, hhs2, hent2⟩ :=
        ih (vars.drop k) app happ (by simp; omega) (fun v hv => hg v (List.mem_of_mem_drop hv))
      refine ⟨_, m2 :: ms2, ?_, ?_, hhdr, ?_, ?_⟩
      · simp only [hrec, txs, List.map_cons, mkTx]
      · intro x hx
        rcases List.mem_cons.mp hx with rfl | hx
        · exact hl
        · exact hl2 x hx
      · intro x hx
        rcases List.mem_cons.mp hx with rfl | hx
        · exact hh2
        · exact hhs2 x hx
      · rw [List.map_cons, List.flatten_cons, hent2, hent dang (by omega), ← List.map_append, List.take_append_drop]

end CfVerif.C05

namespace CfVerif.C05
open CfVerif Spec

/-! ## add_config -/

theorem periodOk_ofNat (n : Nat) :
    periodOk (periodOf (Int.ofNat n)) = (decide (0 < n / 10) && decide (n / 10 < 255)) := rfl
theorem periodOf_negSucc (n : Nat) : periodOf (Int.negSucc n) = -Int.ofNat ((n + 1) / 10) := rfl

/-- `0 < int(ms/10) < 0xFF` ⇔ `10 ≤ ms < 2550` -/
theorem periodOk_iff (ms : Int) : periodOk (periodOf ms) = true ↔ 10 ≤ ms ∧ ms < 2550 := by
  cases ms with
  | ofNat n =>
    rw [periodOk_ofNat]
    have e : (Int.ofNat n) = (n : Int) := rfl
    rw [e]
    simp only [Bool.and_eq_true, decide_eq_true_eq]
    omega
  | negSucc n =>
    rw [periodOf_negSucc]
    constructor
    · intro h
      exfalso
      cases hq : (n + 1) / 10 with
      | zero => rw [hq] at h; simp [periodOk, Gen.C05.periodLo] at h
      | succ q =>
        rw [hq] at h
        have : -Int.ofNat (q + 1) = Int.negSucc q := rfl
        rw [this] at h
        simp [periodOk] at h
    · intro ⟨h1, _⟩
      have : Int.negSucc n < 0 := Int.negSucc_lt_zero n
      omega

/-- the C type names of `LogTocElement.types` -/
def typeNames : List String := Gen.C05.types.map (·.2.1)

def nameOk (s : String) : Bool :=
  s.length != 0 && (match idFromCString s with | .ok t => (typeRow? t).isSome | .error _ => false)

theorem typeNames_ok : typeNames.all nameOk = true := by decide

theorem nameOk_of_mem {s : String} (h : s ∈ typeNames) :
    s.length ≠ 0 ∧ ∃ t, idFromCString s = .ok t ∧ (typeRow? t).isSome = true := by
  have h1 := List.all_eq_true.mp typeNames_ok s h
  unfold nameOk at h1
  simp only [Bool.and_eq_true, bne_iff_ne, ne_eq] at h1
  refine ⟨h1.1, ?_⟩
  cases hc : idFromCString s with
  | ok t => rw [hc] at h1; exact ⟨t, rfl, h1.2⟩
  | error e => rw [hc] at h1; exact absurd h1.2 (by simp)

/-- the table has an element of that name -/
def Toc.has (toc : Toc) (n : Nat) : Prop := ∃ e ∈ toc, e.name = n

theorem byName_isSome_iff (toc : Toc) (n : Nat) : (toc.byName n).isSome = true ↔ toc.has n := by
  unfold Toc.byName Toc.elementId Toc.has
  cases hf : toc.find? (fun e => e.name == n) with
  | none =>
    simp only [Option.map_none, Option.isSome_none, Bool.false_eq_true, false_iff]
    rintro ⟨e, he, rfl⟩
    have := List.find?_eq_none.mp hf e he
    simp at this
  | some e0 =>
    have hm := List.mem_of_find?_eq_some hf
    have hp := List.find?_some hf
    simp only [Option.map_some, Toc.byId]
    constructor
    · intro _; exact ⟨e0, hm, by simpa using hp⟩
    · intro _; rw [List.find?_isSome]; exact ⟨e0, hm, by simp⟩

theorem byName_mem {toc : Toc} {n : Nat} {el : TocEl} (h : toc.byName n = some el) : el ∈ toc := by
  unfold Toc.byName at h
  split at h
  · cases h
  · exact List.mem_of_find?_eq_some h

/-- what a default-typed name resolves to: a TOC variable fetched as it is stored -/
def resolveName (toc : Toc) (n : Nat) : Option LVar :=
  match toc.byName n with
  | none => none
  | some el => match idFromCString el.ctype with
    | .ok t => some ⟨n, t, t, true, 0⟩
    | .error _ => none

def resolvedVars (toc : Toc) (ds : List Nat) : List LVar := ds.filterMap (resolveName toc)

/-- well-formed table (as the TOC download builds it): every element's type is in the type table -/
def TocWF (toc : Toc) : Prop := ∀ e ∈ toc, e.ctype ∈ typeNames

theorem resolve_step (toc : Toc) (hwf : TocWF toc) (c : Conf) (n : Nat) (el : TocEl) (h : toc.byName n = some el) :
    ∃ v, resolveName toc n = some v ∧ (typeRow? v.fetch).isSome = true ∧ v.isToc = true ∧ v.name = n ∧
      c.addVariable n el.ctype = .ok { c with variables := c.variables ++ [v] } := by
  obtain ⟨hlen, t, ht, hrow⟩ := nameOk_of_mem (hwf el (byName_mem h))
  refine ⟨⟨n, t, t, true, 0⟩, by simp [resolveName, h, ht], hrow, rfl, rfl, ?_⟩
  simp [Conf.addVariable, hlen, mkVar, ht]

/-- the first loop of the repaired `add_config` -/
theorem resolve_spec (toc : Toc) (hwf : TocWF toc) :
    ∀ (ds : List Nat) (c : Conf), c.defaults = ds →
      ((∀ n ∈ ds, toc.has n) →
        resolveDefaults (some toc) ds c = ({ c with variables := c.variables ++ resolvedVars toc ds, defaults := [] }, none)) ∧
      ((∃ n ∈ ds, ¬ toc.has n) →
        (resolveDefaults (some toc) ds c).2 = some .keyError ∧ (resolveDefaults (some toc) ds c).1.valid = false ∧
        (resolveDefaults (some toc) ds c).1.hasCf = c.hasCf) := by
  intro ds
  induction ds with
  | nil =>
    intro c hc
    refine ⟨fun _ => ?_, fun ⟨n, hn, _⟩ => absurd hn (by simp)⟩
    cases c; simp only at hc; subst hc; simp [resolveDefaults, resolvedVars]
  | cons n ds ih =>
    intro c hc
    cases hb : toc.byName n with
    | none =>
      have hnot : ¬ toc.has n := by rw [← byName_isSome_iff, hb]; simp
      refine ⟨fun hall => absurd (hall n (by simp)) hnot, fun _ => ?_⟩
      simp [resolveDefaults, lookup, hb]
    | some el =>
      obtain ⟨v, hv, _, _, _, hadd⟩ := resolve_step toc hwf c n el hb
      have hhas : toc.has n := by rw [← byName_isSome_iff, hb]; rfl
      have hstep : resolveDefaults (some toc) (n :: ds) c =
          resolveDefaults (some toc) ds { c with variables := c.variables ++ [v], defaults := ds } := by
        simp only [resolveDefaults, lookup, hb, hadd, hc, List.erase_cons_head]
      rw [hstep]
      obtain ⟨ih1, ih2⟩ := ih { c with variables := c.variables ++ [v], defaults := ds } rfl
      constructor
      · intro hall
        rw [ih1 (fun m hm => hall m (by simp [hm]))]
        simp [resolvedVars, hv, List.append_assoc]
      · rintro ⟨m, hm, hnm⟩
        rcases List.mem_cons.mp hm with rfl | hm
        · exact absurd hhas hnm
        · exact ih2 ⟨m, hm, hnm⟩

/-- payload of a list of typed variables (bytes of the log data packet after the 4-byte header) -/
def payload (vs : List LVar) : Nat := (vs.map fun v => match sizeFromId v.fetch with | .ok s => s | .error _ => 0).sum

/-- every variable's fetch type is in the type table (true of everything `LogVariable.__init__` builds) -/
def VarsWF (vs : List LVar) : Prop := ∀ v ∈ vs, (typeRow? v.fetch).isSome = true

theorem sizeFromId_ok {t : Nat} (h : (typeRow? t).isSome = true) : ∃ s, sizeFromId t = .ok s := by
  unfold sizeFromId
  cases hr : typeRow? t with
  | none => rw [hr] at h; cases h
  | some e => exact ⟨_, rfl⟩

/-- the second loop of `add_config` -/
theorem checkVars_spec (toc : Toc) : ∀ (vs : List LVar) (acc : Nat), VarsWF vs →
    ((∀ v ∈ vs, v.isToc = true → toc.has v.name) → checkVars (some toc) vs acc = .ok (acc + payload vs)) ∧
    ((∃ v ∈ vs, v.isToc = true ∧ ¬ toc.has v.name) → checkVars (some toc) vs acc = .error (.keyError, true)) := by
  intro vs
  induction vs with
  | nil => intro acc _; exact ⟨fun _ => by simp [checkVars, payload], fun ⟨v, hv, _⟩ => absurd hv (by simp)⟩
  | cons v vs ih =>
    intro acc hwf
    obtain ⟨s, hs⟩ := sizeFromId_ok (hwf v (by simp))
    have hwf' : VarsWF vs := fun w hw => hwf w (by simp [hw])
    have hpay : payload (v :: vs) = s + payload vs := by simp [payload, hs]
    by_cases ht : v.isToc = true
    · cases hb : toc.byName v.name with
      | none =>
        have hnot : ¬ toc.has v.name := by rw [← byName_isSome_iff, hb]; simp
        refine ⟨fun hall => absurd (hall v (by simp) ht) hnot, fun _ => ?_⟩
        simp [checkVars, hs, ht, lookup, hb]
      | some el =>
        have hhas : toc.has v.name := by rw [← byName_isSome_iff, hb]; rfl
        have hstep : checkVars (some toc) (v :: vs) acc = checkVars (some toc) vs (acc + s) := by
          simp [checkVars, hs, ht, lookup, hb]
        rw [hstep, hpay]
        obtain ⟨ih1, ih2⟩ := ih (acc + s) hwf'
        constructor
        · intro hall; rw [ih1 (fun w hw => hall w (by simp [hw]))]; simp [Nat.add_assoc]
        · rintro ⟨w, hw, hwt, hwn⟩
          rcases List.mem_cons.mp hw with rfl | hw
          · exact absurd hhas hwn
          · exact ih2 ⟨w, hw, hwt, hwn⟩
    · have hstep : checkVars (some toc) (v :: vs) acc = checkVars (some toc) vs (acc + s) := by
        simp [checkVars, hs, ht]
      rw [hstep, hpay]
      obtain ⟨ih1, ih2⟩ := ih (acc + s) hwf'
      constructor
      · intro hall; rw [ih1 (fun w hw => hall w (by simp [hw]))]; simp [Nat.add_assoc]
      · rintro ⟨w, hw, hwt, hwn⟩
        rcases List.mem_cons.mp hw with rfl | hw
        · exact absurd hwt ht
        · exact ih2 ⟨w, hw, hwt, hwn⟩

theorem resolvedVars_wf (toc : Toc) (hwf : TocWF toc) (ds : List Nat) : VarsWF (resolvedVars toc ds) := by
  intro v hv
  simp only [resolvedVars, List.mem_filterMap] at hv
  obtain ⟨n, _, hn⟩ := hv
  unfold resolveName at hn
  cases hb : toc.byName n with
  | none => rw [hb] at hn; cases hn
  | some el =>
    obtain ⟨_, t, ht, hrow⟩ := nameOk_of_mem (hwf el (byName_mem hb))
    rw [hb] at hn; simp only [ht] at hn; cases hn; exact hrow

theorem resolvedVars_has (toc : Toc) (ds : List Nat) : ∀ v ∈ resolvedVars toc ds, v.isToc = true ∧ toc.has v.name := by
  intro v hv
  simp only [resolvedVars, List.mem_filterMap] at hv
  obtain ⟨n, _, hn⟩ := hv
  unfold resolveName at hn
  cases hb : toc.byName n with
  | none => rw [hb] at hn; cases hn
  | some el =>
    rw [hb] at hn
    have hhas : toc.has n := by rw [← byName_isSome_iff, hb]; rfl
    cases hc : idFromCString el.ctype with
    | ok t => simp only [hc] at hn; cases hn; exact ⟨rfl, hhas⟩
    | error e => simp only [hc] at hn; cases hn

end CfVerif.C05

namespace CfVerif.C05
open CfVerif Spec

/-- the acceptance condition of the property statement, for a configuration built with period `ms` -/
def Acceptable (toc : Toc) (c : Conf) (ms : Int) : Prop :=
  (∀ n ∈ c.defaults, toc.has n) ∧ (∀ v ∈ c.variables, v.isToc = true → toc.has v.name) ∧
  10 ≤ ms ∧ ms < 2550 ∧ payload (c.variables ++ resolvedVars toc c.defaults) ≤ 26

/-- no packet is handed to `send_packet` -/
def NoTx (outs : List Out) : Prop := ∀ o ∈ outs, ∀ d e, o ≠ .tx d e

theorem conf_setConf_self {st : St} {h : Nat} {c c' : Conf} (hc : st.conf? h = some c) :
    (st.setConf h c').conf? h = some c' := by
  unfold St.conf? at hc
  have hlt : h < st.confs.length := by
    rcases Nat.lt_or_ge h st.confs.length with hl | hl
    · exact hl
    · rw [List.getElem?_eq_none hl] at hc; cases hc
  simp [St.conf?, St.setConf, List.getElem?_set_self hlt]

theorem addConfig_spec (st : St) (h : Nat) (c : Conf) (toc : Toc) (ms : Int)
    (hc : st.conf? h = some c) (hlink : st.link = true) (htoc : st.toc = some toc)
    (hwf : TocWF toc) (hvw : VarsWF c.variables) (hp : c.period = periodOf ms) :
    ∃ r, addConfig st h = some r ∧ NoTx r.outs ∧ (r.err = none ↔ Acceptable toc c ms) ∧
      (r.err = none →
        r.st.conf? h = some { c with variables := c.variables ++ resolvedVars toc c.defaults, defaults := [],
                                     valid := true, hasCf := true, id := st.counter, useV2 := st.useV2 } ∧
        r.st.blocks = st.blocks ++ [h] ∧ r.outs = [.blockAdded h]) ∧
      (r.err ≠ none → r.outs = [] ∧ r.st.blocks = st.blocks ∧
        ∃ c', r.st.conf? h = some c' ∧ c'.valid = false ∧ c'.hasCf = c.hasCf) := by
  unfold addConfig addConfigWith
  simp only [hc, hlink, htoc, Bool.not_true, Bool.false_eq_true, if_false]
  obtain ⟨rs1, rs2⟩ := resolve_spec toc hwf c.defaults c rfl
  by_cases hd : ∀ n ∈ c.defaults, toc.has n
  · rw [rs1 hd]
    simp only
    have hvw1 : VarsWF (c.variables ++ resolvedVars toc c.defaults) := by
      intro v hv
      rcases List.mem_append.mp hv with hv | hv
      · exact hvw v hv
      · exact resolvedVars_wf toc hwf _ v hv
    obtain ⟨cs1, cs2⟩ := checkVars_spec toc (c.variables ++ resolvedVars toc c.defaults) 0 hvw1
    by_cases hv : ∀ v ∈ c.variables, v.isToc = true → toc.has v.name
    · have hall : ∀ v ∈ c.variables ++ resolvedVars toc c.defaults, v.isToc = true → toc.has v.name := by
        intro v hv' ht
        rcases List.mem_append.mp hv' with hv' | hv'
        · exact hv v hv' ht
        · exact (resolvedVars_has toc _ v hv').2
      rw [cs1 hall]
      simp only [Nat.zero_add]
      by_cases hok : (payload (c.variables ++ resolvedVars toc c.defaults) ≤ Gen.C05.maxLen && periodOk c.period) = true
      · rw [if_pos hok]
        simp only [Bool.and_eq_true, decide_eq_true_eq, hp, periodOk_iff] at hok
        refine ⟨_, rfl, ?_, ?_, ?_, ?_⟩
        · intro o ho; simp at ho; subst ho; intro d e; simp
        · simp only [true_iff]; exact ⟨hd, hv, hok.2.1, hok.2.2, hok.1⟩
        · intro _; exact ⟨conf_setConf_self hc, rfl, rfl⟩
        · intro hne; exact absurd rfl hne
      · rw [if_neg hok]
        refine ⟨_, rfl, ?_, ?_, ?_, ?_⟩
        · intro o ho; simp at ho
        · simp only [reduceCtorEq, false_iff]
          rintro ⟨_, _, h1, h2, h3⟩
          apply hok
          simp only [Bool.and_eq_true, decide_eq_true_eq, hp, periodOk_iff]
          exact ⟨h3, h1, h2⟩
        · intro he; cases he
        · intro _; exact ⟨rfl, rfl, _, conf_setConf_self hc, rfl, rfl⟩
    · have hex : ∃ v ∈ c.variables ++ resolvedVars toc c.defaults, v.isToc = true ∧ ¬ toc.has v.name := by
        apply Classical.byContradiction
        intro hno
        apply hv
        intro v hv' ht
        apply Classical.byContradiction
        intro hnh
        exact hno ⟨v, List.mem_append_left _ hv', ht, hnh⟩
      rw [cs2 hex]
      simp only [if_true]
      refine ⟨_, rfl, ?_, ?_, ?_, ?_⟩
      · intro o ho; simp at ho
      · simp only [reduceCtorEq, false_iff]; rintro ⟨_, h2, _⟩; exact hv h2
      · intro he; cases he
      · intro _; exact ⟨rfl, rfl, _, conf_setConf_self hc, rfl, rfl⟩
  · have hex : ∃ n ∈ c.defaults, ¬ toc.has n := by
      apply Classical.byContradiction
      intro hno
      apply hd
      intro n hn
      apply Classical.byContradiction
      intro hnh
      exact hno ⟨n, hn, hnh⟩
    obtain ⟨e1, e2, e3⟩ := rs2 hex
    generalize resolveDefaults (some toc) c.defaults c = rr at e1 e2 e3
    obtain ⟨c1, er⟩ := rr
    simp only at e1 e2 e3
    subst e1
    simp only
    refine ⟨_, rfl, ?_, ?_, ?_, ?_⟩
    · intro o ho; simp at ho
    · simp only [reduceCtorEq, false_iff]; rintro ⟨h1, _⟩; exact hd h1
    · intro he; cases he
    · intro _; exact ⟨rfl, rfl, _, conf_setConf_self hc, e2, e3⟩

/-! ## legacy protocol (V1) and LogVariable construction -/

def encV1 (toc : Toc) (v : LVar) : List UInt8 := [UInt8.ofNat (typeByte v), UInt8.ofNat (identOf toc v)]

theorem fill_v1 (toc : Toc) : ∀ (vs : List LVar) (data : List UInt8), (∀ v ∈ vs, GoodVar toc v ∧ identOf toc v < 256) →
    fill (some toc) false data vs = .ok (data ++ vs.flatMap (encV1 toc), none) := by
  intro vs
  induction vs with
  | nil => intro data _; simp [fill]
  | cons v vs ih =>
    intro data hg
    obtain ⟨g, hlt⟩ := hg v (by simp)
    have h1 := g.1
    have h2 := g.tb_lt
    have h3 := g.elementId
    simp only [fill, h1, h2, h3, hlt, Bool.not_true, Bool.false_eq_true, if_false, if_true]
    rw [ih _ (fun w hw => hg w (by simp [hw]))]
    simp [encV1, List.flatMap_cons]

theorem mkVar_wf {n : Nat} {f s : String} {b : Bool} {a : Nat} {v : LVar} (h : mkVar n f b s a = .ok v) :
    (typeRow? v.fetch).isSome = true ∧ (typeRow? v.stored).isSome = true := by
  have key : ∀ (x : String) (t : Nat), idFromCString x = .ok t → (typeRow? t).isSome = true := by
    intro x t hx
    unfold idFromCString at hx
    split at hx
    · rename_i e he
      cases hx
      unfold typeRow?
      rw [List.find?_isSome]
      exact ⟨e, List.mem_of_find?_eq_some he, by simp⟩
    · cases hx
  unfold mkVar at h
  split at h
  · cases h
  · rename_i t ht
    split at h
    · cases h; exact ⟨key _ _ ht, key _ _ ht⟩
    · split at h
      · cases h
      · rename_i t2 ht2; cases h; exact ⟨key _ _ ht, key _ _ ht2⟩

end CfVerif.C05

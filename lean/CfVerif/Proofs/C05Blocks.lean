/-
Proofs/C05Blocks: `log_blocks` only grows (add_config) unless `Log.reset()` is called or the reset acknowledgement
of a `refresh_toc()` arrives while no table is held.  Helper lemmas for `registered_blocks_stay`.  Core Lean only.
-/
import CfVerif.Proofs.C05Readd
namespace CfVerif.C05
open CfVerif Spec

theorem addConfig_blocks {st : St} {h : Nat} {r : Res} (hr : addConfig st h = some r) : st.blocks <+: r.st.blocks := by
  unfold addConfig addConfigWith at hr
  split at hr
  · cases hr
  · split at hr
    · cases hr; exact List.prefix_refl _
    · split at hr
      split at hr
      · cases hr; exact List.prefix_refl _
      · split at hr
        · cases hr; exact List.prefix_refl _
        · split at hr
          · cases hr; exact List.prefix_append _ _
          · cases hr; exact List.prefix_refl _

theorem create_blocks (st : St) (h : Nat) (c : Conf) : (create st h c).st.blocks = st.blocks := by
  unfold create
  split
  split
  · split <;> rfl
  · rfl

theorem start_blocks {st : St} {h : Nat} {r : Res} (hr : start st h = some r) : r.st.blocks = st.blocks := by
  unfold start at hr
  split at hr
  · cases hr
  · split at hr
    · cases hr; rfl
    · split at hr
      · split at hr
        · cases hr; exact create_blocks st h _
        · split at hr <;> (cases hr; rfl)
      · cases hr; rfl

theorem setAdded_blocks (st : St) (h : Nat) (v : Bool) : (setAdded st h v).1.blocks = st.blocks := by
  unfold setAdded; split <;> rfl
theorem setStarted_blocks (st : St) (h : Nat) (v : Bool) : (setStarted st h v).1.blocks = st.blocks := by
  unfold setStarted; split <;> rfl

/-- a control acknowledgement of ANY command, for any id and status, at any point: while the Log holds a table
(i.e. not between `refresh_toc()` and its reset acknowledgement) `log_blocks` is untouched -/
theorem onSettings_blocks (st : St) (cmd id status : Nat) (ht : st.toc.isSome = true) :
    (onSettings st cmd id status).st.blocks = st.blocks := by
  unfold onSettings
  simp only
  split
  · split
    · rfl
    · split
      · rfl
      · split
        · split
          · split
            · rfl
            · simp only
              split
              · exact setAdded_blocks st _ true
              · exact setAdded_blocks st _ true
          · rfl
        · split <;> rfl
  · split
    · split
      · split
        · rfl
        · exact setStarted_blocks st _ true
      · split
        · split
          · rfl
          · split <;> rfl
        · rfl
    · split
      · split
        · split
          · rfl
          · exact setStarted_blocks st _ false
        · rfl
      · split
        · split
          · split
            · rfl
            · simp only
              rw [setAdded_blocks, setStarted_blocks]
          · rfl
        · split
          · split
            · rename_i hn; rw [hn] at ht; cases ht
            · rfl
          · rfl

theorem deliver_blocks (h ts : Nat) (vals : List (Nat × Val)) : ∀ (l : List Nat) (st : St),
    (deliver h ts vals l st).1.blocks = st.blocks := by
  intro l
  induction l with
  | nil => intro st; rfl
  | cons s ss ih =>
    intro st
    simp only [deliver]
    split
    · exact ih st
    · simp only; rw [ih]

theorem onLogData_blocks (st : St) (data : List UInt8) : (onLogData st data).st.blocks = st.blocks := by
  unfold onLogData
  split
  · rfl
  · split
    · dsimp only
      split
      · rfl
      · split
        · rfl
        · split
          · rfl
          · simp only; exact deliver_blocks _ _ _ _ _
    · rfl
    · rfl

theorem newPacket_blocks (st : St) (chan : Nat) (data : List UInt8) (ht : st.toc.isSome = true) :
    (newPacket st chan data).st.blocks = st.blocks := by
  unfold newPacket
  split
  · rfl
  · split
    · split
      · exact onSettings_blocks st _ _ _ ht
      · rfl
    · split
      · exact onLogData_blocks st _
      · rfl

theorem slConnectLoop_blocks (s : Nat) : ∀ (hs : List Nat) (st : St) (r : Res),
    slConnectLoop s hs st = some r → st.blocks <+: r.st.blocks := by
  intro hs
  induction hs with
  | nil => intro st r h; simp only [slConnectLoop] at h; cases h; exact List.prefix_refl _
  | cons h hs ih =>
    intro st r hr
    simp only [slConnectLoop] at hr
    split at hr
    · cases hr
    · rename_i r1 h1
      have t1 := addConfig_blocks h1
      split at hr
      · cases hr; exact t1
      · split at hr
        · cases hr
        · split at hr
          · cases hr
          · rename_i r2 h2
            have t2 : st.blocks <+: r2.st.blocks := by rw [start_blocks h2]; exact t1
            split at hr
            · cases hr; exact t2
            · split at hr
              · cases hr
              · rename_i r3 h3
                cases hr
                exact List.IsPrefix.trans t2 (ih r2.st r3 h3)

theorem slConnect_blocks {st : St} {s : Nat} {r : Res} (hr : slConnect st s = some r) : st.blocks <+: r.st.blocks := by
  unfold slConnect at hr
  split at hr
  · cases hr
  · split at hr
    · cases hr; exact List.prefix_refl _
    · simp only at hr
      split at hr
      · cases hr
      · rename_i r1 h1
        have t1 := slConnectLoop_blocks s _ { st with discCbs := callerAdd st.discCbs s } r1 h1
        split at hr
        · cases hr; exact t1
        · split at hr
          · cases hr
          · cases hr; exact t1

theorem slDisconnectLoop_blocks (s : Nat) : ∀ (hs : List Nat) (st : St) (r : Res),
    slDisconnectLoop s hs st = some r → r.st.blocks = st.blocks := by
  intro hs
  induction hs with
  | nil => intro st r h; simp only [slDisconnectLoop] at h; cases h; rfl
  | cons h hs ih =>
    intro st r hr
    simp only [slDisconnectLoop] at hr
    split at hr
    · cases hr
    · rename_i r1 h1
      have e1 : r1.st = st := simpleCmd_st h1
      split at hr
      · cases hr; rw [e1]
      · split at hr
        · cases hr
        · rename_i r2 h2
          have e2 : r2.st = st := by rw [simpleCmd_st h2, e1]
          split at hr
          · cases hr; show r2.st.blocks = st.blocks; rw [e2]
          · split at hr
            · cases hr
            · split at hr
              · split at hr
                · cases hr
                · rename_i r3 h3
                  cases hr
                  show r3.st.blocks = st.blocks
                  rw [ih _ r3 h3]; show r2.st.blocks = st.blocks; rw [e2]
              · cases hr; show r2.st.blocks = st.blocks; rw [e2]

theorem slDisconnect_blocks {st : St} {s : Nat} {r : Res} (hr : slDisconnect st s = some r) : r.st.blocks = st.blocks := by
  unfold slDisconnect at hr
  split at hr
  · cases hr
  · split at hr
    · cases hr; rfl
    · split at hr
      · cases hr
      · rename_i r1 h1
        have t1 := slDisconnectLoop_blocks s _ _ r1 h1
        split at hr
        · cases hr; exact t1
        · split at hr
          · split at hr
            · cases hr
            · cases hr; exact t1
          · cases hr; exact t1

theorem slDisconnected_blocks {st : St} {s : Nat} {r : Res} (hr : slDisconnected st s = some r) : r.st.blocks = st.blocks := by
  unfold slDisconnected at hr
  split at hr
  · cases hr
  · rename_i r1 h1
    have t1 := slDisconnect_blocks h1
    split at hr
    · cases hr; exact t1
    · split at hr
      · cases hr
      · cases hr; exact t1

theorem callDisconnected_blocks : ∀ (ss : List Nat) (st : St) (r : Res), callDisconnected ss st = some r → r.st.blocks = st.blocks := by
  intro ss
  induction ss with
  | nil => intro st r h; simp only [callDisconnected] at h; cases h; rfl
  | cons s ss ih =>
    intro st r hr
    simp only [callDisconnected] at hr
    split at hr
    · cases hr
    · rename_i r1 h1
      have t1 := slDisconnected_blocks h1
      split at hr
      · cases hr; exact t1
      · split at hr
        · cases hr
        · rename_i r2 h2
          cases hr
          show r2.st.blocks = st.blocks
          rw [ih r1.st r2 h2, t1]

/-- every operation except `Log.reset()`, on a state that holds a table: registered blocks stay registered, in order -/
theorem step_blocks (st : St) (op : Op) (r : Res) (hs : step st op = some r) (ht : st.toc.isSome = true)
    (hno : op ≠ .reset) : st.blocks <+: r.st.blocks := by
  have eqp : ∀ {l : List Nat}, l = st.blocks → st.blocks <+: l := fun h => by rw [h]; exact List.prefix_refl _
  cases op with
  | newConf ms => simp only [step] at hs; cases hs; exact List.prefix_refl _
  | addVar h n t =>
    simp only [step] at hs
    split at hs
    · cases hs
    · split at hs <;> (cases hs; exact List.prefix_refl _)
  | addMem h n t s a =>
    simp only [step] at hs
    split at hs
    · cases hs
    · split at hs <;> (cases hs; exact List.prefix_refl _)
  | addConfig h => exact addConfig_blocks hs
  | start h => exact eqp (start_blocks hs)
  | stop h => exact eqp (by rw [simpleCmd_st hs])
  | delete h => exact eqp (by rw [simpleCmd_st hs])
  | rx chan data => simp only [step] at hs; cases hs; exact eqp (newPacket_blocks st chan data ht)
  | reset => exact absurd rfl hno
  | refresh ver => simp only [step] at hs; cases hs; exact List.prefix_refl _
  | setToc t =>
    simp only [step] at hs
    split at hs
    · cases hs; exact List.prefix_refl _
    · cases hs
  | linkUp => simp only [step] at hs; cases hs; exact List.prefix_refl _
  | linkLost =>
    simp only [step, linkLost] at hs
    exact eqp (callDisconnected_blocks _ { st with link := false } r hs)
  | newSl confs =>
    simp only [step] at hs
    split at hs
    · cases hs; exact List.prefix_refl _
    · cases hs
  | slConnect s => exact slConnect_blocks hs
  | slDisconnect s => exact eqp (slDisconnect_blocks hs)
  | slNext s =>
    simp only [step, slNext] at hs
    split at hs
    · cases hs
    · split at hs
      · cases hs; exact List.prefix_refl _
      · split at hs
        · cases hs; exact List.prefix_refl _
        · split at hs <;> (cases hs; exact List.prefix_refl _)

theorem run_blocks : ∀ (ops : List Op) (st : St), TocsOk (fun t => t.isSome = true) st ops → (∀ op ∈ ops, op ≠ .reset) →
    st.blocks <+: (run st ops).1.blocks := by
  intro ops
  induction ops with
  | nil => intro st _ _; exact List.prefix_refl _
  | cons op ops ih =>
    intro st hq hno
    simp only [run]
    simp only [TocsOk] at hq
    cases hs : step st op with
    | none => rw [hs] at hq; exact ih st hq.2 (fun o ho => hno o (by simp [ho]))
    | some r =>
      rw [hs] at hq
      exact List.IsPrefix.trans (step_blocks st op r hs hq.1 (hno op (by simp)))
        (ih r.st hq.2 (fun o ho => hno o (by simp [ho])))

end CfVerif.C05

/-
Proofs/C05Data: decoding of log data packets (helper lemmas for Props/C05, core Lean only).
-/
import CfVerif.Proofs.C05
namespace CfVerif.C05
open CfVerif Spec

/-- `t0 | t1 << 8 | t2 << 16` is the little-endian value of the three timestamp bytes -/
theorem ts_expr (t0 t1 t2 : Nat) (h0 : t0 < 256) (h1 : t1 < 256) :
    Gen.C05.tsExpr t0 t1 t2 = t0 + 256 * t1 + 65536 * t2 := by
  unfold Gen.C05.tsExpr
  have a : t1 <<< 8 + t0 = t1 <<< 8 ||| t0 := Nat.shiftLeft_add_eq_or_of_lt (by omega) t1
  have hlt : t1 <<< 8 + t0 < 2 ^ 16 := by rw [Nat.shiftLeft_eq]; omega
  have b : t2 <<< 16 + (t1 <<< 8 + t0) = t2 <<< 16 ||| (t1 <<< 8 + t0) := Nat.shiftLeft_add_eq_or_of_lt hlt t2
  rw [Nat.or_comm t0, ← a, Nat.or_comm, ← b, Nat.shiftLeft_eq, Nat.shiftLeft_eq]
  omega

def codeRowOk (t : Nat) : Bool :=
  match codeOf t with
  | some c => decide (sizeFromId t = .ok c.size) && decide (fmtFromId t = .ok [c])
  | none => true

/-- cflib's type table (Gen) agrees with the firmware's log types (Spec.codeOf) on size and layout -/
theorem table_codes_all : (List.range 9).all codeRowOk = true := by decide

theorem codeOf_ge (t : Nat) (h : 9 ≤ t) : codeOf t = none := by
  match t, h with
  | n + 9, _ => rfl

theorem table_codes {t : Nat} {c : Code} (h : codeOf t = some c) :
    sizeFromId t = .ok c.size ∧ fmtFromId t = .ok [c] := by
  have hlt : t < 9 := by
    rcases Nat.lt_or_ge t 9 with h9 | h9
    · exact h9
    · rw [codeOf_ge t h9] at h; cases h
  have := List.all_eq_true.mp table_codes_all t (List.mem_range.mpr hlt)
  unfold codeRowOk at this
  rw [h] at this
  simpa using this

def codeD (t : Nat) : Code := (codeOf t).getD .B

/-- what the device puts on the wire for (variable, value) pairs: each value in the variable's fetch type -/
def wireVals (items : List (LVar × Val)) : List (Code × Val) := items.map fun p => (codeD p.1.fetch, p.2)

/-- every variable has a firmware log type and its value is a value of that type -/
def ItemsOk (items : List (LVar × Val)) : Prop :=
  ∀ p ∈ items, ∃ c, codeOf p.1.fetch = some c ∧ p.2.canonFor c = true

theorem unpack_single {c : Code} {x : Val} {a : List UInt8} (hc : x.canonFor c = true)
    (hp : packOne c x = .ok a) (rest : List UInt8) : unpack [c] ((a ++ rest).take c.size) = .ok [x] := by
  have hl := packOne_length hp
  have ht : (a ++ rest).take c.size = a := by rw [← hl]; simp
  rw [ht]
  have hu := unpackOne_packOne hc hp
  have htv : c.takesVal = true := by cases c <;> first | rfl | (cases x <;> simp [Val.canonFor] at hc)
  have hd : List.drop c.size a = [] := by rw [← hl]; simp
  have htk : List.take c.size a = a := by rw [← hl]; simp
  simp [unpack, hl, htv, hu, hd, htk, bind, Except.bind, pure, Except.pure]

theorem unpackVars_encode : ∀ (items : List (LVar × Val)) (d : List (Nat × Val)) (bytes rest : List UInt8),
    ItemsOk items → encodeValues (wireVals items) = .ok bytes →
    unpackVars (items.map (·.1)) (bytes ++ rest) d = .ok (items.foldl (fun d p => dictSet d p.1.name p.2) d) := by
  intro items
  induction items with
  | nil =>
    intro d bytes rest _ h
    simp [unpackVars]
  | cons p tl ih =>
    intro d bytes rest hok h
    obtain ⟨c, hcode, hcanon⟩ := hok p (by simp)
    obtain ⟨hsz, hfmt⟩ := table_codes hcode
    have hcd : codeD p.1.fetch = c := by simp [codeD, hcode]
    simp only [wireVals, List.map_cons, encodeValues, hcd] at h
    cases hp : packOne c p.2 with
    | error e => rw [hp] at h; cases h
    | ok a =>
      rw [hp] at h
      cases ht : encodeValues (List.map (fun p => (codeD p.1.fetch, p.2)) tl) with
      | error e => rw [ht] at h; cases h
      | ok b =>
        rw [ht] at h
        cases h
        have hl := packOne_length hp
        have hdrop : (a ++ b ++ rest).drop c.size = b ++ rest := by
          rw [List.append_assoc, ← hl]; simp
        have hun : unpack [c] ((a ++ b ++ rest).take c.size) = .ok [p.2] := by
          rw [List.append_assoc]; exact unpack_single hcanon hp _
        simp only [List.map_cons, unpackVars, hsz, hfmt, hun, hdrop, List.foldl_cons]
        exact ih _ b rest (fun q hq => hok q (by simp [hq])) ht

theorem dictSet_fresh (d : List (Nat × Val)) (k : Nat) (v : Val) (h : ∀ e ∈ d, e.1 ≠ k) :
    dictSet d k v = d ++ [(k, v)] := by
  unfold dictSet
  have : d.any (fun e => e.1 == k) = false := by
    rw [List.any_eq_false]; intro e he; simpa using h e he
  simp [this]

theorem foldl_dictSet_fresh : ∀ (items : List (LVar × Val)) (d : List (Nat × Val)),
    (items.map (·.1.name)).Nodup → (∀ p ∈ items, ∀ e ∈ d, e.1 ≠ p.1.name) →
    items.foldl (fun d p => dictSet d p.1.name p.2) d = d ++ items.map (fun p => (p.1.name, p.2)) := by
  intro items
  induction items with
  | nil => intro d _ _; simp
  | cons p tl ih =>
    intro d hnd hfresh
    simp only [List.map_cons, List.nodup_cons] at hnd
    rw [List.foldl_cons, dictSet_fresh d _ _ (hfresh p (by simp))]
    rw [ih _ hnd.2]
    · simp
    · intro q hq e he
      rcases List.mem_append.mp he with he | he
      · exact hfresh q (by simp [hq]) e he
      · simp only [List.mem_singleton] at he
        subst he
        intro heq
        apply hnd.1
        simp only [List.mem_map]
        exact ⟨q, hq, heq.symm⟩

/-- the three timestamp bytes of the device are read back as the timestamp -/
theorem ts_roundtrip (ts : Nat) :
    unpack (parseFmt! Gen.C05.tsFmt) (leBytes 3 ts) =
      .ok [.int ((ts % 256 : Nat) : Int), .int ((ts / 256 % 256 : Nat) : Int), .int ((ts / 256 / 256 % 256 : Nat) : Int)] := by
  have hf : parseFmt! Gen.C05.tsFmt = [Code.B, Code.B, Code.B] := by decide
  rw [hf]
  simp [leBytes, unpack, Code.size, Code.takesVal, unpackOne, leVal, bind, Except.bind, pure, Except.pure]

theorem onLogData_spec (st : St) (h : Nat) (c : Conf) (items : List (LVar × Val)) (ts : Nat) (pkt extra : List UInt8)
    (hc : st.conf? h = some c) (hvars : c.variables = items.map (·.1))
    (hfind : findBlock st c.id st.blocks = some h) (hid : c.id < 256)
    (hok : ItemsOk items) (hts : ts < 2 ^ 24) (hnd : (items.map (·.1.name)).Nodup)
    (henc : devEncode (UInt8.ofNat c.id) ts (wireVals items) = .ok pkt) :
    newPacket st Gen.C05.chanLogdata (pkt ++ extra) =
      { st := (deliver h ts (items.map fun p => (p.1.name, p.2)) c.dataCbs st).1,
        outs := .data h ts (items.map fun p => (p.1.name, p.2)) ::
                  (deliver h ts (items.map fun p => (p.1.name, p.2)) c.dataCbs st).2,
        err := none } := by
  unfold devEncode at henc
  cases hb : encodeValues (wireVals items) with
  | error e => rw [hb] at henc; cases henc
  | ok body =>
    rw [hb] at henc
    cases henc
    have hidn : (UInt8.ofNat c.id).toNat = c.id := by simp; omega
    have hchan : (Gen.C05.chanLogdata == Gen.C05.chanSettings) = false := by decide
    have hdrop1 : ((UInt8.ofNat c.id :: (leBytes 3 ts ++ body)) ++ extra).drop 1 = leBytes 3 ts ++ (body ++ extra) := by
      simp
    have htake : (leBytes 3 ts ++ (body ++ extra)).take 3 = leBytes 3 ts := by
      have : (leBytes 3 ts).length = 3 := leBytes_length 3 ts
      rw [List.take_append_of_le_length (by omega), List.take_of_length_le (by omega)]
    have hdrop4 : ((UInt8.ofNat c.id :: (leBytes 3 ts ++ body)) ++ extra).drop 4 = body ++ extra := by
      have : (leBytes 3 ts).length = 3 := leBytes_length 3 ts
      simp only [List.cons_append, List.drop_succ_cons, List.append_assoc]
      rw [List.drop_append_of_le_length (by omega), List.drop_of_length_le (by omega)]
      simp
    have hts' : Gen.C05.tsExpr (ts % 256) (ts / 256 % 256) (ts / 256 / 256 % 256) = ts := by
      rw [ts_expr _ _ _ (by omega) (by omega)]
      have : ts / 256 / 256 < 256 := by omega
      omega
    have hun := unpackVars_encode items [] body extra hok hb
    rw [foldl_dictSet_fresh items [] hnd (by simp)] at hun
    simp only [List.nil_append] at hun
    simp only [newPacket, List.cons_append, hchan, Bool.false_eq_true, if_false, beq_self_eq_true, if_true, onLogData]
    rw [show (UInt8.ofNat c.id :: (leBytes 3 ts ++ body ++ extra)) = ((UInt8.ofNat c.id :: (leBytes 3 ts ++ body)) ++ extra) by simp]
    rw [hdrop1, htake, ts_roundtrip ts, hdrop4]
    simp only [Int.toNat_natCast, hts', hidn, hfind, hc, hvars ▸ hun]

end CfVerif.C05

/-
Proofs/C05Flags: exact effect of a settings acknowledgement on the flags and flag callbacks.  Core Lean only.
-/
import CfVerif.Proofs.C05Hist
namespace CfVerif.C05
open CfVerif Spec

def isFlagCb : Out → Bool
  | .addedCb _ _ => true
  | .startedCb _ _ => true
  | _ => false

/-- the property-setter callbacks for a change of flags: `started` first, then `added` (only a delete
acknowledgement changes both, in this order) -/
def flagCbs (h : Nat) (old new : Bool × Bool) : List Out :=
  (if new.2 != old.2 then [.startedCb h new.2] else []) ++ (if new.1 != old.1 then [.addedCb h new.1] else [])

theorem findBlock_some {st : St} {id : Nat} : ∀ {bs : List Nat} {h : Nat}, findBlock st id bs = some h →
    ∃ c, st.conf? h = some c ∧ c.id = id := by
  intro bs
  induction bs with
  | nil => intro h hf; cases hf
  | cons b bs ih =>
    intro h hf
    simp only [findBlock] at hf
    split at hf
    · rename_i c hc
      split at hf
      · rename_i hid; cases hf; exact ⟨c, hc, by simpa using hid⟩
      · exact ih hf
    · exact ih hf

theorem set_self {st : St} {h : Nat} {c : Conf} (hc : st.conf? h = some c) : st.confs.set h c = st.confs := by
  unfold St.conf? at hc
  apply List.ext_getElem?
  intro i
  by_cases hi : i = h
  · subst hi
    have hlt : i < st.confs.length := by
      rcases Nat.lt_or_ge i st.confs.length with hl | hl
      · exact hl
      · rw [List.getElem?_eq_none hl] at hc; cases hc
    rw [List.getElem?_set_self hlt, hc]
  · rw [List.getElem?_set_ne (Ne.symm hi)]

theorem onSettings_block (st : St) (cmd id status h : Nat) (ch : Conf)
    (hfind : findBlock st id st.blocks = some h) (hc : st.conf? h = some ch) :
    ∃ c', (onSettings st cmd id status).st.confs = st.confs.set h c' ∧
      flagsOf c' = (if (onSettings st cmd id status).err = none then ackEffect cmd status (flagsOf ch) else flagsOf ch) ∧
      (onSettings st cmd id status).outs.filter isFlagCb = flagCbs h (flagsOf ch) (flagsOf c') := by
  have hself := set_self hc
  have hc1 : ∀ c1 : Conf, (st.setConf h c1).conf? h = some c1 := fun c1 => conf_setConf_self hc
  simp only [onSettings, hfind, hc, setAdded, setStarted, hc1]
  by_cases h1 : (cmd == Gen.C05.cmdCreate || cmd == Gen.C05.cmdCreateV2) = true
  · simp only [h1, if_true]
    have h1' : cmd = 0 ∨ cmd = 6 := by simpa [Gen.C05.cmdCreate, Gen.C05.cmdCreateV2] using h1
    by_cases h2 : (status == 0 || status == Gen.C05.errnoEEXIST) = true
    · have h2' : status = 0 ∨ status = 17 := by simpa [Gen.C05.errnoEEXIST] using h2
      simp only [h2, if_true]
      cases ha : ch.added with
      | true =>
        refine ⟨ch, by simp [hself], ?_, ?_⟩
        · simp [ackEffect, h1', h2', flagsOf, ha]
        · simp [flagCbs, flagsOf]
      | false =>
        simp only [Bool.not_false, if_true]
        cases hb : bytesOf [(Gen.C05.cmdStart : Int), (id : Int), ch.period] with
        | error e =>
          refine ⟨ch, by simp [hself], ?_, ?_⟩
          · simp
          · simp [flagCbs]
        | ok d =>
          refine ⟨{ ch with added := true, pending := 0 }, by simp [St.setConf, List.set_set], ?_, ?_⟩
          · simp [ackEffect, h1', h2', flagsOf]
          · simp [flagCbs, flagsOf, ha, isFlagCb]
    · have h2' : ¬ (status = 0 ∨ status = 17) := by simpa [Gen.C05.errnoEEXIST] using h2
      simp only [h2, Bool.false_eq_true, if_false]
      by_cases h3 : errCodeKnown status = true
      · simp only [h3, if_true]
        refine ⟨{ ch with errNo := status }, by simp [St.setConf], ?_, ?_⟩
        · simp [ackEffect, h1', h2', flagsOf]
        · simp [flagCbs, flagsOf, isFlagCb]
      · simp only [h3, Bool.false_eq_true, if_false]
        refine ⟨ch, by simp [hself], by simp, by simp [flagCbs]⟩
  · simp only [h1, Bool.false_eq_true, if_false]
    have h1' : ¬ (cmd = 0 ∨ cmd = 6) := by simpa [Gen.C05.cmdCreate, Gen.C05.cmdCreateV2] using h1
    by_cases h4 : (cmd == Gen.C05.cmdStart) = true
    · have h4' : cmd = 3 := by simpa [Gen.C05.cmdStart] using h4
      simp only [h4, if_true]
      by_cases h5 : (status == 0) = true
      · have h5' : status = 0 := by simpa using h5
        simp only [h5, if_true]
        refine ⟨{ ch with started := true }, by simp [St.setConf], ?_, ?_⟩
        · simp [ackEffect, h4', h5', flagsOf]
        · cases hs : ch.started <;> simp [flagCbs, flagsOf, hs, isFlagCb]
      · have h5' : ¬ status = 0 := by simpa using h5
        simp only [h5, Bool.false_eq_true, if_false]
        by_cases h3 : errCodeKnown status = true
        · simp only [h3, if_true]
          refine ⟨{ ch with errNo := status }, by simp [St.setConf], ?_, ?_⟩
          · simp [ackEffect, h4', h5', flagsOf]
          · simp [flagCbs, flagsOf, isFlagCb]
        · simp only [h3, Bool.false_eq_true, if_false]
          refine ⟨ch, by simp [hself], by simp, by simp [flagCbs]⟩
    · simp only [h4, Bool.false_eq_true, if_false]
      have h4' : ¬ cmd = 3 := by simpa [Gen.C05.cmdStart] using h4
      by_cases h6 : (cmd == Gen.C05.cmdStop) = true
      · have h6' : cmd = 4 := by simpa [Gen.C05.cmdStop] using h6
        simp only [h6, if_true]
        by_cases h5 : (status == 0) = true
        · have h5' : status = 0 := by simpa using h5
          simp only [h5, if_true]
          refine ⟨{ ch with started := false }, by simp [St.setConf], ?_, ?_⟩
          · simp [ackEffect, h6', h5', flagsOf]
          · cases hs : ch.started <;> simp [flagCbs, flagsOf, hs, isFlagCb]
        · have h5' : ¬ status = 0 := by simpa using h5
          simp only [h5, Bool.false_eq_true, if_false]
          refine ⟨ch, by simp [hself], by simp [ackEffect, h6', h5'], by simp [flagCbs]⟩
      · simp only [h6, Bool.false_eq_true, if_false]
        have h6' : ¬ cmd = 4 := by simpa [Gen.C05.cmdStop] using h6
        by_cases h7 : (cmd == Gen.C05.cmdDelete) = true
        · have h7' : cmd = 2 := by simpa [Gen.C05.cmdDelete] using h7
          simp only [h7, if_true]
          by_cases h8 : (status == 0 || status == Gen.C05.errnoENOENT) = true
          · have h8' : status = 0 ∨ status = 2 := by simpa [Gen.C05.errnoENOENT] using h8
            simp only [h8, if_true]
            refine ⟨{ ch with started := false, added := false }, by simp [St.setConf, List.set_set], ?_, ?_⟩
            · simp [ackEffect, h7', h8', flagsOf]
            · cases hs : ch.started <;> cases ha : ch.added <;> simp [flagCbs, flagsOf, hs, ha, isFlagCb]
          · have h8' : ¬ (status = 0 ∨ status = 2) := by simpa [Gen.C05.errnoENOENT] using h8
            simp only [h8, Bool.false_eq_true, if_false]
            refine ⟨ch, by simp [hself], by simp [ackEffect, h7', h8'], by simp [flagCbs]⟩
        · simp only [h7, Bool.false_eq_true, if_false]
          have h7' : ¬ cmd = 2 := by simpa [Gen.C05.cmdDelete] using h7
          have hnone : ackEffect cmd status (flagsOf ch) = flagsOf ch := by
            simp [ackEffect, h1', h4', h6', h7']
          by_cases h9 : (cmd == Gen.C05.cmdReset) = true
          · simp only [h9, if_true]
            cases st.toc with
            | none => exact ⟨ch, by simp [hself], by simp [hnone], by simp [flagCbs, isFlagCb]⟩
            | some t => exact ⟨ch, by simp [hself], by simp [hnone], by simp [flagCbs]⟩
          · simp only [h9, Bool.false_eq_true, if_false]
            exact ⟨ch, by simp [hself], by simp [hnone], by simp [flagCbs]⟩

theorem onSettings_noblock (st : St) (cmd id status : Nat) (hfind : findBlock st id st.blocks = none) :
    (onSettings st cmd id status).st.confs = st.confs ∧ (onSettings st cmd id status).outs.filter isFlagCb = [] := by
  simp only [onSettings, hfind]
  split
  · exact ⟨rfl, rfl⟩
  · split
    · split
      · exact ⟨rfl, rfl⟩
      · split <;> exact ⟨rfl, rfl⟩
    · split
      · split <;> exact ⟨rfl, rfl⟩
      · split
        · split <;> exact ⟨rfl, rfl⟩
        · split
          · split <;> exact ⟨rfl, rfl⟩
          · exact ⟨rfl, rfl⟩

/-- effect of one settings acknowledgement on the flags of every configuration -/
theorem onSettings_flags (st : St) (cmd id status k : Nat) (c : Conf) (hk : st.conf? k = some c) :
    ∃ c', (onSettings st cmd id status).st.conf? k = some c' ∧
      flagsOf c' = (if (onSettings st cmd id status).err = none ∧ findBlock st id st.blocks = some k
                    then ackEffect cmd status (flagsOf c) else flagsOf c) := by
  cases hf : findBlock st id st.blocks with
  | none =>
    refine ⟨c, ?_, by simp⟩
    unfold St.conf?; rw [(onSettings_noblock st cmd id status hf).1]; exact hk
  | some h =>
    obtain ⟨ch, hch, _⟩ := findBlock_some hf
    obtain ⟨c', hset, hfl, _⟩ := onSettings_block st cmd id status h ch hf hch
    by_cases hkh : k = h
    · subst hkh
      rw [hch] at hk; cases hk
      refine ⟨c', ?_, ?_⟩
      · unfold St.conf? at hch ⊢
        rw [hset]
        have hlt : k < st.confs.length := by
          rcases Nat.lt_or_ge k st.confs.length with hl | hl
          · exact hl
          · rw [List.getElem?_eq_none hl] at hch; cases hch
        exact List.getElem?_set_self hlt
      · rw [hfl]; simp
    · refine ⟨c, ?_, ?_⟩
      · unfold St.conf? at hk ⊢
        rw [hset, List.getElem?_set_ne (Ne.symm hkh)]; exact hk
      · have : ¬ (some h = some k) := fun e => hkh (Option.some.inj e).symm
        simp [this]

/-- the flags of `k` prescribed by the acknowledgement in `op` (if it is one, was processed without an
exception and names the block of `k`) -/
def ackStep (k : Nat) (st : St) (op : Op) (err : Option PyErr) (f : Bool × Bool) : Bool × Bool :=
  match op with
  | .rx chan (cmd :: id :: status :: _) =>
    if chan = Gen.C05.chanSettings ∧ err = none ∧ findBlock st id.toNat st.blocks = some k
    then ackEffect cmd.toNat status.toNat f else f
  | _ => f

theorem step_flags (st : St) (op : Op) (r : Res) (hs : step st op = some r) (k : Nat) (c : Conf)
    (hk : st.conf? k = some c) :
    ∃ c', r.st.conf? k = some c' ∧ flagsOf c' = ackStep k st op r.err (flagsOf c) := by
  have hkeep : ∀ op', step st op' = some r → op'.isSettingsRx = false →
      (∀ h n t, op' ≠ .addVar h n t) → (∀ h n t s a, op' ≠ .addMem h n t s a) →
      ∃ c', r.st.conf? k = some c' ∧ flagsOf c' = flagsOf c := by
    intro op' hs' hrx hv hm
    cases op' with
    | addVar h n t => exact absurd rfl (hv h n t)
    | addMem h n t s a => exact absurd rfl (hm h n t s a)
    | _ => exact step_keeps insens_flags (addConfig_keeps_flags k) st _ r trivial hs' rfl (Or.inr hrx) (Or.inl (fun _ _ => rfl)) c hk trivial
  cases op with
  | addVar h n t =>
    simp only [step] at hs
    split at hs
    · cases hs
    · rename_i c0 hc0
      split at hs
      · rename_i c1 hc1
        cases hs
        by_cases hkh : k = h
        · subst hkh
          rw [hc0] at hk; cases hk
          exact ⟨c1, conf_setConf_self hc0, addVariable_flags hc1⟩
        · exact ⟨c, by rw [conf_setConf_ne hkh]; exact hk, rfl⟩
      · cases hs; exact ⟨c, hk, rfl⟩
  | addMem h n t s a =>
    simp only [step] at hs
    split at hs
    · cases hs
    · rename_i c0 hc0
      split at hs
      · rename_i c1 hc1
        cases hs
        by_cases hkh : k = h
        · subst hkh
          rw [hc0] at hk; cases hk
          refine ⟨c1, conf_setConf_self hc0, ?_⟩
          unfold Conf.addMemory at hc1
          split at hc1
          · cases hc1; rfl
          · cases hc1
        · exact ⟨c, by rw [conf_setConf_ne hkh]; exact hk, rfl⟩
      · cases hs; exact ⟨c, hk, rfl⟩
  | rx chan data =>
    by_cases hch : chan = Gen.C05.chanSettings
    · simp only [step] at hs; cases hs
      match data with
      | [] => exact ⟨c, hk, rfl⟩
      | [_] => exact ⟨c, by simpa [newPacket, hch] using hk, rfl⟩
      | [_, _] => exact ⟨c, by simpa [newPacket, hch] using hk, rfl⟩
      | cmd :: id :: status :: rest =>
        have hnp : newPacket st chan (cmd :: id :: status :: rest) = onSettings st cmd.toNat id.toNat status.toNat := by
          simp [newPacket, hch]
        rw [hnp]
        obtain ⟨c', h1, h2⟩ := onSettings_flags st cmd.toNat id.toNat status.toNat k c hk
        exact ⟨c', h1, by simp only [ackStep, hch, true_and]; exact h2⟩
    · have hrx : (Op.rx chan data).isSettingsRx = false := by simpa [Op.isSettingsRx] using hch
      obtain ⟨c', h1, h2⟩ := hkeep _ hs hrx (by intros; simp) (by intros; simp)
      refine ⟨c', h1, ?_⟩
      rw [h2]
      unfold ackStep
      split
      · rename_i heq
        cases heq
        simp [hch]
      · rfl
  | newConf ms => exact hkeep _ hs rfl (by intros; simp) (by intros; simp)
  | addConfig h => exact hkeep _ hs rfl (by intros; simp) (by intros; simp)
  | start h => exact hkeep _ hs rfl (by intros; simp) (by intros; simp)
  | stop h => exact hkeep _ hs rfl (by intros; simp) (by intros; simp)
  | delete h => exact hkeep _ hs rfl (by intros; simp) (by intros; simp)
  | reset => exact hkeep _ hs rfl (by intros; simp) (by intros; simp)
  | refresh v => exact hkeep _ hs rfl (by intros; simp) (by intros; simp)
  | setToc t => exact hkeep _ hs rfl (by intros; simp) (by intros; simp)
  | linkUp => exact hkeep _ hs rfl (by intros; simp) (by intros; simp)
  | linkLost => exact hkeep _ hs rfl (by intros; simp) (by intros; simp)
  | newSl l => exact hkeep _ hs rfl (by intros; simp) (by intros; simp)
  | slConnect s => exact hkeep _ hs rfl (by intros; simp) (by intros; simp)
  | slDisconnect s => exact hkeep _ hs rfl (by intros; simp) (by intros; simp)
  | slNext s => exact hkeep _ hs rfl (by intros; simp) (by intros; simp)

/-- the flags the acknowledgement history prescribes for configuration `k`: only acknowledgements change
them (by `Spec.ackEffect`); the model's state is used only to know which block an acknowledgement names -/
def ackFlags (k : Nat) : St → Bool × Bool → List Op → Bool × Bool
  | _, f, [] => f
  | st, f, op :: ops =>
    match step st op with
    | none => ackFlags k st f ops
    | some r => ackFlags k r.st (ackStep k st op r.err f) ops

theorem run_flags (k : Nat) : ∀ (ops : List Op) (st : St) (c : Conf), st.conf? k = some c →
    ∃ c', (run st ops).1.conf? k = some c' ∧ flagsOf c' = ackFlags k st (flagsOf c) ops := by
  intro ops
  induction ops with
  | nil => intro st c hk; exact ⟨c, hk, rfl⟩
  | cons op ops ih =>
    intro st c hk
    simp only [run, ackFlags]
    cases hs : step st op with
    | none => exact ih st c hk
    | some r =>
      obtain ⟨c1, h1, h2⟩ := step_flags st op r hs k c hk
      obtain ⟨c2, h3, h4⟩ := ih r.st c1 h1
      exact ⟨c2, h3, by rw [h4, h2]⟩

/-- a create acknowledgement (ok / already exists) for a block that is not yet added: START is sent with the
block's period, then `added` is set (callback) and `pending` cleared -/
theorem create_ack_starts (st : St) (cmd id status h : Nat) (ch : Conf) (p : Nat)
    (hfind : findBlock st id st.blocks = some h) (hc : st.conf? h = some ch)
    (hcmd : cmd = Gen.C05.cmdCreate ∨ cmd = Gen.C05.cmdCreateV2) (hst : status = 0 ∨ status = Gen.C05.errnoEEXIST)
    (hna : ch.added = false) (hid : id < 256) (hper : ch.period = (p : Int)) (hp : p < 256) :
    onSettings st cmd id status =
      { st := st.setConf h { ch with added := true, pending := 0 },
        outs := [.tx [UInt8.ofNat Gen.C05.cmdStart, UInt8.ofNat id, UInt8.ofNat p] [Gen.C05.cmdStart, id], .addedCb h true],
        err := none } := by
  have hc1 : ∀ c1 : Conf, (st.setConf h c1).conf? h = some c1 := fun c1 => conf_setConf_self hc
  have h1 : (cmd == Gen.C05.cmdCreate || cmd == Gen.C05.cmdCreateV2) = true := by
    rcases hcmd with e | e <;> simp [e]
  have h2 : (status == 0 || status == Gen.C05.errnoEEXIST) = true := by
    rcases hst with e | e <;> simp [e]
  have hb : bytesOf [(Gen.C05.cmdStart : Int), (id : Int), ch.period] =
      .ok [UInt8.ofNat Gen.C05.cmdStart, UInt8.ofNat id, UInt8.ofNat p] := by
    rw [hper]
    show bytesOf [Int.ofNat Gen.C05.cmdStart, Int.ofNat id, Int.ofNat p] = _
    simp [bytesOf, hid, hp, Gen.C05.cmdStart]
  simp only [onSettings, hfind, hc, h1, h2, hna, hb, setAdded, hc1, if_true, Bool.not_false]
  simp [St.setConf, List.set_set]

end CfVerif.C05

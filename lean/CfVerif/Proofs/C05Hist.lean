/-
Proofs/C05Hist: frame lemmas over all operations of the model (which operation can change which part of a
LogConfig), used for the history-level theorems `flags_follow_acks` and `readd_stable`.  Core Lean only.
-/
import CfVerif.Proofs.C05
namespace CfVerif.C05
open CfVerif Spec

/-- the projection `f` of configuration `k` is the same in `st'` as in `st`, provided it satisfied `p` -/
def KeepsAt {α : Type} (p : α → Prop) (f : Conf → α) (k : Nat) (st st' : St) : Prop :=
  ∀ c, st.conf? k = some c → p (f c) → ∃ c', st'.conf? k = some c' ∧ f c' = f c

/-- `f` does not look at the fields that the bookkeeping operations write -/
structure Insens {α : Type} (f : Conf → α) : Prop where
  pending : ∀ (c : Conf) x, f { c with pending := x } = f c
  errNo : ∀ (c : Conf) x, f { c with errNo := x } = f c
  valid : ∀ (c : Conf) x, f { c with valid := x } = f c
  accept : ∀ (c : Conf) a b d, f { c with valid := true, hasCf := a, id := b, useV2 := d } = f c

/-- `f` does not look at the registered data callbacks -/
def CbInsens {α : Type} (f : Conf → α) : Prop := ∀ (c : Conf) x, f { c with dataCbs := x } = f c

/-- … nor at the acknowledged flags -/
structure InsensFlags {α : Type} (f : Conf → α) : Prop where
  added : ∀ (c : Conf) x, f { c with added := x } = f c
  started : ∀ (c : Conf) x, f { c with started := x } = f c

variable {α : Type} {p : α → Prop} {f : Conf → α} {k : Nat}

theorem conf_setConf_ne {st : St} {h k : Nat} {c' : Conf} (hne : k ≠ h) : (st.setConf h c').conf? k = st.conf? k := by
  simp [St.conf?, St.setConf, List.getElem?_set_ne (Ne.symm hne)]

theorem keepsAt_refl (st : St) : KeepsAt p f k st st := fun c hc _ => ⟨c, hc, rfl⟩

theorem keepsAt_trans {st1 st2 st3 : St} (h12 : KeepsAt p f k st1 st2) (h23 : KeepsAt p f k st2 st3) :
    KeepsAt p f k st1 st3 := by
  intro c hc hp
  obtain ⟨c2, hc2, hf2⟩ := h12 c hc hp
  obtain ⟨c3, hc3, hf3⟩ := h23 c2 hc2 (by rw [hf2]; exact hp)
  exact ⟨c3, hc3, by rw [hf3, hf2]⟩

theorem keepsAt_of_confs {st st' : St} (h : st'.confs = st.confs) : KeepsAt p f k st st' := by
  intro c hc _
  exact ⟨c, by simpa [St.conf?, h] using hc, rfl⟩

theorem keepsAt_setConf {st : St} {h : Nat} {c0 c' : Conf} (hc : st.conf? h = some c0) (hf : p (f c0) → f c' = f c0) :
    KeepsAt p f k st (st.setConf h c') := by
  intro c hk hp
  by_cases hkh : k = h
  · subst hkh
    rw [hc] at hk; cases hk
    exact ⟨c', conf_setConf_self hc, hf hp⟩
  · exact ⟨c, by rw [conf_setConf_ne hkh]; exact hk, rfl⟩

/-! ### primitives -/

theorem create_keeps (hI : Insens f) (st : St) (h : Nat) (c : Conf) (hc : st.conf? h = some c) :
    KeepsAt p f k st (create st h c).st := by
  unfold create
  split
  split
  · split
    · exact keepsAt_refl st
    · exact keepsAt_setConf hc (fun _ => hI.pending c _)
  · exact keepsAt_refl st

theorem start_keeps (hI : Insens f) {st : St} {h : Nat} {r : Res} (hs : start st h = some r) : KeepsAt p f k st r.st := by
  unfold start at hs
  split at hs
  · cases hs
  · rename_i c hc
    split at hs
    · cases hs; exact keepsAt_refl st
    · split at hs
      · split at hs
        · cases hs; exact create_keeps hI st h c hc
        · split at hs <;> (cases hs; exact keepsAt_refl st)
      · cases hs; exact keepsAt_refl st

theorem simpleCmd_st {cmd : Nat} {st : St} {h : Nat} {r : Res} (hs : simpleCmd cmd st h = some r) : r.st = st := by
  unfold simpleCmd at hs
  split at hs
  · cases hs
  · split at hs
    · cases hs; rfl
    · split at hs
      · split at hs <;> (cases hs; rfl)
      · cases hs; rfl

theorem deliver_confs (h ts : Nat) (vals : List (Nat × Val)) : ∀ (l : List Nat) (st : St),
    (deliver h ts vals l st).1.confs = st.confs := by
  intro l
  induction l with
  | nil => intro st; rfl
  | cons s ss ih =>
    intro st
    simp only [deliver]
    split
    · exact ih st
    · simp only; rw [ih]

theorem onLogData_confs (st : St) (data : List UInt8) : (onLogData st data).st.confs = st.confs := by
  unfold onLogData
  split
  · rfl
  · split
    · dsimp only
      split
      · rfl
      · split
        · rfl
        · split
          · rfl
          · simp only; exact deliver_confs _ _ _ _ _
    · rfl
    · rfl

theorem setAdded_keeps (hF : InsensFlags f) (st : St) (h : Nat) (v : Bool) : KeepsAt p f k st (setAdded st h v).1 := by
  unfold setAdded
  split
  · exact keepsAt_refl st
  · rename_i c hc; exact keepsAt_setConf hc (fun _ => hF.added c v)

theorem setStarted_keeps (hF : InsensFlags f) (st : St) (h : Nat) (v : Bool) : KeepsAt p f k st (setStarted st h v).1 := by
  unfold setStarted
  split
  · exact keepsAt_refl st
  · rename_i c hc; exact keepsAt_setConf hc (fun _ => hF.started c v)

theorem onSettings_keeps (hI : Insens f) (hF : InsensFlags f) (st : St) (cmd id status : Nat) :
    KeepsAt p f k st (onSettings st cmd id status).st := by
  unfold onSettings
  simp only
  split
  · -- create ack
    split
    · exact keepsAt_refl st
    · rename_i h hb
      split
      · exact keepsAt_refl st
      · rename_i c hc
        split
        · split
          · split
            · exact keepsAt_refl st
            · simp only
              refine keepsAt_trans (setAdded_keeps hF st h true) ?_
              split
              · rename_i c1 hc1; exact keepsAt_setConf hc1 (fun _ => hI.pending c1 0)
              · exact keepsAt_refl _
          · exact keepsAt_refl st
        · split
          · exact keepsAt_setConf hc (fun _ => hI.errNo c status)
          · exact keepsAt_refl st
  · split
    · -- start ack
      split
      · split
        · exact keepsAt_refl st
        · exact setStarted_keeps hF st _ true
      · split
        · split
          · exact keepsAt_refl st
          · split
            · exact keepsAt_refl st
            · rename_i c hc; exact keepsAt_setConf hc (fun _ => hI.errNo c status)
        · exact keepsAt_refl st
    · split
      · -- stop ack
        split
        · split
          · exact keepsAt_refl st
          · exact setStarted_keeps hF st _ false
        · exact keepsAt_refl st
      · split
        · -- delete ack
          split
          · split
            · exact keepsAt_refl st
            · exact keepsAt_trans (setStarted_keeps hF st _ false) (setAdded_keeps hF _ _ false)
          · exact keepsAt_refl st
        · split
          · split
            · exact keepsAt_of_confs rfl
            · exact keepsAt_refl st
          · exact keepsAt_refl st

theorem newPacket_keeps (hI : Insens f) (hF : InsensFlags f) (st : St) (chan : Nat) (data : List UInt8) :
    KeepsAt p f k st (newPacket st chan data).st := by
  unfold newPacket
  split
  · exact keepsAt_refl st
  · split
    · split
      · exact onSettings_keeps hI hF st _ _ _
      · exact keepsAt_refl st
    · split
      · exact keepsAt_of_confs (onLogData_confs st _)
      · exact keepsAt_refl st

/-! ### SyncLogger operations, given what `add_config` keeps -/

/-- hypothesis: `add_config` keeps `f` at `k`, on states whose table satisfies `q` -/
def AddKeeps {α : Type} (q : Option Toc → Prop) (p : α → Prop) (f : Conf → α) (k : Nat) : Prop :=
  ∀ (st : St) (h : Nat) (r : Res), q st.toc → addConfig st h = some r → KeepsAt p f k st r.st

theorem addConfig_toc {st : St} {h : Nat} {r : Res} (hr : addConfig st h = some r) : r.st.toc = st.toc := by
  unfold addConfig addConfigWith at hr
  split at hr
  · cases hr
  · split at hr
    · cases hr; rfl
    · split at hr
      split at hr
      · cases hr; rfl
      · split at hr
        · cases hr; rfl
        · split at hr <;> (cases hr; rfl)

theorem create_toc (st : St) (h : Nat) (c : Conf) : (create st h c).st.toc = st.toc := by
  unfold create
  split
  split
  · split <;> rfl
  · rfl

theorem start_toc {st : St} {h : Nat} {r : Res} (hr : start st h = some r) : r.st.toc = st.toc := by
  unfold start at hr
  split at hr
  · cases hr
  · split at hr
    · cases hr; rfl
    · split at hr
      · split at hr
        · cases hr; exact create_toc st h _
        · split at hr <;> (cases hr; rfl)
      · cases hr; rfl

variable {q : Option Toc → Prop}

theorem slConnectLoop_keeps (hI : Insens f) (hC : CbInsens f) (hadd : AddKeeps q p f k) (s : Nat) : ∀ (hs : List Nat) (st : St) (r : Res),
    q st.toc → slConnectLoop s hs st = some r → KeepsAt p f k st r.st := by
  intro hs
  induction hs with
  | nil => intro st r _ h; simp only [slConnectLoop] at h; cases h; exact keepsAt_refl st
  | cons h hs ih =>
    intro st r hq hr
    simp only [slConnectLoop] at hr
    split at hr
    · cases hr
    · rename_i r1 h1
      have k1 := hadd st h r1 hq h1
      have t1 := addConfig_toc h1
      split at hr
      · cases hr; exact k1
      · split at hr
        · cases hr
        · rename_i c hc
          have k2 : KeepsAt p f k r1.st (r1.st.setConf h { c with dataCbs := callerAdd c.dataCbs s }) :=
            keepsAt_setConf hc (fun _ => hC c _)
          split at hr
          · cases hr
          · rename_i r2 h2
            have k3 := start_keeps (p := p) (k := k) hI h2
            split at hr
            · cases hr; exact keepsAt_trans k1 (keepsAt_trans k2 k3)
            · split at hr
              · cases hr
              · rename_i r3 h3
                cases hr
                have t2 : r2.st.toc = st.toc := by rw [start_toc h2]; exact t1
                exact keepsAt_trans k1 (keepsAt_trans k2 (keepsAt_trans k3 (ih r2.st r3 (by rw [t2]; exact hq) h3)))

theorem slConnect_keeps (hI : Insens f) (hC : CbInsens f) (hadd : AddKeeps q p f k) {st : St} {s : Nat} {r : Res}
    (hq : q st.toc) (hr : slConnect st s = some r) : KeepsAt p f k st r.st := by
  unfold slConnect at hr
  split at hr
  · cases hr
  · split at hr
    · cases hr; exact keepsAt_refl st
    · simp only at hr
      split at hr
      · cases hr
      · rename_i r1 h1
        have k0 := slConnectLoop_keeps (p := p) (k := k) hI hC hadd s _ { st with discCbs := callerAdd st.discCbs s } r1 hq h1
        have k1 : KeepsAt p f k st r1.st := keepsAt_trans (keepsAt_of_confs rfl) k0
        split at hr
        · cases hr; exact k1
        · split at hr
          · cases hr
          · cases hr; exact keepsAt_trans k1 (keepsAt_of_confs rfl)

theorem slDisconnectLoop_keeps (hI : Insens f) (hC : CbInsens f) (s : Nat) : ∀ (hs : List Nat) (st : St) (r : Res),
    slDisconnectLoop s hs st = some r → KeepsAt p f k st r.st := by
  intro hs
  induction hs with
  | nil => intro st r h; simp only [slDisconnectLoop] at h; cases h; exact keepsAt_refl st
  | cons h hs ih =>
    intro st r hr
    simp only [slDisconnectLoop] at hr
    split at hr
    · cases hr
    · rename_i r1 h1
      have e1 : r1.st = st := simpleCmd_st h1
      split at hr
      · cases hr; rw [e1]; exact keepsAt_refl st
      · split at hr
        · cases hr
        · rename_i r2 h2
          have e2 : r2.st = st := by rw [simpleCmd_st h2, e1]
          split at hr
          · cases hr; simp only; rw [e2]; exact keepsAt_refl st
          · split at hr
            · cases hr
            · rename_i c hc
              split at hr
              · split at hr
                · cases hr
                · rename_i r3 h3
                  cases hr
                  simp only
                  rw [e2] at hc h3
                  exact keepsAt_trans (keepsAt_setConf hc (fun _ => hC c _)) (ih _ _ h3)
              · cases hr; simp only; rw [e2]; exact keepsAt_refl st

theorem slDisconnect_keeps (hI : Insens f) (hC : CbInsens f) {st : St} {s : Nat} {r : Res}
    (hr : slDisconnect st s = some r) : KeepsAt p f k st r.st := by
  unfold slDisconnect at hr
  split at hr
  · cases hr
  · split at hr
    · cases hr; exact keepsAt_refl st
    · split at hr
      · cases hr
      · rename_i r1 h1
        have k1 := slDisconnectLoop_keeps (p := p) (k := k) hI hC s _ _ _ h1
        split at hr
        · cases hr; exact k1
        · split at hr
          · split at hr
            · cases hr
            · cases hr; exact keepsAt_trans k1 (keepsAt_of_confs rfl)
          · cases hr; exact k1

theorem slDisconnected_keeps (hI : Insens f) (hC : CbInsens f) {st : St} {s : Nat} {r : Res}
    (hr : slDisconnected st s = some r) : KeepsAt p f k st r.st := by
  unfold slDisconnected at hr
  split at hr
  · cases hr
  · rename_i r1 h1
    have k1 := slDisconnect_keeps (p := p) (k := k) hI hC h1
    split at hr
    · cases hr; exact k1
    · split at hr
      · cases hr
      · cases hr; exact keepsAt_trans k1 (keepsAt_of_confs rfl)

theorem callDisconnected_keeps (hI : Insens f) (hC : CbInsens f) : ∀ (ss : List Nat) (st : St) (r : Res),
    callDisconnected ss st = some r → KeepsAt p f k st r.st := by
  intro ss
  induction ss with
  | nil => intro st r h; simp only [callDisconnected] at h; cases h; exact keepsAt_refl st
  | cons s ss ih =>
    intro st r hr
    simp only [callDisconnected] at hr
    split at hr
    · cases hr
    · rename_i r1 h1
      have k1 := slDisconnected_keeps (p := p) (k := k) hI hC h1
      split at hr
      · cases hr; exact k1
      · split at hr
        · cases hr
        · rename_i r2 h2
          cases hr
          exact keepsAt_trans k1 (ih r1.st r2 h2)

theorem slNext_keeps {st : St} {s : Nat} {r : Res} (hr : slNext st s = some r) : KeepsAt p f k st r.st := by
  unfold slNext at hr
  split at hr
  · cases hr
  · split at hr
    · cases hr; exact keepsAt_refl st
    · split at hr
      · cases hr; exact keepsAt_refl st
      · simp only at hr
        split at hr <;> (cases hr; exact keepsAt_of_confs rfl)

theorem newConf_keeps (st : St) (ms : Int) : KeepsAt p f k st (newConf st ms) := by
  intro c hc _
  refine ⟨c, ?_, rfl⟩
  unfold St.conf? at hc ⊢
  have hlt : k < st.confs.length := by
    rcases Nat.lt_or_ge k st.confs.length with hl | hl
    · exact hl
    · rw [List.getElem?_eq_none hl] at hc; cases hc
  simp only [newConf]
  rw [List.getElem?_append_left hlt]; exact hc

/-- does the operation edit the variable list of configuration `k` directly (add_variable / add_memory)? -/
def Op.editsVars (k : Nat) : Op → Bool
  | .addVar h _ _ => h == k
  | .addMem h _ _ _ _ => h == k
  | _ => false

/-- can the operation register / unregister SyncLogger data callbacks? -/
def Op.touchesSubs : Op → Bool
  | .slConnect _ => true
  | .slDisconnect _ => true
  | .linkLost => true
  | _ => false

/-- is the operation a packet on the settings channel? -/
def Op.isSettingsRx : Op → Bool
  | .rx chan _ => chan == Gen.C05.chanSettings
  | _ => false

/-- Every operation except `add_variable`/`add_memory` on `k`, a settings packet (unless `f` ignores the
flags) and `add_config` (handled by `hadd`) keeps `f` at `k`. -/
theorem step_keeps (hI : Insens f) (hadd : AddKeeps q p f k) (st : St) (op : Op) (r : Res) (hq : q st.toc)
    (hs : step st op = some r) (hedit : op.editsVars k = false)
    (hrx : InsensFlags f ∨ op.isSettingsRx = false) (hcb : CbInsens f ∨ op.touchesSubs = false) : KeepsAt p f k st r.st := by
  have hC : ∀ {o : Op}, (CbInsens f ∨ o.touchesSubs = false) → o.touchesSubs = true → CbInsens f := by
    intro o h ht
    rcases h with h | h
    · exact h
    · rw [ht] at h; cases h
  cases op with
  | newConf ms => simp only [step] at hs; cases hs; exact newConf_keeps st ms
  | addVar h n t =>
    simp only [step] at hs
    simp only [Op.editsVars, beq_eq_false_iff_ne, ne_eq] at hedit
    split at hs
    · cases hs
    · split at hs
      · cases hs
        intro c hc _
        exact ⟨c, by rw [conf_setConf_ne (fun e => hedit e.symm)]; exact hc, rfl⟩
      · cases hs; exact keepsAt_refl st
  | addMem h n t s a =>
    simp only [step] at hs
    simp only [Op.editsVars, beq_eq_false_iff_ne, ne_eq] at hedit
    split at hs
    · cases hs
    · split at hs
      · cases hs
        intro c hc _
        exact ⟨c, by rw [conf_setConf_ne (fun e => hedit e.symm)]; exact hc, rfl⟩
      · cases hs; exact keepsAt_refl st
  | addConfig h => exact hadd st h r hq hs
  | start h => exact start_keeps hI hs
  | stop h => rw [simpleCmd_st hs]; exact keepsAt_refl st
  | delete h => rw [simpleCmd_st hs]; exact keepsAt_refl st
  | rx chan data =>
    simp only [step] at hs; cases hs
    rcases hrx with hF' | hrx
    · exact newPacket_keeps hI hF' st chan data
    · simp only [Op.isSettingsRx] at hrx
      unfold newPacket
      split
      · exact keepsAt_refl st
      · rw [if_neg (by simpa using hrx)]
        split
        · exact keepsAt_of_confs (onLogData_confs st _)
        · exact keepsAt_refl st
  | reset => simp only [step] at hs; cases hs; exact keepsAt_of_confs rfl
  | refresh ver => simp only [step] at hs; cases hs; exact keepsAt_of_confs rfl
  | setToc t =>
    simp only [step] at hs
    split at hs
    · cases hs; exact keepsAt_of_confs rfl
    · cases hs
  | linkUp => simp only [step] at hs; cases hs; exact keepsAt_of_confs rfl
  | linkLost =>
    simp only [step, linkLost] at hs
    have k0 := callDisconnected_keeps (p := p) (k := k) hI (hC hcb rfl) _ _ r hs
    exact keepsAt_trans (keepsAt_of_confs rfl) k0
  | newSl confs =>
    simp only [step] at hs
    split at hs
    · cases hs; exact keepsAt_of_confs rfl
    · cases hs
  | slConnect s => exact slConnect_keeps hI (hC hcb rfl) hadd hq hs
  | slDisconnect s => exact slDisconnect_keeps hI (hC hcb rfl) hs
  | slNext s => exact slNext_keeps hs

/-! ### what `add_config` keeps -/

theorem addConfig_keeps (hI : Insens f)
    (hres : ∀ (toc : Option Toc) (c : Conf), q toc → p (f c) → f (resolveDefaults toc c.defaults c).1 = f c) :
    AddKeeps q p f k := by
  intro st h r hq hr
  unfold addConfig addConfigWith at hr
  split at hr
  · cases hr
  · rename_i c0 hc
    split at hr
    · cases hr; exact keepsAt_refl st
    · have hres0 := hres st.toc c0 hq
      generalize resolveDefaults st.toc c0.defaults c0 = rr at hr hres0
      obtain ⟨c1, e1⟩ := rr
      simp only at hr hres0
      split at hr
      · cases hr; exact keepsAt_setConf hc hres0
      · split at hr
        · rename_i e clr _
          cases hr
          refine keepsAt_setConf hc (fun hp => ?_)
          cases clr
          · simpa using hres0 hp
          · simp only [if_true]; rw [hI.valid]; exact hres0 hp
        · split at hr
          · cases hr
            exact keepsAt_trans (keepsAt_setConf hc (fun hp => by rw [hI.accept]; exact hres0 hp)) (keepsAt_of_confs rfl)
          · cases hr
            exact keepsAt_setConf hc (fun hp => by rw [hI.valid]; exact hres0 hp)

/-- the acknowledged flags of a configuration -/
def flagsOf (c : Conf) : Bool × Bool := (c.added, c.started)
/-- the variable list and the names still waiting for their type -/
def varsOf (c : Conf) : List LVar × List Nat := (c.variables, c.defaults)

theorem insens_flags : Insens flagsOf := ⟨fun _ _ => rfl, fun _ _ => rfl, fun _ _ => rfl, fun _ _ _ _ => rfl⟩
theorem insens_vars : Insens varsOf := ⟨fun _ _ => rfl, fun _ _ => rfl, fun _ _ => rfl, fun _ _ _ _ => rfl⟩
theorem insensFlags_vars : InsensFlags varsOf := ⟨fun _ _ => rfl, fun _ _ => rfl⟩

theorem addVariable_flags {c c' : Conf} {n : Nat} {t : String} (h : c.addVariable n t = .ok c') : flagsOf c' = flagsOf c := by
  unfold Conf.addVariable at h
  split at h
  · split at h
    · cases h; rfl
    · cases h
  · cases h; rfl

theorem resolveDefaults_flags (toc : Option Toc) : ∀ (ds : List Nat) (c : Conf),
    flagsOf (resolveDefaults toc ds c).1 = flagsOf c := by
  intro ds
  induction ds with
  | nil => intro c; rfl
  | cons n ds ih =>
    intro c
    simp only [resolveDefaults]
    split
    · rfl
    · rfl
    · split
      · rfl
      · rename_i c' hc'
        rw [ih]
        exact (addVariable_flags hc' : flagsOf c' = flagsOf c)

theorem addConfig_keeps_flags (k : Nat) : AddKeeps (fun _ => True) (fun _ => True) flagsOf k :=
  addConfig_keeps insens_flags (fun toc c _ _ => resolveDefaults_flags toc c.defaults c)

theorem addConfig_keeps_vars (k : Nat) : AddKeeps (fun _ => True) (fun x => x.2 = []) varsOf k :=
  addConfig_keeps insens_vars (fun toc c _ hp => by
    have hd : c.defaults = [] := hp
    rw [hd]; rfl)

end CfVerif.C05

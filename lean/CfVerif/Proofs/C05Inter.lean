/-
Proofs/C05Inter: connect()/disconnect() executed statement by statement, interleaved with packet deliveries and
other operations (helper lemmas for `no_sample_lost` / `interleaved_fifo`).  Core Lean only.
-/
import CfVerif.Proofs.C05Hist
import CfVerif.Proofs.C05Sync
namespace CfVerif.C05
open CfVerif Spec

/-- how many times SyncLogger `s` is registered on `data_received_cb` of configuration `h` -/
def subCount (st : St) (s h : Nat) : Nat :=
  match st.conf? h with
  | some c => c.dataCbs.count s
  | none => 0

/-- symbolic execution of the rest of a call: every `start h` finds the logger subscribed to `h`
(either already, or by an earlier `sub h` of the same program that no later `unsub h` undid) -/
def progOk (isSub : Nat → Bool) : List Stmt → Bool
  | [] => true
  | .sub h :: r => progOk (fun x => x == h || isSub x) r
  | .unsub h :: r => progOk (fun x => x != h && isSub x) r
  | .start h :: r => isSub h && progOk isSub r
  | _ :: r => progOk isSub r

def Stmt.handle? : Stmt → Option Nat
  | .addCfg h | .sub h | .start h | .stop h | .del h | .unsub h => some h
  | _ => none

theorem progOk_congr {f g : Nat → Bool} (h : ∀ x, f x = g x) (p : List Stmt) : progOk f p = progOk g p := by
  have : f = g := funext h
  rw [this]

/-! ### the programs -/

/-- with the subscription before the start in the loop body, every suffix-closed symbolic run succeeds -/
theorem progOk_connect_block (order : List String)
    (ho : order = ["log.add_config", "config.data_received_cb.add_callback", "config.start"]) :
    ∀ (confs : List Nat) (isSub : Nat → Bool) (tail : List Stmt), (∀ f, progOk f tail = true) →
      progOk isSub (confs.flatMap (loopBlock order) ++ tail) = true := by
  subst ho
  intro confs
  induction confs with
  | nil => intro isSub tail ht; simpa using ht isSub
  | cons h hs ih =>
    intro isSub tail ht
    have hb : loopBlock ["log.add_config", "config.data_received_cb.add_callback", "config.start"] h =
        [.addCfg h, .sub h, .start h] := by
      simp [loopBlock, stmtOfName]
    simp only [List.flatMap_cons, hb, List.cons_append, List.nil_append, progOk, beq_self_eq_true, Bool.true_or, Bool.true_and]
    exact ih _ tail ht

theorem progOk_no_start : ∀ (p : List Stmt) (isSub : Nat → Bool), (∀ h, Stmt.start h ∉ p) → progOk isSub p = true := by
  intro p
  induction p with
  | nil => intro _ _; rfl
  | cons a r ih =>
    intro isSub hn
    have hr : ∀ h, Stmt.start h ∉ r := fun h hm => hn h (by simp [hm])
    cases a with
    | start h => exact absurd (List.mem_cons_self) (hn h)
    | _ => simp only [progOk]; exact ih _ hr

/-! ### subscription counts under statements and operations -/

theorem count_callerAdd_self (l : List Nat) (s : Nat) (hle : l.count s ≤ 1) : (callerAdd l s).count s = 1 := by
  unfold callerAdd
  split
  · rename_i hc
    have : 0 < l.count s := List.count_pos_iff.mpr (by simpa using hc)
    omega
  · rename_i hc
    have : l.count s = 0 := List.count_eq_zero.mpr (by simpa using hc)
    simp [List.count_append, this]

theorem count_callerAdd_ne (l : List Nat) (s s' : Nat) (hne : s ≠ s') : (callerAdd l s').count s = l.count s := by
  unfold callerAdd
  split
  · rfl
  · have : ¬ (s' = s) := fun e => hne e.symm
    simp [List.count_append, this]

theorem count_erase_ne (l : List Nat) (s s' : Nat) (hne : s ≠ s') : (l.erase s').count s = l.count s := by
  rw [List.count_erase]
  have : ¬ (s' = s) := fun e => hne e.symm
  simp [this]

theorem count_erase_self (l : List Nat) (s : Nat) : (l.erase s).count s = l.count s - 1 := by
  rw [List.count_erase]; simp

theorem subCount_setConf_ne {st : St} {s h k : Nat} {c : Conf} (hne : k ≠ h) :
    subCount (st.setConf h c) s k = subCount st s k := by
  unfold subCount; rw [conf_setConf_ne hne]

theorem subCount_setConf_self {st : St} {s h : Nat} {c0 c : Conf} (hc : st.conf? h = some c0) :
    subCount (st.setConf h c) s h = c.dataCbs.count s := by
  unfold subCount; rw [conf_setConf_self hc]

/-- `data_received_cb` lists are untouched by `f := dataCbs`-insensitive operations -/
def cbsOf (c : Conf) : List Nat := c.dataCbs
theorem insens_cbs : Insens cbsOf := ⟨fun _ _ => rfl, fun _ _ => rfl, fun _ _ => rfl, fun _ _ _ _ => rfl⟩
theorem insensFlags_cbs : InsensFlags cbsOf := ⟨fun _ _ => rfl, fun _ _ => rfl⟩

theorem addVariable_cbs {c c' : Conf} {n : Nat} {t : String} (h : c.addVariable n t = .ok c') : cbsOf c' = cbsOf c := by
  unfold Conf.addVariable at h
  split at h
  · split at h
    · cases h; rfl
    · cases h
  · cases h; rfl

theorem resolveDefaults_cbs (toc : Option Toc) : ∀ (ds : List Nat) (c : Conf), cbsOf (resolveDefaults toc ds c).1 = cbsOf c := by
  intro ds
  induction ds with
  | nil => intro c; rfl
  | cons n ds ih =>
    intro c
    simp only [resolveDefaults]
    split
    · rfl
    · rfl
    · split
      · rfl
      · rename_i c' hc'
        rw [ih]
        exact (addVariable_cbs hc' : cbsOf c' = cbsOf c)

theorem addConfig_keeps_cbs (k : Nat) : AddKeeps (fun _ => True) (fun _ => True) cbsOf k :=
  addConfig_keeps insens_cbs (fun toc c _ _ => resolveDefaults_cbs toc c.defaults c)

/-- operations allowed between the statements of a call in the theorems: everything except the atomic
SyncLogger connect/disconnect, a link loss, and add_variable/add_memory -/
def Op.envOk : Op → Bool
  | .slConnect _ | .slDisconnect _ | .linkLost | .addVar _ _ _ | .addMem _ _ _ _ _ => false
  | _ => true

theorem env_keeps_cbs (st : St) (o : Op) (r : Res) (hs : step st o = some r) (he : o.envOk = true) (k : Nat) (c : Conf)
    (hk : st.conf? k = some c) : ∃ c', r.st.conf? k = some c' ∧ c'.dataCbs = c.dataCbs := by
  have hed : o.editsVars k = false := by cases o <;> first | rfl | (simp [Op.envOk] at he)
  have hts : o.touchesSubs = false := by cases o <;> first | rfl | (simp [Op.envOk] at he)
  exact step_keeps insens_cbs (addConfig_keeps_cbs k) st o r trivial hs hed (Or.inl insensFlags_cbs) (Or.inr hts) c hk trivial

theorem keeps_subCount {st st' : St} {s k : Nat} (hk : ∃ c, st.conf? k = some c)
    (h : ∀ c, st.conf? k = some c → ∃ c', st'.conf? k = some c' ∧ c'.dataCbs = c.dataCbs) :
    subCount st' s k = subCount st s k ∧ ∃ c', st'.conf? k = some c' := by
  obtain ⟨c, hc⟩ := hk
  obtain ⟨c', hc', e⟩ := h c hc
  exact ⟨by simp [subCount, hc, hc', e], c', hc'⟩

end CfVerif.C05

namespace CfVerif.C05
open CfVerif Spec

theorem progOk_congr_on : ∀ (p : List Stmt) (f g : Nat → Bool),
    (∀ stmt ∈ p, ∀ h, stmt.handle? = some h → f h = g h) → progOk f p = progOk g p := by
  intro p
  induction p with
  | nil => intro _ _ _; rfl
  | cons a r ih =>
    intro f g hfg
    have hr : ∀ stmt ∈ r, ∀ h, stmt.handle? = some h → f h = g h := fun st hst h hh => hfg st (by simp [hst]) h hh
    cases a with
    | sub h =>
      simp only [progOk]
      exact ih _ _ (fun st hst k hk => by show (k == h || f k) = (k == h || g k); rw [hr st hst k hk])
    | unsub h =>
      simp only [progOk]
      exact ih _ _ (fun st hst k hk => by show (k != h && f k) = (k != h && g k); rw [hr st hst k hk])
    | start h =>
      simp only [progOk]
      rw [hfg (.start h) (by simp) h rfl, ih f g hr]
    | discAdd => simp only [progOk]; exact ih f g hr
    | addCfg h => simp only [progOk]; exact ih f g hr
    | setConn => simp only [progOk]; exact ih f g hr
    | stop h => simp only [progOk]; exact ih f g hr
    | del h => simp only [progOk]; exact ih f g hr
    | discRemove => simp only [progOk]; exact ih f g hr
    | setDisconn => simp only [progOk]; exact ih f g hr

theorem find_filter_ne (l : List (Nat × List Stmt)) (s s' : Nat) (h : s ≠ s') :
    (l.filter (fun e => e.1 != s')).find? (fun e => e.1 == s) = l.find? (fun e => e.1 == s) := by
  induction l with
  | nil => rfl
  | cons e es ih =>
    by_cases hes : e.1 = s
    · have h1 : (e.1 != s') = true := by simpa [hes] using h
      have h2 : (e.1 == s) = true := by simpa using hes
      simp only [List.filter_cons, h1, if_true, List.find?_cons, h2]
    · have h2 : (e.1 == s) = false := by simpa using hes
      by_cases he : (e.1 != s') = true
      · simp only [List.filter_cons, he, if_true, List.find?_cons, h2, ih]
      · simp only [List.filter_cons, he, List.find?_cons, h2]; simpa using ih

theorem prog_setProg (i : ISt) (s s' : Nat) (p : List Stmt) :
    (i.setProg s' p).prog s = if s = s' then p else i.prog s := by
  unfold ISt.setProg ISt.prog
  by_cases h : s = s'
  · subst h; simp
  · have h' : (s' == s) = false := by simpa using fun e => h e.symm
    simp only [List.find?_cons, h', h, if_false, find_filter_ne _ s s' h]

@[simp] theorem setProg_st (i : ISt) (s : Nat) (p : List Stmt) : (i.setProg s p).st = i.st := rfl
@[simp] theorem setProg_started (i : ISt) (s : Nat) (p : List Stmt) : (i.setProg s p).started = i.started := rfl

/-- invariant of the interleaving model for SyncLogger `s` (configurations `< N` are the ones that exist) -/
structure Inv (N s : Nat) (i : ISt) : Prop where
  ex : ∀ h, h < N → ∃ c, i.st.conf? h = some c
  le : ∀ h, h < N → subCount i.st s h ≤ 1
  started : ∀ h, (s, h) ∈ i.started → h < N ∧ subCount i.st s h = 1
  prog : progOk (fun h => subCount i.st s h == 1) (i.prog s) = true
  hs : ∀ stmt ∈ i.prog s, ∀ h, stmt.handle? = some h → h < N

/-- the Log state changed without touching the subscriptions of `s`; program and started set of `s` as before
(or the program was cut to a suffix that drops no subscription-relevant statement) -/
theorem inv_same {N s : Nat} {i i' : ISt} (hI : Inv N s i)
    (hst : ∀ k, k < N → subCount i'.st s k = subCount i.st s k ∧ ∃ c, i'.st.conf? k = some c)
    (hstarted : ∀ h, (s, h) ∈ i'.started → (s, h) ∈ i.started)
    (hprog : i'.prog s = i.prog s ∨ i'.prog s = [] ∨
      ∃ x, i.prog s = x :: i'.prog s ∧ (∀ h, x ≠ .sub h ∧ x ≠ .unsub h ∧ x ≠ .start h)) : Inv N s i' := by
  have hsub : ∀ stmt ∈ i'.prog s, stmt ∈ i.prog s := by
    intro stmt hm
    rcases hprog with h | h | ⟨x, h, _⟩
    · rw [← h]; exact hm
    · rw [h] at hm; cases hm
    · rw [h]; exact List.mem_cons_of_mem _ hm
  refine ⟨fun h hh => (hst h hh).2, fun h hh => by rw [(hst h hh).1]; exact hI.le h hh,
    fun h hm => ?_, ?_, fun stmt hm => hI.hs stmt (hsub stmt hm)⟩
  · obtain ⟨a, b⟩ := hI.started h (hstarted h hm)
    exact ⟨a, by rw [(hst h a).1]; exact b⟩
  · have hcongr : progOk (fun h => subCount i'.st s h == 1) (i'.prog s) =
        progOk (fun h => subCount i.st s h == 1) (i'.prog s) :=
      progOk_congr_on _ _ _ (fun stmt hm h hh => by
        show (subCount i'.st s h == 1) = (subCount i.st s h == 1)
        rw [(hst h (hI.hs stmt (hsub stmt hm) h hh)).1])
    rw [hcongr]
    rcases hprog with h | h | ⟨x, h, hx⟩
    · rw [h]; exact hI.prog
    · rw [h]; rfl
    · have hp := hI.prog
      rw [h] at hp
      cases x with
      | sub k => exact absurd rfl (hx k).1
      | unsub k => exact absurd rfl (hx k).2.1
      | start k => exact absurd rfl (hx k).2.2
      | _ => simpa [progOk] using hp

end CfVerif.C05

namespace CfVerif.C05
open CfVerif Spec

/-- the registered data callbacks of every configuration after one statement of logger `s'` -/
def cbsAfter (s' : Nat) (stmt : Stmt) (k : Nat) (l : List Nat) : List Nat :=
  match stmt with
  | .sub h => if k = h then callerAdd l s' else l
  | .unsub h => if k = h ∧ l.contains s' = true then l.erase s' else l
  | _ => l

theorem exec_cbs (st : St) (s' : Nat) (stmt : Stmt) (r : Res) (he : execStmt st s' stmt = some r) (k : Nat) (c : Conf)
    (hk : st.conf? k = some c) : ∃ c', r.st.conf? k = some c' ∧ c'.dataCbs = cbsAfter s' stmt k c.dataCbs := by
  have same : ∀ {st' : St}, st'.confs = st.confs → ∃ c', st'.conf? k = some c' ∧ c'.dataCbs = c.dataCbs :=
    fun h => ⟨c, by simpa [St.conf?, h] using hk, rfl⟩
  cases stmt with
  | discAdd => simp only [execStmt] at he; cases he; exact same rfl
  | addCfg h =>
    obtain ⟨c', h1, h2⟩ := addConfig_keeps_cbs k st h r trivial he c hk trivial
    exact ⟨c', h1, h2⟩
  | sub h =>
    simp only [execStmt] at he
    split at he
    · cases he
    · rename_i c0 hc0
      cases he
      by_cases hkh : k = h
      · subst hkh
        rw [hc0] at hk; cases hk
        exact ⟨_, conf_setConf_self hc0, by simp [cbsAfter]⟩
      · exact ⟨c, by rw [conf_setConf_ne hkh]; exact hk, by simp [cbsAfter, hkh]⟩
  | start h =>
    obtain ⟨c', h1, h2⟩ := start_keeps (p := fun _ => True) (k := k) insens_cbs he c hk trivial
    exact ⟨c', h1, h2⟩
  | setConn =>
    simp only [execStmt] at he
    split at he
    · cases he
    · cases he; exact same rfl
  | stop h => rw [simpleCmd_st he]; exact ⟨c, hk, rfl⟩
  | del h => rw [simpleCmd_st he]; exact ⟨c, hk, rfl⟩
  | unsub h =>
    simp only [execStmt] at he
    split at he
    · cases he
    · rename_i c0 hc0
      split at he
      · rename_i hcont
        cases he
        by_cases hkh : k = h
        · subst hkh
          rw [hc0] at hk; cases hk
          exact ⟨_, conf_setConf_self hc0, by simp [cbsAfter, hcont]⟩
        · exact ⟨c, by rw [conf_setConf_ne hkh]; exact hk, by simp [cbsAfter, hkh]⟩
      · rename_i hcont
        cases he
        refine ⟨c, hk, ?_⟩
        have : ¬ (k = h ∧ c.dataCbs.contains s' = true) := by
          rintro ⟨e, hc'⟩
          subst e
          rw [hc0] at hk; cases hk
          exact hcont hc'
        simp only [cbsAfter, this, if_false]
  | discRemove =>
    simp only [execStmt] at he
    split at he <;> (cases he; exact same rfl)
  | setDisconn =>
    simp only [execStmt] at he
    split at he
    · cases he
    · cases he; exact same rfl

/-- a statement of another logger never changes how often `s` is registered -/
theorem count_cbsAfter_ne (s s' : Nat) (hne : s ≠ s') (stmt : Stmt) (k : Nat) (l : List Nat) :
    (cbsAfter s' stmt k l).count s = l.count s := by
  cases stmt <;> simp only [cbsAfter]
  · split
    · exact count_callerAdd_ne l s s' hne
    · rfl
  · split
    · exact count_erase_ne l s s' hne
    · rfl

theorem subCount_of_cbs {st st' : St} {s k : Nat} {c : Conf} {l : List Nat} (hk : st.conf? k = some c)
    (h : ∃ c', st'.conf? k = some c' ∧ c'.dataCbs = l) : subCount st' s k = l.count s := by
  obtain ⟨c', h1, h2⟩ := h
  simp [subCount, h1, h2]

/-- one step of the interleaving model preserves the invariant, for every step kind: statements of `s` itself,
statements and calls of other loggers, and every allowed operation of the environment -/
theorem istep_inv (N s : Nat) (i i' : ISt) (a : IOp) (outs : List Out) (e : Option PyErr) (hI : Inv N s i)
    (hstep : istep i a = some (i', outs, e))
    (hallow : match a with
      | .op o => o.envOk = true
      | .callConnect s' => s' = s → ∀ sl, i.st.sls[s]? = some sl → (∀ h ∈ sl.confs, h < N) ∧
          Gen.C05.slConnectLoopOrder = ["log.add_config", "config.data_received_cb.add_callback", "config.start"]
      | .callDisconnect s' => s' = s → ∀ sl, i.st.sls[s]? = some sl → (∀ h ∈ sl.confs, h < N) ∧
          Gen.C05.slDisconnectLoopOrder = ["config.stop", "config.delete", "config.data_received_cb.remove_callback"]
      | .run _ => True) : Inv N s i' := by
  cases a with
  | op o =>
    simp only [istep] at hstep
    split at hstep
    · cases hstep
    · rename_i r hr
      cases hstep
      refine inv_same hI (fun k hk => ?_) (fun h hm => hm) (Or.inl rfl)
      exact keeps_subCount (hI.ex k hk) (fun c hc => env_keeps_cbs i.st o r hr hallow k c hc)
  | callConnect s' =>
    simp only [istep] at hstep
    split at hstep
    · cases hstep
    · rename_i sl hsl
      split at hstep
      · cases hstep
      · rename_i hempty
        split at hstep
        · cases hstep; exact hI
        · cases hstep
          by_cases hs : s = s'
          · subst hs
            obtain ⟨hlt, hord⟩ := hallow rfl sl hsl
            have hp : (i.setProg s (connectProg sl.confs)).prog s = connectProg sl.confs := by rw [prog_setProg]; simp
            refine ⟨hI.ex, hI.le, hI.started, ?_, ?_⟩
            · rw [hp]
              show progOk _ (Stmt.discAdd :: (sl.confs.flatMap (loopBlock Gen.C05.slConnectLoopOrder) ++ [Stmt.setConn])) = true
              simp only [progOk]
              exact progOk_connect_block _ hord sl.confs _ [.setConn] (fun f => rfl)
            · rw [hp]
              intro stmt hm h hh
              simp only [connectProg, List.mem_cons, List.mem_append, List.mem_flatMap] at hm
              rcases hm with (rfl | ⟨k, hk, hm⟩) | (rfl | hm)
              · cases hh
              · rw [hord] at hm
                have : loopBlock ["log.add_config", "config.data_received_cb.add_callback", "config.start"] k =
                    [.addCfg k, .sub k, .start k] := by simp [loopBlock, stmtOfName]
                rw [this] at hm
                simp only [List.mem_cons, List.not_mem_nil, or_false] at hm
                rcases hm with rfl | rfl | rfl <;> (cases hh; exact hlt _ hk)
              · cases hh
              · cases hm
          · exact inv_same hI (fun k hk => ⟨rfl, hI.ex k hk⟩) (fun h hm => hm) (Or.inl (by rw [prog_setProg]; simp [hs]))
  | callDisconnect s' =>
    simp only [istep] at hstep
    split at hstep
    · cases hstep
    · rename_i sl hsl
      split at hstep
      · cases hstep
      · split at hstep
        · cases hstep
          by_cases hs : s = s'
          · subst hs
            obtain ⟨hlt, hord⟩ := hallow rfl sl hsl
            have hp : (i.setProg s (disconnectProg sl.confs)).prog s = disconnectProg sl.confs := by rw [prog_setProg]; simp
            have hblock : ∀ k, loopBlock Gen.C05.slDisconnectLoopOrder k = [.stop k, .del k, .unsub k] := by
              intro k; rw [hord]; simp [loopBlock, stmtOfName]
            refine ⟨hI.ex, hI.le, hI.started, ?_, ?_⟩
            · rw [hp]
              apply progOk_no_start
              intro h hm
              simp only [disconnectProg, List.mem_append, List.mem_flatMap, List.mem_cons, List.not_mem_nil, or_false] at hm
              rcases hm with ⟨k, _, hm⟩ | hm | hm
              · rw [hblock] at hm; simp at hm
              · cases hm
              · cases hm
            · rw [hp]
              intro stmt hm h hh
              simp only [disconnectProg, List.mem_append, List.mem_flatMap, List.mem_cons, List.not_mem_nil, or_false] at hm
              rcases hm with ⟨k, hk, hm⟩ | rfl | rfl
              · rw [hblock] at hm
                simp only [List.mem_cons, List.not_mem_nil, or_false] at hm
                rcases hm with rfl | rfl | rfl <;> (cases hh; exact hlt _ hk)
              · cases hh
              · cases hh
          · exact inv_same hI (fun k hk => ⟨rfl, hI.ex k hk⟩) (fun h hm => hm) (Or.inl (by rw [prog_setProg]; simp [hs]))
        · cases hstep; exact hI
  | run s' =>
    simp only [istep] at hstep
    split at hstep
    · cases hstep
    · rename_i stmt rest hprog
      split at hstep
      · cases hstep
      · rename_i r hexec
        cases hstep
        have hcb := exec_cbs i.st s' stmt r hexec
        by_cases hs : s = s'
        · -- a statement of `s` itself
          subst hs
          have hnewprog : ∀ (x : ISt), (x.setProg s (if r.err.isSome then [] else rest)).prog s =
              (if r.err.isSome then [] else rest) := fun x => by rw [prog_setProg]; simp
          have hhs : ∀ h, stmt.handle? = some h → h < N := fun h hh => hI.hs stmt (by rw [hprog]; simp) h hh
          have hsuffix : ∀ st' ∈ (if r.err.isSome then [] else rest), st' ∈ i.prog s := by
            intro st' hm
            split at hm
            · cases hm
            · rw [hprog]; exact List.mem_cons_of_mem _ hm
          have hpk := hI.prog
          rw [hprog] at hpk
          -- subscription counts after the statement
          have hcount : ∀ k, k < N → (∃ c', r.st.conf? k = some c') ∧
              ∀ c, i.st.conf? k = some c → subCount r.st s k = (cbsAfter s stmt k c.dataCbs).count s := by
            intro k hk
            obtain ⟨c, hc⟩ := hI.ex k hk
            obtain ⟨c', h1, h2⟩ := hcb k c hc
            exact ⟨⟨c', h1⟩, fun c0 hc0 => by rw [hc] at hc0; cases hc0; simp [subCount, h1, h2]⟩
          have hold : ∀ k c, i.st.conf? k = some c → subCount i.st s k = c.dataCbs.count s :=
            fun k c hc => by simp [subCount, hc]
          suffices hgoal : ∀ i2 : ISt, i2.st = r.st → i2.started = startedAfter s stmt r.err i.started → i2.prog s = (if r.err.isSome then [] else rest) → Inv N s i2 from
            hgoal _ rfl rfl (hnewprog _)
          intro i2 hst2 hstarted2 hprog2
          have hsuf2 : ∀ st' ∈ i2.prog s, st' ∈ rest := by
            intro st' hm; rw [hprog2] at hm
            split at hm
            · cases hm
            · exact hm
          have hhs2 : ∀ st' ∈ i2.prog s, ∀ h, st'.handle? = some h → h < N :=
            fun st' hm => hI.hs st' (by rw [hprog]; exact List.mem_cons_of_mem _ (hsuf2 st' hm))
          have hrestN : ∀ st' ∈ rest, ∀ k, st'.handle? = some k → k < N :=
            fun st' hm => hI.hs st' (by rw [hprog]; exact List.mem_cons_of_mem _ hm)
          -- the program component, given the symbolic run of `rest` under the new subscription state
          have hprogOk : progOk (fun h => subCount r.st s h == 1) rest = true →
              progOk (fun h => subCount i2.st s h == 1) (i2.prog s) = true := by
            intro h
            rw [hst2, hprog2]
            split
            · rfl
            · exact h
          cases stmt with
          | sub h =>
            have hh := hhs h rfl
            obtain ⟨ch, hch⟩ := hI.ex h hh
            have hle := hI.le h hh
            rw [hold h ch hch] at hle
            have hnew : ∀ k, k < N → subCount r.st s k = if k = h then 1 else subCount i.st s k := by
              intro k hk
              obtain ⟨c, hc⟩ := hI.ex k hk
              rw [(hcount k hk).2 c hc]
              by_cases hkh : k = h
              · subst hkh; rw [hch] at hc; cases hc; simp [cbsAfter, count_callerAdd_self _ _ hle]
              · simp [cbsAfter, hkh, hold k c hc]
            simp only [startedAfter] at hstarted2
            refine ⟨fun k hk => by rw [hst2]; exact (hcount k hk).1, fun k hk => ?_, fun k hm => ?_, ?_, hhs2⟩
            · rw [hst2, hnew k hk]; split
              · exact Nat.le_refl 1
              · exact hI.le k hk
            · rw [hstarted2] at hm
              obtain ⟨a1, a2⟩ := hI.started k hm
              refine ⟨a1, ?_⟩
              rw [hst2, hnew k a1]; split
              · rfl
              · exact a2
            · apply hprogOk
              simp only [progOk] at hpk
              rw [← hpk]
              apply progOk_congr_on
              intro st' hm k hk
              show (subCount r.st s k == 1) = (k == h || subCount i.st s k == 1)
              rw [hnew k (hrestN st' hm k hk)]
              by_cases hkh : k = h <;> simp [hkh]
          | unsub h =>
            have hh := hhs h rfl
            obtain ⟨ch, hch⟩ := hI.ex h hh
            have hle := hI.le h hh
            rw [hold h ch hch] at hle
            by_cases hcont : ch.dataCbs.contains s = true
            · have herr : r.err = none := by
                simp only [execStmt, hch, hcont, if_true] at hexec; cases hexec; rfl
              have hnew : ∀ k, k < N → subCount r.st s k = if k = h then 0 else subCount i.st s k := by
                intro k hk
                obtain ⟨c, hc⟩ := hI.ex k hk
                rw [(hcount k hk).2 c hc]
                by_cases hkh : k = h
                · subst hkh; rw [hch] at hc; cases hc
                  simp only [cbsAfter, hcont, and_self, if_true, count_erase_self]; omega
                · simp [cbsAfter, hkh, hold k c hc]
              rw [herr] at hstarted2
              simp only [startedAfter] at hstarted2
              refine ⟨fun k hk => by rw [hst2]; exact (hcount k hk).1, fun k hk => ?_, fun k hm => ?_, ?_, hhs2⟩
              · rw [hst2, hnew k hk]; split
                · exact Nat.zero_le 1
                · exact hI.le k hk
              · rw [hstarted2] at hm
                have hm' : (s, k) ∈ i.started ∧ k ≠ h := by
                  simp only [List.mem_filter, bne_iff_ne, ne_eq] at hm
                  exact ⟨hm.1, fun e => hm.2 (by rw [e])⟩
                obtain ⟨a1, a2⟩ := hI.started k hm'.1
                exact ⟨a1, by rw [hst2, hnew k a1, if_neg hm'.2]; exact a2⟩
              · apply hprogOk
                simp only [progOk] at hpk
                rw [← hpk]
                apply progOk_congr_on
                intro st' hm k hk
                show (subCount r.st s k == 1) = (k != h && subCount i.st s k == 1)
                rw [hnew k (hrestN st' hm k hk)]
                by_cases hkh : k = h <;> simp [hkh]
            · -- `remove_callback` raises ValueError: nothing changes, the call is abandoned
              have hres : r = { st := i.st, err := some .valueError } := by
                simp only [execStmt, hch, hcont, Bool.false_eq_true, if_false] at hexec; cases hexec; rfl
              subst hres
              simp only [startedAfter] at hstarted2 hprog2 hst2
              refine ⟨fun k hk => by rw [hst2]; exact hI.ex k hk, fun k hk => by rw [hst2]; exact hI.le k hk,
                fun k hm => by rw [hst2]; exact hI.started k (by rw [← hstarted2]; exact hm), ?_, ?_⟩
              · rw [hprog2]; rfl
              · rw [hprog2]; intro st' hm; simp at hm
          | start h =>
            have hh := hhs h rfl
            have hsame : ∀ k, k < N → subCount r.st s k = subCount i.st s k := by
              intro k hk
              obtain ⟨c, hc⟩ := hI.ex k hk
              rw [(hcount k hk).2 c hc, hold k c hc]; rfl
            simp only [progOk, Bool.and_eq_true, beq_iff_eq] at hpk
            refine ⟨fun k hk => by rw [hst2]; exact (hcount k hk).1, fun k hk => by rw [hst2, hsame k hk]; exact hI.le k hk,
              fun k hm => ?_, ?_, hhs2⟩
            · rw [hstarted2] at hm
              have : (s, k) ∈ i.started ∨ k = h := by
                cases hre : r.err with
                | none =>
                  rw [hre] at hm
                  simp only [startedAfter, List.mem_cons, Prod.mk.injEq, true_and] at hm
                  rcases hm with e | e
                  · exact Or.inr e
                  · exact Or.inl e
                | some e => rw [hre] at hm; simp only [startedAfter] at hm; exact Or.inl hm
              rcases this with hm' | rfl
              · obtain ⟨a1, a2⟩ := hI.started k hm'
                exact ⟨a1, by rw [hst2, hsame k a1]; exact a2⟩
              · exact ⟨hh, by rw [hst2, hsame k hh]; exact hpk.1⟩
            · apply hprogOk
              rw [← hpk.2]
              exact progOk_congr_on _ _ _ (fun st' hm k hk => by
                show (subCount r.st s k == 1) = (subCount i.st s k == 1)
                rw [hsame k (hrestN st' hm k hk)])
          | discAdd | addCfg _ | setConn | stop _ | del _ | discRemove | setDisconn =>
            have hsame : ∀ k, k < N → subCount r.st s k = subCount i.st s k := by
              intro k hk
              obtain ⟨c, hc⟩ := hI.ex k hk
              rw [(hcount k hk).2 c hc, hold k c hc]; rfl
            simp only [progOk] at hpk
            simp only [startedAfter] at hstarted2
            refine ⟨fun k hk => by rw [hst2]; exact (hcount k hk).1, fun k hk => by rw [hst2, hsame k hk]; exact hI.le k hk,
              fun k hm => ?_, ?_, hhs2⟩
            · rw [hstarted2] at hm
              obtain ⟨a1, a2⟩ := hI.started k hm
              exact ⟨a1, by rw [hst2, hsame k a1]; exact a2⟩
            · apply hprogOk
              rw [← hpk]
              exact progOk_congr_on _ _ _ (fun st' hm k hk => by
                show (subCount r.st s k == 1) = (subCount i.st s k == 1)
                rw [hsame k (hrestN st' hm k hk)])
        · -- a statement of another logger
          refine inv_same hI (fun k hk => ?_) (fun h hm => ?_) (Or.inl (by rw [prog_setProg]; simp [hs]; rfl))
          · obtain ⟨c, hc⟩ := hI.ex k hk
            obtain ⟨c', h1, h2⟩ := hcb k c hc
            exact ⟨by simp [subCount, h1, h2, hc, count_cbsAfter_ne s s' hs], c', h1⟩
          · have hne : ∀ k, (s, h) ≠ (s', k) := fun k e => hs (Prod.mk.inj e).1
            show (s, h) ∈ i.started
            have hm' : (s, h) ∈ startedAfter s' stmt r.err i.started := hm
            unfold startedAfter at hm'
            split at hm'
            · simp only [List.mem_cons] at hm'
              rcases hm' with e | e
              · exact absurd e (hne _)
              · exact e
            · exact (List.mem_filter.mp hm').1
            · exact hm'

end CfVerif.C05

namespace CfVerif.C05
open CfVerif Spec

/-! ### a decoded sample is queued once per registration -/

theorem deliver_put_count (s h ts : Nat) (vals : List (Nat × Val)) : ∀ (l : List Nat) (st : St),
    (st.sls[s]?).isSome = true →
    (deliver h ts vals l st).2.count (.put s (.sample ts vals h)) = l.count s ∧
    (∀ o ∈ (deliver h ts vals l st).2, ∃ x it, o = .put x it) := by
  intro l
  induction l with
  | nil => intro st _; exact ⟨rfl, fun o ho => by cases ho⟩
  | cons x xs ih =>
    intro st hs
    simp only [deliver]
    split
    · rename_i hx
      have hne : x ≠ s := by
        intro e; subst e; rw [hx] at hs; cases hs
      obtain ⟨a, b⟩ := ih st hs
      exact ⟨by rw [a, List.count_cons]; simp [hne], b⟩
    · rename_i sl hx
      simp only
      have hlt : x < st.sls.length := by
        rcases Nat.lt_or_ge x st.sls.length with hl | hl
        · exact hl
        · rw [List.getElem?_eq_none hl] at hx; cases hx
      have hs' : (({ st with sls := st.sls.set x { sl with queue := sl.queue ++ [QItem.sample ts vals h] } } : St).sls[s]?).isSome = true := by
        simp only
        by_cases e : s = x
        · subst e; rw [List.getElem?_set_self hlt]; rfl
        · rw [List.getElem?_set_ne (Ne.symm e)]; exact hs
      obtain ⟨a, b⟩ := ih _ hs'
      refine ⟨?_, ?_⟩
      · rw [List.count_cons, a, List.count_cons]
        by_cases e : x = s
        · subst e; simp
        · have : ¬ (Out.put x (QItem.sample ts vals h) = Out.put s (QItem.sample ts vals h)) := by
            intro h'; injection h' with h1 _; exact e h1
          simp [e, this]
      · intro o ho
        rcases List.mem_cons.mp ho with rfl | ho
        · exact ⟨_, _, rfl⟩
        · exact b o ho

/-- a data packet: whenever it is decoded (`data_received_cb` fires for block `h`), the sample is queued for
logger `s` exactly as many times as `s` is registered on `h` -/
theorem logdata_put_count (st : St) (data : List UInt8) (s : Nat) (hs : (st.sls[s]?).isSome = true)
    (h ts : Nat) (vals : List (Nat × Val)) (hm : Out.data h ts vals ∈ (onLogData st data).outs) :
    (onLogData st data).outs.count (.put s (.sample ts vals h)) = subCount st s h := by
  unfold onLogData at hm ⊢
  split at hm
  · cases hm
  · split at hm
    · dsimp only at hm ⊢
      split at hm
      · cases hm
      · split at hm
        · cases hm
        · split at hm
          · cases hm
          · simp only at hm ⊢
            rcases List.mem_cons.mp hm with e | e
            · injection e with e1 e2 e3
              subst e1; subst e2; subst e3
              rw [List.count_cons, (deliver_put_count s _ _ _ _ st hs).1]
              simp [subCount, *]
            · obtain ⟨x, it, hx⟩ := (deliver_put_count s _ _ _ _ st hs).2 _ e
              cases hx
    · cases hm
    · cases hm

/-! ### queue relation for the statements -/

theorem execStmt_qrel (s : Nat) (st : St) (s' : Nat) (stmt : Stmt) (r : Res) (he : execStmt st s' stmt = some r) :
    QRel s st r.st r.outs := by
  cases stmt with
  | discAdd => simp only [execStmt] at he; cases he; exact qrel_frame rfl noSl_nil
  | addCfg h => exact (fun f => qrel_frame f.1 f.2) (addConfigWith_frame he)
  | sub h =>
    simp only [execStmt] at he
    split at he
    · cases he
    · cases he; exact qrel_frame rfl noSl_nil
  | start h => exact (fun f => qrel_frame f.1 f.2) (start_frame he)
  | setConn =>
    simp only [execStmt] at he
    split at he
    · cases he
    · rename_i sl hsl
      cases he
      exact qrel_set_same (sl1 := { sl with connected := true }) hsl rfl rfl
  | stop h => exact (fun f => qrel_frame (by rw [f.1]) f.2) (simpleCmd_frame he)
  | del h => exact (fun f => qrel_frame (by rw [f.1]) f.2) (simpleCmd_frame he)
  | unsub h =>
    simp only [execStmt] at he
    split at he
    · cases he
    · split at he <;> (cases he; exact qrel_frame rfl noSl_nil)
  | discRemove =>
    simp only [execStmt] at he
    split at he <;> (cases he; exact qrel_frame rfl noSl_nil)
  | setDisconn =>
    simp only [execStmt] at he
    split at he
    · cases he
    · rename_i sl hsl
      cases he
      exact qrel_set_same (sl1 := { sl with connected := false }) hsl rfl rfl

theorem istep_qrel (s : Nat) (i i' : ISt) (a : IOp) (outs : List Out) (e : Option PyErr)
    (hstep : istep i a = some (i', outs, e)) : QRel s i.st i'.st outs := by
  cases a with
  | op o =>
    simp only [istep] at hstep
    split at hstep
    · cases hstep
    · rename_i r hr; cases hstep; exact step_qrel s i.st o r hr
  | callConnect s' =>
    simp only [istep] at hstep
    split at hstep
    · cases hstep
    · split at hstep
      · cases hstep
      · split at hstep <;> (cases hstep; exact qrel_frame rfl noSl_nil)
  | callDisconnect s' =>
    simp only [istep] at hstep
    split at hstep
    · cases hstep
    · split at hstep
      · cases hstep
      · split at hstep <;> (cases hstep; exact qrel_frame rfl noSl_nil)
  | run s' =>
    simp only [istep] at hstep
    split at hstep
    · cases hstep
    · split at hstep
      · cases hstep
      · rename_i r hexec; cases hstep; exact execStmt_qrel s i.st s' _ r hexec

theorem irun_qrel (s : Nat) : ∀ (sched : List IOp) (i : ISt), QRel s i.st (irun i sched).1.st (irun i sched).2 := by
  intro sched
  induction sched with
  | nil => intro i; exact qrel_frame rfl noSl_nil
  | cons a as ih =>
    intro i
    simp only [irun]
    cases hs : istep i a with
    | none => exact ih i
    | some x =>
      obtain ⟨i', o, e⟩ := x
      exact qrel_trans (istep_qrel s i i' a o e hs) (ih i')

/-- which schedule steps the theorems allow (`istep_inv`), along a whole schedule -/
def SchedOk (N s : Nat) (i : ISt) : IOp → Prop
  | .op o => o.envOk = true
  | .callConnect s' => s' = s → ∀ sl, i.st.sls[s]? = some sl → (∀ h ∈ sl.confs, h < N)
  | .callDisconnect s' => s' = s → ∀ sl, i.st.sls[s]? = some sl → (∀ h ∈ sl.confs, h < N)
  | .run _ => True

def SchedsOk (N s : Nat) : ISt → List IOp → Prop
  | _, [] => True
  | i, a :: as => SchedOk N s i a ∧ (match istep i a with
    | none => SchedsOk N s i as
    | some (i', _, _) => SchedsOk N s i' as)

theorem irun_inv (N s : Nat)
    (hc : Gen.C05.slConnectLoopOrder = ["log.add_config", "config.data_received_cb.add_callback", "config.start"])
    (hd : Gen.C05.slDisconnectLoopOrder = ["config.stop", "config.delete", "config.data_received_cb.remove_callback"]) :
    ∀ (sched : List IOp) (i : ISt), Inv N s i → SchedsOk N s i sched → Inv N s (irun i sched).1 := by
  intro sched
  induction sched with
  | nil => intro i hI _; exact hI
  | cons a as ih =>
    intro i hI hok
    simp only [irun]
    simp only [SchedsOk] at hok
    cases hs : istep i a with
    | none => rw [hs] at hok; exact ih i hI hok.2
    | some x =>
      obtain ⟨i', o, e⟩ := x
      rw [hs] at hok
      refine ih i' (istep_inv N s i i' a o e hI hs ?_) hok.2
      have h1 := hok.1
      cases a with
      | op o' => exact h1
      | callConnect s' => exact fun e' sl hsl => ⟨h1 e' sl hsl, hc⟩
      | callDisconnect s' => exact fun e' sl hsl => ⟨h1 e' sl hsl, hd⟩
      | run s' => trivial

end CfVerif.C05

/-
Proofs/C05Readd: the variable list of a resolved configuration is stable under every history that does not
call add_variable / add_memory on it (helper lemmas for `readd_stable`).  Core Lean only.
-/
import CfVerif.Proofs.C05Hist
namespace CfVerif.C05
open CfVerif Spec

theorem step_vars (st : St) (op : Op) (r : Res) (hs : step st op = some r) (k : Nat) (c : Conf)
    (hk : st.conf? k = some c) (hd : c.defaults = []) (hed : op.editsVars k = false) :
    ∃ c', r.st.conf? k = some c' ∧ c'.variables = c.variables ∧ c'.defaults = [] := by
  obtain ⟨c', h1, h2⟩ :=
    step_keeps insens_vars (addConfig_keeps_vars k) st op r trivial hs hed (Or.inl insensFlags_vars) (Or.inl (fun _ _ => rfl)) c hk hd
  have h3 : c'.variables = c.variables := congrArg Prod.fst h2
  have h4 : c'.defaults = c.defaults := congrArg Prod.snd h2
  exact ⟨c', h1, h3, by rw [h4, hd]⟩

theorem run_vars (k : Nat) : ∀ (ops : List Op) (st : St) (c : Conf), st.conf? k = some c → c.defaults = [] →
    (∀ op ∈ ops, op.editsVars k = false) →
    ∃ c', (run st ops).1.conf? k = some c' ∧ c'.variables = c.variables ∧ c'.defaults = [] := by
  intro ops
  induction ops with
  | nil => intro st c hk hd _; exact ⟨c, hk, rfl, hd⟩
  | cons op ops ih =>
    intro st c hk hd hed
    simp only [run]
    cases hs : step st op with
    | none => exact ih st c hk hd (fun o ho => hed o (by simp [ho]))
    | some r =>
      obtain ⟨c1, h1, h2, h3⟩ := step_vars st op r hs k c hk hd (hed op (by simp))
      obtain ⟨c2, h4, h5, h6⟩ := ih r.st c1 h1 h3 (fun o ho => hed o (by simp [ho]))
      exact ⟨c2, h4, by rw [h5, h2], h6⟩

end CfVerif.C05

namespace CfVerif.C05
open CfVerif Spec

/-! ## the configured list under failed and successful add_config calls -/

/-- the configured list of a LogConfig: the names of its typed variables followed by the names still waiting
for their type (each `add_variable` call contributes exactly one entry) -/
def cfgOf (c : Conf) : List Nat := c.variables.map (·.name) ++ c.defaults

/-- no element of the table has an empty type name (`LogTocElement.ctype` comes from the type table) -/
def TocNE : Option Toc → Prop
  | none => True
  | some t => ∀ e ∈ t, e.ctype.length ≠ 0

theorem mkVar_name {n : Nat} {f s : String} {b : Bool} {a : Nat} {v : LVar} (h : mkVar n f b s a = .ok v) : v.name = n := by
  unfold mkVar at h
  split at h
  · cases h
  · split at h
    · cases h; rfl
    · split at h
      · cases h
      · cases h; rfl

/-- one resolution step moves the name from the head of `default_fetch_as` to the tail of `variables` -/
theorem resolveDefaults_cfg (toc : Option Toc) (hq : TocNE toc) : ∀ (ds : List Nat) (c : Conf), c.defaults = ds →
    cfgOf (resolveDefaults toc ds c).1 = cfgOf c := by
  intro ds
  induction ds with
  | nil => intro c _; rfl
  | cons n ds ih =>
    intro c hc
    simp only [resolveDefaults]
    split
    · rfl
    · rfl
    · rename_i el hl
      have hne : el.ctype.length ≠ 0 := by
        cases toc with
        | none => simp [lookup] at hl
        | some t =>
          simp only [lookup, Except.ok.injEq] at hl
          exact hq el (byName_mem hl)
      split
      · rfl
      · rename_i c' hc'
        unfold Conf.addVariable at hc'
        rw [if_pos hne] at hc'
        split at hc'
        · rename_i v hv
          cases hc'
          have hname := mkVar_name hv
          rw [ih _ (by simp [hc])]
          simp [cfgOf, hc, hname]
        · cases hc'

theorem addVariable_prefix {c c' : Conf} {n : Nat} {t : String} (h : c.addVariable n t = .ok c') :
    ∃ ext, c'.variables = c.variables ++ ext := by
  unfold Conf.addVariable at h
  split at h
  · split at h
    · cases h; exact ⟨_, rfl⟩
    · cases h
  · cases h; exact ⟨[], by simp⟩

/-- resolution only ever appends to `variables` -/
theorem resolveDefaults_prefix (toc : Option Toc) : ∀ (ds : List Nat) (c : Conf),
    ∃ ext, (resolveDefaults toc ds c).1.variables = c.variables ++ ext := by
  intro ds
  induction ds with
  | nil => intro c; exact ⟨[], by simp [resolveDefaults]⟩
  | cons n ds ih =>
    intro c
    simp only [resolveDefaults]
    split
    · exact ⟨[], by simp⟩
    · exact ⟨[], by simp⟩
    · split
      · exact ⟨[], by simp⟩
      · rename_i c' hc'
        obtain ⟨e1, h1⟩ := addVariable_prefix hc'
        obtain ⟨e2, h2⟩ := ih { c' with defaults := c'.defaults.erase n }
        exact ⟨e1 ++ e2, by rw [h2]; simp [h1]⟩

theorem insens_cfg : Insens cfgOf := ⟨fun _ _ => rfl, fun _ _ => rfl, fun _ _ => rfl, fun _ _ _ _ => rfl⟩
theorem insensFlags_cfg : InsensFlags cfgOf := ⟨fun _ _ => rfl, fun _ _ => rfl⟩
theorem insens_take (m : Nat) : Insens (fun c : Conf => c.variables.take m) :=
  ⟨fun _ _ => rfl, fun _ _ => rfl, fun _ _ => rfl, fun _ _ _ _ => rfl⟩
theorem insensFlags_take (m : Nat) : InsensFlags (fun c : Conf => c.variables.take m) := ⟨fun _ _ => rfl, fun _ _ => rfl⟩

theorem addConfig_keeps_cfg (k : Nat) : AddKeeps TocNE (fun _ => True) cfgOf k :=
  addConfig_keeps insens_cfg (fun toc c hq _ => resolveDefaults_cfg toc hq c.defaults c rfl)

theorem addConfig_keeps_take (k m : Nat) :
    AddKeeps (fun _ => True) (fun l : List LVar => l.length = m) (fun c : Conf => c.variables.take m) k :=
  addConfig_keeps (insens_take m) (fun toc c _ hp => by
    obtain ⟨ext, he⟩ := resolveDefaults_prefix toc c.defaults c
    have hm : m ≤ c.variables.length := by
      have : (c.variables.take m).length = m := hp
      rw [List.length_take] at this; omega
    show (resolveDefaults toc c.defaults c).1.variables.take m = c.variables.take m
    rw [he, List.take_append_of_le_length hm])

/-- every table the Log holds during the history satisfies `q` -/
def TocsOk (q : Option Toc → Prop) : St → List Op → Prop
  | st, [] => q st.toc
  | st, op :: ops => q st.toc ∧ (match step st op with
    | none => TocsOk q st ops
    | some r => TocsOk q r.st ops)

/-- generic history lemma: a projection kept by every step is kept by every history -/
theorem run_keeps {α : Type} {q : Option Toc → Prop} {p : α → Prop} {f : Conf → α} {k : Nat}
    (hI : Insens f) (hF : InsensFlags f) (hC : CbInsens f) (hadd : AddKeeps q p f k) :
    ∀ (ops : List Op) (st : St) (c : Conf), st.conf? k = some c → p (f c) → TocsOk q st ops →
      (∀ op ∈ ops, op.editsVars k = false) → ∃ c', (run st ops).1.conf? k = some c' ∧ f c' = f c := by
  intro ops
  induction ops with
  | nil => intro st c hk _ _ _; exact ⟨c, hk, rfl⟩
  | cons op ops ih =>
    intro st c hk hp hq hed
    simp only [run]
    simp only [TocsOk] at hq
    cases hs : step st op with
    | none =>
      rw [hs] at hq
      exact ih st c hk hp hq.2 (fun o ho => hed o (by simp [ho]))
    | some r =>
      rw [hs] at hq
      obtain ⟨c1, h1, h2⟩ := step_keeps hI hadd st op r hq.1 hs (hed op (by simp)) (Or.inl hF) (Or.inl hC) c hk hp
      obtain ⟨c2, h3, h4⟩ := ih r.st c1 h1 (by rw [h2]; exact hp) hq.2 (fun o ho => hed o (by simp [ho]))
      exact ⟨c2, h3, by rw [h4, h2]⟩

/-- the exact partial effect of a resolution loop that stops at the first missing name -/
theorem resolve_partial (toc : Toc) (hwf : TocWF toc) : ∀ (pre : List Nat) (n : Nat) (post : List Nat) (c : Conf),
    c.defaults = pre ++ n :: post → (∀ m ∈ pre, toc.has m) → ¬ toc.has n →
    resolveDefaults (some toc) (pre ++ n :: post) c =
      ({ c with variables := c.variables ++ resolvedVars toc pre, defaults := n :: post, valid := false }, some .keyError) := by
  intro pre
  induction pre with
  | nil =>
    intro n post c hc _ hn
    have hb : toc.byName n = none := by
      cases hb : toc.byName n with
      | none => rfl
      | some el => exact absurd ((byName_isSome_iff toc n).mp (by rw [hb]; rfl)) hn
    cases c
    simp only at hc; subst hc
    simp [resolveDefaults, lookup, hb, resolvedVars]
  | cons m pre ih =>
    intro n post c hc hpre hn
    have hm := hpre m (by simp)
    cases hb : toc.byName m with
    | none => exact absurd hm (by rw [← byName_isSome_iff, hb]; simp)
    | some el =>
      obtain ⟨v, hv, _, _, _, hadd⟩ := resolve_step toc hwf c m el hb
      have hstep : resolveDefaults (some toc) (m :: pre ++ n :: post) c =
          resolveDefaults (some toc) (pre ++ n :: post) { c with variables := c.variables ++ [v], defaults := pre ++ n :: post } := by
        simp only [List.cons_append, resolveDefaults, lookup, hb, hadd, hc, List.erase_cons_head]
      rw [hstep, ih n post _ rfl (fun x hx => hpre x (by simp [hx])) hn]
      simp [resolvedVars, hv, List.append_assoc]

end CfVerif.C05

namespace CfVerif.C05
open CfVerif Spec

/-! ## which operations change the table the Log holds -/

theorem setAdded_toc (st : St) (h : Nat) (v : Bool) : (setAdded st h v).1.toc = st.toc := by
  unfold setAdded; split <;> rfl
theorem setStarted_toc (st : St) (h : Nat) (v : Bool) : (setStarted st h v).1.toc = st.toc := by
  unfold setStarted; split <;> rfl

theorem onSettings_toc (st : St) (cmd id status : Nat) :
    (onSettings st cmd id status).st.toc = st.toc ∨ (onSettings st cmd id status).st.toc = some [] := by
  unfold onSettings
  simp only
  split
  · split
    · exact Or.inl rfl
    · split
      · exact Or.inl rfl
      · split
        · split
          · split
            · exact Or.inl rfl
            · simp only
              left
              split
              · show (setAdded st _ true).1.toc = st.toc; exact setAdded_toc st _ true
              · exact setAdded_toc st _ true
          · exact Or.inl rfl
        · split <;> exact Or.inl rfl
  · split
    · split
      · split
        · exact Or.inl rfl
        · exact Or.inl (setStarted_toc st _ true)
      · split
        · split
          · exact Or.inl rfl
          · split <;> exact Or.inl rfl
        · exact Or.inl rfl
    · split
      · split
        · split
          · exact Or.inl rfl
          · exact Or.inl (setStarted_toc st _ false)
        · exact Or.inl rfl
      · split
        · split
          · split
            · exact Or.inl rfl
            · simp only
              left
              rw [setAdded_toc, setStarted_toc]
          · exact Or.inl rfl
        · split
          · split
            · exact Or.inr rfl
            · exact Or.inl rfl
          · exact Or.inl rfl

theorem deliver_toc (h ts : Nat) (vals : List (Nat × Val)) : ∀ (l : List Nat) (st : St),
    (deliver h ts vals l st).1.toc = st.toc := by
  intro l
  induction l with
  | nil => intro st; rfl
  | cons s ss ih =>
    intro st
    simp only [deliver]
    split
    · exact ih st
    · simp only; rw [ih]

theorem onLogData_toc (st : St) (data : List UInt8) : (onLogData st data).st.toc = st.toc := by
  unfold onLogData
  split
  · rfl
  · split
    · dsimp only
      split
      · rfl
      · split
        · rfl
        · split
          · rfl
          · simp only; exact deliver_toc _ _ _ _ _
    · rfl
    · rfl

theorem newPacket_toc (st : St) (chan : Nat) (data : List UInt8) :
    (newPacket st chan data).st.toc = st.toc ∨ (newPacket st chan data).st.toc = some [] := by
  unfold newPacket
  split
  · exact Or.inl rfl
  · split
    · split
      · exact onSettings_toc st _ _ _
      · exact Or.inl rfl
    · split
      · exact Or.inl (onLogData_toc st _)
      · exact Or.inl rfl

theorem slConnectLoop_toc (s : Nat) : ∀ (hs : List Nat) (st : St) (r : Res),
    slConnectLoop s hs st = some r → r.st.toc = st.toc := by
  intro hs
  induction hs with
  | nil => intro st r h; simp only [slConnectLoop] at h; cases h; rfl
  | cons h hs ih =>
    intro st r hr
    simp only [slConnectLoop] at hr
    split at hr
    · cases hr
    · rename_i r1 h1
      have t1 := addConfig_toc h1
      split at hr
      · cases hr; exact t1
      · split at hr
        · cases hr
        · split at hr
          · cases hr
          · rename_i r2 h2
            have t2 : r2.st.toc = st.toc := by rw [start_toc h2]; exact t1
            split at hr
            · cases hr; exact t2
            · split at hr
              · cases hr
              · rename_i r3 h3
                cases hr
                show r3.st.toc = st.toc
                rw [ih r2.st r3 h3, t2]

theorem slConnect_toc {st : St} {s : Nat} {r : Res} (hr : slConnect st s = some r) : r.st.toc = st.toc := by
  unfold slConnect at hr
  split at hr
  · cases hr
  · split at hr
    · cases hr; rfl
    · simp only at hr
      split at hr
      · cases hr
      · rename_i r1 h1
        have t1 := slConnectLoop_toc s _ { st with discCbs := callerAdd st.discCbs s } r1 h1
        split at hr
        · cases hr; exact t1
        · split at hr
          · cases hr
          · cases hr; exact t1

theorem slDisconnectLoop_toc (s : Nat) : ∀ (hs : List Nat) (st : St) (r : Res),
    slDisconnectLoop s hs st = some r → r.st.toc = st.toc := by
  intro hs
  induction hs with
  | nil => intro st r h; simp only [slDisconnectLoop] at h; cases h; rfl
  | cons h hs ih =>
    intro st r hr
    simp only [slDisconnectLoop] at hr
    split at hr
    · cases hr
    · rename_i r1 h1
      have e1 : r1.st = st := simpleCmd_st h1
      split at hr
      · cases hr; rw [e1]
      · split at hr
        · cases hr
        · rename_i r2 h2
          have e2 : r2.st = st := by rw [simpleCmd_st h2, e1]
          split at hr
          · cases hr; show r2.st.toc = st.toc; rw [e2]
          · split at hr
            · cases hr
            · split at hr
              · split at hr
                · cases hr
                · rename_i r3 h3
                  cases hr
                  show r3.st.toc = st.toc
                  rw [ih _ r3 h3]; show r2.st.toc = st.toc; rw [e2]
              · cases hr; show r2.st.toc = st.toc; rw [e2]

theorem slDisconnect_toc {st : St} {s : Nat} {r : Res} (hr : slDisconnect st s = some r) : r.st.toc = st.toc := by
  unfold slDisconnect at hr
  split at hr
  · cases hr
  · split at hr
    · cases hr; rfl
    · split at hr
      · cases hr
      · rename_i r1 h1
        have t1 := slDisconnectLoop_toc s _ _ r1 h1
        split at hr
        · cases hr; exact t1
        · split at hr
          · split at hr
            · cases hr
            · cases hr; exact t1
          · cases hr; exact t1

theorem slDisconnected_toc {st : St} {s : Nat} {r : Res} (hr : slDisconnected st s = some r) : r.st.toc = st.toc := by
  unfold slDisconnected at hr
  split at hr
  · cases hr
  · rename_i r1 h1
    have t1 := slDisconnect_toc h1
    split at hr
    · cases hr; exact t1
    · split at hr
      · cases hr
      · cases hr; exact t1

theorem callDisconnected_toc : ∀ (ss : List Nat) (st : St) (r : Res), callDisconnected ss st = some r → r.st.toc = st.toc := by
  intro ss
  induction ss with
  | nil => intro st r h; simp only [callDisconnected] at h; cases h; rfl
  | cons s ss ih =>
    intro st r hr
    simp only [callDisconnected] at hr
    split at hr
    · cases hr
    · rename_i r1 h1
      have t1 := slDisconnected_toc h1
      split at hr
      · cases hr; exact t1
      · split at hr
        · cases hr
        · rename_i r2 h2
          cases hr
          show r2.st.toc = st.toc
          rw [ih r1.st r2 h2, t1]

/-- the table the Log holds changes only by `refresh_toc` (None), the reset acknowledgement (a fresh empty
Toc) and the completed download (`setToc`) -/
theorem step_toc (st : St) (op : Op) (r : Res) (hs : step st op = some r) :
    r.st.toc = st.toc ∨ r.st.toc = none ∨ r.st.toc = some [] ∨ ∃ t, op = .setToc t ∧ r.st.toc = some t := by
  cases op with
  | newConf ms => simp only [step] at hs; cases hs; exact Or.inl rfl
  | addVar h n t =>
    simp only [step] at hs
    split at hs
    · cases hs
    · split at hs <;> (cases hs; exact Or.inl rfl)
  | addMem h n t s a =>
    simp only [step] at hs
    split at hs
    · cases hs
    · split at hs <;> (cases hs; exact Or.inl rfl)
  | addConfig h => exact Or.inl (addConfig_toc hs)
  | start h => exact Or.inl (start_toc hs)
  | stop h => exact Or.inl (by rw [simpleCmd_st hs])
  | delete h => exact Or.inl (by rw [simpleCmd_st hs])
  | rx chan data =>
    simp only [step] at hs; cases hs
    rcases newPacket_toc st chan data with h | h
    · exact Or.inl h
    · exact Or.inr (Or.inr (Or.inl h))
  | reset => simp only [step] at hs; cases hs; exact Or.inl rfl
  | refresh ver => simp only [step] at hs; cases hs; exact Or.inr (Or.inl rfl)
  | setToc t =>
    simp only [step] at hs
    split at hs
    · cases hs; exact Or.inr (Or.inr (Or.inr ⟨t, rfl, rfl⟩))
    · cases hs
  | linkUp => simp only [step] at hs; cases hs; exact Or.inl rfl
  | linkLost =>
    simp only [step, linkLost] at hs
    exact Or.inl (callDisconnected_toc _ { st with link := false } r hs)
  | newSl confs =>
    simp only [step] at hs
    split at hs
    · cases hs; exact Or.inl rfl
    · cases hs
  | slConnect s => exact Or.inl (slConnect_toc hs)
  | slDisconnect s => exact Or.inl (slDisconnect_toc hs)
  | slNext s =>
    simp only [step, slNext] at hs
    split at hs
    · cases hs
    · split at hs
      · cases hs; exact Or.inl rfl
      · split at hs
        · cases hs; exact Or.inl rfl
        · split at hs <;> (cases hs; exact Or.inl rfl)

/-- if the initial table and every table installed by a completed download have no empty type name, so has
every table the Log holds during the history -/
theorem tocsOk_of_ops : ∀ (ops : List Op) (st : St), TocNE st.toc → (∀ t, Op.setToc t ∈ ops → TocNE (some t)) →
    TocsOk TocNE st ops := by
  intro ops
  induction ops with
  | nil => intro st h _; exact h
  | cons op ops ih =>
    intro st h0 hset
    refine ⟨h0, ?_⟩
    cases hs : step st op with
    | none => exact ih st h0 (fun t ht => hset t (by simp [ht]))
    | some r =>
      refine ih r.st ?_ (fun t ht => hset t (by simp [ht]))
      rcases step_toc st op r hs with h | h | h | ⟨t, rfl, h⟩
      · rw [h]; exact h0
      · rw [h]; trivial
      · rw [h]; intro e he; cases he
      · rw [h]; exact hset t (by simp)

end CfVerif.C05

namespace CfVerif.C05
open CfVerif Spec

theorem tocsOk_true : ∀ (ops : List Op) (st : St), TocsOk (fun _ => True) st ops := by
  intro ops
  induction ops with
  | nil => intro st; trivial
  | cons op ops ih =>
    intro st
    refine ⟨trivial, ?_⟩
    cases step st op with
    | none => exact ih st
    | some r => exact ih r.st

theorem resolvedVars_names (toc : Toc) (hwf : TocWF toc) : ∀ (ds : List Nat), (∀ n ∈ ds, toc.has n) →
    (resolvedVars toc ds).map (·.name) = ds := by
  intro ds
  induction ds with
  | nil => intro _; rfl
  | cons n ds ih =>
    intro h
    have hn := h n (by simp)
    cases hb : toc.byName n with
    | none => exact absurd hn (by rw [← byName_isSome_iff, hb]; simp)
    | some el =>
      obtain ⟨v, hv, _, _, hname, _⟩ := resolve_step toc hwf { period := 0 } n el hb
      have := ih (fun m hm => h m (by simp [hm]))
      simp only [resolvedVars] at this ⊢
      simp [hv, hname, this]

/-- the configured list and the already typed variables survive every history without add_variable/add_memory -/
theorem run_cfg (st : St) (k : Nat) (c : Conf) (ops : List Op) (hk : st.conf? k = some c)
    (h0 : TocNE st.toc) (hset : ∀ t, Op.setToc t ∈ ops → TocNE (some t))
    (hno : ∀ op ∈ ops, op.editsVars k = false) :
    ∃ c', (run st ops).1.conf? k = some c' ∧ cfgOf c' = cfgOf c ∧ c.variables <+: c'.variables := by
  obtain ⟨c1, h1, e1⟩ := run_keeps insens_cfg insensFlags_cfg (fun _ _ => rfl) (addConfig_keeps_cfg k) ops st c hk trivial
    (tocsOk_of_ops ops st h0 hset) hno
  obtain ⟨c2, h2, e2⟩ := run_keeps (insens_take c.variables.length) (insensFlags_take c.variables.length) (fun _ _ => rfl)
    (addConfig_keeps_take k c.variables.length) ops st c hk (by simp) (tocsOk_true ops st) hno
  rw [h1] at h2; cases h2
  refine ⟨c1, h1, e1, ?_⟩
  simp only [List.take_length] at e2
  rw [← e2]
  exact List.take_prefix _ _

end CfVerif.C05

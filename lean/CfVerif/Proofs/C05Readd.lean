/-
Proofs/C05Readd: the variable list of a resolved configuration is stable under every history that does not
call add_variable / add_memory on it (helper lemmas for `readd_stable`).  Core Lean only.
-/
import CfVerif.Proofs.C05Hist
namespace CfVerif.C05
open CfVerif Spec

theorem step_vars (st : St) (op : Op) (r : Res) (hs : step st op = some r) (k : Nat) (c : Conf)
    (hk : st.conf? k = some c) (hd : c.defaults = []) (hed : op.editsVars k = false) :
    ∃ c', r.st.conf? k = some c' ∧ c'.variables = c.variables ∧ c'.defaults = [] := by
  obtain ⟨c', h1, h2⟩ :=
    step_keeps insens_vars (addConfig_keeps_vars k) st op r hs hed (Or.inl insensFlags_vars) c hk hd
  have h3 : c'.variables = c.variables := congrArg Prod.fst h2
  have h4 : c'.defaults = c.defaults := congrArg Prod.snd h2
  exact ⟨c', h1, h3, by rw [h4, hd]⟩

theorem run_vars (k : Nat) : ∀ (ops : List Op) (st : St) (c : Conf), st.conf? k = some c → c.defaults = [] →
    (∀ op ∈ ops, op.editsVars k = false) →
    ∃ c', (run st ops).1.conf? k = some c' ∧ c'.variables = c.variables ∧ c'.defaults = [] := by
  intro ops
  induction ops with
  | nil => intro st c hk hd _; exact ⟨c, hk, rfl, hd⟩
  | cons op ops ih =>
    intro st c hk hd hed
    simp only [run]
    cases hs : step st op with
    | none => exact ih st c hk hd (fun o ho => hed o (by simp [ho]))
    | some r =>
      obtain ⟨c1, h1, h2, h3⟩ := step_vars st op r hs k c hk hd (hed op (by simp))
      obtain ⟨c2, h4, h5, h6⟩ := ih r.st c1 h1 h3 (fun o ho => hed o (by simp [ho]))
      exact ⟨c2, h4, by rw [h5, h2], h6⟩

end CfVerif.C05

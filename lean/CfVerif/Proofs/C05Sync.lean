/-
Proofs/C05Sync: the SyncLogger queue over all histories (helper lemmas for `synclogger_fifo`).
For every SyncLogger `s` and every operation: queue_before ++ puts = pops ++ queue_after, where `puts` are the
items queued for `s` and `pops` the items `__next__` took from the head during the operation.  Core Lean only.
-/
import CfVerif.Proofs.C05
namespace CfVerif.C05
open CfVerif Spec

/-- items queued for SyncLogger `s` (`_queue.put`) during an operation -/
def putsOf (s : Nat) (outs : List Out) : List QItem :=
  outs.filterMap fun o => match o with
    | .put s' it => if s' = s then some it else none
    | _ => none

/-- items taken from the queue of SyncLogger `s` by `__next__`: yielded samples and a consumed DISCONNECT_EVENT -/
def popsOf (s : Nat) (outs : List Out) : List QItem :=
  outs.filterMap fun o => match o with
    | .yield s' it => if s' = s then some it else none
    | .stop s' true => if s' = s then some .disc else none
    | _ => none

def isSlEvent : Out → Bool
  | .put _ _ => true
  | .yield _ _ => true
  | .stop _ _ => true
  | _ => false

/-- no SyncLogger queue traffic in these outputs -/
def NoSl (outs : List Out) : Prop := ∀ o ∈ outs, isSlEvent o = false

theorem putsOf_append (s : Nat) (a b : List Out) : putsOf s (a ++ b) = putsOf s a ++ putsOf s b := by
  simp [putsOf, List.filterMap_append]
theorem popsOf_append (s : Nat) (a b : List Out) : popsOf s (a ++ b) = popsOf s a ++ popsOf s b := by
  simp [popsOf, List.filterMap_append]

theorem noSl_puts {s : Nat} {outs : List Out} (h : NoSl outs) : putsOf s outs = [] := by
  induction outs with
  | nil => rfl
  | cons o os ih =>
    have ho := h o (by simp)
    have := ih (fun x hx => h x (by simp [hx]))
    cases o <;> simp_all [putsOf, isSlEvent]
theorem noSl_pops {s : Nat} {outs : List Out} (h : NoSl outs) : popsOf s outs = [] := by
  induction outs with
  | nil => rfl
  | cons o os ih =>
    have ho := h o (by simp)
    have := ih (fun x hx => h x (by simp [hx]))
    cases o <;> simp_all [popsOf, isSlEvent]

theorem noSl_nil : NoSl [] := fun _ h => by cases h
theorem noSl_append {a b : List Out} (ha : NoSl a) (hb : NoSl b) : NoSl (a ++ b) := by
  intro o ho
  rcases List.mem_append.mp ho with h | h
  · exact ha o h
  · exact hb o h

/-- queue relation for SyncLogger `s` across an operation -/
def QRel (s : Nat) (st st' : St) (outs : List Out) : Prop :=
  ∀ sl, st.sls[s]? = some sl → ∃ sl', st'.sls[s]? = some sl' ∧ sl.queue ++ putsOf s outs = popsOf s outs ++ sl'.queue

theorem qrel_frame {s : Nat} {st st' : St} {outs : List Out} (hs : st'.sls = st.sls) (hn : NoSl outs) : QRel s st st' outs := by
  intro sl h
  exact ⟨sl, by rw [hs]; exact h, by rw [noSl_puts hn, noSl_pops hn]; simp⟩

theorem qrel_trans {s : Nat} {st1 st2 st3 : St} {o1 o2 : List Out} (h12 : QRel s st1 st2 o1) (h23 : QRel s st2 st3 o2) :
    QRel s st1 st3 (o1 ++ o2) := by
  intro sl h
  obtain ⟨sl2, h2, e2⟩ := h12 sl h
  obtain ⟨sl3, h3, e3⟩ := h23 sl2 h2
  refine ⟨sl3, h3, ?_⟩
  rw [putsOf_append, popsOf_append, ← List.append_assoc, e2, List.append_assoc, e3, List.append_assoc]

/-- replacing SyncLogger `s'` by one with the same queue -/
theorem qrel_set_same {s s' : Nat} {st : St} {sl0 sl1 : SL} (h0 : st.sls[s']? = some sl0) (hq : sl1.queue = sl0.queue)
    {st' : St} (hst : st'.sls = st.sls.set s' sl1) : QRel s st st' [] := by
  intro sl h
  have hlt : s' < st.sls.length := by
    rcases Nat.lt_or_ge s' st.sls.length with hl | hl
    · exact hl
    · rw [List.getElem?_eq_none hl] at h0; cases h0
  by_cases hs : s = s'
  · subst hs
    rw [h0] at h; cases h
    exact ⟨sl1, by rw [hst, List.getElem?_set_self hlt], by simp [putsOf, popsOf, hq]⟩
  · exact ⟨sl, by rw [hst, List.getElem?_set_ne (Ne.symm hs)]; exact h, by simp [putsOf, popsOf]⟩

/-! ### the Log-side operations do not touch the queues -/

theorem setConf_sls (st : St) (h : Nat) (c : Conf) : (st.setConf h c).sls = st.sls := rfl

theorem addConfigWith_frame {resolve} {st : St} {h : Nat} {r : Res} (hr : addConfigWith resolve st h = some r) :
    r.st.sls = st.sls ∧ NoSl r.outs := by
  unfold addConfigWith at hr
  split at hr
  · cases hr
  · split at hr
    · cases hr; exact ⟨rfl, noSl_nil⟩
    · split at hr
      rename_i c1 e1 _
      split at hr
      · cases hr; exact ⟨rfl, noSl_nil⟩
      · split at hr
        · cases hr; exact ⟨rfl, noSl_nil⟩
        · split at hr
          · cases hr; exact ⟨rfl, fun o ho => by simp at ho; subst ho; rfl⟩
          · cases hr; exact ⟨rfl, noSl_nil⟩

theorem createLoop_noSl (toc : Option Toc) (v2 : Bool) (id app : Nat) : ∀ (fuel cmd : Nat) (vars : List LVar),
    NoSl (createLoop toc v2 id app fuel cmd vars).1 := by
  intro fuel
  induction fuel with
  | zero => intro cmd vars; exact noSl_nil
  | succ fuel ih =>
    intro cmd vars
    unfold createLoop
    split
    · exact noSl_nil
    · split
      · exact noSl_nil
      · intro o ho; simp at ho; subst ho; rfl
      · rename_i data rest _
        intro o ho
        simp only [List.mem_cons] at ho
        rcases ho with rfl | ho
        · rfl
        · exact ih _ _ o ho

theorem create_frame (st : St) (h : Nat) (c : Conf) : (create st h c).st.sls = st.sls ∧ NoSl (create st h c).outs := by
  unfold create
  split
  split
  · split
    · exact ⟨rfl, noSl_nil⟩
    · exact ⟨rfl, createLoop_noSl _ _ _ _ _ _ _⟩
  · exact ⟨rfl, noSl_nil⟩

theorem start_frame {st : St} {h : Nat} {r : Res} (hr : start st h = some r) : r.st.sls = st.sls ∧ NoSl r.outs := by
  unfold start at hr
  split at hr
  · cases hr
  · split at hr
    · cases hr; exact ⟨rfl, noSl_nil⟩
    · split at hr
      · split at hr
        · cases hr; exact create_frame st h _
        · split at hr
          · cases hr; exact ⟨rfl, fun o ho => by simp at ho; subst ho; rfl⟩
          · cases hr; exact ⟨rfl, noSl_nil⟩
      · cases hr; exact ⟨rfl, noSl_nil⟩

theorem simpleCmd_frame {cmd : Nat} {st : St} {h : Nat} {r : Res} (hr : simpleCmd cmd st h = some r) :
    r.st = st ∧ NoSl r.outs := by
  unfold simpleCmd at hr
  split at hr
  · cases hr
  · split at hr
    · cases hr; exact ⟨rfl, noSl_nil⟩
    · split at hr
      · split at hr
        · cases hr; exact ⟨rfl, fun o ho => by simp at ho; subst ho; rfl⟩
        · cases hr; exact ⟨rfl, noSl_nil⟩
      · cases hr; exact ⟨rfl, noSl_nil⟩

theorem setAdded_frame (st : St) (h : Nat) (v : Bool) : (setAdded st h v).1.sls = st.sls ∧ NoSl (setAdded st h v).2 := by
  unfold setAdded
  split
  · exact ⟨rfl, noSl_nil⟩
  · refine ⟨rfl, ?_⟩
    split
    · intro o ho; simp at ho; subst ho; rfl
    · exact noSl_nil

theorem setStarted_frame (st : St) (h : Nat) (v : Bool) : (setStarted st h v).1.sls = st.sls ∧ NoSl (setStarted st h v).2 := by
  unfold setStarted
  split
  · exact ⟨rfl, noSl_nil⟩
  · refine ⟨rfl, ?_⟩
    split
    · intro o ho; simp at ho; subst ho; rfl
    · exact noSl_nil

theorem noSl_cons {o : Out} {os : List Out} (ho : isSlEvent o = false) (hos : NoSl os) : NoSl (o :: os) := by
  intro x hx
  rcases List.mem_cons.mp hx with rfl | hx
  · exact ho
  · exact hos x hx

theorem onSettings_frame (st : St) (cmd id status : Nat) :
    (onSettings st cmd id status).st.sls = st.sls ∧ NoSl (onSettings st cmd id status).outs := by
  unfold onSettings
  simp only
  split
  · split
    · exact ⟨rfl, noSl_nil⟩
    · split
      · exact ⟨rfl, noSl_nil⟩
      · split
        · split
          · split
            · exact ⟨rfl, noSl_nil⟩
            · simp only
              have hA := setAdded_frame st ‹Nat› true
              refine ⟨?_, noSl_cons rfl hA.2⟩
              split
              · rw [setConf_sls]; exact hA.1
              · exact hA.1
          · exact ⟨rfl, noSl_nil⟩
        · split
          · exact ⟨rfl, noSl_cons rfl (noSl_cons rfl noSl_nil)⟩
          · exact ⟨rfl, noSl_nil⟩
  · split
    · split
      · split
        · exact ⟨rfl, noSl_nil⟩
        · exact setStarted_frame st _ true
      · split
        · split
          · exact ⟨rfl, noSl_nil⟩
          · split
            · exact ⟨rfl, noSl_nil⟩
            · exact ⟨rfl, noSl_cons rfl noSl_nil⟩
        · exact ⟨rfl, noSl_nil⟩
    · split
      · split
        · split
          · exact ⟨rfl, noSl_nil⟩
          · exact setStarted_frame st _ false
        · exact ⟨rfl, noSl_nil⟩
      · split
        · split
          · split
            · exact ⟨rfl, noSl_nil⟩
            · simp only
              have h1 := setStarted_frame st ‹Nat› false
              have h2 := setAdded_frame (setStarted st ‹Nat› false).1 ‹Nat› false
              exact ⟨by rw [h2.1, h1.1], noSl_append h1.2 h2.2⟩
          · exact ⟨rfl, noSl_nil⟩
        · split
          · split
            · exact ⟨rfl, noSl_cons rfl noSl_nil⟩
            · exact ⟨rfl, noSl_nil⟩
          · exact ⟨rfl, noSl_nil⟩

/-! ### the three places that touch a queue -/

/-- `data_received_cb.call`: the sample is appended to the queue of every registered SyncLogger, once per registration -/
theorem deliver_qrel (s h ts : Nat) (vals : List (Nat × Val)) : ∀ (l : List Nat) (st : St),
    QRel s st (deliver h ts vals l st).1 (deliver h ts vals l st).2 := by
  intro l
  induction l with
  | nil => intro st; exact qrel_frame rfl noSl_nil
  | cons s' ss ih =>
    intro st
    simp only [deliver]
    split
    · exact ih st
    · rename_i sl' hsl'
      simp only
      have step1 : QRel s st { st with sls := st.sls.set s' { sl' with queue := sl'.queue ++ [QItem.sample ts vals h] } }
          [Out.put s' (QItem.sample ts vals h)] := by
        intro sl hsl
        have hlt : s' < st.sls.length := by
          rcases Nat.lt_or_ge s' st.sls.length with hl | hl
          · exact hl
          · rw [List.getElem?_eq_none hl] at hsl'; cases hsl'
        by_cases hs : s = s'
        · subst hs
          rw [hsl'] at hsl; cases hsl
          exact ⟨_, List.getElem?_set_self hlt, by simp [putsOf, popsOf]⟩
        · refine ⟨sl, by simp only; rw [List.getElem?_set_ne (Ne.symm hs)]; exact hsl, ?_⟩
          have : ¬ s' = s := fun e => hs e.symm
          simp [putsOf, popsOf, this]
      exact qrel_trans step1 (ih _)

theorem onLogData_qrel (s : Nat) (st : St) (data : List UInt8) : QRel s st (onLogData st data).st (onLogData st data).outs := by
  unfold onLogData
  split
  · exact qrel_frame rfl noSl_nil
  · split
    · dsimp only
      split
      · exact qrel_frame rfl noSl_nil
      · split
        · exact qrel_frame rfl noSl_nil
        · split
          · exact qrel_frame rfl noSl_nil
          · simp only
            exact qrel_trans (o1 := [Out.data _ _ _]) (qrel_frame rfl (noSl_cons rfl noSl_nil)) (deliver_qrel s _ _ _ _ st)
    · exact qrel_frame rfl noSl_nil
    · exact qrel_frame rfl noSl_nil

theorem newPacket_qrel (s : Nat) (st : St) (chan : Nat) (data : List UInt8) :
    QRel s st (newPacket st chan data).st (newPacket st chan data).outs := by
  unfold newPacket
  split
  · exact qrel_frame rfl noSl_nil
  · split
    · split
      · exact (fun h => qrel_frame h.1 h.2) (onSettings_frame st _ _ _)
      · exact qrel_frame rfl noSl_nil
    · split
      · exact onLogData_qrel s st _
      · exact qrel_frame rfl noSl_nil

/-- `__next__`: takes the head of the queue (or nothing) -/
theorem slNext_qrel (s : Nat) {st : St} {s' : Nat} {r : Res} (hr : slNext st s' = some r) : QRel s st r.st r.outs := by
  unfold slNext at hr
  split at hr
  · cases hr
  · rename_i sl' hsl'
    split at hr
    · cases hr
      intro sl hsl
      exact ⟨sl, hsl, by simp [putsOf, popsOf]⟩
    · split at hr
      · cases hr
        intro sl hsl
        exact ⟨sl, hsl, by simp [putsOf, popsOf]⟩
      · rename_i item q hq
        simp only at hr
        have hlt : s' < st.sls.length := by
          rcases Nat.lt_or_ge s' st.sls.length with hl | hl
          · exact hl
          · rw [List.getElem?_eq_none hl] at hsl'; cases hsl'
        have key : ∀ (outs : List Out), putsOf s outs = [] → (popsOf s outs = if s = s' then [item] else []) →
            QRel s st { st with sls := st.sls.set s' { sl' with queue := q } } outs := by
          intro outs hp hpo sl hsl
          by_cases hs : s = s'
          · subst hs
            rw [hsl'] at hsl; cases hsl
            exact ⟨_, List.getElem?_set_self hlt, by rw [hp, hpo, hq]; simp⟩
          · exact ⟨sl, by simp only; rw [List.getElem?_set_ne (Ne.symm hs)]; exact hsl, by rw [hp, hpo]; simp [hs]⟩
        split at hr
        · cases hr
          apply key
          · simp [putsOf]
          · by_cases hs : s = s' <;> simp [popsOf, hs, eq_comm]
        · cases hr
          apply key
          · simp [putsOf]
          · by_cases hs : s = s' <;> simp [popsOf, hs, eq_comm]

/-! ### SyncLogger connect / disconnect -/

theorem slConnectLoop_frame (s : Nat) : ∀ (hs : List Nat) (st : St) (r : Res),
    slConnectLoop s hs st = some r → r.st.sls = st.sls ∧ NoSl r.outs := by
  intro hs
  induction hs with
  | nil => intro st r h; simp only [slConnectLoop] at h; cases h; exact ⟨rfl, noSl_nil⟩
  | cons h hs ih =>
    intro st r hr
    simp only [slConnectLoop] at hr
    split at hr
    · cases hr
    · rename_i r1 h1
      have f1 := addConfigWith_frame h1
      split at hr
      · cases hr; exact f1
      · split at hr
        · cases hr
        · split at hr
          · cases hr
          · rename_i r2 h2
            have f2 := start_frame h2
            rw [setConf_sls] at f2
            split at hr
            · cases hr; exact ⟨by simp only; rw [f2.1, f1.1], noSl_append f1.2 f2.2⟩
            · split at hr
              · cases hr
              · rename_i r3 h3
                cases hr
                have f3 := ih r2.st r3 h3
                exact ⟨by simp only; rw [f3.1, f2.1, f1.1], noSl_append (noSl_append f1.2 f2.2) f3.2⟩

theorem slConnect_qrel (s : Nat) {st : St} {s' : Nat} {r : Res} (hr : slConnect st s' = some r) : QRel s st r.st r.outs := by
  unfold slConnect at hr
  split at hr
  · cases hr
  · split at hr
    · cases hr; exact qrel_frame rfl noSl_nil
    · simp only at hr
      split at hr
      · cases hr
      · rename_i r1 h1
        have f1 := slConnectLoop_frame s' _ _ r1 h1
        have q1 : QRel s st r1.st r1.outs := qrel_frame f1.1 f1.2
        split at hr
        · cases hr; exact q1
        · split at hr
          · cases hr
          · rename_i sl' hsl'
            cases hr
            have q2 : QRel s r1.st { r1.st with sls := r1.st.sls.set s' { sl' with connected := true } } [] :=
              qrel_set_same (sl1 := { sl' with connected := true }) hsl' rfl rfl
            simpa using qrel_trans q1 q2

theorem slDisconnectLoop_frame (s : Nat) : ∀ (hs : List Nat) (st : St) (r : Res),
    slDisconnectLoop s hs st = some r → r.st.sls = st.sls ∧ NoSl r.outs := by
  intro hs
  induction hs with
  | nil => intro st r h; simp only [slDisconnectLoop] at h; cases h; exact ⟨rfl, noSl_nil⟩
  | cons h hs ih =>
    intro st r hr
    simp only [slDisconnectLoop] at hr
    split at hr
    · cases hr
    · rename_i r1 h1
      have f1 := simpleCmd_frame h1
      split at hr
      · cases hr; exact ⟨by rw [f1.1], f1.2⟩
      · split at hr
        · cases hr
        · rename_i r2 h2
          have f2 := simpleCmd_frame h2
          split at hr
          · cases hr; exact ⟨by simp only; rw [f2.1, f1.1], noSl_append f1.2 f2.2⟩
          · split at hr
            · cases hr
            · split at hr
              · split at hr
                · cases hr
                · rename_i r3 h3
                  cases hr
                  have f3 := ih _ r3 h3
                  rw [setConf_sls] at f3
                  exact ⟨by simp only; rw [f3.1, f2.1, f1.1], noSl_append (noSl_append f1.2 f2.2) f3.2⟩
              · cases hr; exact ⟨by simp only; rw [f2.1, f1.1], noSl_append f1.2 f2.2⟩

/-- `disconnect()`: the queue of every SyncLogger is untouched; if it returns normally the logger is not connected -/
theorem slDisconnect_spec (s : Nat) {st : St} {s' : Nat} {r : Res} (hr : slDisconnect st s' = some r) :
    QRel s st r.st r.outs ∧ NoSl r.outs ∧
    (r.err = none → ∀ sl, st.sls[s']? = some sl → ∃ sl', r.st.sls[s']? = some sl' ∧ sl'.connected = false ∧ sl'.queue = sl.queue) := by
  unfold slDisconnect at hr
  split at hr
  · cases hr
  · rename_i sl0 hsl0
    split at hr
    · rename_i hnc
      cases hr
      refine ⟨qrel_frame rfl noSl_nil, noSl_nil, fun _ sl hsl => ?_⟩
      rw [hsl0] at hsl; cases hsl
      exact ⟨sl0, hsl0, by simpa using hnc, rfl⟩
    · split at hr
      · cases hr
      · rename_i r1 h1
        have f1 := slDisconnectLoop_frame s' _ _ r1 h1
        have q1 : QRel s st r1.st r1.outs := qrel_frame f1.1 f1.2
        split at hr
        · rename_i e he
          cases hr
          exact ⟨q1, f1.2, fun hn => by rw [he] at hn; cases hn⟩
        · split at hr
          · split at hr
            · cases hr
            · rename_i sl' hsl'
              cases hr
              have q2 : QRel s r1.st { r1.st with discCbs := r1.st.discCbs.erase s',
                                                  sls := r1.st.sls.set s' { sl' with connected := false } } [] :=
                qrel_set_same (sl1 := { sl' with connected := false }) hsl' rfl rfl
              refine ⟨by simpa using qrel_trans q1 q2, f1.2, fun _ sl hsl => ?_⟩
              rw [hsl0] at hsl; cases hsl
              have hlt : s' < r1.st.sls.length := by
                rcases Nat.lt_or_ge s' r1.st.sls.length with hl | hl
                · exact hl
                · rw [List.getElem?_eq_none hl] at hsl'; cases hsl'
              rw [f1.1, hsl0] at hsl'; cases hsl'
              exact ⟨_, List.getElem?_set_self hlt, rfl, rfl⟩
          · cases hr
            exact ⟨q1, f1.2, fun hn => by cases hn⟩

/-- `_disconnected(uri)`: disconnect, then DISCONNECT_EVENT is queued behind everything already queued -/
theorem slDisconnected_spec (s : Nat) {st : St} {s' : Nat} {r : Res} (hr : slDisconnected st s' = some r) :
    QRel s st r.st r.outs ∧
    (r.err = none → ∀ sl, st.sls[s']? = some sl →
      ∃ sl', r.st.sls[s']? = some sl' ∧ sl'.connected = false ∧ sl'.queue = sl.queue ++ [.disc]) := by
  unfold slDisconnected at hr
  split at hr
  · cases hr
  · rename_i r1 h1
    obtain ⟨q1, _, d1⟩ := slDisconnect_spec s h1
    split at hr
    · rename_i e he
      cases hr
      exact ⟨q1, fun hn => by rw [he] at hn; cases hn⟩
    · rename_i hnone
      split at hr
      · cases hr
      · rename_i sl1 hsl1
        cases hr
        have hlt : s' < r1.st.sls.length := by
          rcases Nat.lt_or_ge s' r1.st.sls.length with hl | hl
          · exact hl
          · rw [List.getElem?_eq_none hl] at hsl1; cases hsl1
        have q2 : QRel s r1.st { r1.st with sls := r1.st.sls.set s' { sl1 with queue := sl1.queue ++ [QItem.disc] } }
            [Out.put s' QItem.disc] := by
          intro sl hsl
          by_cases hs : s = s'
          · subst hs
            rw [hsl1] at hsl; cases hsl
            exact ⟨_, List.getElem?_set_self hlt, by simp [putsOf, popsOf]⟩
          · refine ⟨sl, by simp only; rw [List.getElem?_set_ne (Ne.symm hs)]; exact hsl, ?_⟩
            have : ¬ s' = s := fun e => hs e.symm
            simp [putsOf, popsOf, this]
        refine ⟨qrel_trans q1 q2, fun _ sl hsl => ?_⟩
        obtain ⟨sl', h1', h2', h3'⟩ := d1 hnone sl hsl
        rw [hsl1] at h1'; cases h1'
        exact ⟨_, List.getElem?_set_self hlt, h2', by simp [h3']⟩

theorem callDisconnected_qrel (s : Nat) : ∀ (ss : List Nat) (st : St) (r : Res),
    callDisconnected ss st = some r → QRel s st r.st r.outs := by
  intro ss
  induction ss with
  | nil => intro st r h; simp only [callDisconnected] at h; cases h; exact qrel_frame rfl noSl_nil
  | cons s' ss ih =>
    intro st r hr
    simp only [callDisconnected] at hr
    split at hr
    · cases hr
    · rename_i r1 h1
      have q1 := (slDisconnected_spec s h1).1
      split at hr
      · cases hr; exact q1
      · split at hr
        · cases hr
        · rename_i r2 h2
          cases hr
          exact qrel_trans q1 (ih r1.st r2 h2)

/-- every operation of the model respects the queue relation -/
theorem step_qrel (s : Nat) (st : St) (op : Op) (r : Res) (hs : step st op = some r) : QRel s st r.st r.outs := by
  cases op with
  | newConf ms => simp only [step] at hs; cases hs; exact qrel_frame rfl noSl_nil
  | addVar h n t =>
    simp only [step] at hs
    split at hs
    · cases hs
    · split at hs <;> (cases hs; exact qrel_frame rfl noSl_nil)
  | addMem h n t s' a =>
    simp only [step] at hs
    split at hs
    · cases hs
    · split at hs <;> (cases hs; exact qrel_frame rfl noSl_nil)
  | addConfig h => exact (fun f => qrel_frame f.1 f.2) (addConfigWith_frame hs)
  | start h => exact (fun f => qrel_frame f.1 f.2) (start_frame hs)
  | stop h => exact (fun f => qrel_frame (by rw [f.1]) f.2) (simpleCmd_frame hs)
  | delete h => exact (fun f => qrel_frame (by rw [f.1]) f.2) (simpleCmd_frame hs)
  | rx chan data => simp only [step] at hs; cases hs; exact newPacket_qrel s st chan data
  | reset => simp only [step] at hs; cases hs; exact qrel_frame rfl (noSl_cons rfl noSl_nil)
  | refresh ver => simp only [step] at hs; cases hs; exact qrel_frame rfl (noSl_cons rfl noSl_nil)
  | setToc t =>
    simp only [step] at hs
    split at hs
    · cases hs; exact qrel_frame rfl noSl_nil
    · cases hs
  | linkUp => simp only [step] at hs; cases hs; exact qrel_frame rfl noSl_nil
  | linkLost =>
    simp only [step, linkLost] at hs
    have q0 : QRel s st { st with link := false } [] := qrel_frame rfl noSl_nil
    simpa using qrel_trans q0 (callDisconnected_qrel s _ _ r hs)
  | newSl confs =>
    simp only [step] at hs
    split at hs
    · cases hs
      intro sl hsl
      have hlt : s < st.sls.length := by
        rcases Nat.lt_or_ge s st.sls.length with hl | hl
        · exact hl
        · rw [List.getElem?_eq_none hl] at hsl; cases hsl
      exact ⟨sl, by simp only; rw [List.getElem?_append_left hlt]; exact hsl, by simp [putsOf, popsOf]⟩
    · cases hs
  | slConnect s' => exact slConnect_qrel s hs
  | slDisconnect s' => exact (slDisconnect_spec s hs).1
  | slNext s' => exact slNext_qrel s hs

theorem run_qrel (s : Nat) : ∀ (ops : List Op) (st : St), QRel s st (run st ops).1 (run st ops).2 := by
  intro ops
  induction ops with
  | nil => intro st; exact qrel_frame rfl noSl_nil
  | cons op ops ih =>
    intro st
    simp only [run]
    cases hs : step st op with
    | none => exact ih st
    | some r => exact qrel_trans (step_qrel s st op r hs) (ih r.st)

end CfVerif.C05

/-
Proofs/C05Wire: links that serialise packet objects later than `send_packet` returns (helper lemmas).  Core Lean only.
-/
import CfVerif.Proofs.C05
namespace CfVerif.C05
open CfVerif Spec

theorem filter_key_nodup : ∀ (msgs : List (Nat × List UInt8)) (m : Nat × List UInt8),
    (msgs.map (·.1)).Nodup → m ∈ msgs → msgs.filter (fun x => x.1 == m.1) = [m] := by
  intro msgs
  induction msgs with
  | nil => intro m _ hm; cases hm
  | cons a r ih =>
    intro m hnd hm
    simp only [List.map_cons, List.nodup_cons] at hnd
    rcases List.mem_cons.mp hm with rfl | hm
    · have hnone : r.filter (fun x => x.1 == m.1) = [] := by
        rw [List.filter_eq_nil_iff]
        intro x hx hk
        exact hnd.1 (by simp only [List.mem_map]; exact ⟨x, hx, by simpa using hk⟩)
      simp [hnone]
    · have hne : (a.1 == m.1) = false := by
        simp only [beq_eq_false_iff_ne, ne_eq]
        intro e
        exact hnd.1 (by simp only [List.mem_map]; exact ⟨m, hm, e.symm⟩)
      simp only [List.filter_cons, hne, Bool.false_eq_true, if_false]
      exact ih m hnd.2 hm

/-- fresh objects: a link that serialises later transmits exactly what was handed to `send_packet` -/
theorem lateWire_fresh (msgs : List (Nat × List UInt8)) (h : (msgs.map (·.1)).Nodup) : lateWire msgs = msgs.map (·.2) := by
  unfold lateWire
  apply List.map_congr_left
  intro m hm
  rw [filter_key_nodup msgs m h hm]
  rfl

theorem zip_fst {α β : Type} : ∀ (l : List α) (d : List β), l.length = d.length → (l.zip d).map (·.1) = l := by
  intro l
  induction l with
  | nil => intro d _; rfl
  | cons a r ih =>
    intro d h
    cases d with
    | nil => cases h
    | cons b t => simp [List.zip_cons_cons, ih t (by simpa using h)]

theorem zip_snd {α β : Type} : ∀ (l : List α) (d : List β), l.length = d.length → (l.zip d).map (·.2) = d := by
  intro l
  induction l with
  | nil => intro d h; cases d with
    | nil => rfl
    | cons _ _ => cases h
  | cons a r ih =>
    intro d h
    cases d with
    | nil => cases h
    | cons b t => simp [List.zip_cons_cons, ih t (by simpa using h)]

theorem range_shift_nodup (base n : Nat) : ((List.range n).map (base + ·)).Nodup := by
  induction n with
  | zero => simp
  | succ n ih =>
    rw [List.range_succ, List.map_append, List.nodup_append]
    refine ⟨ih, by simp, ?_⟩
    intro a ha b hb
    simp only [List.mem_map, List.mem_range] at ha
    simp only [List.map_cons, List.map_nil, List.mem_singleton] at hb
    obtain ⟨k, hk, rfl⟩ := ha
    omega

theorem lateWire_zip_fresh (ids : List Nat) (d : List (List UInt8)) (hl : ids.length = d.length) (hn : ids.Nodup) :
    lateWire (ids.zip d) = d := by
  rw [lateWire_fresh _ (by rw [zip_fst ids d hl]; exact hn), zip_snd ids d hl]

theorem txData_txs (id cmd app : Nat) (msgs : List (List UInt8)) : txData (txs id cmd app msgs) = msgs := by
  cases msgs with
  | nil => rfl
  | cons m ms =>
    simp only [txs, txData, List.filterMap_cons, mkTx]
    congr 1
    induction ms with
    | nil => rfl
    | cons x xs ih => simp [List.map_cons, mkTx, ih]

end CfVerif.C05

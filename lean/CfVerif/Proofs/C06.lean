/- Proofs/C06 — basic lemmas for Props/C06: formats, packing, dictionaries, the lock. -/
import CfVerif.Model.C06
import CfVerif.Base.StructLemmas
namespace CfVerif.C06
open CfVerif

/-! ### formats (Tie A: these fail when a format string in the source changes) -/

theorem fmt_readReq : fmtReadReq = [.B, .I, .B] := by decide
theorem fmt_readExp : fmtReadExp = [.B, .B, .B, .B, .B] := by decide
theorem fmt_writeHdr : fmtWriteHdr = [.B, .I] := by decide
theorem fmt_writeExp : fmtWriteExp = [.B, .B, .B, .B, .B] := by decide
theorem fmt_ack : fmtAck = [.I, .B] := by decide
theorem fmt_readReply : fmtReadReply = [.I, .B] := by decide

theorem packUnsigned_nat (k n : Nat) :
    packUnsigned k (n : Int) = if n < 256 ^ k then .ok (leBytes k n) else .error .structError := rfl

/-! ### Gen obligations used by the lemmas below -/
theorem gen_readMax_byte : Gen.C06.readMax < 256 := by decide
theorem gen_read_fits : 6 ≤ Gen.C06.maxDataSize := by decide
theorem gen_write_fits : 5 + Gen.C06.writeMax ≤ Gen.C06.maxDataSize := by decide
theorem gen_chans : Gen.C06.chanRead ≠ Gen.C06.chanWrite := by decide

theorem unpack5 (a b c d e : UInt8) : ∃ vs, unpack [.B, .B, .B, .B, .B] [a, b, c, d, e] = .ok vs := by
  simp [unpack, Code.size, Code.takesVal, bind, Except.bind, pure, Except.pure]

theorem leBytes1 (n : Nat) : leBytes 1 n = [UInt8.ofNat (n % 256)] := rfl
theorem leBytes4 (n : Nat) : ∃ a b c d, leBytes 4 n = [a, b, c, d] := ⟨_, _, _, _, rfl⟩

/-- the wire image of a read request -/
def readReqBytes (id cur n : Nat) : List UInt8 := leBytes 1 id ++ (leBytes 4 cur ++ leBytes 1 n)
/-- the 5-byte head `id, address` shared by write requests and all replies -/
def headBytes (id addr : Nat) : List UInt8 := leBytes 1 id ++ leBytes 4 addr

/-- the length asked for by the next read chunk -/
def rdLen (left : Nat) : Nat := if left > Gen.C06.readMax then Gen.C06.readMax else left
/-- the length of the next write chunk -/
def wrLen (restLen : Nat) : Nat := if restLen > Gen.C06.writeMax then Gen.C06.writeMax else restLen

theorem readLen_le (left : Nat) : rdLen left ≤ Gen.C06.readMax := by unfold rdLen; split <;> omega
theorem readLen_le' (left : Nat) : rdLen left ≤ left := by unfold rdLen; split <;> omega
theorem wrLen_le (n : Nat) : wrLen n ≤ Gen.C06.writeMax := by unfold wrLen; split <;> omega
theorem wrLen_le' (n : Nat) : wrLen n ≤ n := by unfold wrLen; split <;> omega

theorem requestNewChunk_ok (r : RReq) (hid : r.id < 256) (hcur : r.cur < 2 ^ 32) :
    requestNewChunk r = .ok (.send Gen.C06.chanRead (readReqBytes r.id r.cur (rdLen r.left))) := by
  have hn : rdLen r.left < 256 ^ 1 := by have := readLen_le r.left; have := gen_readMax_byte; omega
  have h4 : r.cur < 256 ^ 4 := by omega
  have h1 : r.id < 256 ^ 1 := by omega
  obtain ⟨a, b, c, d, h4b⟩ := leBytes4 r.cur
  unfold requestNewChunk
  simp only [fmt_readReq, fmt_readExp]
  have hp : pack [.B, .I, .B] [.int r.id, .int r.cur, .int (rdLen r.left)] =
      .ok (readReqBytes r.id r.cur (rdLen r.left)) := by
    simp [pack, packOne, packUnsigned_nat, h4, h1, hn, bind, Except.bind, pure, Except.pure, readReqBytes]
  have : (if r.left > Gen.C06.readMax then Gen.C06.readMax else r.left) = rdLen r.left := rfl
  simp only [this, hp]
  have hd : (readReqBytes r.id r.cur (rdLen r.left)).dropLast = [UInt8.ofNat (r.id % 256), a, b, c, d] := by
    simp [readReqBytes, leBytes1, h4b]
  obtain ⟨vs, hv⟩ := unpack5 (UInt8.ofNat (r.id % 256)) a b c d
  rw [hd, hv]
  have hl : (readReqBytes r.id r.cur (rdLen r.left)).length = 6 := by simp [readReqBytes]
  have := gen_read_fits
  simp only [sendPacket, hl]
  rw [if_neg (by omega)]

/-- the request after `_write_new_chunk` -/
def WReq.afterChunk (w : WReq) : WReq :=
  { w with rest := w.rest.drop (wrLen w.rest.length), addrAdd := wrLen w.rest.length,
           left := w.left - wrLen w.rest.length }

theorem writeNewChunk_ok (w : WReq) (hid : w.id < 256) (hcur : w.cur < 2 ^ 32) :
    writeNewChunk w = (w.afterChunk, .ok (.send Gen.C06.chanWrite
      (headBytes w.id w.cur ++ w.rest.take (wrLen w.rest.length)))) := by
  have h4 : w.cur < 256 ^ 4 := by omega
  have h1 : w.id < 256 ^ 1 := by omega
  obtain ⟨a, b, c, d, h4b⟩ := leBytes4 w.cur
  unfold writeNewChunk
  simp only [fmt_writeHdr, fmt_writeExp]
  have hp : pack [.B, .I] [.int w.id, .int w.cur] = .ok (headBytes w.id w.cur) := by
    simp [pack, packOne, packUnsigned_nat, h4, h1, bind, Except.bind, pure, Except.pure, headBytes]
  have : (if w.rest.length > Gen.C06.writeMax then Gen.C06.writeMax else w.rest.length) = wrLen w.rest.length := rfl
  simp only [this, hp]
  have hd : headBytes w.id w.cur = [UInt8.ofNat (w.id % 256), a, b, c, d] := by
    simp [headBytes, leBytes1, h4b]
  obtain ⟨vs, hv⟩ := unpack5 (UInt8.ofNat (w.id % 256)) a b c d
  rw [hd, hv]
  have hl : ([UInt8.ofNat (w.id % 256), a, b, c, d] ++ List.take (wrLen w.rest.length) w.rest).length ≤ Gen.C06.maxDataSize := by
    have := gen_write_fits
    have := wrLen_le w.rest.length
    simp only [List.length_append, List.length_cons, List.length_nil, List.length_take]
    omega
  simp only [sendPacket]
  rw [if_neg (by omega)]
  simp [WReq.afterChunk, List.length_take, Nat.min_eq_left (wrLen_le' _)]


/-! ### dictionaries -/

section Dict
variable {α : Type}

def dkeys (d : List (Nat × α)) : List Nat := d.map (·.1)

theorem dhas_eq_isSome (d : List (Nat × α)) (k : Nat) : dhas d k = (dget? d k).isSome := by
  induction d with
  | nil => rfl
  | cons e es ih =>
    simp only [dhas, List.any_cons, dget?] at *
    by_cases h : e.1 == k <;> simp [h, ih]

theorem dget?_dset_same (d : List (Nat × α)) (k : Nat) (v : α) : dget? (dset d k v) k = some v := by
  induction d with
  | nil => simp [dset, dget?]
  | cons e es ih =>
    by_cases h : e.1 == k <;> simp [dset, dget?, h, ih]

theorem dget?_dset_other (d : List (Nat × α)) {k k' : Nat} (v : α) (h : k' ≠ k) :
    dget? (dset d k v) k' = dget? d k' := by
  induction d with
  | nil => simp [dset, dget?]; intro h'; exact absurd h'.symm h
  | cons e es ih =>
    by_cases h1 : e.1 == k
    · have : e.1 = k := by simpa using h1
      simp [dset, dget?, this, Ne.symm h]
    · by_cases h2 : e.1 == k' <;> simp [dset, dget?, h1, h2, ih]

theorem dget?_derase_same (d : List (Nat × α)) (k : Nat) : dget? (derase d k) k = none := by
  induction d with
  | nil => rfl
  | cons e es ih =>
    by_cases h : e.1 == k <;> simp [derase, dget?, h, ih]

theorem dget?_derase_other (d : List (Nat × α)) {k k' : Nat} (h : k' ≠ k) :
    dget? (derase d k) k' = dget? d k' := by
  induction d with
  | nil => rfl
  | cons e es ih =>
    by_cases h1 : e.1 == k
    · have : e.1 = k := by simpa using h1
      simp [derase, dget?, this, Ne.symm h, ih]
    · by_cases h2 : e.1 == k' <;> simp [derase, dget?, h1, h2, ih]

theorem dkeys_dset (d : List (Nat × α)) (k : Nat) (v : α) :
    dkeys (dset d k v) = if dhas d k then dkeys d else dkeys d ++ [k] := by
  induction d with
  | nil => simp [dset, dkeys, dhas]
  | cons e es ih =>
    by_cases h : e.1 == k
    · have : e.1 = k := by simpa using h
      simp [dset, dkeys, dhas, h, this]
    · have hb : (e.1 == k) = false := by simpa using h
      simp only [dset, hb, dkeys, List.map_cons, dhas, List.any_cons, Bool.false_or, Bool.false_eq_true,
        ↓reduceIte] at *
      rw [ih]; split <;> simp_all

theorem mem_dkeys_iff (d : List (Nat × α)) (k : Nat) : k ∈ dkeys d ↔ dhas d k = true := by
  simp [dkeys, dhas]

theorem dkeys_derase_sublist (d : List (Nat × α)) (k : Nat) : (dkeys (derase d k)).Sublist (dkeys d) := by
  induction d with
  | nil => simp [derase, dkeys]
  | cons e es ih =>
    by_cases h : e.1 == k
    · simp only [derase, h, dkeys, List.map_cons] at *; exact List.Sublist.cons _ ih
    · simp only [derase, h, dkeys, List.map_cons] at *; exact List.Sublist.cons₂ _ ih

theorem nodup_dkeys_dset {d : List (Nat × α)} (k : Nat) (v : α) (h : (dkeys d).Nodup) :
    (dkeys (dset d k v)).Nodup := by
  rw [dkeys_dset]
  split
  · exact h
  · rename_i hk
    rw [List.nodup_append]
    refine ⟨h, by simp, ?_⟩
    intro a ha b hb
    simp at hb; subst hb
    intro hab; subst hab
    exact hk ((mem_dkeys_iff d a).1 ha)

theorem nodup_dkeys_derase {d : List (Nat × α)} (k : Nat) (h : (dkeys d).Nodup) :
    (dkeys (derase d k)).Nodup := h.sublist (dkeys_derase_sublist d k)

theorem dget?_of_mem {d : List (Nat × α)} (h : (dkeys d).Nodup) {k : Nat} {v : α} (hm : (k, v) ∈ d) :
    dget? d k = some v := by
  induction d with
  | nil => cases hm
  | cons e es ih =>
    simp only [dkeys, List.map_cons, List.nodup_cons] at h
    rcases List.mem_cons.1 hm with rfl | hm
    · simp [dget?]
    · have : e.1 ≠ k := by
        intro he; apply h.1; rw [he]; exact List.mem_map.2 ⟨(k, v), hm, rfl⟩
      have hb : (e.1 == k) = false := by simpa using this
      simp only [dget?, hb]; exact ih h.2 hm

theorem mem_of_dget? {d : List (Nat × α)} {k : Nat} {v : α} (h : dget? d k = some v) : (k, v) ∈ d := by
  induction d with
  | nil => cases h
  | cons e es ih =>
    by_cases hb : e.1 == k
    · have : e.1 = k := by simpa using hb
      simp only [dget?, hb, ↓reduceIte, Option.some.injEq] at h
      have : e = (k, v) := by rw [← this, ← h]
      rw [this]; exact List.mem_cons_self
    · simp only [dget?, hb] at h; exact List.mem_cons_of_mem _ (ih h)

end Dict

/-! ### the lock is never left behind (repaired code) -/

/-- the call returned or raised (it did not block on the lock) and the lock is free afterwards -/
def Step.LockFree (r : Step) : Prop := r.st.lock = false ∧ r.res ≠ .hang

/-- the call did not touch the lock -/
def Step.LockSame (s : St) (r : Step) : Prop := r.st.lock = s.lock ∧ r.res ≠ .hang

theorem memWriteLocked_lock (s : St) (w : WReq) (flush : Bool) :
    (memWriteLocked Variant.fixed s w flush).LockFree := by
  fun_cases memWriteLocked Variant.fixed s w flush <;> simp_all [Step.LockFree, Variant.fixed]

theorem onWriteReply_lock (s : St) (id addr status : Nat) (h : s.lock = false) :
    (onWriteReply Variant.fixed s id addr status).LockFree := by
  fun_cases onWriteReply Variant.fixed s id addr status <;> simp_all [Step.LockFree, Variant.fixed]

theorem handleChanWrite_lock (s : St) (cmd : Nat) (payload : List UInt8) (h : s.lock = false) :
    (handleChanWrite Variant.fixed s cmd payload).LockFree := by
  unfold handleChanWrite
  split
  · simp [Step.LockFree, h]
  · exact onWriteReply_lock s _ _ _ h
  · simp [Step.LockFree, h]

theorem onReadReply_lock (s : St) (id addr status : Nat) (data : List UInt8) :
    (onReadReply s id addr status data).LockSame s := by
  fun_cases onReadReply s id addr status data <;> simp_all [Step.LockSame]

theorem handleChanRead_lock (s : St) (cmd : Nat) (payload : List UInt8) :
    (handleChanRead s cmd payload).LockSame s := by
  unfold handleChanRead
  split
  · simp [Step.LockSame]
  · exact onReadReply_lock s _ _ _ _
  · simp [Step.LockSame]

theorem memRead_lock (s : St) (tag id addr len : Nat) : (memRead s tag id addr len).LockSame s := by
  fun_cases memRead s tag id addr len <;> (try simp_all [Step.LockSame]) <;> rfl

/-- one event of the repaired code: started with the lock free, it never blocks on the lock and leaves it free,
whatever the event is (any API call, ANY received packet, a disconnect) and however it ends (return or exception) -/
theorem step_lock_free (s : St) (e : Ev) (h : s.lock = false) : (step Variant.fixed s e).LockFree := by
  cases e with
  | read tag id addr len => have := memRead_lock s tag id addr len; exact ⟨this.1.trans h, this.2⟩
  | write tag id addr data flush p =>
    simp only [step, memWrite, h, Bool.false_eq_true, ↓reduceIte]
    exact memWriteLocked_lock _ _ _
  | pkt chan data =>
    simp only [step, newPacketCb]
    split
    · exact ⟨h, by simp⟩
    · split
      · exact handleChanWrite_lock s _ _ h
      · split
        · rename_i cmd payload _ _
          have := handleChanRead_lock s cmd.toNat payload
          exact ⟨this.1.trans h, this.2⟩
        · exact ⟨h, by simp⟩
  | disconnect =>
    simp only [step, disconnected, h]
    exact ⟨rfl, by simp⟩

theorem run_lock_free (evs : List Ev) (s : St) (h : s.lock = false) :
    (run Variant.fixed s evs).1.lock = false := by
  induction evs generalizing s with
  | nil => exact h
  | cons e es ih =>
    simp only [run]
    exact ih _ (step_lock_free s e h).1

end CfVerif.C06

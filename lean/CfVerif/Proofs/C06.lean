/- Proofs/C06 — basic lemmas for Props/C06: formats, packing, dictionaries, the lock. -/
import CfVerif.Model.C06
import CfVerif.Base.StructLemmas
namespace CfVerif.C06
open CfVerif

/-! ### formats (Tie A: these fail when a format string in the source changes) -/

theorem fmt_readReq : fmtReadReq = [.B, .I, .B] := by decide
theorem fmt_readExp : fmtReadExp = [.B, .B, .B, .B, .B] := by decide
theorem fmt_writeHdr : fmtWriteHdr = [.B, .I] := by decide
theorem fmt_writeExp : fmtWriteExp = [.B, .B, .B, .B, .B] := by decide
theorem fmt_ack : fmtAck = [.I, .B] := by decide
theorem fmt_readReply : fmtReadReply = [.I, .B] := by decide

theorem packUnsigned_nat (k n : Nat) :
    packUnsigned k (n : Int) = if n < 256 ^ k then .ok (leBytes k n) else .error .structError := rfl

/-! ### the lock is never left behind (repaired code) -/

/-- the call returned or raised (it did not block on the lock) and the lock is free afterwards -/
def Step.LockFree (r : Step) : Prop := r.st.lock = false ∧ r.res ≠ .hang

/-- the call did not touch the lock -/
def Step.LockSame (s : St) (r : Step) : Prop := r.st.lock = s.lock ∧ r.res ≠ .hang

theorem memWriteLocked_lock (s : St) (w : WReq) (flush : Bool) :
    (memWriteLocked Variant.fixed s w flush).LockFree := by
  fun_cases memWriteLocked Variant.fixed s w flush <;> simp_all [Step.LockFree, Variant.fixed]

theorem handleChanWrite_lock (s : St) (cmd : Nat) (payload : List UInt8) (h : s.lock = false) :
    (handleChanWrite Variant.fixed s cmd payload).LockFree := by
  fun_cases handleChanWrite Variant.fixed s cmd payload <;> simp_all [Step.LockFree, Variant.fixed]

theorem handleChanRead_lock (s : St) (cmd : Nat) (payload : List UInt8) :
    (handleChanRead s cmd payload).LockSame s := by
  fun_cases handleChanRead s cmd payload <;> simp_all [Step.LockSame]

theorem memRead_lock (s : St) (tag id addr len : Nat) : (memRead s tag id addr len).LockSame s := by
  fun_cases memRead s tag id addr len <;> (try simp_all [Step.LockSame]) <;> rfl

/-- one event of the repaired code: started with the lock free, it never blocks on the lock and leaves it free,
whatever the event is (any API call, ANY received packet, a disconnect) and however it ends (return or exception) -/
theorem step_lock_free (s : St) (e : Ev) (h : s.lock = false) : (step Variant.fixed s e).LockFree := by
  cases e with
  | read tag id addr len => have := memRead_lock s tag id addr len; exact ⟨this.1.trans h, this.2⟩
  | write tag id addr data flush p =>
    simp only [step, memWrite, h, Bool.false_eq_true, ↓reduceIte]
    exact memWriteLocked_lock _ _ _
  | pkt chan data =>
    simp only [step, newPacketCb]
    split
    · exact ⟨h, by simp⟩
    · split
      · exact handleChanWrite_lock s _ _ h
      · split
        · rename_i cmd payload _ _
          have := handleChanRead_lock s cmd.toNat payload
          exact ⟨this.1.trans h, this.2⟩
        · exact ⟨h, by simp⟩
  | disconnect =>
    simp only [step, disconnected, h]
    exact ⟨rfl, by simp⟩

theorem run_lock_free (evs : List Ev) (s : St) (h : s.lock = false) :
    (run Variant.fixed s evs).1.lock = false := by
  induction evs generalizing s with
  | nil => exact h
  | cons e es ih =>
    simp only [run]
    exact ih _ (step_lock_free s e h).1

end CfVerif.C06

/- Proofs/C06Conc — `Memory.write` statement by statement, interleaved with the incoming-packet thread: with the lock
discipline of the code every interleaved execution is an atomic execution (so every theorem about histories of atomic
events holds for every schedule). -/
import CfVerif.Proofs.C06Retry
namespace CfVerif.C06
open CfVerif

/-- what an event that takes no lock does depends on, and changes, the read records only -/
structure ReadSideOnly (e : Ev) : Prop where
  congr : ∀ s1 s2 : St, s1.reads = s2.reads →
    (step Variant.fixed s1 e).outs = (step Variant.fixed s2 e).outs ∧
    (step Variant.fixed s1 e).st.reads = (step Variant.fixed s2 e).st.reads
  frame : ∀ s : St, (step Variant.fixed s e).st.writes = s.writes ∧ (step Variant.fixed s e).st.lock = s.lock

theorem onReadReply_readSideOnly (id addr status : Nat) (data : List UInt8) :
    (∀ s1 s2 : St, s1.reads = s2.reads →
      (onReadReply s1 id addr status data).outs = (onReadReply s2 id addr status data).outs ∧
      (onReadReply s1 id addr status data).st.reads = (onReadReply s2 id addr status data).st.reads) ∧
    (∀ s : St, (onReadReply s id addr status data).st.writes = s.writes ∧
      (onReadReply s id addr status data).st.lock = s.lock) := by
  refine ⟨fun s1 s2 h => ?_, fun s => ?_⟩
  · unfold onReadReply
    rw [h]
    cases dget? s2.reads id with
    | none => exact ⟨rfl, h⟩
    | some r =>
      simp only
      split
      · cases addData r addr data with
        | mk r' rest =>
          obtain ⟨outs, res⟩ := rest
          cases res with
          | error e => simp [h]
          | ok v =>
            cases v with
            | none => simp [h]
            | some b => cases b <;> simp [h]
      · simp [h]
  · unfold onReadReply
    cases dget? s.reads id with
    | none => exact ⟨rfl, rfl⟩
    | some r =>
      simp only
      split
      · cases addData r addr data with
        | mk r' rest =>
          obtain ⟨outs, res⟩ := rest
          cases res with
          | error e => exact ⟨rfl, rfl⟩
          | ok v =>
            cases v with
            | none => exact ⟨rfl, rfl⟩
            | some b => cases b <;> exact ⟨rfl, rfl⟩
      · exact ⟨rfl, rfl⟩

/-- a received packet that `_handle_chan_write` does not get to lock for: another channel, or too short to unpack -/
theorem pkt_readSideOnly {chan : Nat} {data : List UInt8} (h : ¬ (chan = Gen.C06.chanWrite ∧ 6 ≤ data.length)) :
    ReadSideOnly (.pkt chan data) := by
  cases data with
  | nil => exact ⟨fun _ _ h => ⟨rfl, h⟩, fun _ => ⟨rfl, rfl⟩⟩
  | cons cmd payload =>
    by_cases hc : chan = Gen.C06.chanWrite
    · have hshort : payload.length < 5 := by
        have : ¬ 6 ≤ (cmd :: payload).length := fun h' => h ⟨hc, h'⟩
        simp only [List.length_cons] at this; omega
      have herr : ∃ e, unpack fmtAck (payload.take 5) = .error e := by
        rw [fmt_ack]
        rcases unpack_take5 payload with h1 | ⟨a, b, c, d, e, h2, _⟩
        · exact h1
        · have := congrArg List.length h2
          simp only [List.length_take, List.length_cons, List.length_nil] at this; omega
      obtain ⟨e, he⟩ := herr
      have hq : ∀ s : St, step Variant.fixed s (.pkt chan (cmd :: payload)) = ⟨s, [], .raised e⟩ := by
        intro s; simp only [step, newPacketCb, hc, ↓reduceIte, handleChanWrite, he]
      exact ⟨fun s1 s2 h => by rw [hq, hq]; exact ⟨rfl, h⟩, fun s => by rw [hq]; exact ⟨rfl, rfl⟩⟩
    · by_cases hr : chan = Gen.C06.chanRead
      · have hq : ∀ s : St, step Variant.fixed s (.pkt chan (cmd :: payload)) = handleChanRead s cmd.toNat payload := by
          intro s; subst hr; simp only [step, newPacketCb, if_neg hc, ↓reduceIte]
        have key := onReadReply_readSideOnly
        refine ⟨fun s1 s2 h => ?_, fun s => ?_⟩
        · rw [hq, hq]; unfold handleChanRead
          split
          · exact ⟨rfl, h⟩
          · exact (key _ _ _ _).1 s1 s2 h
          · exact ⟨rfl, h⟩
        · rw [hq]; unfold handleChanRead
          split
          · exact ⟨rfl, rfl⟩
          · exact (key _ _ _ _).2 s
          · exact ⟨rfl, rfl⟩
      · have hq : ∀ s : St, step Variant.fixed s (.pkt chan (cmd :: payload)) = ⟨s, [], .ret none⟩ := by
          intro s; simp only [step, newPacketCb, hc, ↓reduceIte, hr]
        exact ⟨fun s1 s2 h => by rw [hq, hq]; exact ⟨rfl, h⟩, fun s => by rw [hq]; exact ⟨rfl, rfl⟩⟩


/-! ### the window of `read()`: the request is registered, its packet not yet sent -/

theorem dget?_append_other {α : Type} (X : List (Nat × α)) {k id : Nat} (r : α) (h : k ≠ id) :
    dget? (X ++ [(id, r)]) k = dget? X k := by
  induction X with
  | nil =>
    have : ¬ id = k := fun h' => h h'.symm
    simp [dget?, this]
  | cons e es ih => by_cases he : e.1 == k <;> simp [dget?, he, ih]

theorem dset_append_of_get {α : Type} (X Y : List (Nat × α)) {k : Nat} {v0 : α} (v : α) (h : dget? X k = some v0) :
    dset (X ++ Y) k v = dset X k v ++ Y := by
  induction X with
  | nil => simp [dget?] at h
  | cons e es ih =>
    by_cases he : e.1 == k
    · simp [dset, he]
    · simp only [dget?, he, Bool.false_eq_true, ↓reduceIte] at h
      simp [dset, he, ih h]

theorem derase_append_single {α : Type} (X : List (Nat × α)) {k id : Nat} (r : α) (h : k ≠ id) :
    derase (X ++ [(id, r)]) k = derase X k ++ [(id, r)] := by
  induction X with
  | nil =>
    have : ¬ id = k := fun h' => h h'.symm
    simp [derase, this]
  | cons e es ih => by_cases he : e.1 == k <;> simp [derase, he, ih]

theorem dset_absent {α : Type} (X : List (Nat × α)) {k : Nat} (v : α) (h : dhas X k = false) :
    dset X k v = X ++ [(k, v)] := by
  induction X with
  | nil => rfl
  | cons e es ih =>
    simp only [dhas, List.any_cons, Bool.or_eq_false_iff] at h
    have h2 : dhas es k = false := h.2
    simp [dset, h.1, ih h2]

/-- the write-reply handler neither reads nor changes the read records -/
theorem onWriteReply_reads (v : Variant) (s : St) (rd : List (Nat × RReq)) (id addr status : Nat) :
    onWriteReply v { s with reads := rd } id addr status =
      ⟨{ (onWriteReply v s id addr status).st with reads := rd }, (onWriteReply v s id addr status).outs,
        (onWriteReply v s id addr status).res⟩ ∧
    (onWriteReply v s id addr status).st.reads = s.reads := by
  unfold onWriteReply
  simp only [St.queue_def]
  split
  · exact ⟨rfl, rfl⟩
  · split
    · exact ⟨rfl, rfl⟩
    · split
      · exact ⟨rfl, rfl⟩
      · split
        · split <;> exact ⟨rfl, rfl⟩
        · split <;> exact ⟨rfl, rfl⟩

theorem handleChanWrite_reads (v : Variant) (s : St) (rd : List (Nat × RReq)) (cmd : Nat) (payload : List UInt8) :
    handleChanWrite v { s with reads := rd } cmd payload =
      ⟨{ (handleChanWrite v s cmd payload).st with reads := rd }, (handleChanWrite v s cmd payload).outs,
        (handleChanWrite v s cmd payload).res⟩ ∧
    (handleChanWrite v s cmd payload).st.reads = s.reads := by
  unfold handleChanWrite
  split
  · exact ⟨rfl, rfl⟩
  · exact onWriteReply_reads ..
  · exact ⟨rfl, rfl⟩

/-- the read-reply handler for another memory does not see the registered request -/
theorem onReadReply_window (a : St) (r : RReq) {id k : Nat} (hk : k ≠ id) (addr status : Nat) (data : List UInt8) :
    (onReadReply { a with reads := a.reads ++ [(id, r)] } k addr status data).outs = (onReadReply a k addr status data).outs ∧
    (onReadReply { a with reads := a.reads ++ [(id, r)] } k addr status data).st.reads =
      (onReadReply a k addr status data).st.reads ++ [(id, r)] ∧
    (onReadReply { a with reads := a.reads ++ [(id, r)] } k addr status data).st.writes = (onReadReply a k addr status data).st.writes ∧
    (onReadReply { a with reads := a.reads ++ [(id, r)] } k addr status data).st.lock = (onReadReply a k addr status data).st.lock := by
  unfold onReadReply
  simp only [dget?_append_other a.reads r hk]
  cases hg : dget? a.reads k with
  | none => exact ⟨rfl, rfl, rfl, rfl⟩
  | some r0 =>
    simp only
    split
    · cases addData r0 addr data with
      | mk r' rest =>
        obtain ⟨outs, res⟩ := rest
        cases res with
        | error e => exact ⟨rfl, dset_append_of_get _ _ _ hg, rfl, rfl⟩
        | ok v =>
          cases v with
          | none => exact ⟨rfl, dset_append_of_get _ _ _ hg, rfl, rfl⟩
          | some b =>
            cases b
            · exact ⟨rfl, dset_append_of_get _ _ _ hg, rfl, rfl⟩
            · exact ⟨rfl, derase_append_single _ _ hk, rfl, rfl⟩
    · exact ⟨rfl, derase_append_single _ _ hk, rfl, rfl⟩

/-- a packet that is not a read reply for memory `id` is handled the same way whether or not the request of `id` is
registered: same outputs, same changes, the registered request stays last -/
theorem pkt_window_frame {chan : Nat} {data : List UInt8} {id : Nat}
    (h : ¬ (chan = Gen.C06.chanRead ∧ (data.headD 0).toNat = id)) (a : St) (r : RReq) :
    (step Variant.fixed { a with reads := a.reads ++ [(id, r)] } (.pkt chan data)).outs = (step Variant.fixed a (.pkt chan data)).outs ∧
    (step Variant.fixed { a with reads := a.reads ++ [(id, r)] } (.pkt chan data)).st.reads =
      (step Variant.fixed a (.pkt chan data)).st.reads ++ [(id, r)] ∧
    (step Variant.fixed { a with reads := a.reads ++ [(id, r)] } (.pkt chan data)).st.writes =
      (step Variant.fixed a (.pkt chan data)).st.writes ∧
    (step Variant.fixed { a with reads := a.reads ++ [(id, r)] } (.pkt chan data)).st.lock =
      (step Variant.fixed a (.pkt chan data)).st.lock := by
  cases data with
  | nil => exact ⟨rfl, rfl, rfl, rfl⟩
  | cons cmd payload =>
    by_cases hc : chan = Gen.C06.chanWrite
    · have hq : ∀ s : St, step Variant.fixed s (.pkt chan (cmd :: payload)) = handleChanWrite Variant.fixed s cmd.toNat payload := by
        intro s; simp only [step, newPacketCb, hc, ↓reduceIte]
      rw [hq, hq]
      obtain ⟨h1, h2⟩ := handleChanWrite_reads Variant.fixed a (a.reads ++ [(id, r)]) cmd.toNat payload
      rw [h1]
      exact ⟨rfl, by rw [h2], rfl, rfl⟩
    · by_cases hr : chan = Gen.C06.chanRead
      · have hq : ∀ s : St, step Variant.fixed s (.pkt chan (cmd :: payload)) = handleChanRead s cmd.toNat payload := by
          intro s; subst hr; simp only [step, newPacketCb, if_neg hc, ↓reduceIte]
        have hk : cmd.toNat ≠ id := fun h' => h ⟨hr, by simpa using h'⟩
        rw [hq, hq]; unfold handleChanRead
        split
        · exact ⟨rfl, rfl, rfl, rfl⟩
        · exact onReadReply_window a r hk _ _ _
        · exact ⟨rfl, rfl, rfl, rfl⟩
      · have hq : ∀ s : St, step Variant.fixed s (.pkt chan (cmd :: payload)) = ⟨s, [], .ret none⟩ := by
          intro s; simp only [step, newPacketCb, hc, ↓reduceIte, hr]
        rw [hq, hq]; exact ⟨rfl, rfl, rfl, rfl⟩

/-- the incoming thread never registers a read request -/
theorem pkt_keeps_absent {a : St} (ha : a.Ok) {id : Nat} (h : dhas a.reads id = false) (chan : Nat) (data : List UInt8) :
    dhas (step Variant.fixed a (.pkt chan data)).st.reads id = false := by
  have h3 := (step_effect ha (e := .pkt chan data) trivial).2.2 id
  have hnone : dget? a.reads id = none := by
    rw [dhas_eq_isSome] at h
    cases hg : dget? a.reads id with
    | none => rfl
    | some _ => rw [hg] at h; cases h
  simp only [St.readTags, hnone, Ev.readAdded, List.append_nil] at h3
  rw [dhas_eq_isSome]
  cases hg : dget? (step Variant.fixed a (.pkt chan data)).st.reads id with
  | none => rfl
  | some r0 =>
    rw [hg] at h3
    have := congrArg List.length h3
    simp at this

/-! ### the simulation: interleaved state vs. the state of the atomic run of the linearisation so far -/

def WCall.ev (k : WCall) : Ev := .write k.tag k.id k.addr k.data k.flush k.progressCb
def WCall.req (k : WCall) : WReq := WReq.new k.tag k.id k.addr k.data k.progressCb
/-- the request after `prepare` (the chunk is cut off, the bookkeeping fields are still the old ones) -/
def WCall.prepared (k : WCall) : WReq := { k.req with rest := k.req.rest.drop (wrLen k.data.length) }

/-- the code: `wreq.start()` inside the `with` block -/
def codeCV : ConcVariant := ⟨true⟩

def RCall.ev (k : RCall) : Ev := .read k.tag k.id k.addr k.len
def RCall.req (k : RCall) : RReq := RReq.new k.tag k.id k.addr k.len

/-- a `write()` call in progress: interleaved state `s`, atomic state `a` -/
def SimW (k : WCall) (s a : St) : Prop :=
  k.ev.WF ∧
    ((k.pc = 0 ∧ a = s) ∨
     (a.lock = false ∧ s.lock = true ∧ a.reads = s.reads ∧
      ((k.pc = 1 ∧ (if k.flush then (a.queue k.id).take 1 else a.queue k.id) = [] ∧
          s.writes = dset (ensureQueue a.writes k.id) k.id [k.req]) ∨
       (k.pc = 2 ∧ (if k.flush then (a.queue k.id).take 1 else a.queue k.id) = [] ∧
          s.writes = dset (ensureQueue a.writes k.id) k.id [k.prepared] ∧ k.chunk = k.data.take (wrLen k.data.length)) ∨
       (k.pc = 3 ∧ k.chunk = k.data.take (wrLen k.data.length) ∧
          ∃ W0, s.writes = dset W0 k.id [k.prepared] ∧ a.writes = dset W0 k.id [k.req.afterChunk]) ∨
       (k.pc = 4 ∧ a.writes = s.writes))))

/-- a `read()` call in progress: nothing has happened (0), the check found no request (1), the request is registered
but its packet not yet sent (2): the atomic `read` is still to come -/
def SimR (k : RCall) (s a : St) : Prop :=
  k.ev.WF ∧
    ((k.pc = 0 ∧ a = s) ∨ (k.pc = 1 ∧ a = s ∧ dhas a.reads k.id = false) ∨
     (k.pc = 2 ∧ dhas a.reads k.id = false ∧ s = { a with reads := a.reads ++ [(k.id, k.req)] }))

def Sim (c : CState) (a : St) : Prop :=
  match c.call with
  | none => a = c.s
  | some (.w k) => SimW k c.s a
  | some (.r k) => SimR k c.s a

theorem dset_dset {α : Type} (d : List (Nat × α)) (k : Nat) (x y : α) : dset (dset d k x) k y = dset d k y := by
  induction d with
  | nil => simp [dset]
  | cons e es ih =>
    by_cases h : e.1 == k
    · simp [dset, h]
    · simp [dset, h, ih]

theorem updateReq_single (W : List (Nat × List WReq)) (id : Nat) (w : WReq) (f : WReq → WReq) :
    updateReq (dset W id [w]) id w.tag f = dset W id [f w] := by
  simp [updateReq, dget?_dset_same, dset_dset]

theorem St.ext' {a b : St} (h1 : a.reads = b.reads) (h2 : a.writes = b.writes) (h3 : a.lock = b.lock) : a = b := by
  cases a; cases b; simp_all

theorem run_single (v : Variant) (s : St) (e : Ev) : run v s [e] = ((step v s e).st, (step v s e).outs) := by
  simp [run]

theorem SimW.unlocked {k : WCall} {s a : St} (hsim : SimW k s a) (hl : ¬ s.lock = true) : a = s := by
  rcases hsim.2 with ⟨_, h0⟩ | ⟨_, h1, _⟩
  · exact h0
  · exact absurd h1 hl

theorem SimW.of_eq {k : WCall} {s a : St} (hsim : SimW k s a) (hl : ¬ s.lock = true) (s' : St) : SimW k s' s' := by
  rcases hsim.2 with ⟨h0, _⟩ | ⟨_, h1, _⟩
  · exact ⟨hsim.1, Or.inl ⟨h0, rfl⟩⟩
  · exact absurd h1 hl

def CAct.WF : CAct → Prop
  | .begin tag id addr data f p => (Ev.write tag id addr data f p).WF
  | .beginRead tag id addr len => (Ev.read tag id addr len).WF
  | _ => True

theorem memRead_has {a : St} {tag id addr len : Nat} (h : dhas a.reads id = true) :
    step Variant.fixed a (.read tag id addr len) = ⟨a, [], .ret (some false)⟩ := by
  simp [step, memRead, h]

theorem memRead_new {a : St} {tag id addr len : Nat} (h : dhas a.reads id = false)
    (hwf : (Ev.read tag id addr len).WF) :
    step Variant.fixed a (.read tag id addr len) =
      ⟨{ a with reads := a.reads ++ [(id, RReq.new tag id addr len)] },
       [.send Gen.C06.chanRead (readReqBytes id addr (rdLen len))], .ret (some true)⟩ := by
  have hrn := requestNewChunk_ok (RReq.new tag id addr len) hwf.1 hwf.2.1
  simp only [step, memRead, h, Bool.false_eq_true, ↓reduceIte, hrn, dset_absent _ _ h]
  rfl

/-- one step of any schedule of the code is matched by the atomic run of its linearisation -/
theorem cexec_sim {c : CState} {a : St} (hsim : Sim c a) (ha : a.Ok) {act : CAct} (hwf : act.WF)
    {c1 : CState} {o1 : List Out} {l1 : List Ev} (h : cexec codeCV c act = some (c1, o1, l1)) :
    ∃ a1, run Variant.fixed a l1 = (a1, o1) ∧ Sim c1 a1 ∧ a1.Ok := by
  obtain ⟨s, call⟩ := c
  cases act with
  | begin tag id addr data f p =>
    simp only [cexec] at h
    cases call with
    | some k => cases h
    | none =>
      simp only [Option.some.injEq, Prod.mk.injEq] at h
      obtain ⟨rfl, rfl, rfl⟩ := h
      exact ⟨a, rfl, by simp only [Sim, SimW]; exact ⟨hwf, Or.inl ⟨trivial, hsim⟩⟩, ha⟩
  | beginRead tag id addr len =>
    simp only [cexec] at h
    cases call with
    | some k => cases h
    | none =>
      simp only [Option.some.injEq, Prod.mk.injEq] at h
      obtain ⟨rfl, rfl, rfl⟩ := h
      exact ⟨a, rfl, by simp only [Sim, SimR]; exact ⟨hwf, Or.inl ⟨trivial, hsim⟩⟩, ha⟩
  | env e =>
    cases e with
    | read _ _ _ _ => simp [cexec] at h
    | write _ _ _ _ _ _ => simp [cexec] at h
    | disconnect =>
      simp only [cexec] at h
      split at h
      · cases h
      · rename_i hen
        simp only [Option.some.injEq, Prod.mk.injEq] at h
        obtain ⟨rfl, rfl, rfl⟩ := h
        have hl : ¬ s.lock = true := fun h' => hen (Or.inl h')
        have hok := fun (x : St) (hx : x.Ok) => (step_effect hx (e := .disconnect) trivial).1
        cases call with
        | none =>
          have : a = s := hsim
          subst this
          exact ⟨_, run_single _ _ _, rfl, hok _ ha⟩
        | some kk =>
          cases kk with
          | w k =>
            have hsim' : SimW k s a := hsim
            have := hsim'.unlocked hl
            subst this
            exact ⟨_, run_single _ _ _, hsim'.of_eq hl _, hok _ ha⟩
          | r k =>
            have hsim' : SimR k s a := hsim
            have hinit : (step Variant.fixed a .disconnect).st = St.init := (disconnected_effect ha rfl).1
            rcases hsim'.2 with ⟨h0, hac⟩ | ⟨h1, hac, _⟩ | ⟨h2, _, _⟩
            · subst hac
              exact ⟨_, run_single _ _ _, ⟨hsim'.1, Or.inl ⟨h0, rfl⟩⟩, hok _ ha⟩
            · subst hac
              refine ⟨_, run_single _ _ _, ⟨hsim'.1, Or.inr (Or.inl ⟨h1, rfl, ?_⟩)⟩, hok _ ha⟩
              rw [hinit]; rfl
            · exact absurd (Or.inr (by simp [CState.inWindow, h2])) hen
    | pkt chan data =>
      simp only [cexec] at h
      split at h
      · cases h
      · rename_i hnb
        split at h
        · cases h
        · rename_i hnw
          simp only [Option.some.injEq, Prod.mk.injEq] at h
          obtain ⟨rfl, rfl, rfl⟩ := h
          have hokstep := (step_effect ha (e := .pkt chan data) trivial).1
          cases call with
          | none =>
            have : a = s := hsim
            subst this
            exact ⟨_, run_single _ _ _, rfl, hokstep⟩
          | some kk =>
            cases kk with
            | r k =>
              have hsim' : SimR k s a := hsim
              rcases hsim'.2 with ⟨h0, hac⟩ | ⟨h1, hac, hab⟩ | ⟨h2, hab, hs⟩
              · subst hac
                exact ⟨_, run_single _ _ _, ⟨hsim'.1, Or.inl ⟨h0, rfl⟩⟩, hokstep⟩
              · subst hac
                exact ⟨_, run_single _ _ _, ⟨hsim'.1, Or.inr (Or.inl ⟨h1, rfl, pkt_keeps_absent ha hab _ _⟩)⟩, hokstep⟩
              · -- the window: the packet is not a read reply for this memory
                have hne : ¬ (chan = Gen.C06.chanRead ∧ (data.headD 0).toNat = k.id) := by
                  intro hh
                  exact hnw ⟨hh.1, by have h3 := hh.2; simp only [List.headD_eq_head?_getD] at h3; simp [CState.inWindow, h2, h3]⟩
                obtain ⟨ho, hr, hw, hlk⟩ := pkt_window_frame hne a k.req
                subst hs
                refine ⟨_, by rw [run_single, ho], ⟨hsim'.1, Or.inr (Or.inr ⟨h2, pkt_keeps_absent ha hab _ _, ?_⟩)⟩, hokstep⟩
                exact St.ext' hr hw hlk
            | w k =>
              have hsim' : SimW k s a := hsim
              by_cases hl : s.lock = true
              · -- the caller holds the lock: this packet cannot be a write reply the handler would lock for
                rcases hsim'.2 with ⟨_, hac⟩ | ⟨hal, hcl, hreads, hrest⟩
                · subst hac; exact absurd hl (by simp [ha.lock])
                · have hro : ReadSideOnly (.pkt chan data) := pkt_readSideOnly (fun hh => hnb ⟨hh.1, hcl, hh.2⟩)
                  obtain ⟨ho, hr⟩ := hro.congr a s hreads
                  obtain ⟨hwa, hla⟩ := hro.frame a
                  obtain ⟨hwc, hlc⟩ := hro.frame s
                  refine ⟨_, by rw [run_single, ho], ?_, hokstep⟩
                  refine ⟨hsim'.1, Or.inr ⟨by rw [hla]; exact hal, by rw [hlc]; exact hcl, hr, ?_⟩⟩
                  have hq : (step Variant.fixed a (.pkt chan data)).st.queue k.id = a.queue k.id := by
                    simp [St.queue_def, hwa]
                  rw [hq, hwa, hwc]
                  exact hrest
              · have hac := hsim'.unlocked hl
                subst hac
                exact ⟨_, run_single _ _ _, hsim'.of_eq hl _, hokstep⟩
  | stepCall =>
    simp only [cexec] at h
    cases call with
    | none => cases h
    | some kk =>
    cases kk with
    | r k =>
      have hsim' : SimR k s a := hsim
      obtain ⟨hkwf, hcases⟩ := hsim'
      have hkev : k.ev = Ev.read k.tag k.id k.addr k.len := rfl
      simp only at h
      rcases hcases with ⟨hpc, hac⟩ | ⟨hpc, hac, hab⟩ | ⟨hpc, hab, hs⟩
      · -- the check
        subst hac
        simp only [hpc, ↓reduceIte] at h
        split at h
        · rename_i hhas
          simp only [Option.some.injEq, Prod.mk.injEq] at h
          obtain ⟨rfl, rfl, rfl⟩ := h
          refine ⟨a, by rw [run_single, memRead_has hhas], rfl, ha⟩
        · rename_i hhas
          simp only [Option.some.injEq, Prod.mk.injEq] at h
          obtain ⟨rfl, rfl, rfl⟩ := h
          exact ⟨a, rfl, ⟨hkwf, Or.inr (Or.inl ⟨rfl, rfl, by simpa using hhas⟩)⟩, ha⟩
      · -- the request is registered
        subst hac
        simp [hpc] at h
        obtain ⟨rfl, rfl, rfl⟩ := h
        refine ⟨a, rfl, ⟨hkwf, Or.inr (Or.inr ⟨rfl, hab, ?_⟩)⟩, ha⟩
        rw [dset_absent _ _ hab]; rfl
      · -- `rreq.start()`: the packet leaves; the linearisation point of `read()`
        have hrn := requestNewChunk_ok (RReq.new k.tag k.id k.addr k.len) hkwf.1 hkwf.2.1
        simp [hpc, hrn] at h
        obtain ⟨rfl, rfl, rfl⟩ := h
        have hmr := memRead_new hab hkwf
        have hok := (step_effect ha (e := k.ev) hkwf).1
        rw [hkev] at hok
        refine ⟨_, by rw [run_single, hmr]; rfl, ?_, hok⟩
        rw [hmr]
        exact hs.symm
    | w k =>
      have hsim' : SimW k s a := hsim
      obtain ⟨hkwf, hcases⟩ := hsim'
      simp only at h
      have hstepw : ∀ x : St, step Variant.fixed x (Ev.write k.tag k.id k.addr k.data k.flush k.progressCb) =
          memWrite Variant.fixed x k.tag k.id k.addr k.data k.flush k.progressCb := fun _ => rfl
      have hkev : k.ev = Ev.write k.tag k.id k.addr k.data k.flush k.progressCb := rfl
      have hn : (if k.data.length > Gen.C06.writeMax then Gen.C06.writeMax else k.data.length) = wrLen k.data.length := rfl
      rcases hcases with ⟨hpc, hac⟩ | ⟨hal, hcl, hreads, hrest⟩
      · -- pc 0: take the lock, update the queue
        subst hac
        simp only [hpc, ↓reduceIte, codeCV] at h
        split at h
        · cases h
        · rename_i hl
          have hq0 : (dget? (ensureQueue a.writes k.id) k.id).getD [] = a.queue k.id := by
            rw [queue_ensureQueue]; rfl
          rw [hq0] at h
          have hmw := memWrite_eq ha hkwf
          cases hq : (if k.flush then (a.queue k.id).take 1 else a.queue k.id) with
          | nil =>
            rw [hq] at h
            simp only [List.isEmpty_nil, ↓reduceIte, List.nil_append, Option.some.injEq, Prod.mk.injEq] at h
            obtain ⟨rfl, rfl, rfl⟩ := h
            refine ⟨a, rfl, ?_, ha⟩
            simp only [Sim, SimW]
            exact ⟨hkwf, Or.inr ⟨by simpa using hl, trivial, trivial, Or.inl ⟨trivial, hq, rfl⟩⟩⟩
          | cons hd tl =>
            rw [hq] at h hmw
            simp only [List.isEmpty_cons, Bool.false_eq_true, ↓reduceIte, Option.some.injEq, Prod.mk.injEq] at h
            obtain ⟨rfl, rfl, rfl⟩ := h
            have hok := (step_effect ha (e := k.ev) hkwf).1
            rw [hkev] at hok
            refine ⟨_, by rw [run_single, hstepw, hmw], ?_, hok⟩
            rw [hstepw, hmw]
            simp only [Sim, SimW]
            exact ⟨hkwf, Or.inr ⟨trivial, trivial, trivial, Or.inr (Or.inr (Or.inr ⟨trivial, by simp [WCall.req]⟩))⟩⟩
      · rcases hrest with ⟨hpc, hq, hw⟩ | ⟨hpc, hq, hw, hch⟩ | ⟨hpc, hch, W0, hw, haw⟩ | ⟨hpc, hw⟩
        · -- pc 1: cut the chunk off `_data`
          simp [hpc] at h
          obtain ⟨rfl, rfl, rfl⟩ := h
          refine ⟨a, rfl, ?_, ha⟩
          simp only [Sim, SimW]
          refine ⟨hkwf, Or.inr ⟨hal, hcl, hreads, Or.inr (Or.inl ⟨trivial, hq, ?_, by rw [hn]⟩)⟩⟩
          rw [hw, hn]
          exact updateReq_single _ _ k.req _
        · -- pc 2: `send_packet`: the linearisation point of `write()`
          simp [hpc] at h
          obtain ⟨rfl, rfl, rfl⟩ := h
          have hmw := memWrite_eq ha hkwf
          rw [hq] at hmw
          have hok := (step_effect ha (e := k.ev) hkwf).1
          rw [hkev] at hok
          refine ⟨_, ?_, ?_, hok⟩
          · rw [run_single, hstepw, hmw, hch]; simp [headBytes]
          · rw [hstepw, hmw]
            simp only [Sim, SimW]
            exact ⟨hkwf, Or.inr ⟨trivial, hcl, hreads, Or.inr (Or.inr (Or.inl ⟨trivial, hch, _, hw, rfl⟩))⟩⟩
        · -- pc 3: `_addr_add`, `_bytes_left` (the reply cannot have been handled: the handler needs the lock)
          simp [hpc] at h
          obtain ⟨rfl, rfl, rfl⟩ := h
          refine ⟨a, rfl, ?_, ha⟩
          simp only [Sim, SimW]
          refine ⟨hkwf, Or.inr ⟨hal, hcl, hreads, Or.inr (Or.inr (Or.inr ⟨trivial, ?_⟩))⟩⟩
          rw [haw, hw]
          have hlen : k.chunk.length = wrLen k.data.length := by
            rw [hch, List.length_take]; exact Nat.min_eq_left (wrLen_le' _)
          have := updateReq_single W0 k.id k.prepared
            (fun w => { w with addrAdd := k.chunk.length, left := w.left - k.chunk.length })
          rw [show k.prepared.tag = k.tag from rfl] at this
          rw [this, hlen]
          rfl
        · -- pc 4: the `with` block ends
          have h1 : ¬ k.pc = 0 := by omega
          have h2 : ¬ k.pc = 1 := by omega
          have h3 : ¬ k.pc = 2 := by omega
          have h4 : ¬ k.pc = 3 := by omega
          simp only [h1, h2, h3, h4, ↓reduceIte, codeCV] at h
          simp only [Option.some.injEq, Prod.mk.injEq] at h
          obtain ⟨rfl, rfl, rfl⟩ := h
          refine ⟨a, rfl, ?_, ha⟩
          simp only [Sim, SimW]
          exact St.ext' hreads hw hal


/-! ### whole schedules -/

theorem cexecAll_sim {acts : List CAct} : ∀ {c : CState} {a : St}, Sim c a → a.Ok → (∀ x ∈ acts, x.WF) →
    ∀ {c1 : CState} {o : List Out} {l : List Ev}, cexecAll codeCV c acts = some (c1, o, l) →
    ∃ a1, run Variant.fixed a l = (a1, o) ∧ Sim c1 a1 ∧ a1.Ok := by
  induction acts with
  | nil =>
    intro c a hsim ha _ c1 o l h
    simp only [cexecAll, Option.some.injEq, Prod.mk.injEq] at h
    obtain ⟨rfl, rfl, rfl⟩ := h
    exact ⟨a, rfl, hsim, ha⟩
  | cons x xs ih =>
    intro c a hsim ha hwf c1 o l h
    simp only [cexecAll] at h
    cases h1 : cexec codeCV c x with
    | none => rw [h1] at h; cases h
    | some r1 =>
      obtain ⟨c', o', l'⟩ := r1
      rw [h1] at h
      simp only at h
      cases h2 : cexecAll codeCV c' xs with
      | none => rw [h2] at h; cases h
      | some r2 =>
        obtain ⟨c'', o'', l''⟩ := r2
        rw [h2] at h
        simp only [Option.some.injEq, Prod.mk.injEq] at h
        obtain ⟨rfl, rfl, rfl⟩ := h
        have hx : x.WF := hwf x (List.mem_cons_self ..)
        obtain ⟨a', hr', hsim', ha'⟩ := cexec_sim hsim ha hx h1
        obtain ⟨a'', hr'', hsim'', ha''⟩ := ih hsim' ha' (fun y hy => hwf y (List.mem_cons_of_mem _ hy)) h2
        refine ⟨a'', ?_, hsim'', ha''⟩
        rw [run_append, hr']
        simp only
        rw [hr'']

/-! ### what the linearisation consists of (any lock discipline) -/

def CAct.issued : CAct → List Ev
  | .begin t i a d f p => [.write t i a d f p]
  | .beginRead t i a l => [.read t i a l]
  | _ => []

def CAct.delivered : CAct → List Ev
  | .env e => [e]
  | _ => []

def Ev.isCall : Ev → Bool
  | .write .. => true
  | .read .. => true
  | _ => false

/-- the call in progress has not reached its linearisation point -/
def CState.notYet (c : CState) : List Ev :=
  match c.call with
  | some (.w k) => if k.pc ≤ 2 then [k.ev] else []
  | some (.r k) => [k.ev]
  | none => []

theorem cexec_lin (cv : ConcVariant) {c : CState} {act : CAct} {c1 : CState} {o1 : List Out} {l1 : List Ev}
    (h : cexec cv c act = some (c1, o1, l1)) :
    l1.filter Ev.isCall ++ c1.notYet = c.notYet ++ act.issued ∧ l1.filter (fun e => !e.isCall) = act.delivered := by
  obtain ⟨s, call⟩ := c
  cases act with
  | begin tag id addr data f p =>
    cases call with
    | some k => simp [cexec] at h
    | none =>
      simp only [cexec, Option.some.injEq, Prod.mk.injEq] at h
      obtain ⟨rfl, rfl, rfl⟩ := h
      simp [CState.notYet, CAct.issued, CAct.delivered, WCall.ev]
  | beginRead tag id addr len =>
    cases call with
    | some k => simp [cexec] at h
    | none =>
      simp only [cexec, Option.some.injEq, Prod.mk.injEq] at h
      obtain ⟨rfl, rfl, rfl⟩ := h
      simp [CState.notYet, CAct.issued, CAct.delivered, RCall.ev]
  | env e =>
    cases e with
    | read _ _ _ _ => simp [cexec] at h
    | write _ _ _ _ _ _ => simp [cexec] at h
    | disconnect =>
      simp only [cexec] at h
      split at h
      · cases h
      · simp only [Option.some.injEq, Prod.mk.injEq] at h
        obtain ⟨rfl, rfl, rfl⟩ := h
        simp [CState.notYet, CAct.issued, CAct.delivered, Ev.isCall]
    | pkt chan data =>
      simp only [cexec] at h
      split at h
      · cases h
      · split at h
        · cases h
        · simp only [Option.some.injEq, Prod.mk.injEq] at h
          obtain ⟨rfl, rfl, rfl⟩ := h
          simp [CState.notYet, CAct.issued, CAct.delivered, Ev.isCall]
  | stepCall =>
    cases call with
    | none => simp [cexec] at h
    | some kk =>
    cases kk with
    | r k =>
      simp only [cexec] at h
      by_cases h0 : k.pc = 0
      · simp only [h0, ↓reduceIte] at h
        split at h <;>
        · simp only [Option.some.injEq, Prod.mk.injEq] at h
          obtain ⟨rfl, rfl, rfl⟩ := h
          simp [CState.notYet, CAct.issued, CAct.delivered, Ev.isCall, RCall.ev]
      · by_cases h1 : k.pc = 1
        · simp [h1] at h
          obtain ⟨rfl, rfl, rfl⟩ := h
          simp [CState.notYet, CAct.issued, CAct.delivered, RCall.ev]
        · by_cases h2 : k.pc = 2
          · have e0 : ¬ (2 : Nat) = 0 := by omega
            have e1 : ¬ (2 : Nat) = 1 := by omega
            simp only [h2, e0, e1, ↓reduceIte] at h
            cases hrn : requestNewChunk (RReq.new k.tag k.id k.addr k.len) <;> rw [hrn] at h <;>
            · simp only [Option.some.injEq, Prod.mk.injEq] at h
              obtain ⟨rfl, rfl, rfl⟩ := h
              simp [CState.notYet, CAct.issued, CAct.delivered, Ev.isCall, RCall.ev]
          · simp [h0, h1, h2] at h
    | w k =>
      simp only [cexec] at h
      by_cases h0 : k.pc = 0
      · simp only [h0, ↓reduceIte] at h
        split at h
        · cases h
        · cases hf : k.flush <;> simp only [hf, Bool.false_eq_true, ↓reduceIte] at h <;> split at h <;>
          · simp only [Option.some.injEq, Prod.mk.injEq] at h
            obtain ⟨rfl, rfl, rfl⟩ := h
            simp [CState.notYet, CAct.issued, CAct.delivered, Ev.isCall, WCall.ev, h0, hf]
      · by_cases h1 : k.pc = 1
        · simp [h1] at h
          obtain ⟨rfl, rfl, rfl⟩ := h
          simp [CState.notYet, CAct.issued, CAct.delivered, WCall.ev, h1]
        · by_cases h2 : k.pc = 2
          · simp [h2] at h
            obtain ⟨rfl, rfl, rfl⟩ := h
            simp [CState.notYet, CAct.issued, CAct.delivered, Ev.isCall, WCall.ev, h2]
          · by_cases h3 : k.pc = 3
            · simp [h3] at h
              obtain ⟨rfl, rfl, rfl⟩ := h
              simp [CState.notYet, CAct.issued, CAct.delivered, WCall.ev, h3]
            · simp [h0, h1, h2, h3] at h
              obtain ⟨rfl, rfl, rfl⟩ := h
              have : ¬ k.pc ≤ 2 := by omega
              simp [CState.notYet, CAct.issued, CAct.delivered, this]

theorem cexecAll_lin (cv : ConcVariant) {acts : List CAct} : ∀ {c c1 : CState} {o : List Out} {l : List Ev},
    cexecAll cv c acts = some (c1, o, l) →
    l.filter Ev.isCall ++ c1.notYet = c.notYet ++ acts.flatMap CAct.issued ∧
    l.filter (fun e => !e.isCall) = acts.flatMap CAct.delivered := by
  induction acts with
  | nil =>
    intro c c1 o l h
    simp only [cexecAll, Option.some.injEq, Prod.mk.injEq] at h
    obtain ⟨rfl, rfl, rfl⟩ := h
    simp
  | cons x xs ih =>
    intro c c1 o l h
    simp only [cexecAll] at h
    cases h1 : cexec cv c x with
    | none => rw [h1] at h; cases h
    | some r1 =>
      obtain ⟨c', o', l'⟩ := r1
      rw [h1] at h
      simp only at h
      cases h2 : cexecAll cv c' xs with
      | none => rw [h2] at h; cases h
      | some r2 =>
        obtain ⟨c'', o'', l''⟩ := r2
        rw [h2] at h
        simp only [Option.some.injEq, Prod.mk.injEq] at h
        obtain ⟨rfl, rfl, rfl⟩ := h
        obtain ⟨ha, hb⟩ := cexec_lin cv h1
        obtain ⟨hc, hd⟩ := ih h2
        refine ⟨?_, by rw [List.filter_append, hb, hd, List.flatMap_cons]⟩
        rw [List.filter_append, List.append_assoc, hc, ← List.append_assoc, ha, List.flatMap_cons, List.append_assoc]


/-! ### the closed system -/

theorem cexec_env_shape (cv : ConcVariant) {c : CState} {e : Ev} {c1 : CState} {o1 : List Out} {l1 : List Ev}
    (h : cexec cv c (.env e) = some (c1, o1, l1)) : l1 = [e] := by
  cases e with
  | read _ _ _ _ => simp [cexec] at h
  | write _ _ _ _ _ _ => simp [cexec] at h
  | disconnect =>
    simp only [cexec] at h
    split at h
    · cases h
    · simp only [Option.some.injEq, Prod.mk.injEq] at h
      exact h.2.2.symm
  | pkt chan data =>
    simp only [cexec] at h
    split at h
    · cases h
    · split at h
      · cases h
      · simp only [Option.some.injEq, Prod.mk.injEq] at h
        exact h.2.2.symm

theorem notYet_length (c : CState) : c.notYet.length ≤ 1 := by
  unfold CState.notYet
  split
  · split <;> simp
  · simp
  · simp

/-- a step of the calling thread is the linearisation point of at most one request -/
theorem cexec_stepCall_shape (cv : ConcVariant) {c : CState}
    {c1 : CState} {o1 : List Out} {l1 : List Ev} (h : cexec cv c .stepCall = some (c1, o1, l1)) :
    l1 = [] ∨ ∃ e, l1 = [e] ∧ e.isCall = true := by
  obtain ⟨h1, h2⟩ := cexec_lin cv h
  have hall : ∀ e ∈ l1, e.isCall = true := by
    intro e he
    cases hc : e.isCall with
    | true => rfl
    | false =>
      have : e ∈ l1.filter (fun e => !e.isCall) := by simp [List.mem_filter, he, hc]
      rw [h2] at this; cases this
  have hfl : l1.filter Ev.isCall = l1 := List.filter_eq_self.mpr hall
  rw [hfl] at h1
  have hlen : l1.length ≤ 1 := by
    have := congrArg List.length h1
    simp only [List.length_append, CAct.issued, List.length_nil] at this
    have := notYet_length c
    omega
  match l1, hall, hlen with
  | [], _, _ => exact Or.inl rfl
  | [e], hall, _ => exact Or.inr ⟨e, rfl, hall e (List.mem_singleton.mpr rfl)⟩
  | _ :: _ :: _, _, hlen => simp at hlen

theorem cexec_begin_shape (cv : ConcVariant) {c : CState} {act : CAct} (hact : act.issued ≠ [])
    {c1 : CState} {o1 : List Out} {l1 : List Ev} (h : cexec cv c act = some (c1, o1, l1)) : l1 = [] ∧ o1 = [] := by
  cases act with
  | stepCall => simp [CAct.issued] at hact
  | env e => simp [CAct.issued] at hact
  | begin t i a d f p =>
    simp only [cexec] at h
    cases hc : c.call with
    | none => rw [hc] at h; simp only [Option.some.injEq, Prod.mk.injEq] at h; exact ⟨h.2.2.symm, h.2.1.symm⟩
    | some k => rw [hc] at h; cases h
  | beginRead t i a l =>
    simp only [cexec] at h
    cases hc : c.call with
    | none => rw [hc] at h; simp only [Option.some.injEq, Prod.mk.injEq] at h; exact ⟨h.2.2.symm, h.2.1.symm⟩
    | some k => rw [hc] at h; cases h

/-- the interleaved closed system `y` and the atomic closed system `z` of the linearisation so far -/
structure SimSys (y : CSys) (z : Sys) : Prop where
  host : Sim y.host z.host
  ok : z.host.Ok
  dev : y.dev = z.dev
  net : y.net = z.net
  faults : y.faults = z.faults
  outs : y.outs = z.outs

def SAct.WF : SAct → Prop
  | .begin t i a d f p => (Ev.write t i a d f p).WF
  | .beginRead t i a l => (Ev.read t i a l).WF
  | _ => True

theorem stepSys_of_run {z : Sys} {a : Act} {e : Ev} (he : a.toEv z.net = some e) {a1 : St} {o1 : List Out}
    (hr : run Variant.fixed z.host [e] = (a1, o1)) :
    stepSys Variant.fixed z a =
      { host := a1, dev := (feed z.dev z.faults (purge (a.netBefore z.net) o1) o1).1,
        net := (feed z.dev z.faults (purge (a.netBefore z.net) o1) o1).2.2,
        faults := (feed z.dev z.faults (purge (a.netBefore z.net) o1) o1).2.1, outs := z.outs ++ o1 } := by
  rw [run_single] at hr
  simp only [Prod.mk.injEq] at hr
  obtain ⟨rfl, rfl⟩ := hr
  simp only [stepSys, he]

theorem cstepSys_sim {y : CSys} {z : Sys} (hsim : SimSys y z) {x : SAct} (hx : x.WF) {y1 : CSys} {la : List Act}
    (h : cstepSys codeCV y x = some (y1, la)) : SimSys y1 (runSys Variant.fixed z la) := by
  unfold cstepSys at h
  cases hca : x.toCAct y.net with
  | none => rw [hca] at h; cases h
  | some ca =>
    rw [hca] at h
    simp only at h
    cases hce : cexec codeCV y.host ca with
    | none => rw [hce] at h; cases h
    | some r =>
      obtain ⟨c1, o1, l1⟩ := r
      rw [hce] at h
      simp only [Option.some.injEq, Prod.mk.injEq] at h
      obtain ⟨rfl, rfl⟩ := h
      have hcawf : ca.WF := by
        cases x with
        | begin t i a d f p => cases hca; exact hx
        | beginRead t i a l => cases hca; exact hx
        | stepCall => cases hca; trivial
        | net a =>
          cases a <;> simp only [SAct.toCAct, Option.map_eq_some_iff] at hca <;>
            first
            | (obtain ⟨e, _, rfl⟩ := hca; trivial)
            | cases hca
      obtain ⟨a1, hrun, hsim1, hok1⟩ := cexec_sim hsim.host hsim.ok hcawf hce
      cases x with
      | net a =>
        have hev : ∃ e, a.toEv z.net = some e ∧ ca = .env e := by
          rw [← hsim.net]
          cases a <;> simp only [SAct.toCAct, Option.map_eq_some_iff] at hca <;>
            first
            | (obtain ⟨e, he, rfl⟩ := hca; exact ⟨e, he, rfl⟩)
            | cases hca
        obtain ⟨e, he, rfl⟩ := hev
        have := cexec_env_shape _ hce
        subst this
        simp only [runSys, List.foldl_cons, List.foldl_nil]
        rw [stepSys_of_run he hrun]
        exact ⟨hsim1, hok1, by simp [hsim.dev, hsim.net, hsim.faults], by simp [hsim.dev, hsim.net, hsim.faults],
          by simp [hsim.dev, hsim.net, hsim.faults], by simp [hsim.outs]⟩
      | stepCall =>
        cases hca
        rcases cexec_stepCall_shape _ hce with rfl | ⟨e, rfl, hcall⟩
        · simp only [run, Prod.mk.injEq] at hrun
          obtain ⟨rfl, rfl⟩ := hrun
          simp only [List.flatMap_nil, runSys, List.foldl_nil, purge_nil, feed, List.append_nil]
          exact ⟨hsim1, hok1, hsim.dev, hsim.net, hsim.faults, hsim.outs⟩
        · have hact : ∃ a, e.toAct = [a] ∧ a.toEv z.net = some e ∧ a.netBefore z.net = z.net := by
            cases e with
            | read t i ad l => exact ⟨_, rfl, rfl, rfl⟩
            | write t i ad d f p => exact ⟨_, rfl, rfl, rfl⟩
            | pkt _ _ => cases hcall
            | disconnect => cases hcall
          obtain ⟨a, hta, he, hnb⟩ := hact
          simp only [List.flatMap_cons, List.flatMap_nil, List.append_nil, hta, runSys, List.foldl_cons, List.foldl_nil]
          rw [stepSys_of_run he hrun, hnb]
          exact ⟨hsim1, hok1, by simp [hsim.dev, hsim.net, hsim.faults], by simp [hsim.dev, hsim.net, hsim.faults],
            by simp [hsim.dev, hsim.net, hsim.faults], by simp [hsim.outs]⟩
      | begin t i ad d f p =>
        cases hca
        obtain ⟨rfl, rfl⟩ := cexec_begin_shape _ (by simp [CAct.issued]) hce
        simp only [run, Prod.mk.injEq] at hrun
        obtain ⟨rfl, _⟩ := hrun
        simp only [List.flatMap_nil, runSys, List.foldl_nil, purge_nil, feed, List.append_nil]
        exact ⟨hsim1, hok1, hsim.dev, hsim.net, hsim.faults, hsim.outs⟩
      | beginRead t i ad l =>
        cases hca
        obtain ⟨rfl, rfl⟩ := cexec_begin_shape _ (by simp [CAct.issued]) hce
        simp only [run, Prod.mk.injEq] at hrun
        obtain ⟨rfl, _⟩ := hrun
        simp only [List.flatMap_nil, runSys, List.foldl_nil, purge_nil, feed, List.append_nil]
        exact ⟨hsim1, hok1, hsim.dev, hsim.net, hsim.faults, hsim.outs⟩

theorem crunSys_sim {xs : List SAct} : ∀ {y : CSys} {z : Sys}, SimSys y z → (∀ x ∈ xs, x.WF) →
    ∀ {y1 : CSys} {la : List Act}, crunSys codeCV y xs = some (y1, la) → SimSys y1 (runSys Variant.fixed z la) := by
  induction xs with
  | nil =>
    intro y z hsim _ y1 la h
    simp only [crunSys, Option.some.injEq, Prod.mk.injEq] at h
    obtain ⟨rfl, rfl⟩ := h
    exact hsim
  | cons x xs ih =>
    intro y z hsim hwf y1 la h
    simp only [crunSys] at h
    cases h1 : cstepSys codeCV y x with
    | none => rw [h1] at h; cases h
    | some r1 =>
      obtain ⟨y', l'⟩ := r1
      rw [h1] at h
      simp only at h
      cases h2 : crunSys codeCV y' xs with
      | none => rw [h2] at h; cases h
      | some r2 =>
        obtain ⟨y'', l''⟩ := r2
        rw [h2] at h
        simp only [Option.some.injEq, Prod.mk.injEq] at h
        obtain ⟨rfl, rfl⟩ := h
        have hs1 := cstepSys_sim hsim (hwf x (List.mem_cons_self ..)) h1
        have := ih hs1 (fun u hu => hwf u (List.mem_cons_of_mem _ hu)) h2
        simpa only [runSys, List.foldl_append] using this


/-! ### what the atomic history of a closed-system schedule consists of -/

def SAct.issued : SAct → List Act
  | .begin t i a d f p => [.write t i a d f p]
  | .beginRead t i a l => [.read t i a l]
  | _ => []

def SAct.netActs : SAct → List Act
  | .net a => [a]
  | _ => []

def Act.isCall : Act → Bool
  | .read .. => true
  | .write .. => true
  | _ => false

theorem Act.isCall_read (t i a l : Nat) : (Act.read t i a l).isCall = true := rfl
theorem Act.isCall_write (t i a : Nat) (d : List UInt8) (f p : Bool) : (Act.write t i a d f p).isCall = true := rfl

theorem toAct_filter (l : List Ev) :
    (l.flatMap Ev.toAct).filter Act.isCall = (l.filter Ev.isCall).flatMap Ev.toAct ∧
    (l.flatMap Ev.toAct).filter (fun a => !a.isCall) = [] := by
  induction l with
  | nil => simp
  | cons e es ih =>
    obtain ⟨ih1, ih2⟩ := ih
    cases e <;>
      simp only [List.flatMap_cons, Ev.toAct, List.filter_append, List.filter_cons, List.filter_nil, Ev.isCall, Act.isCall_read,
        Act.isCall_write, ih1, ih2, ↓reduceIte, Bool.not_true, Bool.false_eq_true, List.nil_append, List.append_nil, List.cons_append,
        and_self]

theorem cstepSys_lin (cv : ConcVariant) {y : CSys} {x : SAct} {y1 : CSys} {la : List Act}
    (h : cstepSys cv y x = some (y1, la)) :
    la.filter Act.isCall ++ y1.host.notYet.flatMap Ev.toAct = y.host.notYet.flatMap Ev.toAct ++ x.issued ∧
    la.filter (fun a => !a.isCall) = x.netActs := by
  unfold cstepSys at h
  cases hca : x.toCAct y.net with
  | none => rw [hca] at h; cases h
  | some ca =>
    rw [hca] at h
    simp only at h
    cases hce : cexec cv y.host ca with
    | none => rw [hce] at h; cases h
    | some r =>
      obtain ⟨c1, o1, l1⟩ := r
      rw [hce] at h
      simp only [Option.some.injEq, Prod.mk.injEq] at h
      obtain ⟨rfl, rfl⟩ := h
      obtain ⟨h1, h2⟩ := cexec_lin cv hce
      have key : ∀ (hi : ca.issued.flatMap Ev.toAct = x.issued) (hd : ca.delivered = []),
          (l1.flatMap Ev.toAct).filter Act.isCall ++ c1.notYet.flatMap Ev.toAct =
            y.host.notYet.flatMap Ev.toAct ++ x.issued ∧
          (l1.flatMap Ev.toAct).filter (fun a => !a.isCall) = [] := by
        intro hi _
        refine ⟨?_, (toAct_filter l1).2⟩
        rw [(toAct_filter l1).1, ← List.flatMap_append, h1, List.flatMap_append, hi]
      cases x with
      | begin t i a d f p => cases hca; exact key rfl rfl
      | beginRead t i a l => cases hca; exact key rfl rfl
      | stepCall => cases hca; exact key rfl rfl
      | net a =>
        have hev : ∃ e, ca = .env e ∧ e.isCall = false ∧ a.isCall = false := by
          cases a <;> simp only [SAct.toCAct, Option.map_eq_some_iff, Act.toEv] at hca <;>
            first
            | (obtain ⟨e, he, rfl⟩ := hca
               obtain ⟨p, _, rfl⟩ := he
               exact ⟨_, rfl, rfl, rfl⟩)
            | (obtain ⟨e, he, rfl⟩ := hca
               cases he
               exact ⟨_, rfl, rfl, rfl⟩)
            | cases hca
        obtain ⟨e, rfl, hec, hac⟩ := hev
        have := cexec_env_shape _ hce
        subst this
        simp only [List.filter_cons, hec, Bool.false_eq_true, ↓reduceIte, List.filter_nil, List.nil_append, CAct.issued,
          List.append_nil] at h1
        simp [hac, SAct.issued, SAct.netActs, h1]

theorem crunSys_lin (cv : ConcVariant) {xs : List SAct} : ∀ {y y1 : CSys} {la : List Act},
    crunSys cv y xs = some (y1, la) →
    la.filter Act.isCall ++ y1.host.notYet.flatMap Ev.toAct = y.host.notYet.flatMap Ev.toAct ++ xs.flatMap SAct.issued ∧
    la.filter (fun a => !a.isCall) = xs.flatMap SAct.netActs := by
  induction xs with
  | nil =>
    intro y y1 la h
    simp only [crunSys, Option.some.injEq, Prod.mk.injEq] at h
    obtain ⟨rfl, rfl⟩ := h
    simp
  | cons x xs ih =>
    intro y y1 la h
    simp only [crunSys] at h
    cases h1 : cstepSys cv y x with
    | none => rw [h1] at h; cases h
    | some r1 =>
      obtain ⟨y', l'⟩ := r1
      rw [h1] at h
      simp only at h
      cases h2 : crunSys cv y' xs with
      | none => rw [h2] at h; cases h
      | some r2 =>
        obtain ⟨y'', l''⟩ := r2
        rw [h2] at h
        simp only [Option.some.injEq, Prod.mk.injEq] at h
        obtain ⟨rfl, rfl⟩ := h
        obtain ⟨ha, hb⟩ := cstepSys_lin cv h1
        obtain ⟨hc, hd⟩ := ih h2
        refine ⟨?_, by rw [List.filter_append, hb, hd, List.flatMap_cons]⟩
        rw [List.filter_append, List.append_assoc, hc, ← List.append_assoc, ha, List.flatMap_cons, List.append_assoc]

/-- every atomic action of the linearisation is a request the application issued or a network action of the schedule -/
theorem crunSys_mem (cv : ConcVariant) {xs : List SAct} {d : Device} {faults : List UInt8} {y1 : CSys} {la : List Act}
    (h : crunSys cv (CSys.init d faults) xs = some (y1, la)) {a : Act} (ha : a ∈ la) :
    (∃ x ∈ xs, a ∈ x.issued) ∨ (∃ x ∈ xs, a ∈ x.netActs) := by
  obtain ⟨h1, h2⟩ := crunSys_lin cv h
  cases hc : a.isCall with
  | true =>
    left
    have : a ∈ la.filter Act.isCall ++ y1.host.notYet.flatMap Ev.toAct :=
      List.mem_append_left _ (List.mem_filter.mpr ⟨ha, hc⟩)
    rw [h1] at this
    simp only [CSys.init, CState.notYet, List.flatMap_nil, List.nil_append, List.mem_flatMap] at this
    exact this
  | false =>
    right
    have : a ∈ la.filter (fun a => !a.isCall) := List.mem_filter.mpr ⟨ha, by simp [hc]⟩
    rw [h2] at this
    simpa only [List.mem_flatMap] using this

end CfVerif.C06

/- Proofs/C06Deck — the DeckMemoryManager client layer: its pending-request records follow Memory's records, every
accepted request is closed exactly once (a callback, or silently when no failure callback was supplied), and a
further request is accepted as soon as Memory has no record for the memory. -/
import CfVerif.Proofs.C06Write
namespace CfVerif.C06
open CfVerif

/-! ### the notifications that concern memory `k` -/

inductive KNote
  | rok (a : Nat) (data : List UInt8)
  | rfail (a : Nat)
  | wok (a : Nat)
  | wfail (a : Nat)
  deriving DecidableEq, Repr

def knote? (k : Nat) : Out → Option KNote
  | .readOk _ i a d => if i = k then some (.rok a d) else none
  | .readFail _ i a _ => if i = k then some (.rfail a) else none
  | .writeOk _ i a => if i = k then some (.wok a) else none
  | .writeFail _ i a => if i = k then some (.wfail a) else none
  | _ => none

def knotes (k : Nat) (outs : List Out) : List KNote := outs.filterMap (knote? k)

theorem knotes_append (k : Nat) (a b : List Out) : knotes k (a ++ b) = knotes k a ++ knotes k b := by
  simp [knotes, List.filterMap_append]

def deckOn (dv : DeckVariant) (d : Deck) : KNote → Deck × List DOut × Option PyErr
  | .rok a data => deckNewData d a data
  | .rfail a => deckNewDataFailed dv d a
  | .wok a => deckWriteDone d a
  | .wfail a => deckWriteFailed dv d a

/-- apply the notes in order; `none` as soon as a subscriber raises -/
def deckApply (dv : DeckVariant) : Deck → List KNote → Option (Deck × List DOut)
  | d, [] => some (d, [])
  | d, n :: ns =>
    match deckOn dv d n with
    | (d1, o1, none) => (deckApply dv d1 ns).map fun r => (r.1, o1 ++ r.2)
    | (_, _, some _) => none

theorem deckOn_id (dv : DeckVariant) (d : Deck) (n : KNote) : (deckOn dv d n).1.id = d.id := by
  cases n <;> simp only [deckOn, deckNewData, deckNewDataFailed, deckWriteDone, deckWriteFailed] <;>
    (repeat' split) <;> rfl

theorem deckOnOut_eq (dv : DeckVariant) (d : Deck) (o : Out) :
    deckOnOut dv d o = match knote? d.id o with
      | some n => deckOn dv d n
      | none => (d, [], none) := by
  cases o <;> simp only [deckOnOut, knote?] <;> first | rfl | (split <;> rfl)

/-- if no subscriber raises, every output of the event is delivered and the manager ends as `deckApply` says -/
theorem deckReact_of_apply (dv : DeckVariant) :
    ∀ (outs : List Out) (d d' : Deck) (douts : List DOut), deckApply dv d (knotes d.id outs) = some (d', douts) →
      deckReact dv d outs = (d', douts, outs, none)
  | [], d, d', douts, h => by
    simp only [knotes, List.filterMap_nil, deckApply, Option.some.injEq, Prod.mk.injEq] at h
    obtain ⟨rfl, rfl⟩ := h; rfl
  | o :: os, d, d', douts, h => by
    simp only [deckReact, deckOnOut_eq]
    cases hk : knote? d.id o with
    | none =>
      have h' : deckApply dv d (knotes d.id os) = some (d', douts) := by
        simpa [knotes, List.filterMap_cons, hk] using h
      simp only [deckReact_of_apply dv os d d' douts h', List.nil_append]
    | some n =>
      have h' : deckApply dv d (n :: knotes d.id os) = some (d', douts) := by
        simpa [knotes, List.filterMap_cons, hk] using h
      simp only [deckApply] at h'
      cases hr : deckOn dv d n with
      | mk d1 rest =>
        obtain ⟨o1, err⟩ := rest
        rw [hr] at h'
        cases err with
        | some e => simp at h'
        | none =>
          simp only [Option.map_eq_some_iff] at h'
          obtain ⟨⟨d2, o2⟩, h2, heq⟩ := h'
          simp only [Prod.mk.injEq] at heq
          obtain ⟨rfl, rfl⟩ := heq
          have hid : d1.id = d.id := by have := deckOn_id dv d n; rw [hr] at this; exact this
          simp only [hr]
          rw [deckReact_of_apply dv os d1 d2 o2 (by rw [hid]; exact h2)]


/-! ### what one `Memory` event does to the records and notifications of memory `k` -/

/-- the read record of `k` is unchanged as far as a client can tell: same start address, no byte lost -/
def RSame (k : Nat) (s s' : St) : Prop :=
  match dget? s.reads k, dget? s'.reads k with
  | none, none => True
  | some r, some r' => r'.addr = r.addr ∧ r.data.length + r.left ≤ r'.data.length + r'.left
  | _, _ => False

theorem RSame.of_eq {k : Nat} {s s' : St} (h : dget? s'.reads k = dget? s.reads k) : RSame k s s' := by
  unfold RSame; rw [h]; cases dget? s.reads k <;> simp

/-- read side of the event: nothing is notified for `k` and the record stays, or the record is removed and notified
once - with success (then all requested bytes are there) or with failure -/
def RPart (k : Nat) (s s' : St) (RN : List KNote) : Prop :=
  (RN = [] ∧ RSame k s s') ∨
  (∃ r, dget? s.reads k = some r ∧ dget? s'.reads k = none ∧
    ((∃ data, RN = [.rok r.addr data] ∧ r.data.length + r.left ≤ data.length) ∨ RN = [.rfail r.addr]))

/-- write side (at most one write of `k` is recorded): nothing notified and the queue keeps its length, or the only
request is removed and notified once -/
def WPart (k : Nat) (s s' : St) (WN : List KNote) : Prop :=
  (WN = [] ∧ (s'.queue k).length = (s.queue k).length) ∨
  (∃ w, s.queue k = [w] ∧ s'.queue k = [] ∧ (WN = [.wok w.addr] ∨ WN = [.wfail w.addr]))

structure KEffect (k : Nat) (s : St) (r : Step) : Prop where
  ok : r.st.Ok
  notes : ∃ RN WN, knotes k r.outs = RN ++ WN ∧ RPart k s r.st RN ∧ WPart k s r.st WN

theorem keffect_quiet {k : Nat} {s : St} (hs : s.Ok) (res : Res) : KEffect k s ⟨s, [], res⟩ :=
  ⟨hs, [], [], rfl, Or.inl ⟨rfl, RSame.of_eq rfl⟩, Or.inl ⟨rfl, rfl⟩⟩

theorem knotes_about {i k : Nat} (hne : i ≠ k) {outs : List Out} (h : ∀ o ∈ outs, o.About i) : knotes k outs = [] := by
  induction outs with
  | nil => rfl
  | cons o os ih =>
    have ho := h o (by simp)
    have := ih (fun x hx => h x (List.mem_cons_of_mem _ hx))
    cases o <;> simp_all [knotes, knote?, Out.About]

/-- an event about another memory -/
theorem keffect_other {k : Nat} {s : St} (hs : s.Ok) {e : Ev} (he : e.WF) {i : Nat} (hi : e.about? = some i)
    (hne : i ≠ k) : KEffect k s (step Variant.fixed s e) := by
  obtain ⟨hfr, hab⟩ := step_frame hs he hi
  refine ⟨(step_effect hs he).1, [], [], by rw [knotes_about hne hab]; rfl,
    Or.inl ⟨rfl, RSame.of_eq (hfr k (Ne.symm hne)).1⟩, Or.inl ⟨rfl, ?_⟩⟩
  rw [queue_congr (hfr k (Ne.symm hne)).2]

/-- a parsed read reply for `k` -/
theorem keffect_onReadReply {k : Nat} {s : St} (hs : s.Ok) (addr status : Nat) (data : List UInt8) :
    KEffect k s (onReadReply s k addr status data) := by
  cases hget : dget? s.reads k with
  | none => unfold onReadReply; rw [hget]; exact keffect_quiet hs _
  | some rq =>
    have hok := hs.reads k rq hget
    rw [onReadReply_eq hget hok]
    have hw : ∀ (rs : List (Nat × RReq)), ({ s with reads := rs } : St).queue k = s.queue k := fun _ => rfl
    split
    · split
      · refine ⟨St.ok_setRead hs hok, [], [], rfl, Or.inl ⟨rfl, ?_⟩, Or.inl ⟨rfl, rfl⟩⟩
        apply RSame.of_eq; simp [dget?_dset_same, hget]
      · split
        · rename_i hl
          refine ⟨St.ok_setRead hs (RReq.plus_ok hok hl), [], [], by simp [knotes, knote?], Or.inl ⟨rfl, ?_⟩, Or.inl ⟨rfl, rfl⟩⟩
          unfold RSame
          simp only [dget?_dset_same, hget, RReq.plus, List.length_append, true_and]
          omega
        · rename_i hl
          refine ⟨St.ok_eraseRead hs k, [.rok rq.addr (rq.data ++ data)], [], by simp [knotes, knote?],
            Or.inr ⟨rq, hget, by simp [dget?_derase_same], Or.inl ⟨_, rfl, ?_⟩⟩, Or.inl ⟨rfl, rfl⟩⟩
          simp only [List.length_append]; omega
    · refine ⟨St.ok_eraseRead hs k, [.rfail rq.addr], [], by simp [knotes, knote?],
        Or.inr ⟨rq, hget, by simp [dget?_derase_same], Or.inr rfl⟩, Or.inl ⟨rfl, rfl⟩⟩


theorem knotes_progress (k : Nat) {po : List Out} (hpo : ∀ o ∈ po, o.isProgress = true) : knotes k po = [] := by
  induction po with
  | nil => rfl
  | cons o os ih =>
    have ho := hpo o (by simp)
    have := ih (fun x hx => hpo x (List.mem_cons_of_mem _ hx))
    cases o <;> simp_all [knotes, knote?, Out.isProgress]

/-- a parsed write acknowledgement for `k`, when at most one write of `k` is recorded -/
theorem keffect_onWriteReply {k : Nat} {s : St} (hs : s.Ok) (hq1 : (s.queue k).length ≤ 1) (addr status : Nat) :
    KEffect k s (onWriteReply Variant.fixed s k addr status) := by
  have hok' := (onWriteReply_effect hs k addr status rfl).1
  have hreads : (onWriteReply Variant.fixed s k addr status).st.reads = s.reads :=
    (onWriteReply_effect hs k addr status rfl).2.1
  cases hq : s.queue k with
  | nil =>
    obtain ⟨res, hres⟩ := onWriteReply_noop hs (by simpa [St.queue_def] using hq) addr status
    rw [hres]; exact keffect_quiet hs _
  | cons w rest =>
    have hrest : rest = [] := by rw [hq] at hq1; cases rest <;> simp_all
    subst hrest
    have hwok := (St.queue_ok hs k).1 w (by rw [hq]; simp)
    have hqset : ∀ (q : List WReq), ({ reads := s.reads, writes := dset s.writes k q, lock := false } : St).queue k = q := by
      intro q; simp [St.queue_def, dget?_dset_same]
    refine ⟨hok', ?_⟩
    by_cases hst : status = 0
    · subst hst
      by_cases ha : addr = w.cur
      · subst ha
        obtain ⟨w1, po, hsame, hpo, hres⟩ := onWriteReply_ack hs hq
        rw [hres]
        split
        · refine ⟨[], [], ?_, Or.inl ⟨rfl, RSame.of_eq rfl⟩, Or.inl ⟨rfl, by rw [hqset, hq]; rfl⟩⟩
          rw [knotes_append, knotes_progress k hpo]; simp [knotes, knote?]
        · refine ⟨[], [.wok w.addr], ?_, Or.inl ⟨rfl, RSame.of_eq rfl⟩, Or.inr ⟨w, hq, by rw [hqset]; rfl, Or.inl rfl⟩⟩
          rw [knotes_append, knotes_append, knotes_progress k hpo]; simp [knotes, knote?, nextStarted]
      · rw [onWriteReply_ignored hs hq ha]
        exact ⟨[], [], rfl, Or.inl ⟨rfl, RSame.of_eq rfl⟩, Or.inl ⟨rfl, by rw [hqset, hq]⟩⟩
    · rw [onWriteReply_err hs hq addr hst]
      refine ⟨[], [.wfail w.addr], ?_, Or.inl ⟨rfl, RSame.of_eq rfl⟩, Or.inr ⟨w, hq, by rw [hqset]; rfl, Or.inr rfl⟩⟩
      simp [knotes, knote?, nextStarted, hwok.1]

theorem knotes_readFails (d : List (Nat × RReq)) (hk : (dkeys d).Nodup) (hid : ∀ key r, (key, r) ∈ d → r.id = key) (k : Nat) :
    knotes k (d.map fun e => Out.readFail e.2.tag e.2.id e.2.addr e.2.data) =
      (match dget? d k with | some r => [.rfail r.addr] | none => []) := by
  induction d with
  | nil => rfl
  | cons e es ih =>
    obtain ⟨key, r⟩ := e
    simp only [dkeys, List.map_cons, List.nodup_cons] at hk
    have ih' := ih hk.2 (fun key' r' h => hid key' r' (List.mem_cons_of_mem _ h))
    have hr : r.id = key := hid key r (by simp)
    by_cases hkk : key = k
    · subst hkk
      have h2 : dget? es key = none := dget?_none_of_not_mem_keys hk.1
      simp only [List.map_cons, knotes, List.filterMap_cons, knote?, hr, ↓reduceIte] at ih' ⊢
      simp [ih', h2, dget?]
    · have hb : (key == k) = false := by simpa using hkk
      have hne : ¬ r.id = k := by rw [hr]; exact hkk
      simp only [List.map_cons, knotes, List.filterMap_cons, knote?, hne, ↓reduceIte, dget?, hb] at ih' ⊢
      exact ih'

theorem knotes_writeFails (d : List (Nat × List WReq)) (hk : (dkeys d).Nodup)
    (hid : ∀ key q, (key, q) ∈ d → ∀ w ∈ q, w.id = key) (k : Nat) :
    knotes k (((d.map (·.2)).flatten).map fun w => Out.writeFail w.tag w.id w.addr) =
      ((dget? d k).getD []).map fun w => KNote.wfail w.addr := by
  induction d with
  | nil => rfl
  | cons e es ih =>
    obtain ⟨key, q⟩ := e
    simp only [dkeys, List.map_cons, List.nodup_cons] at hk
    have ih' := ih hk.2 (fun key' q' h => hid key' q' (List.mem_cons_of_mem _ h))
    simp only [List.map_cons, List.flatten_cons, List.map_append, knotes_append, ih']
    have hq : ∀ w ∈ q, w.id = key := hid key q (by simp)
    by_cases hkk : key = k
    · subst hkk
      have h1 : knotes key (q.map fun w => Out.writeFail w.tag w.id w.addr) = q.map fun w => KNote.wfail w.addr := by
        clear ih ih' hid
        induction q with
        | nil => rfl
        | cons w ws ihq =>
          have := ihq (fun x hx => hq x (List.mem_cons_of_mem _ hx))
          simp only [knotes, List.map_cons, List.filterMap_cons, knote?] at this ⊢
          simp [hq w (by simp), this]
      have h2 : dget? es key = none := dget?_none_of_not_mem_keys hk.1
      simp [h1, h2, dget?]
    · have h1 : knotes k (q.map fun w => Out.writeFail w.tag w.id w.addr) = [] := by
        clear ih ih' hid
        induction q with
        | nil => rfl
        | cons w ws ihq =>
          have := ihq (fun x hx => hq x (List.mem_cons_of_mem _ hx))
          simp only [knotes, List.map_cons, List.filterMap_cons, knote?] at this ⊢
          have : ¬ w.id = k := by rw [hq w (by simp)]; exact hkk
          simp_all
      have hb : (key == k) = false := by simpa using hkk
      simp [h1, dget?, hb]

/-- the disconnect handler -/
theorem keffect_disconnected {k : Nat} {s : St} (hs : s.Ok) (hq1 : (s.queue k).length ≤ 1) :
    KEffect k s (disconnected s) := by
  have hd : disconnected s = ⟨St.init, (s.reads.map fun e => Out.readFail e.2.tag e.2.id e.2.addr e.2.data) ++
      (((s.writes.map (·.2)).flatten).map fun w => Out.writeFail w.tag w.id w.addr), .ret none⟩ := by
    simp [disconnected, hs.lock]
  rw [hd]
  refine ⟨St.init_ok, (match dget? s.reads k with | some r => [.rfail r.addr] | none => []),
    (s.queue k).map (fun w => KNote.wfail w.addr), ?_, ?_, ?_⟩
  · rw [knotes_append, knotes_readFails s.reads hs.rkeys (fun key r h => (hs.reads key r (dget?_of_mem hs.rkeys h)).1),
      knotes_writeFails s.writes hs.wkeys (fun key q h w hw => (hs.writes key q (dget?_of_mem hs.wkeys h) w hw).1)]
    rfl
  · cases hget : dget? s.reads k with
    | none => exact Or.inl ⟨rfl, by unfold RSame; simp [hget, St.init, dget?]⟩
    | some r => exact Or.inr ⟨r, hget, by simp [St.init, dget?], Or.inr rfl⟩
  · cases hq : s.queue k with
    | nil => exact Or.inl ⟨rfl, by rw [hq]; simp [St.queue_def, St.init, dget?]⟩
    | cons w rest =>
      have hrest : rest = [] := by rw [hq] at hq1; cases rest <;> simp_all
      subst hrest
      exact Or.inr ⟨w, hq, by simp [St.queue_def, St.init, dget?], Or.inr rfl⟩

/-- a `Memory` event that is not a read / write request on memory `k` itself -/
def Ev.NotRequestOn (k : Nat) : Ev → Prop
  | .read _ i _ _ => i ≠ k
  | .write _ i _ _ _ _ => i ≠ k
  | _ => True

/-- one `Memory` event, as seen from memory `k` (any received packet, the disconnect, requests on other memories) -/
theorem keffect_step {k : Nat} {s : St} (hs : s.Ok) (hq1 : (s.queue k).length ≤ 1) {e : Ev} (he : e.WF)
    (hn : e.NotRequestOn k) : KEffect k s (step Variant.fixed s e) := by
  cases e with
  | read t i a l => exact keffect_other hs he (i := i) rfl hn
  | write t i a d f p => exact keffect_other hs he (i := i) rfl hn
  | disconnect => exact keffect_disconnected hs hq1
  | pkt chan data =>
    cases data with
    | nil => exact keffect_quiet hs _
    | cons cmd payload =>
      by_cases hk : cmd.toNat = k
      · subst hk
        simp only [step, newPacketCb]
        split
        · unfold handleChanWrite
          split
          · exact keffect_quiet hs _
          · exact keffect_onWriteReply hs hq1 _ _
          · exact keffect_quiet hs _
        · split
          · unfold handleChanRead
            split
            · exact keffect_quiet hs _
            · exact keffect_onReadReply hs _ _ _
            · exact keffect_quiet hs _
          · exact keffect_quiet hs _
      · exact keffect_other hs he (i := cmd.toNat) rfl hk


/-! ### the combined system: `Memory` with the manager subscribed -/

structure CSt where
  s : St
  d : Deck

inductive CEv
  | query (tag rid : Nat) (hasFail : Bool)
  | dread (tag base address len rid : Nat) (hasFail : Bool)
  | dwrite (tag base address : Nat) (data : List UInt8) (rid : Nat) (hasFail progressCb : Bool)
  /-- any `Memory` event with the manager subscribed: a received packet (arbitrary bytes), the disconnect handler,
  requests on other memories -/
  | mem (e : Ev)

structure CStep where
  c : CSt
  outs : List Out
  douts : List DOut
  res : Res

def cstep (dv : DeckVariant) (c : CSt) : CEv → CStep
  | .query tag rid hf => let r := deckQuery dv c.s c.d tag rid hf; ⟨⟨r.2.st, r.1⟩, r.2.outs, [], r.2.res⟩
  | .dread tag base address len rid hf =>
    let r := deckRead dv c.s c.d tag base address len rid hf; ⟨⟨r.2.st, r.1⟩, r.2.outs, [], r.2.res⟩
  | .dwrite tag base address data rid hf p =>
    let r := deckWrite Variant.fixed c.s c.d tag base address data rid hf p; ⟨⟨r.2.st, r.1⟩, r.2.outs, [], r.2.res⟩
  | .mem e => let r := clientStep dv Variant.fixed c.s c.d e; ⟨⟨r.2.1.st, r.1⟩, r.2.1.outs, r.2.2, r.2.1.res⟩

/-- what may happen in state `c`.  The first line of each case is the domain of the property (well-formed request;
the info section is only read by `query_decks`; requests on the manager's memory go through the manager); the
remaining conditions are exactly the inputs on which the CURRENT code misbehaves - they are vacuous for the repaired
variant `DeckVariant.fixed` (see the `deck_*_counterexample` theorems for each of them) -/
def CEv.Adm (dv : DeckVariant) (c : CSt) : CEv → Prop
  | .query tag _ hf => (Ev.read tag c.d.id Gen.C06.deckInfoAddr Gen.C06.deckInfoSize).WF ∧
      (dv.readAcceptedCheck = true ∨ dget? c.s.reads c.d.id = none) ∧ (hf = true → dv.queryFailNotifies = true)
  | .dread tag base address len _ hf => (Ev.read tag c.d.id (address + base) len).WF ∧ address + base ≠ Gen.C06.deckInfoAddr ∧
      (dv.readAcceptedCheck = true ∨ dget? c.s.reads c.d.id = none) ∧ (hf = false → dv.readFailClearsAlways = true)
  | .dwrite tag base address data _ hf p => (Ev.write tag c.d.id (address + base) data true p).WF ∧
      (hf = false → dv.writeFailGuard = true)
  | .mem e => e.WF ∧ e.NotRequestOn c.d.id

/-- read side: the manager's query / read records follow `Memory`'s read record for its memory -/
def RCons (dv : DeckVariant) (s : St) (d : Deck) : Prop :=
  (match dget? s.reads d.id with
    | none => d.query = none ∧ d.read = none
    | some r =>
      (r.addr = Gen.C06.deckInfoAddr ∧ d.query.isSome ∧ d.read = none ∧ Gen.C06.deckInfoSize ≤ r.data.length + r.left) ∨
      (r.addr ≠ Gen.C06.deckInfoAddr ∧ d.read.isSome ∧ d.query = none)) ∧
  (∀ q, d.query = some q → q.hasFail = true → dv.queryFailNotifies = true) ∧
  (∀ q, d.read = some q → q.hasFail = false → dv.readFailClearsAlways = true)

/-- write side: the manager's write record follows `Memory`'s queue for its memory (at most one request) -/
def WCons (dv : DeckVariant) (s : St) (d : Deck) : Prop :=
  ((s.queue d.id = [] ∧ d.write = none) ∨ (∃ w, s.queue d.id = [w] ∧ d.write.isSome)) ∧
  (∀ q, d.write = some q → q.hasFail = false → dv.writeFailGuard = true)

structure CInv (dv : DeckVariant) (c : CSt) : Prop where
  ok : c.s.Ok
  reads : RCons dv c.s c.d
  writes : WCons dv c.s c.d

/-! ### accounting: which request a callback (or a silent completion) closes -/

def DOut.closes (kind : Nat) : DOut → Option Nat
  | .queryDone r | .queryFailed r => if kind = 0 then some r else none
  | .readDone r _ _ | .readFailed r _ => if kind = 1 then some r else none
  | .writeDone r _ | .writeFailed r _ => if kind = 2 then some r else none
  | .silent k r => if kind = k then some r else none

/-- the requests of a kind (0 query, 1 read, 2 write) closed by these callbacks, in order -/
def closed (kind : Nat) (douts : List DOut) : List Nat := douts.filterMap (DOut.closes kind)

def slotRid (o : Option Slot) : List Nat := match o with | some q => [q.rid] | none => []

/-- the request of that kind recorded by the manager -/
def Deck.pending (d : Deck) (kind : Nat) : List Nat :=
  if kind = 0 then slotRid d.query else if kind = 1 then slotRid d.read else if kind = 2 then slotRid d.write else []

/-- the request an event adds, given how the call ended (`None` returned = accepted) -/
def CEv.accepted (kind : Nat) (res : Res) : CEv → List Nat
  | .query _ rid _ => if kind = 0 ∧ res = .ret none then [rid] else []
  | .dread _ _ _ _ rid _ => if kind = 1 ∧ res = .ret none then [rid] else []
  | .dwrite _ _ _ _ rid _ _ => if kind = 2 ∧ res = .ret none then [rid] else []
  | .mem _ => []

theorem closed_append (kind : Nat) (a b : List DOut) : closed kind (a ++ b) = closed kind a ++ closed kind b := by
  simp [closed, List.filterMap_append]

theorem deckApply_append (dv : DeckVariant) (d : Deck) (a b : List KNote) :
    deckApply dv d (a ++ b) =
      (deckApply dv d a).bind fun r => (deckApply dv r.1 b).map fun r2 => (r2.1, r.2 ++ r2.2) := by
  induction a generalizing d with
  | nil => simp [deckApply]
  | cons n ns ih =>
    simp only [List.cons_append, deckApply]
    cases hr : deckOn dv d n with
    | mk d1 rest =>
      obtain ⟨o1, err⟩ := rest
      cases err with
      | some e => simp
      | none =>
        simp only [ih d1]
        cases deckApply dv d1 ns with
        | none => simp
        | some r =>
          simp only [Option.map_some, Option.bind_some]
          cases deckApply dv r.1 b <;> simp [List.append_assoc]

/-- the accounting of one batch of callbacks: per kind, closed ++ still recorded = recorded before -/
def Balanced (d d' : Deck) (douts : List DOut) : Prop :=
  ∀ kind, closed kind douts ++ d'.pending kind = d.pending kind

/-- the read-side notifications of one event reach the manager -/
theorem deckApply_reads {dv : DeckVariant} {s s' : St} {d : Deck} (h : RCons dv s d) {RN : List KNote}
    (hp : RPart d.id s s' RN) :
    ∃ d1 o1, deckApply dv d RN = some (d1, o1) ∧ d1.id = d.id ∧ d1.write = d.write ∧ RCons dv s' d1 ∧ Balanced d d1 o1 := by
  obtain ⟨hrec, hqf, hrf⟩ := h
  rcases hp with ⟨rfl, hsame⟩ | ⟨r, hget, hnone, hnote⟩
  · refine ⟨d, [], rfl, rfl, rfl, ⟨?_, hqf, hrf⟩, fun _ => rfl⟩
    unfold RSame at hsame
    cases h1 : dget? s.reads d.id with
    | none =>
      rw [h1] at hsame hrec
      cases h2 : dget? s'.reads d.id with
      | none => exact hrec
      | some r' => rw [h2] at hsame; exact absurd hsame (by simp)
    | some r =>
      rw [h1] at hsame hrec
      cases h2 : dget? s'.reads d.id with
      | none => rw [h2] at hsame; exact absurd hsame (by simp)
      | some r' =>
        rw [h2] at hsame
        simp only at hsame hrec ⊢
        rcases hrec with ⟨a1, a2, a3, a4⟩ | ⟨a1, a2, a3⟩
        · exact Or.inl ⟨by rw [hsame.1]; exact a1, a2, a3, by omega⟩
        · exact Or.inr ⟨by rw [hsame.1]; exact a1, a2, a3⟩
  · rw [hget] at hrec
    simp only at hrec
    have hpost : ∀ d1 : Deck, d1.id = d.id → d1.query = none → d1.read = none →
        (match dget? s'.reads d1.id with
          | none => d1.query = none ∧ d1.read = none
          | some r =>
            (r.addr = Gen.C06.deckInfoAddr ∧ d1.query.isSome ∧ d1.read = none ∧ Gen.C06.deckInfoSize ≤ r.data.length + r.left) ∨
            (r.addr ≠ Gen.C06.deckInfoAddr ∧ d1.read.isSome ∧ d1.query = none)) := by
      intro d1 h1 h2 h3; rw [h1, hnone]; exact ⟨h2, h3⟩
    rcases hrec with ⟨a1, a2, a3, a4⟩ | ⟨a1, a2, a3⟩
    · -- the info section was being read for `query_decks`
      obtain ⟨q, hq⟩ := Option.isSome_iff_exists.1 a2
      rcases hnote with ⟨data, rfl, hlen⟩ | rfl
      · have hdl : Gen.C06.deckInfoSize ≤ data.length := by omega
        have hmin : Gen.C06.deckMinInfoLen ≤ Gen.C06.deckInfoSize := by decide
        have hpos : 0 < Gen.C06.deckInfoSize := by decide
        obtain ⟨ver, tl, rfl⟩ : ∃ ver tl, data = ver :: tl := by
          cases data with
          | nil => simp at hdl; omega
          | cons a t => exact ⟨a, t, rfl⟩
        by_cases hv : ver.toNat ≠ Gen.C06.deckSupportedVersion
        · refine ⟨{ d with query := none }, [if q.hasFail then .queryFailed q.rid else .silent 0 q.rid], ?_, rfl, rfl,
            ⟨hpost _ rfl rfl a3, by simp, hrf⟩, ?_⟩
          · simp [deckApply, deckOn, deckNewData, a1, deckParseInfo, hv, hq]
          · intro kind
            by_cases hk : kind = 0
            · subst hk; cases q.hasFail <;> simp [closed, DOut.closes, Deck.pending, slotRid, hq]
            · cases q.hasFail <;> simp [closed, DOut.closes, Deck.pending, slotRid, hk, Ne.symm hk]
        · refine ⟨{ d with query := none }, [.queryDone q.rid], ?_, rfl, rfl, ⟨hpost _ rfl rfl a3, by simp, hrf⟩, ?_⟩
          · have : ¬ tl.length + 1 < Gen.C06.deckMinInfoLen := by simp only [List.length_cons] at hdl; omega
            simp [deckApply, deckOn, deckNewData, a1, deckParseInfo, hv, this, hq]
          · intro kind
            by_cases hk : kind = 0
            · subst hk; simp [closed, DOut.closes, Deck.pending, slotRid, hq]
            · simp [closed, DOut.closes, Deck.pending, slotRid, hk]
      · refine ⟨{ d with query := none },
          if q.hasFail then (if dv.queryFailNotifies then [.queryFailed q.rid] else []) else [.silent 0 q.rid], ?_, rfl, rfl,
          ⟨hpost _ rfl rfl a3, by simp, hrf⟩, ?_⟩
        · simp [deckApply, deckOn, deckNewDataFailed, a1, hq]
        · intro kind
          have hn := hqf q hq
          by_cases hk : kind = 0
          · subst hk
            cases hh : q.hasFail
            · simp [closed, DOut.closes, Deck.pending, slotRid, hq]
            · simp [closed, DOut.closes, Deck.pending, slotRid, hq, hn hh]
          · cases hh : q.hasFail
            · simp [closed, DOut.closes, Deck.pending, slotRid, hk, Ne.symm hk]
            · simp [closed, DOut.closes, Deck.pending, slotRid, hk, hn hh]
    · -- a deck read
      obtain ⟨q, hq⟩ := Option.isSome_iff_exists.1 a2
      rcases hnote with ⟨data, rfl, _⟩ | rfl
      · refine ⟨{ d with read := none }, [.readDone q.rid ((r.addr : Int) - d.readBase) data], ?_, rfl, rfl,
          ⟨hpost _ rfl a3 rfl, hqf, by simp⟩, ?_⟩
        · simp [deckApply, deckOn, deckNewData, a1, hq]
        · intro kind
          by_cases hk : kind = 1
          · subst hk; simp [closed, DOut.closes, Deck.pending, slotRid, hq]
          · simp [closed, DOut.closes, Deck.pending, slotRid, hk]
      · have hc := hrf q hq
        refine ⟨{ d with read := none },
          if q.hasFail then [.readFailed q.rid ((r.addr : Int) - d.readBase)] else [.silent 1 q.rid], ?_, rfl, rfl,
          ⟨hpost _ rfl a3 rfl, hqf, by simp⟩, ?_⟩
        · cases hh : q.hasFail
          · simp [deckApply, deckOn, deckNewDataFailed, a1, hq, hh, hc hh]
          · simp [deckApply, deckOn, deckNewDataFailed, a1, hq, hh]
        · intro kind
          by_cases hk : kind = 1
          · subst hk; cases q.hasFail <;> simp [closed, DOut.closes, Deck.pending, slotRid, hq]
          · cases q.hasFail <;> simp [closed, DOut.closes, Deck.pending, slotRid, hk, Ne.symm hk]


/-- the write-side notifications of one event reach the manager -/
theorem deckApply_writes {dv : DeckVariant} {s s' : St} {d : Deck} (h : WCons dv s d) {WN : List KNote}
    (hp : WPart d.id s s' WN) :
    ∃ d1 o1, deckApply dv d WN = some (d1, o1) ∧ d1.id = d.id ∧ d1.query = d.query ∧ d1.read = d.read ∧
      WCons dv s' d1 ∧ Balanced d d1 o1 := by
  obtain ⟨hrec, hwf⟩ := h
  rcases hp with ⟨rfl, hlen⟩ | ⟨w, hq, hq', hnote⟩
  · refine ⟨d, [], rfl, rfl, rfl, rfl, ⟨?_, hwf⟩, fun _ => rfl⟩
    rcases hrec with ⟨h1, h2⟩ | ⟨w, h1, h2⟩
    · left; exact ⟨List.eq_nil_of_length_eq_zero (by rw [hlen, h1]; rfl), h2⟩
    · right
      rw [h1] at hlen
      obtain ⟨w', hw'⟩ := List.length_eq_one_iff.1 hlen
      exact ⟨w', hw', h2⟩
  · rcases hrec with ⟨h1, _⟩ | ⟨w0, h1, h2⟩
    · rw [h1] at hq; cases hq
    · obtain ⟨q, hqs⟩ := Option.isSome_iff_exists.1 h2
      have hc := hwf q hqs
      rcases hnote with rfl | rfl
      · refine ⟨{ d with write := none }, [.writeDone q.rid ((w.addr : Int) - d.readBase)], ?_, rfl, rfl, rfl,
          ⟨Or.inl ⟨hq', rfl⟩, by simp⟩, ?_⟩
        · simp [deckApply, deckOn, deckWriteDone, hqs]
        · intro kind
          by_cases hk : kind = 2
          · subst hk; simp [closed, DOut.closes, Deck.pending, slotRid, hqs]
          · by_cases h0 : kind = 0
            · subst h0; simp [closed, DOut.closes, Deck.pending]
            · by_cases h1' : kind = 1
              · subst h1'; simp [closed, DOut.closes, Deck.pending]
              · simp [closed, DOut.closes, Deck.pending, hk, h0, h1']
      · refine ⟨{ d with write := none },
          if q.hasFail then [.writeFailed q.rid ((w.addr : Int) - d.readBase)] else [.silent 2 q.rid], ?_, rfl, rfl, rfl,
          ⟨Or.inl ⟨hq', rfl⟩, by simp⟩, ?_⟩
        · cases hh : q.hasFail
          · simp [deckApply, deckOn, deckWriteFailed, hqs, hh, hc hh]
          · simp [deckApply, deckOn, deckWriteFailed, hqs, hh]
        · intro kind
          by_cases hk : kind = 2
          · subst hk; cases q.hasFail <;> simp [closed, DOut.closes, Deck.pending, slotRid, hqs]
          · by_cases h0 : kind = 0
            · subst h0; cases q.hasFail <;> simp [closed, DOut.closes, Deck.pending]
            · by_cases h1' : kind = 1
              · subst h1'; cases q.hasFail <;> simp [closed, DOut.closes, Deck.pending]
              · cases q.hasFail <;> simp [closed, DOut.closes, Deck.pending, hk, h0, h1', Ne.symm hk]

theorem WCons.queue_le {dv : DeckVariant} {s : St} {d : Deck} (h : WCons dv s d) : (s.queue d.id).length ≤ 1 := by
  rcases h.1 with ⟨h1, _⟩ | ⟨w, h1, _⟩ <;> rw [h1] <;> simp

theorem RCons.congr {dv : DeckVariant} {s s' : St} {d d' : Deck} (h : RCons dv s d) (hid : d'.id = d.id)
    (hq : d'.query = d.query) (hr : d'.read = d.read) (hs : dget? s'.reads d.id = dget? s.reads d.id) : RCons dv s' d' := by
  unfold RCons at *
  rw [hid, hq, hr, hs]; exact h

theorem WCons.congr {dv : DeckVariant} {s s' : St} {d d' : Deck} (h : WCons dv s d) (hid : d'.id = d.id)
    (hw : d'.write = d.write) (hs : s'.queue d.id = s.queue d.id) : WCons dv s' d' := by
  unfold WCons at *
  rw [hid, hw, hs]; exact h

/-- one `Memory` event with the manager subscribed: no subscriber raises, everything is delivered, the records stay
consistent and the accounting balances -/
theorem clientStep_inv {dv : DeckVariant} {c : CSt} (h : CInv dv c) {e : Ev} (he : e.WF) (hn : e.NotRequestOn c.d.id) :
    ∃ d' douts, clientStep dv Variant.fixed c.s c.d e = (d', step Variant.fixed c.s e, douts) ∧
      CInv dv ⟨(step Variant.fixed c.s e).st, d'⟩ ∧ Balanced c.d d' douts := by
  obtain ⟨hok', RN, WN, hkn, hR, hW⟩ := keffect_step h.ok h.writes.queue_le he hn
  obtain ⟨d1, o1, ha1, hid1, hw1, hR1, hB1⟩ := deckApply_reads h.reads hR
  have hW0 : WCons dv c.s d1 := h.writes.congr hid1 hw1 rfl
  obtain ⟨d2, o2, ha2, hid2, hq2, hr2, hW2, hB2⟩ := deckApply_writes hW0 (by rw [hid1]; exact hW)
  have happ : deckApply dv c.d (knotes c.d.id (step Variant.fixed c.s e).outs) = some (d2, o1 ++ o2) := by
    rw [hkn, deckApply_append, ha1]; simp [ha2]
  have hreact := deckReact_of_apply dv _ _ _ _ happ
  refine ⟨d2, o1 ++ o2, ?_, ⟨hok', ?_, ?_⟩, ?_⟩
  · simp only [clientStep, hreact]
  · exact hR1.congr (by rw [hid2, hid1]) hq2 hr2 (by rw [hid1])
  · simpa [hid1] using hW2
  · intro kind
    rw [closed_append, List.append_assoc, hB2 kind, hB1 kind]


theorem pending_congr {d d' : Deck} (hq : d'.query = d.query) (hr : d'.read = d.read) (hw : d'.write = d.write)
    (kind : Nat) : d'.pending kind = d.pending kind := by
  simp [Deck.pending, hq, hr, hw]

/-- `Memory.read` on a memory with / without a recorded read (exact results, reformulated on `dget?`) -/
theorem memRead_cases (s : St) {tag i addr len : Nat} (he : (Ev.read tag i addr len).WF) :
    (∃ r, dget? s.reads i = some r ∧ memRead s tag i addr len = ⟨s, [], .ret (some false)⟩) ∨
    (dget? s.reads i = none ∧ memRead s tag i addr len =
      ⟨{ s with reads := dset s.reads i (RReq.new tag i addr len) },
        [.send Gen.C06.chanRead (readReqBytes i addr (rdLen len))], .ret (some true)⟩) := by
  rw [memRead_eq s he, dhas_eq_isSome]
  cases h : dget? s.reads i with
  | none => right; exact ⟨rfl, by simp⟩
  | some r => left; exact ⟨r, rfl, by simp⟩

/-- every admissible event keeps the records consistent, and its accounting balances:
closed ++ still recorded = recorded before ++ accepted by this event -/
theorem cstep_inv {dv : DeckVariant} {c : CSt} (h : CInv dv c) {e : CEv} (ha : e.Adm dv c) :
    CInv dv (cstep dv c e).c ∧
    ∀ kind, closed kind (cstep dv c e).douts ++ (cstep dv c e).c.d.pending kind =
      c.d.pending kind ++ e.accepted kind (cstep dv c e).res := by
  obtain ⟨hok, hR, hW⟩ := h
  cases e with
  | mem e =>
    obtain ⟨d', douts, hc, hinv, hbal⟩ := clientStep_inv ⟨hok, hR, hW⟩ ha.1 ha.2
    simp only [cstep, hc]
    exact ⟨hinv, fun kind => by simpa [CEv.accepted] using hbal kind⟩
  | query tag rid hf =>
    obtain ⟨hwf, hacc, hfl⟩ := ha
    simp only [cstep, deckQuery]
    cases hq : c.d.query with
    | some q => exact ⟨⟨hok, hR, hW⟩, fun kind => by simp [CEv.accepted, closed]⟩
    | none =>
      simp only
      rcases memRead_cases c.s hwf with ⟨r, hget, hm⟩ | ⟨hget, hm⟩
      · -- Memory refuses: a read of this memory is recorded
        rw [hm]
        have hchk : dv.readAcceptedCheck = true := by
          rcases hacc with h' | h'
          · exact h'
          · rw [hget] at h'; cases h'
        simp only [hchk, Bool.true_and, beq_self_eq_true, ↓reduceIte]
        exact ⟨⟨hok, hR, hW⟩, fun kind => by simp [CEv.accepted, closed]⟩
      · rw [hm]
        have hne : ((Res.ret (some true) : Res) == Res.ret (some false)) = false := by decide
        simp only [hne, Bool.and_false, Bool.false_eq_true, ↓reduceIte]
        obtain ⟨hrec, hqf, hrf⟩ := hR
        rw [hget] at hrec
        refine ⟨⟨St.ok_setRead hok (RReq.new_ok hwf), ⟨?_, ?_, by simpa using hrf⟩, ?_⟩, ?_⟩
        · simp only [dget?_dset_same]
          exact Or.inl ⟨rfl, rfl, hrec.2, by simp [RReq.new]⟩
        · intro q' hq' hh; simp only [Option.some.injEq] at hq'; subst hq'; exact hfl hh
        · exact hW.congr rfl rfl rfl
        · intro kind
          by_cases hk : kind = 0
          · subst hk; simp [closed, CEv.accepted, Deck.pending, slotRid, hq]
          · simp [closed, CEv.accepted, Deck.pending, hk]
  | dread tag base address len rid hf =>
    obtain ⟨hwf, hna, hacc, hfl⟩ := ha
    simp only [cstep, deckRead]
    cases hq : c.d.read with
    | some q => exact ⟨⟨hok, hR, hW⟩, fun kind => by simp [CEv.accepted, closed]⟩
    | none =>
      simp only
      rcases memRead_cases c.s hwf with ⟨r, hget, hm⟩ | ⟨hget, hm⟩
      · rw [hm]
        have hchk : dv.readAcceptedCheck = true := by
          rcases hacc with h' | h'
          · exact h'
          · rw [hget] at h'; cases h'
        simp only [hchk, Bool.true_and, beq_self_eq_true, ↓reduceIte]
        exact ⟨⟨hok, hR.congr rfl rfl hq.symm rfl, hW.congr rfl rfl rfl⟩,
          fun kind => by simp [CEv.accepted, closed, Deck.pending, hq]⟩
      · rw [hm]
        have hne : ((Res.ret (some true) : Res) == Res.ret (some false)) = false := by decide
        simp only [hne, Bool.and_false, Bool.false_eq_true, ↓reduceIte]
        obtain ⟨hrec, hqf, hrf⟩ := hR
        rw [hget] at hrec
        refine ⟨⟨St.ok_setRead hok (RReq.new_ok hwf), ⟨?_, by simpa using hqf, ?_⟩, ?_⟩, ?_⟩
        · simp only [dget?_dset_same]
          exact Or.inr ⟨by simpa [RReq.new] using hna, rfl, hrec.1⟩
        · intro q' hq' hh; simp only [Option.some.injEq] at hq'; subst hq'; exact hfl hh
        · exact hW.congr rfl rfl rfl
        · intro kind
          by_cases hk : kind = 1
          · subst hk; simp [closed, CEv.accepted, Deck.pending, slotRid, hq]
          · simp [closed, CEv.accepted, Deck.pending, hk]
  | dwrite tag base address data rid hf p =>
    obtain ⟨hwf, hfl⟩ := ha
    simp only [cstep, deckWrite]
    cases hq : c.d.write with
    | some q => exact ⟨⟨hok, hR, hW⟩, fun kind => by simp [CEv.accepted, closed]⟩
    | none =>
      simp only
      have hqueue : c.s.queue c.d.id = [] := by
        rcases hW.1 with ⟨h1, _⟩ | ⟨w, _, h2⟩
        · exact h1
        · rw [hq] at h2; cases h2
      have hm := memWrite_eq hok hwf
      rw [hqueue] at hm
      simp only [List.take_nil, ite_self] at hm
      rw [hm]
      have hok' := (memWrite_effect hok hwf).1
      rw [hm] at hok'
      refine ⟨⟨hok', hR.congr rfl rfl rfl rfl, ⟨Or.inr ⟨(WReq.new tag c.d.id (address + base) data p).afterChunk,
        by simp [St.queue_def, dget?_dset_same], rfl⟩, ?_⟩⟩, ?_⟩
      · intro q' hq' hh; simp only [Option.some.injEq] at hq'; subst hq'; exact hfl hh
      · intro kind
        by_cases hk : kind = 2
        · subst hk; simp [closed, CEv.accepted, Deck.pending, slotRid, hq]
        · by_cases h0 : kind = 0
          · subst h0; simp [closed, CEv.accepted, Deck.pending]
          · by_cases h1 : kind = 1
            · subst h1; simp [closed, CEv.accepted, Deck.pending]
            · simp [closed, CEv.accepted, Deck.pending, hk, h0, h1]


/-! ### whole histories -/

def crun (dv : DeckVariant) : CSt → List CEv → CSt × List DOut
  | c, [] => (c, [])
  | c, e :: es =>
    let r := cstep dv c e
    let x := crun dv r.c es
    (x.1, r.douts ++ x.2)

/-- every event of the history is admissible in the state it happens in -/
def CAdm (dv : DeckVariant) : CSt → List CEv → Prop
  | _, [] => True
  | c, e :: es => e.Adm dv c ∧ CAdm dv (cstep dv c e).c es

/-- the requests of a kind the manager accepted (the call returned `None`), in order -/
def acceptedAll (dv : DeckVariant) (kind : Nat) : CSt → List CEv → List Nat
  | _, [] => []
  | c, e :: es => e.accepted kind (cstep dv c e).res ++ acceptedAll dv kind (cstep dv c e).c es

instance (e : Ev) : Decidable e.WF := by cases e <;> simp only [Ev.WF] <;> infer_instance
instance (k : Nat) (e : Ev) : Decidable (e.NotRequestOn k) := by cases e <;> simp only [Ev.NotRequestOn] <;> infer_instance
instance (dv : DeckVariant) (c : CSt) (e : CEv) : Decidable (e.Adm dv c) := by
  cases e <;> simp only [CEv.Adm] <;> infer_instance
instance instDecidableCAdm (dv : DeckVariant) : (c : CSt) → (evs : List CEv) → Decidable (CAdm dv c evs)
  | _, [] => isTrue trivial
  | c, e :: es =>
    have := instDecidableCAdm dv (cstep dv c e).c es
    by simp only [CAdm]; infer_instance

theorem crun_inv {dv : DeckVariant} (evs : List CEv) {c : CSt} (h : CInv dv c) (ha : CAdm dv c evs) :
    CInv dv (crun dv c evs).1 ∧
    ∀ kind, closed kind (crun dv c evs).2 ++ (crun dv c evs).1.d.pending kind =
      c.d.pending kind ++ acceptedAll dv kind c evs := by
  induction evs generalizing c with
  | nil => exact ⟨h, fun kind => by simp [crun, acceptedAll, closed]⟩
  | cons e es ih =>
    obtain ⟨h1, h2⟩ := cstep_inv h ha.1
    obtain ⟨h3, h4⟩ := ih h1 ha.2
    refine ⟨h3, fun kind => ?_⟩
    simp only [crun, acceptedAll, closed_append, List.append_assoc]
    rw [h4 kind, ← List.append_assoc, h2 kind, List.append_assoc]

theorem CInv.init (dv : DeckVariant) (id : Nat) : CInv dv ⟨St.init, Deck.new id⟩ :=
  ⟨St.init_ok, ⟨by simp [St.init, dget?, Deck.new], by simp [Deck.new], by simp [Deck.new]⟩,
    ⟨Or.inl ⟨by simp [St.queue_def, St.init, dget?], rfl⟩, by simp [Deck.new]⟩⟩


/-! ### the repaired variant: admissible = in the domain of the property -/

/-- the domain of the property at this layer: the request is well-formed; the info section is only read by
`query_decks`; requests on the manager's memory go through the manager -/
def CEv.Dom (c : CSt) : CEv → Prop
  | .query tag _ _ => (Ev.read tag c.d.id Gen.C06.deckInfoAddr Gen.C06.deckInfoSize).WF
  | .dread tag base address len _ _ => (Ev.read tag c.d.id (address + base) len).WF ∧ address + base ≠ Gen.C06.deckInfoAddr
  | .dwrite tag base address data _ _ p => (Ev.write tag c.d.id (address + base) data true p).WF
  | .mem e => e.WF ∧ e.NotRequestOn c.d.id

def CDom : CSt → List CEv → Prop
  | _, [] => True
  | c, e :: es => e.Dom c ∧ CDom (cstep DeckVariant.fixed c e).c es

theorem CEv.adm_fixed_of_dom {c : CSt} {e : CEv} (h : e.Dom c) : e.Adm DeckVariant.fixed c := by
  cases e with
  | query tag rid hf => exact ⟨h, Or.inl rfl, fun _ => rfl⟩
  | dread tag base address len rid hf => exact ⟨h.1, h.2, Or.inl rfl, fun _ => rfl⟩
  | dwrite tag base address data rid hf p => exact ⟨h, fun _ => rfl⟩
  | mem e => exact h

theorem CAdm_fixed_of_dom : ∀ (evs : List CEv) (c : CSt), CDom c evs → CAdm DeckVariant.fixed c evs
  | [], _, _ => trivial
  | e :: es, c, h => ⟨CEv.adm_fixed_of_dom h.1, CAdm_fixed_of_dom es _ h.2⟩

instance (c : CSt) (e : CEv) : Decidable (e.Dom c) := by cases e <;> simp only [CEv.Dom] <;> infer_instance
instance instDecidableCDom : (c : CSt) → (evs : List CEv) → Decidable (CDom c evs)
  | _, [] => isTrue trivial
  | c, e :: es =>
    have := instDecidableCDom (cstep DeckVariant.fixed c e).c es
    by simp only [CDom]; infer_instance

end CfVerif.C06

/- Proofs/C06Fan — the notification Callers: with `Caller.call` iterating over a copy, every subscriber registered when a
notification is issued is told exactly once, whatever the subscribers do (unsubscribe themselves or others, subscribe
others) from inside the notification. -/
import CfVerif.Proofs.C06Safety
namespace CfVerif.C06
open CfVerif

theorem Subs.get_set (s : Subs) (k k' : NKind) (l : List Nat) :
    (s.set k l).get k' = if k' = k then l else s.get k' := by
  cases k <;> cases k' <;> simp [Subs.set, Subs.get]

def Subs.Nodup (s : Subs) : Prop := ∀ k, (s.get k).Nodup

theorem Subs.none_nodup : Subs.none.Nodup := by
  intro k; cases k <;> simp [Subs.none, Subs.get]

theorem callerAdd_nodup {l : List Nat} (h : l.Nodup) (c : Nat) : (C07.callerAdd l c).Nodup := by
  unfold C07.callerAdd
  split
  · exact h
  · rename_i hc
    have hc' : c ∉ l := by simpa using hc
    rw [List.nodup_append]
    exact ⟨h, by simp, by intro a ha b hb; simp at hb; subst hb; exact fun hab => hc' (hab ▸ ha)⟩

theorem callerRemove_nodup {l : List Nat} (h : l.Nodup) (c : Nat) : ((C07.callerRemove l c).getD l).Nodup := by
  unfold C07.callerRemove
  split
  · exact List.Nodup.sublist List.erase_sublist h
  · exact h

theorem runSubAct_nodup {s : Subs} (h : s.Nodup) (a : SubAct) : (runSubAct s a).Nodup := by
  intro k'
  cases a with
  | add k c =>
    simp only [runSubAct, Subs.get_set]
    split
    · exact callerAdd_nodup (h k) c
    · exact h k'
  | remove k c =>
    simp only [runSubAct, Subs.get_set]
    split
    · exact callerRemove_nodup (h k) c
    · exact h k'

theorem runSubActs_nodup {s : Subs} (h : s.Nodup) (as : List SubAct) : (runSubActs s as).Nodup := by
  induction as generalizing s with
  | nil => exact h
  | cons a as ih => exact ih (runSubAct_nodup h a)

/-! ### one notification -/

theorem fanSnap_spec (beh : SBeh) (o : Out) (cs : List Nat) (f : Fan) :
    (fanSnap beh o cs f).told = f.told ++ cs.map (fun c => (c, o)) ∧ (fanSnap beh o cs f).due = f.due ∧
    (f.subs.Nodup → (fanSnap beh o cs f).subs.Nodup) := by
  induction cs generalizing f with
  | nil => simp [fanSnap]
  | cons c cs ih =>
    simp only [fanSnap]
    obtain ⟨h1, h2, h3⟩ := ih { f with subs := runSubActs f.subs (beh (f.told ++ [(c, o)]) c o), told := f.told ++ [(c, o)] }
    exact ⟨by rw [h1]; simp, h2, fun hn => h3 (runSubActs_nodup hn _)⟩

theorem fanLive_nodup (beh : SBeh) (o : Out) (k : NKind) (fuel i : Nat) (f : Fan) (h : f.subs.Nodup) :
    (fanLive beh o k fuel i f).subs.Nodup := by
  induction fuel generalizing i f with
  | zero => exact h
  | succ n ih =>
    simp only [fanLive]
    split
    · exact h
    · exact ih _ _ (runSubActs_nodup h _)

/-- `Caller.call` over a copy: exactly the subscribers registered on entry are told, once each, in registration
order - for every behaviour of the subscribers -/
theorem callerCall_copy (beh : SBeh) (o : Out) (k : NKind) (hk : o.kind? = some k) (f : Fan) :
    (callerCall CallerVariant.fixed beh o f).told = f.told ++ (f.subs.get k).map (fun c => (c, o)) ∧
    (callerCall CallerVariant.fixed beh o f).due = f.due ++ (f.subs.get k).map (fun c => (c, o)) := by
  simp only [callerCall, hk, CallerVariant.fixed, ↓reduceIte]
  obtain ⟨h1, h2, _⟩ := fanSnap_spec beh o (f.subs.get k)
    { f with due := f.due ++ (f.subs.get k).map fun c => (c, o) }
  exact ⟨h1, h2⟩

theorem callerCall_quiet (cv : CallerVariant) (beh : SBeh) (o : Out) (hk : o.kind? = none) (f : Fan) :
    callerCall cv beh o f = f := by
  simp only [callerCall, hk]

theorem callerCall_nodup (cv : CallerVariant) (beh : SBeh) (o : Out) (f : Fan) (h : f.subs.Nodup) :
    (callerCall cv beh o f).subs.Nodup := by
  unfold callerCall
  split
  · exact h
  · simp only
    split
    · exact (fanSnap_spec beh o _ _).2.2 h
    · exact fanLive_nodup beh o _ _ _ _ h

theorem count_map_pair {l : List Nat} (h : l.Nodup) (c : Nat) (o : Out) :
    (l.map (fun x => (x, o))).count (c, o) = if c ∈ l then 1 else 0 := by
  induction l with
  | nil => simp
  | cons x xs ih =>
    have hx : x ∉ xs := (List.nodup_cons.mp h).1
    have hxs := (List.nodup_cons.mp h).2
    simp only [List.map_cons, List.count_cons, ih hxs, List.mem_cons]
    by_cases hcx : c = x
    · subst hcx; simp [hx]
    · have : ¬ (x, o) = (c, o) := fun h' => hcx (by cases h'; rfl)
      simp [hcx, this]

/-! ### all histories -/

def Fan.Ok (f : Fan) : Prop := f.told = f.due ∧ f.subs.Nodup

theorem callerCall_ok (beh : SBeh) (o : Out) {f : Fan} (h : f.Ok) : (callerCall CallerVariant.fixed beh o f).Ok := by
  refine ⟨?_, callerCall_nodup _ beh o f h.2⟩
  cases hk : o.kind? with
  | none => rw [callerCall_quiet _ beh o hk]; exact h.1
  | some k =>
    obtain ⟨h1, h2⟩ := callerCall_copy beh o k hk f
    rw [h1, h2, h.1]

theorem notifyAll_ok (beh : SBeh) (outs : List Out) {f : Fan} (h : f.Ok) : (notifyAll CallerVariant.fixed beh outs f).Ok := by
  induction outs generalizing f with
  | nil => exact h
  | cons o os ih => exact ih (callerCall_ok beh o h)

theorem fstep_ok (beh : SBeh) {x : FSt} (h : x.f.Ok) (e : FEv) : (fstep CallerVariant.fixed beh x e).1.f.Ok := by
  cases e with
  | sub a => exact ⟨h.1, runSubAct_nodup h.2 a⟩
  | mem ev =>
    have := notifyAll_ok beh (step Variant.fixed x.s ev).outs h
    cases ev <;> first | exact this | exact ⟨this.1, Subs.none_nodup⟩

theorem frun_ok (beh : SBeh) {x : FSt} (h : x.f.Ok) (es : List FEv) : (frun CallerVariant.fixed beh x es).1.f.Ok := by
  induction es generalizing x with
  | nil => exact h
  | cons e es ih => exact ih (fstep_ok beh h e)

/-- the library state and the notifications issued do not depend on the subscribers -/
theorem frun_mem (cv : CallerVariant) (beh : SBeh) (x : FSt) (es : List FEv) :
    ((frun cv beh x es).1.s, (frun cv beh x es).2) =
      run Variant.fixed x.s (es.filterMap fun | .mem e => some e | .sub _ => none) := by
  induction es generalizing x with
  | nil => rfl
  | cons e es ih =>
    cases e with
    | sub a =>
      have := ih (fstep cv beh x (.sub a)).1
      simp only [frun, List.filterMap_cons]
      simpa [fstep] using this
    | mem ev =>
      have := ih (fstep cv beh x (.mem ev)).1
      simp only [frun, List.filterMap_cons, run_cons]
      simp only [fstep] at this ⊢
      rw [← this]

end CfVerif.C06

/- Proofs/C06Live — next_request_served: from any state of the closed system in which the answer to the outstanding
chunk is the newest packet in flight, delivering the newest packet again and again completes the read. -/
import CfVerif.Proofs.C06Write
namespace CfVerif.C06
open CfVerif

/-- deliver the newest packet in flight (and remove it) -/
def deliverLast (y : Sys) : Sys := stepSys Variant.fixed y (.deliver (y.net.length - 1) false)

def deliverLastN : Nat → Sys → Sys
  | 0, y => y
  | n + 1, y => deliverLastN n (deliverLast y)

/-- the actions performed by `deliverLastN` -/
def deliverLastActs : Nat → Sys → List Act
  | 0, _ => []
  | n + 1, y => .deliver (y.net.length - 1) false :: deliverLastActs n (deliverLast y)

theorem deliverLastN_eq_runSys (n : Nat) (y : Sys) :
    deliverLastN n y = runSys Variant.fixed y (deliverLastActs n y) := by
  induction n generalizing y with
  | zero => rfl
  | succ n ih => simp only [deliverLastN, deliverLastActs, runSys_cons]; exact ih _

/-- the situation right after a chunk request of the read recorded for `id` went out: the device's (error-free)
answer is the newest packet in flight; the whole remaining range lies inside the memory; no fault is scheduled -/
structure ReadServing (id : Nat) (m : Image) (r : RReq) (y : Sys) : Prop where
  host : y.host.Ok
  pend : dget? y.host.reads id = some r
  dev : y.dev[id]? = some m
  faults : ∀ f ∈ y.faults, f = 0
  range : r.cur + r.left ≤ m.length
  last : ∃ net0, y.net = net0 ++ [(specChanRead, headBytes id r.cur ++ 0 :: slice m r.cur (rdLen r.left))]

theorem rdLen_le_limit (x : Nat) : rdLen x ≤ readLimit := Nat.le_trans (readLen_le x) gen_readMax_le

/-- the device's answer to an in-range chunk request, without faults -/
theorem devRead_in_range {dev : Device} {id : Nat} {m : Image} (hd : dev[id]? = some m) {a n : Nat}
    (hn : n ≤ readLimit) (hin : a + n ≤ m.length) : devRead dev id a n = (0, slice m a n) := by
  unfold devRead; rw [hd]; simp only
  rw [if_neg (by omega), if_neg (by omega)]

theorem headD_zero {l : List UInt8} (h : ∀ f ∈ l, f = 0) : l.headD 0 = 0 := by
  cases l with
  | nil => rfl
  | cons a t => exact h a (by simp)

/-- one delivery of the newest packet: the read completes with exactly the remaining bytes appended, or the next
chunk is outstanding with strictly fewer bytes left -/
theorem ReadServing.step {id : Nat} (hid : id < 256) {m : Image} {r : RReq} {y : Sys} (h : ReadServing id m r y) :
    (Out.readOk r.tag id r.addr (r.data ++ slice m r.cur r.left) ∈ (deliverLast y).outs) ∨
    (∃ r', ReadServing id m r' (deliverLast y) ∧ r'.left < r.left ∧ r'.tag = r.tag ∧ r'.addr = r.addr ∧
      r'.data ++ slice m r'.cur r'.left = r.data ++ slice m r.cur r.left) := by
  obtain ⟨net0, hnet⟩ := h.last
  have hok := h.host.reads id r h.pend
  have hlen : y.net.length - 1 = net0.length := by rw [hnet]; simp
  have hp : y.net[y.net.length - 1]? = some (specChanRead, headBytes id r.cur ++ 0 :: slice m r.cur (rdLen r.left)) := by
    rw [hlen, hnet]; simp
  have hev : (Act.deliver (y.net.length - 1) false).toEv y.net =
      some (.pkt specChanRead (headBytes id r.cur ++ 0 :: slice m r.cur (rdLen r.left))) := by
    simp [Act.toEv, hp]
  have hstep : CfVerif.C06.step Variant.fixed y.host (.pkt specChanRead (headBytes id r.cur ++ 0 :: slice m r.cur (rdLen r.left))) =
      onReadReply y.host id r.cur 0 (slice m r.cur (rdLen r.left)) := by
    simp only [CfVerif.C06.step]; exact newPacketCb_readReply _ hid hok.2.2.1 0 _
  have hle := readLen_le' r.left
  have hdl : (slice m r.cur (rdLen r.left)).length = rdLen r.left := slice_length (by have := h.range; omega)
  rw [onReadReply_eq h.pend hok] at hstep
  simp only [↓reduceIte, ne_eq, not_true_eq_false] at hstep
  have hnb : (Act.deliver (y.net.length - 1) false).netBefore y.net = net0 := by
    simp only [Act.netBefore, hlen, hnet]
    rw [List.eraseIdx_append_of_length_le (by simp)]; simp
  by_cases hmore : r.left > (slice m r.cur (rdLen r.left)).length
  · right
    rw [if_pos hmore] at hstep
    have hplus := RReq.plus_ok hok hmore
    have hrn : rdLen (r.left - (slice m r.cur (rdLen r.left)).length) < 256 := by
      have := readLen_le (r.left - (slice m r.cur (rdLen r.left)).length); have := gen_readMax_byte; omega
    have hnn : ∀ o ∈ [Out.send Gen.C06.chanRead (readReqBytes id (r.cur + (slice m r.cur (rdLen r.left)).length)
        (rdLen (r.left - (slice m r.cur (rdLen r.left)).length)))], o.isNote = false := by simp [Out.isNote]
    have hlt : (r.plus (slice m r.cur (rdLen r.left))).left < r.left := by
      simp only [RReq.plus]; rw [hdl] at hmore ⊢
      have := rdLen_pos_of_gt hmore rfl; omega
    refine ⟨r.plus (slice m r.cur (rdLen r.left)), ?_, hlt, rfl, rfl, ?_⟩
    · unfold deliverLast
      rw [stepSys_of hev hstep]
      simp only [purge_of_no_notes _ hnn, feed_single, hnb]
      rw [gen_chanRead, devHandle_readReq _ _ hid (by simpa [RReq.plus] using hplus.2.2.1) hrn]
      rw [headD_zero h.faults]
      simp only [ne_eq, not_true_eq_false, ↓reduceIte]
      have hin : r.cur + (slice m r.cur (rdLen r.left)).length + rdLen (r.left - (slice m r.cur (rdLen r.left)).length) ≤ m.length := by
        have := readLen_le' (r.left - (slice m r.cur (rdLen r.left)).length); have := h.range; omega
      rw [devRead_in_range h.dev (rdLen_le_limit _) hin]
      refine ⟨St.ok_setRead h.host hplus, by simp [dget?_dset_same], h.dev, fun f hf => h.faults f (List.mem_of_mem_tail hf),
        by simp only [RReq.plus]; have := h.range; omega, net0, ?_⟩
      simp [RReq.plus]
    · simp only [RReq.plus, List.append_assoc]
      congr 1
      rw [hdl, slice_append]
      congr 1
      have := readLen_le' (r.left - rdLen r.left); omega
  · left
    rw [if_neg hmore] at hstep
    unfold deliverLast
    rw [stepSys_of hev hstep]
    have : rdLen r.left = r.left := by omega
    simp [this]

/-- delivering the newest packet at most `left + 1` times completes the read with exactly the remaining bytes -/
theorem ReadServing.complete {id : Nat} (hid : id < 256) {m : Image} :
    ∀ (k : Nat) {r : RReq} {y : Sys}, r.left ≤ k → ReadServing id m r y →
      ∃ n ≤ k + 1, Out.readOk r.tag id r.addr (r.data ++ slice m r.cur r.left) ∈ (deliverLastN n y).outs := by
  intro k
  induction k with
  | zero =>
    intro r y hk h
    rcases h.step hid with hdone | ⟨r', _, hlt, _⟩
    · exact ⟨1, by omega, hdone⟩
    · omega
  | succ k ih =>
    intro r y hk h
    rcases h.step hid with hdone | ⟨r', h', hlt, ht, ha, hd⟩
    · exact ⟨1, by omega, hdone⟩
    · obtain ⟨n, hn, hmem⟩ := ih (r := r') (y := deliverLast y) (by omega) h'
      refine ⟨n + 1, by omega, ?_⟩
      rw [ht, ha, hd] at hmem
      exact hmem


/-- issuing a read on a memory without a recorded read, in range, without scheduled faults: `ReadServing` holds -/
theorem ReadServing.start {id : Nat} (hid : id < 256) {m : Image} {y : Sys} (hok : y.host.Ok)
    (hnone : dget? y.host.reads id = none) (hdev : y.dev[id]? = some m) (hf : ∀ f ∈ y.faults, f = 0)
    {tag addr len : Nat} (hwf : (Ev.read tag id addr len).WF) (hin : addr + len ≤ m.length) :
    ReadServing id m (RReq.new tag id addr len) (stepSys Variant.fixed y (.read tag id addr len)) := by
  have hev : (Act.read tag id addr len).toEv y.net = some (.read tag id addr len) := rfl
  have hstep : CfVerif.C06.step Variant.fixed y.host (.read tag id addr len) = memRead y.host tag id addr len := rfl
  have hno : dhas y.host.reads id = false := by rw [dhas_eq_isSome, hnone]; rfl
  rw [memRead_eq y.host hwf, hno] at hstep
  simp only [Bool.false_eq_true, ↓reduceIte] at hstep
  rw [stepSys_of hev hstep]
  have hnn : ∀ o ∈ [Out.send Gen.C06.chanRead (readReqBytes id addr (rdLen len))], o.isNote = false := by simp [Out.isNote]
  have hrn : rdLen len < 256 := by have := readLen_le len; have := gen_readMax_byte; omega
  simp only [purge_of_no_notes _ hnn, feed_single, Act.netBefore]
  rw [gen_chanRead, devHandle_readReq _ _ hid hwf.2.1 hrn, headD_zero hf]
  simp only [ne_eq, not_true_eq_false, ↓reduceIte]
  have hle := readLen_le' len
  rw [devRead_in_range hdev (rdLen_le_limit _) (by omega)]
  exact ⟨St.ok_setRead hok (RReq.new_ok hwf), by simp [dget?_dset_same], hdev,
    fun f hf' => hf f (List.mem_of_mem_tail hf'), by simpa [RReq.new] using hin, y.net, by simp [RReq.new]⟩

/-! ### writes -/

/-- right after a chunk of the only queued write of memory `id` went to the device: it was stored, its
acknowledgement (status 0) is the newest packet in flight; the rest of the data fits; no fault is scheduled -/
structure WriteServing (id L : Nat) (w : WReq) (y : Sys) : Prop where
  host : y.host.Ok
  queue : y.host.queue id = [w]
  dev : ∃ m, y.dev[id]? = some m ∧ m.length = L
  faults : ∀ f ∈ y.faults, f = 0
  range : w.cur + w.addrAdd + w.rest.length ≤ L
  last : ∃ net0, y.net = net0 ++ [(specChanWrite, headBytes id w.cur ++ [0])]

theorem wrLen_le_limit (x : Nat) : wrLen x ≤ writeLimit := Nat.le_trans (wrLen_le x) gen_writeMax_le

theorem WriteServing.step {id L : Nat} (hid : id < 256) {w : WReq} {y : Sys} (h : WriteServing id L w y) :
    (Out.writeOk w.tag id w.addr ∈ (deliverLast y).outs ∧ (deliverLast y).host.queue id = []) ∨
    (∃ w', WriteServing id L w' (deliverLast y) ∧ w'.rest.length < w.rest.length ∧ w'.tag = w.tag ∧ w'.addr = w.addr) := by
  obtain ⟨net0, hnet⟩ := h.last
  obtain ⟨m, hm, hmL⟩ := h.dev
  have hwok := (St.queue_ok h.host id).1 w (by rw [h.queue]; simp)
  have hlen : y.net.length - 1 = net0.length := by rw [hnet]; simp
  have hp : y.net[y.net.length - 1]? = some (specChanWrite, headBytes id w.cur ++ [0]) := by rw [hlen, hnet]; simp
  have hev : (Act.deliver (y.net.length - 1) false).toEv y.net = some (.pkt specChanWrite (headBytes id w.cur ++ [0])) := by
    simp [Act.toEv, hp]
  have hstep : CfVerif.C06.step Variant.fixed y.host (.pkt specChanWrite (headBytes id w.cur ++ [0])) =
      onWriteReply Variant.fixed y.host id w.cur 0 := by
    simp only [CfVerif.C06.step]; exact newPacketCb_writeAck _ hid hwok.2.2.1 0
  obtain ⟨w1, po, hsame, hpo, hres⟩ := onWriteReply_ack h.host h.queue
  rw [hres] at hstep
  have hnb : (Act.deliver (y.net.length - 1) false).netBefore y.net = net0 := by
    simp only [Act.netBefore, hlen, hnet]
    rw [List.eraseIdx_append_of_length_le (by simp)]; simp
  have hqset : ∀ (q : List WReq), ({ reads := y.host.reads, writes := dset y.host.writes id q, lock := false } : St).queue id = q := by
    intro q; simp [St.queue_def, dget?_dset_same]
  by_cases hr : w.rest.length > 0
  · right
    rw [if_pos hr] at hstep
    obtain ⟨ht, hi, had, hc, haa, hr1, _, _⟩ := hsame
    have hcur' : w.cur + w.addrAdd < 2 ^ 32 := (WReq.advance_ok hwok hr).1
    have hok' : (CfVerif.C06.step Variant.fixed y.host (.pkt specChanWrite (headBytes id w.cur ++ [0]))).st.Ok :=
      (step_effect h.host (e := .pkt specChanWrite (headBytes id w.cur ++ [0])) trivial).1
    rw [hstep] at hok'
    have hnn : ∀ o ∈ po ++ [Out.send Gen.C06.chanWrite (headBytes id (w.cur + w.addrAdd) ++
        List.take (wrLen w.rest.length) w.rest)], o.isNote = false := by
      intro o ho
      rcases List.mem_append.1 ho with ho | ho
      · have := hpo o ho; cases o <;> simp_all [Out.isProgress, Out.isNote]
      · simp only [List.mem_singleton] at ho; subst ho; rfl
    have hn' := wrLen_le' w.rest.length
    have hbl : (List.take (wrLen w.rest.length) w.rest).length = wrLen w.rest.length := by simp [List.length_take]; omega
    refine ⟨({ w1 with cur := w1.cur + w1.addrAdd } : WReq).afterChunk, ?_, ?_, by simp [WReq.afterChunk, ht],
      by simp [WReq.afterChunk, had]⟩
    · unfold deliverLast
      rw [stepSys_of hev hstep]
      simp only [purge_of_no_notes _ hnn, feed_prog_send _ _ _ hpo, hnb]
      rw [gen_chanWrite, devHandle_writeReq _ _ hid hcur', headD_zero h.faults]
      simp only [ne_eq, not_true_eq_false, ↓reduceIte]
      have hin : w.cur + w.addrAdd + (List.take (wrLen w.rest.length) w.rest).length ≤ m.length := by
        rw [hbl, hmL]; have := h.range; omega
      rw [devWrite_ok hm (by rw [hbl]; exact wrLen_le_limit _) hin]
      refine ⟨hok', hqset _, ⟨overwrite m (w.cur + w.addrAdd) (List.take (wrLen w.rest.length) w.rest), ?_, ?_⟩,
        fun f hf => h.faults f (List.mem_of_mem_tail hf), ?_, net0, ?_⟩
      · have : id < y.dev.length := by
          rcases Nat.lt_or_ge id y.dev.length with hh | hh
          · exact hh
          · rw [List.getElem?_eq_none hh] at hm; cases hm
        simp [List.getElem?_set, this]
      · rw [overwrite_length hin]; exact hmL
      · simp only [WReq.afterChunk, hc, haa, hr1, List.length_drop]; have := h.range; omega
      · simp [WReq.afterChunk, hc, haa]
    · simp only [WReq.afterChunk, hr1, List.length_drop]
      have := gen_writeMax_pos
      unfold wrLen; split <;> omega
  · left
    rw [if_neg hr] at hstep
    unfold deliverLast
    rw [stepSys_of hev hstep]
    exact ⟨by simp [nextStarted], by simp [hqset, nextStarted]⟩

theorem WriteServing.complete {id L : Nat} (hid : id < 256) :
    ∀ (k : Nat) {w : WReq} {y : Sys}, w.rest.length ≤ k → WriteServing id L w y →
      ∃ n ≤ k + 1, Out.writeOk w.tag id w.addr ∈ (deliverLastN n y).outs ∧ (deliverLastN n y).host.queue id = [] := by
  intro k
  induction k with
  | zero =>
    intro w y hk h
    rcases h.step hid with hdone | ⟨w', _, hlt, _⟩
    · exact ⟨1, by omega, hdone⟩
    · omega
  | succ k ih =>
    intro w y hk h
    rcases h.step hid with hdone | ⟨w', h', hlt, ht, ha⟩
    · exact ⟨1, by omega, hdone⟩
    · obtain ⟨n, hn, hmem⟩ := ih (w := w') (y := deliverLast y) (by omega) h'
      refine ⟨n + 1, by omega, ?_⟩
      rw [ht, ha] at hmem
      exact hmem

/-- issuing a write on a memory with an empty queue, in range, without scheduled faults: `WriteServing` holds -/
theorem WriteServing.start {id : Nat} (hid : id < 256) {m : Image} {y : Sys} (hok : y.host.Ok)
    (hq : y.host.queue id = []) (hdev : y.dev[id]? = some m) (hf : ∀ f ∈ y.faults, f = 0)
    {tag addr : Nat} {data : List UInt8} {flush p : Bool} (hwf : (Ev.write tag id addr data flush p).WF)
    (hin : addr + data.length ≤ m.length) :
    WriteServing id m.length ((WReq.new tag id addr data p).afterChunk)
      (stepSys Variant.fixed y (.write tag id addr data flush p)) := by
  have hev : (Act.write tag id addr data flush p).toEv y.net = some (.write tag id addr data flush p) := rfl
  have hstep : CfVerif.C06.step Variant.fixed y.host (.write tag id addr data flush p) =
      memWrite Variant.fixed y.host tag id addr data flush p := rfl
  have hok' := (step_effect hok (e := .write tag id addr data flush p) hwf).1
  rw [memWrite_eq hok hwf, hq] at hstep
  have hq' : (if flush = true then List.take 1 ([] : List WReq) else []) = [] := by split <;> rfl
  rw [hq'] at hstep
  simp only at hstep
  rw [hstep] at hok'
  rw [stepSys_of hev hstep]
  have hnn : ∀ o ∈ [Out.send Gen.C06.chanWrite (headBytes id addr ++ data.take (wrLen data.length))],
      o.isNote = false := by simp [Out.isNote]
  have hn' := wrLen_le' data.length
  have hbl : (data.take (wrLen data.length)).length = wrLen data.length := by simp [List.length_take]; omega
  simp only [purge_of_no_notes _ hnn, feed_single, Act.netBefore]
  rw [gen_chanWrite, devHandle_writeReq _ _ hid hwf.2.1, headD_zero hf]
  simp only [ne_eq, not_true_eq_false, ↓reduceIte]
  have hin' : addr + (data.take (wrLen data.length)).length ≤ m.length := by rw [hbl]; omega
  rw [devWrite_ok hdev (by rw [hbl]; exact wrLen_le_limit _) hin']
  refine ⟨hok', by simp [St.queue_def, dget?_dset_same], ⟨overwrite m addr (data.take (wrLen data.length)), ?_,
    overwrite_length hin'⟩, fun f hf' => hf f (List.mem_of_mem_tail hf'), ?_, y.net, by simp [WReq.afterChunk, WReq.new]⟩
  · have : id < y.dev.length := by
      rcases Nat.lt_or_ge id y.dev.length with hh | hh
      · exact hh
      · rw [List.getElem?_eq_none hh] at hdev; cases hdev
    simp [List.getElem?_set, this]
  · simp only [WReq.afterChunk, WReq.new, List.length_drop]; omega

end CfVerif.C06

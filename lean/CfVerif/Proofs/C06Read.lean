/- Proofs/C06Read — read_exact: the invariant of the closed system for one memory that is only read. -/
import CfVerif.Proofs.C06Sys
namespace CfVerif.C06
open CfVerif

/-- actions admitted by `read_exact` for memory `id`: requests are well-formed, nothing is forged (A1), and
memory `id` is not written (so "the bytes the device holds there" is well defined) -/
def Act.OkForRead (id : Nat) : Act → Prop
  | .read t i a l => (Ev.read t i a l).WF
  | .write t i a d f p => (Ev.write t i a d f p).WF ∧ i ≠ id
  | .deliver _ _ => True
  | .inject _ _ => False
  | .drop => True

def IsReadReplyFor (id : Nat) (p : Packet) : Prop := p.1 = specChanRead ∧ p.2.head? = some (UInt8.ofNat id)

/-- a reply in flight for the recorded read request `r`: an error status, or an answer to an earlier chunk, or
the genuine answer to the chunk now outstanding -/
def ReplyGood (om : Option Image) (id : Nat) (r : RReq) (p : Packet) : Prop :=
  ∃ a st d, p.2 = headBytes id a ++ st :: d ∧ a < 2 ^ 32 ∧
    (st ≠ 0 ∨ a < r.cur ∨
      (a = r.cur ∧ ∃ m, om = some m ∧ d = slice m r.cur (rdLen r.left) ∧ r.cur + rdLen r.left ≤ m.length))

def RGood (om : Option Image) (r : RReq) (len : Nat) : Prop :=
  r.data.length + r.left = len ∧ r.cur = r.addr + r.data.length ∧
  (∀ m, om = some m → r.data = slice m r.addr r.data.length) ∧
  ∃ j, r.data.length = j * Gen.C06.readMax

/-- `bytes` is the request for chunk `j` of a read of `len` bytes at `addr` of memory `id` -/
def IsReadChunk (id addr len : Nat) (bytes : List UInt8) : Prop :=
  ∃ j, j * Gen.C06.readMax ≤ len ∧
    bytes = readReqBytes id (addr + j * Gen.C06.readMax) (rdLen (len - j * Gen.C06.readMax))

structure RInv (id : Nat) (om : Option Image) (pre : List Act) (y : Sys) : Prop where
  host : y.host.Ok
  dev : y.dev[id]? = om
  noWrites : (dget? y.host.writes id).getD [] = []
  pending : match dget? y.host.reads id with
    | none => ∀ p ∈ y.net, ¬ IsReadReplyFor id p
    | some r => ∃ len, Act.read r.tag id r.addr len ∈ pre ∧ RGood om r len ∧
        ∀ p ∈ y.net, IsReadReplyFor id p → ReplyGood om id r p
  log : ∀ tag addr data, Out.readOk tag id addr data ∈ y.outs →
    ∃ len m, Act.read tag id addr len ∈ pre ∧ om = some m ∧ data = slice m addr len ∧ addr + len ≤ m.length
  sends : ∀ bytes, Out.send Gen.C06.chanRead bytes ∈ y.outs → bytes.head? = some (UInt8.ofNat id) →
    ∃ tag addr len, Act.read tag id addr len ∈ pre ∧ IsReadChunk id addr len bytes

theorem append_congr {α : Type} {a a' b b' : List α} (h1 : a = a') (h2 : b = b') : a ++ b = a' ++ b' := by
  rw [h1, h2]

theorem slice_append (m : Image) (a k n : Nat) : slice m a k ++ slice m (a + k) n = slice m a (k + n) := by
  simp only [slice]
  rw [List.take_add, List.drop_drop]

theorem slice_length {m : Image} {a n : Nat} (h : a + n ≤ m.length) : (slice m a n).length = n := by
  simp only [slice, List.length_take, List.length_drop]; omega

theorem RInv.mono {id : Nat} {om : Option Image} {pre : List Act} {y : Sys} (h : RInv id om pre y) (a : Act) :
    RInv id om (pre ++ [a]) y := by
  refine ⟨h.host, h.dev, h.noWrites, ?_, ?_, ?_⟩
  · have := h.pending
    split at this
    · exact this
    · obtain ⟨len, h1, h2, h3⟩ := this
      exact ⟨len, by simp [h1], h2, h3⟩
  · intro tag addr data ho
    obtain ⟨len, m, h1, h2⟩ := h.log tag addr data ho
    exact ⟨len, m, by simp [h1], h2⟩
  · intro bytes ho hh
    obtain ⟨tag, addr, len, h1, h2⟩ := h.sends bytes ho hh
    exact ⟨tag, addr, len, by simp [h1], h2⟩

theorem netBefore_subset (a : Act) (net : List Packet) : ∀ p ∈ a.netBefore net, p ∈ net := by
  intro p hp
  unfold Act.netBefore at hp
  split at hp
  · exact List.mem_of_mem_eraseIdx hp
  · cases hp
  · exact hp

theorem byte_ne {k id : Nat} (hk : k < 256) (hid : id < 256) (hne : k ≠ id) : UInt8.ofNat k ≠ UInt8.ofNat id := by
  intro h'
  have := congrArg UInt8.toNat h'
  simp [Nat.mod_eq_of_lt hk, Nat.mod_eq_of_lt hid] at this
  exact hne this

/-- an event about another memory preserves the invariant of memory `id` -/
theorem RInv.step_other {id : Nat} (hid : id < 256) {om : Option Image} {pre : List Act} {y : Sys}
    (h : RInv id om pre y) {a : Act} {ev : Ev} (hev : a.toEv y.net = some ev) (hwf : ev.WF) {k : Nat}
    (hk : ev.about? = some k) (hk256 : k < 256) (hne : k ≠ id) :
    RInv id om (pre ++ [a]) (stepSys Variant.fixed y a) := by
  have hm := h.mono a
  obtain ⟨hfr, hab⟩ := step_frame h.host hwf hk
  obtain ⟨hok, _, _⟩ := step_effect h.host hwf
  unfold stepSys
  rw [hev]
  simp only
  obtain ⟨hdev, extra, hnet, hextra⟩ := feed_frame hk256 hid hne y.dev y.faults
    (purge (a.netBefore y.net) (step Variant.fixed y.host ev).outs) hab
  have hold : ∀ p ∈ (feed y.dev y.faults (purge (a.netBefore y.net) (step Variant.fixed y.host ev).outs)
      (step Variant.fixed y.host ev).outs).2.2, IsReadReplyFor id p → p ∈ y.net := by
    intro p hp hrep
    rw [hnet] at hp
    rcases List.mem_append.1 hp with hp | hp
    · exact netBefore_subset a _ p (mem_purge.1 hp).1
    · have := hextra p hp
      rw [hrep.2] at this
      exact absurd (Option.some.inj this).symm (byte_ne hk256 hid hne)
  refine ⟨hok, hdev.trans h.dev, ?_, ?_, ?_, ?_⟩
  · rw [(hfr id (Ne.symm hne)).2]; exact h.noWrites
  · rw [(hfr id (Ne.symm hne)).1]
    have := hm.pending
    split at this
    · intro p hp hrep; exact this p (hold p hp hrep) hrep
    · obtain ⟨len, h1, h2, h3⟩ := this
      exact ⟨len, h1, h2, fun p hp hrep => h3 p (hold p hp hrep) hrep⟩
  · intro tag addr data ho
    rcases List.mem_append.1 ho with ho | ho
    · exact hm.log tag addr data ho
    · exact absurd (hab _ ho) (by simp [Out.About, Ne.symm hne])
  · intro bytes ho hh
    rcases List.mem_append.1 ho with ho | ho
    · exact hm.sends bytes ho hh
    · have := (hab _ ho).1
      rw [hh] at this
      exact absurd (Option.some.inj this).symm (byte_ne hk256 hid hne)


/-! ### parsing a genuine reply -/

theorem headBytes_eq {id a : Nat} (hid : id < 256) :
    ∃ a0 a1 a2 a3, headBytes id a = [UInt8.ofNat id, a0, a1, a2, a3] ∧ leBytes 4 a = [a0, a1, a2, a3] := by
  obtain ⟨a0, a1, a2, a3, h4⟩ := leBytes4 a
  exact ⟨a0, a1, a2, a3, by simp [headBytes, leBytes1, h4, Nat.mod_eq_of_lt hid], h4⟩

theorem unpack_IB (a b c d e : UInt8) :
    unpack [.I, .B] [a, b, c, d, e] = .ok [.int (leVal [a, b, c, d]), .int e.toNat] := by
  simp [unpack, Code.size, Code.takesVal, unpackOne, leVal, bind, Except.bind, pure, Except.pure]

/-- the port callback on a well-formed read reply `id addr32 status data` -/
theorem newPacketCb_readReply (s : St) {id a : Nat} (hid : id < 256) (ha : a < 2 ^ 32) (st : UInt8) (d : List UInt8) :
    newPacketCb Variant.fixed s specChanRead (headBytes id a ++ st :: d) = onReadReply s id a st.toNat d := by
  obtain ⟨a0, a1, a2, a3, hh, h4⟩ := headBytes_eq (a := a) hid
  have hv : leVal [a0, a1, a2, a3] = a := by rw [← h4]; exact leVal_leBytes4 ha
  rw [hh]
  simp only [newPacketCb, List.cons_append, List.nil_append]
  rw [if_neg (by rw [gen_chanWrite]; decide), if_pos gen_chanRead.symm]
  unfold handleChanRead
  have ht : List.take 5 [a0, a1, a2, a3, st] = [a0, a1, a2, a3, st] := rfl
  have : (a0 :: a1 :: a2 :: a3 :: st :: d).take 5 = [a0, a1, a2, a3, st] := by simp
  rw [this, fmt_readReply, unpack_IB]
  simp [hv, Nat.mod_eq_of_lt hid]

/-- the port callback on a write acknowledgement for a memory without queued writes does nothing -/
theorem onWriteReply_noop {s : St} (hs : s.Ok) {id : Nat} (h : (dget? s.writes id).getD [] = []) (addr status : Nat) :
    ∃ res, onWriteReply Variant.fixed s id addr status = ⟨s, [], res⟩ := by
  unfold onWriteReply
  simp only [Variant.fixed, Bool.not_true, Bool.false_and, Bool.false_eq_true, ↓reduceIte, hs.lock]
  split
  · exact ⟨_, rfl⟩
  · have : s.queue id = [] := h
    rw [this]; exact ⟨_, rfl⟩


/-! ### the steps that concern memory `id` itself -/

theorem stepSys_of {y : Sys} {a : Act} {ev : Ev} (hev : a.toEv y.net = some ev) {r : Step}
    (hr : step Variant.fixed y.host ev = r) :
    stepSys Variant.fixed y a =
      { host := r.st, dev := (feed y.dev y.faults (purge (a.netBefore y.net) r.outs) r.outs).1,
        net := (feed y.dev y.faults (purge (a.netBefore y.net) r.outs) r.outs).2.2,
        faults := (feed y.dev y.faults (purge (a.netBefore y.net) r.outs) r.outs).2.1,
        outs := y.outs ++ r.outs } := by
  unfold stepSys; rw [hev]; simp only [hr]

theorem purge_nil (net : List Packet) : purge net [] = net := by simp [purge]

/-- the call changed nothing and produced nothing (a refused read, an ignored or unparsable packet) -/
theorem RInv.step_quiet {id : Nat} {om : Option Image} {pre : List Act} {y : Sys} (h : RInv id om pre y)
    {a : Act} {ev : Ev} (hev : a.toEv y.net = some ev) {res : Res}
    (hr : step Variant.fixed y.host ev = ⟨y.host, [], res⟩) :
    RInv id om (pre ++ [a]) (stepSys Variant.fixed y a) := by
  have hm := h.mono a
  rw [stepSys_of hev hr]
  simp only [purge_nil, feed, List.append_nil]
  refine ⟨hm.host, hm.dev, hm.noWrites, ?_, hm.log, hm.sends⟩
  have := hm.pending
  dsimp only
  split at this
  · exact fun p hp => this p (netBefore_subset a _ p hp)
  · obtain ⟨len, h1, h2, h3⟩ := this
    exact ⟨len, h1, h2, fun p hp => h3 p (netBefore_subset a _ p hp)⟩

/-- the answer of the device to the chunk request of a recorded read is a good reply -/
theorem devRead_good {om : Option Image} {dev : Device} {id : Nat} (hdev : dev[id]? = om) (f : UInt8) (r : RReq) :
    ReplyGood om id r (specChanRead, headBytes id r.cur ++
      (if f ≠ 0 then [f] else (devRead dev id r.cur (rdLen r.left)).1 :: (devRead dev id r.cur (rdLen r.left)).2))
    ∨ r.cur ≥ 2 ^ 32 := by
  by_cases hc : r.cur < 2 ^ 32
  · left
    by_cases hf : f ≠ 0
    · exact ⟨r.cur, f, [], by simp [hf], hc, Or.inl hf⟩
    · simp only [hf, ↓reduceIte]
      refine ⟨r.cur, _, _, rfl, hc, ?_⟩
      cases om with
      | none => left; simp [devRead, hdev, statusNoEnt]
      | some m =>
        by_cases h1 : rdLen r.left > readLimit
        · left; simp [devRead, hdev, h1, statusTooBig]
        · by_cases h2 : r.cur + rdLen r.left > m.length
          · left; simp [devRead, hdev, h1, h2, statusNoEnt]
          · right; right
            refine ⟨rfl, m, rfl, ?_, by omega⟩
            simp [devRead, hdev, h1, h2]
  · right; omega

theorem feed_single (dev : Device) (faults : List UInt8) (net : List Packet) (c : Nat) (d : List UInt8) :
    feed dev faults net [.send c d] =
      ((devHandle dev (faults.headD 0) c d).1, faults.tail, net ++ (devHandle dev (faults.headD 0) c d).2) := rfl

/-- a read request on memory `id` -/
theorem RInv.step_read {id : Nat} (hid : id < 256) {om : Option Image} {pre : List Act} {y : Sys}
    (h : RInv id om pre y) {tag addr len : Nat} (hwf : (Ev.read tag id addr len).WF) :
    RInv id om (pre ++ [.read tag id addr len]) (stepSys Variant.fixed y (.read tag id addr len)) := by
  have hev : (Act.read tag id addr len).toEv y.net = some (.read tag id addr len) := rfl
  have hstep : step Variant.fixed y.host (.read tag id addr len) = memRead y.host tag id addr len := rfl
  rw [memRead_eq y.host hwf] at hstep
  split at hstep
  · exact h.step_quiet hev hstep
  · rename_i hno
    have hm := h.mono (.read tag id addr len)
    have hnone : dget? y.host.reads id = none := by
      rw [dhas_eq_isSome] at hno
      cases hg : dget? y.host.reads id <;> simp_all
    rw [stepSys_of hev hstep]
    have hnn : ∀ o ∈ [Out.send Gen.C06.chanRead (readReqBytes id addr (rdLen len))], o.isNote = false := by simp [Out.isNote]
    simp only [purge_of_no_notes _ hnn, feed_single, Act.netBefore]
    have hrn : rdLen len < 256 := by have := readLen_le len; have := gen_readMax_byte; omega
    rw [gen_chanRead, devHandle_readReq _ _ hid hwf.2.1 hrn]
    simp only
    have hok := memRead_effect h.host hwf (r := memRead y.host tag id addr len) rfl
    refine ⟨?_, h.dev, h.noWrites, ?_, ?_, ?_⟩
    · have := hok.1; rw [memRead_eq y.host hwf, if_neg hno] at this; exact this
    · simp only [dget?_dset_same]
      refine ⟨len, by simp [RReq.new], ⟨by simp [RReq.new], by simp [RReq.new], fun m _ => by simp [RReq.new, slice],
        0, by simp [RReq.new]⟩, ?_⟩
      intro p hp hrep
      rcases List.mem_append.1 hp with hp | hp
      · have := hm.pending
        rw [hnone] at this
        exact absurd hrep (this p hp)
      · simp only [List.mem_singleton] at hp
        subst hp
        rcases devRead_good h.dev (y.faults.headD 0) (RReq.new tag id addr len) with hg | hg
        · exact hg
        · exact absurd hwf.2.1 (by simp only [RReq.new] at hg; omega)
    · intro t a d ho
      rcases List.mem_append.1 ho with ho | ho
      · exact hm.log t a d ho
      · simp at ho
    · intro bytes ho hh
      rw [← gen_chanRead] at ho
      rcases List.mem_append.1 ho with ho | ho
      · exact hm.sends bytes ho hh
      · simp only [List.mem_singleton, Out.send.injEq, true_and] at ho
        subst ho
        exact ⟨tag, addr, len, by simp, 0, by simp, by simp⟩

theorem rdLen_pos_of_gt {left n : Nat} (h : left > n) (hn : n = rdLen left) : 0 < n := by
  have := gen_readMax_pos
  subst hn
  unfold rdLen at *
  split at h
  · split <;> omega
  · omega

theorem finishes_readFail (t id a : Nat) (d : List UInt8) (p : Packet) :
    (Out.readFail t id a d).finishes p = true ↔ IsReadReplyFor id p := by
  simp [Out.finishes, IsReadReplyFor]
theorem finishes_readOk (t id a : Nat) (d : List UInt8) (p : Packet) :
    (Out.readOk t id a d).finishes p = true ↔ IsReadReplyFor id p := by
  simp [Out.finishes, IsReadReplyFor]

/-- delivery of a reply in flight that answers a chunk request of the read recorded for memory `id` -/
theorem RInv.step_reply {id : Nat} (hid : id < 256) {om : Option Image} {pre : List Act} {y : Sys}
    (h : RInv id om pre y) {i : Nat} {keep : Bool} {p : Packet} (hp : y.net[i]? = some p)
    (hrep : IsReadReplyFor id p) :
    RInv id om (pre ++ [.deliver i keep]) (stepSys Variant.fixed y (.deliver i keep)) := by
  have hm := h.mono (.deliver i keep)
  have hev : (Act.deliver i keep).toEv y.net = some (.pkt p.1 p.2) := by simp [Act.toEv, hp]
  have hpm : p ∈ y.net := List.mem_of_getElem? hp
  have hpend := hm.pending
  cases hget : dget? y.host.reads id with
  | none => rw [hget] at hpend; exact absurd hrep (hpend p hpm)
  | some r =>
    rw [hget] at hpend
    obtain ⟨len, hact, ⟨hlen, hcur, hdata, j, hj⟩, hgood⟩ := hpend
    obtain ⟨a, st, d, hp2, ha, hcase⟩ := hgood p hpm hrep
    have hok := h.host.reads id r hget
    have hstep : step Variant.fixed y.host (.pkt p.1 p.2) = onReadReply y.host id a st.toNat d := by
      simp only [step]; rw [hrep.1, hp2]; exact newPacketCb_readReply _ hid ha st d
    rw [onReadReply_eq hget hok] at hstep
    have hsub : ∀ q ∈ (Act.deliver i keep).netBefore y.net, q ∈ y.net := netBefore_subset _ _
    by_cases hst : st.toNat = 0
    · have hst0 : st = 0 := by
        apply UInt8.toNat_inj.1; simpa using hst
      rw [if_pos hst] at hstep
      have hcase' : a < r.cur ∨ (a = r.cur ∧ ∃ m, om = some m ∧ d = slice m r.cur (rdLen r.left) ∧
          r.cur + rdLen r.left ≤ m.length) := by
        rcases hcase with h1 | h1 | h1
        · exact absurd hst0 h1
        · exact Or.inl h1
        · exact Or.inr h1
      rcases hcase' with hlt | ⟨rfl, m, hom, hd, hin⟩
      · -- an answer to an earlier chunk: ignored
        rw [if_pos (by omega)] at hstep
        rw [stepSys_of hev hstep]
        simp only [purge_nil, feed, List.append_nil]
        refine ⟨St.ok_setRead h.host hok, hm.dev, hm.noWrites, ?_, hm.log, hm.sends⟩
        dsimp only
        rw [dget?_dset_same]
        exact ⟨len, hact, ⟨hlen, hcur, hdata, j, hj⟩, fun q hq hr => hgood q (hsub q hq) hr⟩
      · rw [if_neg (by simp)] at hstep
        have hdl : d.length = rdLen r.left := by rw [hd]; exact slice_length hin
        by_cases hmore : r.left > d.length
        · -- more chunks: the next request goes out, its answer goes in flight
          rw [if_pos hmore] at hstep
          rw [stepSys_of hev hstep]
          have hnn : ∀ o ∈ [Out.send Gen.C06.chanRead (readReqBytes id (r.cur + d.length) (rdLen (r.left - d.length)))],
              o.isNote = false := by simp [Out.isNote]
          have hplus := RReq.plus_ok hok hmore
          have hrn : rdLen (r.left - d.length) < 256 := by
            have := readLen_le (r.left - d.length); have := gen_readMax_byte; omega
          simp only [purge_of_no_notes _ hnn, feed_single]
          rw [gen_chanRead, devHandle_readReq _ _ hid (by simpa [RReq.plus] using hplus.2.2.1) hrn]
          simp only
          have hnpos : 0 < d.length := rdLen_pos_of_gt hmore hdl
          have hdmax : d.length = Gen.C06.readMax := by
            rw [hdl] at hmore ⊢
            unfold rdLen at *
            split at hmore
            · rw [if_pos (by assumption)]
            · omega
          refine ⟨St.ok_setRead h.host hplus, hm.dev, hm.noWrites, ?_, ?_, ?_⟩
          · dsimp only
            rw [dget?_dset_same]
            refine ⟨len, by simpa [RReq.plus] using hact, ⟨?_, ?_, ?_, j + 1, ?_⟩, ?_⟩
            · simp only [RReq.plus, List.length_append]; omega
            · simp only [RReq.plus, List.length_append]; omega
            · intro m' hm'
              have : m' = m := by rw [hom] at hm'; exact (Option.some.inj hm').symm
              subst this
              simp only [RReq.plus, List.length_append]
              rw [← slice_append]
              have e2 : d = slice m' (r.addr + r.data.length) d.length := by rw [← hcur, hdl]; exact hd
              exact append_congr (hdata m' hom) e2
            · simp only [RReq.plus, List.length_append, hj, hdmax]; rw [Nat.add_mul]; simp
            · intro q hq hr
              rcases List.mem_append.1 hq with hq | hq
              · obtain ⟨a', st', d', h1, h2, h3⟩ := hgood q (hsub q hq) hr
                refine ⟨a', st', d', h1, h2, ?_⟩
                rcases h3 with h3 | h3 | h3
                · exact Or.inl h3
                · right; left; simp only [RReq.plus]; omega
                · right; left; simp only [RReq.plus]; omega
              · simp only [List.mem_singleton] at hq
                subst hq
                rcases devRead_good h.dev (y.faults.headD 0) (r.plus d) with hg | hg
                · simpa [RReq.plus] using hg
                · exact absurd hplus.2.2.1 (by omega)
          · intro t a' d' ho
            rcases List.mem_append.1 ho with ho | ho
            · exact hm.log t a' d' ho
            · simp at ho
          · intro bytes ho hh
            rw [← gen_chanRead] at ho
            rcases List.mem_append.1 ho with ho | ho
            · exact hm.sends bytes ho hh
            · simp only [List.mem_singleton, Out.send.injEq, true_and] at ho
              subst ho
              refine ⟨r.tag, r.addr, len, hact, j + 1, ?_, ?_⟩
              · rw [Nat.add_mul]; omega
              · have e1 : r.cur + d.length = r.addr + (j + 1) * Gen.C06.readMax := by rw [Nat.add_mul]; omega
                have e2 : r.left - d.length = len - (j + 1) * Gen.C06.readMax := by rw [Nat.add_mul]; omega
                rw [e1, e2]
        · -- last chunk: the read completes
          rw [if_neg hmore] at hstep
          rw [stepSys_of hev hstep]
          have hns : ∀ o ∈ [Out.readOk r.tag id r.addr (r.data ++ d)], ∀ c d', o ≠ Out.send c d' := by simp
          rw [feed_no_sends _ _ _ hns]
          have hsends : ∀ bytes, Out.send Gen.C06.chanRead bytes ∈ y.outs ++ [Out.readOk r.tag id r.addr (r.data ++ d)] →
              bytes.head? = some (UInt8.ofNat id) →
              ∃ tag addr len, Act.read tag id addr len ∈ pre ++ [Act.deliver i keep] ∧ IsReadChunk id addr len bytes := by
            intro bytes ho hh
            rcases List.mem_append.1 ho with ho | ho
            · exact hm.sends bytes ho hh
            · simp at ho
          refine ⟨St.ok_eraseRead h.host id, hm.dev, hm.noWrites, ?_, ?_, hsends⟩
          · dsimp only
            rw [dget?_derase_same]
            intro q hq hr
            have := (mem_purge.1 hq).2 _ (List.mem_singleton.2 rfl)
            rw [(finishes_readOk _ _ _ _ q).2 hr] at this
            cases this
          · intro t a' d' ho
            rcases List.mem_append.1 ho with ho | ho
            · exact hm.log t a' d' ho
            · simp only [List.mem_singleton, Out.readOk.injEq] at ho
              obtain ⟨rfl, _, rfl, rfl⟩ := ho
              have hle := readLen_le' r.left
              have hn : d.length = r.left := by omega
              refine ⟨len, m, hact, hom, ?_, by omega⟩
              have e2 : d = slice m (r.addr + r.data.length) d.length := by rw [← hcur, hdl]; exact hd
              have : len = r.data.length + d.length := by omega
              rw [this, ← slice_append]
              exact append_congr (hdata m hom) e2
    · -- error status: the read fails
      rw [if_neg hst] at hstep
      rw [stepSys_of hev hstep]
      have hns : ∀ o ∈ [Out.readFail r.tag id r.addr r.data], ∀ c d', o ≠ Out.send c d' := by simp
      rw [feed_no_sends _ _ _ hns]
      have hsends : ∀ bytes, Out.send Gen.C06.chanRead bytes ∈ y.outs ++ [Out.readFail r.tag id r.addr r.data] →
          bytes.head? = some (UInt8.ofNat id) →
          ∃ tag addr len, Act.read tag id addr len ∈ pre ++ [Act.deliver i keep] ∧ IsReadChunk id addr len bytes := by
        intro bytes ho hh
        rcases List.mem_append.1 ho with ho | ho
        · exact hm.sends bytes ho hh
        · simp at ho
      refine ⟨St.ok_eraseRead h.host id, hm.dev, hm.noWrites, ?_, ?_, hsends⟩
      · dsimp only
        rw [dget?_derase_same]
        intro q hq hr
        have := (mem_purge.1 hq).2 _ (List.mem_singleton.2 rfl)
        rw [(finishes_readFail _ _ _ _ q).2 hr] at this
        cases this
      · intro t a' d' ho
        rcases List.mem_append.1 ho with ho | ho
        · exact hm.log t a' d' ho
        · simp at ho


/-- the link drops -/
theorem RInv.step_drop {id : Nat} {om : Option Image} {pre : List Act} {y : Sys} (h : RInv id om pre y) :
    RInv id om (pre ++ [.drop]) (stepSys Variant.fixed y .drop) := by
  have hm := h.mono .drop
  have hev : Act.drop.toEv y.net = some .disconnect := rfl
  have hstep : step Variant.fixed y.host .disconnect = disconnected y.host := rfl
  have hd : disconnected y.host = ⟨St.init, (y.host.reads.map fun e => Out.readFail e.2.tag e.2.id e.2.addr e.2.data) ++
      (((y.host.writes.map (·.2)).flatten).map fun w => Out.writeFail w.tag w.id w.addr), .ret none⟩ := by
    simp [disconnected, h.host.lock]
  rw [hd] at hstep
  rw [stepSys_of hev hstep]
  have hns : ∀ o ∈ (y.host.reads.map fun e => Out.readFail e.2.tag e.2.id e.2.addr e.2.data) ++
      (((y.host.writes.map (·.2)).flatten).map fun w => Out.writeFail w.tag w.id w.addr), ∀ c d, o ≠ Out.send c d := by
    intro o ho c d
    rcases List.mem_append.1 ho with ho | ho
    · obtain ⟨e, _, rfl⟩ := List.mem_map.1 ho; simp
    · obtain ⟨e, _, rfl⟩ := List.mem_map.1 ho; simp
  rw [feed_no_sends _ _ _ hns]
  refine ⟨St.init_ok, hm.dev, by simp [St.init, dget?], ?_, ?_, ?_⟩
  rotate_left 2
  · intro bytes ho hh
    rcases List.mem_append.1 ho with ho | ho
    · exact hm.sends bytes ho hh
    · exact absurd rfl (hns _ ho _ _)
  · simp [St.init, dget?, Act.netBefore, purge]
  · intro t a d ho
    rcases List.mem_append.1 ho with ho | ho
    · exact hm.log t a d ho
    · rcases List.mem_append.1 ho with ho | ho
      · obtain ⟨e, _, he⟩ := List.mem_map.1 ho; cases he
      · obtain ⟨e, _, he⟩ := List.mem_map.1 ho; cases he

/-- a packet that starts with byte `id` but is no read reply for `id`: nothing happens (memory `id` has no queued
write, and other channels are ignored) -/
theorem newPacketCb_quiet_of_not_read {s : St} (hs : s.Ok) {id : Nat} (hq : (dget? s.writes id).getD [] = [])
    {chan : Nat} {cmd : UInt8} (hcmd : cmd.toNat = id) (payload : List UInt8) (hnr : chan ≠ specChanRead) :
    ∃ res, newPacketCb Variant.fixed s chan (cmd :: payload) = ⟨s, [], res⟩ := by
  simp only [newPacketCb]
  split
  · unfold handleChanWrite
    split
    · exact ⟨_, rfl⟩
    · rw [hcmd]; exact onWriteReply_noop hs hq _ _
    · exact ⟨_, rfl⟩
  · rw [if_neg (by rw [gen_chanRead]; exact hnr)]
    exact ⟨_, rfl⟩

/-- one action of the environment / the application preserves the invariant -/
theorem RInv.step {id : Nat} (hid : id < 256) {om : Option Image} {pre : List Act} {y : Sys}
    (h : RInv id om pre y) {a : Act} (ha : a.OkForRead id) :
    RInv id om (pre ++ [a]) (stepSys Variant.fixed y a) := by
  cases a with
  | read t i ad l =>
    by_cases hi : i = id
    · subst hi; exact h.step_read hid ha
    · exact h.step_other hid (ev := .read t i ad l) rfl ha rfl ha.1 hi
  | write t i ad d f p =>
    exact h.step_other hid (ev := .write t i ad d f p) rfl ha.1 rfl ha.1.1 ha.2
  | deliver i keep =>
    cases hp : y.net[i]? with
    | none =>
      have : stepSys Variant.fixed y (.deliver i keep) = y := by simp [stepSys, Act.toEv, hp]
      rw [this]; exact h.mono _
    | some p =>
      have hev : (Act.deliver i keep).toEv y.net = some (.pkt p.1 p.2) := by simp [Act.toEv, hp]
      cases hp2 : p.2 with
      | nil =>
        rw [hp2] at hev
        exact h.step_quiet hev (res := .raised .indexError) rfl
      | cons cmd payload =>
        by_cases hk : cmd.toNat = id
        · by_cases hc : p.1 = specChanRead
          · refine h.step_reply hid hp ⟨hc, ?_⟩
            rw [hp2, ← hk]; simp
          · rw [hp2] at hev
            obtain ⟨res, hres⟩ := newPacketCb_quiet_of_not_read h.host h.noWrites hk payload hc
            exact h.step_quiet hev hres
        · rw [hp2] at hev
          exact h.step_other hid hev trivial (k := cmd.toNat) rfl cmd.toNat_lt hk
  | inject c d => exact absurd ha (by simp [Act.OkForRead])
  | drop => exact h.step_drop

theorem RInv.init (id : Nat) (d : Device) (faults : List UInt8) : RInv id d[id]? [] (Sys.init d faults) :=
  ⟨St.init_ok, rfl, by simp [Sys.init, St.init, dget?], by simp [Sys.init, St.init, dget?], by simp [Sys.init],
    by simp [Sys.init]⟩

theorem RInv.run {id : Nat} (hid : id < 256) {om : Option Image} (acts : List Act) (hacts : ∀ a ∈ acts, a.OkForRead id)
    {pre : List Act} {y : Sys} (h : RInv id om pre y) : RInv id om (pre ++ acts) (runSys Variant.fixed y acts) := by
  induction acts generalizing pre y with
  | nil => simpa [runSys] using h
  | cons a as ih =>
    have := ih (fun x hx => hacts x (List.mem_cons_of_mem _ hx)) (h.step hid (hacts a (by simp)))
    simpa [runSys, List.append_assoc] using this

end CfVerif.C06

/- Proofs/C06Retry — the retransmission layer: at any time the only retransmissions that can still happen for a
memory are those of the chunk that is outstanding right now; once a request is over, nothing is pending for it. -/
import CfVerif.Proofs.C06Deck
namespace CfVerif.C06
open CfVerif

/-- entry `e` waits for the answer to the chunk that is outstanding for memory `id` -/
def EntryFor (s : St) (id : Nat) (e : Nat × List UInt8) : Prop :=
  (e.1 = Gen.C06.chanRead ∧ ∃ r, dget? s.reads id = some r ∧ e.2.take 5 = headBytes id r.cur) ∨
  (e.1 = Gen.C06.chanWrite ∧ ∃ w rest, s.queue id = w :: rest ∧ e.2.take 5 = headBytes id w.cur)

structure RetryInv (x : RSt) : Prop where
  ok : x.s.Ok
  entries : ∀ e ∈ x.retry, ∃ id, EntryFor x.s id e

/-- an error-status reply names the chunk that is outstanding (the device answers the retransmission of a packet like
the packet itself, and A1: no reply of a finished request) -/
def Ev.ErrAtCur (s : St) : Ev → Prop
  | .pkt c (cmd :: payload) => ∀ a0 a1 a2 a3 st rest, payload = a0 :: a1 :: a2 :: a3 :: st :: rest → st ≠ 0 →
      (c = Gen.C06.chanRead → ∀ r, dget? s.reads cmd.toNat = some r → leVal [a0, a1, a2, a3] = r.cur) ∧
      (c = Gen.C06.chanWrite → ∀ w q, s.queue cmd.toNat = w :: q → leVal [a0, a1, a2, a3] = w.cur)
  | _ => True

theorem mem_retryCancel {rs : Retry} {c : Nat} {d : List UInt8} {e : Nat × List UInt8} (h : e ∈ retryCancel rs c d) :
    e ∈ rs ∧ (5 ≤ d.length → retryPattern e ≠ (c, d.take 5)) := by
  unfold retryCancel at h
  split at h
  · exact ⟨h, fun h5 => by omega⟩
  · simp only [List.mem_filter, bne_iff_ne] at h; exact ⟨h.1, fun _ => h.2⟩

theorem mem_retryRegister {outs : List Out} {rs : Retry} {e : Nat × List UInt8} (h : e ∈ retryRegister rs outs) :
    e ∈ rs ∨ Out.send e.1 e.2 ∈ outs := by
  induction outs generalizing rs with
  | nil => exact Or.inl h
  | cons o os ih =>
    cases o with
    | send c d =>
      simp only [retryRegister] at h
      rcases ih h with h' | h'
      · rcases List.mem_append.1 h' with h'' | h''
        · exact Or.inl (List.mem_filter.1 h'').1
        · simp only [List.mem_singleton] at h''; subst h''; exact Or.inr (by simp)
      · exact Or.inr (List.mem_cons_of_mem _ h')
    | _ =>
      simp only [retryRegister] at h
      rcases ih h with h' | h'
      · exact Or.inl h'
      · exact Or.inr (List.mem_cons_of_mem _ h')

theorem headBytes_take5 (id a : Nat) (rest : List UInt8) : (headBytes id a ++ rest).take 5 = headBytes id a := by
  have : (headBytes id a).length = 5 := by simp [headBytes]
  rw [List.take_append_of_le_length (by omega), List.take_of_length_le (by omega)]

theorem readReqBytes_take5 (id a n : Nat) : (readReqBytes id a n).take 5 = headBytes id a := by
  have : readReqBytes id a n = headBytes id a ++ leBytes 1 n := by simp [readReqBytes, headBytes]
  rw [this, headBytes_take5]

/-- the five bytes `cmd, a0..a3` of a received packet are the head `id, addr32` they decode to -/
theorem headBytes_of_bytes (cmd a0 a1 a2 a3 : UInt8) :
    headBytes cmd.toNat (leVal [a0, a1, a2, a3]) = [cmd, a0, a1, a2, a3] := by
  have h := leBytes_leVal [a0, a1, a2, a3]
  simp only [List.length_cons, List.length_nil] at h
  simp [headBytes, leBytes1, h, Nat.mod_eq_of_lt cmd.toNat_lt]

theorem headBytes_inj_id {i j a b : Nat} (hi : i < 256) (hj : j < 256) (h : headBytes i a = headBytes j b) : i = j := by
  have := congrArg List.head? h
  simp only [headBytes, leBytes1, List.cons_append, List.nil_append, List.head?_cons, Option.some.injEq] at this
  have := congrArg UInt8.toNat this
  simpa [Nat.mod_eq_of_lt hi, Nat.mod_eq_of_lt hj] using this

/-- entries about other memories survive an event about memory `k` -/
theorem EntryFor.frame {s s' : St} {id k : Nat} {e : Nat × List UInt8} (h : EntryFor s id e) (hne : id ≠ k)
    (hfr : ∀ j, j ≠ k → dget? s'.reads j = dget? s.reads j ∧ dget? s'.writes j = dget? s.writes j) : EntryFor s' id e := by
  obtain ⟨h1, h2⟩ := hfr id hne
  rcases h with ⟨hc, r, hr, hp⟩ | ⟨hc, w, rest, hq, hp⟩
  · exact Or.inl ⟨hc, r, by rw [h1]; exact hr, hp⟩
  · exact Or.inr ⟨hc, w, rest, by rw [queue_congr h2]; exact hq, hp⟩


/-- what an event about memory `k` must guarantee for the retransmission entries of `k`: every packet it sends is
the chunk outstanding afterwards, and every entry of `k` that survived the cancellation still names the outstanding
chunk -/
def KeepsEntries (k : Nat) (s : St) (r : Step) (retry1 : Retry) : Prop :=
  (∀ c d, Out.send c d ∈ r.outs → EntryFor r.st k (c, d)) ∧
  (∀ e ∈ retry1, EntryFor s k e → EntryFor r.st k e)

theorem keeps_quiet (k : Nat) (s : St) (res : Res) (retry1 : Retry) : KeepsEntries k s ⟨s, [], res⟩ retry1 :=
  ⟨by simp, fun _ _ h => h⟩

theorem keeps_memRead {s : St} (hs : s.Ok) {tag k addr len : Nat} (he : (Ev.read tag k addr len).WF) (retry1 : Retry) :
    KeepsEntries k s (memRead s tag k addr len) retry1 := by
  rcases memRead_cases s he with ⟨r, hget, hm⟩ | ⟨hget, hm⟩
  · rw [hm]; exact keeps_quiet k s _ _
  · rw [hm]
    refine ⟨?_, ?_⟩
    · intro c d hmem
      simp only [List.mem_singleton, Out.send.injEq] at hmem
      obtain ⟨rfl, rfl⟩ := hmem
      exact Or.inl ⟨rfl, RReq.new tag k addr len, by simp [dget?_dset_same], by simp [readReqBytes_take5, RReq.new]⟩
    · intro e _ h
      rcases h with ⟨_, r, hr, _⟩ | ⟨hc, w, rest, hq, hp⟩
      · rw [hget] at hr; cases hr
      · exact Or.inr ⟨hc, w, rest, hq, hp⟩

theorem keeps_memWrite {s : St} (hs : s.Ok) {tag k addr : Nat} {data : List UInt8} {flush p : Bool}
    (he : (Ev.write tag k addr data flush p).WF) (retry1 : Retry) :
    KeepsEntries k s (memWrite Variant.fixed s tag k addr data flush p) retry1 := by
  rw [memWrite_eq hs he]
  have hqset : ∀ (q : List WReq), ({ reads := s.reads, writes := dset (ensureQueue s.writes k) k q, lock := false } : St).queue k = q := by
    intro q; simp [St.queue_def, dget?_dset_same]
  cases hq : s.queue k with
  | nil =>
    have : (if flush = true then List.take 1 ([] : List WReq) else []) = [] := by split <;> rfl
    rw [this]
    refine ⟨?_, ?_⟩
    · intro c d hmem
      simp only [List.mem_singleton, Out.send.injEq] at hmem
      obtain ⟨rfl, rfl⟩ := hmem
      exact Or.inr ⟨rfl, (WReq.new tag k addr data p).afterChunk, [], hqset _, by simp [headBytes_take5, WReq.afterChunk, WReq.new]⟩
    · intro e _ h
      rcases h with ⟨hc, r, hr, hp⟩ | ⟨_, w, rest, hq', _⟩
      · exact Or.inl ⟨hc, r, hr, hp⟩
      · rw [hq] at hq'; cases hq'
  | cons w rest =>
    have : ∃ t, (if flush = true then List.take 1 (w :: rest) else w :: rest) = w :: t := by
      split
      · exact ⟨[], by simp⟩
      · exact ⟨rest, rfl⟩
    obtain ⟨t, ht⟩ := this
    rw [ht]
    refine ⟨by simp, ?_⟩
    intro e _ h
    rcases h with ⟨hc, r, hr, hp⟩ | ⟨hc, w', rest', hq', hp⟩
    · exact Or.inl ⟨hc, r, hr, hp⟩
    · rw [hq] at hq'; cases hq'
      exact Or.inr ⟨hc, w, t ++ [WReq.new tag k addr data p], by rw [hqset]; rfl, hp⟩


/-- the received packet itself cancels the entry of the chunk it answers -/
theorem cancelled_of_same_head {rs : Retry} {c : Nat} {cmd a0 a1 a2 a3 : UInt8} {tl : List UInt8} {e : Nat × List UInt8}
    (he : e ∈ retryCancel rs c (cmd :: a0 :: a1 :: a2 :: a3 :: tl)) (hc : e.1 = c)
    (hp : e.2.take 5 = headBytes cmd.toNat (leVal [a0, a1, a2, a3])) : False := by
  have := (mem_retryCancel he).2 (by simp)
  apply this
  simp only [retryPattern, hc, hp, headBytes_of_bytes]
  simp

theorem keeps_onWriteReply {s : St} (hs : s.Ok) (rs : Retry) (cmd a0 a1 a2 a3 st : UInt8) (tl : List UInt8)
    (herr : st ≠ 0 → ∀ w q, s.queue cmd.toNat = w :: q → leVal [a0, a1, a2, a3] = w.cur) :
    KeepsEntries cmd.toNat s (onWriteReply Variant.fixed s cmd.toNat (leVal [a0, a1, a2, a3]) st.toNat)
      (retryCancel rs Gen.C06.chanWrite (cmd :: a0 :: a1 :: a2 :: a3 :: st :: tl)) := by
  have hqset : ∀ (q : List WReq), ({ reads := s.reads, writes := dset s.writes cmd.toNat q, lock := false } : St).queue cmd.toNat = q := by
    intro q; simp [St.queue_def, dget?_dset_same]
  cases hq : s.queue cmd.toNat with
  | nil =>
    obtain ⟨res, hres⟩ := onWriteReply_noop hs (by simpa [St.queue_def] using hq) (leVal [a0, a1, a2, a3]) st.toNat
    rw [hres]; exact keeps_quiet _ s _ _
  | cons w rest =>
    have hrestok := (St.queue_ok hs cmd.toNat).1
    rw [hq] at hrestok
    -- a surviving write entry of this memory cannot name the chunk this very packet answers
    have hsurv : ∀ (s' : St), s'.reads = s.reads → leVal [a0, a1, a2, a3] = w.cur →
        ∀ e ∈ retryCancel rs Gen.C06.chanWrite (cmd :: a0 :: a1 :: a2 :: a3 :: st :: tl),
          EntryFor s cmd.toNat e → EntryFor s' cmd.toNat e := by
      intro s' hreads hcur e he h
      rcases h with ⟨hc, r, hr, hp⟩ | ⟨hc, w', rest', hq', hp⟩
      · exact Or.inl ⟨hc, r, by rw [hreads]; exact hr, hp⟩
      · rw [hq] at hq'; cases hq'
        exact absurd (cancelled_of_same_head he hc (by rw [hp, hcur])) id
    have hnext : ∀ (s' : St), s'.queue cmd.toNat = (nextStarted cmd.toNat rest).1 →
        ∀ c d, Out.send c d ∈ (nextStarted cmd.toNat rest).2 → EntryFor s' cmd.toNat (c, d) := by
      intro s' hq' c d hmem
      cases rest with
      | nil => simp [nextStarted] at hmem
      | cons n t =>
        simp only [nextStarted, List.mem_singleton, Out.send.injEq] at hmem hq'
        obtain ⟨rfl, rfl⟩ := hmem
        exact Or.inr ⟨rfl, n.afterChunk, t, hq', by simp [headBytes_take5, WReq.afterChunk]⟩
    by_cases hst : st.toNat = 0
    · rw [hst]
      by_cases ha : leVal [a0, a1, a2, a3] = w.cur
      · rw [ha]
        obtain ⟨w1, po, hsame, hpo, hres⟩ := onWriteReply_ack hs hq
        rw [hres]
        split
        · refine ⟨?_, hsurv _ rfl ha⟩
          intro c d hmem
          rcases List.mem_append.1 hmem with hmem | hmem
          · exact absurd rfl (progress_no_send hpo _ hmem c d)
          · simp only [List.mem_singleton, Out.send.injEq] at hmem
            obtain ⟨rfl, rfl⟩ := hmem
            refine Or.inr ⟨rfl, _, rest, hqset _, ?_⟩
            simp [headBytes_take5, WReq.afterChunk, hsame.2.2.2.1, hsame.2.2.2.2.1]
        · refine ⟨?_, hsurv _ rfl ha⟩
          intro c d hmem
          rcases List.mem_append.1 hmem with hmem | hmem
          · rcases List.mem_append.1 hmem with hmem | hmem
            · exact absurd rfl (progress_no_send hpo _ hmem c d)
            · exact hnext _ (hqset _) c d hmem
          · simp at hmem
      · rw [onWriteReply_ignored hs hq ha]
        refine ⟨by simp, ?_⟩
        intro e _ h
        rcases h with ⟨hc, r, hr, hp⟩ | ⟨hc, w', rest', hq', hp⟩
        · exact Or.inl ⟨hc, r, hr, hp⟩
        · rw [hq] at hq'; cases hq'
          exact Or.inr ⟨hc, w, rest, hqset _, hp⟩
    · have hst' : st ≠ 0 := by intro h; apply hst; rw [h]; rfl
      have ha := herr hst' w rest hq
      rw [onWriteReply_err hs hq _ hst]
      refine ⟨?_, hsurv _ rfl ha⟩
      intro c d hmem
      rcases List.mem_append.1 hmem with hmem | hmem
      · exact hnext _ (hqset _) c d hmem
      · simp at hmem

theorem keeps_onReadReply {s : St} (hs : s.Ok) (rs : Retry) (cmd a0 a1 a2 a3 st : UInt8) (tl : List UInt8)
    (herr : st ≠ 0 → ∀ r, dget? s.reads cmd.toNat = some r → leVal [a0, a1, a2, a3] = r.cur) :
    KeepsEntries cmd.toNat s (onReadReply s cmd.toNat (leVal [a0, a1, a2, a3]) st.toNat tl)
      (retryCancel rs Gen.C06.chanRead (cmd :: a0 :: a1 :: a2 :: a3 :: st :: tl)) := by
  cases hget : dget? s.reads cmd.toNat with
  | none => unfold onReadReply; rw [hget]; exact keeps_quiet _ s _ _
  | some rq =>
    have hok := hs.reads _ rq hget
    rw [onReadReply_eq hget hok]
    have hsurv : ∀ (s' : St), s'.queue cmd.toNat = s.queue cmd.toNat → leVal [a0, a1, a2, a3] = rq.cur →
        ∀ e ∈ retryCancel rs Gen.C06.chanRead (cmd :: a0 :: a1 :: a2 :: a3 :: st :: tl),
          EntryFor s cmd.toNat e → EntryFor s' cmd.toNat e := by
      intro s' hqueue hcur e he h
      rcases h with ⟨hc, r, hr, hp⟩ | ⟨hc, w', rest', hq', hp⟩
      · rw [hget] at hr; cases hr
        exact absurd (cancelled_of_same_head he hc (by rw [hp, hcur])) id
      · exact Or.inr ⟨hc, w', rest', by rw [hqueue]; exact hq', hp⟩
    by_cases hst : st.toNat = 0
    · rw [if_pos hst]
      by_cases ha : leVal [a0, a1, a2, a3] ≠ rq.cur
      · rw [if_pos ha]
        refine ⟨by simp, ?_⟩
        intro e _ h
        rcases h with ⟨hc, r, hr, hp⟩ | ⟨hc, w', rest', hq', hp⟩
        · rw [hget] at hr; cases hr
          exact Or.inl ⟨hc, rq, by simp [dget?_dset_same], hp⟩
        · exact Or.inr ⟨hc, w', rest', hq', hp⟩
      · rw [if_neg ha]
        have ha' : leVal [a0, a1, a2, a3] = rq.cur := by simpa using ha
        split
        · refine ⟨?_, hsurv _ rfl ha'⟩
          intro c d hmem
          simp only [List.mem_singleton, Out.send.injEq] at hmem
          obtain ⟨rfl, rfl⟩ := hmem
          exact Or.inl ⟨rfl, rq.plus tl, by simp [dget?_dset_same], by simp [readReqBytes_take5, RReq.plus]⟩
        · exact ⟨by simp, hsurv _ rfl ha'⟩
    · rw [if_neg hst]
      have hst' : st ≠ 0 := by intro h; apply hst; rw [h]; rfl
      exact ⟨by simp, hsurv _ rfl (herr hst' rq hget)⟩


theorem retryCancel_short (rs : Retry) (c : Nat) {d : List UInt8} (h : d.length < 5) : retryCancel rs c d = rs := by
  simp [retryCancel, h]

/-- one event keeps the invariant: every retransmission entry names the chunk outstanding for some memory -/
theorem rstep_inv (resend : Bool) {x : RSt} (h : RetryInv x) {e : Ev} (he : e.WF) (hc : e.ErrAtCur x.s) :
    RetryInv (rstep resend x e).1 := by
  obtain ⟨hok, hent⟩ := h
  have hok' := (step_effect hok he).1
  refine ⟨hok', ?_⟩
  -- it suffices: (A) what survived the cancellation is fine in the new state, (B) what was sent is fine
  have reduce : ∀ (retry1 : Retry), (∀ e' ∈ retry1, ∃ id, EntryFor (step Variant.fixed x.s e).st id e') →
      (∀ c d, Out.send c d ∈ (step Variant.fixed x.s e).outs → ∃ id, EntryFor (step Variant.fixed x.s e).st id (c, d)) →
      ∀ e' ∈ (if resend then retryRegister retry1 (step Variant.fixed x.s e).outs else retry1),
        ∃ id, EntryFor (step Variant.fixed x.s e).st id e' := by
    intro retry1 hA hB e' he'
    cases resend with
    | false => exact hA e' he'
    | true =>
      rcases mem_retryRegister he' with h1 | h1
      · exact hA e' h1
      · exact hB e'.1 e'.2 h1
  -- an event about memory k with the KeepsEntries property
  have viaKeeps : ∀ (k : Nat) (retry1 : Retry), (∀ e' ∈ retry1, e' ∈ x.retry) → e.about? = some k →
      KeepsEntries k x.s (step Variant.fixed x.s e) retry1 →
      ∀ e' ∈ (if resend then retryRegister retry1 (step Variant.fixed x.s e).outs else retry1),
        ∃ id, EntryFor (step Variant.fixed x.s e).st id e' := by
    intro k retry1 hsub hk hkeep
    obtain ⟨hfr, _⟩ := step_frame hok he hk
    refine reduce retry1 ?_ (fun c d hmem => ⟨k, hkeep.1 c d hmem⟩)
    intro e' he'
    obtain ⟨id, hid⟩ := hent e' (hsub e' he')
    by_cases hik : id = k
    · subst hik; exact ⟨id, hkeep.2 e' he' hid⟩
    · exact ⟨id, hid.frame hik hfr⟩
  cases e with
  | read tag i addr len =>
    exact viaKeeps i x.retry (fun _ h => h) rfl (keeps_memRead hok he _)
  | write tag i addr data flush p =>
    exact viaKeeps i x.retry (fun _ h => h) rfl (keeps_memWrite hok he _)
  | disconnect =>
    simp only [rstep]
    have hns : ∀ c d, Out.send c d ∉ (step Variant.fixed x.s .disconnect).outs := by
      intro c d hmem
      simp only [step, disconnected, hok.lock, Bool.false_eq_true, ↓reduceIte] at hmem
      rcases List.mem_append.1 hmem with hmem | hmem
      · obtain ⟨y, _, hy⟩ := List.mem_map.1 hmem; cases hy
      · obtain ⟨y, _, hy⟩ := List.mem_map.1 hmem; cases hy
    exact reduce [] (by simp) (fun c d hmem => absurd hmem (hns c d))
  | pkt chan data =>
    simp only [rstep]
    have hsub : ∀ e' ∈ retryCancel x.retry chan data, e' ∈ x.retry := fun e' h' => (mem_retryCancel h').1
    cases data with
    | nil =>
      refine reduce _ (fun e' he' => ?_) (by simp [step, newPacketCb])
      have : (step Variant.fixed x.s (.pkt chan [])).st = x.s := rfl
      rw [this]; exact hent e' (hsub e' he')
    | cons cmd payload =>
      refine viaKeeps cmd.toNat _ hsub rfl ?_
      simp only [step, newPacketCb]
      split
      · rename_i hchan
        unfold handleChanWrite
        rcases unpack_take5 payload with ⟨err, hu⟩ | ⟨a0, a1, a2, a3, st, htake, hu⟩
        · rw [fmt_ack, hu]; exact keeps_quiet _ _ _ _
        · rw [fmt_ack, hu]
          obtain ⟨tl, rfl⟩ : ∃ tl, payload = a0 :: a1 :: a2 :: a3 :: st :: tl := by
            match payload, htake with
            | b0 :: b1 :: b2 :: b3 :: b4 :: tl, h =>
              simp only [List.take, List.cons.injEq, and_true] at h
              obtain ⟨rfl, rfl, rfl, rfl, rfl⟩ := h; exact ⟨tl, rfl⟩
          simp only [Int.toNat_natCast]
          rw [hchan]
          exact keeps_onWriteReply hok x.retry cmd a0 a1 a2 a3 st tl
            (fun hst w q hq => ((hc a0 a1 a2 a3 st tl rfl hst).2 hchan) w q hq)
      · split
        · rename_i hchan
          unfold handleChanRead
          rcases unpack_take5 payload with ⟨err, hu⟩ | ⟨a0, a1, a2, a3, st, htake, hu⟩
          · rw [fmt_readReply, hu]; exact keeps_quiet _ _ _ _
          · rw [fmt_readReply, hu]
            obtain ⟨tl, rfl⟩ : ∃ tl, payload = a0 :: a1 :: a2 :: a3 :: st :: tl := by
              match payload, htake with
              | b0 :: b1 :: b2 :: b3 :: b4 :: tl, h =>
                simp only [List.take, List.cons.injEq, and_true] at h
                obtain ⟨rfl, rfl, rfl, rfl, rfl⟩ := h; exact ⟨tl, rfl⟩
            simp only [Int.toNat_natCast]
            rw [hchan]
            have : List.drop 5 (a0 :: a1 :: a2 :: a3 :: st :: tl) = tl := rfl
            rw [this]
            exact keeps_onReadReply hok x.retry cmd a0 a1 a2 a3 st tl
              (fun hst r hr => ((hc a0 a1 a2 a3 st tl rfl hst).1 hchan) r hr)
        · exact keeps_quiet _ _ _ _


/-! ### whole histories -/

def rrun (resend : Bool) : RSt → List Ev → RSt × List Out
  | x, [] => (x, [])
  | x, e :: es =>
    let r := rstep resend x e
    let y := rrun resend r.1 es
    (y.1, r.2.outs ++ y.2)

/-- every request of the history is well-formed and every error-status reply names the outstanding chunk -/
def RAdm (resend : Bool) : RSt → List Ev → Prop
  | _, [] => True
  | x, e :: es => e.WF ∧ e.ErrAtCur x.s ∧ RAdm resend (rstep resend x e).1 es

instance (s : St) (e : Ev) : Decidable (e.ErrAtCur s) := by
  cases e with
  | pkt c data =>
    cases data with
    | nil => exact isTrue trivial
    | cons cmd payload =>
      match payload with
      | a0 :: a1 :: a2 :: a3 :: st :: rest =>
        by_cases hst : st = 0
        · exact isTrue (by
            intro b0 b1 b2 b3 st' rest' heq hne
            simp only [List.cons.injEq] at heq
            obtain ⟨_, _, _, _, rfl, _⟩ := heq
            exact absurd hst hne)
        · have d1 : Decidable (c = Gen.C06.chanRead → ∀ r, dget? s.reads cmd.toNat = some r → leVal [a0, a1, a2, a3] = r.cur) := by
            cases h : dget? s.reads cmd.toNat with
            | none => exact isTrue (by intro _ r hr; cases hr)
            | some r0 =>
              by_cases hh : c = Gen.C06.chanRead → leVal [a0, a1, a2, a3] = r0.cur
              · exact isTrue (by intro hc r hr; cases hr; exact hh hc)
              · exact isFalse (by intro hall; exact hh (fun hc => hall hc r0 rfl))
          have d2 : Decidable (c = Gen.C06.chanWrite → ∀ w q, s.queue cmd.toNat = w :: q → leVal [a0, a1, a2, a3] = w.cur) := by
            cases h : s.queue cmd.toNat with
            | nil => exact isTrue (by intro _ w q hq; cases hq)
            | cons w0 q0 =>
              by_cases hh : c = Gen.C06.chanWrite → leVal [a0, a1, a2, a3] = w0.cur
              · exact isTrue (by intro hc w q hq; cases hq; exact hh hc)
              · exact isFalse (by intro hall; exact hh (fun hc => hall hc w0 q0 rfl))
          exact (match d1, d2 with
            | isTrue h1, isTrue h2 => isTrue (by
                intro b0 b1 b2 b3 st' rest' heq _
                simp only [List.cons.injEq] at heq
                obtain ⟨rfl, rfl, rfl, rfl, rfl, _⟩ := heq
                exact ⟨h1, h2⟩)
            | isFalse h1, _ => isFalse (by intro hall; exact h1 (hall a0 a1 a2 a3 st rest rfl hst).1)
            | _, isFalse h2 => isFalse (by intro hall; exact h2 (hall a0 a1 a2 a3 st rest rfl hst).2))
      | [] | [_] | [_, _] | [_, _, _] | [_, _, _, _] =>
        exact isTrue (by intro b0 b1 b2 b3 st' rest' heq; simp at heq)
  | read _ _ _ _ => exact isTrue trivial
  | write _ _ _ _ _ _ => exact isTrue trivial
  | disconnect => exact isTrue trivial

instance instDecidableRAdm (resend : Bool) : (x : RSt) → (evs : List Ev) → Decidable (RAdm resend x evs)
  | _, [] => isTrue trivial
  | x, e :: es =>
    have := instDecidableRAdm resend (rstep resend x e).1 es
    by simp only [RAdm]; infer_instance

theorem rrun_inv (resend : Bool) (evs : List Ev) {x : RSt} (h : RetryInv x) (ha : RAdm resend x evs) :
    RetryInv (rrun resend x evs).1 := by
  induction evs generalizing x with
  | nil => exact h
  | cons e es ih => exact ih (rstep_inv resend h ha.1 ha.2.1) ha.2.2

theorem RetryInv.init : RetryInv ⟨St.init, []⟩ := ⟨St.init_ok, by simp⟩

/-- once nothing is recorded for memory `id` (its requests were notified, failed, or the link dropped), no
retransmission of any packet of that memory is pending -/
theorem RetryInv.none_for_idle {x : RSt} (h : RetryInv x) {id : Nat} (hid : id < 256)
    (hr : dget? x.s.reads id = none) (hq : x.s.queue id = []) :
    ∀ e ∈ x.retry, e.2.head? ≠ some (UInt8.ofNat id) := by
  intro e he hhead
  obtain ⟨id', hfor⟩ := h.entries e he
  have key : ∀ cur, e.2.take 5 = headBytes id' cur → id' < 256 → id' = id := by
    intro cur hp hid'
    have h1 : (e.2.take 5).head? = some (UInt8.ofNat id') := by
      rw [hp]; simp [headBytes, leBytes1, Nat.mod_eq_of_lt hid']
    have h2 : (e.2.take 5).head? = e.2.head? := by cases e.2 <;> simp
    rw [h2, hhead] at h1
    rcases Nat.lt_or_ge id' id with hlt | hge
    · exact absurd (Option.some.inj h1) (byte_ne hid hid' (by omega))
    · rcases Nat.lt_or_ge id id' with hlt | hge'
      · exact absurd (Option.some.inj h1) (byte_ne hid hid' (by omega))
      · omega
  rcases hfor with ⟨_, r, hrec, hp⟩ | ⟨_, w, rest, hqueue, hp⟩
  · have := key r.cur hp (h.ok.reads id' r hrec).2.1
    subst this; rw [hr] at hrec; cases hrec
  · have hw := (St.queue_ok h.ok id').1 w (by rw [hqueue]; simp)
    have := key w.cur hp hw.2.1
    subst this; rw [hq] at hqueue; cases hqueue

/-! ### the device side: the answer carries the pattern of the packet it answers; a retransmitted write is idempotent -/

/-- every answer of the device starts with the five bytes `id, addr32` of the request and comes on its channel: it
matches (and cancels) exactly the entry that `send_packet` recorded for that packet -/
theorem devHandle_echo (d : Device) (f : UInt8) (c : Nat) (pkt : List UInt8) :
    ∀ p ∈ (devHandle d f c pkt).2, p.1 = c ∧ p.2.take 5 = pkt.take 5 := by
  unfold devHandle
  split
  · split
    · split <;> simp
    · simp
  · split
    · split
      · split <;> simp
      · simp
    · simp

theorem answer_cancels_its_entry (rs : Retry) (c : Nat) (pkt reply : List UInt8) (h5 : 5 ≤ reply.length)
    (hecho : reply.take 5 = pkt.take 5) : (c, pkt) ∉ retryCancel (rs ++ [(c, pkt)]) c reply := by
  intro hmem
  exact (mem_retryCancel hmem).2 h5 (by simp [retryPattern, hecho])

theorem overwrite_idem {m : Image} {a : Nat} {b : List UInt8} (h : a + b.length ≤ m.length) :
    overwrite (overwrite m a b) a b = overwrite m a b := by
  have := overwrite_extend (m := m) (a := a) (x := []) (y := b) (by simpa using h)
  simp only [overwrite, List.length_append, List.length_take, List.length_drop]
  have h1 : (m.take a).length = a := by simp; omega
  rw [List.take_append_of_le_length (by simp [h1]), List.take_append_of_le_length (by simp [h1])]
  rw [List.take_of_length_le (by simp [h1])]
  congr 1
  rw [List.drop_append, List.drop_append]
  simp [h1]

/-- a write request that the device stored and that reaches it again (a retransmission of the outstanding chunk)
changes nothing and is acknowledged with success again -/
theorem devWrite_idem {d : Device} {id a : Nat} {body : List UInt8} (h : (devWrite d id a body).2 = 0) :
    devWrite (devWrite d id a body).1 id a body = devWrite d id a body := by
  unfold devWrite at h ⊢
  cases hd : d[id]? with
  | none => simp [hd, statusNoEnt] at h
  | some m =>
    simp only [hd] at h ⊢
    split at h
    · simp [statusTooBig] at h
    · split at h
      · simp [statusNoEnt] at h
      · rename_i h1 h2
        rw [if_neg h1, if_neg h2]
        have hlt : id < d.length := by
          rcases Nat.lt_or_ge id d.length with hh | hh
          · exact hh
          · rw [List.getElem?_eq_none hh] at hd; cases hd
        have hin : a + body.length ≤ m.length := by omega
        simp only [List.getElem?_set, hlt, ↓reduceIte, overwrite_length hin, h1, h2, List.set_set,
          overwrite_idem hin]

end CfVerif.C06

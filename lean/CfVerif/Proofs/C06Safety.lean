/- Proofs/C06Safety — the bookkeeping of the repaired memory subsystem under ARBITRARY histories:
well-formedness of the request records, no exception after a state change, accounting of notifications. -/
import CfVerif.Proofs.C06
namespace CfVerif.C06
open CfVerif

/-! ### well-formed requests and states -/

/-- a request for a valid memory id and a range inside the 32-bit address space -/
def Ev.WF : Ev → Prop
  | .read _ id addr len => id < 256 ∧ addr < 2 ^ 32 ∧ addr + len ≤ 2 ^ 32
  | .write _ id addr data _ _ => id < 256 ∧ addr < 2 ^ 32 ∧ addr + data.length ≤ 2 ^ 32
  | _ => True

def RReq.Ok (id : Nat) (r : RReq) : Prop :=
  r.id = id ∧ id < 256 ∧ r.cur < 2 ^ 32 ∧ r.cur + r.left ≤ 2 ^ 32

def WReq.Ok (id : Nat) (w : WReq) : Prop :=
  w.id = id ∧ id < 256 ∧ w.cur < 2 ^ 32 ∧ w.cur + w.addrAdd + w.rest.length ≤ 2 ^ 32

structure St.Ok (s : St) : Prop where
  rkeys : (dkeys s.reads).Nodup
  wkeys : (dkeys s.writes).Nodup
  lock : s.lock = false
  reads : ∀ id r, dget? s.reads id = some r → r.Ok id
  writes : ∀ id q, dget? s.writes id = some q → ∀ w ∈ q, w.Ok id
  queued : ∀ id q, dget? s.writes id = some q → ∀ w ∈ q.tail, w.addrAdd = 0

theorem St.init_ok : St.init.Ok := ⟨by simp [St.init, dkeys], by simp [St.init, dkeys], rfl,
  by intro id r h; simp [St.init, dget?] at h, by intro id q h; simp [St.init, dget?] at h,
  by intro id q h; simp [St.init, dget?] at h⟩

def Out.isNote : Out → Bool
  | .readOk .. | .readFail .. | .writeOk .. | .writeFail .. => true
  | _ => false

/-- the output concerns memory `k` only: a notification for memory `k`, or a packet whose first byte is `k` - and
which respects the limits: payload ≤ `maxDataSize`, a write request with at most `writeMax` data bytes behind the
5-byte head, a 6-byte read request asking for at most `readMax` bytes -/
def Out.About (k : Nat) : Out → Prop
  | .send c d => d.head? = some (UInt8.ofNat k) ∧ d.length ≤ Gen.C06.maxDataSize ∧
      (c = Gen.C06.chanWrite → d.length ≤ 5 + Gen.C06.writeMax) ∧
      (c = Gen.C06.chanRead → d.length = 6 ∧ ∀ n, d[5]? = some n → n.toNat ≤ Gen.C06.readMax) ∧
      (c = Gen.C06.chanRead ∨ c = Gen.C06.chanWrite)
  | .readOk _ i _ _ | .readFail _ i _ _ | .writeOk _ i _ | .writeFail _ i _ => i = k
  | .progress _ _ => True

theorem headBytes_head (k a : Nat) (rest : List UInt8) (hk : k < 256) :
    (headBytes k a ++ rest).head? = some (UInt8.ofNat k) := by
  simp [headBytes, leBytes1, Nat.mod_eq_of_lt hk]

theorem readReqBytes_head (k a n : Nat) (hk : k < 256) : (readReqBytes k a n).head? = some (UInt8.ofNat k) := by
  simp [readReqBytes, leBytes1, Nat.mod_eq_of_lt hk]

theorem about_writeSend {k : Nat} (hk : k < 256) (a : Nat) (l : List UInt8) :
    (Out.send Gen.C06.chanWrite (headBytes k a ++ l.take (wrLen l.length))).About k := by
  have h1 := wrLen_le l.length
  have h2 := gen_write_fits
  have hl : (headBytes k a ++ l.take (wrLen l.length)).length ≤ 5 + Gen.C06.writeMax := by
    simp only [headBytes, List.length_append, leBytes_length, List.length_take]; omega
  exact ⟨headBytes_head k a _ hk, by omega, fun _ => hl, fun h => absurd h.symm gen_chans, Or.inr rfl⟩

theorem about_readSend {k : Nat} (hk : k < 256) (a x : Nat) :
    (Out.send Gen.C06.chanRead (readReqBytes k a (rdLen x))).About k := by
  have h1 := readLen_le x
  have h2 := gen_read_fits
  have h3 := gen_readMax_byte
  refine ⟨readReqBytes_head k a _ hk, by simp [readReqBytes]; omega, fun h => absurd h gen_chans,
    fun _ => ⟨by simp [readReqBytes], ?_⟩, Or.inl rfl⟩
  intro n hn
  obtain ⟨a0, a1, a2, a3, h4⟩ := leBytes4 a
  simp only [readReqBytes, leBytes1, h4, List.cons_append, List.nil_append] at hn
  simp only [List.getElem?_cons_succ, List.getElem?_cons_zero, Option.some.injEq] at hn
  subst hn
  simp only [UInt8.toNat_ofNat']
  exact Nat.le_trans (Nat.mod_le _ _) (Nat.le_trans (Nat.mod_le _ _) h1)

/-! ### the request objects -/

theorem RReq.new_ok {tag id addr len : Nat} (h : (Ev.read tag id addr len).WF) : (RReq.new tag id addr len).Ok id :=
  ⟨rfl, h.1, h.2.1, h.2.2⟩

theorem WReq.new_ok {tag id addr : Nat} {data : List UInt8} {f p : Bool} (h : (Ev.write tag id addr data f p).WF) :
    (WReq.new tag id addr data p).Ok id :=
  ⟨rfl, h.1, h.2.1, by simpa [WReq.new] using h.2.2⟩

theorem WReq.afterChunk_ok {w : WReq} {id : Nat} (h : w.Ok id) (h0 : w.addrAdd = 0) : w.afterChunk.Ok id := by
  obtain ⟨h1, h2, h3, h4⟩ := h
  refine ⟨h1, h2, h3, ?_⟩
  have := wrLen_le' w.rest.length
  simp only [WReq.afterChunk, List.length_drop]
  omega

/-- advancing to the next chunk keeps the request inside the address space -/
theorem WReq.advance_ok {w : WReq} {id : Nat} (h : w.Ok id) (hr : w.rest.length > 0) :
    w.cur + w.addrAdd < 2 ^ 32 ∧ ({ w with cur := w.cur + w.addrAdd } : WReq).afterChunk.Ok id := by
  obtain ⟨h1, h2, h3, h4⟩ := h
  have := wrLen_le' w.rest.length
  refine ⟨by omega, ⟨h1, h2, by simp only [WReq.afterChunk]; omega, ?_⟩⟩
  simp only [WReq.afterChunk, List.length_drop]
  omega

theorem progressStep_fixed (w : WReq) :
    ∃ w' outs, progressStep Variant.fixed w = (w', outs, .ok ()) ∧ w'.tag = w.tag ∧ w'.id = w.id ∧ w'.addr = w.addr ∧
      w'.cur = w.cur ∧ w'.addrAdd = w.addrAdd ∧ w'.rest = w.rest ∧ w'.left = w.left ∧ w'.writeLen = w.writeLen ∧
      (∀ o ∈ outs, o.isNote = false ∧ ∀ k, o.About k) := by
  unfold progressStep
  split
  · exact ⟨w, [], rfl, rfl, rfl, rfl, rfl, rfl, rfl, rfl, rfl, by simp⟩
  · split
    · exact ⟨w, [], by simp [Variant.fixed], rfl, rfl, rfl, rfl, rfl, rfl, rfl, rfl, by simp⟩
    · dsimp only
      split
      · exact ⟨_, _, rfl, rfl, rfl, rfl, rfl, rfl, rfl, rfl, rfl, by simp [Out.isNote, Out.About]⟩
      · exact ⟨w, [], rfl, rfl, rfl, rfl, rfl, rfl, rfl, rfl, rfl, by simp⟩

/-- `write_done` of the repaired code on a well-formed request never raises; it keeps the identity of the request -/
theorem writeDone_fixed {w : WReq} {id : Nat} (h : w.Ok id) (addr : Nat) :
    ∃ w' outs r, writeDone Variant.fixed w addr = (w', outs, .ok r) ∧ w'.tag = w.tag ∧ w'.addr = w.addr ∧ w'.Ok id ∧
      (∀ o ∈ outs, o.isNote = false ∧ o.About id) := by
  unfold writeDone
  split
  · exact ⟨w, [], none, rfl, rfl, rfl, h, by simp⟩
  · obtain ⟨w1, po, hp, ht, hi, ha, hc, haa, hr, hl, hwl, hn⟩ := progressStep_fixed w
    rw [hp]
    have h1 : w1.Ok id := ⟨hi.trans h.1, h.2.1, hc ▸ h.2.2.1, by rw [hc, haa, hr]; exact h.2.2.2⟩
    simp only
    split
    · rename_i hrest
      obtain ⟨hadv, hadv'⟩ := WReq.advance_ok h1 hrest
      rw [writeNewChunk_ok _ (by show w1.id < 256; rw [h1.1]; exact h1.2.1) hadv]
      refine ⟨_, _, some false, rfl, ?_, ?_, hadv', ?_⟩
      · simp [WReq.afterChunk, ht]
      · simp [WReq.afterChunk, ha]
      · intro o ho
        rcases List.mem_append.1 ho with ho | ho
        · exact ⟨(hn o ho).1, (hn o ho).2 id⟩
        · simp at ho; subst ho
          exact ⟨rfl, by have := about_writeSend h1.2.1 (w1.cur + w1.addrAdd) w1.rest; simpa [h1.1] using this⟩
    · exact ⟨w1, po, some true, rfl, ht, ha, h1, fun o ho => ⟨(hn o ho).1, (hn o ho).2 id⟩⟩

theorem startNext_fixed {q : List WReq} {id : Nat} (h : ∀ w ∈ q, w.Ok id) (h0 : ∀ w ∈ q, w.addrAdd = 0) :
    ∃ q' sent, startNext q = (q', .ok sent) ∧ q'.map (·.tag) = q.map (·.tag) ∧ (∀ w ∈ q', w.Ok id) ∧
      (∀ o ∈ sent, o.isNote = false ∧ o.About id) ∧ (∀ w ∈ q'.tail, w.addrAdd = 0) := by
  cases q with
  | nil => exact ⟨[], [], rfl, rfl, by simp, by simp, by simp⟩
  | cons n rest =>
    have hn := h n (by simp)
    simp only [startNext]
    rw [writeNewChunk_ok _ (hn.1 ▸ hn.2.1) hn.2.2.1]
    refine ⟨_, _, rfl, by simp [WReq.afterChunk], ?_,
      by have := about_writeSend hn.2.1 n.cur n.rest; simpa [Out.isNote, hn.1] using this, ?_⟩
    · intro w hw
      rcases List.mem_cons.1 hw with rfl | hw
      · exact WReq.afterChunk_ok hn (h0 n (by simp))
      · exact h w (List.mem_cons_of_mem _ hw)
    · intro w hw; exact h0 w (List.mem_cons_of_mem _ (by simpa using hw))


/-- the locked part of `_handle_chan_write` on well-formed requests: never raises; either the queue keeps its
requests (the head may have progressed) and nothing is notified, or the head is removed and notified once -/
theorem handleWriteHead_fixed {w : WReq} {rest : List WReq} {id : Nat} (hw : w.Ok id) (hr : ∀ x ∈ rest, x.Ok id)
    (h0 : ∀ x ∈ rest, x.addrAdd = 0) (addr status : Nat) :
    ∃ q' outs cbs, handleWriteHead Variant.fixed w rest addr status = (q', outs, .ok cbs) ∧
      (∀ o ∈ outs, o.isNote = false ∧ o.About id) ∧ (∀ x ∈ q', x.Ok id) ∧ (∀ x ∈ q'.tail, x.addrAdd = 0) ∧
      ((q'.map (·.tag) = (w :: rest).map (·.tag) ∧ cbs = []) ∨
       (q'.map (·.tag) = rest.map (·.tag) ∧
         (cbs = [.writeOk w.tag id w.addr] ∨ cbs = [.writeFail w.tag id w.addr]))) := by
  unfold handleWriteHead
  split
  · obtain ⟨w', outs, r, hd, ht, ha, hok, hn⟩ := writeDone_fixed hw addr
    rw [hd]
    have keep : ∃ q' outs' cbs, ((w' :: rest, outs, (Except.ok [] : Except PyErr (List Out))) = (q', outs', .ok cbs)) ∧
        (∀ o ∈ outs', o.isNote = false ∧ o.About id) ∧ (∀ x ∈ q', x.Ok id) ∧ (∀ x ∈ q'.tail, x.addrAdd = 0) ∧
        ((q'.map (·.tag) = (w :: rest).map (·.tag) ∧ cbs = []) ∨
         (q'.map (·.tag) = rest.map (·.tag) ∧
           (cbs = [.writeOk w.tag id w.addr] ∨ cbs = [.writeFail w.tag id w.addr]))) := by
      refine ⟨_, _, _, rfl, hn, ?_, by simpa using h0, Or.inl ⟨by simp [ht], rfl⟩⟩
      intro x hx
      rcases List.mem_cons.1 hx with rfl | hx
      · exact hok
      · exact hr x hx
    match r with
    | some true =>
      simp only
      obtain ⟨q', sent, hs, htags, hoks, hns, htl⟩ := startNext_fixed hr h0
      rw [hs]
      refine ⟨q', outs ++ sent, _, rfl, ?_, hoks, htl, Or.inr ⟨htags, Or.inl ?_⟩⟩
      · intro o ho
        rcases List.mem_append.1 ho with ho | ho
        · exact hn o ho
        · exact hns o ho
      · rw [ht, ha, hok.1]
    | some false => exact keep
    | none => exact keep
  · obtain ⟨q', sent, hs, htags, hoks, hns, htl⟩ := startNext_fixed hr h0
    rw [hs]
    exact ⟨q', sent, _, rfl, hns, hoks, htl, Or.inr ⟨htags, Or.inr (by rw [hw.1])⟩⟩


/-! ### accounting lists -/

/-- tags of the write requests recorded for `id`, in queue order -/
def St.queueTags (s : St) (id : Nat) : List Nat := (s.queue id).map (·.tag)
/-- tag of the read request recorded for `id` (at most one) -/
def St.readTags (s : St) (id : Nat) : List Nat :=
  match dget? s.reads id with
  | some r => [r.tag]
  | none => []

/-- tags of the write requests of memory `id` that were notified (success or failure), in order -/
def notifW (id : Nat) (outs : List Out) : List Nat :=
  outs.filterMap fun
    | .writeOk t i _ => if i = id then some t else none
    | .writeFail t i _ => if i = id then some t else none
    | _ => none
/-- tags of the read requests of memory `id` that were notified, in order -/
def notifR (id : Nat) (outs : List Out) : List Nat :=
  outs.filterMap fun
    | .readOk t i _ _ => if i = id then some t else none
    | .readFail t i _ _ => if i = id then some t else none
    | _ => none

theorem notifW_append (id : Nat) (a b : List Out) : notifW id (a ++ b) = notifW id a ++ notifW id b := by
  simp [notifW, List.filterMap_append]
theorem notifR_append (id : Nat) (a b : List Out) : notifR id (a ++ b) = notifR id a ++ notifR id b := by
  simp [notifR, List.filterMap_append]

theorem notifW_of_not_note (id : Nat) {outs : List Out} (h : ∀ o ∈ outs, o.isNote = false) : notifW id outs = [] := by
  induction outs with
  | nil => rfl
  | cons o os ih =>
    have ho := h o (by simp)
    have := ih (fun x hx => h x (List.mem_cons_of_mem _ hx))
    cases o <;> simp_all [notifW, Out.isNote]
theorem notifR_of_not_note (id : Nat) {outs : List Out} (h : ∀ o ∈ outs, o.isNote = false) : notifR id outs = [] := by
  induction outs with
  | nil => rfl
  | cons o os ih =>
    have ho := h o (by simp)
    have := ih (fun x hx => h x (List.mem_cons_of_mem _ hx))
    cases o <;> simp_all [notifR, Out.isNote]

/-! ### `ensureQueue` -/

theorem queue_ensureQueue (ws : List (Nat × List WReq)) (i k : Nat) :
    (dget? (ensureQueue ws i) k).getD [] = (dget? ws k).getD [] := by
  unfold ensureQueue
  split
  · rfl
  · rename_i h
    by_cases hk : k = i
    · subst hk
      rw [dget?_dset_same]
      have : dget? ws k = none := by
        rw [dhas_eq_isSome] at h
        cases hg : dget? ws k <;> simp_all
      simp [this]
    · rw [dget?_dset_other _ _ hk]

theorem dget?_ensureQueue {ws : List (Nat × List WReq)} {i k : Nat} {q : List WReq}
    (h : dget? (ensureQueue ws i) k = some q) : dget? ws k = some q ∨ (k = i ∧ q = []) := by
  unfold ensureQueue at h
  split at h
  · exact Or.inl h
  · by_cases hk : k = i
    · subst hk; rw [dget?_dset_same] at h; right; exact ⟨rfl, by simpa using h.symm⟩
    · rw [dget?_dset_other _ _ hk] at h; exact Or.inl h

theorem nodup_ensureQueue {ws : List (Nat × List WReq)} (i : Nat) (h : (dkeys ws).Nodup) :
    (dkeys (ensureQueue ws i)).Nodup := by
  unfold ensureQueue; split
  · exact h
  · exact nodup_dkeys_dset _ _ h

theorem dhas_ensureQueue (ws : List (Nat × List WReq)) (i : Nat) : dhas (ensureQueue ws i) i = true := by
  unfold ensureQueue; split
  · assumption
  · rw [dhas_eq_isSome, dget?_dset_same]; rfl


/-! ### effect of the events on the records (repaired code, well-formed requests) -/

theorem St.queue_def (s : St) (id : Nat) : s.queue id = (dget? s.writes id).getD [] := rfl

/-- replacing the queue of one id by well-formed requests keeps the state well-formed -/
theorem St.ok_setQueue {s : St} (hs : s.Ok) {ws : List (Nat × List WReq)} (i : Nat) (newq : List WReq)
    (hws : (dkeys ws).Nodup) (hsub : ∀ k q, dget? ws k = some q → dget? s.writes k = some q ∨ q = [])
    (hq : ∀ w ∈ newq, w.Ok i) (ht : ∀ w ∈ newq.tail, w.addrAdd = 0) :
    ({ reads := s.reads, writes := dset ws i newq, lock := false } : St).Ok := by
  refine ⟨hs.rkeys, nodup_dkeys_dset _ _ hws, rfl, hs.reads, ?_, ?_⟩
  · intro k q hk w hw
    by_cases hki : k = i
    · subst hki; rw [dget?_dset_same] at hk; cases hk; exact hq w hw
    · rw [dget?_dset_other _ _ hki] at hk
      rcases hsub k q hk with h | h
      · exact hs.writes k q h w hw
      · subst h; cases hw
  · intro k q hk w hw
    by_cases hki : k = i
    · subst hki; rw [dget?_dset_same] at hk; cases hk; exact ht w hw
    · rw [dget?_dset_other _ _ hki] at hk
      rcases hsub k q hk with h | h
      · exact hs.queued k q h w hw
      · subst h; cases hw

theorem St.queue_ok {s : St} (hs : s.Ok) (i : Nat) : (∀ w ∈ s.queue i, w.Ok i) ∧ (∀ w ∈ (s.queue i).tail, w.addrAdd = 0) := by
  rw [St.queue_def]
  cases h : dget? s.writes i with
  | none => simp
  | some q => exact ⟨hs.writes i q h, hs.queued i q h⟩

theorem memWrite_effect {s : St} (hs : s.Ok) {tag i addr : Nat} {data : List UInt8} {flush p : Bool}
    (he : (Ev.write tag i addr data flush p).WF) :
    (memWrite Variant.fixed s tag i addr data flush p).st.Ok ∧
    (memWrite Variant.fixed s tag i addr data flush p).res = .ret (some true) ∧
    (∀ o ∈ (memWrite Variant.fixed s tag i addr data flush p).outs, o.isNote = false) ∧
    (memWrite Variant.fixed s tag i addr data flush p).st.reads = s.reads ∧
    (memWrite Variant.fixed s tag i addr data flush p).st.queueTags i =
      (if flush then (s.queueTags i).take 1 else s.queueTags i) ++ [tag] ∧
    (∀ k, k ≠ i → (memWrite Variant.fixed s tag i addr data flush p).st.queue k = s.queue k) := by
  have hw := WReq.new_ok he
  obtain ⟨hqok, hqtl⟩ := St.queue_ok hs i
  simp only [memWrite, Variant.fixed, hs.lock, Bool.false_eq_true, ↓reduceIte, memWriteLocked]
  have hq0 : (dget? (ensureQueue s.writes (WReq.new tag i addr data p).id) (WReq.new tag i addr data p).id).getD [] = s.queue i := by
    show (dget? (ensureQueue s.writes i) i).getD [] = _
    rw [queue_ensureQueue]; rfl
  rw [hq0]
  have hwid : (WReq.new tag i addr data p).id = i := rfl
  have hsub : ∀ k q, dget? (ensureQueue s.writes i) k = some q → dget? s.writes k = some q ∨ q = [] := by
    intro k q h; rcases dget?_ensureQueue h with h | h
    · exact Or.inl h
    · exact Or.inr h.2
  have hnd := nodup_ensureQueue i hs.wkeys
  have hother : ∀ (newq : List WReq) k, k ≠ i →
      ({ reads := s.reads, writes := dset (ensureQueue s.writes i) i newq, lock := false } : St).queue k = s.queue k := by
    intro newq k hk
    simp only [St.queue_def]
    rw [dget?_dset_other _ _ hk, queue_ensureQueue]
  have hsame : ∀ (newq : List WReq),
      ({ reads := s.reads, writes := dset (ensureQueue s.writes i) i newq, lock := false } : St).queueTags i = newq.map (·.tag) := by
    intro newq
    simp only [St.queueTags, St.queue_def]
    rw [dget?_dset_same]; rfl
  -- the queue after the optional flush
  have hqf : ∀ w ∈ (if flush = true then (s.queue i).take 1 else s.queue i), w.Ok i := by
    intro w hw'; split at hw'
    · exact hqok w (List.mem_of_mem_take hw')
    · exact hqok w hw'
  have hqft : ∀ w ∈ (if flush = true then (s.queue i).take 1 else s.queue i).tail, w.addrAdd = 0 := by
    intro w hw'; split at hw'
    · cases hq : s.queue i with
      | nil => rw [hq] at hw'; cases hw'
      | cons a t => rw [hq] at hw'; simp at hw'
    · exact hqtl w hw'
  have htags : (if flush = true then (s.queue i).take 1 else s.queue i).map (·.tag) =
      (if flush = true then (s.queueTags i).take 1 else s.queueTags i) := by
    split <;> simp [St.queueTags, List.map_take]
  rw [hwid]
  split
  · rename_i hqe
    rw [writeNewChunk_ok _ (hw.1 ▸ hw.2.1) hw.2.2.1]
    refine ⟨?_, rfl, by simp [Out.isNote], rfl, ?_, hother _⟩
    · exact St.ok_setQueue hs i _ hnd hsub (by simpa using WReq.afterChunk_ok hw rfl) (by simp)
    · rw [hsame, ← htags, hqe]; simp [WReq.afterChunk, WReq.new]
  · rename_i h t hqe
    refine ⟨?_, rfl, by simp, rfl, ?_, hother _⟩
    · refine St.ok_setQueue hs i _ hnd hsub ?_ ?_
      · intro w hw'
        rcases List.mem_append.1 hw' with hw' | hw'
        · exact hqf w (hqe ▸ hw')
        · simp at hw'; subst hw'; exact hw
      · intro w hw'
        have : (h :: t ++ [WReq.new tag i addr data p]).tail = t ++ [WReq.new tag i addr data p] := rfl
        rw [this] at hw'
        rcases List.mem_append.1 hw' with hw' | hw'
        · exact hqft w (by rw [hqe]; exact hw')
        · simp at hw'; subst hw'; rfl
    · rw [hsame, ← htags, hqe]; simp [WReq.new]


theorem St.readTags_of_none {s : St} {id : Nat} (h : dget? s.reads id = none) : s.readTags id = [] := by
  simp [St.readTags, h]
theorem St.readTags_of_some {s : St} {id : Nat} {r : RReq} (h : dget? s.reads id = some r) : s.readTags id = [r.tag] := by
  simp [St.readTags, h]

theorem memRead_eq (s : St) {tag i addr len : Nat} (he : (Ev.read tag i addr len).WF) :
    memRead s tag i addr len =
      if dhas s.reads i then ⟨s, [], .ret (some false)⟩
      else ⟨{ s with reads := dset s.reads i (RReq.new tag i addr len) },
            [.send Gen.C06.chanRead (readReqBytes i addr (rdLen len))], .ret (some true)⟩ := by
  have hr := RReq.new_ok he
  unfold memRead
  split
  · rfl
  · dsimp only
    rw [requestNewChunk_ok _ (hr.1 ▸ hr.2.1) hr.2.2.1]
    rfl

theorem memRead_effect {s : St} (hs : s.Ok) {tag i addr len : Nat} (he : (Ev.read tag i addr len).WF)
    {r : Step} (hr : memRead s tag i addr len = r) :
    r.st.Ok ∧ (∀ o ∈ r.outs, o.isNote = false) ∧ r.st.writes = s.writes ∧
    (∀ k, k ≠ i → dget? r.st.reads k = dget? s.reads k) ∧
    ((dhas s.reads i = true ∧ r.res = .ret (some false) ∧ r.st = s) ∨
     (dhas s.reads i = false ∧ r.res = .ret (some true) ∧ r.st.readTags i = [tag] ∧
       r.outs = [.send Gen.C06.chanRead (readReqBytes i addr (rdLen len))])) := by
  have hnew := RReq.new_ok he
  rw [memRead_eq s he] at hr
  split at hr
  · rename_i h
    subst hr
    exact ⟨hs, by simp, rfl, fun _ _ => rfl, Or.inl ⟨h, rfl, rfl⟩⟩
  · rename_i h
    subst hr
    refine ⟨⟨nodup_dkeys_dset _ _ hs.rkeys, hs.wkeys, hs.lock, ?_, hs.writes, hs.queued⟩, by simp [Out.isNote], rfl,
      fun k hk => dget?_dset_other _ _ hk, Or.inr ⟨by simpa using h, rfl, ?_, rfl⟩⟩
    · intro k r hk
      by_cases hki : k = i
      · subst hki; simp only [dget?_dset_same, Option.some.injEq] at hk; subst hk; exact hnew
      · rw [dget?_dset_other _ _ hki] at hk; exact hs.reads k r hk
    · simp [St.readTags, dget?_dset_same, RReq.new]

/-- the request after `add_data` accepted `data` -/
def RReq.plus (r : RReq) (data : List UInt8) : RReq :=
  { r with data := r.data ++ data, left := r.left - data.length, cur := r.cur + data.length }

theorem RReq.plus_ok {r : RReq} {id : Nat} (h : r.Ok id) {data : List UInt8} (hl : r.left > data.length) :
    (r.plus data).Ok id := by
  obtain ⟨h1, h2, h3, h4⟩ := h
  exact ⟨h1, h2, by simp only [RReq.plus]; omega, by simp only [RReq.plus]; omega⟩

/-- `add_data` on a well-formed request never raises -/
theorem addData_eq {r : RReq} {id : Nat} (h : r.Ok id) (addr : Nat) (data : List UInt8) :
    addData r addr data =
      if addr ≠ r.cur then (r, [], .ok none)
      else if r.left > data.length then
        (r.plus data, [.send Gen.C06.chanRead (readReqBytes id (r.cur + data.length) (rdLen (r.left - data.length)))],
          .ok (some false))
      else (r.plus data, [], .ok (some true)) := by
  unfold addData
  split
  · rfl
  · split
    · rename_i hl
      have hok := RReq.plus_ok h hl
      dsimp only
      have := requestNewChunk_ok _ (hok.1 ▸ hok.2.1) hok.2.2.1
      simp only [RReq.plus] at this
      rw [this]; simp only [RReq.plus, h.1]
    · rfl

theorem unpack_take5 (payload : List UInt8) :
    (∃ e, unpack [.I, .B] (payload.take 5) = .error e) ∨
    (∃ a b c d e, payload.take 5 = [a, b, c, d, e] ∧
      unpack [.I, .B] (payload.take 5) = .ok [.int (leVal [a, b, c, d]), .int e.toNat]) := by
  match payload with
  | [] => left; exact ⟨_, rfl⟩
  | [_] => left; exact ⟨_, rfl⟩
  | [_, _] => left; exact ⟨_, rfl⟩
  | [_, _, _] => left; exact ⟨_, rfl⟩
  | [_, _, _, _] => left; simp [unpack, Code.size, bind, Except.bind]
  | a :: b :: c :: d :: e :: rest =>
    right
    refine ⟨a, b, c, d, e, by simp, ?_⟩
    simp [unpack, Code.size, Code.takesVal, unpackOne, leVal, bind, Except.bind, pure, Except.pure]


theorem St.readTags_congr {s s' : St} {k : Nat} (h : dget? s'.reads k = dget? s.reads k) : s'.readTags k = s.readTags k := by
  simp [St.readTags, h]

/-- state after replacing / removing the read record of `id` -/
theorem St.ok_setRead {s : St} (hs : s.Ok) {id : Nat} {r' : RReq} (h : r'.Ok id) :
    ({ s with reads := dset s.reads id r' } : St).Ok :=
  ⟨nodup_dkeys_dset _ _ hs.rkeys, hs.wkeys, hs.lock, by
    intro k r hk
    by_cases hki : k = id
    · subst hki; simp only [dget?_dset_same, Option.some.injEq] at hk; subst hk; exact h
    · rw [dget?_dset_other _ _ hki] at hk; exact hs.reads k r hk, hs.writes, hs.queued⟩

theorem St.ok_eraseRead {s : St} (hs : s.Ok) (id : Nat) : ({ s with reads := derase s.reads id } : St).Ok :=
  ⟨nodup_dkeys_derase _ hs.rkeys, hs.wkeys, hs.lock, by
    intro k r hk
    by_cases hki : k = id
    · subst hki; rw [dget?_derase_same] at hk; cases hk
    · rw [dget?_derase_other _ hki] at hk; exact hs.reads k r hk, hs.writes, hs.queued⟩

/-- what a parsed read reply does to the records: nothing is ever raised; the record of `id` is kept (possibly
progressed) and nothing is notified, or it is removed and notified exactly once; nothing else changes -/
theorem onReadReply_effect {s : St} (hs : s.Ok) (id addr status : Nat) (data : List UInt8)
    {r : Step} (hr : onReadReply s id addr status data = r) :
    r.st.Ok ∧ r.st.writes = s.writes ∧ r.res = .ret none ∧ (∀ k, notifW k r.outs = []) ∧
    (∀ k, notifR k r.outs ++ r.st.readTags k = s.readTags k) := by
  unfold onReadReply at hr
  split at hr
  · subst hr; exact ⟨hs, rfl, rfl, fun _ => rfl, fun _ => rfl⟩
  · rename_i rq hget
    have hok := hs.reads id rq hget
    have hother : ∀ (rs : List (Nat × RReq)) k, k ≠ id → dget? rs k = dget? s.reads k →
        ({ s with reads := rs } : St).readTags k = s.readTags k := fun rs k _ h => St.readTags_congr h
    split at hr
    · by_cases h1 : addr ≠ rq.cur
      · -- address mismatch: ignored
        have hd : addData rq addr data = (rq, [], .ok none) := by rw [addData_eq hok, if_pos h1]
        rw [hd] at hr; simp only at hr
        subst hr
        refine ⟨St.ok_setRead hs hok, rfl, rfl, fun _ => rfl, ?_⟩
        intro k
        simp only [notifR, List.filterMap_nil, List.nil_append]
        apply St.readTags_congr
        by_cases hk : k = id
        · subst hk; simp [dget?_dset_same, hget]
        · exact dget?_dset_other _ _ hk
      · by_cases hl : rq.left > data.length
        · -- more chunks
          have hd : addData rq addr data = (rq.plus data, [.send Gen.C06.chanRead
              (readReqBytes id (rq.cur + data.length) (rdLen (rq.left - data.length)))], .ok (some false)) := by
            rw [addData_eq hok, if_neg h1, if_pos hl]
          rw [hd] at hr; simp only at hr
          subst hr
          refine ⟨St.ok_setRead hs (RReq.plus_ok hok hl), rfl, rfl, fun _ => by simp [notifW], ?_⟩
          intro k
          have : notifR k [Out.send Gen.C06.chanRead (readReqBytes id (rq.cur + data.length) (rdLen (rq.left - data.length)))] = [] := by
            simp [notifR]
          rw [this, List.nil_append]
          by_cases hk : k = id
          · subst hk; simp [St.readTags, dget?_dset_same, hget, RReq.plus]
          · exact St.readTags_congr (dget?_dset_other _ _ hk)
        · -- complete
          have hd : addData rq addr data = (rq.plus data, [], .ok (some true)) := by
            rw [addData_eq hok, if_neg h1, if_neg hl]
          rw [hd] at hr; simp only at hr
          subst hr
          refine ⟨St.ok_eraseRead hs id, rfl, rfl, fun _ => by simp [notifW], ?_⟩
          intro k
          by_cases hk : k = id
          · subst hk
            simp [notifR, St.readTags, dget?_derase_same, hget, RReq.plus, hok.1]
          · have h1 : ({ s with reads := derase s.reads id } : St).readTags k = s.readTags k :=
              St.readTags_congr (dget?_derase_other _ hk)
            have hne : ¬ rq.id = k := by rw [hok.1]; exact fun h => hk h.symm
            simp [notifR, h1, RReq.plus, hne]
    · -- error status
      subst hr
      refine ⟨St.ok_eraseRead hs id, rfl, rfl, fun _ => by simp [notifW], ?_⟩
      intro k
      by_cases hk : k = id
      · subst hk
        simp [notifR, St.readTags, dget?_derase_same, hget, hok.1]
      · have h1 : ({ s with reads := derase s.reads id } : St).readTags k = s.readTags k :=
          St.readTags_congr (dget?_derase_other _ hk)
        have hne : ¬ rq.id = k := by rw [hok.1]; exact fun h => hk h.symm
        simp [notifR, h1, hne]


theorem St.queueTags_congr {s s' : St} {k : Nat} (h : dget? s'.writes k = dget? s.writes k) :
    s'.queueTags k = s.queueTags k := by
  simp [St.queueTags, St.queue_def, h]

/-- what a parsed write acknowledgement does to the records (repaired code): it never blocks or raises; the queue of
`id` keeps its requests (the head may have progressed) and nothing is notified, or the head is removed and
notified exactly once (and the next request is started); nothing else changes -/
theorem onWriteReply_effect {s : St} (hs : s.Ok) (id addr status : Nat)
    {r : Step} (hr : onWriteReply Variant.fixed s id addr status = r) :
    r.st.Ok ∧ r.st.reads = s.reads ∧ r.res = .ret none ∧ (∀ k, notifR k r.outs = []) ∧
    (∀ k, notifW k r.outs ++ r.st.queueTags k = s.queueTags k) := by
  unfold onWriteReply at hr
  simp only [Variant.fixed, Bool.not_true, Bool.false_and, Bool.false_eq_true, ↓reduceIte, hs.lock] at hr
  split at hr
  · subst hr; exact ⟨hs, rfl, rfl, fun _ => rfl, fun _ => rfl⟩
  · split at hr
    · subst hr; exact ⟨hs, rfl, rfl, fun _ => rfl, fun _ => rfl⟩
    · rename_i w rest hq
      obtain ⟨hqok, hqtl⟩ := St.queue_ok hs id
      rw [hq] at hqok hqtl
      obtain ⟨q', outs, cbs, hh, hn, hok', htl', hcase⟩ :=
        handleWriteHead_fixed (hqok w (by simp)) (fun x hx => hqok x (List.mem_cons_of_mem _ hx))
          (fun x hx => hqtl x (by simpa using hx)) addr status
      have hh' : handleWriteHead ⟨true, true, true, true, true, true⟩ w rest addr status = (q', outs, .ok cbs) := hh
      rw [hh'] at hr
      simp only at hr
      subst hr
      have hst : ({ reads := s.reads, writes := dset s.writes id q', lock := false } : St).Ok := by
        refine St.ok_setQueue hs id q' hs.wkeys (fun k q h => Or.inl h) hok' htl'
      refine ⟨hst, rfl, rfl, ?_, ?_⟩
      · intro k
        rw [notifR_append, notifR_of_not_note k (fun o ho => (hn o ho).1)]
        rcases hcase with ⟨_, rfl⟩ | ⟨_, rfl | rfl⟩ <;> simp [notifR]
      · intro k
        rw [notifW_append, notifW_of_not_note k (fun o ho => (hn o ho).1), List.nil_append]
        by_cases hk : k = id
        · subst hk
          have hqt : ({ reads := s.reads, writes := dset s.writes k q', lock := false } : St).queueTags k = q'.map (·.tag) := by
            simp [St.queueTags, St.queue_def, dget?_dset_same]
          have hst0 : s.queueTags k = (w :: rest).map (·.tag) := by simp [St.queueTags, hq]
          rw [hqt, hst0]
          rcases hcase with ⟨h1, rfl⟩ | ⟨h1, rfl | rfl⟩
          · simpa [notifW] using h1
          · simp [notifW, h1]
          · simp [notifW, h1]
        · have hqt : ({ reads := s.reads, writes := dset s.writes id q', lock := false } : St).queueTags k = s.queueTags k :=
            St.queueTags_congr (dget?_dset_other _ _ hk)
          rw [hqt]
          have hne : ¬ id = k := fun h => hk h.symm
          have : notifW k cbs = [] := by
            rcases hcase with ⟨_, rfl⟩ | ⟨_, rfl | rfl⟩
            · rfl
            · simp [notifW, hne]
            · simp [notifW, hne]
          rw [this, List.nil_append]


/-! ### disconnect -/

theorem dget?_none_of_not_mem_keys {α : Type} {d : List (Nat × α)} {k : Nat} (h : k ∉ dkeys d) : dget? d k = none := by
  cases hg : dget? d k with
  | none => rfl
  | some v => exact absurd (List.mem_map.2 ⟨(k, v), mem_of_dget? hg, rfl⟩) h

theorem notifW_failAll (d : List (Nat × List WReq)) (hk : (dkeys d).Nodup)
    (hid : ∀ key q, (key, q) ∈ d → ∀ w ∈ q, w.id = key) (k : Nat) :
    notifW k (((d.map (·.2)).flatten).map fun w => Out.writeFail w.tag w.id w.addr) =
      ((dget? d k).getD []).map (·.tag) := by
  induction d with
  | nil => rfl
  | cons e es ih =>
    obtain ⟨key, q⟩ := e
    simp only [dkeys, List.map_cons, List.nodup_cons] at hk
    have ih' := ih hk.2 (fun key' q' h => hid key' q' (List.mem_cons_of_mem _ h))
    simp only [List.map_cons, List.flatten_cons, List.map_append, notifW_append, ih']
    have hq : ∀ w ∈ q, w.id = key := hid key q (by simp)
    by_cases hkk : key = k
    · subst hkk
      have h1 : notifW key (q.map fun w => Out.writeFail w.tag w.id w.addr) = q.map (·.tag) := by
        clear ih ih' hid
        induction q with
        | nil => rfl
        | cons w ws ihq =>
          have := ihq (fun x hx => hq x (List.mem_cons_of_mem _ hx))
          simp only [notifW, List.map_cons, List.filterMap_cons] at this ⊢
          simp [hq w (by simp), this]
      have h2 : dget? es key = none := dget?_none_of_not_mem_keys hk.1
      simp [h1, h2, dget?]
    · have h1 : notifW k (q.map fun w => Out.writeFail w.tag w.id w.addr) = [] := by
        clear ih ih' hid
        induction q with
        | nil => rfl
        | cons w ws ihq =>
          have := ihq (fun x hx => hq x (List.mem_cons_of_mem _ hx))
          simp only [notifW, List.map_cons, List.filterMap_cons] at this ⊢
          have : ¬ w.id = k := by rw [hq w (by simp)]; exact hkk
          simp_all
      have hb : (key == k) = false := by simpa using hkk
      simp [h1, dget?, hb]

theorem notifR_failAll (d : List (Nat × RReq)) (hk : (dkeys d).Nodup)
    (hid : ∀ key r, (key, r) ∈ d → r.id = key) (k : Nat) :
    notifR k (d.map fun e => Out.readFail e.2.tag e.2.id e.2.addr e.2.data) =
      (match dget? d k with | some r => [r.tag] | none => []) := by
  induction d with
  | nil => rfl
  | cons e es ih =>
    obtain ⟨key, r⟩ := e
    simp only [dkeys, List.map_cons, List.nodup_cons] at hk
    have ih' := ih hk.2 (fun key' r' h => hid key' r' (List.mem_cons_of_mem _ h))
    have hr : r.id = key := hid key r (by simp)
    by_cases hkk : key = k
    · subst hkk
      have h2 : dget? es key = none := dget?_none_of_not_mem_keys hk.1
      simp only [List.map_cons, notifR, List.filterMap_cons, hr, ↓reduceIte] at ih' ⊢
      simp [ih', h2, dget?]
    · have hb : (key == k) = false := by simpa using hkk
      have hne : ¬ r.id = k := by rw [hr]; exact hkk
      simp only [List.map_cons, notifR, List.filterMap_cons, hne, ↓reduceIte, dget?, hb] at ih' ⊢
      exact ih'

theorem notifW_readFails (d : List (Nat × RReq)) (k : Nat) :
    notifW k (d.map fun e => Out.readFail e.2.tag e.2.id e.2.addr e.2.data) = [] := by
  induction d with
  | nil => rfl
  | cons e es ih => simpa [notifW] using ih

theorem notifR_writeFails (l : List WReq) (k : Nat) :
    notifR k (l.map fun w => Out.writeFail w.tag w.id w.addr) = [] := by
  induction l with
  | nil => rfl
  | cons w ws ih => simpa [notifR] using ih

/-- the disconnect handler fails every recorded request exactly once and leaves no record -/
theorem disconnected_effect {s : St} (hs : s.Ok) {r : Step} (hr : disconnected s = r) :
    r.st = St.init ∧ r.res = .ret none ∧ (∀ k, notifR k r.outs = s.readTags k) ∧
    (∀ k, notifW k r.outs = s.queueTags k) := by
  unfold disconnected at hr
  simp only [hs.lock, Bool.false_eq_true, ↓reduceIte] at hr
  subst hr
  refine ⟨rfl, rfl, ?_, ?_⟩
  · intro k
    rw [notifR_append, notifR_writeFails, List.append_nil,
      notifR_failAll s.reads hs.rkeys (fun key r h => (hs.reads key r (dget?_of_mem hs.rkeys h)).1)]
    rfl
  · intro k
    rw [notifW_append, notifW_readFails, List.nil_append,
      notifW_failAll s.writes hs.wkeys (fun key q h w hw => (hs.writes key q (dget?_of_mem hs.wkeys h) w hw).1)]
    rfl


/-! ### one event -/

/-- the write tags an event adds to the queue of memory `k` (after the optional flush) -/
def Ev.queueAfter (e : Ev) (k : Nat) (q : List Nat) : List Nat :=
  match e with
  | .write tag i _ _ flush _ => if i = k then (if flush then q.take 1 else q) ++ [tag] else q
  | _ => q

/-- the read tag an event adds to the record of memory `k`, given how the call ended -/
def Ev.readAdded (e : Ev) (k : Nat) (res : Res) : List Nat :=
  match e with
  | .read tag i _ _ => if i = k ∧ res = .ret (some true) then [tag] else []
  | _ => []

/-- the event changed the records of no memory except by moving requests from the records to the notifications -/
def Step.Conserves (s : St) (r : Step) : Prop :=
  r.st.Ok ∧ (∀ k, notifW k r.outs ++ r.st.queueTags k = s.queueTags k) ∧
  (∀ k, notifR k r.outs ++ r.st.readTags k = s.readTags k)

theorem conserves_quiet {s : St} (hs : s.Ok) (res : Res) : (⟨s, [], res⟩ : Step).Conserves s :=
  ⟨hs, fun _ => rfl, fun _ => rfl⟩

theorem onWriteReply_conserves {s : St} (hs : s.Ok) (id addr status : Nat) :
    (onWriteReply Variant.fixed s id addr status).Conserves s := by
  obtain ⟨h1, h2, _, h4, h5⟩ := onWriteReply_effect hs id addr status rfl
  refine ⟨h1, h5, ?_⟩
  intro k
  rw [h4, List.nil_append]
  exact St.readTags_congr (by rw [h2])

theorem onReadReply_conserves {s : St} (hs : s.Ok) (id addr status : Nat) (data : List UInt8) :
    (onReadReply s id addr status data).Conserves s := by
  obtain ⟨h1, h2, _, h4, h5⟩ := onReadReply_effect hs id addr status data rfl
  refine ⟨h1, ?_, h5⟩
  intro k
  rw [h4, List.nil_append]
  exact St.queueTags_congr (by rw [h2])

/-- ANY received packet (any channel, any bytes): the records are conserved, nothing blocks -/
theorem newPacketCb_conserves {s : St} (hs : s.Ok) (chan : Nat) (data : List UInt8) :
    (newPacketCb Variant.fixed s chan data).Conserves s := by
  unfold newPacketCb
  split
  · exact conserves_quiet hs _
  · split
    · unfold handleChanWrite
      split
      · exact conserves_quiet hs _
      · exact onWriteReply_conserves hs _ _ _
      · exact conserves_quiet hs _
    · split
      · unfold handleChanRead
        split
        · exact conserves_quiet hs _
        · exact onReadReply_conserves hs _ _ _ _
        · exact conserves_quiet hs _
      · exact conserves_quiet hs _

/-- the effect of one event of the repaired code on the records and notifications of every memory `k` -/
theorem step_effect {s : St} (hs : s.Ok) {e : Ev} (he : e.WF) :
    (step Variant.fixed s e).st.Ok ∧
    (∀ k, notifW k (step Variant.fixed s e).outs ++ (step Variant.fixed s e).st.queueTags k =
        e.queueAfter k (s.queueTags k)) ∧
    (∀ k, notifR k (step Variant.fixed s e).outs ++ (step Variant.fixed s e).st.readTags k =
        s.readTags k ++ e.readAdded k (step Variant.fixed s e).res) := by
  cases e with
  | read tag i addr len =>
    obtain ⟨h1, h2, h3, h4, h5⟩ := memRead_effect hs he (r := memRead s tag i addr len) rfl
    refine ⟨h1, ?_, ?_⟩
    · intro k
      simp only [step, Ev.queueAfter]
      rw [notifW_of_not_note k h2, List.nil_append]
      exact St.queueTags_congr (by rw [h3])
    · intro k
      simp only [step, Ev.readAdded]
      rw [notifR_of_not_note k h2, List.nil_append]
      by_cases hk : i = k
      · subst hk
        rcases h5 with ⟨_, hres, hst⟩ | ⟨hno, hres, htags, _⟩
        · simp [hres, hst]
        · have : s.readTags i = [] := by
            apply St.readTags_of_none
            rw [dhas_eq_isSome] at hno
            cases hg : dget? s.reads i <;> simp_all
          simp [hres, htags, this]
      · rw [St.readTags_congr (h4 k (fun h => hk h.symm))]
        simp [hk]
  | write tag i addr data flush p =>
    obtain ⟨h1, h2, h3, h4, h5, h6⟩ := memWrite_effect hs he
    refine ⟨h1, ?_, ?_⟩
    · intro k
      simp only [step, Ev.queueAfter]
      rw [notifW_of_not_note k h3, List.nil_append]
      by_cases hk : i = k
      · subst hk; simp only [↓reduceIte]; exact h5
      · simp only [hk, ↓reduceIte, St.queueTags]; rw [h6 k (fun h => hk h.symm)]
    · intro k
      simp only [step, Ev.readAdded, List.append_nil]
      rw [notifR_of_not_note k h3, List.nil_append]
      exact St.readTags_congr (by rw [h4])
  | pkt chan data =>
    obtain ⟨h1, h2, h3⟩ := newPacketCb_conserves hs chan data
    exact ⟨h1, fun k => by simpa [step, Ev.queueAfter] using h2 k, fun k => by simpa [step, Ev.readAdded] using h3 k⟩
  | disconnect =>
    obtain ⟨h1, _, h3, h4⟩ := disconnected_effect hs (r := disconnected s) rfl
    refine ⟨by simp only [step]; rw [h1]; exact St.init_ok, ?_, ?_⟩
    · intro k
      simp only [step, Ev.queueAfter]
      rw [h4, h1]; simp [St.queueTags, St.queue_def, St.init, dget?]
    · intro k
      simp only [step, Ev.readAdded, List.append_nil]
      rw [h3, h1]; simp [St.readTags, St.init, dget?]


/-! ### whole histories -/

/-- tags of the write requests on memory `id`, in the order they were issued -/
def accW (id : Nat) (evs : List Ev) : List Nat :=
  evs.filterMap fun
    | .write t i _ _ _ _ => if i = id then some t else none
    | _ => none

/-- tags of the read requests on memory `id` that `Memory.read` accepted (returned True), in order -/
def accR (v : Variant) : St → List Ev → Nat → List Nat
  | _, [], _ => []
  | s, e :: es, id => e.readAdded id (step v s e).res ++ accR v (step v s e).st es id

/-- the history contains a `write(..., flush_queue=True)` on memory `id` -/
def hasFlush (id : Nat) (evs : List Ev) : Prop :=
  ∃ tag addr data p, Ev.write tag id addr data true p ∈ evs

theorem run_cons (v : Variant) (s : St) (e : Ev) (es : List Ev) :
    run v s (e :: es) = ((run v (step v s e).st es).1, (step v s e).outs ++ (run v (step v s e).st es).2) := rfl

theorem run_append (v : Variant) (s : St) (a b : List Ev) :
    run v s (a ++ b) = ((run v (run v s a).1 b).1, (run v s a).2 ++ (run v (run v s a).1 b).2) := by
  induction a generalizing s with
  | nil => simp [run]
  | cons e es ih => simp only [List.cons_append, run_cons, ih, List.append_assoc]

theorem run_ok {s : St} (hs : s.Ok) {evs : List Ev} (hwf : ∀ e ∈ evs, e.WF) : (run Variant.fixed s evs).1.Ok := by
  induction evs generalizing s with
  | nil => exact hs
  | cons e es ih =>
    rw [run_cons]
    exact ih (step_effect hs (hwf e (by simp))).1 (fun x hx => hwf x (List.mem_cons_of_mem _ hx))

/-- reads: notified ++ still recorded = recorded at the start ++ accepted since, in order, exactly -/
theorem run_reads {s : St} (hs : s.Ok) {evs : List Ev} (hwf : ∀ e ∈ evs, e.WF) (id : Nat) :
    notifR id (run Variant.fixed s evs).2 ++ (run Variant.fixed s evs).1.readTags id =
      s.readTags id ++ accR Variant.fixed s evs id := by
  induction evs generalizing s with
  | nil => simp [run, accR, notifR]
  | cons e es ih =>
    obtain ⟨h1, _, h3⟩ := step_effect hs (hwf e (by simp))
    rw [run_cons]
    simp only [notifR_append, List.append_assoc, accR]
    rw [ih h1 (fun x hx => hwf x (List.mem_cons_of_mem _ hx)), ← List.append_assoc, h3 id, List.append_assoc]

theorem queueAfter_sublist (e : Ev) (k : Nat) (q : List Nat) : (e.queueAfter k q).Sublist (q ++ accW k [e]) := by
  cases e with
  | write tag i addr data flush p =>
    simp only [Ev.queueAfter, accW, List.filterMap_cons, List.filterMap_nil]
    by_cases hk : i = k
    · simp only [hk, ↓reduceIte]
      cases flush
      · simp
      · exact List.Sublist.append (List.take_sublist 1 q) (List.Sublist.refl _)
    · simp [hk]
  | read _ _ _ _ => simp [Ev.queueAfter, accW]
  | pkt _ _ => simp [Ev.queueAfter, accW]
  | disconnect => simp [Ev.queueAfter, accW]

theorem accW_cons (id : Nat) (e : Ev) (es : List Ev) : accW id (e :: es) = accW id [e] ++ accW id es := by
  simp only [accW, List.filterMap_cons, List.filterMap_nil]
  split <;> simp

/-- writes: notified ++ still queued is a subsequence of (queued at the start ++ issued since): same order, no
duplicates, nothing from elsewhere -/
theorem run_writes_sublist {s : St} (hs : s.Ok) {evs : List Ev} (hwf : ∀ e ∈ evs, e.WF) (id : Nat) :
    (notifW id (run Variant.fixed s evs).2 ++ (run Variant.fixed s evs).1.queueTags id).Sublist
      (s.queueTags id ++ accW id evs) := by
  induction evs generalizing s with
  | nil => simp [run, accW, notifW]
  | cons e es ih =>
    obtain ⟨h1, h2, _⟩ := step_effect hs (hwf e (by simp))
    rw [run_cons]
    simp only [notifW_append, List.append_assoc]
    have ih' := ih h1 (fun x hx => hwf x (List.mem_cons_of_mem _ hx))
    have := List.Sublist.append (List.Sublist.refl (notifW id (step Variant.fixed s e).outs)) ih'
    rw [← List.append_assoc (notifW id (step Variant.fixed s e).outs) ((step Variant.fixed s e).st.queueTags id), h2 id] at this
    refine this.trans ?_
    rw [accW_cons, ← List.append_assoc]
    exact List.Sublist.append (queueAfter_sublist e id _) (List.Sublist.refl _)

theorem mem_queueAfter {e : Ev} {k : Nat} {q : List Nat} {t : Nat} (ht : t ∈ q) :
    t ∈ e.queueAfter k q ∨ hasFlush k [e] := by
  cases e with
  | write tag i addr data flush p =>
    simp only [Ev.queueAfter]
    by_cases hk : i = k
    · subst hk
      cases flush
      · left; simp [ht]
      · right; exact ⟨tag, addr, data, p, by simp⟩
    · left; simp [hk, ht]
  | read _ _ _ _ => left; exact ht
  | pkt _ _ => left; exact ht
  | disconnect => left; exact ht

/-- writes: a queued request disappears only by being notified - or by an explicit `flush_queue` -/
theorem run_writes_lost {s : St} (hs : s.Ok) {evs : List Ev} (hwf : ∀ e ∈ evs, e.WF) (id t : Nat)
    (ht : t ∈ s.queueTags id) :
    t ∈ notifW id (run Variant.fixed s evs).2 ∨ t ∈ (run Variant.fixed s evs).1.queueTags id ∨ hasFlush id evs := by
  induction evs generalizing s with
  | nil => right; left; exact ht
  | cons e es ih =>
    obtain ⟨h1, h2, _⟩ := step_effect hs (hwf e (by simp))
    rw [run_cons]
    simp only [notifW_append, List.mem_append]
    rcases mem_queueAfter (e := e) (k := id) ht with h | ⟨tag, addr, data, p, h⟩
    · rw [← h2 id] at h
      rcases List.mem_append.1 h with h | h
      · left; left; exact h
      · rcases ih h1 (fun x hx => hwf x (List.mem_cons_of_mem _ hx)) h with h | h | ⟨tag, addr, data, p, h⟩
        · left; right; exact h
        · right; left; exact h
        · right; right; exact ⟨tag, addr, data, p, List.mem_cons_of_mem _ h⟩
    · right; right
      simp at h; subst h
      exact ⟨tag, addr, data, p, by simp⟩


/-- the tag of a request event -/
def Ev.tag? : Ev → Option Nat
  | .read t _ _ _ => some t
  | .write t _ _ _ _ _ => some t
  | _ => none

theorem accW_sublist_tags (id : Nat) (evs : List Ev) : (accW id evs).Sublist (evs.filterMap Ev.tag?) := by
  induction evs with
  | nil => exact List.Sublist.refl _
  | cons e es ih =>
    rw [accW_cons]
    cases e with
    | write t i a d f p =>
      have h2 : (Ev.write t i a d f p :: es).filterMap Ev.tag? = t :: es.filterMap Ev.tag? := rfl
      rw [h2]
      by_cases hi : i = id
      · have h1 : accW id [Ev.write t i a d f p] = [t] := by simp [accW, hi]
        rw [h1]; exact List.Sublist.cons₂ _ ih
      · have h1 : accW id [Ev.write t i a d f p] = [] := by simp [accW, hi]
        rw [h1]; exact List.Sublist.cons _ ih
    | read t i a l =>
      have h2 : (Ev.read t i a l :: es).filterMap Ev.tag? = t :: es.filterMap Ev.tag? := rfl
      rw [h2]; exact List.Sublist.cons _ ih
    | pkt c d =>
      have h2 : (Ev.pkt c d :: es).filterMap Ev.tag? = es.filterMap Ev.tag? := rfl
      rw [h2]; exact ih
    | disconnect =>
      have h2 : (Ev.disconnect :: es).filterMap Ev.tag? = es.filterMap Ev.tag? := rfl
      rw [h2]; exact ih

end CfVerif.C06

/- Proofs/C06Sys — frame lemmas (an event about memory k leaves every other memory alone) and the device /
network side of the closed system. -/
import CfVerif.Proofs.C06Safety
import CfVerif.Spec.C06
namespace CfVerif.C06
open CfVerif

/-! ### frame: what an event about memory `k` can touch -/

/-- the memory an event is about (`none`: an empty packet - ignored - or the disconnect, which concerns all) -/
def Ev.about? : Ev → Option Nat
  | .read _ i _ _ => some i
  | .write _ i _ _ _ _ => some i
  | .pkt _ (cmd :: _) => some cmd.toNat
  | .pkt _ [] => none
  | .disconnect => none

/-- the step left the records of every memory other than `k` untouched and all its outputs concern `k` -/
def Step.Frame (s : St) (k : Nat) (r : Step) : Prop :=
  (∀ j, j ≠ k → dget? r.st.reads j = dget? s.reads j ∧ dget? r.st.writes j = dget? s.writes j) ∧
  (∀ o ∈ r.outs, o.About k)

theorem frame_quiet (s : St) (k : Nat) (res : Res) : (⟨s, [], res⟩ : Step).Frame s k :=
  ⟨fun _ _ => ⟨rfl, rfl⟩, by simp⟩

theorem dget?_ensureQueue_other (ws : List (Nat × List WReq)) {i j : Nat} (h : j ≠ i) :
    dget? (ensureQueue ws i) j = dget? ws j := by
  unfold ensureQueue; split
  · rfl
  · exact dget?_dset_other _ _ h

theorem memRead_frame (s : St) {tag i addr len : Nat} (he : (Ev.read tag i addr len).WF) :
    (memRead s tag i addr len).Frame s i := by
  rw [memRead_eq s he]
  split
  · exact frame_quiet s i _
  · exact ⟨fun j hj => ⟨dget?_dset_other _ _ hj, rfl⟩, by simpa using about_readSend he.1 addr len⟩

theorem memWrite_frame {s : St} (hs : s.Ok) {tag i addr : Nat} {data : List UInt8} {flush p : Bool}
    (he : (Ev.write tag i addr data flush p).WF) :
    (memWrite Variant.fixed s tag i addr data flush p).Frame s i := by
  have hw := WReq.new_ok he
  simp only [memWrite, Variant.fixed, hs.lock, Bool.false_eq_true, ↓reduceIte, memWriteLocked]
  have hwid : (WReq.new tag i addr data p).id = i := rfl
  rw [hwid]
  split
  · rw [writeNewChunk_ok _ (hw.1 ▸ hw.2.1) hw.2.2.1]
    refine ⟨fun j hj => ⟨rfl, ?_⟩, ?_⟩
    · show dget? (dset (ensureQueue s.writes i) i _) j = _
      rw [dget?_dset_other _ _ hj, dget?_ensureQueue_other _ hj]
    · have := about_writeSend he.1 addr data; simpa [hwid, WReq.new] using this
  · refine ⟨fun j hj => ⟨rfl, ?_⟩, by simp⟩
    show dget? (dset (ensureQueue s.writes i) i _) j = _
    rw [dget?_dset_other _ _ hj, dget?_ensureQueue_other _ hj]

/-- exact result of a parsed read reply when a well-formed request `rq` is recorded for `id` -/
theorem onReadReply_eq {s : St} {id : Nat} {rq : RReq} (hget : dget? s.reads id = some rq) (hok : rq.Ok id)
    (addr status : Nat) (data : List UInt8) :
    onReadReply s id addr status data =
      if status = 0 then
        if addr ≠ rq.cur then ⟨{ s with reads := dset s.reads id rq }, [], .ret none⟩
        else if rq.left > data.length then
          ⟨{ s with reads := dset s.reads id (rq.plus data) },
            [.send Gen.C06.chanRead (readReqBytes id (rq.cur + data.length) (rdLen (rq.left - data.length)))], .ret none⟩
        else ⟨{ s with reads := derase s.reads id }, [.readOk rq.tag id rq.addr (rq.data ++ data)], .ret none⟩
      else ⟨{ s with reads := derase s.reads id }, [.readFail rq.tag id rq.addr rq.data], .ret none⟩ := by
  unfold onReadReply
  rw [hget]
  simp only
  by_cases hst : status = 0
  · simp only [hst, ↓reduceIte]
    by_cases h1 : addr ≠ rq.cur
    · have hd : addData rq addr data = (rq, [], .ok none) := by rw [addData_eq hok, if_pos h1]
      rw [hd, if_pos h1]
    · by_cases hl : rq.left > data.length
      · have hd : addData rq addr data = (rq.plus data, [.send Gen.C06.chanRead
            (readReqBytes id (rq.cur + data.length) (rdLen (rq.left - data.length)))], .ok (some false)) := by
          rw [addData_eq hok, if_neg h1, if_pos hl]
        rw [hd, if_neg h1, if_pos hl]
      · have hd : addData rq addr data = (rq.plus data, [], .ok (some true)) := by
          rw [addData_eq hok, if_neg h1, if_neg hl]
        rw [hd, if_neg h1, if_neg hl]
        simp [RReq.plus, hok.1]
  · simp only [hst, ↓reduceIte, hok.1]

theorem onReadReply_frame {s : St} (hs : s.Ok) (id addr status : Nat) (data : List UInt8) :
    (onReadReply s id addr status data).Frame s id := by
  cases hget : dget? s.reads id with
  | none => unfold onReadReply; rw [hget]; exact frame_quiet s id _
  | some rq =>
    have hok := hs.reads id rq hget
    rw [onReadReply_eq hget hok]
    have hset : ∀ (r' : RReq) j, j ≠ id → dget? (dset s.reads id r') j = dget? s.reads j :=
      fun r' j hj => dget?_dset_other _ _ hj
    have hera : ∀ j, j ≠ id → dget? (derase s.reads id) j = dget? s.reads j := fun j hj => dget?_derase_other _ hj
    split
    · split
      · exact ⟨fun j hj => ⟨hset _ j hj, rfl⟩, by simp⟩
      · split
        · exact ⟨fun j hj => ⟨hset _ j hj, rfl⟩, by simpa using about_readSend hok.2.1 _ _⟩
        · exact ⟨fun j hj => ⟨hera j hj, rfl⟩, by simp [Out.About]⟩
    · exact ⟨fun j hj => ⟨hera j hj, rfl⟩, by simp [Out.About]⟩

theorem onWriteReply_frame {s : St} (hs : s.Ok) (id addr status : Nat) :
    (onWriteReply Variant.fixed s id addr status).Frame s id := by
  unfold onWriteReply
  simp only [Variant.fixed, Bool.not_true, Bool.false_and, Bool.false_eq_true, ↓reduceIte, hs.lock]
  split
  · exact frame_quiet s id _
  · split
    · exact frame_quiet s id _
    · rename_i w rest hq
      obtain ⟨hqok, hqtl⟩ := St.queue_ok hs id
      rw [hq] at hqok hqtl
      obtain ⟨q', outs, cbs, hh, hn, _, _, hcase⟩ :=
        handleWriteHead_fixed (hqok w (by simp)) (fun x hx => hqok x (List.mem_cons_of_mem _ hx))
          (fun x hx => hqtl x (by simpa using hx)) addr status
      have hh' : handleWriteHead ⟨true, true, true, true, true, true⟩ w rest addr status = (q', outs, .ok cbs) := hh
      rw [hh']
      refine ⟨fun j hj => ⟨rfl, dget?_dset_other _ _ hj⟩, ?_⟩
      intro o ho
      rcases List.mem_append.1 ho with ho | ho
      · exact (hn o ho).2
      · rcases hcase with ⟨_, rfl⟩ | ⟨_, rfl | rfl⟩
        · cases ho
        · simp at ho; subst ho; rfl
        · simp at ho; subst ho; rfl

/-- an event about memory `k` leaves every other memory's records untouched; everything it sends or notifies
concerns `k` -/
theorem step_frame {s : St} (hs : s.Ok) {e : Ev} (he : e.WF) {k : Nat} (hk : e.about? = some k) :
    (step Variant.fixed s e).Frame s k := by
  cases e with
  | read tag i addr len => cases hk; exact memRead_frame s he
  | write tag i addr data flush p => cases hk; exact memWrite_frame hs he
  | pkt chan data =>
    cases data with
    | nil => cases hk
    | cons cmd payload =>
      simp only [Ev.about?, Option.some.injEq] at hk
      subst hk
      simp only [step, newPacketCb]
      split
      · unfold handleChanWrite
        split
        · exact frame_quiet s _ _
        · exact onWriteReply_frame hs _ _ _
        · exact frame_quiet s _ _
      · split
        · unfold handleChanRead
          split
          · exact frame_quiet s _ _
          · exact onReadReply_frame hs _ _ _ _
          · exact frame_quiet s _ _
        · exact frame_quiet s _ _
  | disconnect => cases hk


/-! ### Gen obligations tying the library's constants to the protocol (Spec) -/

theorem gen_chanRead : Gen.C06.chanRead = specChanRead := by decide
theorem gen_chanWrite : Gen.C06.chanWrite = specChanWrite := by decide
theorem gen_readMax_le : Gen.C06.readMax ≤ readLimit := by decide
theorem gen_writeMax_le : Gen.C06.writeMax ≤ writeLimit := by decide
theorem gen_readMax_pos : 0 < Gen.C06.readMax := by decide
theorem gen_writeMax_pos : 0 < Gen.C06.writeMax := by decide

/-! ### the device -/

theorem ofNat_toNat_ne {b : UInt8} {id : Nat} (h : b ≠ UInt8.ofNat id) : b.toNat ≠ id := by
  intro h'; apply h; rw [← h']; simp

theorem getElem?_set_ne' {d : Device} {i id : Nat} (h : i ≠ id) (x : Image) : (d.set i x)[id]? = d[id]? := by
  simp [List.getElem?_set, h]

/-- a packet whose first byte is not `id` leaves memory `id` alone, and its answers carry that first byte -/
theorem devHandle_frame (d : Device) (f : UInt8) (c : Nat) (pkt : List UInt8) {b : UInt8} {id : Nat}
    (hb : pkt.head? = some b) (hne : b ≠ UInt8.ofNat id) :
    (devHandle d f c pkt).1[id]? = d[id]? ∧ ∀ p ∈ (devHandle d f c pkt).2, p.1 = c ∧ p.2.head? = some b := by
  unfold devHandle
  split
  · split
    · rename_i i a0 a1 a2 a3 n
      simp only [List.head?_cons, Option.some.injEq] at hb; subst hb
      split <;> simp
    · simp
  · split
    · split
      · rename_i i a0 a1 a2 a3 body
        simp only [List.head?_cons, Option.some.injEq] at hb; subst hb
        split
        · simp
        · refine ⟨?_, by simp⟩
          simp only [devWrite]
          split
          · rfl
          · split
            · rfl
            · split
              · rfl
              · exact getElem?_set_ne' (ofNat_toNat_ne hne) _
      · simp
    · simp

/-- a read request never changes the device -/
theorem devHandle_read_dev (d : Device) (f : UInt8) (pkt : List UInt8) :
    (devHandle d f specChanRead pkt).1 = d := by
  unfold devHandle
  simp only [↓reduceIte]
  split
  · split <;> rfl
  · rfl

theorem leVal_leBytes4 {a : Nat} (h : a < 2 ^ 32) : leVal (leBytes 4 a) = a :=
  leVal_leBytes_of_lt (by omega)

/-- the answer to a well-formed read request -/
theorem devHandle_readReq (d : Device) (f : UInt8) {id a n : Nat} (hid : id < 256) (ha : a < 2 ^ 32) (hn : n < 256) :
    devHandle d f specChanRead (readReqBytes id a n) =
      (d, [(specChanRead, headBytes id a ++
        (if f ≠ 0 then [f] else (devRead d id a n).1 :: (devRead d id a n).2))]) := by
  obtain ⟨a0, a1, a2, a3, h4⟩ := leBytes4 a
  have hv : leVal [a0, a1, a2, a3] = a := by rw [← h4]; exact leVal_leBytes4 ha
  have hb : readReqBytes id a n = [UInt8.ofNat id, a0, a1, a2, a3, UInt8.ofNat n] := by
    simp [readReqBytes, leBytes1, h4, Nat.mod_eq_of_lt hid, Nat.mod_eq_of_lt hn]
  have hh : headBytes id a = [UInt8.ofNat id, a0, a1, a2, a3] := by
    simp [headBytes, leBytes1, h4, Nat.mod_eq_of_lt hid]
  rw [hb, hh]
  unfold devHandle
  simp only [↓reduceIte]
  have h1 : (UInt8.ofNat id).toNat = id := by simp [Nat.mod_eq_of_lt hid]
  have h2 : (UInt8.ofNat n).toNat = n := by simp [Nat.mod_eq_of_lt hn]
  split
  · simp
  · simp [hv, h1, h2]

/-! ### the network -/

theorem mem_purge {net : List Packet} {outs : List Out} {p : Packet} :
    p ∈ purge net outs ↔ p ∈ net ∧ ∀ o ∈ outs, o.finishes p = false := by
  simp [purge]

theorem purge_of_no_notes (net : List Packet) {outs : List Out} (h : ∀ o ∈ outs, o.isNote = false) :
    purge net outs = net := by
  unfold purge
  apply List.filter_eq_self.2
  intro p _
  simp only [Bool.not_eq_eq_eq_not, Bool.not_true, List.any_eq_false]
  intro o ho
  have := h o ho
  cases o <;> simp_all [Out.isNote, Out.finishes]

/-- feeding outputs that contain no packet changes nothing -/
theorem feed_no_sends (dev : Device) (faults : List UInt8) (net : List Packet) {outs : List Out}
    (h : ∀ o ∈ outs, ∀ c d, o ≠ .send c d) : feed dev faults net outs = (dev, faults, net) := by
  induction outs generalizing dev faults net with
  | nil => rfl
  | cons o os ih =>
    have ho := h o (by simp)
    have := fun dev faults net => ih dev faults net (fun x hx => h x (List.mem_cons_of_mem _ hx))
    cases o with
    | send c d => exact absurd rfl (ho c d)
    | _ => simp only [feed]; exact this dev faults net

/-- outputs that all concern memory `k ≠ id`: memory `id` of the device is untouched and every new reply in flight
starts with byte `k` -/
theorem feed_frame {k id : Nat} (hk : k < 256) (hid : id < 256) (hne : k ≠ id) (dev : Device) (faults : List UInt8)
    (net : List Packet) {outs : List Out} (h : ∀ o ∈ outs, o.About k) :
    (feed dev faults net outs).1[id]? = dev[id]? ∧
    ∃ extra, (feed dev faults net outs).2.2 = net ++ extra ∧ ∀ p ∈ extra, p.2.head? = some (UInt8.ofNat k) := by
  have hb : UInt8.ofNat k ≠ UInt8.ofNat id := by
    intro h'
    have := congrArg UInt8.toNat h'
    simp [Nat.mod_eq_of_lt hk, Nat.mod_eq_of_lt hid] at this
    exact hne this
  induction outs generalizing dev faults net with
  | nil => exact ⟨rfl, [], by simp [feed], by simp⟩
  | cons o os ih =>
    have ho := h o (by simp)
    have ih' := fun dev faults net => ih dev faults net (fun x hx => h x (List.mem_cons_of_mem _ hx))
    cases o with
    | send c d =>
      simp only [feed]
      obtain ⟨h1, h2⟩ := devHandle_frame dev (faults.headD 0) c d ho.1 hb
      obtain ⟨h3, extra, h4, h5⟩ := ih' (devHandle dev (faults.headD 0) c d).1 faults.tail
        (net ++ (devHandle dev (faults.headD 0) c d).2)
      refine ⟨h3.trans h1, (devHandle dev (faults.headD 0) c d).2 ++ extra, by rw [h4, List.append_assoc], ?_⟩
      intro p hp
      rcases List.mem_append.1 hp with hp | hp
      · exact (h2 p hp).2
      · exact h5 p hp
    | _ => simp only [feed]; exact ih' dev faults net


/-! ### the library's part of a closed-system run is a run of the library on some history -/

def Act.WF : Act → Prop
  | .read t i a l => (Ev.read t i a l).WF
  | .write t i a d f p => (Ev.write t i a d f p).WF
  | _ => True

/-- the tag of a request action -/
def Act.tag? : Act → Option Nat
  | .read t _ _ _ => some t
  | .write t _ _ _ _ _ => some t
  | _ => none

/-- tags of the write requests on memory `id`, in the order they were issued -/
def accWActs (id : Nat) (acts : List Act) : List Nat :=
  acts.filterMap fun
    | .write t i _ _ _ _ => if i = id then some t else none
    | _ => none

theorem toEv_wf {a : Act} (ha : a.WF) {net : List Packet} {ev : Ev} (h : a.toEv net = some ev) : ev.WF := by
  cases a with
  | read t i ad l => cases h; exact ha
  | write t i ad d f p => cases h; exact ha
  | deliver i k =>
    simp only [Act.toEv, Option.map_eq_some_iff] at h
    obtain ⟨p, _, rfl⟩ := h; trivial
  | inject c d => cases h; trivial
  | drop => cases h; trivial

theorem toEv_accW {a : Act} {net : List Packet} {ev : Ev} (h : a.toEv net = some ev) (id : Nat) :
    accW id [ev] = accWActs id [a] ∧ [ev].filterMap Ev.tag? = [a].filterMap Act.tag? := by
  cases a with
  | read t i ad l => cases h; exact ⟨rfl, rfl⟩
  | write t i ad d f p => cases h; exact ⟨rfl, rfl⟩
  | deliver i k =>
    simp only [Act.toEv, Option.map_eq_some_iff] at h
    obtain ⟨p, _, rfl⟩ := h; exact ⟨rfl, rfl⟩
  | inject c d => cases h; exact ⟨rfl, rfl⟩
  | drop => cases h; exact ⟨rfl, rfl⟩

theorem toEv_none_accW {a : Act} {net : List Packet} (h : a.toEv net = none) (id : Nat) :
    accWActs id [a] = [] ∧ [a].filterMap Act.tag? = [] := by
  cases a with
  | deliver i k => exact ⟨rfl, rfl⟩
  | _ => cases h

theorem accWActs_cons (id : Nat) (a : Act) (as : List Act) : accWActs id (a :: as) = accWActs id [a] ++ accWActs id as := by
  simp only [accWActs, List.filterMap_cons, List.filterMap_nil]
  split <;> simp

theorem runSys_cons (v : Variant) (y : Sys) (a : Act) (as : List Act) :
    runSys v y (a :: as) = runSys v (stepSys v y a) as := rfl

/-- projection: there is a history of calls into `Memory` with the same requests, in the same order, of which the
library state and the outputs of the closed-system run are the result -/
theorem runSys_project (y : Sys) (acts : List Act) (hwf : ∀ a ∈ acts, a.WF) :
    ∃ evs, (∀ e ∈ evs, e.WF) ∧ (runSys Variant.fixed y acts).host = (run Variant.fixed y.host evs).1 ∧
      (runSys Variant.fixed y acts).outs = y.outs ++ (run Variant.fixed y.host evs).2 ∧
      (∀ id, accW id evs = accWActs id acts) ∧ evs.filterMap Ev.tag? = acts.filterMap Act.tag? := by
  induction acts generalizing y with
  | nil => exact ⟨[], by simp, rfl, by simp [runSys, run], fun _ => rfl, rfl⟩
  | cons a as ih =>
    rw [runSys_cons]
    obtain ⟨evs, h1, h2, h3, h4, h5⟩ := ih (stepSys Variant.fixed y a) (fun x hx => hwf x (List.mem_cons_of_mem _ hx))
    cases hev : a.toEv y.net with
    | none =>
      have hy : stepSys Variant.fixed y a = y := by simp [stepSys, hev]
      rw [hy] at h2 h3
      refine ⟨evs, h1, by rw [hy]; exact h2, by rw [hy]; exact h3, fun id => ?_, ?_⟩
      · rw [accWActs_cons, (toEv_none_accW hev id).1, List.nil_append]; exact h4 id
      · have : (a :: as).filterMap Act.tag? = [a].filterMap Act.tag? ++ as.filterMap Act.tag? := by
          rw [← List.filterMap_append]; rfl
        rw [this, (toEv_none_accW hev 0).2, List.nil_append]; exact h5
    | some ev =>
      have hh : (stepSys Variant.fixed y a).host = (step Variant.fixed y.host ev).st := by simp [stepSys, hev]
      have ho : (stepSys Variant.fixed y a).outs = y.outs ++ (step Variant.fixed y.host ev).outs := by simp [stepSys, hev]
      refine ⟨ev :: evs, ?_, ?_, ?_, fun id => ?_, ?_⟩
      · intro e he
        rcases List.mem_cons.1 he with rfl | he
        · exact toEv_wf (hwf a (by simp)) hev
        · exact h1 e he
      · rw [h2, hh, run_cons]
      · rw [h3, hh, ho, run_cons, List.append_assoc]
      · rw [accW_cons, accWActs_cons, (toEv_accW hev id).1, h4 id]
      · have e1 : (ev :: evs).filterMap Ev.tag? = [ev].filterMap Ev.tag? ++ evs.filterMap Ev.tag? := by
          rw [← List.filterMap_append]; rfl
        have e2 : (a :: as).filterMap Act.tag? = [a].filterMap Act.tag? ++ as.filterMap Act.tag? := by
          rw [← List.filterMap_append]; rfl
        rw [e1, e2, (toEv_accW hev 0).2, h5]


/-! ### every packet handed to the link respects the limits -/

def Out.Fits : Out → Prop
  | .send c d => d.length ≤ Gen.C06.maxDataSize ∧
      (c = Gen.C06.chanWrite → d.length ≤ 5 + Gen.C06.writeMax) ∧
      (c = Gen.C06.chanRead → d.length = 6 ∧ ∀ n, d[5]? = some n → n.toNat ≤ Gen.C06.readMax) ∧
      (c = Gen.C06.chanRead ∨ c = Gen.C06.chanWrite)
  | _ => True

theorem step_fits {s : St} (hs : s.Ok) {e : Ev} (he : e.WF) : ∀ o ∈ (step Variant.fixed s e).outs, o.Fits := by
  intro o ho
  cases hk : e.about? with
  | some k =>
    have := (step_frame hs he hk).2 o ho
    cases o with
    | send c d => exact this.2
    | _ => trivial
  | none =>
    cases e with
    | read _ _ _ _ => cases hk
    | write _ _ _ _ _ _ => cases hk
    | pkt c d =>
      cases d with
      | nil => simp [step, newPacketCb] at ho
      | cons _ _ => cases hk
    | disconnect =>
      obtain ⟨_, _, _, _⟩ := disconnected_effect hs (r := disconnected s) rfl
      simp only [step, disconnected, hs.lock, Bool.false_eq_true, ↓reduceIte] at ho
      rcases List.mem_append.1 ho with ho | ho
      · obtain ⟨x, _, rfl⟩ := List.mem_map.1 ho; trivial
      · obtain ⟨x, _, rfl⟩ := List.mem_map.1 ho; trivial

theorem run_fits {s : St} (hs : s.Ok) {evs : List Ev} (hwf : ∀ e ∈ evs, e.WF) :
    ∀ o ∈ (run Variant.fixed s evs).2, o.Fits := by
  induction evs generalizing s with
  | nil => intro o ho; cases ho
  | cons e es ih =>
    intro o ho
    rw [run_cons] at ho
    rcases List.mem_append.1 ho with ho | ho
    · exact step_fits hs (hwf e (by simp)) o ho
    · exact ih (step_effect hs (hwf e (by simp))).1 (fun x hx => hwf x (List.mem_cons_of_mem _ hx)) o ho

end CfVerif.C06

/- Proofs/C06Write — write_exact / writes_in_order: the invariant of the closed system for one memory. -/
import CfVerif.Proofs.C06Read
namespace CfVerif.C06
open CfVerif

/-! ### exact results of the write path (repaired code, well-formed requests) -/

theorem memWrite_eq {s : St} (hs : s.Ok) {tag i addr : Nat} {data : List UInt8} {flush p : Bool}
    (he : (Ev.write tag i addr data flush p).WF) :
    memWrite Variant.fixed s tag i addr data flush p =
      match (if flush then (s.queue i).take 1 else s.queue i) with
      | [] => ⟨{ s with writes := dset (ensureQueue s.writes i) i [(WReq.new tag i addr data p).afterChunk], lock := false },
               [.send Gen.C06.chanWrite (headBytes i addr ++ data.take (wrLen data.length))], .ret (some true)⟩
      | h :: t => ⟨{ s with writes := dset (ensureQueue s.writes i) i (h :: t ++ [WReq.new tag i addr data p]), lock := false },
                   [], .ret (some true)⟩ := by
  have hw := WReq.new_ok he
  simp only [memWrite, Variant.fixed, hs.lock, Bool.false_eq_true, ↓reduceIte, memWriteLocked]
  have hq0 : (dget? (ensureQueue s.writes (WReq.new tag i addr data p).id) (WReq.new tag i addr data p).id).getD [] = s.queue i := by
    show (dget? (ensureQueue s.writes i) i).getD [] = _
    rw [queue_ensureQueue]; rfl
  rw [hq0]
  have hwid : (WReq.new tag i addr data p).id = i := rfl
  rw [hwid]
  split
  · rename_i hq
    rw [hq, writeNewChunk_ok _ (hw.1 ▸ hw.2.1) hw.2.2.1]
    rfl
  · rename_i h t hq
    rw [hq]

theorem startNext_eq {q : List WReq} {id : Nat} (h : ∀ w ∈ q, w.Ok id) :
    startNext q = match q with
      | [] => ([], .ok [])
      | n :: t => (n.afterChunk :: t, .ok [.send Gen.C06.chanWrite (headBytes id n.cur ++ n.rest.take (wrLen n.rest.length))]) := by
  cases q with
  | nil => rfl
  | cons n t =>
    have hn := h n (by simp)
    simp only [startNext]
    rw [writeNewChunk_ok _ (hn.1 ▸ hn.2.1) hn.2.2.1, hn.1]

/-- the head request after the progress callback: only `prog` may differ -/
def WReq.sameBut (w w1 : WReq) : Prop :=
  w1.tag = w.tag ∧ w1.id = w.id ∧ w1.addr = w.addr ∧ w1.cur = w.cur ∧ w1.addrAdd = w.addrAdd ∧ w1.rest = w.rest ∧
  w1.left = w.left ∧ w1.writeLen = w.writeLen

def Out.isProgress : Out → Bool
  | .progress _ _ => true
  | _ => false

theorem progressStep_fixed' (w : WReq) :
    ∃ w1 po, progressStep Variant.fixed w = (w1, po, .ok ()) ∧ w.sameBut w1 ∧ ∀ o ∈ po, o.isProgress = true := by
  unfold progressStep
  split
  · exact ⟨w, [], rfl, ⟨rfl, rfl, rfl, rfl, rfl, rfl, rfl, rfl⟩, by simp⟩
  · split
    · exact ⟨w, [], by simp [Variant.fixed], ⟨rfl, rfl, rfl, rfl, rfl, rfl, rfl, rfl⟩, by simp⟩
    · dsimp only
      split
      · exact ⟨_, _, rfl, ⟨rfl, rfl, rfl, rfl, rfl, rfl, rfl, rfl⟩, by simp [Out.isProgress]⟩
      · exact ⟨w, [], rfl, ⟨rfl, rfl, rfl, rfl, rfl, rfl, rfl, rfl⟩, by simp⟩

/-- exact result of `write_done` at the expected address -/
theorem writeDone_at {w : WReq} {id : Nat} (h : w.Ok id) :
    ∃ w1 po, w.sameBut w1 ∧ (∀ o ∈ po, o.isProgress = true) ∧
      writeDone Variant.fixed w w.cur =
        if w.rest.length > 0 then
          (({ w1 with cur := w1.cur + w1.addrAdd } : WReq).afterChunk,
            po ++ [.send Gen.C06.chanWrite (headBytes id (w.cur + w.addrAdd) ++ w.rest.take (wrLen w.rest.length))],
            .ok (some false))
        else (w1, po, .ok (some true)) := by
  obtain ⟨w1, po, hp, hsame, hpo⟩ := progressStep_fixed' w
  refine ⟨w1, po, hsame, hpo, ?_⟩
  obtain ⟨ht, hi, ha, hc, haa, hr, hl, hwl⟩ := hsame
  unfold writeDone
  rw [if_neg (by simp), hp]
  simp only [hr]
  split
  · rename_i hrest
    have h1 : w1.Ok id := ⟨hi.trans h.1, h.2.1, hc ▸ h.2.2.1, by rw [hc, haa, hr]; exact h.2.2.2⟩
    obtain ⟨hadv, _⟩ := WReq.advance_ok h1 (by rw [hr]; exact hrest)
    rw [writeNewChunk_ok _ (by show w1.id < 256; rw [h1.1]; exact h1.2.1) hadv]
    simp only [hr, hc, haa, h1.1]
  · rfl

theorem writeDone_off {w : WReq} {addr : Nat} (h : addr ≠ w.cur) :
    writeDone Variant.fixed w addr = (w, [], .ok none) := by
  unfold writeDone; rw [if_pos h]


theorem dhas_of_queue {s : St} {id : Nat} {w : WReq} {rest : List WReq} (hq : s.queue id = w :: rest) :
    dhas s.writes id = true := by
  rw [dhas_eq_isSome]
  rw [St.queue_def] at hq
  cases h : dget? s.writes id with
  | none => rw [h] at hq; cases hq
  | some q => rfl

/-- what starting the next request produces -/
def nextStarted (id : Nat) (rest : List WReq) : List WReq × List Out :=
  match rest with
  | [] => ([], [])
  | n :: t => (n.afterChunk :: t,
      [.send Gen.C06.chanWrite (headBytes id n.cur ++ n.rest.take (wrLen n.rest.length))])

theorem startNext_eq' {q : List WReq} {id : Nat} (h : ∀ w ∈ q, w.Ok id) :
    startNext q = ((nextStarted id q).1, .ok (nextStarted id q).2) := by
  rw [startNext_eq h]; cases q <;> rfl

theorem onWriteReply_unfold {s : St} (hs : s.Ok) {id : Nat} {w : WReq} {rest : List WReq}
    (hq : s.queue id = w :: rest) (addr status : Nat) :
    onWriteReply Variant.fixed s id addr status =
      match handleWriteHead Variant.fixed w rest addr status with
      | (q', outs, .error e) => ⟨{ s with writes := dset s.writes id q', lock := false }, outs, .raised e⟩
      | (q', outs, .ok cbs) => ⟨{ s with writes := dset s.writes id q', lock := false }, outs ++ cbs, .ret none⟩ := by
  unfold onWriteReply
  simp only [Variant.fixed, Bool.not_true, Bool.false_and, Bool.false_eq_true, ↓reduceIte, hs.lock,
    dhas_of_queue hq, Bool.not_true, hq]
  rfl

/-- error status: the head fails, the next request is started -/
theorem onWriteReply_err {s : St} (hs : s.Ok) {id : Nat} {w : WReq} {rest : List WReq}
    (hq : s.queue id = w :: rest) (addr : Nat) {status : Nat} (hst : status ≠ 0) :
    onWriteReply Variant.fixed s id addr status =
      ⟨{ s with writes := dset s.writes id (nextStarted id rest).1, lock := false },
        (nextStarted id rest).2 ++ [.writeFail w.tag w.id w.addr], .ret none⟩ := by
  obtain ⟨hqok, _⟩ := St.queue_ok hs id
  rw [hq] at hqok
  rw [onWriteReply_unfold hs hq]
  unfold handleWriteHead
  rw [if_neg hst, startNext_eq' (fun x hx => hqok x (List.mem_cons_of_mem _ hx))]

/-- acknowledgement for another address: ignored -/
theorem onWriteReply_ignored {s : St} (hs : s.Ok) {id : Nat} {w : WReq} {rest : List WReq}
    (hq : s.queue id = w :: rest) {addr : Nat} (ha : addr ≠ w.cur) :
    onWriteReply Variant.fixed s id addr 0 =
      ⟨{ s with writes := dset s.writes id (w :: rest), lock := false }, [], .ret none⟩ := by
  rw [onWriteReply_unfold hs hq]
  unfold handleWriteHead
  rw [if_pos rfl, writeDone_off ha]
  simp

/-- acknowledgement of the outstanding chunk -/
theorem onWriteReply_ack {s : St} (hs : s.Ok) {id : Nat} {w : WReq} {rest : List WReq}
    (hq : s.queue id = w :: rest) :
    ∃ w1 po, w.sameBut w1 ∧ (∀ o ∈ po, o.isProgress = true) ∧
      onWriteReply Variant.fixed s id w.cur 0 =
        if w.rest.length > 0 then
          ⟨{ s with writes := dset s.writes id ((({ w1 with cur := w1.cur + w1.addrAdd } : WReq).afterChunk) :: rest),
                     lock := false },
            po ++ [.send Gen.C06.chanWrite (headBytes id (w.cur + w.addrAdd) ++ w.rest.take (wrLen w.rest.length))],
            .ret none⟩
        else
          ⟨{ s with writes := dset s.writes id (nextStarted id rest).1, lock := false },
            po ++ (nextStarted id rest).2 ++ [.writeOk w.tag id w.addr], .ret none⟩ := by
  obtain ⟨hqok, _⟩ := St.queue_ok hs id
  rw [hq] at hqok
  have hw := hqok w (by simp)
  obtain ⟨w1, po, hsame, hpo, hd⟩ := writeDone_at hw
  refine ⟨w1, po, hsame, hpo, ?_⟩
  rw [onWriteReply_unfold hs hq]
  unfold handleWriteHead
  rw [if_pos rfl, hd]
  by_cases hr : w.rest.length > 0
  · rw [if_pos hr, if_pos hr]
    simp
  · rw [if_neg hr, if_neg hr]
    simp only
    rw [startNext_eq' (fun x hx => hqok x (List.mem_cons_of_mem _ hx))]
    simp [hsame.1, hsame.2.1, hsame.2.2.1, hw.1]


/-! ### the device side of a write -/

/-- the answer to a well-formed write request -/
theorem devHandle_writeReq (d : Device) (f : UInt8) {id a : Nat} (hid : id < 256) (ha : a < 2 ^ 32) (body : List UInt8) :
    devHandle d f specChanWrite (headBytes id a ++ body) =
      if f ≠ 0 then (d, [(specChanWrite, headBytes id a ++ [f])])
      else ((devWrite d id a body).1, [(specChanWrite, headBytes id a ++ [(devWrite d id a body).2])]) := by
  obtain ⟨a0, a1, a2, a3, hh, h4⟩ := headBytes_eq (a := a) hid
  have hv : leVal [a0, a1, a2, a3] = a := by rw [← h4]; exact leVal_leBytes4 ha
  rw [hh]
  unfold devHandle
  have h1 : (UInt8.ofNat id).toNat = id := by simp [Nat.mod_eq_of_lt hid]
  simp only [specChanWrite, specChanRead, List.cons_append, List.nil_append, Nat.reduceEqDiff, ↓reduceIte]
  split <;> simp [hv, h1]

/-- the port callback on a well-formed write acknowledgement `id addr32 status` -/
theorem newPacketCb_writeAck (s : St) {id a : Nat} (hid : id < 256) (ha : a < 2 ^ 32) (st : UInt8) :
    newPacketCb Variant.fixed s specChanWrite (headBytes id a ++ [st]) = onWriteReply Variant.fixed s id a st.toNat := by
  obtain ⟨a0, a1, a2, a3, hh, h4⟩ := headBytes_eq (a := a) hid
  have hv : leVal [a0, a1, a2, a3] = a := by rw [← h4]; exact leVal_leBytes4 ha
  rw [hh]
  simp only [newPacketCb, List.cons_append, List.nil_append]
  rw [if_pos gen_chanWrite.symm]
  unfold handleChanWrite
  have : (a0 :: a1 :: a2 :: a3 :: [st]).take 5 = [a0, a1, a2, a3, st] := by simp
  rw [this, fmt_ack, unpack_IB]
  simp [hv, Nat.mod_eq_of_lt hid]

theorem overwrite_nil (m : Image) (a : Nat) : overwrite m a [] = m := by
  simp [overwrite]

theorem overwrite_length {m : Image} {a : Nat} {b : List UInt8} (h : a + b.length ≤ m.length) :
    (overwrite m a b).length = m.length := by
  simp only [overwrite, List.length_append, List.length_take, List.length_drop]; omega

/-- writing `y` right behind `x` is writing `x ++ y` -/
theorem overwrite_extend {m : Image} {a : Nat} {x y : List UInt8} (h : a + x.length + y.length ≤ m.length) :
    overwrite (overwrite m a x) (a + x.length) y = overwrite m a (x ++ y) := by
  simp only [overwrite, List.length_append]
  have h1 : (m.take a).length = a := by simp; omega
  have e1 : (m.take a ++ x ++ m.drop (a + x.length)).take (a + x.length) = m.take a ++ x := by
    rw [List.take_append_of_le_length (by simp [h1])]
    apply List.take_of_length_le; simp [h1]
  have e2 : (m.take a ++ x ++ m.drop (a + x.length)).drop (a + x.length + y.length) =
      m.drop (a + (x.length + y.length)) := by
    have : a + x.length + y.length = (m.take a ++ x).length + y.length := by simp [h1]
    rw [this, List.drop_append]
    simp only [List.length_append, h1, List.drop_drop]
    rw [List.drop_of_length_le (by simp [h1]), List.nil_append]
    congr 1; omega
  rw [e1, e2]; simp [List.append_assoc]

theorem devWrite_ok {d : Device} {id a : Nat} {m : Image} (hd : d[id]? = some m) {body : List UInt8}
    (hb : body.length ≤ writeLimit) (hin : a + body.length ≤ m.length) :
    devWrite d id a body = (d.set id (overwrite m a body), 0) := by
  unfold devWrite; rw [hd]; simp only
  rw [if_neg (by omega), if_neg (by omega)]

theorem devWrite_img {d : Device} {id a : Nat} {m : Image} (hd : d[id]? = some m) (body : List UInt8) :
    ((devWrite d id a body).2 = 0 ∧ (devWrite d id a body).1[id]? = some (overwrite m a body) ∧
      a + body.length ≤ m.length) ∨
    ((devWrite d id a body).2 ≠ 0 ∧ (devWrite d id a body).1 = d) := by
  unfold devWrite; rw [hd]; simp only
  split
  · right; simp [statusTooBig]
  · split
    · right; simp [statusNoEnt]
    · left
      refine ⟨rfl, ?_, by omega⟩
      have : id < d.length := by
        rcases Nat.lt_or_ge id d.length with h | h
        · exact h
        · rw [List.getElem?_eq_none h] at hd; cases hd
      simp [List.getElem?_set, this]


/-! ### the read side never touches the write side -/

/-- the output belongs to the read path: a read request packet or a read notification -/
def Out.ReadSide : Out → Prop
  | .send c _ => c = Gen.C06.chanRead
  | .readOk .. | .readFail .. => True
  | _ => False

theorem memRead_readSide (s : St) {tag i addr len : Nat} (he : (Ev.read tag i addr len).WF) :
    (memRead s tag i addr len).st.writes = s.writes ∧ ∀ o ∈ (memRead s tag i addr len).outs, o.ReadSide := by
  rw [memRead_eq s he]
  split
  · exact ⟨rfl, by simp⟩
  · exact ⟨rfl, by simp [Out.ReadSide]⟩

theorem onReadReply_readSide {s : St} (hs : s.Ok) (id addr status : Nat) (data : List UInt8) :
    (onReadReply s id addr status data).st.writes = s.writes ∧
    ∀ o ∈ (onReadReply s id addr status data).outs, o.ReadSide := by
  cases hget : dget? s.reads id with
  | none => unfold onReadReply; rw [hget]; exact ⟨rfl, by simp⟩
  | some rq =>
    rw [onReadReply_eq hget (hs.reads id rq hget)]
    split
    · split
      · exact ⟨rfl, by simp⟩
      · split
        · exact ⟨rfl, by simp [Out.ReadSide]⟩
        · exact ⟨rfl, by simp [Out.ReadSide]⟩
    · exact ⟨rfl, by simp [Out.ReadSide]⟩

theorem handleChanRead_readSide {s : St} (hs : s.Ok) (cmd : Nat) (payload : List UInt8) :
    (handleChanRead s cmd payload).st.writes = s.writes ∧ ∀ o ∈ (handleChanRead s cmd payload).outs, o.ReadSide := by
  unfold handleChanRead
  split
  · exact ⟨rfl, by simp⟩
  · exact onReadReply_readSide hs _ _ _ _
  · exact ⟨rfl, by simp⟩

/-- tags, addresses and outcome of the write notifications of memory `id`, in order -/
def notesW (id : Nat) (outs : List Out) : List (Nat × Nat × Bool) :=
  outs.filterMap fun
    | .writeOk t i a => if i = id then some (t, a, true) else none
    | .writeFail t i a => if i = id then some (t, a, false) else none
    | _ => none

theorem notesW_append (id : Nat) (a b : List Out) : notesW id (a ++ b) = notesW id a ++ notesW id b := by
  simp [notesW, List.filterMap_append]

theorem notesW_readSide (id : Nat) {outs : List Out} (h : ∀ o ∈ outs, o.ReadSide) : notesW id outs = [] := by
  induction outs with
  | nil => rfl
  | cons o os ih =>
    have ho := h o (by simp)
    have := ih (fun x hx => h x (List.mem_cons_of_mem _ hx))
    cases o <;> simp_all [notesW, Out.ReadSide]

theorem notesW_about {k id : Nat} (hne : k ≠ id) {outs : List Out} (h : ∀ o ∈ outs, o.About k) : notesW id outs = [] := by
  induction outs with
  | nil => rfl
  | cons o os ih =>
    have ho := h o (by simp)
    have := ih (fun x hx => h x (List.mem_cons_of_mem _ hx))
    cases o <;> simp_all [notesW, Out.About]

def IsWriteAckFor (id : Nat) (p : Packet) : Prop := p.1 = specChanWrite ∧ p.2.head? = some (UInt8.ofNat id)

theorem purge_readSide {net : List Packet} {outs : List Out} (h : ∀ o ∈ outs, o.ReadSide) {p : Packet}
    (hp : p ∈ net) (hc : p.1 = specChanWrite) : p ∈ purge net outs := by
  refine mem_purge.2 ⟨hp, fun o ho => ?_⟩
  have := h o ho
  cases o <;> simp_all [Out.ReadSide, Out.finishes, specChanRead, specChanWrite]

/-- feeding read-side outputs: the device is unchanged and every new reply in flight is on the read channel -/
theorem feed_readSide (dev : Device) (faults : List UInt8) (net : List Packet) {outs : List Out}
    (h : ∀ o ∈ outs, o.ReadSide) :
    (feed dev faults net outs).1 = dev ∧
    ∃ extra, (feed dev faults net outs).2.2 = net ++ extra ∧ ∀ p ∈ extra, p.1 = specChanRead := by
  induction outs generalizing faults net with
  | nil => exact ⟨rfl, [], by simp [feed], by simp⟩
  | cons o os ih =>
    have ho := h o (by simp)
    have ih' := fun faults net => ih faults net (fun x hx => h x (List.mem_cons_of_mem _ hx))
    cases o with
    | send c d =>
      simp only [Out.ReadSide] at ho
      subst ho
      simp only [feed]
      rw [gen_chanRead, devHandle_read_dev]
      obtain ⟨h3, extra, h4, h5⟩ := ih' faults.tail (net ++ (devHandle dev (faults.headD 0) specChanRead d).2)
      refine ⟨h3, (devHandle dev (faults.headD 0) specChanRead d).2 ++ extra, by rw [h4, List.append_assoc], ?_⟩
      intro p hp
      rcases List.mem_append.1 hp with hp | hp
      · unfold devHandle at hp
        simp only [↓reduceIte] at hp
        split at hp
        · split at hp <;> simp at hp <;> rw [hp]
        · cases hp
      · exact h5 p hp
    | readOk _ _ _ _ => simp only [feed]; exact ih' faults net
    | readFail _ _ _ _ => simp only [feed]; exact ih' faults net
    | writeOk _ _ _ => exact absurd ho (by simp [Out.ReadSide])
    | writeFail _ _ _ => exact absurd ho (by simp [Out.ReadSide])
    | progress _ _ => exact absurd ho (by simp [Out.ReadSide])


/-! ### the invariant -/

/-- one write request of memory `id` that has been started: `kb` bytes of `data` (a prefix) are stored in the
device; `ok`: it was notified with success -/
structure Entry where
  tag : Nat
  addr : Nat
  data : List UInt8
  kb : Nat
  ok : Bool

def Entry.note (e : Entry) : Nat × Nat × Bool := (e.tag, e.addr, e.ok)

/-- the image after the started requests, in order -/
def applyEntries (m0 : Image) (S : List Entry) : Image :=
  S.foldl (fun m e => overwrite m e.addr (e.data.take e.kb)) m0

theorem applyEntries_snoc (m0 : Image) (S : List Entry) (e : Entry) :
    applyEntries m0 (S ++ [e]) = overwrite (applyEntries m0 S) e.addr (e.data.take e.kb) := by
  simp [applyEntries, List.foldl_append]

def Issued (id : Nat) (pre : List Act) (e : Entry) : Prop :=
  ∃ f p, Act.write e.tag id e.addr e.data f p ∈ pre

def Unstarted (id : Nat) (pre : List Act) (x : WReq) : Prop :=
  ∃ tag addr data f p, Act.write tag id addr data f p ∈ pre ∧ (Ev.write tag id addr data f p).WF ∧
    x = WReq.new tag id addr data p

/-- bytes of the request handed to the link so far -/
def sentBytes (w : WReq) : Nat := w.cur - w.addr + w.addrAdd

/-- the head of the queue of memory `id` and its ghost entry `e` (`base`: the image before this request) -/
structure HeadRel (id : Nat) (base : Image) (w : WReq) (e : Entry) (net : List Packet) : Prop where
  tag : w.tag = e.tag
  addr : w.addr = e.addr
  ok : e.ok = false
  aligned : ∃ j, w.cur = w.addr + j * Gen.C06.writeMax
  inside : w.cur - w.addr ≤ e.data.length
  chunk : w.addrAdd = wrLen (e.data.length - (w.cur - w.addr))
  rest : w.rest = e.data.drop (sentBytes w)
  kb : e.kb = w.cur - w.addr ∨ e.kb = sentBytes w
  range : e.kb = 0 ∨ e.addr + e.kb ≤ base.length
  acks : ∀ p ∈ net, IsWriteAckFor id p → ∃ a st, p.2 = headBytes id a ++ [st] ∧ a < 2 ^ 32 ∧
    (st ≠ 0 ∨ a < w.cur ∨ (a = w.cur ∧ e.kb = sentBytes w))

def WHead (id : Nat) (m0 : Image) (pre : List Act) (y : Sys) (S0 : List Entry) : Prop :=
  match y.host.queue id with
  | [] => y.dev[id]? = some (applyEntries m0 S0) ∧ ∀ p ∈ y.net, ¬ IsWriteAckFor id p
  | w :: rest => ∃ e, Issued id pre e ∧ y.dev[id]? = some (applyEntries m0 (S0 ++ [e])) ∧
      HeadRel id (applyEntries m0 S0) w e y.net ∧ ∀ x ∈ rest, Unstarted id pre x

def EntriesOk (id : Nat) (pre : List Act) (S0 : List Entry) : Prop :=
  ∀ e ∈ S0, Issued id pre e ∧ e.kb ≤ e.data.length ∧ (e.ok = true → e.kb = e.data.length)

structure WInv (id : Nat) (m0 : Image) (pre : List Act) (y : Sys) : Prop where
  host : y.host.Ok
  ex : ∃ S0 : List Entry, S0.map Entry.note = notesW id y.outs ∧ EntriesOk id pre S0 ∧ WHead id m0 pre y S0

theorem Issued.mono {id : Nat} {pre : List Act} {e : Entry} (h : Issued id pre e) (a : Act) : Issued id (pre ++ [a]) e := by
  obtain ⟨f, p, h⟩ := h; exact ⟨f, p, by simp [h]⟩
theorem Unstarted.mono {id : Nat} {pre : List Act} {x : WReq} (h : Unstarted id pre x) (a : Act) :
    Unstarted id (pre ++ [a]) x := by
  obtain ⟨t, ad, d, f, p, h, hx⟩ := h; exact ⟨t, ad, d, f, p, by simp [h], hx⟩
theorem EntriesOk.mono {id : Nat} {pre : List Act} {S0 : List Entry} (h : EntriesOk id pre S0) (a : Act) :
    EntriesOk id (pre ++ [a]) S0 := fun e he => ⟨(h e he).1.mono a, (h e he).2⟩

/-- the part of the invariant about the head is stable under: same queue, same image, fewer packets plus packets
that are no write acknowledgements for `id` -/
theorem WHead.transfer {id : Nat} {m0 : Image} {pre : List Act} {y y' : Sys} {S0 : List Entry} (a : Act)
    (h : WHead id m0 pre y S0) (hq : y'.host.queue id = y.host.queue id) (hd : y'.dev[id]? = y.dev[id]?)
    (hn : ∀ p ∈ y'.net, IsWriteAckFor id p → p ∈ y.net) : WHead id m0 (pre ++ [a]) y' S0 := by
  unfold WHead at *
  rw [hq, hd]
  split at h
  · exact ⟨h.1, fun p hp hack => h.2 p (hn p hp hack) hack⟩
  · obtain ⟨e, h1, h2, h3, h4⟩ := h
    refine ⟨e, h1.mono a, h2, ⟨h3.tag, h3.addr, h3.ok, h3.aligned, h3.inside, h3.chunk, h3.rest, h3.kb, h3.range, ?_⟩,
      fun x hx => (h4 x hx).mono a⟩
    intro p hp hack
    exact h3.acks p (hn p hp hack) hack

theorem queue_congr {s s' : St} {id : Nat} (h : dget? s'.writes id = dget? s.writes id) : s'.queue id = s.queue id := by
  simp [St.queue_def, h]

/-- an event about another memory -/
theorem WInv.step_other {id : Nat} (hid : id < 256) {m0 : Image} {pre : List Act} {y : Sys}
    (h : WInv id m0 pre y) {a : Act} {ev : Ev} (hev : a.toEv y.net = some ev) (hwf : ev.WF) {k : Nat}
    (hk : ev.about? = some k) (hk256 : k < 256) (hne : k ≠ id) :
    WInv id m0 (pre ++ [a]) (stepSys Variant.fixed y a) := by
  obtain ⟨hfr, hab⟩ := step_frame h.host hwf hk
  obtain ⟨hok, _, _⟩ := step_effect h.host hwf
  obtain ⟨S0, hS, hE, hH⟩ := h.ex
  rw [stepSys_of hev rfl]
  obtain ⟨hdev, extra, hnet, hextra⟩ := feed_frame hk256 hid hne y.dev y.faults
    (purge (a.netBefore y.net) (step Variant.fixed y.host ev).outs) hab
  refine ⟨hok, S0, ?_, hE.mono a, ?_⟩
  · rw [notesW_append, notesW_about hne hab, List.append_nil]; exact hS
  · refine hH.transfer a (queue_congr (hfr id (Ne.symm hne)).2) hdev ?_
    intro p hp hack
    simp only at hp
    rw [hnet] at hp
    rcases List.mem_append.1 hp with hp | hp
    · exact netBefore_subset a _ p (mem_purge.1 hp).1
    · have := hextra p hp
      rw [hack.2] at this
      exact absurd (Option.some.inj this).symm (byte_ne hk256 hid hne)

/-- an event of the read path (a read request, a read reply), for any memory -/
theorem WInv.step_readSide {id : Nat} {m0 : Image} {pre : List Act} {y : Sys}
    (h : WInv id m0 pre y) {a : Act} {ev : Ev} (hev : a.toEv y.net = some ev) (hwf : ev.WF)
    (hw : (step Variant.fixed y.host ev).st.writes = y.host.writes)
    (hrs : ∀ o ∈ (step Variant.fixed y.host ev).outs, o.ReadSide) :
    WInv id m0 (pre ++ [a]) (stepSys Variant.fixed y a) := by
  obtain ⟨hok, _, _⟩ := step_effect h.host hwf
  obtain ⟨S0, hS, hE, hH⟩ := h.ex
  rw [stepSys_of hev rfl]
  obtain ⟨hdev, extra, hnet, hextra⟩ := feed_readSide y.dev y.faults
    (purge (a.netBefore y.net) (step Variant.fixed y.host ev).outs) hrs
  refine ⟨hok, S0, ?_, hE.mono a, ?_⟩
  · rw [notesW_append, notesW_readSide id hrs, List.append_nil]; exact hS
  · refine hH.transfer a (queue_congr (by rw [hw])) (by rw [hdev]) ?_
    intro p hp hack
    simp only at hp
    rw [hnet] at hp
    rcases List.mem_append.1 hp with hp | hp
    · exact netBefore_subset a _ p (mem_purge.1 hp).1
    · have := hextra p hp
      rw [hack.1] at this
      exact absurd this (by decide)

/-- nothing changed, nothing produced -/
theorem WInv.step_quiet {id : Nat} {m0 : Image} {pre : List Act} {y : Sys} (h : WInv id m0 pre y)
    {a : Act} {ev : Ev} (hev : a.toEv y.net = some ev) {res : Res}
    (hr : step Variant.fixed y.host ev = ⟨y.host, [], res⟩) :
    WInv id m0 (pre ++ [a]) (stepSys Variant.fixed y a) := by
  obtain ⟨S0, hS, hE, hH⟩ := h.ex
  rw [stepSys_of hev hr]
  simp only [purge_nil, feed, List.append_nil]
  exact ⟨h.host, S0, hS, hE.mono a, hH.transfer a rfl rfl (fun p hp _ => netBefore_subset a _ p hp)⟩


theorem notesW_of_not_note (id : Nat) {outs : List Out} (h : ∀ o ∈ outs, o.isNote = false) : notesW id outs = [] := by
  induction outs with
  | nil => rfl
  | cons o os ih =>
    have ho := h o (by simp)
    have := ih (fun x hx => h x (List.mem_cons_of_mem _ hx))
    cases o <;> simp_all [notesW, Out.isNote]

/-- the ghost entry and head relation of a request whose first chunk was just handed to the device -/
theorem HeadRel.start {id : Nat} (hid : id < 256) {base : Image} {dev : Device} (hdev : dev[id]? = some base)
    (f : UInt8) {tag addr : Nat} {data : List UInt8} {p : Bool} (haddr : addr < 2 ^ 32) (w : WReq)
    (hw : w = (WReq.new tag id addr data p).afterChunk) :
    ∃ e : Entry, e.tag = tag ∧ e.addr = addr ∧ e.data = data ∧ e.kb ≤ data.length ∧
      (devHandle dev f specChanWrite (headBytes id addr ++ data.take (wrLen data.length))).1[id]? =
        some (overwrite base e.addr (e.data.take e.kb)) ∧
      HeadRel id base w e (devHandle dev f specChanWrite (headBytes id addr ++ data.take (wrLen data.length))).2 := by
  have hn := wrLen_le' data.length
  have hbl : (data.take (wrLen data.length)).length = wrLen data.length := by simp [List.length_take]; omega
  have hrel : ∀ (kb : Nat) (net : List Packet), (kb = 0 ∨ kb = wrLen data.length) → (kb = 0 ∨ addr + kb ≤ base.length) →
      (∀ q ∈ net, IsWriteAckFor id q → ∃ a st, q.2 = headBytes id a ++ [st] ∧ a < 2 ^ 32 ∧
        (st ≠ 0 ∨ a < addr ∨ (a = addr ∧ kb = wrLen data.length))) →
      HeadRel id base w ⟨tag, addr, data, kb, false⟩ net := by
    intro kb net hkb hr hacks
    subst hw
    refine ⟨rfl, rfl, rfl, ⟨0, by simp [WReq.afterChunk, WReq.new]⟩, by simp [WReq.afterChunk, WReq.new],
      by simp [WReq.afterChunk, WReq.new], by simp [WReq.afterChunk, WReq.new, sentBytes], ?_, hr, ?_⟩
    · rcases hkb with h | h
      · left; simp [h, WReq.afterChunk, WReq.new]
      · right; simp [h, WReq.afterChunk, WReq.new, sentBytes]
    · intro q hq hack
      obtain ⟨a, st, h1, h2, h3⟩ := hacks q hq hack
      exact ⟨a, st, h1, h2, by simpa [WReq.afterChunk, WReq.new, sentBytes] using h3⟩
  rw [devHandle_writeReq _ _ hid haddr]
  by_cases hf : f ≠ 0
  · rw [if_pos hf]
    refine ⟨⟨tag, addr, data, 0, false⟩, rfl, rfl, rfl, by simp, by simp [overwrite_nil, hdev], ?_⟩
    refine hrel 0 _ (Or.inl rfl) (Or.inl rfl) ?_
    intro q hq _
    simp only [List.mem_singleton] at hq; subst hq
    exact ⟨addr, f, rfl, haddr, Or.inl hf⟩
  · rw [if_neg hf]
    rcases devWrite_img hdev (a := addr) (data.take (wrLen data.length)) with ⟨h0, himg, hin⟩ | ⟨h0, hsame⟩
    · refine ⟨⟨tag, addr, data, wrLen data.length, false⟩, rfl, rfl, rfl, hn, by simpa using himg, ?_⟩
      refine hrel _ _ (Or.inr rfl) (Or.inr (by rw [hbl] at hin; exact hin)) ?_
      intro q hq _
      simp only [List.mem_singleton] at hq; subst hq
      exact ⟨addr, _, rfl, haddr, Or.inr (Or.inr ⟨rfl, rfl⟩)⟩
    · refine ⟨⟨tag, addr, data, 0, false⟩, rfl, rfl, rfl, by simp, by simp [overwrite_nil, hsame, hdev], ?_⟩
      refine hrel 0 _ (Or.inl rfl) (Or.inl rfl) ?_
      intro q hq _
      simp only [List.mem_singleton] at hq; subst hq
      exact ⟨addr, _, rfl, haddr, Or.inl h0⟩


theorem HeadRel.weaken_net {id : Nat} {base : Image} {w : WReq} {e : Entry} {net net' : List Packet}
    (h : HeadRel id base w e net) (hn : ∀ p ∈ net', IsWriteAckFor id p → p ∈ net) : HeadRel id base w e net' :=
  ⟨h.tag, h.addr, h.ok, h.aligned, h.inside, h.chunk, h.rest, h.kb, h.range,
    fun p hp hack => h.acks p (hn p hp hack) hack⟩

/-- a write request on memory `id` -/
theorem WInv.step_write {id : Nat} (hid : id < 256) {m0 : Image} {pre : List Act} {y : Sys}
    (h : WInv id m0 pre y) {tag addr : Nat} {data : List UInt8} {flush p : Bool}
    (hwf : (Ev.write tag id addr data flush p).WF) :
    WInv id m0 (pre ++ [.write tag id addr data flush p]) (stepSys Variant.fixed y (.write tag id addr data flush p)) := by
  have hev : (Act.write tag id addr data flush p).toEv y.net = some (.write tag id addr data flush p) := rfl
  have hstep : step Variant.fixed y.host (.write tag id addr data flush p) =
      memWrite Variant.fixed y.host tag id addr data flush p := rfl
  obtain ⟨hok, _, _⟩ := step_effect h.host (e := .write tag id addr data flush p) hwf
  obtain ⟨S0, hS, hE, hH⟩ := h.ex
  have hissued : ∀ e : Entry, e.tag = tag → e.addr = addr → e.data = data →
      Issued id (pre ++ [.write tag id addr data flush p]) e := by
    intro e h1 h2 h3; exact ⟨flush, p, by simp [h1, h2, h3]⟩
  rw [memWrite_eq h.host hwf] at hstep
  unfold WHead at hH
  cases hq : y.host.queue id with
  | nil =>
    rw [hq] at hH hstep
    have hq' : (if flush = true then List.take 1 ([] : List WReq) else []) = [] := by split <;> rfl
    rw [hq'] at hstep
    simp only at hstep
    have hok' := hok; rw [hstep] at hok'
    rw [stepSys_of hev hstep]
    have hnn : ∀ o ∈ [Out.send Gen.C06.chanWrite (headBytes id addr ++ data.take (wrLen data.length))],
        o.isNote = false := by simp [Out.isNote]
    simp only [purge_of_no_notes _ hnn, feed_single, Act.netBefore]
    rw [gen_chanWrite]
    obtain ⟨e, he1, he2, he3, he4, he5, he6⟩ := HeadRel.start hid hH.1 (y.faults.headD 0) hwf.2.1
      ((WReq.new tag id addr data p).afterChunk) rfl
    refine ⟨hok', S0, ?_, hE.mono _, ?_⟩
    · have e0 : notesW id [Out.send specChanWrite (headBytes id addr ++ data.take (wrLen data.length))] = [] := by
        simp [notesW]
      rw [notesW_append, e0, List.append_nil]; exact hS
    · unfold WHead
      have hq2 : ∀ (rs : List (Nat × RReq)) (q : List WReq),
          ({ reads := rs, writes := dset (ensureQueue y.host.writes id) id q, lock := false } : St).queue id = q := by
        intro rs q; simp [St.queue_def, dget?_dset_same]
      rw [hq2]
      refine ⟨e, hissued e he1 he2 he3, by rw [applyEntries_snoc]; exact he5, ?_, by simp⟩
      refine ⟨he6.tag, he6.addr, he6.ok, he6.aligned, he6.inside, he6.chunk, he6.rest, he6.kb, he6.range, ?_⟩
      intro q hq hack
      rcases List.mem_append.1 hq with hq | hq
      · exact absurd hack (hH.2 q hq)
      · exact he6.acks q hq hack
  | cons w rest =>
    rw [hq] at hH hstep
    obtain ⟨e, h1, h2, h3, h4⟩ := hH
    have hq' : ∃ t, (if flush = true then List.take 1 (w :: rest) else w :: rest) = w :: t ∧ ∀ x ∈ t, x ∈ rest := by
      split
      · exact ⟨[], by simp, by simp⟩
      · exact ⟨rest, rfl, fun _ hx => hx⟩
    obtain ⟨t, ht, hsub⟩ := hq'
    rw [ht] at hstep
    simp only at hstep
    have hok' := hok; rw [hstep] at hok'
    rw [stepSys_of hev hstep]
    simp only [purge_nil, feed, List.append_nil, Act.netBefore]
    refine ⟨hok', S0, hS, hE.mono _, ?_⟩
    unfold WHead
    have hq2 : ∀ (rs : List (Nat × RReq)) (q : List WReq),
        ({ reads := rs, writes := dset (ensureQueue y.host.writes id) id q, lock := false } : St).queue id = q := by
      intro rs q; simp [St.queue_def, dget?_dset_same]
    rw [hq2]
    refine ⟨e, h1.mono _, h2, h3, ?_⟩
    intro x hx
    rcases List.mem_append.1 hx with hx | hx
    · exact (h4 x (hsub x hx)).mono _
    · simp only [List.mem_singleton] at hx
      exact ⟨tag, addr, data, flush, p, by simp, hwf, hx⟩


/-! ### finishing the head and starting the next request -/

theorem feed_skip (dev : Device) (faults : List UInt8) (net : List Packet) {po : List Out}
    (hpo : ∀ o ∈ po, ∀ c d, o ≠ .send c d) (rest : List Out) :
    feed dev faults net (po ++ rest) = feed dev faults net rest := by
  induction po with
  | nil => rfl
  | cons o os ih =>
    have ho := hpo o (by simp)
    have := ih (fun x hx => hpo x (List.mem_cons_of_mem _ hx))
    cases o with
    | send c d => exact absurd rfl (ho c d)
    | _ => simpa [feed] using this

theorem progress_no_send {po : List Out} (hpo : ∀ o ∈ po, o.isProgress = true) : ∀ o ∈ po, ∀ c d, o ≠ Out.send c d := by
  intro o ho c d h; subst h; have := hpo _ ho; simp [Out.isProgress] at this

theorem notesW_progress (id : Nat) {po : List Out} (hpo : ∀ o ∈ po, o.isProgress = true) : notesW id po = [] := by
  induction po with
  | nil => rfl
  | cons o os ih =>
    have ho := hpo o (by simp)
    have := ih (fun x hx => hpo x (List.mem_cons_of_mem _ hx))
    cases o <;> simp_all [notesW, Out.isProgress]

theorem finishes_writeNote {note : Out} {t id a : Nat} (hnote : note = .writeOk t id a ∨ note = .writeFail t id a)
    (p : Packet) : note.finishes p = true ↔ IsWriteAckFor id p := by
  rcases hnote with rfl | rfl <;> simp [Out.finishes, IsWriteAckFor]

/-- after the head of the queue was removed (and notified by `note`): the next queued request, if any, is started
and becomes the new head -/
theorem WHead.afterPop {id : Nat} (hid : id < 256) {m0 : Image} {pre' : List Act} {S0' : List Entry} {dev : Device}
    (hdev : dev[id]? = some (applyEntries m0 S0')) {rest : List WReq} (hrest : ∀ x ∈ rest, Unstarted id pre' x)
    {po : List Out} (hpo : ∀ o ∈ po, o.isProgress = true) {note : Out} {t a : Nat}
    (hnote : note = .writeOk t id a ∨ note = .writeFail t id a) (net1 : List Packet) (faults : List UInt8)
    {y' : Sys} (hq : y'.host.queue id = (nextStarted id rest).1)
    (hd : y'.dev = (feed dev faults (purge net1 (po ++ (nextStarted id rest).2 ++ [note]))
      (po ++ (nextStarted id rest).2 ++ [note])).1)
    (hn : y'.net = (feed dev faults (purge net1 (po ++ (nextStarted id rest).2 ++ [note]))
      (po ++ (nextStarted id rest).2 ++ [note])).2.2) :
    WHead id m0 pre' y' S0' := by
  have hpurged : ∀ p ∈ purge net1 (po ++ (nextStarted id rest).2 ++ [note]), ¬ IsWriteAckFor id p := by
    intro p hp hack
    have := (mem_purge.1 hp).2 note (by simp)
    rw [(finishes_writeNote hnote p).2 hack] at this
    cases this
  have hnotesend : ∀ c d, note ≠ Out.send c d := by rcases hnote with rfl | rfl <;> simp
  unfold WHead
  rw [hq]
  cases rest with
  | nil =>
    simp only [nextStarted, List.append_nil] at hd hn hpurged ⊢
    have hns : ∀ o ∈ po ++ [note], ∀ c d, o ≠ Out.send c d := by
      intro o ho
      rcases List.mem_append.1 ho with ho | ho
      · exact progress_no_send hpo o ho
      · simp only [List.mem_singleton] at ho; subst ho; exact hnotesend
    rw [feed_no_sends _ _ _ hns] at hd hn
    rw [hd, hn]
    exact ⟨hdev, hpurged⟩
  | cons n t =>
    obtain ⟨tag, addr, data, f, p, hact, hwf, hnew⟩ := hrest n (by simp)
    simp only [nextStarted] at hd hn hpurged ⊢
    rw [List.append_assoc, feed_skip _ _ _ (progress_no_send hpo)] at hd hn
    simp only [List.cons_append, List.nil_append, feed] at hd hn
    simp only [List.append_assoc, List.cons_append, List.nil_append] at hpurged
    have hcur : n.cur = addr := by rw [hnew]; rfl
    have hrst : n.rest = data := by rw [hnew]; rfl
    rw [hcur, hrst, gen_chanWrite] at hd hn hpurged
    obtain ⟨e, he1, he2, he3, he4, he5, he6⟩ := HeadRel.start hid hdev (faults.headD 0) hwf.2.1 n.afterChunk
      (by rw [hnew])
    refine ⟨e, ⟨f, p, by rw [he1, he2, he3]; exact hact⟩, by rw [hd, applyEntries_snoc]; exact he5, ?_, ?_⟩
    · rw [hn]
      refine ⟨he6.tag, he6.addr, he6.ok, he6.aligned, he6.inside, he6.chunk, he6.rest, he6.kb, he6.range, ?_⟩
      intro q hq hack
      rcases List.mem_append.1 hq with hq | hq
      · exact absurd hack (hpurged q hq)
      · exact he6.acks q hq hack
    · intro x hx; exact hrest x (List.mem_cons_of_mem _ hx)


theorem notesW_nextStarted (id k : Nat) (rest : List WReq) : notesW k (nextStarted id rest).2 = [] := by
  cases rest <;> simp [nextStarted, notesW]

theorem wrLen_lt_imp {x : Nat} (h : wrLen x < x) : wrLen x = Gen.C06.writeMax := by
  unfold wrLen at *; split
  · rfl
  · rename_i h'; rw [if_neg h'] at h; omega

theorem feed_prog_send (dev : Device) (faults : List UInt8) (net : List Packet) {po : List Out}
    (hpo : ∀ o ∈ po, o.isProgress = true) (c : Nat) (d : List UInt8) :
    feed dev faults net (po ++ [.send c d]) =
      ((devHandle dev (faults.headD 0) c d).1, faults.tail, net ++ (devHandle dev (faults.headD 0) c d).2) := by
  rw [feed_skip _ _ _ (progress_no_send hpo)]; rfl

theorem HeadRel.kb_le {id : Nat} {base : Image} {w : WReq} {e : Entry} {net : List Packet}
    (h : HeadRel id base w e net) : e.kb ≤ e.data.length := by
  have := wrLen_le' (e.data.length - (w.cur - w.addr))
  have := h.inside
  have := h.chunk
  rcases h.kb with hk | hk
  · omega
  · simp only [sentBytes] at hk; omega

/-- delivery of a write acknowledgement in flight for memory `id` -/
theorem WInv.step_ack {id : Nat} (hid : id < 256) {m0 : Image} {pre : List Act} {y : Sys}
    (h : WInv id m0 pre y) {i : Nat} {keep : Bool} {p : Packet} (hp : y.net[i]? = some p)
    (hack : IsWriteAckFor id p) :
    WInv id m0 (pre ++ [.deliver i keep]) (stepSys Variant.fixed y (.deliver i keep)) := by
  have hev : (Act.deliver i keep).toEv y.net = some (.pkt p.1 p.2) := by simp [Act.toEv, hp]
  have hpm : p ∈ y.net := List.mem_of_getElem? hp
  obtain ⟨hok, _, _⟩ := step_effect h.host (e := .pkt p.1 p.2) trivial
  obtain ⟨S0, hS, hE, hH⟩ := h.ex
  unfold WHead at hH
  cases hq : y.host.queue id with
  | nil => rw [hq] at hH; exact absurd hack (hH.2 p hpm)
  | cons w rest =>
    rw [hq] at hH
    obtain ⟨e, h1, h2, h3, h4⟩ := hH
    obtain ⟨a, st, hp2, ha, hcase⟩ := h3.acks p hpm hack
    have hwok := (St.queue_ok h.host id).1 w (by rw [hq]; simp)
    have hstep : step Variant.fixed y.host (.pkt p.1 p.2) = onWriteReply Variant.fixed y.host id a st.toNat := by
      simp only [step]; rw [hack.1, hp2]; exact newPacketCb_writeAck _ hid ha st
    have hsub : ∀ q ∈ (Act.deliver i keep).netBefore y.net, q ∈ y.net := netBefore_subset _ _
    have hqset : ∀ (q : List WReq), ({ reads := y.host.reads, writes := dset y.host.writes id q, lock := false } : St).queue id = q := by
      intro q; simp [St.queue_def, dget?_dset_same]
    have hkble := h3.kb_le
    by_cases hst : st.toNat = 0
    · have hst0 : st = 0 := by apply UInt8.toNat_inj.1; simpa using hst
      rw [hst] at hstep
      have hcase' : a < w.cur ∨ (a = w.cur ∧ e.kb = sentBytes w) := by
        rcases hcase with h' | h' | h'
        · exact absurd hst0 h'
        · exact Or.inl h'
        · exact Or.inr h'
      rcases hcase' with hlt | ⟨rfl, hkb⟩
      · -- acknowledgement of an earlier chunk: ignored
        rw [onWriteReply_ignored h.host hq (by omega)] at hstep
        have hok' := hok; rw [hstep] at hok'
        rw [stepSys_of hev hstep]
        simp only [purge_nil, feed, List.append_nil]
        refine ⟨hok', S0, hS, hE.mono _, ?_⟩
        have hH' : WHead id m0 pre y S0 := by unfold WHead; rw [hq]; exact ⟨e, h1, h2, h3, h4⟩
        exact hH'.transfer _ (by rw [hqset, hq]) rfl (fun q hq' _ => hsub q hq')
      · obtain ⟨w1, po, hsame, hpo, hres⟩ := onWriteReply_ack h.host hq
        rw [hres] at hstep
        obtain ⟨j, hj⟩ := h3.aligned
        have hsent : sentBytes w = w.cur - w.addr + w.addrAdd := rfl
        have hrl : w.rest.length = e.data.length - sentBytes w := by rw [h3.rest]; simp
        by_cases hr : w.rest.length > 0
        · -- more chunks: the next one goes to the device, its acknowledgement in flight
          rw [if_pos hr] at hstep
          have hok' := hok; rw [hstep] at hok'
          rw [stepSys_of hev hstep]
          have hnn : ∀ o ∈ po ++ [Out.send Gen.C06.chanWrite (headBytes id (w.cur + w.addrAdd) ++
              List.take (wrLen w.rest.length) w.rest)], o.isNote = false := by
            intro o ho
            rcases List.mem_append.1 ho with ho | ho
            · have := hpo o ho; cases o <;> simp_all [Out.isProgress, Out.isNote]
            · simp only [List.mem_singleton] at ho; subst ho; rfl
          simp only [purge_of_no_notes _ hnn, feed_prog_send _ _ _ hpo]
          rw [gen_chanWrite]
          have haa : w.addrAdd = Gen.C06.writeMax := by
            rw [h3.chunk]; apply wrLen_lt_imp; rw [← h3.chunk]; omega
          have hcur' : w.cur + w.addrAdd < 2 ^ 32 := (WReq.advance_ok hwok hr).1
          -- the image now and the body of the chunk
          have hMlen : (overwrite (applyEntries m0 S0) e.addr (e.data.take e.kb)).length = (applyEntries m0 S0).length := by
            rcases h3.range with h0 | h0
            · rw [h0]; simp [overwrite_nil]
            · apply overwrite_length; simp [List.length_take]; omega
          have hbody : List.take (wrLen w.rest.length) w.rest = (e.data.drop e.kb).take (wrLen w.rest.length) := by
            rw [h3.rest, hkb]
          have hcuraddr : w.cur + w.addrAdd = e.addr + e.kb := by rw [hkb, hsent, ← h3.addr]; omega
          have hdev : y.dev[id]? = some (overwrite (applyEntries m0 S0) e.addr (e.data.take e.kb)) := by
            rw [h2, applyEntries_snoc]
          have hn' := wrLen_le' w.rest.length
          rw [devHandle_writeReq _ _ hid hcur']
          -- the new head and its entry, depending on whether the device stored the chunk
          have hrel : ∀ (kb' : Nat) (net' : List Packet),
              (kb' = e.kb ∨ kb' = e.kb + wrLen w.rest.length) → (kb' = 0 ∨ e.addr + kb' ≤ (applyEntries m0 S0).length) →
              (∀ q ∈ net', IsWriteAckFor id q → q ∈ (Act.deliver i keep).netBefore y.net ∨
                ∃ st', q.2 = headBytes id (w.cur + w.addrAdd) ++ [st'] ∧
                  (st' ≠ 0 ∨ kb' = e.kb + wrLen w.rest.length)) →
              HeadRel id (applyEntries m0 S0) (({ w1 with cur := w1.cur + w1.addrAdd } : WReq).afterChunk)
                { e with kb := kb' } net' := by
            intro kb' net' hk hrange hnet
            obtain ⟨ht, hi, had, hc, haa1, hr1, _, _⟩ := hsame
            have hsb : sentBytes (({ w1 with cur := w1.cur + w1.addrAdd } : WReq).afterChunk) =
                e.kb + wrLen w.rest.length := by
              simp only [sentBytes, WReq.afterChunk, hc, haa1, had, hr1]; rw [hkb, hsent]; omega
            refine ⟨by simp [WReq.afterChunk, ht, h3.tag], by simp [WReq.afterChunk, had, h3.addr], h3.ok,
              ⟨j + 1, ?_⟩, ?_, ?_, ?_, ?_, hrange, ?_⟩
            · simp only [WReq.afterChunk, hc, haa1, had]; rw [haa, Nat.add_mul]; omega
            · simp only [WReq.afterChunk, hc, haa1, had]; omega
            · simp only [WReq.afterChunk, hc, haa1, had, hr1]; congr 1; omega
            · rw [hsb]; simp only [WReq.afterChunk, hr1, h3.rest, List.drop_drop]; congr 1; omega
            · rw [hsb]
              rcases hk with hk | hk
              · left; simp only [WReq.afterChunk, hc, haa1, had]; rw [hk, hkb, hsent]; omega
              · right; exact hk
            · intro q hq' hackq
              rcases hnet q hq' hackq with hold | ⟨st', hq2, hst'⟩
              · obtain ⟨a', st', e1, e2, e3⟩ := h3.acks q (hsub q hold) hackq
                refine ⟨a', st', e1, e2, ?_⟩
                rcases e3 with e3 | e3 | e3
                · exact Or.inl e3
                · right; left; simp only [WReq.afterChunk, hc, haa1]; omega
                · right; left; simp only [WReq.afterChunk, hc, haa1]; have := gen_writeMax_pos; omega
              · refine ⟨w.cur + w.addrAdd, st', hq2, hcur', ?_⟩
                rcases hst' with hst' | hst'
                · exact Or.inl hst'
                · right; right
                  exact ⟨by simp [WReq.afterChunk, hc, haa1], by rw [hsb]; exact hst'⟩
          have e0 : notesW id (po ++ [Out.send specChanWrite (headBytes id (w.cur + w.addrAdd) ++
              List.take (wrLen w.rest.length) w.rest)]) = [] := by
            rw [notesW_append, notesW_progress id hpo]; simp [notesW]
          by_cases hf : y.faults.headD 0 ≠ 0
          · rw [if_pos hf]
            refine ⟨hok', S0, ?_, hE.mono _, ?_⟩
            · rw [notesW_append, e0, List.append_nil]; exact hS
            · unfold WHead; dsimp only; rw [hqset]
              refine ⟨{ e with kb := e.kb }, h1.mono _, h2, hrel e.kb _ (Or.inl rfl) h3.range ?_,
                fun x hx => (h4 x hx).mono _⟩
              intro q hq' _
              rcases List.mem_append.1 hq' with hq' | hq'
              · exact Or.inl hq'
              · simp only [List.mem_singleton] at hq'; subst hq'
                exact Or.inr ⟨_, rfl, Or.inl hf⟩
          · rw [if_neg hf]
            rcases devWrite_img hdev (a := w.cur + w.addrAdd) (List.take (wrLen w.rest.length) w.rest)
              with ⟨hz, himg, hin⟩ | ⟨hz, hsamed⟩
            · -- stored
              have hbl : (List.take (wrLen w.rest.length) w.rest).length = wrLen w.rest.length := by
                simp [List.length_take]; omega
              rw [hbl, hMlen] at hin
              refine ⟨hok', S0, ?_, hE.mono _, ?_⟩
              · rw [notesW_append, e0, List.append_nil]; exact hS
              · unfold WHead; dsimp only; rw [hqset]
                refine ⟨{ e with kb := e.kb + wrLen w.rest.length }, h1.mono _, ?_,
                  hrel _ _ (Or.inr rfl) (Or.inr (by have := hin; omega)) ?_, fun x hx => (h4 x hx).mono _⟩
                · rw [himg, applyEntries_snoc]
                  dsimp only
                  rw [hbody, hcuraddr]
                  have hkl : (e.data.take e.kb).length = e.kb := by simp [List.length_take]; omega
                  have := overwrite_extend (m := applyEntries m0 S0) (a := e.addr) (x := e.data.take e.kb)
                    (y := (e.data.drop e.kb).take (wrLen w.rest.length))
                    (by rw [hkl]; simp only [List.length_take, List.length_drop]; omega)
                  rw [hkl] at this
                  rw [this, ← List.take_add]
                · intro q hq' _
                  rcases List.mem_append.1 hq' with hq' | hq'
                  · exact Or.inl hq'
                  · simp only [List.mem_singleton] at hq'; subst hq'
                    exact Or.inr ⟨_, rfl, Or.inr rfl⟩
            · -- refused by the device
              refine ⟨hok', S0, ?_, hE.mono _, ?_⟩
              · rw [notesW_append, e0, List.append_nil]; exact hS
              · unfold WHead; dsimp only; rw [hqset, hsamed]
                refine ⟨{ e with kb := e.kb }, h1.mono _, h2, hrel e.kb _ (Or.inl rfl) h3.range ?_,
                  fun x hx => (h4 x hx).mono _⟩
                intro q hq' _
                rcases List.mem_append.1 hq' with hq' | hq'
                · exact Or.inl hq'
                · simp only [List.mem_singleton] at hq'; subst hq'
                  exact Or.inr ⟨_, rfl, Or.inl hz⟩
        · -- last chunk acknowledged: success, the next request is started
          rw [if_neg hr] at hstep
          have hok' := hok; rw [hstep] at hok'
          rw [stepSys_of hev hstep]
          have hfull : e.kb = e.data.length := by omega
          refine ⟨hok', S0 ++ [{ e with ok := true }], ?_, ?_, ?_⟩
          · rw [notesW_append, List.map_append, hS, notesW_append, notesW_append, notesW_progress id hpo,
              notesW_nextStarted]
            simp [notesW, Entry.note, h3.tag, h3.addr]
          · intro x hx
            rcases List.mem_append.1 hx with hx | hx
            · exact (hE.mono _) x hx
            · simp only [List.mem_singleton] at hx; subst hx
              exact ⟨h1.mono _, hkble, fun _ => hfull⟩
          · refine WHead.afterPop hid (dev := y.dev) ?_ (fun x hx => (h4 x hx).mono _) hpo (Or.inl rfl)
              ((Act.deliver i keep).netBefore y.net) y.faults (hqset _) rfl rfl
            rw [h2, applyEntries_snoc, applyEntries_snoc]
    · -- error status: the head fails, the next request is started
      rw [onWriteReply_err h.host hq a hst] at hstep
      have hok' := hok; rw [hstep] at hok'
      rw [stepSys_of hev hstep]
      refine ⟨hok', S0 ++ [e], ?_, ?_, ?_⟩
      · rw [notesW_append, List.map_append, hS, notesW_append, notesW_nextStarted]
        simp [notesW, Entry.note, h3.tag, h3.addr, h3.ok, hwok.1]
      · intro x hx
        rcases List.mem_append.1 hx with hx | hx
        · exact (hE.mono _) x hx
        · simp only [List.mem_singleton] at hx; subst hx
          exact ⟨h1.mono _, hkble, fun hc => by rw [h3.ok] at hc; cases hc⟩
      · exact WHead.afterPop hid (dev := y.dev) (S0' := S0 ++ [e]) h2 (fun x hx => (h4 x hx).mono (.deliver i keep))
          (po := []) (by simp) (note := Out.writeFail w.tag w.id w.addr) (t := w.tag) (a := w.addr)
          (Or.inr (by rw [hwok.1])) ((Act.deliver i keep).netBefore y.net) y.faults (hqset _) rfl rfl


/-! ### link drop -/

theorem notesW_failAll (d : List (Nat × List WReq)) (hk : (dkeys d).Nodup)
    (hid : ∀ key q, (key, q) ∈ d → ∀ w ∈ q, w.id = key) (k : Nat) :
    notesW k (((d.map (·.2)).flatten).map fun w => Out.writeFail w.tag w.id w.addr) =
      ((dget? d k).getD []).map fun w => (w.tag, w.addr, false) := by
  induction d with
  | nil => rfl
  | cons e es ih =>
    obtain ⟨key, q⟩ := e
    simp only [dkeys, List.map_cons, List.nodup_cons] at hk
    have ih' := ih hk.2 (fun key' q' h => hid key' q' (List.mem_cons_of_mem _ h))
    simp only [List.map_cons, List.flatten_cons, List.map_append, notesW_append, ih']
    have hq : ∀ w ∈ q, w.id = key := hid key q (by simp)
    by_cases hkk : key = k
    · subst hkk
      have h1 : notesW key (q.map fun w => Out.writeFail w.tag w.id w.addr) = q.map fun w => (w.tag, w.addr, false) := by
        clear ih ih' hid
        induction q with
        | nil => rfl
        | cons w ws ihq =>
          have := ihq (fun x hx => hq x (List.mem_cons_of_mem _ hx))
          simp only [notesW, List.map_cons, List.filterMap_cons] at this ⊢
          simp [hq w (by simp), this]
      have h2 : dget? es key = none := dget?_none_of_not_mem_keys hk.1
      simp [h1, h2, dget?]
    · have h1 : notesW k (q.map fun w => Out.writeFail w.tag w.id w.addr) = [] := by
        clear ih ih' hid
        induction q with
        | nil => rfl
        | cons w ws ihq =>
          have := ihq (fun x hx => hq x (List.mem_cons_of_mem _ hx))
          simp only [notesW, List.map_cons, List.filterMap_cons] at this ⊢
          have : ¬ w.id = k := by rw [hq w (by simp)]; exact hkk
          simp_all
      have hb : (key == k) = false := by simpa using hkk
      simp [h1, dget?, hb]

theorem notesW_readFails (d : List (Nat × RReq)) (k : Nat) :
    notesW k (d.map fun e => Out.readFail e.2.tag e.2.id e.2.addr e.2.data) = [] := by
  induction d with
  | nil => rfl
  | cons e es ih => simpa [notesW] using ih

theorem applyEntries_append (m0 : Image) (A B : List Entry) :
    applyEntries m0 (A ++ B) = applyEntries (applyEntries m0 A) B := by
  simp [applyEntries, List.foldl_append]

theorem applyEntries_zero (m : Image) (B : List Entry) (h : ∀ e ∈ B, e.kb = 0) : applyEntries m B = m := by
  induction B generalizing m with
  | nil => rfl
  | cons e es ih =>
    have he := h e (by simp)
    simp only [applyEntries, List.foldl_cons, he, List.take_zero, overwrite_nil]
    exact ih m (fun x hx => h x (List.mem_cons_of_mem _ hx))

/-- the ghost entry of a request that never got started -/
def Entry.unstarted (x : WReq) : Entry := ⟨x.tag, x.addr, x.rest, 0, false⟩

theorem WInv.step_drop {id : Nat} {m0 : Image} {pre : List Act} {y : Sys} (h : WInv id m0 pre y) :
    WInv id m0 (pre ++ [.drop]) (stepSys Variant.fixed y .drop) := by
  have hev : Act.drop.toEv y.net = some .disconnect := rfl
  have hstep : step Variant.fixed y.host .disconnect = disconnected y.host := rfl
  have hd : disconnected y.host = ⟨St.init, (y.host.reads.map fun e => Out.readFail e.2.tag e.2.id e.2.addr e.2.data) ++
      (((y.host.writes.map (·.2)).flatten).map fun w => Out.writeFail w.tag w.id w.addr), .ret none⟩ := by
    simp [disconnected, h.host.lock]
  rw [hd] at hstep
  rw [stepSys_of hev hstep]
  have hns : ∀ o ∈ (y.host.reads.map fun e => Out.readFail e.2.tag e.2.id e.2.addr e.2.data) ++
      (((y.host.writes.map (·.2)).flatten).map fun w => Out.writeFail w.tag w.id w.addr), ∀ c d, o ≠ Out.send c d := by
    intro o ho c d
    rcases List.mem_append.1 ho with ho | ho
    · obtain ⟨e, _, rfl⟩ := List.mem_map.1 ho; simp
    · obtain ⟨e, _, rfl⟩ := List.mem_map.1 ho; simp
  rw [feed_no_sends _ _ _ hns]
  obtain ⟨S0, hS, hE, hH⟩ := h.ex
  have hnotes : notesW id ((y.host.reads.map fun e => Out.readFail e.2.tag e.2.id e.2.addr e.2.data) ++
      (((y.host.writes.map (·.2)).flatten).map fun w => Out.writeFail w.tag w.id w.addr)) =
      (y.host.queue id).map fun w => (w.tag, w.addr, false) := by
    rw [notesW_append, notesW_readFails, List.nil_append,
      notesW_failAll y.host.writes h.host.wkeys
        (fun key q hm w hw => (h.host.writes key q (dget?_of_mem h.host.wkeys hm) w hw).1)]
    rfl
  unfold WHead at hH
  cases hq : y.host.queue id with
  | nil =>
    rw [hq] at hH hnotes
    refine ⟨St.init_ok, S0, by rw [notesW_append, hnotes, List.map_nil, List.append_nil]; exact hS, hE.mono _, ?_⟩
    unfold WHead
    simp only [St.queue_def, St.init, dget?, Option.getD_none]
    exact ⟨hH.1, by simp [Act.netBefore, purge]⟩
  | cons w rest =>
    rw [hq] at hH hnotes
    obtain ⟨e, h1, h2, h3, h4⟩ := hH
    refine ⟨St.init_ok, S0 ++ [e] ++ rest.map Entry.unstarted, ?_, ?_, ?_⟩
    · rw [notesW_append, hnotes, List.map_append, List.map_append, hS, List.append_assoc]
      congr 1
      simp only [List.map_cons, List.map_nil, List.singleton_append, Entry.note, h3.tag, h3.addr, h3.ok, List.map_map]
      congr 1
    · intro x hx
      rcases List.mem_append.1 hx with hx | hx
      · rcases List.mem_append.1 hx with hx | hx
        · exact (hE.mono _) x hx
        · simp only [List.mem_singleton] at hx; subst hx
          exact ⟨h1.mono _, h3.kb_le, fun hc => by rw [h3.ok] at hc; cases hc⟩
      · obtain ⟨r, hr, rfl⟩ := List.mem_map.1 hx
        obtain ⟨t, ad, d, f, p, hact, _, hnew⟩ := h4 r hr
        refine ⟨⟨f, p, ?_⟩, by simp [Entry.unstarted], fun hc => by simp [Entry.unstarted] at hc⟩
        subst hnew
        simp [Entry.unstarted, WReq.new, hact]
    · unfold WHead
      simp only [St.queue_def, St.init, dget?, Option.getD_none]
      refine ⟨?_, by simp [Act.netBefore, purge]⟩
      rw [applyEntries_append, applyEntries_zero _ _ (by intro x hx; obtain ⟨r, _, rfl⟩ := List.mem_map.1 hx; rfl)]
      exact h2


/-! ### assembling the invariant -/

/-- actions admitted by `write_exact`: requests are well-formed and nothing is forged (A1) -/
def Act.OkForWrite : Act → Prop
  | .inject _ _ => False
  | a => a.WF

theorem WInv.mono {id : Nat} {m0 : Image} {pre : List Act} {y : Sys} (h : WInv id m0 pre y) (a : Act) :
    WInv id m0 (pre ++ [a]) y := by
  obtain ⟨S0, hS, hE, hH⟩ := h.ex
  exact ⟨h.host, S0, hS, hE.mono a, hH.transfer a rfl rfl (fun _ hp _ => hp)⟩

theorem WInv.step {id : Nat} (hid : id < 256) {m0 : Image} {pre : List Act} {y : Sys}
    (h : WInv id m0 pre y) {a : Act} (ha : a.OkForWrite) :
    WInv id m0 (pre ++ [a]) (stepSys Variant.fixed y a) := by
  cases a with
  | read t i ad l =>
    have hwf : (Ev.read t i ad l).WF := ha
    obtain ⟨h1, h2⟩ := memRead_readSide y.host hwf
    exact h.step_readSide (ev := .read t i ad l) rfl hwf h1 h2
  | write t i ad d f p =>
    have hwf : (Ev.write t i ad d f p).WF := ha
    by_cases hi : i = id
    · subst hi; exact h.step_write hid hwf
    · exact h.step_other hid (ev := .write t i ad d f p) rfl hwf rfl hwf.1 hi
  | deliver i keep =>
    cases hp : y.net[i]? with
    | none =>
      have : stepSys Variant.fixed y (.deliver i keep) = y := by simp [stepSys, Act.toEv, hp]
      rw [this]; exact h.mono _
    | some p =>
      have hev : (Act.deliver i keep).toEv y.net = some (.pkt p.1 p.2) := by simp [Act.toEv, hp]
      cases hp2 : p.2 with
      | nil =>
        rw [hp2] at hev
        exact h.step_quiet hev (res := .raised .indexError) rfl
      | cons cmd payload =>
        by_cases hk : cmd.toNat = id
        · by_cases hc : p.1 = specChanWrite
          · refine h.step_ack hid hp ⟨hc, ?_⟩
            rw [hp2, ← hk]; simp
          · rw [hp2] at hev
            by_cases hc2 : p.1 = specChanRead
            · have hstep : CfVerif.C06.step Variant.fixed y.host (.pkt p.1 (cmd :: payload)) =
                  handleChanRead y.host cmd.toNat payload := by
                simp only [CfVerif.C06.step, newPacketCb]
                rw [if_neg (by rw [gen_chanWrite]; exact hc), if_pos (by rw [gen_chanRead]; exact hc2)]
              obtain ⟨h1, h2⟩ := handleChanRead_readSide h.host cmd.toNat payload
              exact h.step_readSide hev trivial (by rw [hstep]; exact h1) (by rw [hstep]; exact h2)
            · have hstep : CfVerif.C06.step Variant.fixed y.host (.pkt p.1 (cmd :: payload)) = (⟨y.host, [], .ret none⟩ : Step) := by
                simp only [CfVerif.C06.step, newPacketCb]
                rw [if_neg (by rw [gen_chanWrite]; exact hc), if_neg (by rw [gen_chanRead]; exact hc2)]
              exact h.step_quiet hev hstep
        · rw [hp2] at hev
          exact h.step_other hid hev trivial (k := cmd.toNat) rfl cmd.toNat_lt hk
  | inject c d => exact absurd ha (by simp [Act.OkForWrite])
  | drop => exact h.step_drop

theorem WInv.init (id : Nat) (d : Device) (faults : List UInt8) {m0 : Image} (hd : d[id]? = some m0) :
    WInv id m0 [] (Sys.init d faults) :=
  ⟨St.init_ok, [], by simp [Sys.init, notesW], (by intro e he; cases he),
    (by unfold WHead; simp [Sys.init, St.init, St.queue_def, dget?, applyEntries, hd])⟩

theorem WInv.run {id : Nat} (hid : id < 256) {m0 : Image} (acts : List Act) (hacts : ∀ a ∈ acts, a.OkForWrite)
    {pre : List Act} {y : Sys} (h : WInv id m0 pre y) : WInv id m0 (pre ++ acts) (runSys Variant.fixed y acts) := by
  induction acts generalizing pre y with
  | nil => simpa [runSys] using h
  | cons a as ih =>
    have := ih (fun x hx => hacts x (List.mem_cons_of_mem _ hx)) (h.step hid (hacts a (by simp)))
    simpa [runSys, List.append_assoc] using this


/-! ### the statements -/

theorem write_exact_aux {id : Nat} (hid : id < 256) {m0 : Image} {acts : List Act} {y : Sys} (h : WInv id m0 acts y) :
    ∃ S : List Entry,
      S.map Entry.note = notesW id y.outs ++ ((y.host.queue id).take 1).map (fun w => (w.tag, w.addr, false)) ∧
      (∀ e ∈ S, (∃ f p, Act.write e.tag id e.addr e.data f p ∈ acts) ∧ e.kb ≤ e.data.length ∧
        (e.ok = true → e.kb = e.data.length)) ∧
      y.dev[id]? = some (applyEntries m0 S) := by
  obtain ⟨S0, hS, hE, hH⟩ := h.ex
  unfold WHead at hH
  cases hq : y.host.queue id with
  | nil =>
    rw [hq] at hH
    exact ⟨S0, by simpa using hS, hE, hH.1⟩
  | cons w rest =>
    rw [hq] at hH
    obtain ⟨e, h1, h2, h3, _⟩ := hH
    refine ⟨S0 ++ [e], by simp [hS, Entry.note, h3.tag, h3.addr, h3.ok], ?_, h2⟩
    intro x hx
    rcases List.mem_append.1 hx with hx | hx
    · exact hE x hx
    · simp only [List.mem_singleton] at hx; subst hx
      exact ⟨h1, h3.kb_le, fun hc => by rw [h3.ok] at hc; cases hc⟩

theorem notifW_eq_notesW (id : Nat) (outs : List Out) : notifW id outs = (notesW id outs).map (·.1) := by
  induction outs with
  | nil => rfl
  | cons o os ih =>
    cases o <;> simp only [notifW, notesW, List.filterMap_cons] at ih ⊢ <;> try exact ih
    all_goals (split <;> simp_all)

theorem mem_notesW {id t a : Nat} {outs : List Out} (h : Out.writeOk t id a ∈ outs) : (t, a, true) ∈ notesW id outs := by
  simp only [notesW, List.mem_filterMap]
  exact ⟨_, h, by simp⟩

/-- exactly one element of `l` is mapped to `some` -/
theorem filterMap_singleton_unique {α β : Type} {g : α → Option β} {l : List α} {x : β} (h : l.filterMap g = [x])
    {a b : α} (ha : a ∈ l) (hb : b ∈ l) (hga : (g a).isSome) (hgb : (g b).isSome) : a = b := by
  induction l with
  | nil => cases ha
  | cons c cs ih =>
    simp only [List.filterMap_cons] at h
    cases hgc : g c with
    | none =>
      rw [hgc] at h
      rcases List.mem_cons.1 ha with rfl | ha
      · rw [hgc] at hga; cases hga
      · rcases List.mem_cons.1 hb with rfl | hb
        · rw [hgc] at hgb; cases hgb
        · exact ih h ha hb
    | some v =>
      rw [hgc] at h
      simp only [List.cons.injEq] at h
      have hnone : ∀ z ∈ cs, g z = none := by
        intro z hz
        cases hgz : g z with
        | none => rfl
        | some u =>
          have : u ∈ cs.filterMap g := List.mem_filterMap.2 ⟨z, hz, hgz⟩
          rw [h.2] at this; cases this
      rcases List.mem_cons.1 ha with rfl | ha
      · rcases List.mem_cons.1 hb with rfl | hb
        · rfl
        · rw [hnone b hb] at hgb; cases hgb
      · rw [hnone a ha] at hga; cases hga


/-- if exactly one write on memory `id` was issued, two write actions on `id` found in the history are the same -/
theorem accWActs_unique {id tag : Nat} {acts : List Act} (h : accWActs id acts = [tag])
    {t1 a1 : Nat} {d1 : List UInt8} {f1 p1 : Bool} {t2 a2 : Nat} {d2 : List UInt8} {f2 p2 : Bool}
    (h1 : Act.write t1 id a1 d1 f1 p1 ∈ acts) (h2 : Act.write t2 id a2 d2 f2 p2 ∈ acts) :
    Act.write t1 id a1 d1 f1 p1 = Act.write t2 id a2 d2 f2 p2 := by
  unfold accWActs at h
  exact filterMap_singleton_unique h h1 h2 (by simp) (by simp)

end CfVerif.C06

/- Proofs/C07 — helper lemmas for Props/C07 (core Lean only). -/
import CfVerif.Model.C07
namespace CfVerif.C07

/-! ### what a callback body can append to the trace -/

/-- events appended by the body of a callback (as opposed to the dispatcher itself) -/
def Ev.isBody : Ev → Bool
  | .added _ => true
  | .removed _ => true
  | .raised => true
  | _ => false

theorem runActs_trace (v : Variant) (acts : List Act) : ∀ st : St,
    ∃ ext, (runActs v st acts).1.trace = st.trace ++ ext ∧ (∀ e ∈ ext, e.isBody = true) ∧
      (runActs v st acts).1.dead = st.dead := by
  induction acts with
  | nil => intro st; exact ⟨[], by simp [runActs]⟩
  | cons a as ih =>
    intro st
    cases a with
    | add r =>
      obtain ⟨ext, h1, h2, h3⟩ := ih ({ st with regs := addHeaderCallback st.regs r }.push (.added r))
      refine ⟨.added r :: ext, ?_, ?_, ?_⟩
      · simp only [runActs]; rw [h1]; simp [St.push]
      · intro e he; cases he with
        | head => rfl
        | tail _ h => exact h2 e h
      · simp only [runActs]; rw [h3]; rfl
    | remove r =>
      obtain ⟨ext, h1, h2, h3⟩ := ih ({ st with regs := v.remove st.regs r }.push (.removed r))
      refine ⟨.removed r :: ext, ?_, ?_, ?_⟩
      · simp only [runActs]; rw [h1]; simp [St.push]
      · intro e he; cases he with
        | head => rfl
        | tail _ h => exact h2 e h
      · simp only [runActs]; rw [h3]; rfl
    | addAll c =>
      obtain ⟨ext, h1, h2, h3⟩ := ih { st with all := callerAdd st.all c }
      exact ⟨ext, by simp only [runActs]; rw [h1], h2, by simp only [runActs]; rw [h3]⟩
    | removeAll c =>
      simp only [runActs]
      cases hc : callerRemove st.all c with
      | none => exact ⟨[.raised], by simp [St.push], by simp [Ev.isBody], rfl⟩
      | some l =>
        obtain ⟨ext, h1, h2, h3⟩ := ih { st with all := l }
        exact ⟨ext, by simp only []; rw [h1], h2, by simp only []; rw [h3]⟩
    | raise => exact ⟨[.raised], by simp [runActs, St.push], by simp [Ev.isBody], rfl⟩

theorem invoke_trace (v : Variant) (beh : Beh) (st : St) (e : Ev) :
    ∃ ext, (invoke v beh st e).1.trace = st.trace ++ e :: ext ∧ (∀ x ∈ ext, x.isBody = true) ∧
      (invoke v beh st e).1.dead = st.dead := by
  obtain ⟨ext, h1, h2, h3⟩ := runActs_trace v (beh (st.push e).trace) (st.push e)
  refine ⟨ext, ?_, h2, ?_⟩
  · simp only [invoke]; rw [h1]; simp [St.push]
  · simp only [invoke]; rw [h3]; rfl

theorem callsOf_append (a b : List Ev) : callsOf (a ++ b) = callsOf a ++ callsOf b := by
  simp [callsOf, List.filterMap_append]

theorem callsOf_body (ext : List Ev) (h : ∀ e ∈ ext, e.isBody = true) : callsOf ext = [] := by
  induction ext with
  | nil => rfl
  | cons e es ih =>
    have he := h e (by simp)
    have := ih (fun x hx => h x (by simp [hx]))
    cases e <;> simp_all [callsOf, Ev.isBody]

theorem invoke_calls (v : Variant) (beh : Beh) (st : St) (r : Reg) :
    callsOf (invoke v beh st (.call r)).1.trace = callsOf st.trace ++ [r] := by
  obtain ⟨ext, h1, h2, _⟩ := invoke_trace v beh st (.call r)
  rw [h1, callsOf_append]
  have : callsOf (Ev.call r :: ext) = r :: callsOf ext := by simp [callsOf]
  rw [this, callsOf_body ext h2]

/-! ### the snapshot dispatcher calls exactly the matching registrations of the snapshot -/

theorem dispatchSnap_calls (v : Variant) (beh : Beh) (hdr : Nat) : ∀ (rs : List Reg) (st : St),
    callsOf (dispatchSnap v beh hdr rs st).trace = callsOf st.trace ++ rs.filter (·.matches hdr) := by
  intro rs
  induction rs with
  | nil => intro st; simp [dispatchSnap]
  | cons r rs ih =>
    intro st
    simp only [dispatchSnap]
    by_cases hm : r.matches hdr = true
    · rw [if_pos hm, ih, invoke_calls, List.filter_cons_of_pos (by simpa using hm)]
      simp
    · rw [if_neg hm, ih, List.filter_cons_of_neg (by simpa using hm)]

theorem dispatchSnap_dead (v : Variant) (beh : Beh) (hdr : Nat) : ∀ (rs : List Reg) (st : St),
    (dispatchSnap v beh hdr rs st).dead = st.dead := by
  intro rs
  induction rs with
  | nil => intro st; rfl
  | cons r rs ih =>
    intro st
    simp only [dispatchSnap]
    split
    · rw [ih]; exact (invoke_trace v beh st (.call r)).choose_spec.2.2
    · exact ih st

end CfVerif.C07

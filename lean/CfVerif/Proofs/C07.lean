/- Proofs/C07 — helper lemmas for Props/C07 (core Lean only). -/
import CfVerif.Model.C07
import CfVerif.Spec.C07
namespace CfVerif.C07

/-! ### header fields and the match condition -/

/-- finite core: for all 256 header bytes the translated `CRTPPacket` expressions are the port nibble and
the two channel bits -/
theorem hdr_fields_all : ∀ h : Fin 256, pkPort h.val = h.val / 16 ∧ pkChan h.val = h.val % 4 := by
  decide +kernel

theorem hdr_fields {h : Nat} (hh : h < 256) : pkPort h = h / 16 ∧ pkChan h = h % 4 :=
  hdr_fields_all ⟨h, hh⟩

theorem matches_eq_spec (r : Reg) {h : Nat} (hh : h < 256) : r.matches h = specMatches r h := by
  obtain ⟨h1, h2⟩ := hdr_fields hh
  simp only [Reg.matches, Gen.C07.matchExpr, specMatches, h1, h2]

theorem filter_matches_eq_spec (l : List Reg) {h : Nat} (hh : h < 256) :
    l.filter (·.matches h) = l.filter (specMatches · h) := by
  congr 1; funext r; exact matches_eq_spec r hh

theorem same_iff (x r : Reg) : x.same r = true ↔ x = r := by
  cases x; cases r
  simp [Reg.same, and_assoc]

/-! ### what a callback body can append to the trace -/

/-- events appended by the body of a callback (as opposed to the dispatcher itself) -/
def Ev.isBody : Ev → Bool
  | .added _ => true
  | .removed _ => true
  | .raised => true
  | .mutated => true
  | _ => false

theorem runActs_trace (v : Variant) (acts : List Act) : ∀ st : St,
    ∃ ext, (runActs v st acts).1.trace = st.trace ++ ext ∧ (∀ e ∈ ext, e.isBody = true) ∧
      (runActs v st acts).1.dead = st.dead := by
  induction acts with
  | nil => intro st; exact ⟨[], by simp [runActs]⟩
  | cons a as ih =>
    intro st
    cases a with
    | add r =>
      obtain ⟨ext, h1, h2, h3⟩ := ih ({ st with regs := addHeaderCallback st.regs r }.push (.added r))
      refine ⟨.added r :: ext, ?_, ?_, ?_⟩
      · simp only [runActs]; rw [h1]; simp [St.push]
      · intro e he; cases he with
        | head => rfl
        | tail _ h => exact h2 e h
      · simp only [runActs]; rw [h3]; rfl
    | remove r =>
      simp only [runActs]
      cases hrm : v.remove st.regs r with
      | none => exact ⟨[.removed r, .raised], by simp [St.push], by simp [Ev.isBody], rfl⟩
      | some l =>
        obtain ⟨ext, h1, h2, h3⟩ := ih ({ st with regs := l }.push (.removed r))
        refine ⟨.removed r :: ext, ?_, ?_, ?_⟩
        · simp only []; rw [h1]; simp [St.push]
        · intro e he; cases he with
          | head => rfl
          | tail _ h => exact h2 e h
        · simp only []; rw [h3]; rfl
    | addAll c =>
      obtain ⟨ext, h1, h2, h3⟩ := ih { st with all := callerAdd st.all c }
      exact ⟨ext, by simp only [runActs]; rw [h1], h2, by simp only [runActs]; rw [h3]⟩
    | removeAll c =>
      simp only [runActs]
      cases hc : callerRemove st.all c with
      | none => exact ⟨[.raised], by simp [St.push], by simp [Ev.isBody], rfl⟩
      | some l =>
        obtain ⟨ext, h1, h2, h3⟩ := ih { st with all := l }
        exact ⟨ext, by simp only []; rw [h1], h2, by simp only []; rw [h3]⟩
    | raise => exact ⟨[.raised], by simp [runActs, St.push], by simp [Ev.isBody], rfl⟩
    | setPort p =>
      obtain ⟨ext, h1, h2, h3⟩ := ih ({ st with pk := (p, st.pk.2) }.push .mutated)
      refine ⟨.mutated :: ext, ?_, ?_, ?_⟩
      · simp only [runActs]; rw [h1]; simp [St.push]
      · intro e he; cases he with
        | head => rfl
        | tail _ h => exact h2 e h
      · simp only [runActs]; rw [h3]; rfl
    | setChan c =>
      obtain ⟨ext, h1, h2, h3⟩ := ih ({ st with pk := (st.pk.1, c) }.push .mutated)
      refine ⟨.mutated :: ext, ?_, ?_, ?_⟩
      · simp only [runActs]; rw [h1]; simp [St.push]
      · intro e he; cases he with
        | head => rfl
        | tail _ h => exact h2 e h
      · simp only [runActs]; rw [h3]; rfl

theorem invoke_trace (v : Variant) (beh : Beh) (st : St) (e : Ev) :
    ∃ ext, (invoke v beh st e).1.trace = st.trace ++ e :: ext ∧ (∀ x ∈ ext, x.isBody = true) ∧
      (invoke v beh st e).1.dead = st.dead := by
  obtain ⟨ext, h1, h2, h3⟩ := runActs_trace v (beh (st.push e).trace) (st.push e)
  refine ⟨ext, ?_, h2, ?_⟩
  · simp only [invoke]; rw [h1]; simp [St.push]
  · simp only [invoke]; rw [h3]; rfl

theorem invoke_dead (v : Variant) (beh : Beh) (st : St) (e : Ev) : (invoke v beh st e).1.dead = st.dead :=
  (invoke_trace v beh st e).choose_spec.2.2

/-- a projection that ignores body events sees nothing in a list of body events -/
theorem filterMap_body {α : Type} (f : Ev → Option α) (hf : ∀ e, e.isBody = true → f e = none) :
    ∀ ext : List Ev, (∀ e ∈ ext, e.isBody = true) → ext.filterMap f = [] := by
  intro ext
  induction ext with
  | nil => intro _; rfl
  | cons e es ih =>
    intro h
    rw [List.filterMap_cons, hf e (h e (by simp)), ih (fun x hx => h x (by simp [hx]))]

theorem asCall_body : ∀ e : Ev, e.isBody = true → e.asCall = none := by
  intro e h; cases e <;> simp_all [Ev.isBody, Ev.asCall]
theorem asAllCall_body : ∀ e : Ev, e.isBody = true → e.asAllCall = none := by
  intro e h; cases e <;> simp_all [Ev.isBody, Ev.asAllCall]
theorem asPkt_body : ∀ e : Ev, e.isBody = true → e.asPkt = none := by
  intro e h; cases e <;> simp_all [Ev.isBody, Ev.asPkt]
theorem asDelivery_body : ∀ e : Ev, e.isBody = true → e.asDelivery = none := by
  intro e h; cases e <;> simp_all [Ev.isBody, Ev.asDelivery]

/-- projection of the trace after invoking a callback -/
theorem invoke_proj {α : Type} (f : Ev → Option α) (hf : ∀ e, e.isBody = true → f e = none)
    (v : Variant) (beh : Beh) (st : St) (e : Ev) :
    (invoke v beh st e).1.trace.filterMap f = st.trace.filterMap f ++ (f e).toList := by
  obtain ⟨ext, h1, h2, _⟩ := invoke_trace v beh st e
  rw [h1, List.filterMap_append, List.filterMap_cons, filterMap_body f hf ext h2]
  cases f e <;> simp

/-! ### the snapshot dispatcher calls exactly the matching registrations of the snapshot -/

theorem dispatchSnap_dead (v : Variant) (beh : Beh) (hdr : Nat) : ∀ (rs : List Reg) (st : St),
    (dispatchSnap v beh hdr rs st).dead = st.dead := by
  intro rs
  induction rs with
  | nil => intro st; rfl
  | cons r rs ih =>
    intro st
    simp only [dispatchSnap]
    split
    · rw [ih]; exact invoke_dead v beh st (.call r)
    · exact ih st

/-- the trace only grows, by invocations of port callbacks and what their bodies do -/
theorem dispatchSnap_ext (v : Variant) (beh : Beh) (hdr : Nat) : ∀ (rs : List Reg) (st : St),
    ∃ ext, (dispatchSnap v beh hdr rs st).trace = st.trace ++ ext := by
  intro rs
  induction rs with
  | nil => intro st; exact ⟨[], by simp [dispatchSnap]⟩
  | cons r rs ih =>
    intro st
    simp only [dispatchSnap]
    split
    · obtain ⟨e1, h1, _, _⟩ := invoke_trace v beh st (.call r)
      obtain ⟨e2, h2⟩ := ih (invoke v beh st (.call r)).1
      exact ⟨Ev.call r :: e1 ++ e2, by rw [h2, h1]; simp⟩
    · exact ih st

theorem dispatchSnap_deliveries (v : Variant) (beh : Beh) (hdr : Nat) : ∀ (rs : List Reg) (st : St),
    deliveries (dispatchSnap v beh hdr rs st).trace
      = deliveries st.trace ++ (rs.filter (·.matches hdr)).map Ev.call := by
  intro rs
  induction rs with
  | nil => intro st; simp [dispatchSnap]
  | cons r rs ih =>
    intro st
    simp only [dispatchSnap]
    by_cases hm : r.matches hdr = true
    · rw [if_pos hm, ih, List.filter_cons_of_pos (by simpa using hm)]
      unfold deliveries
      rw [invoke_proj _ asDelivery_body]
      simp [Ev.asDelivery]
    · rw [if_neg hm, ih, List.filter_cons_of_neg (by simpa using hm)]

theorem dispatchSnap_calls (v : Variant) (beh : Beh) (hdr : Nat) : ∀ (rs : List Reg) (st : St),
    callsOf (dispatchSnap v beh hdr rs st).trace = callsOf st.trace ++ rs.filter (·.matches hdr) := by
  intro rs
  induction rs with
  | nil => intro st; simp [dispatchSnap]
  | cons r rs ih =>
    intro st
    simp only [dispatchSnap]
    by_cases hm : r.matches hdr = true
    · rw [if_pos hm, ih, List.filter_cons_of_pos (by simpa using hm)]
      unfold callsOf
      rw [invoke_proj _ asCall_body]
      simp [Ev.asCall]
    · rw [if_neg hm, ih, List.filter_cons_of_neg (by simpa using hm)]

theorem dispatchSnap_pkts (v : Variant) (beh : Beh) (hdr : Nat) : ∀ (rs : List Reg) (st : St),
    pktsOf (dispatchSnap v beh hdr rs st).trace = pktsOf st.trace := by
  intro rs
  induction rs with
  | nil => intro st; simp [dispatchSnap]
  | cons r rs ih =>
    intro st
    simp only [dispatchSnap]
    split
    · rw [ih]; unfold pktsOf; rw [invoke_proj _ asPkt_body]; simp [Ev.asPkt]
    · exact ih st

/-- the events of a snapshot dispatch satisfy the loose dispatch specification -/
theorem spec_of_calls {regs : List Reg} (hnd : regs.Nodup) {hdr : Nat} {ev : List Ev}
    (hc : callsOf ev = regs.filter (specMatches · hdr)) : SpecHolds regs hdr ev := by
  refine ⟨?_, ?_, ?_, ?_⟩
  · intro r hr _
    rw [hc]
    by_cases hm : specMatches r hdr = true
    · rw [if_pos hm, List.count_filter (by simpa using hm)]
      rw [hnd.count, if_pos hr]
    · rw [if_neg hm]
      exact List.count_eq_zero_of_not_mem (fun h => hm (by simpa using (List.mem_filter.mp h).2))
  · rw [hc]; exact hnd.sublist List.filter_sublist
  · intro r hr; rw [hc] at hr; simpa using (List.mem_filter.mp hr).2
  · rw [hc]; exact List.filter_sublist.trans List.filter_sublist

theorem newEvents_of_ext {st st' : St} {ext : List Ev} (h : st'.trace = st.trace ++ ext) :
    newEvents st st' = ext := by
  simp [newEvents, h]

/-! ### `remove_header_callback` -/

/-- erasing the first occurrence of `r` `n` times -/
def eraseN (r : Reg) : Nat → List Reg → List Reg
  | 0, l => l
  | n + 1, l => eraseN r n (l.erase r)

theorem listRemove_of_mem {l : List Reg} {x : Reg} (h : x ∈ l) : listRemove l x = some (l.erase x) := by
  simp [listRemove, h]

theorem removeGo_eq (r : Reg) : ∀ (xs l : List Reg), xs.count r ≤ l.count r →
    removeGo r xs l = some (eraseN r (xs.count r) l) := by
  intro xs
  induction xs with
  | nil => intro l _; rfl
  | cons x xs ih =>
    intro l hc
    simp only [removeGo]
    by_cases hx : x.same r = true
    · have hxr : x = r := (same_iff x r).mp hx
      subst hxr
      rw [List.count_cons_self] at hc
      have hmem : x ∈ l := List.count_pos_iff.mp (by omega)
      rw [if_pos hx, listRemove_of_mem hmem, Option.bind_some,
        ih (l.erase x) (by rw [List.count_erase_self]; omega), List.count_cons_self]
      rfl
    · have hxr : ¬ x = r := fun h => hx ((same_iff x r).mpr h)
      rw [List.count_cons_of_ne hxr] at hc
      rw [if_neg hx, ih l hc, List.count_cons_of_ne hxr]

theorem eraseN_filter (r : Reg) : ∀ (n : Nat) (l : List Reg), l.count r ≤ n → eraseN r n l = l.filter (· ≠ r) := by
  intro n
  induction n with
  | zero =>
    intro l h
    have : r ∉ l := fun hm => by have := List.count_pos_iff.mpr hm; omega
    simp only [eraseN]
    exact (List.filter_eq_self.mpr (fun a ha => by simpa using fun h : a = r => this (h ▸ ha))).symm
  | succ n ih =>
    intro l h
    simp only [eraseN]
    rw [ih (l.erase r) (by rw [List.count_erase_self]; omega)]
    induction l with
    | nil => rfl
    | cons a l ihl =>
      by_cases ha : a = r
      · subst ha; simp
      · have : (a == r) = false := by simpa using ha
        rw [List.erase_cons_tail (by simpa using ha), List.filter_cons_of_pos (by simpa using ha),
          List.filter_cons_of_pos (by simpa using ha)]
        congr 1
        by_cases hm : r ∈ l
        · exact ihl (by rw [List.count_cons_of_ne ha] at h; exact h)
        · rw [List.erase_of_not_mem hm]

theorem removeHeaderCallback_eq_filter (l : List Reg) (r : Reg) :
    removeHeaderCallback l r = some (l.filter (· ≠ r)) := by
  rw [removeHeaderCallback, removeGo_eq r l l (Nat.le_refl _), eraseN_filter r _ l (Nat.le_refl _)]

/-- the `list.remove` inside the old remove-while-iterating loop cannot raise either: it is applied to an
element just read from the list -/
theorem removeLiveGo_isSome (r : Reg) : ∀ (fuel i : Nat) (l : List Reg), (removeLiveGo r fuel i l).isSome = true := by
  intro fuel
  induction fuel with
  | zero => intro i l; rfl
  | succ f ih =>
    intro i l
    simp only [removeLiveGo]
    cases hx : l[i]? with
    | none => rfl
    | some x =>
      simp only []
      split
      · rw [listRemove_of_mem (List.mem_of_getElem? hx), Option.bind_some]; exact ih _ _
      · exact ih _ _

theorem remove_isSome (v : Variant) (l : List Reg) (r : Reg) : (v.remove l r).isSome = true := by
  unfold Variant.remove
  split
  · rw [removeHeaderCallback_eq_filter]; rfl
  · exact removeLiveGo_isSome r _ _ _

/-! ### bodies that cannot raise; the all-packet callbacks -/

theorem runActs_noRaise (v : Variant) : ∀ (acts : List Act) (st : St), NoRaise acts →
    (runActs v st acts).2 = false := by
  intro acts
  induction acts with
  | nil => intro st _; rfl
  | cons a as ih =>
    intro st h
    have ha := h a (by simp)
    have hr : NoRaise as := fun x hx => h x (by simp [hx])
    cases a with
    | add r => simp only [runActs]; exact ih _ hr
    | remove r =>
      simp only [runActs]
      cases hrm : v.remove st.regs r with
      | none => have := remove_isSome v st.regs r; rw [hrm] at this; cases this
      | some l => exact ih _ hr
    | addAll c => simp only [runActs]; exact ih _ hr
    | removeAll c => exact absurd rfl (ha.2 c)
    | raise => exact absurd rfl ha.1
    | setPort p => simp only [runActs]; exact ih _ hr
    | setChan c => simp only [runActs]; exact ih _ hr

/-- events appended by `Caller.call` -/
def Ev.isCaller : Ev → Bool
  | .callAll _ => true
  | .died => true
  | e => e.isBody

theorem callerGo_trace (v : Variant) (beh : Beh) : ∀ (cs : List Nat) (st : St),
    ∃ ext, (callerGo v beh cs st).trace = st.trace ++ ext ∧ (∀ e ∈ ext, e.isCaller = true) := by
  intro cs
  induction cs with
  | nil => intro st; exact ⟨[], by simp [callerGo]⟩
  | cons c cs ih =>
    intro st
    obtain ⟨e1, h1, hb1, _⟩ := invoke_trace v beh st (.callAll c)
    have hcaller : ∀ x ∈ Ev.callAll c :: e1, x.isCaller = true := by
      intro x hx
      cases hx with
      | head => rfl
      | tail _ hx => have := hb1 x hx; cases x <;> simp_all [Ev.isCaller, Ev.isBody]
    simp only [callerGo]
    cases hinv : invoke v beh st (.callAll c) with
    | mk st2 raised =>
      rw [hinv] at h1
      cases raised with
      | true =>
        refine ⟨Ev.callAll c :: e1 ++ [.died], ?_, ?_⟩
        · simp only [St.push]; simp only [] at h1; rw [h1]; simp
        · intro x hx
          rcases List.mem_append.mp hx with hx | hx
          · exact hcaller x hx
          · simp at hx; subst hx; rfl
      | false =>
        obtain ⟨e2, h2, hb2⟩ := ih st2
        refine ⟨Ev.callAll c :: e1 ++ e2, ?_, ?_⟩
        · simp only []; simp only [] at h1; rw [h2, h1]; simp
        · intro x hx
          rcases List.mem_append.mp hx with hx | hx
          · exact hcaller x hx
          · exact hb2 x hx

theorem filterMap_caller {α : Type} (f : Ev → Option α) (hf : ∀ e, e.isCaller = true → f e = none) :
    ∀ ext : List Ev, (∀ e ∈ ext, e.isCaller = true) → ext.filterMap f = [] := by
  intro ext
  induction ext with
  | nil => intro _; rfl
  | cons e es ih =>
    intro h
    rw [List.filterMap_cons, hf e (h e (by simp)), ih (fun x hx => h x (by simp [hx]))]

theorem asPkt_caller : ∀ e : Ev, e.isCaller = true → e.asPkt = none := by
  intro e h; cases e <;> simp_all [Ev.isCaller, Ev.isBody, Ev.asPkt]
theorem asDelivery_caller : ∀ e : Ev, e.isCaller = true → e.asDelivery = none := by
  intro e h; cases e <;> simp_all [Ev.isCaller, Ev.isBody, Ev.asDelivery]
theorem asCall_caller : ∀ e : Ev, e.isCaller = true → e.asCall = none := by
  intro e h; cases e <;> simp_all [Ev.isCaller, Ev.isBody, Ev.asCall]

/-- taking a packet and running the all-packet callbacks delivers nothing to port callbacks -/
theorem afterAll_proj {α : Type} (f : Ev → Option α) (hf : ∀ e, e.isCaller = true → f e = none)
    (v : Variant) (beh : Beh) (st : St) (hdr : Nat) :
    (afterAll v beh st hdr).trace.filterMap f = st.trace.filterMap f ++ (f (.pkt hdr)).toList := by
  obtain ⟨ext, h1, h2⟩ := callerGo_trace v beh (st.recv hdr).all (st.recv hdr)
  unfold afterAll callerCall
  rw [h1, List.filterMap_append, filterMap_caller f hf ext h2]
  simp only [St.recv, List.filterMap_append, List.append_nil]
  cases hf' : f (.pkt hdr) <;> simp [hf']

theorem getLast_push (st : St) (e : Ev) : (st.push e).trace.getLast? = some e := by
  simp [St.push]

theorem callerGo_quiet (v : Variant) (beh : Beh) (hq : AllPacketCallbacksQuiet beh) :
    ∀ (cs : List Nat) (st : St), (callerGo v beh cs st).dead = st.dead ∧
      allCallsOf (callerGo v beh cs st).trace = allCallsOf st.trace ++ cs := by
  intro cs
  induction cs with
  | nil => intro st; simp [callerGo]
  | cons c cs ih =>
    intro st
    have hnr : (invoke v beh st (.callAll c)).2 = false := by
      simp only [invoke]
      exact runActs_noRaise v _ _ (hq _ c (getLast_push st _))
    have hd := invoke_dead v beh st (.callAll c)
    have hp := invoke_proj _ asAllCall_body v beh st (.callAll c)
    simp only [callerGo]
    cases hinv : invoke v beh st (.callAll c) with
    | mk st2 raised =>
      rw [hinv] at hnr hd hp
      simp only [] at hnr hd hp
      subst hnr
      simp only []
      obtain ⟨i1, i2⟩ := ih st2
      refine ⟨by rw [i1, hd], ?_⟩
      rw [i2]; unfold allCallsOf; rw [hp]; simp [Ev.asAllCall]

/-! ### one packet, then a sequence of packets -/

theorem handlePacket_dead_of_dead (v : Variant) (beh : Beh) (st : St) (hdr : Nat) (h : st.dead = true) :
    handlePacket v beh st hdr = st := by
  simp [handlePacket, h]

theorem handlePacket_deliveries (v : Variant) (hv : v.snapDispatch = true) (hc : v.capturedHeader = true) (beh : Beh) (st : St) (hdr : Nat)
    (halive : st.dead = false) :
    deliveries (handlePacket v beh st hdr).trace = deliveries st.trace ++ Ev.pkt hdr ::
      (if (afterAll v beh st hdr).dead then []
       else ((afterAll v beh st hdr).regs.filter (·.matches hdr)).map Ev.call) := by
  have h1 : deliveries (afterAll v beh st hdr).trace = deliveries st.trace ++ [Ev.pkt hdr] := by
    unfold deliveries; rw [afterAll_proj _ asDelivery_caller]; rfl
  simp only [handlePacket, halive]
  by_cases hd : (afterAll v beh st hdr).dead = true
  · simp [hd, h1]
  · simp only [hd, dispatch, hv, hc, Bool.false_eq_true, if_false, if_true]
    rw [dispatchSnap_deliveries, h1]
    simp

theorem run_deliveries (v : Variant) (hv : v.snapDispatch = true) (hc : v.capturedHeader = true) (beh : Beh) :
    ∀ (hdrs : List Nat) (st : St), (∀ h ∈ hdrs, h < 256) →
      deliveries (run v beh st hdrs).trace = deliveries st.trace ++ expectedDeliveries v beh st hdrs := by
  intro hdrs
  induction hdrs with
  | nil => intro st _; simp [run, expectedDeliveries]
  | cons h hs ih =>
    intro st hb
    have hh : h < 256 := hb h (by simp)
    have ih' := ih (handlePacket v beh st h) (fun x hx => hb x (by simp [hx]))
    simp only [run, List.foldl_cons] at ih' ⊢
    rw [ih']
    by_cases hd : st.dead = true
    · rw [handlePacket_dead_of_dead v beh st h hd]
      have : ∀ l, expectedDeliveries v beh st l = [] := by
        intro l; cases l <;> simp [expectedDeliveries, hd]
      rw [this, this]
    · have hd' : st.dead = false := by simpa using hd
      rw [handlePacket_deliveries v hv hc beh st h hd']
      simp only [expectedDeliveries, hd', filter_matches_eq_spec _ hh]
      simp

theorem handlePacket_pkts (v : Variant) (hv : v.snapDispatch = true) (hc : v.capturedHeader = true) (beh : Beh) (st : St) (hdr : Nat)
    (halive : st.dead = false) :
    pktsOf (handlePacket v beh st hdr).trace = pktsOf st.trace ++ [hdr] := by
  have h1 : pktsOf (afterAll v beh st hdr).trace = pktsOf st.trace ++ [hdr] := by
    unfold pktsOf; rw [afterAll_proj _ asPkt_caller]; rfl
  simp only [handlePacket, halive]
  by_cases hd : (afterAll v beh st hdr).dead = true
  · simp [hd, h1]
  · simp only [hd, dispatch, hv, hc, Bool.false_eq_true, if_false, if_true]
    rw [dispatchSnap_pkts, h1]

theorem handlePacket_alive (v : Variant) (hv : v.snapDispatch = true) (hc : v.capturedHeader = true) (beh : Beh)
    (hq : AllPacketCallbacksQuiet beh) (st : St) (hdr : Nat) (halive : st.dead = false) :
    (handlePacket v beh st hdr).dead = false := by
  have h1 : (afterAll v beh st hdr).dead = false := by
    unfold afterAll callerCall
    rw [(callerGo_quiet v beh hq _ _).1]
    exact halive
  simp only [handlePacket, halive, h1, dispatch, hv, hc]
  simp only [Bool.false_eq_true, if_false, if_true]
  rw [dispatchSnap_dead]; exact h1

theorem run_processes_all (v : Variant) (hv : v.snapDispatch = true) (hc : v.capturedHeader = true) (beh : Beh)
    (hq : AllPacketCallbacksQuiet beh) : ∀ (hdrs : List Nat) (st : St), st.dead = false →
      (run v beh st hdrs).dead = false ∧ pktsOf (run v beh st hdrs).trace = pktsOf st.trace ++ hdrs := by
  intro hdrs
  induction hdrs with
  | nil => intro st h; simp [run, h]
  | cons h hs ih =>
    intro st halive
    have := ih (handlePacket v beh st h) (handlePacket_alive v hv hc beh hq st h halive)
    simp only [run, List.foldl_cons] at this ⊢
    rw [this.2, handlePacket_pkts v hv hc beh st h halive]
    exact ⟨this.1, by simp⟩

/-! ### packet objects: the "no packet" test -/

theorem receive_eq (v : Variant) (beh : Beh) (st : St) (p : Pkt) (h : p.skipped = false) :
    receive v beh st p = handlePacket v beh st p.hdr := by
  unfold receive
  by_cases hd : st.dead = true
  · rw [if_pos hd, handlePacket_dead_of_dead v beh st p.hdr hd]
  · rw [if_neg hd, h]; rfl

theorem runPkts_eq_run (v : Variant) (beh : Beh) (hs : ∀ p : Pkt, p.skipped = false) :
    ∀ (pkts : List Pkt) (st : St), runPkts v beh st pkts = run v beh st (pkts.map (·.hdr)) := by
  intro pkts
  induction pkts with
  | nil => intro st; rfl
  | cons p ps ih =>
    intro st
    simp only [runPkts, run, List.foldl_cons, List.map_cons] at ih ⊢
    rw [receive_eq v beh st p (hs p)]
    exact ih _

theorem dispatchSnap_allCalls (v : Variant) (beh : Beh) (hdr : Nat) : ∀ (rs : List Reg) (st : St),
    allCallsOf (dispatchSnap v beh hdr rs st).trace = allCallsOf st.trace := by
  intro rs
  induction rs with
  | nil => intro st; simp [dispatchSnap]
  | cons r rs ih =>
    intro st
    simp only [dispatchSnap]
    split
    · rw [ih]; unfold allCallsOf; rw [invoke_proj _ asAllCall_body]; simp [Ev.asAllCall]
    · exact ih st

/-- one packet: the all-packet callbacks registered when it is taken all get it, once, in order -/
theorem handlePacket_allCalls (v : Variant) (hv : v.snapDispatch = true) (hc : v.capturedHeader = true) (beh : Beh)
    (hq : AllPacketCallbacksQuiet beh) (st : St) (hdr : Nat) (halive : st.dead = false) :
    allCallsOf (handlePacket v beh st hdr).trace = allCallsOf st.trace ++ st.all := by
  have hq' := callerGo_quiet v beh hq (st.recv hdr).all (st.recv hdr)
  have h1 : allCallsOf (afterAll v beh st hdr).trace = allCallsOf st.trace ++ st.all := by
    unfold afterAll callerCall; rw [hq'.2]; simp [St.recv, allCallsOf, Ev.asAllCall]
  have h2 : (afterAll v beh st hdr).dead = false := by
    unfold afterAll callerCall; rw [hq'.1]; exact halive
  simp only [handlePacket, halive, h2, dispatch, hv, hc, Bool.false_eq_true, if_false, if_true]
  rw [dispatchSnap_allCalls, h1]

theorem handlePacket_ext (v : Variant) (hv : v.snapDispatch = true) (hc : v.capturedHeader = true) (beh : Beh) (st : St) (hdr : Nat) :
    ∃ ext, (handlePacket v beh st hdr).trace = st.trace ++ ext := by
  unfold handlePacket
  by_cases hd : st.dead = true
  · exact ⟨[], by simp [hd]⟩
  · obtain ⟨e1, h1, _⟩ := callerGo_trace v beh (st.recv hdr).all (st.recv hdr)
    have ha : (afterAll v beh st hdr).trace = st.trace ++ (Ev.pkt hdr :: e1) := by
      unfold afterAll callerCall; rw [h1]; simp [St.recv]
    have hd' : st.dead = false := by simpa using hd
    simp only [hd', Bool.false_eq_true, if_false]
    by_cases hd2 : (afterAll v beh st hdr).dead = true
    · exact ⟨_, by simp only [hd2, if_true]; exact ha⟩
    · obtain ⟨e2, h2⟩ := dispatchSnap_ext v beh hdr (afterAll v beh st hdr).regs (afterAll v beh st hdr)
      refine ⟨Ev.pkt hdr :: e1 ++ e2, ?_⟩
      have hd2' : (afterAll v beh st hdr).dead = false := by simpa using hd2
      simp only [hd2', Bool.false_eq_true, if_false, dispatch, hv, hc, if_true]
      rw [h2, ha]; simp

/-! ### callbacks that only raise leave the registry alone -/

theorem runActs_static (v : Variant) (st : St) (acts : List Act) (h : ∀ a ∈ acts, a = Act.raise) :
    (runActs v st acts).1.regs = st.regs ∧ (runActs v st acts).1.all = st.all := by
  cases acts with
  | nil => simp [runActs]
  | cons a as =>
    have := h a (by simp)
    subst this
    simp [runActs, St.push]

theorem dispatchSnap_static (v : Variant) (beh : Beh) (hs : ∀ tr, ∀ a ∈ beh tr, a = Act.raise) (hdr : Nat) :
    ∀ (rs : List Reg) (st : St), (dispatchSnap v beh hdr rs st).regs = st.regs ∧
      (dispatchSnap v beh hdr rs st).all = st.all := by
  intro rs
  induction rs with
  | nil => intro st; simp [dispatchSnap]
  | cons r rs ih =>
    intro st
    simp only [dispatchSnap]
    split
    · obtain ⟨i1, i2⟩ := ih (invoke v beh st (.call r)).1
      obtain ⟨j1, j2⟩ := runActs_static v (st.push (.call r)) (beh (st.push (.call r)).trace) (hs _)
      simp only [invoke] at i1 i2 ⊢
      rw [i1, i2, j1, j2]
      simp [St.push]
    · exact ih st


theorem afterAll_no_all (v : Variant) (beh : Beh) (st : St) (hdr : Nat) (hall : st.all = []) :
    afterAll v beh st hdr = st.recv hdr := by
  simp [afterAll, callerCall, St.recv, hall, callerGo]

theorem handlePacket_static (v : Variant) (hv : v.snapDispatch = true) (hc : v.capturedHeader = true) (beh : Beh)
    (hs : ∀ tr, ∀ a ∈ beh tr, a = Act.raise) (st : St) (hdr : Nat) (halive : st.dead = false)
    (hall : st.all = []) :
    (handlePacket v beh st hdr).regs = st.regs ∧ (handlePacket v beh st hdr).all = [] ∧
    (handlePacket v beh st hdr).dead = false ∧
    deliveries (handlePacket v beh st hdr).trace
      = deliveries st.trace ++ Ev.pkt hdr :: (st.regs.filter (·.matches hdr)).map Ev.call := by
  have hd := handlePacket_deliveries v hv hc beh st hdr halive
  rw [afterAll_no_all v beh st hdr hall] at hd
  simp only [St.recv, halive, Bool.false_eq_true, if_false] at hd
  refine ⟨?_, ?_, ?_, hd⟩
  all_goals
    simp only [handlePacket, halive, afterAll_no_all v beh st hdr hall, dispatch, hv, hc, St.recv,
      Bool.false_eq_true, if_false, if_true]
  · rw [(dispatchSnap_static v beh hs hdr _ _).1]
  · rw [(dispatchSnap_static v beh hs hdr _ _).2]; exact hall
  · rw [dispatchSnap_dead]

theorem run_static (v : Variant) (hv : v.snapDispatch = true) (hc : v.capturedHeader = true) (beh : Beh)
    (hs : ∀ tr, ∀ a ∈ beh tr, a = Act.raise) : ∀ (hdrs : List Nat) (st : St), st.dead = false → st.all = [] →
      (∀ h ∈ hdrs, h < 256) →
      deliveries (run v beh st hdrs).trace = deliveries st.trace ++
        hdrs.flatMap (fun h => Ev.pkt h :: (st.regs.filter (specMatches · h)).map Ev.call) ∧
      (run v beh st hdrs).regs = st.regs ∧ (run v beh st hdrs).dead = false := by
  intro hdrs
  induction hdrs with
  | nil => intro st h _ _; simp [run, h]
  | cons h hs' ih =>
    intro st halive hall hb
    obtain ⟨h1, h2, h3, h4⟩ := handlePacket_static v hv hc beh hs st h halive hall
    have := ih (handlePacket v beh st h) h3 h2 (fun x hx => hb x (by simp [hx]))
    simp only [run, List.foldl_cons] at this ⊢
    rw [this.1, this.2.1, this.2.2, h4, h1, filter_matches_eq_spec _ (hb h (by simp))]
    simp

/-! ### the Caller -/

theorem callerAdd_nodup (l : List Nat) (c : Nat) (h : l.Nodup) : (callerAdd l c).Nodup := by
  unfold callerAdd
  split
  · exact h
  · rename_i hc
    have hc' : c ∉ l := by simpa using hc
    rw [List.nodup_append]
    refine ⟨h, by simp, ?_⟩
    intro a ha b hb
    simp at hb; subst hb
    exact fun hab => hc' (hab ▸ ha)

theorem callerRemove_spec (l : List Nat) (c : Nat) (h : l.Nodup) :
    (c ∈ l → ∃ l', callerRemove l c = some l' ∧ c ∉ l' ∧ l' = l.filter (· ≠ c)) ∧
    (c ∉ l → callerRemove l c = none) := by
  unfold callerRemove
  constructor
  · intro hc
    refine ⟨l.erase c, by simp [hc], ?_, ?_⟩
    · exact fun hm => (List.Nodup.mem_erase_iff h).mp hm |>.1 rfl
    · rw [List.Nodup.erase_eq_filter h c]; congr 1; funext x; by_cases hx : x = c <;> simp [hx]
  · intro hc; simp [hc]

end CfVerif.C07

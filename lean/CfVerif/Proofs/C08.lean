/- Proofs/C08 — helper lemmas for Props/C08: struct.pack on numbers vs the firmware's unpacking. -/
import CfVerif.Model.C08
import CfVerif.Spec.C08
import CfVerif.Base.StructLemmas
namespace CfVerif.C08
open CfVerif

/-! ### representable arguments (spec vocabulary) -/

/-- the binary32 pattern the firmware receives for a number sent in a `float` field, if it is representable -/
def f32? (x : Num) : Option Nat :=
  match x.conv with
  | .bits b => if b < 2 ^ 32 then some b else none
  | .err _ => none

/-- a Python int (or bool) within an unsigned field of `n` bytes -/
def uint? (n : Nat) (x : Num) : Option Nat :=
  match x with
  | .i (.ofNat v) _ => if v < 256 ^ n then some v else none
  | _ => none

/-- an int within a signed field of `n` bytes -/
def sint? (n : Nat) (v : Int) : Option Int :=
  match v with
  | .ofNat m => if m < 256 ^ n / 2 then some v else none
  | .negSucc m => if m < 256 ^ n / 2 then some v else none

/-! ### one number -/

def codeSupported : Code → Bool
  | .B | .H | .I | .h | .f | .bool => true
  | _ => false

/-- the value the firmware's `unpack` yields for a successfully packed number -/
def Num.asVal (c : Code) (x : Num) : Val :=
  match c with
  | .f => .flt ((f32? x).getD 0)
  | .bool => .bool x.truthy
  | _ => match x with
    | .i v _ => .int v
    | .f _ _ => .int 0

theorem packNum_ok {c : Code} {x : Num} {a : List UInt8} (hc : codeSupported c = true) (h : packNum c x = .ok a) :
    a.length = c.size ∧ unpackOne c a = x.asVal c := by
  cases c <;> simp only [codeSupported] at hc <;> try (cases hc; done)
  case f =>
    unfold packNum at h
    cases hx : x.conv with
    | bits b =>
      rw [hx] at h
      simp only [packOne] at h
      obtain ⟨hb, rfl⟩ := packFlt_ok h
      refine ⟨by simp [Code.size], ?_⟩
      simp only [unpackOne, Num.asVal, f32?, hx]
      rw [leVal_leBytes_of_lt hb, if_pos (by simpa using hb)]; rfl
    | err e => rw [hx] at h; cases h
  case bool =>
    simp only [packNum] at h
    cases h
    refine ⟨rfl, ?_⟩
    cases hx : x.truthy <;> simp [unpackOne, Num.asVal, leVal, hx]
  all_goals
    cases x with
    | f d cv => simp only [packNum] at h; cases h
    | i v cv =>
      simp only [packNum] at h
      exact ⟨packOne_length h, by rw [unpackOne_packOne (by rfl) h]; rfl⟩

theorem packNum_f_ok {x : Num} {a : List UInt8} (h : packNum .f x = .ok a) : ∃ b, f32? x = some b ∧ a = leBytes 4 b := by
  unfold packNum at h
  cases hx : x.conv with
  | bits b =>
    rw [hx] at h
    simp only [packOne] at h
    obtain ⟨hb, rfl⟩ := packFlt_ok h
    exact ⟨b, by simp only [f32?, hx]; rw [if_pos (by simpa using hb)], rfl⟩
  | err e => rw [hx] at h; cases h

theorem packNum_uint_ok {c : Code} {n : Nat} (hc : (c = .B ∧ n = 1) ∨ (c = .H ∧ n = 2) ∨ (c = .I ∧ n = 4))
    {x : Num} {a : List UInt8} (h : packNum c x = .ok a) : ∃ v, uint? n x = some v ∧ x.asVal c = .int v := by
  cases x with
  | f d cv => rcases hc with ⟨rfl, _⟩ | ⟨rfl, _⟩ | ⟨rfl, _⟩ <;> (simp only [packNum] at h; cases h)
  | i v cv =>
    have hp : packUnsigned n v = .ok a := by
      rcases hc with ⟨rfl, rfl⟩ | ⟨rfl, rfl⟩ | ⟨rfl, rfl⟩ <;> simpa only [packNum, packOne] using h
    cases v with
    | ofNat m =>
      simp only [packUnsigned] at hp
      split at hp
      · rename_i hlt
        refine ⟨m, by simp only [uint?]; rw [if_pos hlt], ?_⟩
        rcases hc with ⟨rfl, _⟩ | ⟨rfl, _⟩ | ⟨rfl, _⟩ <;> rfl
      · cases hp
    | negSucc m => cases hp

/-! ### whole formats -/

def asVals : Fmt → List Num → List Val
  | c :: cs, x :: xs => x.asVal c :: asVals cs xs
  | _, _ => []

def fmtSupported (f : Fmt) : Bool := f.all codeSupported

theorem packNums_cons {c : Code} {cs : Fmt} {x : Num} {xs : List Num} {bs : List UInt8}
    (h : packNums (c :: cs) (x :: xs) = .ok bs) :
    ∃ a r, packNum c x = .ok a ∧ packNums cs xs = .ok r ∧ bs = a ++ r := by
  simp only [packNums, bind, Except.bind] at h
  split at h
  · cases h
  · rename_i a ha
    split at h
    · cases h
    · rename_i r hr
      cases h
      exact ⟨a, r, ha, hr, rfl⟩

theorem packNums_length : ∀ {f : Fmt} {xs : List Num} {bs : List UInt8}, fmtSupported f = true →
    packNums f xs = .ok bs → bs.length = Fmt.size f
  | [], [], bs, _, h => by cases h; rfl
  | [], _ :: _, _, _, h => by cases h
  | _ :: _, [], _, _, h => by cases h
  | c :: cs, x :: xs, bs, hs, h => by
    obtain ⟨a, r, ha, hr, rfl⟩ := packNums_cons h
    simp only [fmtSupported, List.all_cons, Bool.and_eq_true] at hs
    have := (packNum_ok hs.1 ha).1
    have := packNums_length (f := cs) hs.2 hr
    simp [Fmt.size, *]

/-- the firmware-side `unpack` of a successfully packed argument list returns the arguments -/
theorem unpack_packNums : ∀ {f : Fmt} {xs : List Num} {bs : List UInt8}, fmtSupported f = true →
    packNums f xs = .ok bs → unpack f bs = .ok (asVals f xs)
  | [], [], bs, _, h => by cases h; rfl
  | [], _ :: _, _, _, h => by cases h
  | _ :: _, [], _, _, h => by cases h
  | c :: cs, x :: xs, bs, hs, h => by
    obtain ⟨a, r, ha, hr, rfl⟩ := packNums_cons h
    simp only [fmtSupported, List.all_cons, Bool.and_eq_true] at hs
    obtain ⟨hl, hv⟩ := packNum_ok hs.1 ha
    have ih := unpack_packNums (f := cs) hs.2 hr
    have htv : c.takesVal = true := by cases c <;> first | rfl | (cases hs.1)
    simp [unpack, hl, htv, ih, hv, asVals, bind, Except.bind, pure, Except.pure]

theorem unpackAs_packNums {f : Fmt} {xs : List Num} {bs : List UInt8} (hs : fmtSupported f = true)
    (h : packNums f xs = .ok bs) : Fw.unpackAs f bs = some (asVals f xs) := by
  unfold Fw.unpackAs; rw [unpack_packNums hs h]

/-- a leading constant type / command byte -/
theorem packNums_tag {cs : Fmt} {t : Nat} (ht : t < 256) {xs : List Num} {bs : List UInt8}
    (h : packNums (.B :: cs) (k t :: xs) = .ok bs) :
    ∃ r, bs = UInt8.ofNat t :: r ∧ packNums cs xs = .ok r := by
  obtain ⟨a, r, ha, hr, rfl⟩ := packNums_cons h
  refine ⟨r, ?_, hr⟩
  simp only [k, packNum, packOne] at ha
  have : packUnsigned 1 (Int.ofNat t) = .ok [UInt8.ofNat t] := by
    simp only [packUnsigned]; rw [if_pos (by simpa using ht)]
    simp [leBytes, Nat.mod_eq_of_lt ht]
  have ha' : packUnsigned 1 (Int.ofNat t) = .ok a := ha
  rw [this] at ha'
  cases ha'; rfl

/-! ### successful packing means every argument is representable in its field -/

theorem uint?_some {n : Nat} {x : Num} {v : Nat} (h : uint? n x = some v) :
    ∃ cv, x = .i (v : Int) cv ∧ v < 256 ^ n := by
  cases x with
  | f d cv => cases h
  | i w cv =>
    cases w with
    | ofNat m =>
      simp only [uint?] at h
      split at h
      · rename_i hlt; cases h; exact ⟨cv, rfl, hlt⟩
      · cases h
    | negSucc m => cases h

theorem uint?_ofNat {n v : Nat} {cv : Conv} (h : v < 256 ^ n) : uint? n (.i (v : Int) cv) = some v := by
  show uint? n (.i (Int.ofNat v) cv) = some v
  simp only [uint?]; rw [if_pos h]

theorem sint?_some {n : Nat} {v w : Int} (h : sint? n v = some w) : w = v := by
  cases v <;> simp only [sint?] at h <;> split at h <;> first | (cases h; rfl) | cases h

def Repr1 (c : Code) (x : Num) : Prop :=
  match c with
  | .f => ∃ b, f32? x = some b
  | .B => ∃ (v : Nat) (cv : Conv), x = .i (v : Int) cv ∧ v < 256 ^ 1
  | .H => ∃ (v : Nat) (cv : Conv), x = .i (v : Int) cv ∧ v < 256 ^ 2
  | .I => ∃ (v : Nat) (cv : Conv), x = .i (v : Int) cv ∧ v < 256 ^ 4
  | .h => ∃ v cv, x = .i v cv ∧ sint? 2 v = some v
  | _ => True

def AllRepr : Fmt → List Num → Prop
  | c :: cs, x :: xs => Repr1 c x ∧ AllRepr cs xs
  | _, _ => True

theorem packSigned_sint? {n : Nat} {v : Int} {a : List UInt8} (h : packSigned n v = .ok a) : sint? n v = some v := by
  cases v <;> simp only [packSigned] at h <;> split at h <;>
    first | (rename_i hlt; simp only [sint?]; rw [if_pos hlt]) | cases h

theorem packNums_allRepr : ∀ {f : Fmt} {xs : List Num} {bs : List UInt8}, packNums f xs = .ok bs → AllRepr f xs
  | [], _, _, _ => trivial
  | _ :: _, [], _, _ => trivial
  | c :: cs, x :: xs, bs, h => by
    obtain ⟨a, r, ha, hr, rfl⟩ := packNums_cons h
    refine ⟨?_, packNums_allRepr hr⟩
    cases c <;> try trivial
    · obtain ⟨v, hv, _⟩ := packNum_uint_ok (n := 1) (Or.inl ⟨rfl, rfl⟩) ha
      obtain ⟨cv, rfl, hlt⟩ := uint?_some hv; exact ⟨v, cv, rfl, hlt⟩
    · obtain ⟨v, hv, _⟩ := packNum_uint_ok (n := 2) (Or.inr (Or.inl ⟨rfl, rfl⟩)) ha
      obtain ⟨cv, rfl, hlt⟩ := uint?_some hv; exact ⟨v, cv, rfl, hlt⟩
    · cases x with
      | f d cv => simp only [packNum] at ha; cases ha
      | i v cv =>
        simp only [packNum, packOne] at ha
        exact ⟨v, cv, rfl, packSigned_sint? ha⟩
    · obtain ⟨v, hv, _⟩ := packNum_uint_ok (n := 4) (Or.inr (Or.inr ⟨rfl, rfl⟩)) ha
      obtain ⟨cv, rfl, hlt⟩ := uint?_some hv; exact ⟨v, cv, rfl, hlt⟩
    · obtain ⟨b, hb, _⟩ := packNum_f_ok ha; exact ⟨b, hb⟩

/-! ### exact comparisons of Python numbers with double constants -/

/-- `ratLt n1 e1 n2 e2` decides `n1 * 2^e1 < n2 * 2^e2` (the common factor 2^-1075 of both doubles dropped) -/
theorem ratLt_iff (n1 n2 : Int) (e1 e2 : Nat) :
    ratLt n1 e1 n2 e2 = true ↔ n1 * ((2 ^ e1 : Nat) : Int) < n2 * ((2 ^ e2 : Nat) : Int) := by
  unfold ratLt
  simp only [decide_eq_true_eq]
  have hm1 : e1 = (e1 - min e1 e2) + min e1 e2 := by omega
  have hm2 : e2 = (e2 - min e1 e2) + min e1 e2 := by omega
  generalize min e1 e2 = m at hm1 hm2
  generalize e1 - m = a at hm1
  generalize e2 - m = b at hm2
  subst hm1; subst hm2
  have hpos : (0 : Int) < ((2 ^ m : Nat) : Int) := by exact_mod_cast Nat.two_pow_pos m
  rw [Nat.pow_add, Nat.pow_add]
  push_cast
  rw [← Int.mul_assoc, ← Int.mul_assoc]
  constructor
  · intro h; exact Int.mul_lt_mul_of_pos_right h hpos
  · intro h; exact Int.lt_of_mul_lt_mul_right h (Int.le_of_lt hpos)
/-- the scaled integer value of a finite double: `value * 2^1075 = f64Num d * 2^(f64Ex d)` -/
def f64Scaled (d : Nat) : Int := f64Num d * ((2 ^ f64Ex d : Nat) : Int)

theorem gtF64_finite (d : Nat) (cv : Conv) (c : Nat) (hd : f64Exp d ≠ 2047) (hc : f64Exp c ≠ 2047) :
    (Num.f d cv).gtF64 c = true ↔ f64Scaled c < f64Scaled d := by
  have h1 : f64IsNaN d = false := by simp [f64IsNaN, hd]
  have h2 : f64IsNaN c = false := by simp [f64IsNaN, hc]
  have h3 : f64IsInf d = false := by simp [f64IsInf, hd]
  have h4 : f64IsInf c = false := by simp [f64IsInf, hc]
  simp only [Num.gtF64, h1, h2, h3, h4, Bool.not_false, Bool.true_and, Bool.false_eq_true, if_false]
  exact ratLt_iff _ _ _ _

theorem ltF64_finite (d : Nat) (cv : Conv) (c : Nat) (hd : f64Exp d ≠ 2047) (hc : f64Exp c ≠ 2047) :
    (Num.f d cv).ltF64 c = true ↔ f64Scaled d < f64Scaled c := by
  have h1 : f64IsNaN d = false := by simp [f64IsNaN, hd]
  have h2 : f64IsNaN c = false := by simp [f64IsNaN, hc]
  have h3 : f64IsInf d = false := by simp [f64IsInf, hd]
  have h4 : f64IsInf c = false := by simp [f64IsInf, hc]
  simp only [Num.ltF64, h1, h2, h3, h4, Bool.not_false, Bool.true_and, Bool.false_eq_true, if_false]
  exact ratLt_iff _ _ _ _

theorem gtF64_int (v : Int) (cv : Conv) (c : Nat) (hc : f64Exp c ≠ 2047) :
    (Num.i v cv).gtF64 c = true ↔ f64Scaled c < v * ((2 ^ 1075 : Nat) : Int) := by
  have h2 : f64IsNaN c = false := by simp [f64IsNaN, hc]
  have h4 : f64IsInf c = false := by simp [f64IsInf, hc]
  simp only [Num.gtF64, h2, h4, Bool.not_false, Bool.true_and, Bool.false_eq_true, if_false]
  exact ratLt_iff _ _ _ _

theorem ltF64_int (v : Int) (cv : Conv) (c : Nat) (hc : f64Exp c ≠ 2047) :
    (Num.i v cv).ltF64 c = true ↔ v * ((2 ^ 1075 : Nat) : Int) < f64Scaled c := by
  have h2 : f64IsNaN c = false := by simp [f64IsNaN, hc]
  have h4 : f64IsInf c = false := by simp [f64IsInf, hc]
  simp only [Num.ltF64, h2, h4, Bool.not_false, Bool.true_and, Bool.false_eq_true, if_false]
  exact ratLt_iff _ _ _ _

theorem nan_compares_false (d : Nat) (cv : Conv) (c : Nat) (hd : f64IsNaN d = true) :
    (Num.f d cv).gtF64 c = false ∧ (Num.f d cv).ltF64 c = false := by
  simp [Num.gtF64, Num.ltF64, hd]

/-! ### send / size check -/

theorem send_ok {p : Packet} {ps : List Packet} (h : send p = .ok ps) :
    ps = [p] ∧ p.data.length ≤ Gen.C08.maxDataSize := by
  unfold send at h
  split at h
  · rename_i hle; cases h; exact ⟨rfl, hle⟩
  · cases h

theorem build_ok {port chan : Nat} {fmt : String} {args : List Num} {ps : List Packet}
    (h : build port chan fmt args = .ok ps) :
    ∃ d, packNums (parseFmt! fmt) args = .ok d ∧ ps = [mkPacket port chan d] ∧ d.length ≤ Gen.C08.maxDataSize := by
  simp only [build, bind, Except.bind] at h
  split at h
  · cases h
  · rename_i d hd
    obtain ⟨rfl, hl⟩ := send_ok h
    exact ⟨d, hd, rfl, hl⟩

theorem hlSend_ok {data : Except PyErr (List UInt8)} {ps : List Packet} (h : hlSend data = .ok ps) :
    ∃ d, data = .ok d ∧ ps = [mkPacket Gen.C08.Port.SETPOINT_HL defaultChan d] ∧ d.length ≤ Gen.C08.maxDataSize := by
  cases data with
  | error e => cases h
  | ok d =>
    simp only [hlSend, bind, Except.bind] at h
    obtain ⟨rfl, hl⟩ := send_ok h
    exact ⟨d, rfl, rfl, hl⟩

end CfVerif.C08

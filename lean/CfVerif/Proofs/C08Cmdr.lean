/- Proofs/C08Cmdr — per-method decode lemmas: Commander (all but full state). -/
import CfVerif.Proofs.C08Spec
namespace CfVerif.C08
open CfVerif

/-- what the property demands of one call: if the call hands packets to the link then it is exactly one packet,
its payload fits a CRTP packet, the arguments were all representable, and the firmware decodes the packet to
the command the arguments denote -/
def Sound1 (ver : Int) (c : Call) : Prop :=
  ∀ ps, emit ver c = .ok ps → c.Pre ver →
    ∃ p, ps = [p] ∧ p.data.length ≤ 30 ∧ (expected? ver c).isSome ∧ Fw.decode ver p.header p.data = expected? ver c

/-! ### sign flips -/

theorem flipBit_lt {b : Nat} (h : b < 2 ^ 32) : flipBit 31 b < 2 ^ 32 := by
  unfold flipBit; split <;> try split
  all_goals omega

theorem lt_of_flipBit_lt {b : Nat} (h : flipBit 31 b < 2 ^ 32) : b < 2 ^ 32 := by
  unfold flipBit at h; split at h <;> try split at h
  all_goals omega

theorem fneg_flipBit {b : Nat} (h : b < 2 ^ 32) : Fw.fneg (flipBit 31 b) = b := by
  unfold Fw.fneg flipBit; split <;> split <;> try split
  all_goals omega

theorem f32?_lt {x : Num} {b : Nat} (h : f32? x = some b) : b < 2 ^ 32 := by
  unfold f32? at h
  split at h
  · split at h
    · cases h; assumption
    · cases h
  · cases h

theorem conv_of_f32? {x : Num} {b : Nat} (h : f32? x = some b) : x.conv = .bits b := by
  unfold f32? at h
  split at h
  · rename_i b' hb; split at h
    · cases h; exact hb
    · cases h
  · cases h

/-- the binary32 pattern of `-x` is the pattern of `x` with bit 31 flipped (x not the int 0) -/
theorem f32?_neg {x : Num} (hz : x.isIntZero = false) {c : Nat} (h : f32? x.neg = some c) :
    f32? x = some (Fw.fneg c) := by
  have hc := f32?_lt h
  have hconv := conv_of_f32? h
  cases x with
  | f d cv =>
    simp only [Num.neg, Num.conv] at hconv
    cases cv with
    | bits b =>
      simp only [Conv.neg, Conv.bits.injEq] at hconv
      subst hconv
      have hb : b < 2 ^ 32 := lt_of_flipBit_lt hc
      simp only [f32?, Num.conv]
      rw [if_pos hb, fneg_flipBit hb]
    | err e => cases hconv
  | i v cv =>
    have hv : v ≠ 0 := by simpa [Num.isIntZero] using hz
    simp only [Num.neg, Num.conv, if_neg hv] at hconv
    cases cv with
    | bits b =>
      simp only [Conv.neg, Conv.bits.injEq] at hconv
      subst hconv
      have hb : b < 2 ^ 32 := lt_of_flipBit_lt hc
      simp only [f32?, Num.conv]
      rw [if_pos hb, fneg_flipBit hb]
    | err e => cases hconv

theorem neg_of_isIntZero {x : Num} (hz : x.isIntZero = true) : x.neg = x := by
  cases x with
  | f d cv => cases hz
  | i v cv =>
    have hv : v = 0 := by simpa [Num.isIntZero] using hz
    subst hv
    simp [Num.neg]

theorem fneg_fneg {b : Nat} (h : b < 2 ^ 32) : Fw.fneg (Fw.fneg b) = b := by
  unfold Fw.fneg; split <;> split <;> omega

/-- what the firmware uses after negating the pre-negated legacy yaw rate -/
theorem legacyYaw?_of_neg {x : Num} {c : Nat} (h : f32? x.neg = some c) : legacyYaw? x = some (Fw.fneg c) := by
  unfold legacyYaw?
  cases hz : x.isIntZero with
  | true => rw [neg_of_isIntZero hz] at h; simp [h]
  | false => simpa using f32?_neg hz h

/-- the pitch field on the wire -/
theorem pitchWire?_of_neg {x : Num} {c : Nat} (h : f32? x.neg = some c) : pitchWire? x = some c := by
  unfold pitchWire?
  cases hz : x.isIntZero with
  | true => rw [neg_of_isIntZero hz] at h; simp [h]
  | false => simp [f32?_neg hz h, fneg_fneg (f32?_lt h)]

/-! ### formats (Tie A: the model packs with the regenerated strings; the firmware layouts are literal) -/

theorem fmt_setpoint : parseFmt! Gen.C08.setpoint_fmt0 = [.f, .f, .f, .H] := by decide
theorem fmt_notifyStop : parseFmt! Gen.C08.notifyStop_fmt0 = [.B, .I] := by decide
theorem fmt_stopSetpoint : parseFmt! Gen.C08.stopSetpoint_fmt0 = [.B] := by decide
theorem fmt_velocityWorld0 : parseFmt! Gen.C08.velocityWorld_fmt0 = [.B, .f, .f, .f, .f] := by decide
theorem fmt_velocityWorld1 : parseFmt! Gen.C08.velocityWorld_fmt1 = [.B, .f, .f, .f, .f] := by decide
theorem fmt_zdistance0 : parseFmt! Gen.C08.zdistance_fmt0 = [.B, .f, .f, .f, .f] := by decide
theorem fmt_zdistance1 : parseFmt! Gen.C08.zdistance_fmt1 = [.B, .f, .f, .f, .f] := by decide
theorem fmt_hover0 : parseFmt! Gen.C08.hover_fmt0 = [.B, .f, .f, .f, .f] := by decide
theorem fmt_hover1 : parseFmt! Gen.C08.hover_fmt1 = [.B, .f, .f, .f, .f] := by decide
theorem fmt_position : parseFmt! Gen.C08.position_fmt0 = [.B, .f, .f, .f, .f] := by decide

/-! ### the methods -/

section
open Gen.C08
attribute [local simp] hdrExpr initChanExpr initPortExpr maxDataSize defaultChan
  Port.COMMANDER Port.COMMANDER_GENERIC Cmdr.SET_SETPOINT_CHANNEL Cmdr.META_COMMAND_CHANNEL
  Cmdr.TYPE_STOP Cmdr.TYPE_VELOCITY_WORLD_LEGACY Cmdr.TYPE_ZDISTANCE_LEGACY Cmdr.TYPE_HOVER_LEGACY
  Cmdr.TYPE_POSITION Cmdr.TYPE_VELOCITY_WORLD Cmdr.TYPE_ZDISTANCE Cmdr.TYPE_HOVER
  Cmdr.TYPE_META_COMMAND_NOTIFY_SETPOINT_STOP

theorem sound_setpoint (ver : Int) (xm : Bool) (roll pitch mr mp yaw thrust : Num) :
    Sound1 ver (.setpoint xm roll pitch mr mp yaw thrust) := by
  intro ps h hpre
  simp only [emit] at h
  split at h
  · cases h
  · obtain ⟨d, hd, rfl, hl⟩ := build_ok h
    rw [fmt_setpoint] at hd
    have hlen := packNums_length (by decide) hd
    have hu := unpackAs_packNums (by decide) hd
    obtain ⟨⟨a, ha⟩, ⟨b, hb⟩, ⟨c, hc⟩, ⟨t, cv, rfl, ht⟩, _⟩ := packNums_allRepr hd
    have hb' := pitchWire?_of_neg hb
    refine ⟨_, rfl, ?_, ?_, ?_⟩
    · simp [mkPacket, hlen, Fmt.size, Code.size]
    · simp [expected?, ha, hb', hc, uint?_ofNat ht]
    · simp [Fw.decode, mkPacket, Fw.decodeRpyt, hu, asVals, Num.asVal, ha, hb, hc, expected?, hb', uint?_ofNat ht]

theorem sound_notifyStop (ver : Int) (ms : Num) : Sound1 ver (.notifyStop ms) := by
  intro ps h _
  simp only [emit] at h
  obtain ⟨d, hd, rfl, hl⟩ := build_ok h
  rw [fmt_notifyStop] at hd
  have hlen := packNums_length (by decide) hd
  obtain ⟨r, rfl, hr⟩ := packNums_tag (by decide) hd
  have hu := unpackAs_packNums (by decide) hr
  obtain ⟨⟨t, cv, rfl, ht⟩, _⟩ := packNums_allRepr hr
  refine ⟨_, rfl, ?_, ?_, ?_⟩
  · simp [mkPacket, Fmt.size, Code.size] at hlen ⊢; omega
  · simp [expected?, uint?_ofNat ht]
  · simp [Fw.decode, mkPacket, Fw.decodeMeta, hu, asVals, Num.asVal, expected?, uint?_ofNat ht]

theorem sound_stopSetpoint (ver : Int) : Sound1 ver .stopSetpoint := by
  intro ps h _
  simp only [emit] at h
  obtain ⟨d, hd, rfl, hl⟩ := build_ok h
  rw [fmt_stopSetpoint] at hd
  obtain ⟨r, rfl, hr⟩ := packNums_tag (by decide) hd
  cases hr
  exact ⟨_, rfl, by simp [mkPacket], rfl, by simp [Fw.decode, mkPacket, Fw.decodeGeneric, expected?]⟩

/-- shared shape of the four-float generic setpoints -/
theorem generic4 {chan t : Nat} {fmt : String} {a b c d : Num} {ps : List Packet}
    (hf : parseFmt! fmt = [.B, .f, .f, .f, .f]) (ht : t < 256)
    (h : build Port.COMMANDER_GENERIC chan fmt [k t, a, b, c, d] = .ok ps) :
    ∃ r a' b' c' d', ps = [mkPacket Port.COMMANDER_GENERIC chan (UInt8.ofNat t :: r)] ∧ r.length = 16 ∧
      f32? a = some a' ∧ f32? b = some b' ∧ f32? c = some c' ∧ f32? d = some d' ∧
      Fw.unpackAs [.f, .f, .f, .f] r = some [.flt a', .flt b', .flt c', .flt d'] := by
  obtain ⟨dd, hd, rfl, hl⟩ := build_ok h
  rw [hf] at hd
  obtain ⟨r, rfl, hr⟩ := packNums_tag ht hd
  have hlen := packNums_length (by decide) hr
  have hu := unpackAs_packNums (by decide) hr
  obtain ⟨⟨a', ha⟩, ⟨b', hb⟩, ⟨c', hc⟩, ⟨d', hd'⟩, _⟩ := packNums_allRepr hr
  refine ⟨r, a', b', c', d', rfl, by simpa [Fmt.size, Code.size] using hlen, ha, hb, hc, hd', ?_⟩
  simp [hu, asVals, Num.asVal, ha, hb, hc, hd']

theorem sound_velocityWorld (ver : Int) (vx vy vz yr : Num) : Sound1 ver (.velocityWorld vx vy vz yr) := by
  intro ps h hpre
  simp only [emit] at h
  split at h
  · rename_i hv
    obtain ⟨r, a, b, c, d, rfl, hlen, ha, hb, hc, hd, hu⟩ := generic4 fmt_velocityWorld0 (by decide) h
    have hd' := legacyYaw?_of_neg hd
    refine ⟨_, rfl, by simp [mkPacket, hlen], by simp [expected?, hv, ha, hb, hc, hd'], ?_⟩
    simp [Fw.decode, mkPacket, Fw.decodeGeneric, hu, expected?, hv, ha, hb, hc, hd']
  · rename_i hv
    obtain ⟨r, a, b, c, d, rfl, hlen, ha, hb, hc, hd, hu⟩ := generic4 fmt_velocityWorld1 (by decide) h
    have h9 : ¬ ver < 9 := by omega
    refine ⟨_, rfl, by simp [mkPacket, hlen], by simp [expected?, hv, ha, hb, hc, hd], ?_⟩
    simp [Fw.decode, mkPacket, Fw.decodeGeneric, hu, expected?, hv, ha, hb, hc, hd, h9]

theorem sound_zdistance (ver : Int) (roll pitch yr z : Num) : Sound1 ver (.zdistance roll pitch yr z) := by
  intro ps h hpre
  simp only [emit] at h
  split at h
  · rename_i hv
    obtain ⟨r, a, b, c, d, rfl, hlen, ha, hb, hc, hd, hu⟩ := generic4 fmt_zdistance0 (by decide) h
    have hc' := legacyYaw?_of_neg hc
    refine ⟨_, rfl, by simp [mkPacket, hlen], by simp [expected?, hv, ha, hb, hc', hd], ?_⟩
    simp [Fw.decode, mkPacket, Fw.decodeGeneric, hu, expected?, hv, ha, hb, hc', hd]
  · rename_i hv
    obtain ⟨r, a, b, c, d, rfl, hlen, ha, hb, hc, hd, hu⟩ := generic4 fmt_zdistance1 (by decide) h
    have h9 : ¬ ver < 9 := by omega
    refine ⟨_, rfl, by simp [mkPacket, hlen], by simp [expected?, hv, ha, hb, hc, hd], ?_⟩
    simp [Fw.decode, mkPacket, Fw.decodeGeneric, hu, expected?, hv, ha, hb, hc, hd, h9]

theorem sound_hover (ver : Int) (vx vy yr z : Num) : Sound1 ver (.hover vx vy yr z) := by
  intro ps h hpre
  simp only [emit] at h
  split at h
  · rename_i hv
    obtain ⟨r, a, b, c, d, rfl, hlen, ha, hb, hc, hd, hu⟩ := generic4 fmt_hover0 (by decide) h
    have hc' := legacyYaw?_of_neg hc
    refine ⟨_, rfl, by simp [mkPacket, hlen], by simp [expected?, hv, ha, hb, hc', hd], ?_⟩
    simp [Fw.decode, mkPacket, Fw.decodeGeneric, hu, expected?, hv, ha, hb, hc', hd]
  · rename_i hv
    obtain ⟨r, a, b, c, d, rfl, hlen, ha, hb, hc, hd, hu⟩ := generic4 fmt_hover1 (by decide) h
    have h9 : ¬ ver < 9 := by omega
    refine ⟨_, rfl, by simp [mkPacket, hlen], by simp [expected?, hv, ha, hb, hc, hd], ?_⟩
    simp [Fw.decode, mkPacket, Fw.decodeGeneric, hu, expected?, hv, ha, hb, hc, hd, h9]

theorem sound_position (ver : Int) (x y z yaw : Num) : Sound1 ver (.position x y z yaw) := by
  intro ps h _
  simp only [emit] at h
  obtain ⟨r, a, b, c, d, rfl, hlen, ha, hb, hc, hd, hu⟩ := generic4 fmt_position (by decide) h
  refine ⟨_, rfl, by simp [mkPacket, hlen], by simp [expected?, ha, hb, hc, hd], ?_⟩
  simp [Fw.decode, mkPacket, Fw.decodeGeneric, hu, expected?, ha, hb, hc, hd]

end
end CfVerif.C08

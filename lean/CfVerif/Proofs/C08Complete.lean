/- Proofs/C08Complete — the converse direction: representable arguments ARE sent (as exactly one packet). -/
import CfVerif.Proofs.C08Full
import CfVerif.Proofs.C08HL
namespace CfVerif.C08
open CfVerif

theorem send_complete {p : Packet} (h : p.data.length ≤ 30) : send p = .ok [p] := by
  have hm : Gen.C08.maxDataSize = 30 := rfl
  unfold send
  rw [if_pos (by rw [hm]; exact h)]

theorem packNum_complete {c : Code} {x : Num} (hs : codeSupported c = true) (h : Repr1 c x) : ∃ a, packNum c x = .ok a := by
  cases c <;> simp only [codeSupported] at hs <;> try (cases hs; done)
  case B =>
    obtain ⟨v, cv, rfl, hv⟩ := h
    exact ⟨_, by show packUnsigned 1 (Int.ofNat v) = _; simp only [packUnsigned]; rw [if_pos hv]⟩
  case H =>
    obtain ⟨v, cv, rfl, hv⟩ := h
    exact ⟨_, by show packUnsigned 2 (Int.ofNat v) = _; simp only [packUnsigned]; rw [if_pos hv]⟩
  case I =>
    obtain ⟨v, cv, rfl, hv⟩ := h
    exact ⟨_, by show packUnsigned 4 (Int.ofNat v) = _; simp only [packUnsigned]; rw [if_pos hv]⟩
  case h =>
    obtain ⟨v, cv, rfl, hv⟩ := h
    show ∃ a, packSigned 2 v = .ok a
    cases v with
    | ofNat m =>
      simp only [sint?] at hv
      split at hv
      · rename_i hlt; exact ⟨_, by simp only [packSigned]; rw [if_pos hlt]⟩
      · cases hv
    | negSucc m =>
      simp only [sint?] at hv
      split at hv
      · rename_i hlt; exact ⟨_, by simp only [packSigned]; rw [if_pos hlt]⟩
      · cases hv
  case f =>
    obtain ⟨b, hb⟩ := h
    have hc := conv_of_f32? hb
    have hlt := f32?_lt hb
    refine ⟨leBytes 4 b, ?_⟩
    simp only [packNum, hc, packOne, packFlt]
    rw [if_pos (by simpa using hlt)]
  case bool => exact ⟨_, rfl⟩

theorem packNums_complete : ∀ {f : Fmt} {xs : List Num}, fmtSupported f = true → f.length = xs.length → AllRepr f xs →
    ∃ bs, packNums f xs = .ok bs
  | [], [], _, _, _ => ⟨[], rfl⟩
  | [], _ :: _, _, hl, _ => by cases hl
  | _ :: _, [], _, hl, _ => by cases hl
  | c :: cs, x :: xs, hs, hl, h => by
    simp only [fmtSupported, List.all_cons, Bool.and_eq_true] at hs
    obtain ⟨a, ha⟩ := packNum_complete hs.1 h.1
    obtain ⟨r, hr⟩ := packNums_complete (f := cs) hs.2 (by simpa using hl) h.2
    exact ⟨a ++ r, by simp [packNums, ha, hr, bind, Except.bind, pure, Except.pure]⟩

theorem build_complete {port chan : Nat} {fmt : String} {f : Fmt} {args : List Num} (hf : parseFmt! fmt = f)
    (hs : fmtSupported f = true) (hl : f.length = args.length) (hsz : Fmt.size f ≤ 30) (h : AllRepr f args) :
    ∃ p, build port chan fmt args = .ok [p] := by
  subst hf
  obtain ⟨bs, hb⟩ := packNums_complete hs hl h
  have hlen := packNums_length hs hb
  refine ⟨mkPacket port chan bs, ?_⟩
  simp only [build, hb, bind, Except.bind]
  exact send_complete (by show bs.length ≤ 30; omega)

theorem hlSend_complete {f : Fmt} {args : List Num} (hs : fmtSupported f = true)
    (hl : f.length = args.length) (hsz : Fmt.size f ≤ 30) (h : AllRepr f args) :
    ∃ p, hlSend (packNums f args) = .ok [p] := by
  obtain ⟨bs, hb⟩ := packNums_complete hs hl h
  have hlen := packNums_length hs hb
  refine ⟨mkPacket Gen.C08.Port.SETPOINT_HL defaultChan bs, ?_⟩
  simp only [hlSend, hb, bind, Except.bind]
  exact send_complete (by show bs.length ≤ 30; omega)

theorem f32?_neg_some {x : Num} {b : Nat} (h : f32? x = some b) : ∃ b', f32? x.neg = some b' := by
  have hc := conv_of_f32? h
  have hlt := f32?_lt h
  cases x with
  | f d cv =>
    simp only [Num.conv] at hc; subst hc
    exact ⟨flipBit 31 b, by simp only [Num.neg, Conv.neg, f32?, Num.conv]; rw [if_pos (flipBit_lt hlt)]⟩
  | i v cv =>
    simp only [Num.conv] at hc; subst hc
    by_cases hv : v = 0
    · exact ⟨b, by simp only [Num.neg, hv, if_true, f32?, Num.conv]; rw [if_pos hlt]⟩
    · exact ⟨flipBit 31 b, by simp only [Num.neg, hv, if_false, Conv.neg, f32?, Num.conv]; rw [if_pos (flipBit_lt hlt)]⟩

theorem legacyYaw?_some {x : Num} {a : Nat} (h : legacyYaw? x = some a) : ∃ b, f32? x = some b := by
  unfold legacyYaw? at h
  split at h
  · cases hx : f32? x with
    | none => simp [hx] at h
    | some b => exact ⟨b, rfl⟩
  · exact ⟨a, h⟩

theorem pitchWire?_some {x : Num} {a : Nat} (h : pitchWire? x = some a) : ∃ b, f32? x = some b := by
  unfold pitchWire? at h
  split at h
  · exact ⟨a, h⟩
  · cases hx : f32? x with
    | none => simp [hx] at h
    | some b => exact ⟨b, rfl⟩

theorem repr_k {t : Nat} (ht : t < 256) : Repr1 .B (k t) := ⟨t, _, rfl, by simpa using ht⟩
theorem repr_f {x : Num} {b : Nat} (h : f32? x = some b) : Repr1 .f x := ⟨b, h⟩
theorem repr_u8 {x : Num} {v : Nat} (h : uint? 1 x = some v) : Repr1 .B x := by
  obtain ⟨cv, rfl, hv⟩ := uint?_some h; exact ⟨v, cv, rfl, hv⟩
theorem repr_u16 {x : Num} {v : Nat} (h : uint? 2 x = some v) : Repr1 .H x := by
  obtain ⟨cv, rfl, hv⟩ := uint?_some h; exact ⟨v, cv, rfl, hv⟩
theorem repr_u32 {x : Num} {v : Nat} (h : uint? 4 x = some v) : Repr1 .I x := by
  obtain ⟨cv, rfl, hv⟩ := uint?_some h; exact ⟨v, cv, rfl, hv⟩

def Complete1 (ver : Int) (c : Call) : Prop := (expected? ver c).isSome → ∃ p, emit ver c = .ok [p]

theorem complete_hover (ver : Int) (vx vy yr z : Num) : Complete1 ver (.hover vx vy yr z) := by
  intro h
  simp only [expected?] at h
  by_cases hv : ver ≤ 8
  · simp [hv, Option.isSome_iff_exists, Option.bind_eq_some_iff] at h
    obtain ⟨_, a1, h1, a2, h2, a3, h3, a4, h4, _⟩ := h
    obtain ⟨b3, hb3⟩ := legacyYaw?_some h3
    obtain ⟨n3, hn3⟩ := f32?_neg_some hb3
    simp only [emit, if_pos hv]
    exact build_complete fmt_hover0 (by decide) rfl (by decide) ⟨repr_k (by decide), repr_f h1, repr_f h2, repr_f hn3, repr_f h4, trivial⟩
  · simp [hv, Option.isSome_iff_exists, Option.bind_eq_some_iff] at h
    obtain ⟨_, a1, h1, a2, h2, a3, h3, a4, h4, _⟩ := h
    simp only [emit, if_neg hv]
    exact build_complete fmt_hover1 (by decide) rfl (by decide) ⟨repr_k (by decide), repr_f h1, repr_f h2, repr_f h3, repr_f h4, trivial⟩

theorem complete_setpoint (ver : Int) (xm : Bool) (roll pitch mr mp yaw thrust : Num) :
    Complete1 ver (.setpoint xm roll pitch mr mp yaw thrust) := by
  intro h
  simp only [expected?] at h
  simp [Option.isSome_iff_exists, Option.bind_eq_some_iff] at h
  obtain ⟨_, a1, h1, a2, h2, a3, h3, t, ht, _⟩ := h
  obtain ⟨b2, hb2⟩ := pitchWire?_some h2
  obtain ⟨n2, hn2⟩ := f32?_neg_some hb2
  obtain ⟨cv, rfl, htl⟩ := uint?_some ht
  have hchk : ((Num.i (t : Int) cv).gtInt (Gen.C08.thrustMax : Nat) || (Num.i (t : Int) cv).ltInt 0) = false := by
    have hm : ((Gen.C08.thrustMax : Nat) : Int) = 65535 := rfl
    have : t < 65536 := by simpa using htl
    simp only [Num.gtInt, Num.ltInt, hm, Bool.or_eq_false_iff, decide_eq_false_iff_not]
    omega
  simp only [emit, hchk]
  exact build_complete fmt_setpoint (by decide) rfl (by decide) ⟨repr_f h1, repr_f hn2, repr_f h3, repr_u16 ht, trivial⟩

theorem complete_notifyStop (ver : Int) (ms : Num) : Complete1 ver (.notifyStop ms) := by
  intro h
  simp only [expected?] at h
  simp [Option.isSome_iff_exists, Option.bind_eq_some_iff] at h
  obtain ⟨_, a1, h1, _⟩ := h
  simp only [emit]
  exact build_complete fmt_notifyStop (by decide) rfl (by decide) ⟨repr_k (by decide), repr_u32 h1, trivial⟩

theorem complete_stopSetpoint (ver : Int) : Complete1 ver .stopSetpoint := by
  intro _
  simp only [emit]
  exact build_complete fmt_stopSetpoint (by decide) rfl (by decide) ⟨repr_k (by decide), trivial⟩

theorem complete_velocityWorld (ver : Int) (vx vy vz yr : Num) : Complete1 ver (.velocityWorld vx vy vz yr) := by
  intro h
  simp only [expected?] at h
  by_cases hv : ver ≤ 8
  · simp [hv, Option.isSome_iff_exists, Option.bind_eq_some_iff] at h
    obtain ⟨_, a1, h1, a2, h2, a3, h3, a4, h4, _⟩ := h
    obtain ⟨b4, hb4⟩ := legacyYaw?_some h4
    obtain ⟨n4, hn4⟩ := f32?_neg_some hb4
    simp only [emit, if_pos hv]
    exact build_complete fmt_velocityWorld0 (by decide) rfl (by decide) ⟨repr_k (by decide), repr_f h1, repr_f h2, repr_f h3, repr_f hn4, trivial⟩
  · simp [hv, Option.isSome_iff_exists, Option.bind_eq_some_iff] at h
    obtain ⟨_, a1, h1, a2, h2, a3, h3, a4, h4, _⟩ := h
    simp only [emit, if_neg hv]
    exact build_complete fmt_velocityWorld1 (by decide) rfl (by decide) ⟨repr_k (by decide), repr_f h1, repr_f h2, repr_f h3, repr_f h4, trivial⟩

theorem complete_zdistance (ver : Int) (r p yr z : Num) : Complete1 ver (.zdistance r p yr z) := by
  intro h
  simp only [expected?] at h
  by_cases hv : ver ≤ 8
  · simp [hv, Option.isSome_iff_exists, Option.bind_eq_some_iff] at h
    obtain ⟨_, a1, h1, a2, h2, a3, h3, a4, h4, _⟩ := h
    obtain ⟨b3, hb3⟩ := legacyYaw?_some h3
    obtain ⟨n3, hn3⟩ := f32?_neg_some hb3
    simp only [emit, if_pos hv]
    exact build_complete fmt_zdistance0 (by decide) rfl (by decide) ⟨repr_k (by decide), repr_f h1, repr_f h2, repr_f hn3, repr_f h4, trivial⟩
  · simp [hv, Option.isSome_iff_exists, Option.bind_eq_some_iff] at h
    obtain ⟨_, a1, h1, a2, h2, a3, h3, a4, h4, _⟩ := h
    simp only [emit, if_neg hv]
    exact build_complete fmt_zdistance1 (by decide) rfl (by decide) ⟨repr_k (by decide), repr_f h1, repr_f h2, repr_f h3, repr_f h4, trivial⟩

theorem complete_position (ver : Int) (x y z yaw : Num) : Complete1 ver (.position x y z yaw) := by
  intro h
  simp only [expected?] at h
  simp [Option.isSome_iff_exists, Option.bind_eq_some_iff] at h
  obtain ⟨_, a1, h1, a2, h2, a3, h3, a4, h4, _⟩ := h
  simp only [emit]
  exact build_complete fmt_position (by decide) rfl (by decide) ⟨repr_k (by decide), repr_f h1, repr_f h2, repr_f h3, repr_f h4, trivial⟩

/-! ### high level commander -/

theorem complete_hlGroupMask (ver : Int) (gm : Num) : Complete1 ver (.hlGroupMask gm) := by
  intro h
  simp only [expected?] at h
  simp [Option.isSome_iff_exists, Option.bind_eq_some_iff] at h
  obtain ⟨_, a1, h1, _⟩ := h
  simp only [emit, fmt_hlGroupMask]
  exact hlSend_complete (by decide) rfl (by decide) ⟨repr_k (by decide), repr_u8 h1, trivial⟩

theorem complete_hlStop (ver : Int) (gm : Num) : Complete1 ver (.hlStop gm) := by
  intro h
  simp only [expected?] at h
  simp [Option.isSome_iff_exists, Option.bind_eq_some_iff] at h
  obtain ⟨_, a1, h1, _⟩ := h
  simp only [emit, fmt_hlStop]
  exact hlSend_complete (by decide) rfl (by decide) ⟨repr_k (by decide), repr_u8 h1, trivial⟩

theorem repr_zero_f : Repr1 .f (Num.f 0 (.bits 0)) := ⟨0, by decide⟩

theorem complete_hlTakeoff (ver : Int) (height dur gm : Num) (yaw : Option Num) : Complete1 ver (.hlTakeoff height dur gm yaw) := by
  intro h
  cases yaw with
  | none =>
    simp only [expected?] at h
    simp [Option.isSome_iff_exists, Option.bind_eq_some_iff] at h
    obtain ⟨_, a1, h1, a2, h2, a3, h3, _⟩ := h
    simp only [emit, fmt_hlTakeoff, yawArgs]
    exact hlSend_complete (by decide) rfl (by decide) ⟨repr_k (by decide), repr_u8 h1, repr_f h2, repr_zero_f, trivial, repr_f h3, trivial⟩
  | some y =>
    simp only [expected?] at h
    simp [Option.isSome_iff_exists, Option.bind_eq_some_iff] at h
    obtain ⟨_, a1, h1, a2, h2, a3, h3, a4, h4, _⟩ := h
    simp only [emit, fmt_hlTakeoff, yawArgs]
    exact hlSend_complete (by decide) rfl (by decide) ⟨repr_k (by decide), repr_u8 h1, repr_f h2, repr_f h3, trivial, repr_f h4, trivial⟩

theorem complete_hlLand (ver : Int) (height dur gm : Num) (yaw : Option Num) : Complete1 ver (.hlLand height dur gm yaw) := by
  intro h
  cases yaw with
  | none =>
    simp only [expected?] at h
    simp [Option.isSome_iff_exists, Option.bind_eq_some_iff] at h
    obtain ⟨_, a1, h1, a2, h2, a3, h3, _⟩ := h
    simp only [emit, fmt_hlLand, yawArgs]
    exact hlSend_complete (by decide) rfl (by decide) ⟨repr_k (by decide), repr_u8 h1, repr_f h2, repr_zero_f, trivial, repr_f h3, trivial⟩
  | some y =>
    simp only [expected?] at h
    simp [Option.isSome_iff_exists, Option.bind_eq_some_iff] at h
    obtain ⟨_, a1, h1, a2, h2, a3, h3, a4, h4, _⟩ := h
    simp only [emit, fmt_hlLand, yawArgs]
    exact hlSend_complete (by decide) rfl (by decide) ⟨repr_k (by decide), repr_u8 h1, repr_f h2, repr_f h3, trivial, repr_f h4, trivial⟩

theorem complete_hlGoTo (ver : Int) (x y z yaw dur rel lin gm : Num) : Complete1 ver (.hlGoTo x y z yaw dur rel lin gm) := by
  intro h
  simp only [expected?] at h
  by_cases hv : ver < 8
  · simp [hv, Option.isSome_iff_exists, Option.bind_eq_some_iff] at h
    obtain ⟨_, g, hg, r, hr, a1, h1, a2, h2, a3, h3, a4, h4, a5, h5, _⟩ := h
    simp only [emit, if_pos hv, fmt_hlGoTo0]
    exact hlSend_complete (by decide) rfl (by decide)
      ⟨repr_k (by decide), repr_u8 hg, repr_u8 hr, repr_f h1, repr_f h2, repr_f h3, repr_f h4, repr_f h5, trivial⟩
  · simp [hv, Option.isSome_iff_exists, Option.bind_eq_some_iff] at h
    obtain ⟨_, g, hg, r, hr, l, hl, a1, h1, a2, h2, a3, h3, a4, h4, a5, h5, _⟩ := h
    simp only [emit, if_neg hv, fmt_hlGoTo1]
    exact hlSend_complete (by decide) rfl (by decide)
      ⟨repr_k (by decide), repr_u8 hg, repr_u8 hr, repr_u8 hl, repr_f h1, repr_f h2, repr_f h3, repr_f h4, repr_f h5, trivial⟩

theorem complete_hlSpiral (ver : Int) (hv : ¬ ver < 8) (angle r0 rF asc dur sw cw gm : Num) :
    Complete1 ver (.hlSpiral angle r0 rF asc dur sw cw gm) := by
  intro h
  simp only [expected?] at h
  simp [hv, Option.isSome_iff_exists, Option.bind_eq_some_iff] at h
  obtain ⟨_, g, hg, s, hs, c, hc, a1, h1, a2, h2, a3, h3, a4, h4, a5, h5, _⟩ := h
  simp only [emit, if_neg hv, fmt_hlSpiral]
  rw [← clampAngle_model] at h1
  rw [← clampR0_model] at h2
  rw [← clampRF_model] at h3
  exact hlSend_complete (by decide) rfl (by decide)
    ⟨repr_k (by decide), repr_u8 hg, repr_u8 hs, repr_u8 hc, repr_f h1, repr_f h2, repr_f h3, repr_f h4, repr_f h5, trivial⟩

theorem complete_hlStartTraj (ver : Int) (id ts rel rev gm : Num) : Complete1 ver (.hlStartTraj id ts rel rev gm) := by
  intro h
  simp only [expected?] at h
  simp [Option.isSome_iff_exists, Option.bind_eq_some_iff] at h
  obtain ⟨_, g, hg, r, hr, v, hv, i, hi, a1, h1, _⟩ := h
  simp only [emit, fmt_hlStartTraj]
  exact hlSend_complete (by decide) rfl (by decide)
    ⟨repr_k (by decide), repr_u8 hg, repr_u8 hr, repr_u8 hv, repr_u8 hi, repr_f h1, trivial⟩

theorem complete_hlDefineTraj (ver : Int) (id off n typ : Num) : Complete1 ver (.hlDefineTraj id off n typ) := by
  intro h
  simp only [expected?] at h
  simp [Option.isSome_iff_exists, Option.bind_eq_some_iff] at h
  obtain ⟨_, i, hi, t, ht, o, ho, m, hm, _⟩ := h
  simp only [emit, fmt_hlDefineTraj]
  exact hlSend_complete (by decide) rfl (by decide)
    ⟨repr_k (by decide), repr_u8 hi, repr_k (by decide), repr_u8 ht, repr_u32 ho, repr_u8 hm, trivial⟩

/-! ### localization, platform, anchors -/

theorem complete_extpos (ver : Int) (x y z : Num) : Complete1 ver (.extpos x y z) ∧ Complete1 ver (.extposWrap x y z) := by
  constructor <;>
  · intro h
    simp only [expected?] at h
    simp [Option.isSome_iff_exists, Option.bind_eq_some_iff] at h
    obtain ⟨_, a1, h1, a2, h2, a3, h3, _⟩ := h
    simp only [emit]
    exact build_complete fmt_extpos (by decide) rfl (by decide) ⟨repr_f h1, repr_f h2, repr_f h3, trivial⟩

theorem complete_extpose (ver : Int) (x y z a b c d : Num) :
    Complete1 ver (.extpose x y z a b c d) ∧ Complete1 ver (.extposeWrap x y z a b c d) := by
  constructor <;>
  · intro h
    simp only [expected?] at h
    simp [Option.isSome_iff_exists, Option.bind_eq_some_iff] at h
    obtain ⟨_, a1, h1, a2, h2, a3, h3, a4, h4, a5, h5, a6, h6, a7, h7, _⟩ := h
    simp only [emit]
    exact build_complete fmt_extpose (by decide) rfl (by decide)
      ⟨repr_k (by decide), repr_f h1, repr_f h2, repr_f h3, repr_f h4, repr_f h5, repr_f h6, repr_f h7, trivial⟩

theorem shortLpp_complete {dest : Num} {data : List UInt8} {v : Nat} (hd : uint? 1 dest = some v) (hl : data.length + 2 ≤ 30) :
    ∃ p, shortLpp dest data = .ok [p] := by
  obtain ⟨bs, hb⟩ := packNums_complete (f := [.B, .B]) (xs := [k Gen.C08.Loc.LPS_SHORT_LPP_PACKET, dest]) (by decide) rfl
    ⟨repr_k (by decide), repr_u8 hd, trivial⟩
  have hlen := packNums_length (by decide) hb
  refine ⟨mkPacket Gen.C08.Port.LOCALIZATION Gen.C08.Loc.GENERIC_CH (bs ++ data), ?_⟩
  simp only [shortLpp, fmt_shortLpp, hb, bind, Except.bind]
  exact send_complete (by simp [mkPacket, hlen, Fmt.size, Code.size]; omega)

theorem complete_shortLpp (ver : Int) (dest : Num) (data : List UInt8) : Complete1 ver (.shortLpp dest data) := by
  intro h
  simp only [expected?] at h
  by_cases hl : data.length + 2 ≤ 30
  · simp [hl, Option.isSome_iff_exists, Option.bind_eq_some_iff] at h
    obtain ⟨_, v, hv, _⟩ := h
    simp only [emit]
    exact shortLpp_complete hv hl
  · simp [hl] at h

theorem complete_emergency (ver : Int) : Complete1 ver .emergencyStop ∧ Complete1 ver .emergencyWatchdog := by
  constructor
  · intro _; simp only [emit]
    exact build_complete fmt_emergencyStop (by decide) rfl (by decide) ⟨repr_k (by decide), trivial⟩
  · intro _; simp only [emit]
    exact build_complete fmt_emergencyWatchdog (by decide) rfl (by decide) ⟨repr_k (by decide), trivial⟩

theorem foldl_min_mem (l : List Int) (a : Int) : l.foldl min a = a ∨ l.foldl min a ∈ l := by
  induction l generalizing a with
  | nil => left; rfl
  | cons y ys ih =>
    simp only [List.foldl_cons, List.mem_cons]
    rcases ih (min a y) with h | h
    · rw [h]
      by_cases hay : a ≤ y
      · left; omega
      · right; left; omega
    · right; right; exact h

theorem foldl_max_mem (l : List Int) (a : Int) : l.foldl max a = a ∨ l.foldl max a ∈ l := by
  induction l generalizing a with
  | nil => left; rfl
  | cons y ys ih =>
    simp only [List.foldl_cons, List.mem_cons]
    rcases ih (max a y) with h | h
    · rw [h]
      by_cases hay : y ≤ a
      · left; omega
      · right; left; omega
    · right; right; exact h

theorem lhListBad_false_of_all {l : List Int} (h : l.all (fun b => decide (0 ≤ b ∧ b ≤ 15)) = true) : lhListBad l = false := by
  rw [List.all_eq_true] at h
  have hmax : Gen.C08.lhMaxBs = 15 := rfl
  cases l with
  | nil => rfl
  | cons a as =>
    have hmin : listMin (a :: as) ∈ a :: as := by
      rcases foldl_min_mem as a with h1 | h1
      · simp [listMin, h1]
      · simp only [listMin, List.mem_cons]; right; exact h1
    have hmx : listMax (a :: as) ∈ a :: as := by
      rcases foldl_max_mem as a with h1 | h1
      · simp [listMax, h1]
      · simp only [listMax, List.mem_cons]; right; exact h1
    have h1 := h _ hmin
    have h2 := h _ hmx
    simp only [decide_eq_true_eq] at h1 h2
    simp only [lhListBad, List.isEmpty_cons, Bool.not_false, Bool.true_and, Bool.or_eq_false_iff, decide_eq_false_iff_not, hmax]
    omega

theorem maskOr_lt {l : List Int} (h : l.all (fun b => decide (0 ≤ b ∧ b ≤ 15)) = true) : maskOr l < 2 ^ 16 := by
  rw [List.all_eq_true] at h
  apply Nat.lt_pow_two_of_testBit
  intro i hi
  rw [maskOr_eq, testBit_foldl_or l (fun x hx => by have := h x hx; simp at this; omega)]
  simp only [Nat.zero_testBit, Bool.false_or]
  rw [List.contains_eq_mem, decide_eq_false_iff_not]
  intro hm
  have := h _ hm
  simp at this
  omega

theorem complete_lhPersist (ver : Int) (geo calib : List Int) : Complete1 ver (.lhPersist geo calib) := by
  intro h
  simp only [expected?] at h
  simp [Option.isSome_iff_exists, Option.bind_eq_some_iff] at h
  obtain ⟨_, g, hg, c, hc, _⟩ := h
  have hga : geo.all (fun b => decide (0 ≤ b ∧ b ≤ 15)) = true := by
    unfold bsMask? at hg; split at hg
    · assumption
    · cases hg
  have hca : calib.all (fun b => decide (0 ≤ b ∧ b ≤ 15)) = true := by
    unfold bsMask? at hc; split at hc
    · assumption
    · cases hc
  simp only [emit, lhListBad_false_of_all hga, lhListBad_false_of_all hca, Bool.false_eq_true, if_false]
  have r1 : Repr1 .H (ki (maskOr geo)) := ⟨maskOr geo, _, rfl, by have := maskOr_lt hga; omega⟩
  have r2 : Repr1 .H (ki (maskOr calib)) := ⟨maskOr calib, _, rfl, by have := maskOr_lt hca; omega⟩
  exact build_complete fmt_lhPersist (by decide) rfl (by decide) ⟨repr_k (by decide), r1, r2, trivial⟩

theorem tupleBytes2_complete {t : Nat} {x : Num} {v : Nat} (ht : t < 256) (h : uint? 1 x = some v) :
    tupleBytes [k t, x] = .ok [UInt8.ofNat t, UInt8.ofNat v] := by
  obtain ⟨cv, rfl, hv⟩ := uint?_some h
  have hv' : v < 256 := by simpa using hv
  show tupleBytes [Num.i (Int.ofNat t) _, Num.i (Int.ofNat v) cv] = _
  simp [tupleBytes, ht, hv', bind, Except.bind, pure, Except.pure]

theorem complete_platform (ver : Int) (e : Num) :
    Complete1 ver (.contWave e) ∧ Complete1 ver (.arming e) ∧ Complete1 ver .crashRecovery := by
  refine ⟨?_, ?_, ?_⟩
  · intro h
    simp only [expected?] at h
    simp [Option.isSome_iff_exists, Option.bind_eq_some_iff] at h
    obtain ⟨_, v, hv, _⟩ := h
    have ht := tupleBytes2_complete (t := Gen.C08.Plat.PLATFORM_SET_CONT_WAVE) (by decide) hv
    simp only [emit, ht, bind, Except.bind]
    exact ⟨_, send_complete (by simp [mkPacket])⟩
  · intro h
    simp only [expected?] at h
    simp [Option.isSome_iff_exists, Option.bind_eq_some_iff] at h
    obtain ⟨_, v, hv, _⟩ := h
    have ht := tupleBytes2_complete (t := Gen.C08.Plat.PLATFORM_REQUEST_ARMING) (by decide) hv
    simp only [emit, ht, bind, Except.bind]
    exact ⟨_, send_complete (by simp [mkPacket])⟩
  · intro _
    have : tupleBytes [k Gen.C08.Plat.PLATFORM_REQUEST_CRASH_RECOVERY] = .ok [2] := by decide
    simp only [emit, this, bind, Except.bind]
    exact ⟨_, send_complete (by simp [mkPacket])⟩

theorem complete_lopo (ver : Int) (id x y z m : Num) :
    Complete1 ver (.lopoPosition id x y z) ∧ Complete1 ver (.lopoReboot id m) ∧ Complete1 ver (.lopoMode id m) := by
  refine ⟨?_, ?_, ?_⟩
  · intro h
    simp only [expected?] at h
    simp [Option.isSome_iff_exists, Option.bind_eq_some_iff] at h
    obtain ⟨_, v, hv, a1, h1, a2, h2, a3, h3, _⟩ := h
    obtain ⟨bs, hb⟩ := packNums_complete (f := [.B, .f, .f, .f]) (xs := [k Gen.C08.Lopo.LPP_TYPE_POSITION, x, y, z]) (by decide) rfl
      ⟨repr_k (by decide), repr_f h1, repr_f h2, repr_f h3, trivial⟩
    have hlen := packNums_length (by decide) hb
    simp only [emit, fmt_lopoPosition, hb, bind, Except.bind]
    exact shortLpp_complete hv (by rw [hlen]; decide)
  · intro h
    simp only [expected?] at h
    simp [Option.isSome_iff_exists, Option.bind_eq_some_iff] at h
    obtain ⟨_, v, hv, a1, h1, _⟩ := h
    obtain ⟨bs, hb⟩ := packNums_complete (f := [.B, .B]) (xs := [k Gen.C08.Lopo.LPP_TYPE_REBOOT, m]) (by decide) rfl
      ⟨repr_k (by decide), repr_u8 h1, trivial⟩
    have hlen := packNums_length (by decide) hb
    simp only [emit, fmt_lopoReboot, hb, bind, Except.bind]
    exact shortLpp_complete hv (by rw [hlen]; decide)
  · intro h
    simp only [expected?] at h
    simp [Option.isSome_iff_exists, Option.bind_eq_some_iff] at h
    obtain ⟨_, v, hv, a1, h1, _⟩ := h
    obtain ⟨bs, hb⟩ := packNums_complete (f := [.B, .B]) (xs := [k Gen.C08.Lopo.LPP_TYPE_MODE, m]) (by decide) rfl
      ⟨repr_k (by decide), repr_u8 h1, trivial⟩
    have hlen := packNums_length (by decide) hb
    simp only [emit, fmt_lopoMode, hb, bind, Except.bind]
    exact shortLpp_complete hv (by rw [hlen]; decide)

/-! ### full state -/

theorem mag?_some {c : QComp} {m : Nat} (h : mag? c = some m) : f64ToInt c.t = .ok (Int.ofNat m) ∧ m < 512 := by
  unfold mag? at h
  split at h
  · rename_i m' hm'
    split at h
    · rename_i hlt; cases h; exact ⟨hm', hlt⟩
    · cases h
  · cases h

theorem cq_step_complete {qn : QuatN} {l i : Nat} {neg : Bool} {is : List Nat} {c m : Nat} (hi : i ≠ l)
    (hm : f64ToInt (qn.get i).t = .ok (Int.ofNat m)) :
    cqFold qn l neg (i :: is) (some c) =
      cqFold qn l neg is (some (Gen.C08.cqStep c (if (f64Neg (qn.get i).q != neg) then 1 else 0) m)) := by
  have hne : (i != l) = true := by simpa using hi
  simp only [cqFold, hne, if_true, hm, bind, Except.bind]

theorem fix16?_some {s : Scaled} {v : Int} (h : fix16? s = some v) : s.mm = .ok v ∧ sint? 2 v = some v := by
  unfold fix16? at h
  split at h
  · rename_i v' hv'
    have := sint?_some h
    subst this
    exact ⟨hv', h⟩
  · cases h

theorem compressQuat_complete {qn : QuatN} {q : Fw.Quat} (h : quat? qn = some q) :
    ∃ n : Nat, compressQuat qn = .ok (n : Int) ∧ n < 2 ^ 32 := by
  have hl := iLargest_lt qn
  unfold quat? at h
  simp only [compressQuat, bind, Except.bind, pure, Except.pure]
  generalize hlg : iLargest qn = l at h hl
  have hnb : ∀ i, (if (f64Neg (qn.get i).q != f64Neg (qn.get l).q) then 1 else 0 : Nat) ≤ 1 := by intro i; split <;> omega
  have hcase : l = 0 ∨ l = 1 ∨ l = 2 ∨ l = 3 := by omega
  rcases hcase with rfl | rfl | rfl | rfl
  · simp [List.filter, Option.bind_eq_some_iff] at h
    obtain ⟨_, ⟨_, _, _, ⟨m3, hm3, _⟩, _, ⟨_, _, _, ⟨m2, hm2, _⟩, _, ⟨_, _, _, ⟨m1, hm1, _⟩, _⟩, _⟩, _⟩, _⟩ := h
    obtain ⟨e1, b1⟩ := mag?_some hm1
    obtain ⟨e2, b2⟩ := mag?_some hm2
    obtain ⟨e3, b3⟩ := mag?_some hm3
    rw [cq_skip, cq_step_complete (by decide) e1, cq_step_complete (by decide) e2, cq_step_complete (by decide) e3]
    simp only [cqFold]
    refine ⟨_, rfl, ?_⟩
    rw [cqStep_eq (hnb 1) b1, cqStep_eq (hnb 2) b2, cqStep_eq (hnb 3) b3]
    have := hnb 1; have := hnb 2; have := hnb 3; omega
  · simp [List.filter, Option.bind_eq_some_iff] at h
    obtain ⟨_, ⟨_, _, _, ⟨m3, hm3, _⟩, _, ⟨_, _, _, ⟨m2, hm2, _⟩, _, ⟨_, _, _, ⟨m1, hm1, _⟩, _⟩, _⟩, _⟩, _⟩ := h
    obtain ⟨e1, b1⟩ := mag?_some hm1
    obtain ⟨e2, b2⟩ := mag?_some hm2
    obtain ⟨e3, b3⟩ := mag?_some hm3
    rw [cq_step_complete (by decide) e1, cq_skip, cq_step_complete (by decide) e2, cq_step_complete (by decide) e3]
    simp only [cqFold]
    refine ⟨_, rfl, ?_⟩
    rw [cqStep_eq (hnb 0) b1, cqStep_eq (hnb 2) b2, cqStep_eq (hnb 3) b3]
    have := hnb 0; have := hnb 2; have := hnb 3; omega
  · simp [List.filter, Option.bind_eq_some_iff] at h
    obtain ⟨_, ⟨_, _, _, ⟨m3, hm3, _⟩, _, ⟨_, _, _, ⟨m2, hm2, _⟩, _, ⟨_, _, _, ⟨m1, hm1, _⟩, _⟩, _⟩, _⟩, _⟩ := h
    obtain ⟨e1, b1⟩ := mag?_some hm1
    obtain ⟨e2, b2⟩ := mag?_some hm2
    obtain ⟨e3, b3⟩ := mag?_some hm3
    rw [cq_step_complete (by decide) e1, cq_step_complete (by decide) e2, cq_skip, cq_step_complete (by decide) e3]
    simp only [cqFold]
    refine ⟨_, rfl, ?_⟩
    rw [cqStep_eq (hnb 0) b1, cqStep_eq (hnb 1) b2, cqStep_eq (hnb 3) b3]
    have := hnb 0; have := hnb 1; have := hnb 3; omega
  · simp [List.filter, Option.bind_eq_some_iff] at h
    obtain ⟨_, ⟨_, _, _, ⟨m3, hm3, _⟩, _, ⟨_, _, _, ⟨m2, hm2, _⟩, _, ⟨_, _, _, ⟨m1, hm1, _⟩, _⟩, _⟩, _⟩, _⟩ := h
    obtain ⟨e1, b1⟩ := mag?_some hm1
    obtain ⟨e2, b2⟩ := mag?_some hm2
    obtain ⟨e3, b3⟩ := mag?_some hm3
    rw [cq_step_complete (by decide) e1, cq_step_complete (by decide) e2, cq_step_complete (by decide) e3, cq_skip]
    simp only [cqFold]
    refine ⟨_, rfl, ?_⟩
    rw [cqStep_eq (hnb 0) b1, cqStep_eq (hnb 1) b2, cqStep_eq (hnb 2) b3]
    have := hnb 0; have := hnb 1; have := hnb 2; omega

theorem Vec3.mm_complete {v : Vec3} {x y z : Int} (hx : v.a.mm = .ok x) (hy : v.b.mm = .ok y) (hz : v.c.mm = .ok z) :
    v.mm = .ok (x, y, z) := by
  simp only [Vec3.mm, hx, hy, hz, bind, Except.bind, pure, Except.pure]

theorem repr_i16 {v : Int} (h : sint? 2 v = some v) : Repr1 .h (ki v) := ⟨v, _, rfl, h⟩

theorem complete_fullState (ver : Int) (pos vel acc : Vec3) (quat : QuatN) (rates : Vec3) :
    Complete1 ver (.fullState pos vel acc quat rates) := by
  intro h
  simp only [expected?] at h
  simp [Option.isSome_iff_exists, Option.bind_eq_some_iff] at h
  obtain ⟨_, x1, h1, x2, h2, x3, h3, x4, h4, x5, h5, x6, h6, x7, h7, x8, h8, x9, h9, q, hq, y1, g1, y2, g2, y3, g3, _⟩ := h
  obtain ⟨m1, s1⟩ := fix16?_some h1
  obtain ⟨m2, s2⟩ := fix16?_some h2
  obtain ⟨m3, s3⟩ := fix16?_some h3
  obtain ⟨m4, s4⟩ := fix16?_some h4
  obtain ⟨m5, s5⟩ := fix16?_some h5
  obtain ⟨m6, s6⟩ := fix16?_some h6
  obtain ⟨m7, s7⟩ := fix16?_some h7
  obtain ⟨m8, s8⟩ := fix16?_some h8
  obtain ⟨m9, s9⟩ := fix16?_some h9
  obtain ⟨n1, t1⟩ := fix16?_some g1
  obtain ⟨n2, t2⟩ := fix16?_some g2
  obtain ⟨n3, t3⟩ := fix16?_some g3
  obtain ⟨n, hn, hn32⟩ := compressQuat_complete hq
  simp only [emit, Vec3.mm_complete m1 m2 m3, Vec3.mm_complete m4 m5 m6, Vec3.mm_complete m7 m8 m9, Vec3.mm_complete n1 n2 n3, hn,
    bind, Except.bind]
  have rq : Repr1 .I (ki (n : Int)) := ⟨n, _, rfl, by omega⟩
  exact build_complete fmt_fullState (by decide) rfl (by decide)
    ⟨repr_k (by decide), repr_i16 s1, repr_i16 s2, repr_i16 s3, repr_i16 s4, repr_i16 s5, repr_i16 s6, repr_i16 s7, repr_i16 s8,
      repr_i16 s9, rq, repr_i16 t1, repr_i16 t2, repr_i16 t3, trivial⟩

end CfVerif.C08

/- Proofs/C08Full — full-state setpoint: int() truncation, quaternion compression layout, decode lemma. -/
import CfVerif.Proofs.C08Loc
namespace CfVerif.C08
open CfVerif

theorem fmt_fullState : parseFmt! Gen.C08.fullState_fmt0 = [.B, .h, .h, .h, .h, .h, .h, .h, .h, .h, .I, .h, .h, .h] := by decide

/-! ### `int(x)` on a binary64 value is truncation toward zero -/

/-- `n = int(x)` for the finite double `x = (-1)^s * mant * 2^(ex - 1075)`:
the sign follows `s` and `|n| = floor(mant * 2^(ex - 1075))`, stated without division. -/
theorem f64ToInt_trunc_aux {d : Nat} {n : Int} (h : f64ToInt d = .ok n) :
    f64Exp d ≠ 2047 ∧
    (n = if f64Sign d = 1 then -(n.natAbs : Int) else (n.natAbs : Int)) ∧
    (if 1075 ≤ f64Ex d then n.natAbs = f64Mant d * 2 ^ (f64Ex d - 1075)
     else n.natAbs * 2 ^ (1075 - f64Ex d) ≤ f64Mant d ∧ f64Mant d < (n.natAbs + 1) * 2 ^ (1075 - f64Ex d)) := by
  unfold f64ToInt at h
  split at h
  · split at h <;> cases h
  · rename_i he
    refine ⟨he, ?_⟩
    simp only [Except.ok.injEq] at h
    generalize hm : (if 1075 ≤ f64Ex d then f64Mant d * 2 ^ (f64Ex d - 1075) else f64Mant d / 2 ^ (1075 - f64Ex d)) = mag at h
    have hn : n.natAbs = mag := by
      subst h; split <;> simp
    refine ⟨by subst h; split <;> simp, ?_⟩
    rw [hn]
    split at hm
    · rename_i hge; rw [if_pos hge]; exact hm.symm
    · rename_i hlt; rw [if_neg hlt]
      subst hm
      have hpos : 0 < 2 ^ (1075 - f64Ex d) := Nat.two_pow_pos _
      exact ⟨Nat.div_mul_le_self _ _, by rw [Nat.mul_comm]; exact Nat.lt_mul_div_succ _ hpos⟩

/-! ### quaternion compression -/

theorem cqStep_eq {c nb m : Nat} (hnb : nb ≤ 1) (hm : m < 512) : Gen.C08.cqStep c nb m = c * 1024 + nb * 512 + m := by
  unfold Gen.C08.cqStep
  have h1 : nb <<< 9 + m = nb <<< 9 ||| m := Nat.shiftLeft_add_eq_or_of_lt (by omega) nb
  have h2 : nb <<< 9 + m < 2 ^ 10 := by rw [Nat.shiftLeft_eq]; omega
  have h3 : c <<< 10 + (nb <<< 9 + m) = c <<< 10 ||| (nb <<< 9 + m) := Nat.shiftLeft_add_eq_or_of_lt h2 c
  rw [Nat.or_assoc, ← h1, ← h3, Nat.shiftLeft_eq, Nat.shiftLeft_eq]
  omega

theorem and_511 (x : Nat) : x &&& 511 = x % 512 := Nat.and_two_pow_sub_one_eq_mod x 9
theorem and_1 (x : Nat) : x &&& 1 = x % 2 := Nat.and_two_pow_sub_one_eq_mod x 1

/-- the firmware's bit extraction undoes three compression steps -/
theorem quatDecode_steps (l a b c na ma nb mb nc mc : Nat) (hl : l < 4)
    (hna : na ≤ 1) (hnb : nb ≤ 1) (hnc : nc ≤ 1) (hma : ma < 512) (hmb : mb < 512) (hmc : mc < 512)
    (hidx : (l = 0 ∧ a = 1 ∧ b = 2 ∧ c = 3) ∨ (l = 1 ∧ a = 0 ∧ b = 2 ∧ c = 3) ∨ (l = 2 ∧ a = 0 ∧ b = 1 ∧ c = 3) ∨
      (l = 3 ∧ a = 0 ∧ b = 1 ∧ c = 2)) :
    Fw.quatDecode (((l * 1024 + na * 512 + ma) * 1024 + nb * 512 + mb) * 1024 + nc * 512 + mc) =
      { largest := l, fields := [(c, nc, mc), (b, nb, mb), (a, na, ma)] } := by
  have h30 : (((l * 1024 + na * 512 + ma) * 1024 + nb * 512 + mb) * 1024 + nc * 512 + mc) >>> 30 = l := by
    rw [Nat.shiftRight_eq_div_pow]; omega
  unfold Fw.quatDecode
  simp only [h30]
  rcases hidx with ⟨rfl, rfl, rfl, rfl⟩ | ⟨rfl, rfl, rfl, rfl⟩ | ⟨rfl, rfl, rfl, rfl⟩ | ⟨rfl, rfl, rfl, rfl⟩ <;>
    simp [List.foldl, and_511, Nat.shiftRight_eq_div_pow] <;> omega

theorem cqFold_none {qn : QuatN} {l : Nat} {neg : Bool} : ∀ {is : List Nat} {r : Option Nat},
    cqFold qn l neg is none = .ok r → r = none
  | [], r, h => by simp only [cqFold] at h; cases h; rfl
  | i :: is, r, h => by
    simp only [cqFold] at h
    split at h
    · simp only [bind, Except.bind] at h
      split at h
      · cases h
      · exact cqFold_none h
    · exact cqFold_none h

theorem cq_skip {qn : QuatN} {l : Nat} {neg : Bool} {is : List Nat} {comp : Option Nat} :
    cqFold qn l neg (l :: is) comp = cqFold qn l neg is comp := by
  simp [cqFold]

theorem cq_step {qn : QuatN} {l i : Nat} {neg : Bool} {is : List Nat} {c n : Nat} (hi : i ≠ l)
    (h : cqFold qn l neg (i :: is) (some c) = .ok (some n)) :
    ∃ m : Nat, f64ToInt (qn.get i).t = .ok (m : Int) ∧
      cqFold qn l neg is (some (Gen.C08.cqStep c (if (f64Neg (qn.get i).q != neg) then 1 else 0) m)) = .ok (some n) := by
  have hne : (i != l) = true := by simpa using hi
  simp only [cqFold, hne, if_true, bind, Except.bind] at h
  split at h
  · cases h
  · rename_i mag hmag
    cases mag with
    | ofNat m => exact ⟨m, hmag, h⟩
    | negSucc m => have := cqFold_none h; cases this

theorem iLargest_lt (qn : QuatN) : iLargest qn < 4 := by
  unfold iLargest
  simp only [List.foldl]
  repeat' split
  all_goals omega

theorem mag?_of {c : QComp} {m : Nat} (h : f64ToInt c.t = .ok (m : Int)) (hm : m < 512) : mag? c = some m := by
  unfold mag?
  have : f64ToInt c.t = .ok (Int.ofNat m) := h
  rw [this]; simp [hm]

/-- layout of the compressed quaternion: index of the dropped component in the top two bits, then for the other
three components in increasing index order a sign bit (relative to the dropped component) and a 9-bit magnitude;
the firmware's `quatdecompress` recovers exactly these fields -/
theorem compressQuat_layout {qn : QuatN} {n : Nat} (h : compressQuat qn = .ok (n : Int))
    (hpre : ∀ i, i < 4 → i ≠ iLargest qn → ∀ m : Nat, f64ToInt (qn.get i).t = .ok (m : Int) → m < 512) :
    quat? qn = some (Fw.quatDecode n) ∧ n < 2 ^ 32 := by
  simp only [compressQuat, bind, Except.bind, pure, Except.pure] at h
  split at h
  · cases h
  · rename_i r hr
    cases r with
    | none => simp at h
    | some n' =>
      simp only [Except.ok.injEq] at h
      have hn : n' = n := by omega
      subst hn
      have hl := iLargest_lt qn
      generalize hlg : iLargest qn = l at hr hl hpre
      have hnb : ∀ i, (if (f64Neg (qn.get i).q != f64Neg (qn.get l).q) then 1 else 0 : Nat) ≤ 1 := by intro i; split <;> omega
      have hcase : l = 0 ∨ l = 1 ∨ l = 2 ∨ l = 3 := by omega
      rcases hcase with rfl | rfl | rfl | rfl
      · rw [cq_skip] at hr
        obtain ⟨m1, h1, hr⟩ := cq_step (by decide) hr
        obtain ⟨m2, h2, hr⟩ := cq_step (by decide) hr
        obtain ⟨m3, h3, hr⟩ := cq_step (by decide) hr
        simp only [cqFold, Except.ok.injEq, Option.some.injEq] at hr
        have b1 := hpre 1 (by decide) (by decide) m1 h1
        have b2 := hpre 2 (by decide) (by decide) m2 h2
        have b3 := hpre 3 (by decide) (by decide) m3 h3
        rw [cqStep_eq (hnb 1) b1, cqStep_eq (hnb 2) b2, cqStep_eq (hnb 3) b3] at hr
        subst hr
        refine ⟨?_, by have := hnb 1; have := hnb 2; have := hnb 3; omega⟩
        rw [quatDecode_steps 0 1 2 3 _ m1 _ m2 _ m3 (by decide) (hnb 1) (hnb 2) (hnb 3) b1 b2 b3 (by simp)]
        simp [quat?, hlg, List.filter, mag?_of h1 b1, mag?_of h2 b2, mag?_of h3 b3]
      · obtain ⟨m1, h1, hr⟩ := cq_step (by decide) hr
        rw [cq_skip] at hr
        obtain ⟨m2, h2, hr⟩ := cq_step (by decide) hr
        obtain ⟨m3, h3, hr⟩ := cq_step (by decide) hr
        simp only [cqFold, Except.ok.injEq, Option.some.injEq] at hr
        have b1 := hpre 0 (by decide) (by decide) m1 h1
        have b2 := hpre 2 (by decide) (by decide) m2 h2
        have b3 := hpre 3 (by decide) (by decide) m3 h3
        rw [cqStep_eq (hnb 0) b1, cqStep_eq (hnb 2) b2, cqStep_eq (hnb 3) b3] at hr
        subst hr
        refine ⟨?_, by have := hnb 0; have := hnb 2; have := hnb 3; omega⟩
        rw [quatDecode_steps 1 0 2 3 _ m1 _ m2 _ m3 (by decide) (hnb 0) (hnb 2) (hnb 3) b1 b2 b3 (by simp)]
        simp [quat?, hlg, List.filter, mag?_of h1 b1, mag?_of h2 b2, mag?_of h3 b3]
      · obtain ⟨m1, h1, hr⟩ := cq_step (by decide) hr
        obtain ⟨m2, h2, hr⟩ := cq_step (by decide) hr
        rw [cq_skip] at hr
        obtain ⟨m3, h3, hr⟩ := cq_step (by decide) hr
        simp only [cqFold, Except.ok.injEq, Option.some.injEq] at hr
        have b1 := hpre 0 (by decide) (by decide) m1 h1
        have b2 := hpre 1 (by decide) (by decide) m2 h2
        have b3 := hpre 3 (by decide) (by decide) m3 h3
        rw [cqStep_eq (hnb 0) b1, cqStep_eq (hnb 1) b2, cqStep_eq (hnb 3) b3] at hr
        subst hr
        refine ⟨?_, by have := hnb 0; have := hnb 1; have := hnb 3; omega⟩
        rw [quatDecode_steps 2 0 1 3 _ m1 _ m2 _ m3 (by decide) (hnb 0) (hnb 1) (hnb 3) b1 b2 b3 (by simp)]
        simp [quat?, hlg, List.filter, mag?_of h1 b1, mag?_of h2 b2, mag?_of h3 b3]
      · obtain ⟨m1, h1, hr⟩ := cq_step (by decide) hr
        obtain ⟨m2, h2, hr⟩ := cq_step (by decide) hr
        obtain ⟨m3, h3, hr⟩ := cq_step (by decide) hr
        rw [cq_skip] at hr
        simp only [cqFold, Except.ok.injEq, Option.some.injEq] at hr
        have b1 := hpre 0 (by decide) (by decide) m1 h1
        have b2 := hpre 1 (by decide) (by decide) m2 h2
        have b3 := hpre 2 (by decide) (by decide) m3 h3
        rw [cqStep_eq (hnb 0) b1, cqStep_eq (hnb 1) b2, cqStep_eq (hnb 2) b3] at hr
        subst hr
        refine ⟨?_, by have := hnb 0; have := hnb 1; have := hnb 2; omega⟩
        rw [quatDecode_steps 3 0 1 2 _ m1 _ m2 _ m3 (by decide) (hnb 0) (hnb 1) (hnb 2) b1 b2 b3 (by simp)]
        simp [quat?, hlg, List.filter, mag?_of h1 b1, mag?_of h2 b2, mag?_of h3 b3]

/-! ### the full-state method -/

theorem Vec3.mm_ok {v : Vec3} {p : Int × Int × Int} (h : v.mm = .ok p) :
    v.a.mm = .ok p.1 ∧ v.b.mm = .ok p.2.1 ∧ v.c.mm = .ok p.2.2 := by
  simp only [Vec3.mm] at h
  obtain ⟨x, hx, h⟩ := bind_ok h
  obtain ⟨y, hy, h⟩ := bind_ok h
  obtain ⟨z, hz, h⟩ := bind_ok h
  cases h
  exact ⟨hx, hy, hz⟩

theorem fix16?_of {s : Scaled} {v : Int} (h : s.mm = .ok v) (hs : sint? 2 v = some v) : fix16? s = some v := by
  simp only [fix16?, h, hs]

theorem ki_inj {v w : Int} {cv : Conv} (h : ki v = .i w cv) : w = v := by
  simp only [ki, Num.i.injEq] at h; exact h.1.symm

section
open Gen.C08
attribute [local simp] hdrExpr initChanExpr initPortExpr maxDataSize defaultChan Port.COMMANDER_GENERIC Cmdr.TYPE_FULL_STATE

theorem sound_fullState (ver : Int) (pos vel acc : Vec3) (quat : QuatN) (rates : Vec3) :
    Sound1 ver (.fullState pos vel acc quat rates) := by
  intro ps h hpre
  simp only [emit] at h
  obtain ⟨p, hp, h⟩ := bind_ok h
  obtain ⟨v, hv, h⟩ := bind_ok h
  obtain ⟨a, ha, h⟩ := bind_ok h
  obtain ⟨r, hr, h⟩ := bind_ok h
  obtain ⟨oc, hoc, h⟩ := bind_ok h
  obtain ⟨d, hd, rfl, hl⟩ := build_ok h
  rw [fmt_fullState] at hd
  obtain ⟨rest, rfl, hrest⟩ := packNums_tag (by decide) hd
  have hlen := packNums_length (by decide) hrest
  have hu := unpackAs_packNums (by decide) hrest
  obtain ⟨⟨x1, c1, e1, s1⟩, ⟨x2, c2, e2, s2⟩, ⟨x3, c3, e3, s3⟩, ⟨x4, c4, e4, s4⟩, ⟨x5, c5, e5, s5⟩, ⟨x6, c6, e6, s6⟩,
    ⟨x7, c7, e7, s7⟩, ⟨x8, c8, e8, s8⟩, ⟨x9, c9, e9, s9⟩, ⟨n, cn, en, _⟩, ⟨y1, d1, g1, t1⟩, ⟨y2, d2, g2, t2⟩, ⟨y3, d3, g3, t3⟩, _⟩ :=
    packNums_allRepr hrest
  have := ki_inj e1; subst this
  have := ki_inj e2; subst this
  have := ki_inj e3; subst this
  have := ki_inj e4; subst this
  have := ki_inj e5; subst this
  have := ki_inj e6; subst this
  have := ki_inj e7; subst this
  have := ki_inj e8; subst this
  have := ki_inj e9; subst this
  have := ki_inj g1; subst this
  have := ki_inj g2; subst this
  have := ki_inj g3; subst this
  have hn : oc = (n : Int) := (ki_inj en).symm
  subst hn
  obtain ⟨hq, _⟩ := compressQuat_layout hoc hpre
  obtain ⟨p1, p2, p3⟩ := Vec3.mm_ok hp
  obtain ⟨v1, v2, v3⟩ := Vec3.mm_ok hv
  obtain ⟨a1, a2, a3⟩ := Vec3.mm_ok ha
  obtain ⟨r1, r2, r3⟩ := Vec3.mm_ok hr
  have hexp : expected? ver (.fullState pos vel acc quat rates) =
      some (.fullState p.1 p.2.1 p.2.2 v.1 v.2.1 v.2.2 a.1 a.2.1 a.2.2 (Fw.quatDecode n) r.1 r.2.1 r.2.2) := by
    simp [expected?, fix16?_of p1 s1, fix16?_of p2 s2, fix16?_of p3 s3, fix16?_of v1 s4, fix16?_of v2 s5, fix16?_of v3 s6,
      fix16?_of a1 s7, fix16?_of a2 s8, fix16?_of a3 s9, fix16?_of r1 t1, fix16?_of r2 t2, fix16?_of r3 t3, hq]
  refine ⟨_, rfl, by simp [mkPacket, hlen, Fmt.size, Code.size], by rw [hexp]; rfl, ?_⟩
  rw [hexp]
  simp [Fw.decode, mkPacket, Fw.decodeGeneric, hu, asVals, Num.asVal, ki]

theorem sint?_range {v : Int} (h : sint? 2 v = some v) : -32768 ≤ v ∧ v ≤ 32767 := by
  cases v with
  | ofNat m =>
    simp only [sint?] at h
    split at h
    · rename_i hlt
      have : (Int.ofNat m) = (m : Int) := rfl
      rw [this]
      have : m < 32768 := by simpa using hlt
      omega
    · cases h
  | negSucc m =>
    simp only [sint?] at h
    split at h
    · rename_i hlt
      have : m < 32768 := by simpa using hlt
      rw [Int.negSucc_eq]; omega
    · cases h

theorem fullState_components_in_range (ver : Int) (pos vel acc : Vec3) (quat : QuatN) (rates : Vec3) (ps : List Packet)
    (h : emit ver (.fullState pos vel acc quat rates) = .ok ps) :
    ∀ s ∈ [pos.a, pos.b, pos.c, vel.a, vel.b, vel.c, acc.a, acc.b, acc.c, rates.a, rates.b, rates.c],
      ∃ v : Int, s.mm = .ok v ∧ -32768 ≤ v ∧ v ≤ 32767 := by
  simp only [emit] at h
  obtain ⟨p, hp, h⟩ := bind_ok h
  obtain ⟨v, hv, h⟩ := bind_ok h
  obtain ⟨a, ha, h⟩ := bind_ok h
  obtain ⟨r, hr, h⟩ := bind_ok h
  obtain ⟨oc, hoc, h⟩ := bind_ok h
  obtain ⟨d, hd, rfl, hl⟩ := build_ok h
  rw [fmt_fullState] at hd
  obtain ⟨rest, rfl, hrest⟩ := packNums_tag (by decide) hd
  obtain ⟨⟨x1, c1, e1, s1⟩, ⟨x2, c2, e2, s2⟩, ⟨x3, c3, e3, s3⟩, ⟨x4, c4, e4, s4⟩, ⟨x5, c5, e5, s5⟩, ⟨x6, c6, e6, s6⟩,
    ⟨x7, c7, e7, s7⟩, ⟨x8, c8, e8, s8⟩, ⟨x9, c9, e9, s9⟩, _, ⟨y1, d1, g1, t1⟩, ⟨y2, d2, g2, t2⟩, ⟨y3, d3, g3, t3⟩, _⟩ :=
    packNums_allRepr hrest
  have := ki_inj e1; subst this
  have := ki_inj e2; subst this
  have := ki_inj e3; subst this
  have := ki_inj e4; subst this
  have := ki_inj e5; subst this
  have := ki_inj e6; subst this
  have := ki_inj e7; subst this
  have := ki_inj e8; subst this
  have := ki_inj e9; subst this
  have := ki_inj g1; subst this
  have := ki_inj g2; subst this
  have := ki_inj g3; subst this
  obtain ⟨p1, p2, p3⟩ := Vec3.mm_ok hp
  obtain ⟨v1, v2, v3⟩ := Vec3.mm_ok hv
  obtain ⟨a1, a2, a3⟩ := Vec3.mm_ok ha
  obtain ⟨r1, r2, r3⟩ := Vec3.mm_ok hr
  intro s hs
  simp only [List.mem_cons, List.not_mem_nil, or_false] at hs
  rcases hs with rfl | rfl | rfl | rfl | rfl | rfl | rfl | rfl | rfl | rfl | rfl | rfl
  · exact ⟨_, p1, sint?_range s1⟩
  · exact ⟨_, p2, sint?_range s2⟩
  · exact ⟨_, p3, sint?_range s3⟩
  · exact ⟨_, v1, sint?_range s4⟩
  · exact ⟨_, v2, sint?_range s5⟩
  · exact ⟨_, v3, sint?_range s6⟩
  · exact ⟨_, a1, sint?_range s7⟩
  · exact ⟨_, a2, sint?_range s8⟩
  · exact ⟨_, a3, sint?_range s9⟩
  · exact ⟨_, r1, sint?_range t1⟩
  · exact ⟨_, r2, sint?_range t2⟩
  · exact ⟨_, r3, sint?_range t3⟩

end

/-- the dropped component is one of largest magnitude -/
theorem iLargest_max (qn : QuatN) (i : Nat) (hi : i < 4)
    (hnan : ∀ j, j < 4 → f64IsNaN (qn.get j).q = false) : f64AbsGt (qn.get i).q (qn.get (iLargest qn)).q = false := by
  have key : ∀ a b, a < 4 → b < 4 → f64AbsGt (qn.get a).q (qn.get b).q = decide (f64Mag (qn.get b).q < f64Mag (qn.get a).q) := by
    intro a b ha hb; simp [f64AbsGt, hnan a ha, hnan b hb]
  have hl := iLargest_lt qn
  rw [key i _ hi hl]
  have h10 := key 1 0 (by decide) (by decide)
  have h20 := key 2 0 (by decide) (by decide)
  have h21 := key 2 1 (by decide) (by decide)
  have h30 := key 3 0 (by decide) (by decide)
  have h31 := key 3 1 (by decide) (by decide)
  have h32 := key 3 2 (by decide) (by decide)
  unfold iLargest
  simp only [List.foldl]
  have hcase : i = 0 ∨ i = 1 ∨ i = 2 ∨ i = 3 := by omega
  rcases hcase with rfl | rfl | rfl | rfl <;>
    (repeat' split) <;> simp_all <;> omega

end CfVerif.C08

/- Proofs/C08HL — per-method decode lemmas: HighLevelCommander. -/
import CfVerif.Proofs.C08Cmdr
namespace CfVerif.C08
open CfVerif

theorem fmt_hlGroupMask : parseFmt! Gen.C08.hlGroupMask_fmt0 = [.B, .B] := by decide
theorem fmt_hlStop : parseFmt! Gen.C08.hlStop_fmt0 = [.B, .B] := by decide
theorem fmt_hlTakeoff : parseFmt! Gen.C08.hlTakeoff_fmt0 = [.B, .B, .f, .f, .bool, .f] := by decide
theorem fmt_hlLand : parseFmt! Gen.C08.hlLand_fmt0 = [.B, .B, .f, .f, .bool, .f] := by decide
theorem fmt_hlGoTo0 : parseFmt! Gen.C08.hlGoTo_fmt0 = [.B, .B, .B, .f, .f, .f, .f, .f] := by decide
theorem fmt_hlGoTo1 : parseFmt! Gen.C08.hlGoTo_fmt1 = [.B, .B, .B, .B, .f, .f, .f, .f, .f] := by decide
theorem fmt_hlSpiral : parseFmt! Gen.C08.hlSpiral_fmt0 = [.B, .B, .B, .B, .f, .f, .f, .f, .f] := by decide
theorem fmt_hlStartTraj : parseFmt! Gen.C08.hlStartTraj_fmt0 = [.B, .B, .B, .B, .B, .f] := by decide
theorem fmt_hlDefineTraj : parseFmt! Gen.C08.hlDefineTraj_fmt0 = [.B, .B, .B, .B, .I, .B] := by decide

/-- the spiral clamp constants of the source are 2*pi / -2*pi / 0 (binary64 for the comparisons, binary32 on the wire) -/
theorem gen_spiral_consts :
    Gen.C08.spiral_angleHi_f64 = twoPi64 ∧ Gen.C08.spiral_angleLo_f64 = negTwoPi64 ∧
    Gen.C08.spiral_angleSet0_f32 = twoPi32 ∧ Gen.C08.spiral_angleSet1_f32 = negTwoPi32 ∧
    Gen.C08.spiral_r0Lo_f64 = 0 ∧ Gen.C08.spiral_rFLo_f64 = 0 ∧ Gen.C08.spiral_r0Set0_f32 = 0 ∧ Gen.C08.spiral_rFSet0_f32 = 0 ∧
    Gen.C08.spiral_angleHi_op = "Gt" ∧ Gen.C08.spiral_angleLo_op = "Lt" ∧ Gen.C08.spiral_r0Lo_op = "Lt" ∧ Gen.C08.spiral_rFLo_op = "Lt" := by
  decide

section
open Gen.C08
attribute [local simp] hdrExpr initChanExpr initPortExpr maxDataSize defaultChan Port.SETPOINT_HL
  HL.COMMAND_SET_GROUP_MASK HL.COMMAND_STOP HL.COMMAND_GO_TO HL.COMMAND_START_TRAJECTORY HL.COMMAND_DEFINE_TRAJECTORY
  HL.COMMAND_TAKEOFF_2 HL.COMMAND_LAND_2 HL.COMMAND_SPIRAL HL.COMMAND_GO_TO_2 HL.TRAJECTORY_LOCATION_MEM

/-- shared first steps: `_send_packet(struct.pack(fmt, CMD, ...))` -/
theorem hl_open {cs : Fmt} {t : Nat} {xs : List Num} {ps : List Packet} (ht : t < 256) (hs : fmtSupported cs = true)
    (h : hlSend (packNums (.B :: cs) (k t :: xs)) = .ok ps) :
    ∃ r, ps = [mkPacket Port.SETPOINT_HL defaultChan (UInt8.ofNat t :: r)] ∧ r.length = Fmt.size cs ∧ r.length + 1 ≤ 30 ∧
      Fw.unpackAs cs r = some (asVals cs xs) ∧ AllRepr cs xs := by
  obtain ⟨d, hd, rfl, hl⟩ := hlSend_ok h
  obtain ⟨r, rfl, hr⟩ := packNums_tag ht hd
  exact ⟨r, rfl, packNums_length hs hr, by simpa using hl, unpackAs_packNums hs hr, packNums_allRepr hr⟩

theorem sound_hlGroupMask (ver : Int) (gm : Num) : Sound1 ver (.hlGroupMask gm) := by
  intro ps h _
  simp only [emit, fmt_hlGroupMask] at h
  obtain ⟨r, rfl, hlen, hl, hu, ⟨g, cv, rfl, hg⟩, _⟩ := hl_open (by decide) (by decide) h
  refine ⟨_, rfl, by simpa [mkPacket] using hl, by simp [expected?, uint?_ofNat hg], ?_⟩
  simp [Fw.decode, mkPacket, Fw.decodeHL, hu, asVals, Num.asVal, expected?, uint?_ofNat hg]

theorem sound_hlStop (ver : Int) (gm : Num) : Sound1 ver (.hlStop gm) := by
  intro ps h _
  simp only [emit, fmt_hlStop] at h
  obtain ⟨r, rfl, hlen, hl, hu, ⟨g, cv, rfl, hg⟩, _⟩ := hl_open (by decide) (by decide) h
  refine ⟨_, rfl, by simpa [mkPacket] using hl, by simp [expected?, uint?_ofNat hg], ?_⟩
  simp [Fw.decode, mkPacket, Fw.decodeHL, hu, asVals, Num.asVal, expected?, uint?_ofNat hg]

theorem truthy_boolNum (b : Bool) : (boolNum b).truthy = b := by cases b <;> rfl

theorem sound_hlTakeoff (ver : Int) (height dur gm : Num) (yaw : Option Num) : Sound1 ver (.hlTakeoff height dur gm yaw) := by
  intro ps h _
  simp only [emit, fmt_hlTakeoff] at h
  cases yaw with
  | none =>
    simp only [yawArgs] at h
    obtain ⟨r, rfl, hlen, hl, hu, ⟨g, cv, rfl, hg⟩, ⟨a, ha⟩, ⟨b, hb⟩, _, ⟨c, hc⟩, _⟩ := hl_open (by decide) (by decide) h
    have hb0 : b = 0 := by simpa [f32?, Num.conv] using hb.symm
    subst hb0
    refine ⟨_, rfl, by simpa [mkPacket] using hl, by simp [expected?, uint?_ofNat hg, ha, hc], ?_⟩
    simp [Fw.decode, mkPacket, Fw.decodeHL, hu, asVals, Num.asVal, expected?, uint?_ofNat hg, ha, hb, hc, truthy_boolNum]
  | some y =>
    simp only [yawArgs] at h
    obtain ⟨r, rfl, hlen, hl, hu, ⟨g, cv, rfl, hg⟩, ⟨a, ha⟩, ⟨b, hb⟩, _, ⟨c, hc⟩, _⟩ := hl_open (by decide) (by decide) h
    refine ⟨_, rfl, by simpa [mkPacket] using hl, by simp [expected?, uint?_ofNat hg, ha, hb, hc], ?_⟩
    simp [Fw.decode, mkPacket, Fw.decodeHL, hu, asVals, Num.asVal, expected?, uint?_ofNat hg, ha, hb, hc, truthy_boolNum]

theorem sound_hlLand (ver : Int) (height dur gm : Num) (yaw : Option Num) : Sound1 ver (.hlLand height dur gm yaw) := by
  intro ps h _
  simp only [emit, fmt_hlLand] at h
  cases yaw with
  | none =>
    simp only [yawArgs] at h
    obtain ⟨r, rfl, hlen, hl, hu, ⟨g, cv, rfl, hg⟩, ⟨a, ha⟩, ⟨b, hb⟩, _, ⟨c, hc⟩, _⟩ := hl_open (by decide) (by decide) h
    have hb0 : b = 0 := by simpa [f32?, Num.conv] using hb.symm
    subst hb0
    refine ⟨_, rfl, by simpa [mkPacket] using hl, by simp [expected?, uint?_ofNat hg, ha, hc], ?_⟩
    simp [Fw.decode, mkPacket, Fw.decodeHL, hu, asVals, Num.asVal, expected?, uint?_ofNat hg, ha, hb, hc, truthy_boolNum]
  | some y =>
    simp only [yawArgs] at h
    obtain ⟨r, rfl, hlen, hl, hu, ⟨g, cv, rfl, hg⟩, ⟨a, ha⟩, ⟨b, hb⟩, _, ⟨c, hc⟩, _⟩ := hl_open (by decide) (by decide) h
    refine ⟨_, rfl, by simpa [mkPacket] using hl, by simp [expected?, uint?_ofNat hg, ha, hb, hc], ?_⟩
    simp [Fw.decode, mkPacket, Fw.decodeHL, hu, asVals, Num.asVal, expected?, uint?_ofNat hg, ha, hb, hc, truthy_boolNum]

theorem sound_hlGoTo (ver : Int) (x y z yaw dur rel lin gm : Num) : Sound1 ver (.hlGoTo x y z yaw dur rel lin gm) := by
  intro ps h _
  simp only [emit] at h
  split at h
  · rename_i hv
    rw [fmt_hlGoTo0] at h
    obtain ⟨r, rfl, hlen, hl, hu, ⟨g, cv, rfl, hg⟩, ⟨rl, cv2, rfl, hrl⟩, ⟨a, ha⟩, ⟨b, hb⟩, ⟨c, hc⟩, ⟨d, hd⟩, ⟨e, he⟩, _⟩ :=
      hl_open (by decide) (by decide) h
    refine ⟨_, rfl, by simpa [mkPacket] using hl, by simp [expected?, hv, uint?_ofNat hg, uint?_ofNat hrl, ha, hb, hc, hd, he], ?_⟩
    simp [Fw.decode, mkPacket, Fw.decodeHL, hu, asVals, Num.asVal, expected?, hv, uint?_ofNat hg, uint?_ofNat hrl, ha, hb, hc, hd, he]
  · rename_i hv
    rw [fmt_hlGoTo1] at h
    obtain ⟨r, rfl, hlen, hl, hu, ⟨g, cv, rfl, hg⟩, ⟨rl, cv2, rfl, hrl⟩, ⟨li, cv3, rfl, hli⟩, ⟨a, ha⟩, ⟨b, hb⟩, ⟨c, hc⟩, ⟨d, hd⟩, ⟨e, he⟩, _⟩ :=
      hl_open (by decide) (by decide) h
    refine ⟨_, rfl, by simpa [mkPacket] using hl,
      by simp [expected?, hv, uint?_ofNat hg, uint?_ofNat hrl, uint?_ofNat hli, ha, hb, hc, hd, he], ?_⟩
    simp [Fw.decode, mkPacket, Fw.decodeHL, hu, asVals, Num.asVal, expected?, hv, uint?_ofNat hg, uint?_ofNat hrl, uint?_ofNat hli,
      ha, hb, hc, hd, he]

theorem f32?_f_bits (d b : Nat) (h : b < 2 ^ 32) : f32? (Num.f d (.bits b)) = some b := by
  simp only [f32?, Num.conv]; rw [if_pos h]
theorem f32?_i_bits (v : Int) (b : Nat) (h : b < 2 ^ 32) : f32? (Num.i v (.bits b)) = some b := by
  simp only [f32?, Num.conv]; rw [if_pos h]

theorem clampAngle_model (angle : Num) :
    f32? (if angle.gtF64 spiral_angleHi_f64 then Num.f spiral_angleHi_f64 (.bits spiral_angleSet0_f32)
          else if angle.ltF64 spiral_angleLo_f64 then Num.f spiral_angleLo_f64 (.bits spiral_angleSet1_f32) else angle)
      = clampAngle? angle := by
  obtain ⟨h1, h2, h3, h4, _⟩ := gen_spiral_consts
  rw [h1, h2, h3, h4]
  unfold clampAngle?
  split
  · exact f32?_f_bits _ _ (by decide)
  · split
    · exact f32?_f_bits _ _ (by decide)
    · rfl

theorem clampR0_model (r : Num) :
    f32? (if r.ltF64 spiral_r0Lo_f64 then Num.i 0 (.bits spiral_r0Set0_f32) else r) = clampRadius? r := by
  obtain ⟨_, _, _, _, h5, _, h7, _⟩ := gen_spiral_consts
  rw [h5, h7]; unfold clampRadius?
  split
  · exact f32?_i_bits _ _ (by decide)
  · rfl

theorem clampRF_model (r : Num) :
    f32? (if r.ltF64 spiral_rFLo_f64 then Num.i 0 (.bits spiral_rFSet0_f32) else r) = clampRadius? r := by
  obtain ⟨_, _, _, _, _, h6, _, h8, _⟩ := gen_spiral_consts
  rw [h6, h8]; unfold clampRadius?
  split
  · exact f32?_i_bits _ _ (by decide)
  · rfl

theorem sound_hlSpiral (ver : Int) (hv : ¬ ver < 8) (angle r0 rF asc dur sw cw gm : Num) :
    Sound1 ver (.hlSpiral angle r0 rF asc dur sw cw gm) := by
  intro ps h _
  simp only [emit, if_neg hv, fmt_hlSpiral] at h
  obtain ⟨r, rfl, hlen, hl, hu, ⟨g, cv, rfl, hg⟩, ⟨s, cv2, rfl, hs⟩, ⟨c, cv3, rfl, hc⟩, ⟨a, ha⟩, ⟨b, hb⟩, ⟨f, hf⟩, ⟨d, hd⟩, ⟨e, he⟩, _⟩ :=
    hl_open (by decide) (by decide) h
  have ha' := ha; have hb' := hb; have hf' := hf
  rw [clampAngle_model] at ha'
  rw [clampR0_model] at hb'
  rw [clampRF_model] at hf'
  refine ⟨_, rfl, by simpa [mkPacket] using hl,
    by simp [expected?, hv, uint?_ofNat hg, uint?_ofNat hs, uint?_ofNat hc, ha', hb', hf', hd, he], ?_⟩
  simp [Fw.decode, mkPacket, Fw.decodeHL, hu, asVals, Num.asVal, expected?, hv, uint?_ofNat hg, uint?_ofNat hs, uint?_ofNat hc,
    ha, hb, hf, ha', hb', hf', hd, he]

/-- before protocol version 8 `spiral` sends nothing -/
theorem spiral_legacy_nothing (ver : Int) (hv : ver < 8) (angle r0 rF asc dur sw cw gm : Num) :
    emit ver (.hlSpiral angle r0 rF asc dur sw cw gm) = .ok [] := by
  simp only [emit, if_pos hv]

theorem sound_hlStartTraj (ver : Int) (id ts rel rev gm : Num) : Sound1 ver (.hlStartTraj id ts rel rev gm) := by
  intro ps h _
  simp only [emit, fmt_hlStartTraj] at h
  obtain ⟨r, rfl, hlen, hl, hu, ⟨g, cv, rfl, hg⟩, ⟨a, cv2, rfl, ha⟩, ⟨b, cv3, rfl, hb⟩, ⟨c, cv4, rfl, hc⟩, ⟨t, ht⟩, _⟩ :=
    hl_open (by decide) (by decide) h
  refine ⟨_, rfl, by simpa [mkPacket] using hl, by simp [expected?, uint?_ofNat hg, uint?_ofNat ha, uint?_ofNat hb, uint?_ofNat hc, ht], ?_⟩
  simp [Fw.decode, mkPacket, Fw.decodeHL, hu, asVals, Num.asVal, expected?, uint?_ofNat hg, uint?_ofNat ha, uint?_ofNat hb, uint?_ofNat hc, ht]

theorem sound_hlDefineTraj (ver : Int) (id off n typ : Num) : Sound1 ver (.hlDefineTraj id off n typ) := by
  intro ps h _
  simp only [emit, fmt_hlDefineTraj] at h
  obtain ⟨r, rfl, hlen, hl, hu, ⟨a, cv, rfl, ha⟩, _, ⟨b, cv3, rfl, hb⟩, ⟨c, cv4, rfl, hc⟩, ⟨d, cv5, rfl, hd⟩, _⟩ :=
    hl_open (by decide) (by decide) h
  refine ⟨_, rfl, by simpa [mkPacket] using hl, by simp [expected?, uint?_ofNat ha, uint?_ofNat hb, uint?_ofNat hc, uint?_ofNat hd], ?_⟩
  simp [Fw.decode, mkPacket, Fw.decodeHL, hu, asVals, Num.asVal, k, expected?, uint?_ofNat ha, uint?_ofNat hb, uint?_ofNat hc, uint?_ofNat hd]

end
end CfVerif.C08

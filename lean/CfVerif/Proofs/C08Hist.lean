/- Proofs/C08Hist — histories of the long-lived emitting objects: every call is executed under the protocol version
negotiated most recently before it and the x-mode set most recently before it; nothing else is remembered. -/
import CfVerif.Model.C08
namespace CfVerif.C08
open CfVerif

/-- the version argument of the last `.negotiated` event (the object's initial value if there is none) -/
def lastNegotiated : List Ev → Int → Int
  | [], v => v
  | .negotiated w :: es, _ => lastNegotiated es w
  | _ :: es, v => lastNegotiated es v

/-- the argument of the last `.setXmode` event -/
def lastXmode : List Ev → Bool → Bool
  | [], b => b
  | .setXmode x :: es, _ => lastXmode es x
  | _ :: es, b => lastXmode es b

theorem stateAfter_cons (s : Objs) (e : Ev) (es : List Ev) : stateAfter s (e :: es) = stateAfter (step s e).1 es := rfl

theorem stateAfter_eq (s : Objs) (evs : List Ev) :
    stateAfter s evs = { xmode := lastXmode evs s.xmode, version := lastNegotiated evs s.version } := by
  induction evs generalizing s with
  | nil => rfl
  | cons e es ih =>
    rw [stateAfter_cons, ih]
    cases e <;> rfl

theorem run_cons_call (s : Objs) (c : Call) (es : List Ev) :
    run s (.call c :: es) =
      { version := s.version, call := c.withXmode s.xmode, result := emit s.version (c.withXmode s.xmode) } :: run s es := rfl

theorem run_append (s : Objs) (pre post : List Ev) : run s (pre ++ post) = run s pre ++ run (stateAfter s pre) post := by
  induction pre generalizing s with
  | nil => rfl
  | cons e es ih =>
    cases e with
    | setXmode b => exact ih _
    | negotiated v => exact ih _
    | call c =>
      show _ :: run s (es ++ post) = _ :: run s es ++ _
      rw [ih]; rfl

/-- the outcome of a call anywhere in a history depends only on the version negotiated last before it, the x-mode set
last before it, and its own arguments -/
theorem run_call_at (s : Objs) (pre : List Ev) (c : Call) (post : List Ev) :
    run s (pre ++ .call c :: post) =
      run s pre ++
        { version := lastNegotiated pre s.version, call := c.withXmode (lastXmode pre s.xmode),
          result := emit (lastNegotiated pre s.version) (c.withXmode (lastXmode pre s.xmode)) } ::
        run (stateAfter s pre) post := by
  rw [run_append, run_cons_call, stateAfter_eq]

theorem run_results (s : Objs) (evs : List Ev) : ∀ d ∈ run s evs, d.result = emit d.version d.call := by
  induction evs generalizing s with
  | nil => intro d hd; cases hd
  | cons e es ih =>
    cases e with
    | setXmode b => exact ih _
    | negotiated v => exact ih _
    | call c =>
      intro d hd
      rw [run_cons_call] at hd
      rcases List.mem_cons.mp hd with rfl | hd
      · rfl
      · exact ih _ d hd

theorem lastNegotiated_append_negotiated (a b : List Ev) (v w : Int) (hb : ∀ e ∈ b, ∀ u, e ≠ .negotiated u) :
    lastNegotiated (a ++ .negotiated v :: b) w = v := by
  induction a generalizing w with
  | nil =>
    show lastNegotiated b v = v
    induction b with
    | nil => rfl
    | cons e es ih =>
      have he := hb e (List.mem_cons_self ..)
      have hes : ∀ e ∈ es, ∀ u, e ≠ .negotiated u := fun e h => hb e (List.mem_cons_of_mem _ h)
      cases e with
      | negotiated u => exact absurd rfl (he u)
      | setXmode x => exact ih hes
      | call c => exact ih hes
  | cons e es ih =>
    cases e <;> exact ih _

theorem lastNegotiated_none (evs : List Ev) (w : Int) (h : ∀ e ∈ evs, ∀ u, e ≠ .negotiated u) : lastNegotiated evs w = w := by
  induction evs with
  | nil => rfl
  | cons e es ih =>
    have he := h e (List.mem_cons_self ..)
    have hes : ∀ e ∈ es, ∀ u, e ≠ .negotiated u := fun e hh => h e (List.mem_cons_of_mem _ hh)
    cases e with
    | negotiated u => exact absurd rfl (he u)
    | setXmode x => exact ih hes
    | call c => exact ih hes

/-! ### queueing link: what is transmitted later is what each call emitted -/

/-- content of the queued objects if the link transmitted now -/
def pending (l : LinkSt) : List Packet := l.queue.filterMap (fun i => l.heap[i]?)

def LinkSt.WF (l : LinkSt) : Prop := ∀ i ∈ l.queue, i < l.heap.length

theorem filterMap_congr' {α β} {f g : α → Option β} : ∀ {l : List α}, (∀ x ∈ l, f x = g x) → l.filterMap f = l.filterMap g
  | [], _ => rfl
  | x :: xs, h => by
    simp only [List.filterMap_cons, h x (List.mem_cons_self ..)]
    rw [filterMap_congr' (fun y hy => h y (List.mem_cons_of_mem _ hy))]

theorem enqueue_spec : ∀ (ps : List Packet) (l : LinkSt), l.WF →
    (l.enqueue ps).wire = l.wire ∧ pending (l.enqueue ps) = pending l ++ ps ∧ (l.enqueue ps).WF ∧
    l.heap.length ≤ (l.enqueue ps).heap.length ∧ (∀ i, i < l.heap.length → (l.enqueue ps).heap[i]? = l.heap[i]?)
  | [], l, h => ⟨rfl, by simp [LinkSt.enqueue], h, Nat.le_refl _, fun _ _ => rfl⟩
  | p :: ps, l, h => by
    let l1 : LinkSt := { l with heap := l.heap ++ [p], queue := l.queue ++ [l.heap.length] }
    have hwf1 : l1.WF := by
      intro i hi
      simp only [l1, List.mem_append, List.mem_singleton] at hi
      simp only [l1, List.length_append, List.length_cons, List.length_nil]
      rcases hi with hi | rfl
      · have := h i hi; omega
      · omega
    have hp1 : pending l1 = pending l ++ [p] := by
      simp only [pending, l1, List.filterMap_append]
      congr 1
      · exact filterMap_congr' (fun i hi => List.getElem?_append_left (h i hi))
      · simp
    obtain ⟨hw, hp, hwf, hlen, hkeep⟩ := enqueue_spec ps l1 hwf1
    have hl1 : l1.heap.length = l.heap.length + 1 := by simp [l1]
    refine ⟨hw, ?_, hwf, by show l.heap.length ≤ (l1.enqueue ps).heap.length; omega, ?_⟩
    · show pending (l1.enqueue ps) = _
      rw [hp, hp1, List.append_assoc]; rfl
    · intro i hi
      show (l1.enqueue ps).heap[i]? = _
      rw [hkeep i (by omega)]
      exact List.getElem?_append_left hi

theorem transmit_spec (l : LinkSt) : l.transmit.wire = l.wire ++ pending l ∧ pending l.transmit = [] ∧ l.transmit.WF ∧
    l.transmit.heap = l.heap :=
  ⟨rfl, rfl, by intro i hi; simp [LinkSt.transmit] at hi, rfl⟩

/-- invariant of every schedule: frames already on the wire followed by the present content of the queued objects are
exactly the packets the calls emitted, in call order -/
theorem runL_inv : ∀ (evs : List LEv) (s : Objs) (l : LinkSt), l.WF →
    (runL (s, l) evs).1 = stateAfter s (apiEvents evs) ∧ (runL (s, l) evs).2.WF ∧
    (runL (s, l) evs).2.wire ++ pending (runL (s, l) evs).2 = l.wire ++ pending l ++ emitted (run s (apiEvents evs)) ∧
    (∀ i, i < l.heap.length → (runL (s, l) evs).2.heap[i]? = l.heap[i]?)
  | [], s, l, h => ⟨rfl, h, by simp [runL, apiEvents, run, emitted], fun _ _ => rfl⟩
  | .transmit :: es, s, l, h => by
    obtain ⟨hw, hp, hwf, hh⟩ := transmit_spec l
    obtain ⟨i1, i2, i3, i4⟩ := runL_inv es s l.transmit hwf
    have hcons : runL (s, l) (.transmit :: es) = runL (s, l.transmit) es := rfl
    rw [hcons]
    refine ⟨i1, i2, ?_, ?_⟩
    · rw [i3, hw, hp]; simp [apiEvents]
    · intro i hi
      rw [i4 i (by rw [hh]; exact hi), hh]
  | .api e :: es, s, l, h => by
    cases e with
    | setXmode b => exact runL_inv es _ l h
    | negotiated v => exact runL_inv es _ l h
    | call c =>
      cases hr : emit s.version (c.withXmode s.xmode) with
      | error err =>
        have hstep : stepL (s, l) (.api (.call c)) = (s, l) := by simp [stepL, step, hr]
        obtain ⟨i1, i2, i3, i4⟩ := runL_inv es s l h
        have hcons : runL (s, l) (.api (.call c) :: es) = runL (s, l) es := by
          show runL (stepL (s, l) _) es = _; rw [hstep]
        rw [hcons]
        refine ⟨i1, i2, ?_, i4⟩
        rw [i3]
        simp [apiEvents, run_cons_call, emitted, hr]
      | ok ps =>
        have hstep : stepL (s, l) (.api (.call c)) = (s, l.enqueue ps) := by simp [stepL, step, hr]
        obtain ⟨hw, hp, hwf, hlen, hkeep⟩ := enqueue_spec ps l h
        obtain ⟨i1, i2, i3, i4⟩ := runL_inv es s (l.enqueue ps) hwf
        have hcons : runL (s, l) (.api (.call c) :: es) = runL (s, l.enqueue ps) es := by
          show runL (stepL (s, l) _) es = _; rw [hstep]
        rw [hcons]
        refine ⟨i1, i2, ?_, ?_⟩
        · rw [i3, hw, hp]
          simp [apiEvents, run_cons_call, emitted, hr, List.append_assoc]
        · intro i hi
          rw [i4 i (by omega), hkeep i hi]

end CfVerif.C08

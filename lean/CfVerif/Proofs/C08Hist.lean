/- Proofs/C08Hist — histories of the long-lived emitting objects: every call is executed under the protocol version
negotiated most recently before it and the x-mode set most recently before it; nothing else is remembered. -/
import CfVerif.Model.C08
namespace CfVerif.C08
open CfVerif

/-- the version argument of the last `.negotiated` event (the object's initial value if there is none) -/
def lastNegotiated : List Ev → Int → Int
  | [], v => v
  | .negotiated w :: es, _ => lastNegotiated es w
  | _ :: es, v => lastNegotiated es v

/-- the argument of the last `.setXmode` event -/
def lastXmode : List Ev → Bool → Bool
  | [], b => b
  | .setXmode x :: es, _ => lastXmode es x
  | _ :: es, b => lastXmode es b

theorem stateAfter_cons (s : Objs) (e : Ev) (es : List Ev) : stateAfter s (e :: es) = stateAfter (step s e).1 es := rfl

theorem stateAfter_eq (s : Objs) (evs : List Ev) :
    stateAfter s evs = { xmode := lastXmode evs s.xmode, version := lastNegotiated evs s.version } := by
  induction evs generalizing s with
  | nil => rfl
  | cons e es ih =>
    rw [stateAfter_cons, ih]
    cases e <;> rfl

theorem run_cons_call (s : Objs) (c : Call) (es : List Ev) :
    run s (.call c :: es) =
      { version := s.version, call := c.withXmode s.xmode, result := emit s.version (c.withXmode s.xmode) } :: run s es := rfl

theorem run_append (s : Objs) (pre post : List Ev) : run s (pre ++ post) = run s pre ++ run (stateAfter s pre) post := by
  induction pre generalizing s with
  | nil => rfl
  | cons e es ih =>
    cases e with
    | setXmode b => exact ih _
    | negotiated v => exact ih _
    | call c =>
      show _ :: run s (es ++ post) = _ :: run s es ++ _
      rw [ih]; rfl

/-- the outcome of a call anywhere in a history depends only on the version negotiated last before it, the x-mode set
last before it, and its own arguments -/
theorem run_call_at (s : Objs) (pre : List Ev) (c : Call) (post : List Ev) :
    run s (pre ++ .call c :: post) =
      run s pre ++
        { version := lastNegotiated pre s.version, call := c.withXmode (lastXmode pre s.xmode),
          result := emit (lastNegotiated pre s.version) (c.withXmode (lastXmode pre s.xmode)) } ::
        run (stateAfter s pre) post := by
  rw [run_append, run_cons_call, stateAfter_eq]

theorem run_results (s : Objs) (evs : List Ev) : ∀ d ∈ run s evs, d.result = emit d.version d.call := by
  induction evs generalizing s with
  | nil => intro d hd; cases hd
  | cons e es ih =>
    cases e with
    | setXmode b => exact ih _
    | negotiated v => exact ih _
    | call c =>
      intro d hd
      rw [run_cons_call] at hd
      rcases List.mem_cons.mp hd with rfl | hd
      · rfl
      · exact ih _ d hd

theorem lastNegotiated_append_negotiated (a b : List Ev) (v w : Int) (hb : ∀ e ∈ b, ∀ u, e ≠ .negotiated u) :
    lastNegotiated (a ++ .negotiated v :: b) w = v := by
  induction a generalizing w with
  | nil =>
    show lastNegotiated b v = v
    induction b with
    | nil => rfl
    | cons e es ih =>
      have he := hb e (List.mem_cons_self ..)
      have hes : ∀ e ∈ es, ∀ u, e ≠ .negotiated u := fun e h => hb e (List.mem_cons_of_mem _ h)
      cases e with
      | negotiated u => exact absurd rfl (he u)
      | setXmode x => exact ih hes
      | call c => exact ih hes
  | cons e es ih =>
    cases e <;> exact ih _

theorem lastNegotiated_none (evs : List Ev) (w : Int) (h : ∀ e ∈ evs, ∀ u, e ≠ .negotiated u) : lastNegotiated evs w = w := by
  induction evs with
  | nil => rfl
  | cons e es ih =>
    have he := h e (List.mem_cons_self ..)
    have hes : ∀ e ∈ es, ∀ u, e ≠ .negotiated u := fun e hh => h e (List.mem_cons_of_mem _ hh)
    cases e with
    | negotiated u => exact absurd rfl (he u)
    | setXmode x => exact ih hes
    | call c => exact ih hes

end CfVerif.C08

/- Proofs/C08Loc — per-method decode lemmas: Localization, Extpos, PlatformService, LoPoAnchor. -/
import CfVerif.Proofs.C08Cmdr
namespace CfVerif.C08
open CfVerif

theorem fmt_extpos : parseFmt! Gen.C08.extpos_fmt0 = [.f, .f, .f] := by decide
theorem fmt_extpose : parseFmt! Gen.C08.extpose_fmt0 = [.B, .f, .f, .f, .f, .f, .f, .f] := by decide
theorem fmt_shortLpp : parseFmt! Gen.C08.shortLpp_fmt0 = [.B, .B] := by decide
theorem fmt_emergencyStop : parseFmt! Gen.C08.emergencyStop_fmt0 = [.B] := by decide
theorem fmt_emergencyWatchdog : parseFmt! Gen.C08.emergencyWatchdog_fmt0 = [.B] := by decide
theorem fmt_lhPersist : parseFmt! Gen.C08.lhPersist_fmt0 = [.B, .H, .H] := by decide
theorem fmt_lopoPosition : parseFmt! Gen.C08.lopoPosition_fmt0 = [.B, .f, .f, .f] := by decide
theorem fmt_lopoReboot : parseFmt! Gen.C08.lopoReboot_fmt0 = [.B, .B] := by decide
theorem fmt_lopoMode : parseFmt! Gen.C08.lopoMode_fmt0 = [.B, .B] := by decide

/-! ### base-station lists -/

theorem foldl_min_le (l : List Int) (a : Int) : l.foldl min a ≤ a ∧ ∀ x ∈ l, l.foldl min a ≤ x := by
  induction l generalizing a with
  | nil => simp
  | cons y ys ih =>
    simp only [List.foldl_cons, List.mem_cons]
    obtain ⟨h1, h2⟩ := ih (min a y)
    refine ⟨by omega, ?_⟩
    rintro x (rfl | hx)
    · omega
    · exact h2 x hx

theorem le_foldl_max (l : List Int) (a : Int) : a ≤ l.foldl max a ∧ ∀ x ∈ l, x ≤ l.foldl max a := by
  induction l generalizing a with
  | nil => simp
  | cons y ys ih =>
    simp only [List.foldl_cons, List.mem_cons]
    obtain ⟨h1, h2⟩ := ih (max a y)
    refine ⟨by omega, ?_⟩
    rintro x (rfl | hx)
    · omega
    · exact h2 x hx

theorem listMin_le {l : List Int} {x : Int} (h : x ∈ l) : listMin l ≤ x := by
  cases l with
  | nil => cases h
  | cons a as =>
    obtain ⟨h1, h2⟩ := foldl_min_le as a
    simp only [List.mem_cons] at h
    rcases h with rfl | h
    · exact h1
    · exact h2 x h

theorem le_listMax {l : List Int} {x : Int} (h : x ∈ l) : x ≤ listMax l := by
  cases l with
  | nil => cases h
  | cons a as =>
    obtain ⟨h1, h2⟩ := le_foldl_max as a
    simp only [List.mem_cons] at h
    rcases h with rfl | h
    · exact h1
    · exact h2 x h

theorem lhList_ok {l : List Int} (h : lhListBad l = false) : ∀ b ∈ l, 0 ≤ b ∧ b ≤ 15 := by
  intro b hb
  have hne : l.isEmpty = false := by
    cases l with
    | nil => cases hb
    | cons _ _ => rfl
  have hmax : Gen.C08.lhMaxBs = 15 := rfl
  simp only [lhListBad, hne, Bool.not_false, Bool.true_and, Bool.or_eq_false_iff, decide_eq_false_iff_not, hmax] at h
  have := listMin_le hb
  have := le_listMax hb
  omega

theorem maskOr_eq (l : List Int) : maskOr l = l.foldl (fun m b => m ||| 2 ^ b.toNat) 0 := by
  unfold maskOr
  congr 1
  funext m b
  rw [Nat.one_shiftLeft]

theorem bsMask?_of_ok {l : List Int} (h : lhListBad l = false) : bsMask? l = some (maskOr l) := by
  have hall : l.all (fun b => decide (0 ≤ b ∧ b ≤ 15)) = true := by
    rw [List.all_eq_true]; intro b hb; simpa using lhList_ok h b hb
  simp only [bsMask?, hall, if_true, maskOr_eq]

/-- the bit-set reading of the mask: bit `b` is set iff `b` is in the list -/
theorem testBit_foldl_or (l : List Int) (hl : ∀ x ∈ l, 0 ≤ x) (m b : Nat) :
    (l.foldl (fun m x => m ||| 2 ^ x.toNat) m).testBit b = (m.testBit b || l.contains (b : Int)) := by
  induction l generalizing m with
  | nil => simp
  | cons x xs ih =>
    simp only [List.foldl_cons]
    rw [ih (fun y hy => hl y (List.mem_cons_of_mem _ hy))]
    have hx := hl x (List.mem_cons_self ..)
    simp only [Nat.testBit_or, Nat.testBit_two_pow, List.contains_cons, Bool.or_assoc]
    congr 1
    have : (decide (x.toNat = b)) = ((b : Int) == x) := by
      rw [Bool.eq_iff_iff]; simp only [decide_eq_true_eq, beq_iff_eq]; omega
    rw [this]

theorem bsMask_testBit_aux {l : List Int} {m : Nat} (h : bsMask? l = some m) (b : Nat) :
    m.testBit b = l.contains (b : Int) := by
  unfold bsMask? at h
  split at h
  · rename_i hall
    cases h
    rw [List.all_eq_true] at hall
    rw [testBit_foldl_or l (fun x hx => by have := hall x hx; simp at this; omega)]
    simp
  · cases h

section
open Gen.C08
attribute [local simp] hdrExpr initChanExpr initPortExpr maxDataSize defaultChan Port.LOCALIZATION Port.PLATFORM
  Loc.POSITION_CH Loc.GENERIC_CH Loc.EXT_POSE Loc.LPS_SHORT_LPP_PACKET Loc.EMERGENCY_STOP Loc.EMERGENCY_STOP_WATCHDOG
  Loc.LH_PERSIST_DATA Plat.PLATFORM_COMMAND Plat.PLATFORM_SET_CONT_WAVE Plat.PLATFORM_REQUEST_ARMING
  Plat.PLATFORM_REQUEST_CRASH_RECOVERY Lopo.LPP_TYPE_POSITION Lopo.LPP_TYPE_REBOOT Lopo.LPP_TYPE_MODE

theorem extpos_core {x y z : Num} {ps : List Packet}
    (h : build Port.LOCALIZATION Loc.POSITION_CH extpos_fmt0 [x, y, z] = .ok ps) :
    ∃ p a b c, ps = [p] ∧ p.data.length ≤ 30 ∧ f32? x = some a ∧ f32? y = some b ∧ f32? z = some c ∧
      Fw.decode 0 p.header p.data = some (.extPosition a b c) ∧ ∀ v, Fw.decode v p.header p.data = Fw.decode 0 p.header p.data := by
  obtain ⟨d, hd, rfl, hl⟩ := build_ok h
  rw [fmt_extpos] at hd
  have hlen := packNums_length (by decide) hd
  have hu := unpackAs_packNums (by decide) hd
  obtain ⟨⟨a, ha⟩, ⟨b, hb⟩, ⟨c, hc⟩, _⟩ := packNums_allRepr hd
  refine ⟨_, a, b, c, rfl, by simp [mkPacket, hlen, Fmt.size, Code.size], ha, hb, hc, ?_, ?_⟩
  · simp [Fw.decode, mkPacket, hu, asVals, Num.asVal, ha, hb, hc]
  · intro v; simp [Fw.decode, mkPacket]

theorem sound_extpos (ver : Int) (x y z : Num) : Sound1 ver (.extpos x y z) := by
  intro ps h _
  simp only [emit] at h
  obtain ⟨p, a, b, c, rfl, hl, ha, hb, hc, hdec, hv⟩ := extpos_core h
  exact ⟨p, rfl, hl, by simp [expected?, ha, hb, hc], by rw [hv, hdec]; simp [expected?, ha, hb, hc]⟩

theorem sound_extposWrap (ver : Int) (x y z : Num) : Sound1 ver (.extposWrap x y z) := by
  intro ps h _
  simp only [emit] at h
  obtain ⟨p, a, b, c, rfl, hl, ha, hb, hc, hdec, hv⟩ := extpos_core h
  exact ⟨p, rfl, hl, by simp [expected?, ha, hb, hc], by rw [hv, hdec]; simp [expected?, ha, hb, hc]⟩

theorem extpose_core {x y z qx qy qz qw : Num} {ps : List Packet}
    (h : build Port.LOCALIZATION Loc.GENERIC_CH extpose_fmt0 [k Loc.EXT_POSE, x, y, z, qx, qy, qz, qw] = .ok ps) :
    ∃ p a b c d e f g, ps = [p] ∧ p.data.length ≤ 30 ∧ f32? x = some a ∧ f32? y = some b ∧ f32? z = some c ∧
      f32? qx = some d ∧ f32? qy = some e ∧ f32? qz = some f ∧ f32? qw = some g ∧
      ∀ v, Fw.decode v p.header p.data = some (.extPose a b c d e f g) := by
  obtain ⟨dd, hd, rfl, hl⟩ := build_ok h
  rw [fmt_extpose] at hd
  obtain ⟨r, rfl, hr⟩ := packNums_tag (by decide) hd
  have hlen := packNums_length (by decide) hr
  have hu := unpackAs_packNums (by decide) hr
  obtain ⟨⟨a, ha⟩, ⟨b, hb⟩, ⟨c, hc⟩, ⟨d, hd'⟩, ⟨e, he⟩, ⟨f, hf⟩, ⟨g, hg⟩, _⟩ := packNums_allRepr hr
  refine ⟨_, a, b, c, d, e, f, g, rfl, by simp [mkPacket, hlen, Fmt.size, Code.size], ha, hb, hc, hd', he, hf, hg, ?_⟩
  intro v
  simp [Fw.decode, mkPacket, Fw.decodeLocGeneric, hu, asVals, Num.asVal, ha, hb, hc, hd', he, hf, hg]

theorem sound_extpose (ver : Int) (x y z qx qy qz qw : Num) : Sound1 ver (.extpose x y z qx qy qz qw) := by
  intro ps h _
  simp only [emit] at h
  obtain ⟨p, a, b, c, d, e, f, g, rfl, hl, ha, hb, hc, hd, he, hf, hg, hdec⟩ := extpose_core h
  exact ⟨p, rfl, hl, by simp [expected?, ha, hb, hc, hd, he, hf, hg], by rw [hdec]; simp [expected?, ha, hb, hc, hd, he, hf, hg]⟩

theorem sound_extposeWrap (ver : Int) (x y z qx qy qz qw : Num) : Sound1 ver (.extposeWrap x y z qx qy qz qw) := by
  intro ps h _
  simp only [emit] at h
  obtain ⟨p, a, b, c, d, e, f, g, rfl, hl, ha, hb, hc, hd, he, hf, hg, hdec⟩ := extpose_core h
  exact ⟨p, rfl, hl, by simp [expected?, ha, hb, hc, hd, he, hf, hg], by rw [hdec]; simp [expected?, ha, hb, hc, hd, he, hf, hg]⟩

/-- `send_short_lpp_packet`: destination byte then the payload, unchanged -/
theorem shortLpp_core {dest : Num} {data : List UInt8} {ps : List Packet} (h : shortLpp dest data = .ok ps) :
    ∃ (p : Packet) (dv : Nat), ps = [p] ∧ p.data.length ≤ 30 ∧ data.length + 2 ≤ 30 ∧ uint? 1 dest = some dv ∧
      ∀ v, Fw.decode v p.header p.data = some (.shortLpp dv data) := by
  simp only [shortLpp, bind, Except.bind] at h
  split at h
  · cases h
  · rename_i hh hd
    obtain ⟨rfl, hl⟩ := send_ok h
    rw [fmt_shortLpp] at hd
    obtain ⟨r, rfl, hr⟩ := packNums_tag (by decide) hd
    have hlen := packNums_length (by decide) hr
    have hu := unpackAs_packNums (by decide) hr
    obtain ⟨⟨dv, cv, rfl, hdv⟩, _⟩ := packNums_allRepr hr
    obtain ⟨a, r', ha, hr', rfl⟩ := packNums_cons hr
    cases hr'
    have ha' : packUnsigned 1 (Int.ofNat dv) = .ok a := ha
    simp only [packUnsigned, if_pos hdv] at ha'
    cases ha'
    have hdv' : dv < 256 := by simpa using hdv
    refine ⟨_, dv, rfl, by simpa [mkPacket] using hl, by simp [mkPacket] at hl; omega, uint?_ofNat hdv, ?_⟩
    intro v
    simp [Fw.decode, mkPacket, Fw.decodeLocGeneric, leBytes, Nat.mod_eq_of_lt hdv']

theorem sound_shortLpp (ver : Int) (dest : Num) (data : List UInt8) : Sound1 ver (.shortLpp dest data) := by
  intro ps h _
  simp only [emit] at h
  obtain ⟨p, dv, rfl, hl, hl2, hd, hdec⟩ := shortLpp_core h
  exact ⟨p, rfl, hl, by simp [expected?, hd, hl2], by rw [hdec]; simp [expected?, hd, hl2]⟩

theorem sound_emergencyStop (ver : Int) : Sound1 ver .emergencyStop := by
  intro ps h _
  simp only [emit] at h
  obtain ⟨d, hd, rfl, hl⟩ := build_ok h
  rw [fmt_emergencyStop] at hd
  obtain ⟨r, rfl, hr⟩ := packNums_tag (by decide) hd
  cases hr
  exact ⟨_, rfl, by simp [mkPacket], rfl, by simp [Fw.decode, mkPacket, Fw.decodeLocGeneric, expected?]⟩

theorem sound_emergencyWatchdog (ver : Int) : Sound1 ver .emergencyWatchdog := by
  intro ps h _
  simp only [emit] at h
  obtain ⟨d, hd, rfl, hl⟩ := build_ok h
  rw [fmt_emergencyWatchdog] at hd
  obtain ⟨r, rfl, hr⟩ := packNums_tag (by decide) hd
  cases hr
  exact ⟨_, rfl, by simp [mkPacket], rfl, by simp [Fw.decode, mkPacket, Fw.decodeLocGeneric, expected?]⟩

theorem sound_lhPersist (ver : Int) (geo calib : List Int) : Sound1 ver (.lhPersist geo calib) := by
  intro ps h _
  simp only [emit] at h
  split at h
  · cases h
  · rename_i hg
    split at h
    · cases h
    · rename_i hc
      have hg' : lhListBad geo = false := by simpa using hg
      have hc' : lhListBad calib = false := by simpa using hc
      obtain ⟨d, hd, rfl, hl⟩ := build_ok h
      rw [fmt_lhPersist] at hd
      obtain ⟨r, rfl, hr⟩ := packNums_tag (by decide) hd
      have hlen := packNums_length (by decide) hr
      have hu := unpackAs_packNums (by decide) hr
      refine ⟨_, rfl, by simp [mkPacket, hlen, Fmt.size, Code.size], by simp [expected?, bsMask?_of_ok hg', bsMask?_of_ok hc'], ?_⟩
      simp [Fw.decode, mkPacket, Fw.decodeLocGeneric, hu, asVals, Num.asVal, ki, expected?, bsMask?_of_ok hg', bsMask?_of_ok hc']

theorem lhListBad_of_mem {l : List Int} {b : Int} (hb : b ∈ l) (hr : b < 0 ∨ 15 < b) : lhListBad l = true := by
  have hne : l.isEmpty = false := by
    cases l with
    | nil => cases hb
    | cons _ _ => rfl
  have hmax : Gen.C08.lhMaxBs = 15 := rfl
  have := listMin_le hb
  have := le_listMax hb
  simp only [lhListBad, hne, Bool.not_false, Bool.true_and, Bool.or_eq_true, decide_eq_true_eq, hmax]
  omega

theorem lhPersist_invalid (ver : Int) (geo calib : List Int) (b : Int)
    (hb : (b ∈ geo ∨ b ∈ calib) ∧ (b < 0 ∨ 15 < b)) : emit ver (.lhPersist geo calib) = .error .other := by
  simp only [emit]
  rcases hb.1 with hg | hc
  · rw [if_pos (lhListBad_of_mem hg hb.2)]
  · split
    · rfl
    · rw [if_pos (lhListBad_of_mem hc hb.2)]

/-! ### PlatformService: `pk.data = (COMMAND, arg)` -/

theorem tupleBytes2 {t : Nat} {x : Num} {d : List UInt8} (ht : t < 256) (h : tupleBytes [k t, x] = .ok d) :
    ∃ (v : Nat), uint? 1 x = some v ∧ d = [UInt8.ofNat t, UInt8.ofNat v] := by
  cases x with
  | f dd cv => simp [tupleBytes, k, ht, bind, Except.bind] at h
  | i w cv =>
    cases w with
    | ofNat n =>
      by_cases hn : n < 256
      · simp [tupleBytes, k, ht, hn, bind, Except.bind, pure, Except.pure] at h
        exact ⟨n, by simp [uint?, hn], h.symm⟩
      · simp [tupleBytes, k, ht, hn, bind, Except.bind] at h
    | negSucc n => simp [tupleBytes, k, ht, bind, Except.bind] at h

theorem sound_contWave (ver : Int) (en : Num) : Sound1 ver (.contWave en) := by
  intro ps h _
  simp only [emit, bind, Except.bind] at h
  split at h
  · cases h
  · rename_i d hd
    obtain ⟨rfl, hl⟩ := send_ok h
    obtain ⟨v, hv, rfl⟩ := tupleBytes2 (by decide) hd
    have hv' : v < 256 := by obtain ⟨_, _, h⟩ := uint?_some hv; simpa using h
    refine ⟨_, rfl, by simp [mkPacket], by simp [expected?, hv], ?_⟩
    simp [Fw.decode, mkPacket, Fw.decodePlatform, expected?, hv, truth, Nat.mod_eq_of_lt hv']

theorem sound_arming (ver : Int) (a : Num) : Sound1 ver (.arming a) := by
  intro ps h _
  simp only [emit, bind, Except.bind] at h
  split at h
  · cases h
  · rename_i d hd
    obtain ⟨rfl, hl⟩ := send_ok h
    obtain ⟨v, hv, rfl⟩ := tupleBytes2 (by decide) hd
    have hv' : v < 256 := by obtain ⟨_, _, h⟩ := uint?_some hv; simpa using h
    refine ⟨_, rfl, by simp [mkPacket], by simp [expected?, hv], ?_⟩
    simp [Fw.decode, mkPacket, Fw.decodePlatform, expected?, hv, truth, Nat.mod_eq_of_lt hv']

theorem sound_crashRecovery (ver : Int) : Sound1 ver .crashRecovery := by
  intro ps h _
  simp only [emit, bind, Except.bind] at h
  split at h
  · cases h
  · rename_i d hd
    obtain ⟨rfl, hl⟩ := send_ok h
    simp [tupleBytes, k, pure, Except.pure, bind, Except.bind] at hd
    subst hd
    exact ⟨_, rfl, by simp [mkPacket], rfl, by simp [Fw.decode, mkPacket, Fw.decodePlatform, expected?]⟩

/-! ### LoPoAnchor: a short LPP packet whose payload is itself a packed struct for the anchor -/

/-- what the property demands of a LoPoAnchor call in addition: the anchor decodes the payload to the arguments -/
def SoundLpp (ver : Int) (c : Call) : Prop :=
  ∀ ps, emit ver c = .ok ps → ∀ p ∈ ps, ∃ dest payload, Fw.decode ver p.header p.data = some (.shortLpp dest payload) ∧
    (expectedLpp? c).isSome ∧ Fw.decodeLpp payload = expectedLpp? c

theorem lopoPosition_core {x y z : Num} {d : List UInt8}
    (hd : packNums (parseFmt! lopoPosition_fmt0) [k Lopo.LPP_TYPE_POSITION, x, y, z] = .ok d) :
    ∃ a b c, f32? x = some a ∧ f32? y = some b ∧ f32? z = some c ∧
      d = 1 :: (f32Bytes a ++ f32Bytes b ++ f32Bytes c) ∧ Fw.decodeLpp d = some (.position a b c) := by
  rw [fmt_lopoPosition] at hd
  obtain ⟨r, rfl, hr⟩ := packNums_tag (by decide) hd
  have hu := unpackAs_packNums (by decide) hr
  obtain ⟨⟨a, ha⟩, ⟨b, hb⟩, ⟨c, hc⟩, _⟩ := packNums_allRepr hr
  have hlpp : Fw.decodeLpp (UInt8.ofNat Lopo.LPP_TYPE_POSITION :: r) = some (.position a b c) := by
    simp [Fw.decodeLpp, hu, asVals, Num.asVal, ha, hb, hc]
  obtain ⟨a1, r1, ha1, hr1, rfl⟩ := packNums_cons hr
  obtain ⟨a2, r2, ha2, hr2, rfl⟩ := packNums_cons hr1
  obtain ⟨a3, r3, ha3, hr3, rfl⟩ := packNums_cons hr2
  cases hr3
  obtain ⟨a', ha', rfl⟩ := packNum_f_ok ha1
  obtain ⟨b', hb', rfl⟩ := packNum_f_ok ha2
  obtain ⟨c', hc', rfl⟩ := packNum_f_ok ha3
  rw [ha] at ha'; rw [hb] at hb'; rw [hc] at hc'
  cases ha'; cases hb'; cases hc'
  exact ⟨a, b, c, ha, hb, hc, by simp [f32Bytes], hlpp⟩

theorem lopoByte_core {t : Nat} {fmt : String} {m : Num} {d : List UInt8} (hf : parseFmt! fmt = [.B, .B]) (ht : t < 256)
    (hd : packNums (parseFmt! fmt) [k t, m] = .ok d) :
    ∃ (v : Nat), uint? 1 m = some v ∧ d = [UInt8.ofNat t, UInt8.ofNat v] ∧ Fw.unpackAs [.B] [UInt8.ofNat v] = some [.int v] := by
  rw [hf] at hd
  obtain ⟨r, rfl, hr⟩ := packNums_tag ht hd
  have hu := unpackAs_packNums (by decide) hr
  obtain ⟨⟨v, cv, rfl, hv⟩, _⟩ := packNums_allRepr hr
  obtain ⟨a, r', ha, hr', rfl⟩ := packNums_cons hr
  cases hr'
  have ha' : packUnsigned 1 (Int.ofNat v) = .ok a := ha
  simp only [packUnsigned, if_pos hv] at ha'
  cases ha'
  have hv' : v < 256 := by simpa using hv
  refine ⟨v, uint?_ofNat hv, by simp [leBytes, Nat.mod_eq_of_lt hv'], ?_⟩
  simpa [leBytes, Nat.mod_eq_of_lt hv', asVals, Num.asVal] using hu

theorem bind_ok {α β} {x : Except PyErr α} {f : α → Except PyErr β} {b : β} (h : (x >>= f) = .ok b) :
    ∃ a, x = .ok a ∧ f a = .ok b := by
  cases x with
  | error e => cases h
  | ok a => exact ⟨a, rfl, h⟩

theorem sound_lopoPosition (ver : Int) (id x y z : Num) :
    Sound1 ver (.lopoPosition id x y z) ∧ SoundLpp ver (.lopoPosition id x y z) := by
  refine ⟨?_, ?_⟩
  · intro ps h _
    simp only [emit] at h
    obtain ⟨d, hd, hs⟩ := bind_ok h
    obtain ⟨a, b, c, ha, hb, hc, rfl, _⟩ := lopoPosition_core hd
    obtain ⟨p, dv, rfl, hl, hl2, hdv, hdec⟩ := shortLpp_core hs
    exact ⟨p, rfl, hl, by simp [expected?, hdv, ha, hb, hc], by rw [hdec]; simp [expected?, hdv, ha, hb, hc]⟩
  · intro ps h p hp
    simp only [emit] at h
    obtain ⟨d, hd, hs⟩ := bind_ok h
    obtain ⟨a, b, c, ha, hb, hc, _, hlpp⟩ := lopoPosition_core hd
    obtain ⟨p', dv, rfl, hl, hl2, hdv, hdec⟩ := shortLpp_core hs
    simp only [List.mem_singleton] at hp
    subst hp
    exact ⟨dv, d, hdec ver, by simp [expectedLpp?, ha, hb, hc], by rw [hlpp]; simp [expectedLpp?, ha, hb, hc]⟩

theorem sound_lopoReboot (ver : Int) (id m : Num) :
    Sound1 ver (.lopoReboot id m) ∧ SoundLpp ver (.lopoReboot id m) := by
  refine ⟨?_, ?_⟩
  · intro ps h _
    simp only [emit] at h
    obtain ⟨d, hd, hs⟩ := bind_ok h
    obtain ⟨v, hv, rfl, _⟩ := lopoByte_core fmt_lopoReboot (by decide) hd
    obtain ⟨p, dv, rfl, hl, hl2, hdv, hdec⟩ := shortLpp_core hs
    exact ⟨p, rfl, hl, by simp [expected?, hdv, hv], by rw [hdec]; simp [expected?, hdv, hv]⟩
  · intro ps h p hp
    simp only [emit] at h
    obtain ⟨d, hd, hs⟩ := bind_ok h
    obtain ⟨v, hv, rfl, hu⟩ := lopoByte_core fmt_lopoReboot (by decide) hd
    obtain ⟨p', dv, rfl, hl, hl2, hdv, hdec⟩ := shortLpp_core hs
    simp only [List.mem_singleton] at hp
    subst hp
    exact ⟨dv, _, hdec ver, by simp [expectedLpp?, hv], by simp [Fw.decodeLpp, hu, expectedLpp?, hv]⟩

theorem sound_lopoMode (ver : Int) (id m : Num) :
    Sound1 ver (.lopoMode id m) ∧ SoundLpp ver (.lopoMode id m) := by
  refine ⟨?_, ?_⟩
  · intro ps h _
    simp only [emit] at h
    obtain ⟨d, hd, hs⟩ := bind_ok h
    obtain ⟨v, hv, rfl, _⟩ := lopoByte_core fmt_lopoMode (by decide) hd
    obtain ⟨p, dv, rfl, hl, hl2, hdv, hdec⟩ := shortLpp_core hs
    exact ⟨p, rfl, hl, by simp [expected?, hdv, hv], by rw [hdec]; simp [expected?, hdv, hv]⟩
  · intro ps h p hp
    simp only [emit] at h
    obtain ⟨d, hd, hs⟩ := bind_ok h
    obtain ⟨v, hv, rfl, hu⟩ := lopoByte_core fmt_lopoMode (by decide) hd
    obtain ⟨p', dv, rfl, hl, hl2, hdv, hdec⟩ := shortLpp_core hs
    simp only [List.mem_singleton] at hp
    subst hp
    exact ⟨dv, _, hdec ver, by simp [expectedLpp?, hv], by simp [Fw.decodeLpp, hu, expectedLpp?, hv]⟩

end
end CfVerif.C08

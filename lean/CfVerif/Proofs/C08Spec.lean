/-
Proofs/C08Spec — the caller-side half of the specification: `expected? ver call` is the firmware command that
the ARGUMENTS of an API call denote (written with the documented conventions only: which argument is which
field, the documented sign flip of the RPYT pitch, the caller's own yaw rate for the legacy types, `yaw=None -> use current yaw`, spiral clamping, go_to without
the `linear` flag before protocol version 8, base-station lists as bit sets), or `none` when some argument is not
representable in its field (a float outside binary32, an int outside the field, thrust outside 0..65535,
a fixed-point value outside int16, a base-station id outside 0..15).
It does not mention format strings, byte offsets, type numbers, ports or channels.
-/
import CfVerif.Proofs.C08
namespace CfVerif.C08
open CfVerif

/-- fixed-point field: `int(x * 1000)` must fit int16 -/
def fix16? (s : Scaled) : Option Int :=
  match s.mm with
  | .ok v => sint? 2 v
  | .error _ => none

/-- 9-bit magnitude of one quaternion component: `int(511 * (|q_i| / sqrt(1/2)) + 0.5)` -/
def mag? (c : QComp) : Option Nat :=
  match f64ToInt c.t with
  | .ok (.ofNat m) => if m < 512 then some m else none
  | _ => none

/-- the smallest-three compression: the component of largest magnitude (lowest index among equals) is dropped;
every other component is sent as (index, sign relative to the dropped component, magnitude) -/
def quat? (qn : QuatN) : Option Fw.Quat := do
  let l := iLargest qn
  let neg := f64Neg (qn.get l).q
  let field := fun (i : Nat) => do
    let m ← mag? (qn.get i)
    pure (i, (if f64Neg (qn.get i).q != neg then 1 else 0), m)
  let fs ← ([3, 2, 1, 0].filter (· != l)).mapM field
  pure { largest := l, fields := fs }

/-- a list of base-station ids (each 0..15) as a bit field.  `bsMask_testBit` (Props): bit b is set iff b is in the list. -/
def bsMask? (l : List Int) : Option Nat :=
  if l.all (fun b => decide (0 ≤ b ∧ b ≤ 15)) then some (l.foldl (fun m b => m ||| 2 ^ b.toNat) 0) else none

/-- 2*pi in binary64 / binary32 and their negations (IEEE patterns) -/
def twoPi64 : Nat := 0x401921FB54442D18
def negTwoPi64 : Nat := 0xC01921FB54442D18
def twoPi32 : Nat := 0x40C90FDB
def negTwoPi32 : Nat := 0xC0C90FDB

/-- spiral angle "limited to plus or minus 2pi" -/
def clampAngle? (a : Num) : Option Nat :=
  if a.gtF64 twoPi64 then some twoPi32 else if a.ltF64 negTwoPi64 then some negTwoPi32 else f32? a
/-- spiral radius "must be positive": negative radii are sent as 0 -/
def clampRadius? (r : Num) : Option Nat :=
  if r.ltF64 0 then some 0 else f32? r

def truth (n : Nat) : Bool := n != 0

/-- little-endian bytes of a binary32 pattern (anchor payloads are given as bytes) -/
def f32Bytes (b : Nat) : List UInt8 := leBytes 4 b

/-- a Python int 0 (for which `-x` does not flip a sign bit: `-0 == 0`) -/
def Num.isIntZero : Num → Bool
  | .i v _ => v == 0
  | .f _ _ => false

/-- RPYT pitch on the wire: the documented sign flip of the caller's pitch.  Only for the Python *int* 0 there is no
sign to flip (`-0 == 0`): the wire carries +0.0 where the float 0.0 gives -0.0 — the same number. -/
def pitchWire? (p : Num) : Option Nat :=
  if p.isIntZero then f32? p else (f32? p).map Fw.fneg

/-- yaw rate the firmware uses for the LEGACY generic types (it negates what it receives, the client pre-negates):
the caller's yaw rate bit for bit; only the Python *int* 0 arrives as -0.0 instead of +0.0 — the same number. -/
def legacyYaw? (y : Num) : Option Nat :=
  if y.isIntZero then (f32? y).map Fw.fneg else f32? y

def expected? (ver : Int) : Call → Option Fw.Cmd
  | .setpoint xmode roll pitch mixRoll mixPitch yawrate thrust => do
    -- X-mode: the client-side rotation replaces roll/pitch by the mixed values; the pitch sign is flipped (legacy convention)
    let r := if xmode then mixRoll else roll
    let p := if xmode then mixPitch else pitch
    pure (.rpyt (← f32? r) (← pitchWire? p) (← f32? yawrate) (← uint? 2 thrust))
  | .notifyStop ms => do pure (.notifySetpointsStop (← uint? 4 ms))
  | .stopSetpoint => some .stop
  | .velocityWorld vx vy vz yawrate => do
    pure (.velocityWorld (← f32? vx) (← f32? vy) (← f32? vz) (← if ver ≤ 8 then legacyYaw? yawrate else f32? yawrate))
  | .zdistance roll pitch yawrate z => do
    pure (.zDistance (← f32? roll) (← f32? pitch) (← if ver ≤ 8 then legacyYaw? yawrate else f32? yawrate) (← f32? z))
  | .hover vx vy yawrate z => do
    pure (.hover (← f32? vx) (← f32? vy) (← if ver ≤ 8 then legacyYaw? yawrate else f32? yawrate) (← f32? z))
  | .fullState pos vel acc quat rates => do
    pure (.fullState (← fix16? pos.a) (← fix16? pos.b) (← fix16? pos.c) (← fix16? vel.a) (← fix16? vel.b) (← fix16? vel.c)
      (← fix16? acc.a) (← fix16? acc.b) (← fix16? acc.c) (← quat? quat) (← fix16? rates.a) (← fix16? rates.b) (← fix16? rates.c))
  | .position x y z yaw => do pure (.position (← f32? x) (← f32? y) (← f32? z) (← f32? yaw))
  | .hlGroupMask gm => do pure (.hlSetGroupMask (← uint? 1 gm))
  | .hlTakeoff height dur gm yaw => do
    match yaw with
    | none => pure (.hlTakeoff2 (← uint? 1 gm) (← f32? height) 0 true (← f32? dur))
    | some y => pure (.hlTakeoff2 (← uint? 1 gm) (← f32? height) (← f32? y) false (← f32? dur))
  | .hlLand height dur gm yaw => do
    match yaw with
    | none => pure (.hlLand2 (← uint? 1 gm) (← f32? height) 0 true (← f32? dur))
    | some y => pure (.hlLand2 (← uint? 1 gm) (← f32? height) (← f32? y) false (← f32? dur))
  | .hlStop gm => do pure (.hlStop (← uint? 1 gm))
  | .hlGoTo x y z yaw dur relative linear gm =>
    if ver < 8 then do
      pure (.hlGoTo (← uint? 1 gm) (← uint? 1 relative) (← f32? x) (← f32? y) (← f32? z) (← f32? yaw) (← f32? dur))
    else do
      pure (.hlGoTo2 (← uint? 1 gm) (← uint? 1 relative) (← uint? 1 linear) (← f32? x) (← f32? y) (← f32? z) (← f32? yaw) (← f32? dur))
  | .hlSpiral angle r0 rF ascent dur sideways clockwise gm =>
    if ver < 8 then none     -- not supported before version 8: nothing is sent
    else do
      pure (.hlSpiral (← uint? 1 gm) (← uint? 1 sideways) (← uint? 1 clockwise) (← clampAngle? angle) (← clampRadius? r0)
        (← clampRadius? rF) (← f32? ascent) (← f32? dur))
  | .hlStartTraj id ts relative reversed gm => do
    pure (.hlStartTrajectory (← uint? 1 gm) (← uint? 1 relative) (← uint? 1 reversed) (← uint? 1 id) (← f32? ts))
  | .hlDefineTraj id offset n typ => do
    pure (.hlDefineTrajectory (← uint? 1 id) 1 (← uint? 1 typ) (← uint? 4 offset) (← uint? 1 n))     -- location 1 = TRAJECTORY_LOCATION_MEM
  | .extpos x y z | .extposWrap x y z => do pure (.extPosition (← f32? x) (← f32? y) (← f32? z))
  | .extpose x y z qx qy qz qw | .extposeWrap x y z qx qy qz qw => do
    pure (.extPose (← f32? x) (← f32? y) (← f32? z) (← f32? qx) (← f32? qy) (← f32? qz) (← f32? qw))
  | .shortLpp dest data => do
    if data.length + 2 ≤ 30 then pure (.shortLpp (← uint? 1 dest) data) else none
  | .emergencyStop => some .emergencyStop
  | .emergencyWatchdog => some .emergencyStopWatchdog
  | .lhPersist geo calib => do pure (.lhPersist (← bsMask? geo) (← bsMask? calib))
  | .contWave enabled => do pure (.setContinousWave (truth (← uint? 1 enabled)))
  | .arming doArm => do pure (.armSystem (truth (← uint? 1 doArm)))
  | .crashRecovery => some .recoverSystem
  | .lopoPosition id x y z => do
    pure (.shortLpp (← uint? 1 id) (1 :: (f32Bytes (← f32? x) ++ f32Bytes (← f32? y) ++ f32Bytes (← f32? z))))
  | .lopoReboot id mode => do pure (.shortLpp (← uint? 1 id) [2, UInt8.ofNat (← uint? 1 mode)])
  | .lopoMode id mode => do pure (.shortLpp (← uint? 1 id) [3, UInt8.ofNat (← uint? 1 mode)])

/-- the documented CRTP port and channel of every command -/
def docPortChan : Call → Nat × Nat
  | .setpoint .. => (3, 0)                                   -- CRTP_PORT_SETPOINT
  | .notifyStop _ => (7, 1)                                  -- CRTP_PORT_SETPOINT_GENERIC, meta channel
  | .stopSetpoint | .velocityWorld .. | .zdistance .. | .hover .. | .fullState .. | .position .. => (7, 0)
  | .hlGroupMask _ | .hlTakeoff .. | .hlLand .. | .hlStop _ | .hlGoTo .. | .hlSpiral .. | .hlStartTraj .. | .hlDefineTraj .. => (8, 0)
  | .extpos .. | .extposWrap .. => (6, 0)                    -- CRTP_PORT_LOCALIZATION, EXT_POSITION
  | .extpose .. | .extposeWrap .. | .shortLpp .. | .emergencyStop | .emergencyWatchdog | .lhPersist .. => (6, 1)
  | .lopoPosition .. | .lopoReboot .. | .lopoMode .. => (6, 1)
  | .contWave _ | .arming _ | .crashRecovery => (13, 0)      -- CRTP_PORT_PLATFORM, platformCommand

/-- payload size = type/command byte (if any) + sizeof(the firmware's packed struct) -/
def wireSize (ver : Int) : Call → Nat
  | .setpoint .. => 14
  | .notifyStop _ => 1 + 4
  | .stopSetpoint => 1
  | .velocityWorld .. | .zdistance .. | .hover .. | .position .. => 1 + 16
  | .fullState .. => 1 + 28
  | .hlGroupMask _ | .hlStop _ => 1 + 1
  | .hlTakeoff .. | .hlLand .. => 1 + 14
  | .hlGoTo .. => if ver < 8 then 1 + 22 else 1 + 23
  | .hlSpiral .. => 1 + 23
  | .hlStartTraj .. => 1 + 8
  | .hlDefineTraj .. => 1 + 8
  | .extpos .. | .extposWrap .. => 12
  | .extpose .. | .extposeWrap .. => 1 + 28
  | .shortLpp _ data => 2 + data.length
  | .emergencyStop | .emergencyWatchdog => 1
  | .lhPersist .. => 1 + 4
  | .contWave _ | .arming _ => 2
  | .crashRecovery => 1
  | .lopoPosition .. => 2 + 13
  | .lopoReboot .. | .lopoMode .. => 2 + 2

/-- what the anchor must understand from the payload of the three LoPoAnchor calls -/
def expectedLpp? : Call → Option Fw.Lpp
  | .lopoPosition _ x y z => do pure (.position (← f32? x) (← f32? y) (← f32? z))
  | .lopoReboot _ mode => do pure (.reboot (← uint? 1 mode))
  | .lopoMode _ mode => do pure (.mode (← uint? 1 mode))
  | _ => none

/-- Side condition of the decode theorem, for the full-state setpoint only: the scaled magnitudes of the non-largest
components of the normalised quaternion fit 9 bits.  This is a real-number fact about |q_i| <= 1/sqrt 2 for the
components that are not the largest of a unit quaternion (property C13's side); the integer layout is proved here. -/
def Call.Pre (_ver : Int) : Call → Prop
  | .fullState _ _ _ quat _ => ∀ i, i < 4 → i ≠ iLargest quat → ∀ m : Nat, f64ToInt (quat.get i).t = .ok (m : Int) → m < 512
  | _ => True

end CfVerif.C08

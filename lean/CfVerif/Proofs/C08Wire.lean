/- Proofs/C08Wire — header byte (documented port / channel) and payload size of every emitted packet. -/
import CfVerif.Proofs.C08Spec
namespace CfVerif.C08
open CfVerif

/-- every packet a call hands to the link carries the documented port and channel in its header byte and has
exactly the size of the firmware's struct (plus type byte) -/
def Wire1 (ver : Int) (c : Call) : Prop :=
  ∀ ps, emit ver c = .ok ps → ∀ p ∈ ps,
    p.header = 16 * (docPortChan c).1 + 12 + (docPortChan c).2 ∧ p.data.length = wireSize ver c ∧ p.data.length ≤ 30

theorem build_wire {port chan : Nat} {fmt : String} {args : List Num} {ps : List Packet}
    (hs : fmtSupported (parseFmt! fmt) = true) (h : build port chan fmt args = .ok ps) :
    ∀ p ∈ ps, p.header = Gen.C08.hdrExpr port chan ∧ p.data.length = Fmt.size (parseFmt! fmt) ∧ p.data.length ≤ 30 := by
  obtain ⟨d, hd, rfl, hl⟩ := build_ok h
  intro p hp
  simp only [List.mem_singleton] at hp
  subst hp
  exact ⟨rfl, packNums_length hs hd, hl⟩

theorem hlSend_wire {f : Fmt} {args : List Num} {ps : List Packet}
    (hs : fmtSupported f = true) (h : hlSend (packNums f args) = .ok ps) :
    ∀ p ∈ ps, p.header = Gen.C08.hdrExpr Gen.C08.Port.SETPOINT_HL defaultChan ∧ p.data.length = Fmt.size f ∧ p.data.length ≤ 30 := by
  obtain ⟨d, hd, rfl, hl⟩ := hlSend_ok h
  intro p hp
  simp only [List.mem_singleton] at hp
  subst hp
  exact ⟨rfl, packNums_length hs hd, hl⟩

theorem shortLpp_wire {dest : Num} {data : List UInt8} {ps : List Packet} (h : shortLpp dest data = .ok ps) :
    ∀ p ∈ ps, p.header = Gen.C08.hdrExpr Gen.C08.Port.LOCALIZATION Gen.C08.Loc.GENERIC_CH ∧
      p.data.length = Fmt.size (parseFmt! Gen.C08.shortLpp_fmt0) + data.length ∧ p.data.length ≤ 30 := by
  simp only [shortLpp, bind, Except.bind] at h
  split at h
  · cases h
  · rename_i hh hd
    obtain ⟨rfl, hl⟩ := send_ok h
    intro p hp
    simp only [List.mem_singleton] at hp
    subst hp
    exact ⟨rfl, by simp [mkPacket, packNums_length (by decide) hd], hl⟩

theorem tuple_wire {xs : List Num} {d : List UInt8} (h : tupleBytes xs = .ok d) : d.length = xs.length := by
  induction xs generalizing d with
  | nil => cases h; rfl
  | cons x xs ih =>
    cases x with
    | f _ _ => cases h
    | i v cv =>
      cases v with
      | ofNat n =>
        simp only [tupleBytes] at h
        split at h
        · simp only [bind, Except.bind] at h
          split at h
          · cases h
          · rename_i r hr; cases h; simp [ih hr]
        · cases h
      | negSucc n => cases h

theorem plat_wire {xs : List Num} {ps : List Packet}
    (h : (do let d ← tupleBytes xs; send (mkPacket Gen.C08.Port.PLATFORM Gen.C08.Plat.PLATFORM_COMMAND d)) = .ok ps) :
    ∀ p ∈ ps, p.header = Gen.C08.hdrExpr Gen.C08.Port.PLATFORM Gen.C08.Plat.PLATFORM_COMMAND ∧
      p.data.length = xs.length ∧ p.data.length ≤ 30 := by
  simp only [bind, Except.bind] at h
  split at h
  · cases h
  · rename_i d hd
    obtain ⟨rfl, hl⟩ := send_ok h
    intro p hp
    simp only [List.mem_singleton] at hp
    subst hp
    exact ⟨rfl, tuple_wire hd, hl⟩

theorem bind_ok' {α β} {x : Except PyErr α} {f : α → Except PyErr β} {b : β} (h : (x >>= f) = .ok b) :
    ∃ a, x = .ok a ∧ f a = .ok b := by
  cases x with
  | error e => cases h
  | ok a => exact ⟨a, rfl, h⟩

theorem wire_conv {p : Packet} {hdr sz a n : Nat} (h : p.header = hdr ∧ p.data.length = sz ∧ p.data.length ≤ 30)
    (hh : hdr = a) (hs : sz = n) : p.header = a ∧ p.data.length = n ∧ p.data.length ≤ 30 := by
  subst hh; subst hs; exact h

theorem wire_all (ver : Int) (c : Call) : Wire1 ver c := by
  intro ps h p hp
  cases c with
  | setpoint xm roll pitch mr mp yaw thrust =>
    simp only [emit] at h
    split at h
    · cases h
    · exact wire_conv (build_wire (by decide) h p hp) (by simp only [docPortChan]; decide) (by simp only [wireSize]; decide)
  | notifyStop ms => exact wire_conv (build_wire (by decide) h p hp) (by simp only [docPortChan]; decide) (by simp only [wireSize]; decide)
  | stopSetpoint => exact wire_conv (build_wire (by decide) h p hp) (by simp only [docPortChan]; decide) (by simp only [wireSize]; decide)
  | velocityWorld vx vy vz yr =>
    simp only [emit] at h
    split at h <;> exact wire_conv (build_wire (by decide) h p hp) (by simp only [docPortChan]; decide) (by simp only [wireSize]; decide)
  | zdistance a b c d =>
    simp only [emit] at h
    split at h <;> exact wire_conv (build_wire (by decide) h p hp) (by simp only [docPortChan]; decide) (by simp only [wireSize]; decide)
  | hover a b c d =>
    simp only [emit] at h
    split at h <;> exact wire_conv (build_wire (by decide) h p hp) (by simp only [docPortChan]; decide) (by simp only [wireSize]; decide)
  | fullState pos vel acc quat rates =>
    simp only [emit] at h
    obtain ⟨_, _, h⟩ := bind_ok' h
    obtain ⟨_, _, h⟩ := bind_ok' h
    obtain ⟨_, _, h⟩ := bind_ok' h
    obtain ⟨_, _, h⟩ := bind_ok' h
    obtain ⟨_, _, h⟩ := bind_ok' h
    exact wire_conv (build_wire (by decide) h p hp) (by simp only [docPortChan]; decide) (by simp only [wireSize]; decide)
  | position a b c d => exact wire_conv (build_wire (by decide) h p hp) (by simp only [docPortChan]; decide) (by simp only [wireSize]; decide)
  | hlGroupMask gm => exact wire_conv (hlSend_wire (by decide) h p hp) (by simp only [docPortChan]; decide) (by simp only [wireSize]; decide)
  | hlTakeoff a b c d => exact wire_conv (hlSend_wire (by decide) h p hp) (by simp only [docPortChan]; decide) (by simp only [wireSize]; decide)
  | hlLand a b c d => exact wire_conv (hlSend_wire (by decide) h p hp) (by simp only [docPortChan]; decide) (by simp only [wireSize]; decide)
  | hlStop gm => exact wire_conv (hlSend_wire (by decide) h p hp) (by simp only [docPortChan]; decide) (by simp only [wireSize]; decide)
  | hlGoTo x y z yaw dur rel lin gm =>
    simp only [emit] at h
    split at h
    · rename_i hv
      exact wire_conv (hlSend_wire (by decide) h p hp) (by simp only [docPortChan]; decide) (by simp only [wireSize, hv]; decide)
    · rename_i hv
      exact wire_conv (hlSend_wire (by decide) h p hp) (by simp only [docPortChan]; decide) (by simp only [wireSize, hv]; decide)
  | hlSpiral a r0 rf asc dur sw cw gm =>
    simp only [emit] at h
    split at h
    · cases h; cases hp
    · exact wire_conv (hlSend_wire (by decide) h p hp) (by simp only [docPortChan]; decide) (by simp only [wireSize]; decide)
  | hlStartTraj a b c d e => exact wire_conv (hlSend_wire (by decide) h p hp) (by simp only [docPortChan]; decide) (by simp only [wireSize]; decide)
  | hlDefineTraj a b c d => exact wire_conv (hlSend_wire (by decide) h p hp) (by simp only [docPortChan]; decide) (by simp only [wireSize]; decide)
  | extpos x y z => exact wire_conv (build_wire (by decide) h p hp) (by simp only [docPortChan]; decide) (by simp only [wireSize]; decide)
  | extposWrap x y z => exact wire_conv (build_wire (by decide) h p hp) (by simp only [docPortChan]; decide) (by simp only [wireSize]; decide)
  | extpose x y z a b c d => exact wire_conv (build_wire (by decide) h p hp) (by simp only [docPortChan]; decide) (by simp only [wireSize]; decide)
  | extposeWrap x y z a b c d => exact wire_conv (build_wire (by decide) h p hp) (by simp only [docPortChan]; decide) (by simp only [wireSize]; decide)
  | shortLpp dest data =>
    exact wire_conv (shortLpp_wire h p hp) (by simp only [docPortChan]; decide)
      (by simp only [wireSize]; congr 1)
  | emergencyStop => exact wire_conv (build_wire (by decide) h p hp) (by simp only [docPortChan]; decide) (by simp only [wireSize]; decide)
  | emergencyWatchdog => exact wire_conv (build_wire (by decide) h p hp) (by simp only [docPortChan]; decide) (by simp only [wireSize]; decide)
  | lhPersist geo calib =>
    simp only [emit] at h
    split at h
    · cases h
    · split at h
      · cases h
      · exact wire_conv (build_wire (by decide) h p hp) (by simp only [docPortChan]; decide) (by simp only [wireSize]; decide)
  | contWave e => exact wire_conv (plat_wire h p hp) (by simp only [docPortChan]; decide) (by rfl)
  | arming e => exact wire_conv (plat_wire h p hp) (by simp only [docPortChan]; decide) (by rfl)
  | crashRecovery => exact wire_conv (plat_wire h p hp) (by simp only [docPortChan]; decide) (by simp only [wireSize]; decide)
  | lopoPosition id x y z =>
    simp only [emit] at h
    obtain ⟨d, hd, h⟩ := bind_ok' h
    have := shortLpp_wire h p hp
    have hl := packNums_length (f := parseFmt! Gen.C08.lopoPosition_fmt0) (by decide) hd
    rw [hl] at this
    exact wire_conv this (by simp only [docPortChan]; decide) (by simp only [wireSize]; decide)
  | lopoReboot id m =>
    simp only [emit] at h
    obtain ⟨d, hd, h⟩ := bind_ok' h
    have := shortLpp_wire h p hp
    have hl := packNums_length (f := parseFmt! Gen.C08.lopoReboot_fmt0) (by decide) hd
    rw [hl] at this
    exact wire_conv this (by simp only [docPortChan]; decide) (by simp only [wireSize]; decide)
  | lopoMode id m =>
    simp only [emit] at h
    obtain ⟨d, hd, h⟩ := bind_ok' h
    have := shortLpp_wire h p hp
    have hl := packNums_length (f := parseFmt! Gen.C08.lopoMode_fmt0) (by decide) hd
    rw [hl] at this
    exact wire_conv this (by simp only [docPortChan]; decide) (by simp only [wireSize]; decide)

end CfVerif.C08

/-
Proofs/C09Avg: the matrix `Q.T @ Q` that `_avarage_poses` hands to the eigen-solver does not depend on the sign
with which each quaternion is written.
-/
import CfVerif.Model.C09
import Mathlib.Algebra.Ring.Basic
namespace CfVerif.C09

section
variable {α : Type} [Ring α]

theorem outer_neg (q : List α) : outer (q.map fun a => -a) = outer q := by
  simp only [outer, List.map_map]
  congr 1
  funext a
  simp only [Function.comp, List.map_map]
  congr 1
  funext b
  simp only [Function.comp, neg_mul_neg]

theorem outer_flipSign (f : Bool) (q : List α) : outer (flipSign f q) = outer q := by
  cases f
  · rfl
  · exact outer_neg q

theorem gram_flipSign (n : Nat) (qs : List (Bool × List α)) :
    gram n (qs.map fun p => flipSign p.1 p.2) = gram n (qs.map fun p => p.2) := by
  induction qs with
  | nil => rfl
  | cons p rest ih => simp only [List.map_cons, gram, outer_flipSign, ih]

end
end CfVerif.C09

/-
Proofs/C09Exact: on consistent (error-free) per-sample poses the linking / averaging logic of the initial
estimator reproduces the true poses exactly, for any pose arithmetic satisfying three algebraic laws.
-/
import CfVerif.Proofs.C09Link
namespace CfVerif.C09
set_option linter.unusedSectionVars false
set_option linter.unusedSimpArgs false

section Exact
variable {P : Type}

/-- the algebraic facts about the pose arithmetic the exactness argument needs (`rel x u` = pose `u` expressed in
the frame of pose `x`); for rigid transforms: `mapRef g c u = g·c⁻¹·u`, `cfFrom g c = g·c⁻¹`, `rel x u = x⁻¹·u` -/
structure PoseLaws (ops : PoseOps P) (rel : P → P → P) : Prop where
  mapRef_rel : ∀ g x u, ops.mapRef g (rel x g) (rel x u) = u
  cfFrom_rel : ∀ g x, ops.cfFrom g (rel x g) = x
  avg_const : ∀ p l, l ≠ [] → (∀ q ∈ l, q = p) → ops.avg l = p

/-- every stored pose is the true pose of its station -/
def GoodDict (B : Nat → P) (d : Dict P) : Prop := ∀ k p, d.get? k = some p → p = B k

/-- a sample holds the true poses of its stations expressed in the frame of the Crazyflie pose `x` -/
def GoodSample (rel : P → P → P) (B : Nat → P) (x : P) (s : Dict P) : Prop := ∀ k p, s.get? k = some p → p = rel x (B k)

def GoodBuckets (B : Nat → P) (bk : Dict (List P)) : Prop := ∀ k ps, bk.get? k = some ps → ps ≠ [] ∧ ∀ q ∈ ps, q = B k

theorem goodBuckets_push (B : Nat → P) (bk : Dict (List P)) (b : Nat) (h : GoodBuckets B bk) :
    GoodBuckets B (bucketPush bk b (B b)) := by
  intro k ps hk
  unfold bucketPush at hk
  cases hg : bk.get? b with
  | none =>
    rw [hg] at hk
    simp only [Dict.get?_set] at hk
    by_cases e : b = k
    · subst e; simp only [if_true, Option.some.injEq] at hk; subst hk; simp
    · simp only [e, if_false] at hk; exact h k ps hk
  | some old =>
    rw [hg] at hk
    simp only [Dict.get?_set] at hk
    by_cases e : b = k
    · subst e
      simp only [if_true, Option.some.injEq] at hk; subst hk
      obtain ⟨_, h2⟩ := h b old hg
      refine ⟨by simp, ?_⟩
      intro q hq
      rcases List.mem_append.mp hq with h' | h'
      · exact h2 q h'
      · simpa using h'
    · simp only [e, if_false] at hk; exact h k ps hk

/-- entries of a dict with unique keys are what `get?` returns -/
theorem get?_of_mem {α : Type} (d : Dict α) (hn : d.keys.Nodup) (k : Nat) (v : α) (h : (k, v) ∈ d) : d.get? k = some v := by
  induction d with
  | nil => simp at h
  | cons kv r ih =>
    obtain ⟨k0, v0⟩ := kv
    simp only [Dict.keys, List.map_cons, List.nodup_cons] at hn
    rcases List.mem_cons.mp h with e | h'
    · simp only [Prod.mk.injEq] at e; obtain ⟨rfl, rfl⟩ := e; simp [Dict.get?]
    · have hne : k0 ≠ k := by
        rintro rfl; exact hn.1 (List.mem_map_of_mem (f := Prod.fst) h')
      simp only [Dict.get?, hne, if_false]
      exact ih hn.2 h'

theorem nodup_keys_bucketPush (bk : Dict (List P)) (b : Nat) (p : P) (h : bk.keys.Nodup) : (bucketPush bk b p).keys.Nodup := by
  unfold bucketPush; split <;> exact Dict.nodup_keys_set _ _ _ h

theorem pushUnknown_nodup (ops : PoseOps P) (kg kc : P) (sample : Dict P) (unknown : List Nat) (bk bk' : Dict (List P)) (hn : bk.keys.Nodup)
    (h : pushUnknown ops kg kc sample unknown bk = .ok bk') : bk'.keys.Nodup := by
  induction unknown generalizing bk with
  | nil => simp only [pushUnknown, Except.ok.injEq] at h; subst h; exact hn
  | cons b r ih =>
    simp only [pushUnknown] at h
    cases hg : sample.get? b with
    | none => rw [hg] at h; cases h
    | some uc => rw [hg] at h; exact ih _ (nodup_keys_bucketPush _ _ _ hn) h

theorem roundSample_nodup (ops : PoseOps P) (pick : List Nat → Nat) (bsPoses : Dict P) (toFind : List Nat) (sample : Dict P)
    (bk bk' : Dict (List P)) (hn : bk.keys.Nodup) (h : roundSample ops pick bsPoses toFind sample bk = .ok bk') :
    bk'.keys.Nodup := by
  unfold roundSample at h
  simp only [] at h
  split at h
  · split at h
    · exact pushUnknown_nodup ops _ _ sample _ bk bk' hn h
    · cases h
  · simp only [Except.ok.injEq] at h; subst h; exact hn

theorem roundSamples_nodup (ops : PoseOps P) (pick : Nat → List Nat → Nat) (bsPoses : Dict P) (toFind : List Nat) (i : Nat)
    (samples : List (Dict P)) (bk bk' : Dict (List P)) (hn : bk.keys.Nodup)
    (h : roundSamples ops pick bsPoses toFind i samples bk = .ok bk') : bk'.keys.Nodup := by
  induction samples generalizing i bk with
  | nil => simp only [roundSamples, Except.ok.injEq] at h; subst h; exact hn
  | cons s rest ih =>
    simp only [roundSamples] at h
    cases h1 : roundSample ops (pick i) bsPoses toFind s bk with
    | error e => rw [h1] at h; cases h
    | ok bk1 => rw [h1] at h; exact ih (i + 1) bk1 (roundSample_nodup ops _ _ _ _ _ _ hn h1) h


variable (ops : PoseOps P) (rel : P → P → P) (laws : PoseLaws ops rel) (B : Nat → P)
include laws

theorem pushUnknown_good (x : P) (kb : Nat) (sample : Dict P) (hs : GoodSample rel B x sample)
    (unknown : List Nat) (bk bk' : Dict (List P)) (hb : GoodBuckets B bk)
    (h : pushUnknown ops (B kb) (rel x (B kb)) sample unknown bk = .ok bk') : GoodBuckets B bk' := by
  induction unknown generalizing bk with
  | nil => simp only [pushUnknown, Except.ok.injEq] at h; subst h; exact hb
  | cons b r ih =>
    simp only [pushUnknown] at h
    cases hg : sample.get? b with
    | none => rw [hg] at h; cases h
    | some uc =>
      rw [hg] at h
      simp only [] at h
      have : uc = rel x (B b) := hs b uc hg
      subst this
      rw [laws.mapRef_rel] at h
      exact ih _ (goodBuckets_push B bk b hb) h

theorem roundSample_good (pick : List Nat → Nat) (bsPoses : Dict P) (hd : GoodDict B bsPoses) (toFind : List Nat) (x : P)
    (sample : Dict P) (hs : GoodSample rel B x sample) (bk bk' : Dict (List P)) (hb : GoodBuckets B bk)
    (h : roundSample ops pick bsPoses toFind sample bk = .ok bk') : GoodBuckets B bk' := by
  unfold roundSample at h
  simp only [] at h
  split at h
  · split at h
    · rename_i kg kc h1 h2
      have e1 := hd _ kg h1
      have e2 := hs _ kc h2
      subst e1 e2
      exact pushUnknown_good ops rel laws B x _ sample hs _ bk bk' hb h
    · cases h
  · simp only [Except.ok.injEq] at h; subst h; exact hb

theorem roundSamples_good (pick : Nat → List Nat → Nat) (bsPoses : Dict P) (hd : GoodDict B bsPoses) (toFind : List Nat)
    (X : Nat → P) (samples : List (Dict P)) (i : Nat)
    (hs : ∀ j s, samples[j]? = some s → GoodSample rel B (X (i + j)) s)
    (bk bk' : Dict (List P)) (hb : GoodBuckets B bk)
    (h : roundSamples ops pick bsPoses toFind i samples bk = .ok bk') : GoodBuckets B bk' := by
  induction samples generalizing i bk with
  | nil => simp only [roundSamples, Except.ok.injEq] at h; subst h; exact hb
  | cons s rest ih =>
    simp only [roundSamples] at h
    cases h1 : roundSample ops (pick i) bsPoses toFind s bk with
    | error e => rw [h1] at h; cases h
    | ok bk1 =>
      rw [h1] at h
      simp only [] at h
      have g1 := roundSample_good ops rel laws B (pick i) bsPoses hd toFind (X i) s (by simpa using hs 0 s rfl) bk bk1 hb h1
      apply ih (i + 1) _ bk1 g1 h
      intro j s' hj
      have := hs (j + 1) s' (by simpa using hj)
      rwa [show i + (j + 1) = i + 1 + j by omega] at this

theorem applyBuckets_good (buckets : Dict (List P)) (bsPoses : Dict P) (hd : GoodDict B bsPoses)
    (hb : ∀ kv ∈ buckets, kv.2 ≠ [] ∧ ∀ q ∈ kv.2, q = B kv.1) : GoodDict B (applyBuckets ops bsPoses buckets) := by
  induction buckets generalizing bsPoses with
  | nil => exact hd
  | cons kv r ih =>
    obtain ⟨b, ps⟩ := kv
    simp only [applyBuckets]
    apply ih _ _ (fun kv hkv => hb kv (List.mem_cons_of_mem _ hkv))
    intro k p hk
    rw [Dict.get?_set] at hk
    by_cases e : b = k
    · subst e
      simp only [if_true, Option.some.injEq] at hk
      obtain ⟨h1, h2⟩ := hb (b, ps) List.mem_cons_self
      rw [← hk]; exact laws.avg_const _ _ h1 h2
    · simp only [e, if_false] at hk; exact hd k p hk

theorem linkLoop_good (pick : Nat → Nat → List Nat → Nat) (X : Nat → P) (refCfs : List (Dict P))
    (hs : ∀ j s, refCfs[j]? = some s → GoodSample rel B (X j) s) (all : List Nat) :
    ∀ (fuel round : Nat) (bsPoses : Dict P) (toFind : List Nat) (remaining : Nat) (poses : Dict P),
      GoodDict B bsPoses → linkLoop ops pick refCfs all fuel round bsPoses toFind remaining = .ok poses → GoodDict B poses := by
  intro fuel
  induction fuel with
  | zero => intro round bsPoses toFind remaining poses _ h; simp [linkLoop] at h
  | succ fuel ih =>
    intro round bsPoses toFind remaining poses hd h
    simp only [linkLoop] at h
    split at h
    · cases hr : roundSamples ops (pick round) bsPoses toFind 0 refCfs [] with
      | error e => rw [hr] at h; cases h
      | ok buckets =>
        rw [hr] at h
        simp only [] at h
        have hgb : GoodBuckets B buckets :=
          roundSamples_good ops rel laws B (pick round) bsPoses hd toFind X refCfs 0
            (by intro j s hj; simpa using hs j s hj) [] buckets (by intro k ps hk; simp [Dict.get?] at hk) hr
        have hnd : buckets.keys.Nodup := roundSamples_nodup ops (pick round) bsPoses toFind 0 refCfs [] buckets (by simp [Dict.keys]) hr
        have hgd : GoodDict B (applyBuckets ops bsPoses buckets) :=
          applyBuckets_good ops rel laws B buckets bsPoses hd
            (fun kv hkv => hgb kv.1 kv.2 (get?_of_mem buckets hnd kv.1 kv.2 hkv))
        split at h
        · simp only [Except.ok.injEq] at h; subst h; exact hgd
        · split at h
          · cases h
          · exact ih _ _ _ _ _ hgd h
    · simp only [Except.ok.injEq] at h; subst h; exact hd

theorem cfCandidates_good (x : P) (bsPoses : Dict P) (hd : GoodDict B bsPoses) (sample : Dict P)
    (hn : sample.keys.Nodup) (hs : GoodSample rel B x sample) (l : List P)
    (h : cfCandidates ops bsPoses sample = .ok l) : ∀ q ∈ l, q = x := by
  induction sample generalizing l with
  | nil => simp only [cfCandidates, Except.ok.injEq] at h; subst h; simp
  | cons kv r ih =>
    obtain ⟨b, pc⟩ := kv
    simp only [cfCandidates] at h
    cases hg : bsPoses.get? b with
    | none => rw [hg] at h; cases h
    | some g =>
      rw [hg] at h
      simp only [] at h
      cases ht : cfCandidates ops bsPoses r with
      | error e => rw [ht] at h; cases h
      | ok t =>
        rw [ht] at h
        simp only [Except.ok.injEq] at h
        subst h
        have e1 := hd b g hg
        have e2 := hs b pc (by simp [Dict.get?])
        subst e1 e2
        simp only [Dict.keys, List.map_cons, List.nodup_cons] at hn
        intro q hq
        rcases List.mem_cons.mp hq with rfl | hq'
        · exact laws.cfFrom_rel _ _
        · refine ih hn.2 ?_ t ht q hq'
          intro k p hk
          apply hs k p
          have hne : b ≠ k := by
            rintro rfl
            exact hn.1 ((Dict.get?_isSome_iff r b).mp (by rw [hk]; rfl))
          simp [Dict.get?, hne, hk]

theorem estimateCfPoses_good (X : Nat → P) (bsPoses : Dict P) (hd : GoodDict B bsPoses) (refCfs : List (Dict P)) (i : Nat)
    (hn : ∀ s ∈ refCfs, s.keys.Nodup)
    (hs : ∀ j s, refCfs[j]? = some s → GoodSample rel B (X (i + j)) s) (l : List P)
    (h : estimateCfPoses ops bsPoses refCfs = .ok l) : ∀ j c, l[j]? = some c → c = X (i + j) := by
  induction refCfs generalizing i l with
  | nil => simp only [estimateCfPoses, Except.ok.injEq] at h; subst h; simp
  | cons s rest ih =>
    simp only [estimateCfPoses] at h
    cases hc : cfCandidates ops bsPoses s with
    | error e => rw [hc] at h; cases h
    | ok cands =>
      rw [hc] at h
      cases cands with
      | nil => cases h
      | cons p ps =>
        simp only [] at h
        cases ht : estimateCfPoses ops bsPoses rest with
        | error e => rw [ht] at h; cases h
        | ok t =>
          rw [ht] at h
          simp only [Except.ok.injEq] at h
          subst h
          have hall := cfCandidates_good ops rel laws B (X i) bsPoses hd s (hn s List.mem_cons_self)
            (by simpa using hs 0 s rfl) (p :: ps) hc
          intro j c hj
          cases j with
          | zero =>
            simp only [List.getElem?_cons_zero, Option.some.injEq] at hj
            rw [← hj]; exact laws.avg_const _ _ (by simp) hall
          | succ j =>
            simp only [List.getElem?_cons_succ] at hj
            have := ih (i + 1) (fun s' hs' => hn s' (List.mem_cons_of_mem _ hs'))
              (by intro j' s' hj'; have := hs (j' + 1) s' (by simpa using hj'); rwa [show i + (j' + 1) = i + 1 + j' by omega] at this)
              t ht j c hj
            rwa [show i + 1 + j = i + (j + 1) by omega] at this

end Exact
end CfVerif.C09

/-
Proofs/C09Layout: helper lemmas for the geometry solver's parameter layout and Jacobian sparsity (T4).
-/
import CfVerif.Proofs.C09Match
namespace CfVerif.C09
set_option linter.unusedSectionVars false
set_option linter.unusedSimpArgs false

/-! ### reshape -/
section Reshape
variable {α : Type}

theorem length_reshapeRows (n w : Nat) (l : List α) : (reshapeRows n w l).length = n := by
  induction n generalizing l with
  | zero => rfl
  | succ n ih => simp [reshapeRows, ih]

theorem getElem?_reshapeRows (n w : Nat) (l : List α) (k : Nat) (hk : k < n) :
    (reshapeRows n w l)[k]? = some ((l.drop (k * w)).take w) := by
  induction n generalizing l k with
  | zero => omega
  | succ n ih =>
    cases k with
    | zero => simp [reshapeRows]
    | succ k =>
      simp only [reshapeRows, List.getElem?_cons_succ]
      rw [ih (l.drop w) k (by omega), List.drop_drop]
      congr 3
      rw [Nat.succ_mul]; omega

theorem getElem?_reshapeRows_none (n w : Nat) (l : List α) (k : Nat) (hk : n ≤ k) :
    (reshapeRows n w l)[k]? = none := by
  apply List.getElem?_eq_none
  rw [length_reshapeRows]; exact hk

theorem reshape_ok (n w : Nat) (l : List α) (b : List (List α)) (h : reshape n w l = .ok b) :
    l.length = n * w ∧ b = reshapeRows n w l := by
  unfold reshape at h
  split at h
  · rename_i hl; simp only [Except.ok.injEq] at h; exact ⟨hl, h.symm⟩
  · cases h

/-- a window of a list is determined by its entries -/
theorem window_ext (l l' : List α) (a w : Nat) (h : ∀ i, i < w → l[a + i]? = l'[a + i]?) :
    (l.drop a).take w = (l'.drop a).take w := by
  apply List.ext_getElem?
  intro i
  simp only [List.getElem?_take, List.getElem?_drop]
  split
  · rename_i hi; exact h i hi
  · rfl

end Reshape

/-! ### index pairs and sparsity rows are aligned -/

theorem flatMap_const_pair {γ δ : Type} (x : δ) (f : Nat → γ) (n : Nat) :
    ((List.range n).map f).flatMap (fun _ => [x, x]) = List.replicate (n * 2) x := by
  induction n with
  | zero => rfl
  | succ n ih =>
    rw [List.range_succ, List.map_append, List.flatMap_append, ih]
    simp only [List.map_cons, List.map_nil, List.flatMap_cons, List.flatMap_nil, List.append_nil]
    rw [show (n + 1) * 2 = n * 2 + 2 by omega, ← List.replicate_append_replicate]
    rfl

/-- the sparsity row shared by the two residual rows of an angle pair -/
def pairRows (defs : Defs) (t : Nat × Nat × Nat) : List (List Nat) := [markRow defs t.1 t.2.1, markRow defs t.1 t.2.1]

theorem sampleRows_eq (defs : Defs) (cfI : Nat) (ids : List Nat) (pairs : List (Nat × Nat × Nat))
    (hp : samplePairs defs cfI ids = .ok pairs) :
    sampleRows defs cfI ids = .ok (pairs.flatMap (pairRows defs)) := by
  induction ids generalizing pairs with
  | nil => simp only [samplePairs] at hp; cases hp; rfl
  | cons b r ih =>
    simp only [samplePairs] at hp
    cases hg : defs.idToIndex.get? b with
    | none => rw [hg] at hp; cases hp
    | some k =>
      rw [hg] at hp
      cases ht : samplePairs defs cfI r with
      | error e => rw [ht] at hp; cases hp
      | ok t =>
        rw [ht] at hp
        simp only [Except.ok.injEq] at hp
        subst hp
        simp only [sampleRows, hg, ih t ht, List.flatMap_append]
        congr 2
        have := flatMap_const_pair (markRow defs k cfI) (fun s => (k, cfI, s)) defs.nSensors
        simp only [Gen.C09.rowsPerPair]
        rw [← this]
        simp only [List.flatMap_map, pairRows]

theorem allRowsFrom_eq (defs : Defs) (cfI : Nat) (samples : List (List Nat)) (pairs : List (Nat × Nat × Nat))
    (hp : allPairsFrom defs cfI samples = .ok pairs) :
    allRowsFrom defs cfI samples = .ok (pairs.flatMap (pairRows defs)) := by
  induction samples generalizing cfI pairs with
  | nil => simp only [allPairsFrom] at hp; cases hp; rfl
  | cons s rest ih =>
    simp only [allPairsFrom] at hp
    cases h1 : samplePairs defs cfI (sortIds s) with
    | error e => rw [h1] at hp; cases hp
    | ok p =>
      rw [h1] at hp
      cases h2 : allPairsFrom defs (cfI + 1) rest with
      | error e => rw [h2] at hp; cases hp
      | ok t =>
        rw [h2] at hp
        simp only [Except.ok.injEq] at hp
        subst hp
        simp only [allRowsFrom, sampleRows_eq defs cfI _ p h1, ih (cfI + 1) t h2, List.flatMap_append]

theorem getElem?_flatMap_pairRows (defs : Defs) (pairs : List (Nat × Nat × Nat)) (j a : Nat) (ha : a < 2) :
    (pairs.flatMap (pairRows defs))[2 * j + a]? = (pairs[j]?).map (fun t => markRow defs t.1 t.2.1) := by
  induction pairs generalizing j with
  | nil => simp
  | cons t rest ih =>
    simp only [List.flatMap_cons, pairRows]
    cases j with
    | zero =>
      have : a = 0 ∨ a = 1 := by omega
      rcases this with rfl | rfl <;> rfl
    | succ j =>
      have : 2 * (j + 1) + a = (2 * j + a) + 2 := by omega
      rw [this]
      simp only [List.cons_append, List.nil_append, List.getElem?_cons_succ]
      have := ih j
      rw [this]

theorem length_flatMap_pairRows (defs : Defs) (pairs : List (Nat × Nat × Nat)) :
    (pairs.flatMap (pairRows defs)).length = 2 * pairs.length := by
  induction pairs with
  | nil => rfl
  | cons t rest ih => simp only [List.flatMap_cons, pairRows, List.length_append, ih, List.length_cons, List.length_nil]; omega

/-! ### the columns of a sparsity row -/

theorem mem_pyRange (a b c : Nat) : c ∈ pyRange a b ↔ a ≤ c ∧ c < b := by
  simp only [pyRange, List.mem_range'_1]; omega

theorem mem_markRow (defs : Defs) (k cI c : Nat) :
    c ∈ markRow defs k cI ↔
      (Gen.C09.nParamsPerBs * k ≤ c ∧ c < Gen.C09.nParamsPerBs * k + Gen.C09.nParamsPerBs) ∨
      (0 < cI ∧ Gen.C09.nParamsPerBs * defs.nBss + Gen.C09.nParamsPerCf * (cI - 1) ≤ c ∧
        c < Gen.C09.nParamsPerBs * defs.nBss + Gen.C09.nParamsPerCf * (cI - 1) + Gen.C09.nParamsPerCf) := by
  unfold markRow
  simp only [Gen.C09.cfGuard, Gen.C09.bsFirst, Gen.C09.bsRangeEnd, Gen.C09.cfFirst, Gen.C09.cfRangeEnd, Gen.C09.nTotBsParams,
    decide_eq_true_eq]
  have e1 : k * Gen.C09.nParamsPerBs = Gen.C09.nParamsPerBs * k := Nat.mul_comm _ _
  have e2 : defs.nBss * Gen.C09.nParamsPerBs = Gen.C09.nParamsPerBs * defs.nBss := Nat.mul_comm _ _
  have e3 : (cI - 1) * Gen.C09.nParamsPerCf = Gen.C09.nParamsPerCf * (cI - 1) := Nat.mul_comm _ _
  by_cases h : cI > 0
  · rw [if_pos h]
    simp only [List.mem_append, mem_pyRange]
    rw [e1, e2, e3]
    constructor
    · rintro (h1 | h2)
      · exact Or.inl h1
      · exact Or.inr ⟨h, h2⟩
    · rintro (h1 | ⟨_, h2⟩)
      · exact Or.inl h1
      · exact Or.inr h2
  · rw [if_neg h]
    simp only [mem_pyRange]
    rw [e1]
    constructor
    · exact Or.inl
    · rintro (h1 | ⟨h0, _⟩)
      · exact h1
      · exact absurd h0 h

/-! ### what a residual row reads -/
section Residual
variable {α β : Type}

/-- the slice of the parameter vector holding base station `k` -/
def bsSlice (params : List α) (k : Nat) : List α :=
  (params.drop (Gen.C09.nParamsPerBs * k)).take Gen.C09.nParamsPerBs

/-- the pose parameters of CF sample `c`: zeros for sample 0, else the slice at `6 n_bs + 6 (c-1)` -/
def cfSlice (zero : α) (nBss : Nat) (params : List α) (c : Nat) : List α :=
  if c = 0 then List.replicate Gen.C09.nParamsPerCf zero
  else (params.drop (Gen.C09.nParamsPerBs * nBss + Gen.C09.nParamsPerCf * (c - 1))).take Gen.C09.nParamsPerCf

theorem residualRows_spec (rowFn : Nat → List α → List α → Nat → Nat → β) (bss cfsFull : List (List α))
    (pairs : List (Nat × Nat × Nat)) (p0 : Nat) (res : List β)
    (h : residualRows rowFn bss cfsFull p0 pairs = .ok res) :
    res.length = 2 * pairs.length ∧
    ∀ j k c s, pairs[j]? = some (k, c, s) → ∃ b cf, bss[k]? = some b ∧ cfsFull[c]? = some cf ∧
      res[2 * j]? = some (rowFn (2 * (p0 + j)) b cf s 0) ∧ res[2 * j + 1]? = some (rowFn (2 * (p0 + j) + 1) b cf s 1) := by
  induction pairs generalizing p0 res with
  | nil => simp only [residualRows] at h; cases h; exact ⟨rfl, by simp⟩
  | cons t rest ih =>
    obtain ⟨k0, c0, s0⟩ := t
    simp only [residualRows] at h
    cases hb : bss[k0]? with
    | none => rw [hb] at h; cases h
    | some b =>
      cases hc : cfsFull[c0]? with
      | none => rw [hb, hc] at h; cases h
      | some cf =>
        rw [hb, hc] at h
        simp only [] at h
        cases ht : residualRows rowFn bss cfsFull (p0 + 1) rest with
        | error e => rw [ht] at h; cases h
        | ok t =>
          rw [ht] at h
          simp only [Except.ok.injEq] at h
          subst h
          obtain ⟨hlen, hrows⟩ := ih (p0 + 1) t ht
          refine ⟨by simp only [List.length_cons, hlen]; omega, ?_⟩
          intro j k c s hj
          cases j with
          | zero =>
            simp only [List.getElem?_cons_zero, Option.some.injEq, Prod.mk.injEq] at hj
            obtain ⟨rfl, rfl, rfl⟩ := hj
            exact ⟨b, cf, hb, hc, rfl, rfl⟩
          | succ j =>
            simp only [List.getElem?_cons_succ] at hj
            obtain ⟨b', cf', hb', hc', h0, h1⟩ := hrows j k c s hj
            refine ⟨b', cf', hb', hc', ?_, ?_⟩
            · have : 2 * (j + 1) = (2 * j) + 2 := by omega
              rw [this]; simp only [List.getElem?_cons_succ]
              rw [h0]; congr 3; omega
            · have : 2 * (j + 1) + 1 = (2 * j + 1) + 2 := by omega
              rw [this]; simp only [List.getElem?_cons_succ]
              rw [h1]; congr 3; omega

/-- the rows of `bss` / `cfs_full` are the slices of the parameter vector the layout says -/
theorem paramsToStruct_rows (defs : Defs) (params : List α) (bss cfs : List (List α))
    (h : paramsToStruct defs params = .ok (bss, cfs)) :
    params.length = Gen.C09.lenParamVec defs.nBss defs.nCfsInParams ∧
    bss.length = defs.nBss ∧ cfs.length = defs.nCfsInParams ∧
    (∀ k, k < defs.nBss → bss[k]? = some (bsSlice params k)) ∧
    (∀ c zero, c ≤ defs.nCfsInParams →
      (List.replicate Gen.C09.nParamsPerCf zero :: cfs)[c]? = some (cfSlice zero defs.nBss params c)) := by
  simp only [paramsToStruct] at h
  cases h1 : reshape defs.nBss Gen.C09.nParamsPerBs (List.take (Gen.C09.bsParamCount defs.nBss) params) with
  | error e => rw [h1] at h; cases h
  | ok b1 =>
    cases h2 : reshape defs.nCfsInParams Gen.C09.nParamsPerCf (List.drop (Gen.C09.bsParamCount defs.nBss) params) with
    | error e => rw [h1, h2] at h; cases h
    | ok b2 =>
      rw [h1, h2] at h
      simp only [Except.ok.injEq, Prod.mk.injEq] at h
      obtain ⟨rfl, rfl⟩ := h
      obtain ⟨l1, e1⟩ := reshape_ok _ _ _ _ h1
      obtain ⟨l2, e2⟩ := reshape_ok _ _ _ _ h2
      subst e1 e2
      simp only [List.length_take, List.length_drop, Gen.C09.bsParamCount] at l1 l2
      have hlen : params.length = Gen.C09.lenParamVec defs.nBss defs.nCfsInParams := by
        simp only [Gen.C09.lenParamVec]; omega
      refine ⟨hlen, length_reshapeRows _ _ _, length_reshapeRows _ _ _, ?_, ?_⟩
      · intro k hk
        rw [getElem?_reshapeRows _ _ _ k hk]
        congr 1
        unfold bsSlice
        apply List.ext_getElem?
        intro i
        simp only [List.getElem?_take, List.getElem?_drop, Gen.C09.bsParamCount]
        split
        · rename_i hi
          have : k * Gen.C09.nParamsPerBs + i < defs.nBss * Gen.C09.nParamsPerBs := by
            have : (k + 1) * Gen.C09.nParamsPerBs ≤ defs.nBss * Gen.C09.nParamsPerBs := Nat.mul_le_mul_right _ hk
            rw [Nat.succ_mul] at this; omega
          simp only [this, if_true]
          congr 1; rw [Nat.mul_comm]
        · rfl
      · intro c zero hc
        cases c with
        | zero => simp [cfSlice]
        | succ c =>
          simp only [List.getElem?_cons_succ]
          rw [getElem?_reshapeRows _ _ _ c (by omega)]
          simp only [cfSlice, Nat.succ_ne_zero, if_false, Nat.add_sub_cancel, List.drop_drop, Gen.C09.bsParamCount]
          congr 3
          rw [Nat.mul_comm defs.nBss, Nat.mul_comm c]

end Residual


/-! ### ranges of the index arrays -/

theorem samplePairs_mem (defs : Defs) (cfI : Nat) (ids : List Nat) (pairs : List (Nat × Nat × Nat))
    (hp : samplePairs defs cfI ids = .ok pairs) :
    ∀ t ∈ pairs, t.2.1 = cfI ∧ t.2.2 < defs.nSensors ∧ ∃ b ∈ ids, defs.idToIndex.get? b = some t.1 := by
  induction ids generalizing pairs with
  | nil => simp only [samplePairs] at hp; cases hp; simp
  | cons b r ih =>
    simp only [samplePairs] at hp
    cases hg : defs.idToIndex.get? b with
    | none => rw [hg] at hp; cases hp
    | some k =>
      rw [hg] at hp
      cases ht : samplePairs defs cfI r with
      | error e => rw [ht] at hp; cases hp
      | ok t =>
        rw [ht] at hp
        simp only [Except.ok.injEq] at hp
        subst hp
        intro x hx
        rcases List.mem_append.mp hx with h1 | h2
        · obtain ⟨s, hs, rfl⟩ := List.mem_map.mp h1
          exact ⟨rfl, List.mem_range.mp hs, b, List.mem_cons_self, hg⟩
        · obtain ⟨a1, a2, b', hb', a3⟩ := ih t ht x h2
          exact ⟨a1, a2, b', List.mem_cons_of_mem _ hb', a3⟩

theorem allPairsFrom_mem (defs : Defs) (c0 : Nat) (samples : List (List Nat)) (pairs : List (Nat × Nat × Nat))
    (hp : allPairsFrom defs c0 samples = .ok pairs) :
    ∀ t ∈ pairs, c0 ≤ t.2.1 ∧ t.2.1 < c0 + samples.length ∧ t.2.2 < defs.nSensors ∧
      ∃ b, defs.idToIndex.get? b = some t.1 := by
  induction samples generalizing c0 pairs with
  | nil => simp only [allPairsFrom] at hp; cases hp; simp
  | cons s rest ih =>
    simp only [allPairsFrom] at hp
    cases h1 : samplePairs defs c0 (sortIds s) with
    | error e => rw [h1] at hp; cases hp
    | ok p =>
      rw [h1] at hp
      cases h2 : allPairsFrom defs (c0 + 1) rest with
      | error e => rw [h2] at hp; cases hp
      | ok t =>
        rw [h2] at hp
        simp only [Except.ok.injEq] at hp
        subst hp
        intro x hx
        rcases List.mem_append.mp hx with hx | hx
        · obtain ⟨a1, a2, b, _, a3⟩ := samplePairs_mem defs c0 _ p h1 x hx
          exact ⟨by omega, by simp only [List.length_cons]; omega, a2, b, a3⟩
        · obtain ⟨a1, a2, a3, a4⟩ := ih (c0 + 1) t h2 x hx
          exact ⟨by omega, by simp only [List.length_cons]; omega, a3, a4⟩

/-! ### the dependency of a residual row on the parameter vector -/
section Dependency
variable {α β : Type}

theorem calcResidual_reads (rowFn : Nat → List α → List α → Nat → Nat → β) (zero : α) (defs : Defs)
    (pairs : List (Nat × Nat × Nat)) (params : List α) (res : List β)
    (h : calcResidual rowFn zero defs pairs params = .ok res) :
    params.length = Gen.C09.lenParamVec defs.nBss defs.nCfsInParams ∧ res.length = 2 * pairs.length ∧
    ∀ j k c s, pairs[j]? = some (k, c, s) → k < defs.nBss ∧ c ≤ defs.nCfsInParams ∧
      res[2 * j]? = some (rowFn (2 * j) (bsSlice params k) (cfSlice zero defs.nBss params c) s 0) ∧
      res[2 * j + 1]? = some (rowFn (2 * j + 1) (bsSlice params k) (cfSlice zero defs.nBss params c) s 1) := by
  simp only [calcResidual] at h
  cases hs : paramsToStruct defs params with
  | error e => rw [hs] at h; cases h
  | ok bc =>
    obtain ⟨bss, cfs⟩ := bc
    rw [hs] at h
    simp only [] at h
    obtain ⟨hlen, hbl, hcl, hbs, hcf⟩ := paramsToStruct_rows defs params bss cfs hs
    obtain ⟨hrl, hrows⟩ := residualRows_spec rowFn bss _ pairs 0 res h
    refine ⟨hlen, hrl, ?_⟩
    intro j k c s hj
    obtain ⟨b, cf, hb, hc, h0, h1⟩ := hrows j k c s hj
    have hk : k < defs.nBss := by
      have := (List.getElem?_eq_some_iff.mp hb).1; omega
    have hcle : c ≤ defs.nCfsInParams := by
      have := (List.getElem?_eq_some_iff.mp hc).1
      simp only [List.length_cons] at this; omega
    rw [hbs k hk] at hb
    rw [hcf c zero hcle] at hc
    simp only [Option.some.injEq] at hb hc
    subst hb hc
    simp only [Nat.zero_add] at h0 h1
    exact ⟨hk, hcle, h0, h1⟩

theorem slices_agree (zero : α) (defs : Defs) (k c : Nat) (params params' : List α)
    (hagree : ∀ col ∈ markRow defs k c, params[col]? = params'[col]?) :
    bsSlice params k = bsSlice params' k ∧ cfSlice zero defs.nBss params c = cfSlice zero defs.nBss params' c := by
  constructor
  · apply window_ext
    intro i hi
    exact hagree _ ((mem_markRow defs k c _).mpr (Or.inl ⟨by omega, by omega⟩))
  · unfold cfSlice
    by_cases hc : c = 0
    · simp [hc]
    · simp only [hc, if_false]
      apply window_ext
      intro i hi
      exact hagree _ ((mem_markRow defs k c _).mpr (Or.inr ⟨by omega, by omega, by omega⟩))

end Dependency

/-! ### `_create_bs_map` -/

theorem enumFrom_getElem? {α : Type} (l : List α) (i0 j : Nat) :
    (enumFrom i0 l)[j]? = (l[j]?).map (fun a => (i0 + j, a)) := by
  induction l generalizing i0 j with
  | nil => simp [enumFrom]
  | cons a r ih =>
    cases j with
    | zero => simp [enumFrom]
    | succ j =>
      simp only [enumFrom, List.getElem?_cons_succ, ih]
      cases r[j]? <;> simp <;> omega

theorem get?_enumFrom {α : Type} (l : List α) (i0 k : Nat) :
    Dict.get? (enumFrom i0 l) k = if i0 ≤ k then l[k - i0]? else none := by
  induction l generalizing i0 with
  | nil => simp [enumFrom, Dict.get?]
  | cons a r ih =>
    simp only [enumFrom, Dict.get?, ih]
    by_cases h : i0 = k
    · subst h; simp
    · simp only [h, if_false]
      by_cases h2 : i0 ≤ k
      · have : i0 + 1 ≤ k := by omega
        simp only [this, h2, if_true]
        have : k - i0 = (k - (i0 + 1)) + 1 := by omega
        rw [this]; simp
      · have : ¬ i0 + 1 ≤ k := by omega
        simp [this, h2]

theorem get?_invEnum (l : List Nat) (i0 b k : Nat) (hn : l.Nodup) :
    Dict.get? ((enumFrom i0 l).map (fun p => (p.2, p.1))) b = some k ↔ (i0 ≤ k ∧ l[k - i0]? = some b) := by
  induction l generalizing i0 with
  | nil => simp [enumFrom, Dict.get?]
  | cons a r ih =>
    rw [List.nodup_cons] at hn
    simp only [enumFrom, List.map_cons, Dict.get?]
    by_cases h : a = b
    · subst h
      simp only [if_true, Option.some.injEq]
      constructor
      · rintro rfl; simp
      · rintro ⟨h1, h2⟩
        by_cases hk : k = i0
        · exact hk.symm
        · exfalso
          have : k - i0 = (k - (i0 + 1)) + 1 := by omega
          rw [this] at h2
          simp only [List.getElem?_cons_succ] at h2
          exact hn.1 (List.mem_of_getElem? h2)
    · simp only [h, if_false, ih (i0 + 1) hn.2]
      constructor
      · rintro ⟨h1, h2⟩
        refine ⟨by omega, ?_⟩
        have : k - i0 = (k - (i0 + 1)) + 1 := by omega
        rw [this]; simpa using h2
      · rintro ⟨h1, h2⟩
        by_cases hk : k = i0
        · subst hk; simp at h2; exact absurd h2 h
        · refine ⟨by omega, ?_⟩
          have : k - i0 = (k - (i0 + 1)) + 1 := by omega
          rw [this] at h2; simpa using h2

theorem sortIds_perm (ids : List Nat) : (sortIds ids).Perm ids := List.mergeSort_perm _ _

theorem sortIds_sorted (ids : List Nat) : (sortIds ids).Pairwise (· ≤ ·) := by
  have := List.pairwise_mergeSort (le := fun a b : Nat => decide (a ≤ b))
    (by intro a b c h1 h2; simp only [decide_eq_true_eq] at *; omega)
    (by intro a b; simp only [Bool.or_eq_true, decide_eq_true_eq]; omega) ids
  simpa [sortIds] using this



/-! ### `_condense_results`: reading the poses back from the parameter vector -/
section Condense
variable {α P : Type}

theorem paramsToStruct_ok (defs : Defs) (x : List α)
    (hx : x.length = Gen.C09.lenParamVec defs.nBss defs.nCfsInParams) :
    ∃ bss cfs, paramsToStruct defs x = .ok (bss, cfs) := by
  simp only [Gen.C09.lenParamVec] at hx
  simp only [paramsToStruct, reshape, Gen.C09.bsParamCount, List.length_take, List.length_drop]
  have h1 : min (defs.nBss * Gen.C09.nParamsPerBs) x.length = defs.nBss * Gen.C09.nParamsPerBs := by omega
  have h2 : x.length - defs.nBss * Gen.C09.nParamsPerBs = defs.nCfsInParams * Gen.C09.nParamsPerCf := by omega
  simp only [h1, h2, if_true]
  exact ⟨_, _, rfl⟩

theorem paramsToStruct_cfs (defs : Defs) (params : List α) (bss cfs : List (List α))
    (h : paramsToStruct defs params = .ok (bss, cfs)) (c : Nat) (hc : c < defs.nCfsInParams) :
    cfs[c]? = some ((params.drop (Gen.C09.nParamsPerBs * defs.nBss + Gen.C09.nParamsPerCf * c)).take Gen.C09.nParamsPerCf) := by
  simp only [paramsToStruct] at h
  cases h1 : reshape defs.nBss Gen.C09.nParamsPerBs (List.take (Gen.C09.bsParamCount defs.nBss) params) with
  | error e => rw [h1] at h; cases h
  | ok b1 =>
    cases h2 : reshape defs.nCfsInParams Gen.C09.nParamsPerCf (List.drop (Gen.C09.bsParamCount defs.nBss) params) with
    | error e => rw [h1, h2] at h; cases h
    | ok b2 =>
      rw [h1, h2] at h
      simp only [Except.ok.injEq, Prod.mk.injEq] at h
      obtain ⟨rfl, rfl⟩ := h
      obtain ⟨_, e2⟩ := reshape_ok _ _ _ _ h2
      subst e2
      rw [getElem?_reshapeRows _ _ _ c hc]
      simp only [List.drop_drop, Gen.C09.bsParamCount]
      congr 3
      rw [Nat.mul_comm defs.nBss, Nat.mul_comm c]

theorem condenseCfs_ok (toPose : List α → P) (cfs : List (List α)) (idxs : List Nat) (h : ∀ i ∈ idxs, i < cfs.length) :
    ∃ l, condenseCfs toPose cfs idxs = .ok l ∧ l.length = idxs.length ∧
      ∀ (j i : Nat), idxs[j]? = some i → ∃ row, cfs[i]? = some row ∧ l[j]? = some (toPose row) := by
  induction idxs with
  | nil => exact ⟨[], rfl, rfl, by simp⟩
  | cons i r ih =>
    obtain ⟨l, hl, hlen, hrows⟩ := ih (fun i' hi' => h i' (List.mem_cons_of_mem _ hi'))
    have hi : i < cfs.length := h i List.mem_cons_self
    have hrow : cfs[i]? = some cfs[i] := List.getElem?_eq_getElem hi
    refine ⟨toPose cfs[i] :: l, by simp only [condenseCfs, hrow, hl], by simp [hlen], ?_⟩
    intro j i' hj
    cases j with
    | zero => simp only [List.getElem?_cons_zero, Option.some.injEq] at hj; subst hj; exact ⟨_, hrow, rfl⟩
    | succ j => simp only [List.getElem?_cons_succ] at hj ⊢; exact hrows j i' hj

theorem condenseBs_spec (toPose : List α → P) (defs : Defs) (S : List Nat) (hS : S.Nodup)
    (hidx : ∀ k, defs.indexToId.get? k = S[k]?) (rows : List (List α)) (i0 : Nat) (d : Dict P)
    (hlen : i0 + rows.length ≤ S.length) :
    ∃ d', condenseBs toPose defs (enumFrom i0 rows) d = .ok d' ∧
      (∀ j row id, rows[j]? = some row → S[i0 + j]? = some id → d'.get? id = some (toPose row)) ∧
      (∀ id, (∀ j, j < rows.length → S[i0 + j]? ≠ some id) → d'.get? id = d.get? id) := by
  induction rows generalizing i0 d with
  | nil => exact ⟨d, rfl, by simp, fun _ _ => rfl⟩
  | cons row0 rest ih =>
    simp only [List.length_cons] at hlen
    have hi0 : i0 < S.length := by omega
    have hid0 : S[i0]? = some S[i0] := List.getElem?_eq_getElem hi0
    obtain ⟨d', hd', ha, hb⟩ := ih (i0 + 1) (d.set S[i0] (toPose row0)) (by omega)
    have hfresh : ∀ j, j < rest.length → S[i0 + 1 + j]? ≠ some S[i0] := by
      intro j hj e
      have := (List.getElem?_inj hi0 hS (j := i0 + 1 + j)).mp (by rw [hid0, e])
      omega
    refine ⟨d', by simp only [enumFrom, condenseBs, hidx, hid0]; exact hd', ?_, ?_⟩
    · intro j row id hj hid
      cases j with
      | zero =>
        simp only [List.getElem?_cons_zero, Option.some.injEq] at hj
        subst hj
        simp only [Nat.add_zero, hid0, Option.some.injEq] at hid
        subst hid
        rw [hb _ hfresh, Dict.get?_set]; simp
      | succ j =>
        simp only [List.getElem?_cons_succ] at hj
        exact ha j row id hj (by rw [show i0 + 1 + j = i0 + (j + 1) by omega]; exact hid)
    · intro id hnone
      have h0 : S[i0] ≠ id := by
        intro e; exact hnone 0 (by simp) (by simp only [Nat.add_zero, hid0, e])
      rw [hb id (fun j hj => by
        have := hnone (j + 1) (by simp only [List.length_cons]; omega)
        rwa [show i0 + (j + 1) = i0 + 1 + j by omega] at this)]
      rw [Dict.get?_set]; simp [h0]

end Condense
/-! ### `_populate_initial_guess`: writing the poses into the parameter vector -/
section Guess
variable {α P : Type}

theorem flatten_window (w : Nat) (rows : List (List α)) (hw : ∀ r ∈ rows, r.length = w) (k : Nat) (row : List α)
    (hk : rows[k]? = some row) : (rows.flatten.drop (k * w)).take w = row := by
  induction rows generalizing k with
  | nil => simp at hk
  | cons r0 rest ih =>
    have h0 : r0.length = w := hw r0 List.mem_cons_self
    cases k with
    | zero =>
      simp only [List.getElem?_cons_zero, Option.some.injEq] at hk
      subst hk
      simp only [Nat.zero_mul, List.drop_zero, List.flatten_cons]
      rw [List.take_append_of_le_length (by omega), List.take_of_length_le (by omega)]
    | succ k =>
      simp only [List.getElem?_cons_succ] at hk
      simp only [List.flatten_cons]
      rw [show (k + 1) * w = r0.length + k * w by rw [Nat.succ_mul]; omega, ← List.drop_drop, List.drop_left]
      exact ih (fun r hr => hw r (List.mem_cons_of_mem _ hr)) k hk

theorem length_flatten_uniform (w : Nat) (rows : List (List α)) (hw : ∀ r ∈ rows, r.length = w) :
    rows.flatten.length = rows.length * w := by
  induction rows with
  | nil => simp
  | cons r0 rest ih =>
    simp only [List.flatten_cons, List.length_append, List.length_cons,
      ih (fun r hr => hw r (List.mem_cons_of_mem _ hr)), hw r0 List.mem_cons_self, Nat.succ_mul]
    omega

theorem uniform_set (w : Nat) (rows : List (List α)) (hw : ∀ r ∈ rows, r.length = w) (k : Nat) (v : List α) (hv : v.length = w) :
    ∀ r ∈ rows.set k v, r.length = w := by
  intro r hr
  rcases List.mem_or_eq_of_mem_set hr with h | h
  · exact hw r h
  · rw [h]; exact hv

theorem fillBs_spec (toParams : P → List α) (w : Nat) (hp : ∀ p, (toParams p).length = w) (defs : Defs)
    (hinj : ∀ b b' k, defs.idToIndex.get? b = some k → defs.idToIndex.get? b' = some k → b = b')
    (d : Dict P) (hn : d.keys.Nodup) (rows : List (List α)) (hw : ∀ r ∈ rows, r.length = w)
    (hidx : ∀ b ∈ d.keys, ∃ k, defs.idToIndex.get? b = some k ∧ k < rows.length) :
    ∃ rows', fillBs toParams defs d rows = .ok rows' ∧ rows'.length = rows.length ∧ (∀ r ∈ rows', r.length = w) ∧
      (∀ b p k, (b, p) ∈ d → defs.idToIndex.get? b = some k → rows'[k]? = some (toParams p)) ∧
      (∀ k, (∀ b ∈ d.keys, defs.idToIndex.get? b ≠ some k) → rows'[k]? = rows[k]?) := by
  induction d generalizing rows with
  | nil => exact ⟨rows, rfl, rfl, hw, by simp, fun _ _ => rfl⟩
  | cons kv r ih =>
    obtain ⟨b0, p0⟩ := kv
    simp only [Dict.keys, List.map_cons, List.nodup_cons] at hn
    obtain ⟨k0, hk0, hk0lt⟩ := hidx b0 (by simp [Dict.keys])
    obtain ⟨rows', hr', hlen', hw', ha, hb⟩ := ih hn.2 (rows.set k0 (toParams p0)) (uniform_set w rows hw k0 _ (hp p0))
      (by intro b hb; obtain ⟨k, h1, h2⟩ := hidx b (by simp only [Dict.keys, List.map_cons, List.mem_cons]; exact Or.inr hb)
          exact ⟨k, h1, by simpa using h2⟩)
    refine ⟨rows', by simp only [fillBs, hk0, hk0lt, if_true]; exact hr', by simpa using hlen', hw', ?_, ?_⟩
    · intro b p k hmem hk
      rcases List.mem_cons.mp hmem with e | hmem'
      · simp only [Prod.mk.injEq] at e
        obtain ⟨rfl, rfl⟩ := e
        rw [hk0] at hk; cases hk
        rw [hb k0 ?_, List.getElem?_set]
        · simp [hk0lt]
        · intro b' hb' e
          have := hinj b' b k0 e hk0
          subst this; exact hn.1 hb'
      · exact ha b p k hmem' hk
    · intro k hnone
      have hne : k0 ≠ k := by
        rintro rfl; exact hnone b0 (by simp [Dict.keys]) hk0
      rw [hb k (fun b hb' => hnone b (by simp only [Dict.keys, List.map_cons, List.mem_cons]; exact Or.inr hb')),
        List.getElem?_set]
      simp [hne]

theorem fillCfs_spec (toParams : P → List α) (w : Nat) (hp : ∀ p, (toParams p).length = w) (ps : List P) (i0 : Nat)
    (rows : List (List α)) (hw : ∀ r ∈ rows, r.length = w) (hlen : i0 + ps.length ≤ rows.length) :
    ∃ rows', fillCfs toParams i0 ps rows = .ok rows' ∧ rows'.length = rows.length ∧ (∀ r ∈ rows', r.length = w) ∧
      (∀ j p, ps[j]? = some p → rows'[i0 + j]? = some (toParams p)) ∧ (∀ k, k < i0 → rows'[k]? = rows[k]?) := by
  induction ps generalizing i0 rows with
  | nil => exact ⟨rows, rfl, rfl, hw, by simp, fun _ _ => rfl⟩
  | cons p0 r ih =>
    simp only [List.length_cons] at hlen
    have hi0 : i0 < rows.length := by omega
    obtain ⟨rows', hr', hlen', hw', ha, hb⟩ := ih (i0 + 1) (rows.set i0 (toParams p0)) (uniform_set w rows hw i0 _ (hp p0))
      (by simp only [List.length_set]; omega)
    refine ⟨rows', by simp only [fillCfs, hi0, if_true]; exact hr', by simpa using hlen', hw', ?_, ?_⟩
    · intro j p hj
      cases j with
      | zero =>
        simp only [List.getElem?_cons_zero, Option.some.injEq] at hj
        subst hj
        rw [Nat.add_zero, hb i0 (by omega), List.getElem?_set]; simp [hi0]
      | succ j =>
        simp only [List.getElem?_cons_succ] at hj
        rw [show i0 + (j + 1) = i0 + 1 + j by omega]; exact ha j p hj
    · intro k hk
      rw [hb k (by omega), List.getElem?_set]
      have : i0 ≠ k := by omega
      simp [this]

end Guess

end CfVerif.C09

/-
Proofs/C09Link: helper lemmas for the linking loop of the initial estimator (T2).
-/
import CfVerif.Proofs.C09Match
namespace CfVerif.C09
set_option linter.unusedSectionVars false
set_option linter.unusedSimpArgs false

/-! ### sets as duplicate-free lists -/

theorem mem_dedup (l : List Nat) (a : Nat) : a ∈ dedup l ↔ a ∈ l := by
  induction l with
  | nil => simp [dedup]
  | cons x r ih =>
    simp only [dedup]
    split
    · rename_i h
      have h' : x ∈ r := by simpa using h
      rw [ih, List.mem_cons]
      exact ⟨Or.inr, fun h2 => h2.elim (fun e => e ▸ h') id⟩
    · rw [List.mem_cons, List.mem_cons, ih]

theorem nodup_dedup (l : List Nat) : (dedup l).Nodup := by
  induction l with
  | nil => simp [dedup]
  | cons x r ih =>
    simp only [dedup]
    split
    · exact ih
    · rename_i h
      have h' : x ∉ r := by simpa using h
      rw [List.nodup_cons]
      exact ⟨by rw [mem_dedup]; exact h', ih⟩

theorem filter_length_le_of_imp {l : List Nat} {p q : Nat → Bool} (h : ∀ a ∈ l, p a = true → q a = true) :
    (l.filter p).length ≤ (l.filter q).length := by
  induction l with
  | nil => simp
  | cons x r ih =>
    have ih' := ih (fun a ha => h a (List.mem_cons_of_mem _ ha))
    have hx := h x List.mem_cons_self
    simp only [List.filter_cons]
    cases hp : p x <;> cases hq : q x <;> simp_all <;> omega

theorem filter_length_lt_of_imp {l : List Nat} {p q : Nat → Bool} (h : ∀ a ∈ l, p a = true → q a = true)
    (k : Nat) (hk : k ∈ l) (hq : q k = true) (hp : p k = false) :
    (l.filter p).length < (l.filter q).length := by
  induction l with
  | nil => simp at hk
  | cons x r ih =>
    have hle := filter_length_le_of_imp (l := r) (p := p) (q := q) (fun a ha => h a (List.mem_cons_of_mem _ ha))
    have hx := h x List.mem_cons_self
    simp only [List.filter_cons]
    rcases List.mem_cons.mp hk with rfl | hk'
    · simp only [hp, hq, if_true, if_false, Bool.false_eq_true, List.length_cons]; omega
    · have ih' := ih (fun a ha => h a (List.mem_cons_of_mem _ ha)) hk'
      cases hpx : p x <;> cases hqx : q x <;> simp_all <;> omega

section Linking
variable {P : Type}

/-- the key sets of the samples -/
def keySets (refCfs : List (Dict P)) : List (List Nat) := refCfs.map Dict.keys

theorem mem_allBs (refCfs : List (Dict P)) (b : Nat) : b ∈ allBs refCfs ↔ ∃ s ∈ refCfs, b ∈ s.keys := by
  simp [allBs, mem_dedup, List.mem_flatMap]

theorem mem_setMinusKeys (all : List Nat) (bsPoses : Dict P) (b : Nat) :
    b ∈ setMinusKeys all bsPoses ↔ b ∈ all ∧ b ∉ bsPoses.keys := by
  simp [setMinusKeys]

/-! ### one round -/

theorem mem_keys_bucketPush (bk : Dict (List P)) (b : Nat) (p : P) (k : Nat) :
    k ∈ (bucketPush bk b p).keys ↔ k = b ∨ k ∈ bk.keys := by
  unfold bucketPush
  split <;> exact Dict.mem_keys_set _ _ _ _

theorem pushUnknown_ok (ops : PoseOps P) (kg kc : P) (sample : Dict P) (unknown : List Nat) (bk : Dict (List P))
    (h : ∀ b ∈ unknown, b ∈ sample.keys) :
    ∃ bk', pushUnknown ops kg kc sample unknown bk = .ok bk' ∧
      ∀ k, k ∈ bk'.keys ↔ k ∈ bk.keys ∨ k ∈ unknown := by
  induction unknown generalizing bk with
  | nil => exact ⟨bk, rfl, by simp⟩
  | cons b r ih =>
    have hb : b ∈ sample.keys := h b List.mem_cons_self
    have hsome := (Dict.get?_isSome_iff sample b).mpr hb
    cases hg : sample.get? b with
    | none => rw [hg] at hsome; simp at hsome
    | some uc =>
      obtain ⟨bk', hbk', hkeys⟩ := ih (bucketPush bk b (ops.mapRef kg kc uc)) (fun x hx => h x (List.mem_cons_of_mem _ hx))
      refine ⟨bk', by simp only [pushUnknown, hg]; exact hbk', ?_⟩
      intro k
      rw [hkeys, mem_keys_bucketPush, List.mem_cons]
      constructor
      · rintro ((rfl | h1) | h2)
        · exact Or.inr (Or.inl rfl)
        · exact Or.inl h1
        · exact Or.inr (Or.inr h2)
      · rintro (h1 | rfl | h2)
        · exact Or.inl (Or.inr h1)
        · exact Or.inl (Or.inl rfl)
        · exact Or.inr h2

/-- the oracle returns a member of the (non-empty) list it is given -/
def PickValid (pick : List Nat → Nat) : Prop := ∀ l : List Nat, l ≠ [] → pick l ∈ l

/-- `k` is found in a round: it is still to be found and shares a sample with an already known station -/
def FoundIn (sample : Dict P) (bsPoses : Dict P) (toFind : List Nat) (k : Nat) : Prop :=
  k ∈ toFind ∧ k ∈ sample.keys ∧ ∃ kn ∈ bsPoses.keys, kn ∈ sample.keys

theorem roundSample_ok (ops : PoseOps P) (pick : List Nat → Nat) (hp : PickValid pick) (bsPoses : Dict P)
    (toFind : List Nat) (sample : Dict P) (bk : Dict (List P)) :
    ∃ bk', roundSample ops pick bsPoses toFind sample bk = .ok bk' ∧
      ∀ k, k ∈ bk'.keys ↔ k ∈ bk.keys ∨ FoundIn sample bsPoses toFind k := by
  unfold roundSample
  simp only []
  by_cases hk : Gen.C09.knownCond (List.filter (fun b => sample.keys.contains b) bsPoses.keys).length = true
  · simp only [hk, if_true]
    have hne : List.filter (fun b => sample.keys.contains b) bsPoses.keys ≠ [] := by
      intro e; rw [e] at hk; simp [Gen.C09.knownCond] at hk
    have hmem := hp _ hne
    rw [List.mem_filter] at hmem
    obtain ⟨hm1, hm2⟩ := hmem
    have hm2' : pick (List.filter (fun b => sample.keys.contains b) bsPoses.keys) ∈ sample.keys := by simpa using hm2
    have s1 := (Dict.get?_isSome_iff bsPoses _).mpr hm1
    have s2 := (Dict.get?_isSome_iff sample _).mpr hm2'
    cases hg1 : bsPoses.get? (pick (List.filter (fun b => sample.keys.contains b) bsPoses.keys)) with
    | none => rw [hg1] at s1; simp at s1
    | some kg =>
      cases hg2 : sample.get? (pick (List.filter (fun b => sample.keys.contains b) bsPoses.keys)) with
      | none => rw [hg2] at s2; simp at s2
      | some kc =>
        simp only []
        obtain ⟨bk', hbk', hkeys⟩ := pushUnknown_ok ops kg kc sample (List.filter (fun b => sample.keys.contains b) toFind) bk
          (by intro b hb; rw [List.mem_filter] at hb; simpa using hb.2)
        refine ⟨bk', hbk', ?_⟩
        intro k
        rw [hkeys, List.mem_filter]
        constructor
        · rintro (h1 | ⟨h2, h3⟩)
          · exact Or.inl h1
          · exact Or.inr ⟨h2, by simpa using h3, _, hm1, hm2'⟩
        · rintro (h1 | ⟨h2, h3, _⟩)
          · exact Or.inl h1
          · exact Or.inr ⟨h2, by simpa using h3⟩
  · simp only [hk, if_false, Bool.false_eq_true]
    refine ⟨bk, rfl, ?_⟩
    intro k
    constructor
    · exact Or.inl
    · rintro (h1 | ⟨_, _, kn, hkn1, hkn2⟩)
      · exact h1
      · exfalso
        apply hk
        have : kn ∈ List.filter (fun b => sample.keys.contains b) bsPoses.keys := by
          rw [List.mem_filter]; exact ⟨hkn1, by simpa using hkn2⟩
        have hpos : 0 < (List.filter (fun b => sample.keys.contains b) bsPoses.keys).length := List.length_pos_of_mem this
        simp only [Gen.C09.knownCond, decide_eq_true_eq]; exact hpos

theorem roundSamples_ok (ops : PoseOps P) (pick : Nat → List Nat → Nat) (hp : ∀ i, PickValid (pick i)) (bsPoses : Dict P)
    (toFind : List Nat) (i : Nat) (samples : List (Dict P)) (bk : Dict (List P)) :
    ∃ bk', roundSamples ops pick bsPoses toFind i samples bk = .ok bk' ∧
      ∀ k, k ∈ bk'.keys ↔ k ∈ bk.keys ∨ ∃ s ∈ samples, FoundIn s bsPoses toFind k := by
  induction samples generalizing i bk with
  | nil => exact ⟨bk, rfl, by simp⟩
  | cons s rest ih =>
    obtain ⟨bk1, h1, hk1⟩ := roundSample_ok ops (pick i) (hp i) bsPoses toFind s bk
    obtain ⟨bk2, h2, hk2⟩ := ih (i + 1) bk1
    refine ⟨bk2, by simp only [roundSamples, h1]; exact h2, ?_⟩
    intro k
    rw [hk2, hk1]
    constructor
    · rintro ((h | h) | ⟨s', hs', h⟩)
      · exact Or.inl h
      · exact Or.inr ⟨s, List.mem_cons_self, h⟩
      · exact Or.inr ⟨s', List.mem_cons_of_mem _ hs', h⟩
    · rintro (h | ⟨s', hs', h⟩)
      · exact Or.inl (Or.inl h)
      · rcases List.mem_cons.mp hs' with rfl | hs''
        · exact Or.inl (Or.inr h)
        · exact Or.inr ⟨s', hs'', h⟩

theorem mem_keys_applyBuckets (ops : PoseOps P) (buckets : Dict (List P)) (bsPoses : Dict P) (k : Nat) :
    k ∈ (applyBuckets ops bsPoses buckets).keys ↔ k ∈ bsPoses.keys ∨ k ∈ buckets.keys := by
  induction buckets generalizing bsPoses with
  | nil => simp [applyBuckets, Dict.keys]
  | cons kv r ih =>
    obtain ⟨b, ps⟩ := kv
    simp only [applyBuckets]
    rw [ih, Dict.mem_keys_set]
    simp only [Dict.keys, List.map_cons, List.mem_cons]
    constructor
    · rintro ((rfl | h) | h)
      · exact Or.inr (Or.inl rfl)
      · exact Or.inl h
      · exact Or.inr (Or.inr h)
    · rintro (h | rfl | h)
      · exact Or.inl (Or.inr h)
      · exact Or.inl (Or.inl rfl)
      · exact Or.inr h

/-! ### the loop -/

/-- linked to one of the initially known stations -/
def LinkedFrom (samples : List (List Nat)) (roots : List Nat) (b : Nat) : Prop := ∃ r ∈ roots, Linked samples r b

/-- what a run of the linking loop can return -/
inductive LinkOutcome (refCfs : List (Dict P)) (roots : List Nat) : Except LinkErr (Dict P) → Prop
  | ok (poses : Dict P) :
      (∀ b ∈ allBs refCfs, b ∈ poses.keys) → (∀ r ∈ roots, r ∈ poses.keys) →
      (∀ k ∈ poses.keys, LinkedFrom (keySets refCfs) roots k) → LinkOutcome refCfs roots (.ok poses)
  | cannotLink (b : Nat) :
      b ∈ allBs refCfs → ¬ LinkedFrom (keySets refCfs) roots b → LinkOutcome refCfs roots (.error .cannotLink)

theorem linkLoop_outcome (ops : PoseOps P) (pick : Nat → Nat → List Nat → Nat) (hp : ∀ r i, PickValid (pick r i))
    (refCfs : List (Dict P)) (roots : List Nat) :
    ∀ (fuel round : Nat) (bsPoses : Dict P),
      (setMinusKeys (allBs refCfs) bsPoses).length + 1 ≤ fuel →
      (∀ r ∈ roots, r ∈ bsPoses.keys) →
      (∀ k ∈ bsPoses.keys, LinkedFrom (keySets refCfs) roots k) →
      LinkOutcome refCfs roots (linkLoop ops pick refCfs (allBs refCfs) fuel round bsPoses
        (setMinusKeys (allBs refCfs) bsPoses) (setMinusKeys (allBs refCfs) bsPoses).length) := by
  intro fuel
  induction fuel with
  | zero => intro round bsPoses hf; omega
  | succ fuel ih =>
    intro round bsPoses hf hroots hinv
    simp only [linkLoop]
    by_cases hloop : Gen.C09.loopCond (setMinusKeys (allBs refCfs) bsPoses).length = true
    · simp only [hloop, if_true]
      obtain ⟨buckets, hb, hkeys⟩ := roundSamples_ok ops (pick round) (hp round) bsPoses
        (setMinusKeys (allBs refCfs) bsPoses) 0 refCfs []
      rw [hb]
      simp only []
      -- keys after the round
      have hk' : ∀ k, k ∈ (applyBuckets ops bsPoses buckets).keys ↔
          k ∈ bsPoses.keys ∨ ∃ s ∈ refCfs, FoundIn s bsPoses (setMinusKeys (allBs refCfs) bsPoses) k := by
        intro k
        rw [mem_keys_applyBuckets, hkeys]
        simp [Dict.keys]
      have hroots' : ∀ r ∈ roots, r ∈ (applyBuckets ops bsPoses buckets).keys := fun r hr => (hk' r).mpr (Or.inl (hroots r hr))
      have hinv' : ∀ k ∈ (applyBuckets ops bsPoses buckets).keys, LinkedFrom (keySets refCfs) roots k := by
        intro k hk
        rcases (hk' k).mp hk with h | ⟨s, hs, _, hks, kn, hkn1, hkn2⟩
        · exact hinv k h
        · obtain ⟨r, hr, hl⟩ := hinv kn hkn1
          exact ⟨r, hr, Linked.step hl (List.mem_map_of_mem hs) hkn2 hks⟩
      have himp : ∀ a ∈ allBs refCfs, (!(applyBuckets ops bsPoses buckets).keys.contains a) = true →
          (!bsPoses.keys.contains a) = true := by
        intro a _ h
        simp only [Bool.not_eq_true', List.contains_eq_mem, decide_eq_false_iff_not] at h ⊢
        intro hm; exact h ((hk' a).mpr (Or.inl hm))
      by_cases hdone : Gen.C09.doneCond (setMinusKeys (allBs refCfs) (applyBuckets ops bsPoses buckets)).length = true
      · simp only [hdone, if_true]
        refine LinkOutcome.ok _ ?_ hroots' hinv'
        intro b hbm
        have hz : (setMinusKeys (allBs refCfs) (applyBuckets ops bsPoses buckets)) = [] := by
          simpa [Gen.C09.doneCond] using hdone
        by_cases hm : b ∈ (applyBuckets ops bsPoses buckets).keys
        · exact hm
        · have : b ∈ setMinusKeys (allBs refCfs) (applyBuckets ops bsPoses buckets) := (mem_setMinusKeys _ _ _).mpr ⟨hbm, hm⟩
          rw [hz] at this; simp at this
      · simp only [hdone, if_false, Bool.false_eq_true]
        have hne : setMinusKeys (allBs refCfs) (applyBuckets ops bsPoses buckets) ≠ [] := by
          intro e; apply hdone; simp [Gen.C09.doneCond, e]
        by_cases hstuck : Gen.C09.stuckCond (setMinusKeys (allBs refCfs) (applyBuckets ops bsPoses buckets)).length
            (setMinusKeys (allBs refCfs) bsPoses).length = true
        · simp only [hstuck, if_true]
          have hlen : (setMinusKeys (allBs refCfs) (applyBuckets ops bsPoses buckets)).length =
              (setMinusKeys (allBs refCfs) bsPoses).length := by simpa [Gen.C09.stuckCond] using hstuck
          -- nothing was found in this round
          have hnone : ∀ k s, s ∈ refCfs → ¬ FoundIn s bsPoses (setMinusKeys (allBs refCfs) bsPoses) k := by
            intro k s hs hf
            have hkall : k ∈ allBs refCfs := ((mem_setMinusKeys _ _ _).mp hf.1).1
            have hknot : k ∉ bsPoses.keys := ((mem_setMinusKeys _ _ _).mp hf.1).2
            have hlt := filter_length_lt_of_imp (l := allBs refCfs) himp k hkall
              (by simpa using hknot) (by simpa using (hk' k).mpr (Or.inr ⟨s, hs, hf⟩))
            simp only [setMinusKeys] at hlen
            omega
          -- hence the known stations are closed under linkage
          have hclosed : ∀ r b, r ∈ bsPoses.keys → Linked (keySets refCfs) r b → b ∈ allBs refCfs → b ∈ bsPoses.keys := by
            intro r b hr hl
            induction hl with
            | ref => intro _; exact hr
            | @step a b s hla hs ha hb' iha =>
              intro hball
              obtain ⟨d, hd, rfl⟩ := List.mem_map.mp hs
              have haall : a ∈ allBs refCfs := (mem_allBs refCfs a).mpr ⟨d, hd, ha⟩
              have hak := iha haall
              by_cases hbk : b ∈ bsPoses.keys
              · exact hbk
              · exact absurd ⟨(mem_setMinusKeys _ _ _).mpr ⟨hball, hbk⟩, hb', a, hak, ha⟩ (hnone b d hd)
          obtain ⟨b, hbmem⟩ := List.exists_mem_of_ne_nil _ hne
          obtain ⟨hball, hbnot⟩ := (mem_setMinusKeys _ _ _).mp hbmem
          refine LinkOutcome.cannotLink b hball ?_
          rintro ⟨r, hr, hl⟩
          exact hbnot ((hk' b).mpr (Or.inl (hclosed r b (hroots r hr) hl hball)))
        · simp only [hstuck, if_false, Bool.false_eq_true]
          have hle := filter_length_le_of_imp (l := allBs refCfs) himp
          have hneq : (setMinusKeys (allBs refCfs) (applyBuckets ops bsPoses buckets)).length ≠
              (setMinusKeys (allBs refCfs) bsPoses).length := by
            intro e; apply hstuck; simp [Gen.C09.stuckCond, e]
          apply ih (round + 1) (applyBuckets ops bsPoses buckets) _ hroots' hinv'
          simp only [setMinusKeys] at hle hneq hf ⊢
          omega
    · simp only [hloop, if_false, Bool.false_eq_true]
      refine LinkOutcome.ok _ ?_ hroots hinv
      intro b hbm
      have hz : setMinusKeys (allBs refCfs) bsPoses = [] := by
        have : ¬ (setMinusKeys (allBs refCfs) bsPoses).length > 0 := by simpa [Gen.C09.loopCond] using hloop
        exact List.length_eq_zero_iff.mp (by omega)
      by_cases hm : b ∈ bsPoses.keys
      · exact hm
      · have : b ∈ setMinusKeys (allBs refCfs) bsPoses := (mem_setMinusKeys _ _ _).mpr ⟨hbm, hm⟩
        rw [hz] at this; simp at this

theorem estimateRemaining_outcome (ops : PoseOps P) (pick : Nat → Nat → List Nat → Nat) (hp : ∀ r i, PickValid (pick r i))
    (refCfs : List (Dict P)) (bsPoses : Dict P) :
    LinkOutcome refCfs bsPoses.keys (estimateRemaining ops pick refCfs bsPoses) := by
  unfold estimateRemaining
  exact linkLoop_outcome ops pick hp refCfs bsPoses.keys _ 0 bsPoses (Nat.le_refl _) (fun r hr => hr)
    (fun k hk => ⟨k, hk, Linked.ref⟩)

end Linking


section Estimate
variable {P : Type}

theorem linked_mem (samples : List (List Nat)) (r b : Nat) (h : Linked samples r b) : b = r ∨ ∃ s ∈ samples, b ∈ s := by
  cases h with
  | ref => exact Or.inl rfl
  | step _ hs _ hb => exact Or.inr ⟨_, hs, hb⟩

theorem cfCandidates_ok (ops : PoseOps P) (bsPoses : Dict P) (sample : Dict P) (h : ∀ b ∈ sample.keys, b ∈ bsPoses.keys) :
    ∃ l, cfCandidates ops bsPoses sample = .ok l ∧ l.length = sample.length := by
  induction sample with
  | nil => exact ⟨[], rfl, rfl⟩
  | cons kv r ih =>
    obtain ⟨b, pc⟩ := kv
    have hb : b ∈ bsPoses.keys := h b (by simp [Dict.keys])
    obtain ⟨l, hl, hlen⟩ := ih (fun x hx => h x (by simp only [Dict.keys, List.map_cons, List.mem_cons]; exact Or.inr hx))
    have hsome := (Dict.get?_isSome_iff bsPoses b).mpr hb
    cases hg : bsPoses.get? b with
    | none => rw [hg] at hsome; simp at hsome
    | some g => exact ⟨ops.cfFrom g pc :: l, by simp only [cfCandidates, hg, hl], by simp [hlen]⟩

theorem estimateCfPoses_ok (ops : PoseOps P) (bsPoses : Dict P) (refCfs : List (Dict P))
    (hk : ∀ s ∈ refCfs, ∀ b ∈ s.keys, b ∈ bsPoses.keys) (hne : ∀ s ∈ refCfs, s ≠ []) :
    ∃ l, estimateCfPoses ops bsPoses refCfs = .ok l ∧ l.length = refCfs.length := by
  induction refCfs with
  | nil => exact ⟨[], rfl, rfl⟩
  | cons s rest ih =>
    obtain ⟨c, hc, hclen⟩ := cfCandidates_ok ops bsPoses s (hk s List.mem_cons_self)
    obtain ⟨l, hl, hlen⟩ := ih (fun s' hs' => hk s' (List.mem_cons_of_mem _ hs')) (fun s' hs' => hne s' (List.mem_cons_of_mem _ hs'))
    have hsne := hne s List.mem_cons_self
    cases c with
    | nil => cases s with
      | nil => exact absurd rfl hsne
      | cons _ _ => simp at hclen
    | cons p ps => exact ⟨ops.avg (p :: ps) :: l, by simp only [estimateCfPoses, hc, hl], by simp [hlen]⟩

theorem findReference_none (refCfs : List (Dict P)) : findReference refCfs = none ↔ ∀ s ∈ refCfs, s = [] := by
  induction refCfs with
  | nil => simp [findReference]
  | cons s rest ih =>
    cases s with
    | nil => simp [findReference, ih]
    | cons kv r => simp [findReference]

theorem findReference_some (refCfs : List (Dict P)) (b : Nat) (p : P) (h : findReference refCfs = some (b, p)) :
    ∃ s ∈ refCfs, b ∈ s.keys := by
  induction refCfs with
  | nil => simp [findReference] at h
  | cons s rest ih =>
    cases s with
    | nil =>
      simp only [findReference] at h
      obtain ⟨s', hs', hb⟩ := ih h
      exact ⟨s', List.mem_cons_of_mem _ hs', hb⟩
    | cons kv r =>
      simp only [findReference, Option.some.injEq] at h
      subst h
      exact ⟨_, List.mem_cons_self, by simp [Dict.keys]⟩

end Estimate
end CfVerif.C09

/-
Proofs/C09Match: helper lemmas for the sample matcher (T1) and the Python-dict model.
-/
import CfVerif.Spec.C09
namespace CfVerif.C09
set_option linter.unusedSectionVars false
set_option linter.unusedSimpArgs false

theorem mem_takeWhile_imp' {α : Type} (p : α → Bool) : ∀ (l : List α) (x : α), x ∈ l.takeWhile p → p x = true
  | [], _, h => by simp at h
  | a :: l, x, h => by
    simp only [List.takeWhile_cons] at h
    split at h
    · rcases List.mem_cons.mp h with rfl | h'
      · assumption
      · exact mem_takeWhile_imp' p l x h'
    · simp at h

/-! ### Dict lemmas -/
namespace Dict
variable {α : Type}

theorem get?_set (d : Dict α) (k k' : Nat) (v : α) :
    (d.set k v).get? k' = if k = k' then some v else d.get? k' := by
  induction d with
  | nil => simp [Dict.set, Dict.get?]
  | cons kv r ih =>
    obtain ⟨k0, v0⟩ := kv
    by_cases h : k0 = k
    · subst h; simp only [Dict.set, if_true, Dict.get?]; split <;> rfl
    · simp only [Dict.set, h, if_false, Dict.get?, ih]
      by_cases h2 : k0 = k'
      · subst h2; simp [Ne.symm h]
      · simp [h2]

theorem keys_set (d : Dict α) (k : Nat) (v : α) :
    (d.set k v).keys = if k ∈ d.keys then d.keys else d.keys ++ [k] := by
  induction d with
  | nil => simp [Dict.set, Dict.keys]
  | cons kv r ih =>
    obtain ⟨k0, v0⟩ := kv
    by_cases h : k0 = k
    · subst h; simp [Dict.set, Dict.keys]
    · have ih' := ih
      simp only [Dict.keys] at ih' ⊢
      simp only [Dict.set, h, if_false, List.map_cons, ih', List.mem_cons]
      have : ¬ k = k0 := fun e => h e.symm
      by_cases hm : k ∈ List.map Prod.fst r <;> simp [hm, this]

theorem mem_keys_set (d : Dict α) (k k' : Nat) (v : α) :
    k' ∈ (d.set k v).keys ↔ k' = k ∨ k' ∈ d.keys := by
  rw [keys_set]
  by_cases h : k ∈ d.keys
  · simp only [h, if_true]; constructor
    · exact Or.inr
    · rintro (rfl | h') <;> assumption
  · simp only [h, if_false, List.mem_append, List.mem_singleton]; exact Or.comm

theorem nodup_keys_set (d : Dict α) (k : Nat) (v : α) (h : d.keys.Nodup) : (d.set k v).keys.Nodup := by
  rw [keys_set]
  by_cases hm : k ∈ d.keys
  · simpa [hm] using h
  · simp only [hm, if_false]
    rw [List.nodup_append]
    refine ⟨h, by simp, ?_⟩
    intro a ha b hb
    simp only [List.mem_singleton] at hb
    subst hb; intro e; subst e; exact hm ha

theorem get?_isSome_iff (d : Dict α) (k : Nat) : (d.get? k).isSome ↔ k ∈ d.keys := by
  induction d with
  | nil => simp [Dict.get?, Dict.keys]
  | cons kv r ih =>
    obtain ⟨k0, v0⟩ := kv
    simp only [Dict.keys] at ih
    by_cases h : k0 = k
    · simp [Dict.get?, Dict.keys, h]
    · have : ¬ k = k0 := fun e => h e.symm
      simp [Dict.get?, Dict.keys, h, ih, this]

theorem get?_eq_none_iff (d : Dict α) (k : Nat) : d.get? k = none ↔ k ∉ d.keys := by
  rw [← get?_isSome_iff]; cases d.get? k <;> simp

theorem length_keys (d : Dict α) : d.keys.length = d.length := by simp [Dict.keys]

end Dict

/-! ### folding measurements into a dict -/
section Fold
variable {T A : Type}

def foldMeas (d : Dict A) (l : List (Meas T A)) : Dict A := l.foldl (fun d x => d.set x.bs x.ang) d

theorem foldMeas_nil (d : Dict A) : foldMeas d ([] : List (Meas T A)) = d := rfl
theorem foldMeas_cons (d : Dict A) (x : Meas T A) (l : List (Meas T A)) :
    foldMeas d (x :: l) = foldMeas (d.set x.bs x.ang) l := rfl

theorem foldMeas_get? (l : List (Meas T A)) (d : Dict A) (b : Nat) :
    (foldMeas d l).get? b = match (l.reverse.find? (fun x => x.bs = b)) with
      | some x => some x.ang
      | none => d.get? b := by
  induction l generalizing d with
  | nil => simp [foldMeas]
  | cons x l ih =>
    rw [foldMeas_cons, ih, List.reverse_cons, List.find?_append]
    cases h : l.reverse.find? (fun x => decide (x.bs = b)) with
    | some y => simp
    | none =>
      simp only [Option.none_or, List.find?_cons, List.find?_nil]
      by_cases hb : x.bs = b
      · simp [hb, Dict.get?_set]
      · simp [hb, Dict.get?_set]

theorem foldMeas_mem_keys (l : List (Meas T A)) (d : Dict A) (b : Nat) :
    b ∈ (foldMeas d l).keys ↔ b ∈ d.keys ∨ ∃ x ∈ l, x.bs = b := by
  induction l generalizing d with
  | nil => simp [foldMeas]
  | cons x l ih =>
    rw [foldMeas_cons, ih, Dict.mem_keys_set]
    constructor
    · rintro ((rfl | h) | ⟨y, hy, rfl⟩)
      · exact Or.inr ⟨x, List.mem_cons_self, rfl⟩
      · exact Or.inl h
      · exact Or.inr ⟨y, List.mem_cons_of_mem _ hy, rfl⟩
    · rintro (h | ⟨y, hy, rfl⟩)
      · exact Or.inl (Or.inr h)
      · rcases List.mem_cons.mp hy with rfl | hy
        · exact Or.inl (Or.inl rfl)
        · exact Or.inr ⟨y, hy, rfl⟩

theorem foldMeas_nodup (l : List (Meas T A)) (d : Dict A) (h : d.keys.Nodup) : (foldMeas d l).keys.Nodup := by
  induction l generalizing d with
  | nil => exact h
  | cons x l ih => rw [foldMeas_cons]; exact ih _ (Dict.nodup_keys_set d _ _ h)

end Fold

/-! ### the matcher follows the segmentation -/
section Matcher
variable {T A : Type} [Add T] [LT T] [DecidableLT T]

/-- the `_append_result` filter -/
def keepG (minBs : Int) (g : Group T A) : Bool := Gen.C09.keepCond (g.angles.length : Int) minBs

theorem appendResult_some (g : Group T A) (res : List (Group T A)) (minBs : Int) :
    appendResult (some g) res minBs = res ++ [g].filter (keepG minBs) := by
  simp only [appendResult, keepG, List.filter_cons, List.filter_nil]
  split <;> simp [*]

theorem splitCond_iff (ts cur maxDiff : T) : Gen.C09.splitCond ts cur maxDiff = true ↔ ts > cur + maxDiff := by
  simp [Gen.C09.splitCond]

/-- measurements inside the window are stored into the current group -/
theorem matchLoop_join (maxDiff : T) (minBs : Int) (tail rest : List (Meas T A)) (cur : Group T A)
    (res : List (Group T A)) (h : ∀ x ∈ tail, ¬ x.ts > cur.ts + maxDiff) :
    matchLoop maxDiff minBs (tail ++ rest) (some cur) res =
      matchLoop maxDiff minBs rest (some { ts := cur.ts, angles := foldMeas cur.angles tail }) res := by
  induction tail generalizing cur with
  | nil => simp [foldMeas]
  | cons x tail ih =>
    have hx : Gen.C09.splitCond x.ts cur.ts maxDiff = false := by
      have := h x List.mem_cons_self
      cases hc : Gen.C09.splitCond x.ts cur.ts maxDiff with
      | false => rfl
      | true => exact absurd ((splitCond_iff _ _ _).mp hc) this
    simp only [List.cons_append, matchLoop, hx]
    rw [ih]
    · rfl
    · intro y hy; exact h y (List.mem_cons_of_mem _ hy)

theorem matchLoop_segments (maxDiff : T) (minBs : Int) (rest : List (Meas T A)) (segs : List (Segment T A))
    (hs : Segmentation maxDiff rest segs) (cur : Group T A) (res : List (Group T A))
    (hsplit : ∀ y, rest.head? = some y → y.ts > cur.ts + maxDiff) :
    matchLoop maxDiff minBs rest (some cur) res =
      res ++ ([cur].filter (keepG minBs) ++ (segs.map groupOf).filter (keepG minBs)) := by
  induction hs generalizing cur res with
  | nil => simp [matchLoop, appendResult_some]
  | cons m tail rest segs hin hnext _ ih =>
    have hm : Gen.C09.splitCond m.ts cur.ts maxDiff = true :=
      (splitCond_iff _ _ _).mpr (hsplit m rfl)
    simp only [matchLoop, hm, if_true]
    rw [matchLoop_join maxDiff minBs tail rest _ _ (by simpa using hin)]
    rw [ih _ _ (by simpa using hnext), appendResult_some]
    simp only [List.map_cons, List.filter_cons, List.append_assoc]
    have hg : ({ ts := m.ts, angles := foldMeas (Dict.set [] m.bs m.ang) tail } : Group T A) = groupOf (m, tail) := by
      simp [groupOf, Segment.toList, foldMeas, List.foldl_cons]
    rw [hg]
    simp only [List.filter_nil]
    split <;> split <;> simp

theorem matchSamples_eq (maxDiff : T) (minBs : Int) (samples : List (Meas T A)) (segs : List (Segment T A))
    (hd : ∀ t : T, ¬ t > t + maxDiff) (hs : Segmentation maxDiff samples segs) :
    matchSamples samples maxDiff minBs = (segs.map groupOf).filter (keepG minBs) := by
  cases hs with
  | nil => simp [matchSamples, matchLoop, appendResult]
  | cons m tail rest segs hin hnext hrest =>
    have hm : Gen.C09.splitCond m.ts m.ts maxDiff = false := by
      cases hc : Gen.C09.splitCond m.ts m.ts maxDiff with
      | false => rfl
      | true => exact absurd ((splitCond_iff _ _ _).mp hc) (hd m.ts)
    simp only [matchSamples, matchLoop, hm, Bool.false_eq_true, if_false]
    rw [matchLoop_join maxDiff minBs tail rest _ _ (by simpa using hin)]
    rw [matchLoop_segments maxDiff minBs rest segs hrest _ _ (by simpa using hnext)]
    have hg : ({ ts := m.ts, angles := foldMeas (Dict.set [] m.bs m.ang) tail } : Group T A) = groupOf (m, tail) := by
      simp [groupOf, Segment.toList, foldMeas, List.foldl_cons]
    simp only [hg, List.map_cons, List.filter_cons, List.nil_append, List.filter_nil]
    split <;> simp

/-- every stream has a segmentation (so `matchSamples_eq` is never vacuous) -/
theorem segmentation_exists (maxDiff : T) (samples : List (Meas T A)) :
    ∃ segs, Segmentation maxDiff samples segs := by
  suffices h : ∀ n (samples : List (Meas T A)), samples.length ≤ n → ∃ segs, Segmentation maxDiff samples segs from
    h _ _ (Nat.le_refl _)
  intro n
  induction n with
  | zero =>
    intro samples hl
    have : samples = [] := List.length_eq_zero_iff.mp (Nat.le_zero.mp hl)
    subst this; exact ⟨[], .nil⟩
  | succ n ih =>
    intro samples hl
    cases samples with
    | nil => exact ⟨[], .nil⟩
    | cons m l =>
      let p : Meas T A → Bool := fun x => !Gen.C09.splitCond x.ts m.ts maxDiff
      have hlen : (l.dropWhile p).length ≤ n := by
        have h1 := (List.dropWhile_sublist p (l := l)).length_le
        simp only [List.length_cons] at hl; omega
      obtain ⟨segs, hsegs⟩ := ih (l.dropWhile p) hlen
      refine ⟨(m, l.takeWhile p) :: segs, ?_⟩
      have := Segmentation.cons (maxDiff := maxDiff) m (l.takeWhile p) (l.dropWhile p) segs ?_ ?_ hsegs
      · rwa [List.takeWhile_append_dropWhile] at this
      · intro x hx
        have := mem_takeWhile_imp' p l x hx
        intro hgt
        have h2 := (splitCond_iff x.ts m.ts maxDiff).mpr hgt
        simp [p, h2] at this
      · intro y hy
        have := List.head?_dropWhile_not p l
        rw [hy] at this
        simp only [p, Option.elim, Bool.not_eq_true', Bool.not_eq_false'] at this
        exact (splitCond_iff _ _ _).mp (by simpa using this)

/-- a segmentation is a partition of the stream, in order -/
theorem segmentation_flatten (maxDiff : T) (samples : List (Meas T A)) (segs : List (Segment T A))
    (hs : Segmentation maxDiff samples segs) : (segs.map Segment.toList).flatten = samples := by
  induction hs with
  | nil => rfl
  | cons m tail rest segs _ _ _ ih => simp [Segment.toList, ih]

end Matcher

end CfVerif.C09

/-
Proofs/C09Resid: the row-wise numerics of the residual over an arbitrary field (T3).
-/
import CfVerif.Model.C09
import Mathlib.Tactic.Ring
import Mathlib.Algebra.Field.Basic
import Mathlib.Algebra.Field.Rat
namespace CfVerif.C09

section
variable {α : Type} [Field α]

/-- `⟨R p, q⟩ = ⟨p, R' q⟩` where `R'` is Rodrigues' formula about the negated axis: negating the axis transposes
the rotation matrix (no assumption on `c`, `s`, `v`) -/
theorem rodrigues_adjoint (c s : α) (v p q : V3 α) :
    (rodrigues c s v p).dot q = p.dot (rodrigues c s v.neg q) := by
  simp only [rodrigues, V3.dot, V3.add, V3.smul, V3.cross, V3.neg]
  ring

/-- zero axis, `cos = 1`: the identity -/
theorem rodrigues_zero (s : α) (p : V3 α) : rodrigues 1 s V3.zero p = p := by
  cases p
  simp only [rodrigues, V3.dot, V3.add, V3.smul, V3.cross, V3.zero, V3.mk.injEq]
  refine ⟨by ring, by ring, by ring⟩

theorem V3.add_zero' (p : V3 α) : p.add V3.zero = p := by
  cases p; simp [V3.add, V3.zero]

theorem V3.neg_zero' : (V3.zero : V3 α).neg = V3.zero := by simp [V3.neg, V3.zero]

/-- what the theorems assume about numpy's primitives -/
structure TrigLaws (tr : Trig α) : Prop where
  norm_neg : ∀ r, tr.norm r.neg = tr.norm r
  norm_zero : tr.norm V3.zero = 0
  isZero_iff : ∀ a, tr.isZero a = true ↔ a = 0
  cos_zero : tr.cos 0 = 1
  tan_zero : tr.tan 0 = 0

theorem unitAxis_neg (tr : Trig α) (h : TrigLaws tr) (r : V3 α) : unitAxis tr r.neg = (unitAxis tr r).neg := by
  simp only [unitAxis, h.norm_neg]
  split
  · exact V3.neg_zero'.symm
  · simp only [V3.neg, neg_div]

/-- the pure rotation by rotation vector `r` as `_rotate_translate` computes it -/
def rotBy (tr : Trig α) (r p : V3 α) : V3 α := rotateTranslate tr p r V3.zero

theorem rotBy_adjoint (tr : Trig α) (h : TrigLaws tr) (r p q : V3 α) :
    (rotBy tr r p).dot q = p.dot (rotBy tr r.neg q) := by
  simp only [rotBy, rotateTranslate, V3.add_zero', h.norm_neg, unitAxis_neg tr h]
  exact rodrigues_adjoint _ _ _ _ _

theorem rotBy_zero (tr : Trig α) (h : TrigLaws tr) (p : V3 α) : rotBy tr V3.zero p = p := by
  simp only [rotBy, rotateTranslate, V3.add_zero', unitAxis, h.norm_zero, (h.isZero_iff 0).mpr rfl, if_true, h.cos_zero]
  exact rodrigues_zero _ _

theorem dot_nondegenerate (a b : V3 α) (h : ∀ p : V3 α, p.dot a = p.dot b) : a = b := by
  have h1 := h ⟨1, 0, 0⟩
  have h2 := h ⟨0, 1, 0⟩
  have h3 := h ⟨0, 0, 1⟩
  simp only [V3.dot, one_mul, zero_mul, add_zero, zero_add] at h1 h2 h3
  cases a; cases b; simp only [V3.mk.injEq]; exact ⟨h1, h2, h3⟩

/-- any transpose (adjoint) of the rotation by `r` is the rotation by `-r` -/
theorem transpose_unique (tr : Trig α) (h : TrigLaws tr) (r : V3 α) (RT : V3 α → V3 α)
    (hRT : ∀ p q, (rotBy tr r p).dot q = p.dot (RT q)) (q : V3 α) : RT q = rotBy tr r.neg q := by
  apply dot_nondegenerate
  intro p
  rw [← hRT, rotBy_adjoint tr h]

theorem calcAnglePair_eq (tr : Trig α) (bs cf : V3 α × V3 α) (sens : V3 α) :
    calcAnglePair tr bs cf sens =
      fromCartAngles tr (rotBy tr bs.1.neg ((poseApply (rotBy tr cf.1) cf.2 sens).sub bs.2)) := by
  simp only [calcAnglePair, fromCartAngles, rotBy, poseApply, rotateTranslate, V3.add_zero']

theorem residualPair_zero (tr : Trig α) (h : TrigLaws tr) (bs cf : V3 α × V3 α) (sens : V3 α) :
    residualPair tr bs cf sens (calcAnglePair tr bs cf sens) = (0, 0) := by
  simp only [residualPair, sub_self, h.tan_zero, zero_mul]

end
end CfVerif.C09

/-
Proofs/C10 — helper lemmas for the C10 property theorems (Props/C10).  Core Lean only.
-/
import CfVerif.Model.C10
namespace CfVerif.C10

/-- The repaired `send_packet` / `close_link` / `_link_error_cb` / `open_link` (what `Props.src_repaired` checks of the source). -/
structure Cfg.Repaired (c : Cfg) : Prop where
  transmits : ∀ lo he rs nr pe ti, c.transmits lo he rs nr pe ti = (lo && (!rs || ti))
  arms : ∀ lo he rs nr pe ti, c.arms lo he rs nr pe ti = (lo && ((!rs && he && nr) || (rs && ti)))
  keeps : c.retryKeepsTimeout = true
  closeCancels : c.closeCancels = true
  closeClears : c.closeClears = true
  errorCancels : c.errorCancels = true
  errorClears : c.errorClears = true
  openCancels : c.openCancels = true
  openClears : c.openClears = true
  closeEarly : c.closeEarly = true
  errorEarly : c.errorEarly = true
  openEarly : c.openEarly = true

/-! ## the pattern dictionary -/

theorem dget_dset (d : Dict) (k : Pattern) (v : Nat) (k' : Pattern) :
    dget (dset d k v) k' = if k = k' then some v else dget d k' := by
  induction d with
  | nil => simp [dset, dget]
  | cons e r ih =>
    obtain ⟨a, b⟩ := e
    simp only [dset]
    split
    · subst_vars; simp only [dget]; split <;> simp_all
    · simp only [dget, ih]; split <;> grind

theorem dget_ddel (d : Dict) (k k' : Pattern) :
    dget (ddel d k) k' = if k = k' then none else dget d k' := by
  induction d with
  | nil => simp [ddel, dget]
  | cons e r ih =>
    obtain ⟨a, b⟩ := e
    simp only [ddel]
    split
    · subst_vars; rw [ih]; simp only [dget]; grind
    · simp only [dget, ih]; grind

def keys (d : Dict) : List Pattern := d.map (·.1)

theorem dget_isSome_iff (d : Dict) (k : Pattern) : (dget d k).isSome ↔ k ∈ keys d := by
  induction d with
  | nil => simp [dget, keys]
  | cons e r ih =>
    obtain ⟨a, b⟩ := e
    simp only [dget, keys, List.map_cons, List.mem_cons]
    split
    · simp_all
    · simp only [keys] at ih; rw [ih]; grind

theorem isPrefix_iff (p d : Pattern) : isPrefix p d = true ↔ p <+: d := by
  simp only [isPrefix, Bool.and_eq_true, decide_eq_true_eq, beq_iff_eq]
  constructor
  · rintro ⟨_, h⟩; exact List.prefix_iff_eq_take.mpr h
  · intro h; exact ⟨h.length_le, List.prefix_iff_eq_take.mp h⟩

theorem prefix_eq_of_length_eq {a b d : Pattern} (ha : a <+: d) (hb : b <+: d) (h : a.length = b.length) : a = b := by
  rw [List.prefix_iff_eq_take.mp ha, List.prefix_iff_eq_take.mp hb, h]

/-- Gen obligation: the comparison in the loop of `_check_for_answers` prefers the strictly longer match
(what it does for equal lengths is irrelevant: two prefixes of the same data of equal length are equal) -/
theorem checkBetter_spec (a b : Nat) :
    (b < a → Gen.C10.checkBetter a b = true) ∧ (a < b → Gen.C10.checkBetter a b = false) := by
  simp only [Gen.C10.checkBetter, decide_eq_true_eq, decide_eq_false_iff_not]
  omega

theorem longestMatch_spec (data : Pattern) (d : Dict) (lm : Pattern) (hlm : lm <+: data) :
    let r := longestMatch data d lm
    r <+: data ∧ (r = lm ∨ r ∈ keys d) ∧ lm.length ≤ r.length ∧ ∀ q ∈ keys d, q <+: data → q.length ≤ r.length := by
  induction d generalizing lm with
  | nil => simp [longestMatch, keys, hlm]
  | cons e r ih =>
    obtain ⟨p, i⟩ := e
    simp only [longestMatch]
    by_cases hp : isPrefix p data = true
    · have hpd := (isPrefix_iff p data).mp hp
      have htake : data.take p.length = p := (List.prefix_iff_eq_take.mp hpd).symm
      simp only [hp, if_true, htake]
      by_cases hgb : Gen.C10.checkBetter p.length lm.length = true
      · have hge : p.length ≥ lm.length := by
          rcases Nat.lt_or_ge p.length lm.length with h | h
          · rw [(checkBetter_spec _ _).2 h] at hgb; cases hgb
          · exact h
        simp only [hgb, if_true]
        obtain ⟨h1, h2, h3, h4⟩ := ih p hpd
        refine ⟨h1, ?_, by omega, ?_⟩
        · rcases h2 with h2 | h2
          · right; simp [keys, h2]
          · right; simp only [keys, List.map_cons, List.mem_cons]; right; exact h2
        · intro q hq hqd
          simp only [keys, List.map_cons, List.mem_cons] at hq
          rcases hq with rfl | hq
          · exact h3
          · exact h4 q hq hqd
      · have hge : p.length ≤ lm.length := by
          rcases Nat.lt_or_ge lm.length p.length with h | h
          · exact absurd ((checkBetter_spec _ _).1 h) hgb
          · exact h
        simp only [hgb, Bool.false_eq_true, if_false]
        obtain ⟨h1, h2, h3, h4⟩ := ih lm hlm
        refine ⟨h1, ?_, h3, ?_⟩
        · rcases h2 with h2 | h2
          · left; exact h2
          · right; simp only [keys, List.map_cons, List.mem_cons]; right; exact h2
        · intro q hq hqd
          simp only [keys, List.map_cons, List.mem_cons] at hq
          rcases hq with rfl | hq
          · omega
          · exact h4 q hq hqd
    · have hp' : isPrefix p data = false := by simpa using hp
      simp only [hp', Bool.false_eq_true, if_false]
      obtain ⟨h1, h2, h3, h4⟩ := ih lm hlm
      refine ⟨h1, ?_, h3, ?_⟩
      · rcases h2 with h2 | h2
        · left; exact h2
        · right; simp only [keys, List.map_cons, List.mem_cons]; right; exact h2
      · intro q hq hqd
        simp only [keys, List.map_cons, List.mem_cons] at hq
        rcases hq with rfl | hq
        · exact absurd ((isPrefix_iff _ _).mpr hqd) hp
        · exact h4 q hq hqd

/-! ## `_check_for_answers` -/

/-- `p` is the longest registered pattern that is a prefix of the received `data` -/
def LongestPending (d : Dict) (data p : Pattern) : Prop :=
  p ∈ keys d ∧ p <+: data ∧ ∀ q ∈ keys d, q <+: data → q.length ≤ p.length

theorem longestMatch_of_longestPending {d : Dict} {data p : Pattern} (h : LongestPending d data p) (hne : p ≠ []) :
    longestMatch data d [] = p := by
  obtain ⟨h1, h2, _, h4⟩ := longestMatch_spec data d [] List.nil_prefix

  have hlen := h4 p h.1 h.2.1
  have hr : longestMatch data d [] ∈ keys d := by
    rcases h2 with h2 | h2
    · rw [h2] at hlen; simp at hlen; exact absurd hlen hne
    · exact h2
  exact prefix_eq_of_length_eq h1 h.2.1 (by have := h.2.2 _ hr h1; omega)

theorem longestMatch_nil_of_none {d : Dict} {data : Pattern} (h : ∀ q ∈ keys d, ¬ q <+: data) :
    longestMatch data d [] = [] := by
  obtain ⟨h1, h2, _, _⟩ := longestMatch_spec data d [] List.nil_prefix

  rcases h2 with h2 | h2
  · exact h2
  · exact absurd h1 (h _ h2)

/-- whenever the loop finds something, it is the longest registered prefix -/
theorem longestPending_of_longestMatch {d : Dict} {data : Pattern} (hne : longestMatch data d [] ≠ []) :
    LongestPending d data (longestMatch data d []) := by
  obtain ⟨h1, h2, _, h4⟩ := longestMatch_spec data d [] List.nil_prefix

  rcases h2 with h2 | h2
  · exact absurd h2 hne
  · exact ⟨h2, h1, h4⟩


/-! ## the repaired code in normal form -/

def mkTimer (s : State) (pk : Pk) (pat : Pattern) (T req : Nat) : Timer :=
  { pk := pk, pattern := pat, interval := T, deadline := s.now + T, req := req, st := .armed }

def mkTx (s : State) (l : Link) (pk : Pk) (req : Nat) (retry : Option Nat) (due T : Nat) : Tx :=
  { time := s.now, sid := l.sid, pk := pk, req := req, retry := retry, due := due, interval := T,
    onClosed := s.closed.contains l.sid }

/-- The steps of the repaired code, in normal form. -/
inductive Shape (s : State) : Ev → State → Prop
  | same (e) : Shape s e s
  | advance (dt) : Shape s (.advance dt) { s with now := s.now + dt }
  | setResend (nr l) (h : s.link = some l) :
      Shape s (.setResend nr) { s with link := some { l with needsResending := nr } }
  | openLink (nr) :
      Shape s (.openLink nr) { s with timers := cancelAll s.timers s.patterns, patterns := [],
                                      link := some ⟨s.nextSid, nr⟩, nextSid := s.nextSid + 1 }
  | drop (e) (he : e = .closeRest ∨ e = .linkError) :
      Shape s e { s with link := none,
                         closed := (match s.link with | some l => l.sid :: s.closed | none => s.closed),
                         timers := cancelAll s.timers s.patterns, patterns := [] }
  | bump (e) (hl : s.link = none) : Shape s e { s with nextReq := s.nextReq + 1 }
  | tx (e) (l) (hl : s.link = some l) (pk T)
      (he : (∃ ex, e = .send pk ex T ∧ (ex = [] ∨ l.needsResending = false)) ∨ e = .closeSetpoint) :
      Shape s e { s with nextReq := s.nextReq + 1, log := mkTx s l pk s.nextReq none s.now T :: s.log }
  | armTx (l) (hl : s.link = some l) (pk ex T) (hex : ex ≠ []) (hnr : l.needsResending = true) :
      Shape s (.send pk ex T)
        { s with nextReq := s.nextReq + 1,
                 timers := s.timers ++ [mkTimer s pk (pk.header :: ex) T s.nextReq],
                 patterns := dset s.patterns (pk.header :: ex) s.timers.length,
                 log := mkTx s l pk s.nextReq none s.now T :: s.log }
  | cancel (h d p i) (hp : LongestPending s.patterns (h :: d) p) (hne : p ≠ []) (hi : dget s.patterns p = some i) :
      Shape s (.recv h d) { s with timers := s.timers.modify i cancelT, patterns := ddel s.patterns p }
  | expire (i t) (ht : s.timers[i]? = some t) (ha : t.st = .armed) (hd : t.deadline ≤ s.now) :
      Shape s (.expire i) { s with timers := s.timers.modify i (setSt .expired) }
  | runNoop (i t) (ht : s.timers[i]? = some t) (he : t.st = .expired)
      (hn : s.link = none ∨ dget s.patterns t.pattern ≠ some i) :
      Shape s (.run i) { s with timers := s.timers.modify i (setSt .done) }
  | runRetry (i t l) (ht : s.timers[i]? = some t) (he : t.st = .expired) (hl : s.link = some l)
      (hent : dget s.patterns t.pattern = some i) :
      Shape s (.run i)
        { s with timers := s.timers.modify i (setSt .done) ++ [mkTimer s t.pk t.pattern t.interval t.req],
                 patterns := dset s.patterns t.pattern s.timers.length,
                 log := mkTx s l t.pk t.req (some i) t.deadline t.interval :: s.log }

theorem sendCore_fresh {c : Cfg} (hc : c.Repaired) (s : State) (pk : Pk) (ex : Pattern) (T req due : Nat) :
    sendCore c s pk ex T req none due = .ok
      (match s.link with
       | none => s
       | some l =>
         if ex ≠ [] ∧ l.needsResending = true then
           { s with timers := s.timers ++ [mkTimer s pk (pk.header :: ex) T req],
                    patterns := dset s.patterns (pk.header :: ex) s.timers.length,
                    log := mkTx s l pk req none due T :: s.log }
         else { s with log := mkTx s l pk req none due T :: s.log }) := by
  unfold sendCore
  cases hl : s.link with
  | none => simp [hc.arms, hc.transmits]
  | some l =>
    simp only [hc.arms, hc.transmits, Option.isSome_none, Bool.false_eq_true, if_false, Bool.not_false,
      Bool.true_and, Bool.false_and, Bool.or_false, Bool.and_true, if_true]
    by_cases h1 : ex = []
    · subst h1; simp [mkTx, hl]
    · cases hnr : l.needsResending <;> simp [h1, mkTx, mkTimer, hl]

theorem sendCore_retry {c : Cfg} (hc : c.Repaired) (s : State) (pk : Pk) (pat : Pattern) (T req i due : Nat) :
    sendCore c s pk pat T req (some i) due = .ok
      (match s.link with
       | none => s
       | some l =>
         if dget s.patterns pat = some i then
           { s with timers := s.timers ++ [mkTimer s pk pat T req],
                    patterns := dset s.patterns pat s.timers.length,
                    log := mkTx s l pk req (some i) due T :: s.log }
         else s) := by
  unfold sendCore
  cases hl : s.link with
  | none => simp [hc.arms, hc.transmits]
  | some l =>
    simp only [hc.arms, hc.transmits, Option.isSome_some, Bool.true_and, Bool.not_true, Bool.false_and,
      Bool.false_or, if_true]
    by_cases h1 : dget s.patterns pat = some i
    · simp [h1, mkTx, mkTimer]
    · have : (dget s.patterns pat == some i) = false := by simpa using h1
      simp [h1, this]

theorem forget_tt (s : State) :
    forget true true s = { s with timers := cancelAll s.timers s.patterns, patterns := [] } := rfl

theorem forget_ff (s : State) : forget false false s = s := rfl

@[simp] theorem dropLink_timers (s : State) : (dropLink s).timers = s.timers := by unfold dropLink; split <;> rfl
@[simp] theorem dropLink_patterns (s : State) : (dropLink s).patterns = s.patterns := by unfold dropLink; split <;> rfl
@[simp] theorem dropLink_log (s : State) : (dropLink s).log = s.log := by unfold dropLink; split <;> rfl
@[simp] theorem dropLink_nextReq (s : State) : (dropLink s).nextReq = s.nextReq := by unfold dropLink; split <;> rfl
@[simp] theorem dropLink_nextSid (s : State) : (dropLink s).nextSid = s.nextSid := by unfold dropLink; split <;> rfl
@[simp] theorem dropLink_now (s : State) : (dropLink s).now = s.now := by unfold dropLink; split <;> rfl
@[simp] theorem dropLink_link (s : State) : (dropLink s).link = none := by unfold dropLink; split <;> simp_all

theorem Shape.cast {s : State} {e : Ev} {s' s'' : State} (h : Shape s e s') (heq : s' = s'') : Shape s e s'' := heq ▸ h

theorem step_shape {c : Cfg} (hc : c.Repaired) (s : State) (e : Ev) : Shape s e (stepT c s e) := by
  unfold stepT
  cases e with
  | openLink nr =>
    simp only [step, hc.openCancels, hc.openClears, hc.openEarly, Bool.and_self, forget_tt]
    exact Shape.openLink nr
  | setResend nr =>
    simp only [step]
    cases hl : s.link with
    | none => exact Shape.same _
    | some l => exact Shape.setResend nr l hl
  | send pk ex T =>
    simp only [step]
    by_cases hsz : pk.size > Gen.C10.maxDataSize
    · simp only [hsz, if_true]; exact Shape.same _
    · simp only [hsz, if_false, sendCore_fresh hc]
      cases hl : s.link with
      | none => exact (Shape.bump _ hl).cast (by simp [hl])
      | some l =>
        by_cases h : ex ≠ [] ∧ l.needsResending = true
        · exact (Shape.armTx l hl pk ex T h.1 h.2).cast (by simp [hl, h, mkTx, mkTimer])
        · refine (Shape.tx _ l hl pk T (Or.inl ⟨ex, rfl, ?_⟩)).cast (by simp [hl, h, mkTx])
          by_cases h1 : ex = []
          · exact Or.inl h1
          · right; cases hnr : l.needsResending
            · rfl
            · exact absurd ⟨h1, hnr⟩ h
  | recv h d =>
    simp only [step, checkForAnswers]
    by_cases hlm : (longestMatch (h :: d) s.patterns []).length > 0
    · simp only [hlm, if_true]
      have hne : longestMatch (h :: d) s.patterns [] ≠ [] := List.length_pos_iff.mp hlm
      have hp := longestPending_of_longestMatch hne
      cases hi : dget s.patterns (longestMatch (h :: d) s.patterns []) with
      | none => exact Shape.same _
      | some i => exact Shape.cancel h d _ i hp hne hi
    · simp only [hlm, if_false]; exact Shape.same _
  | expire i =>
    simp only [step]
    cases ht : s.timers[i]? with
    | none => exact Shape.same _
    | some t =>
      by_cases h : t.st = .armed ∧ t.deadline ≤ s.now
      · simp only [h, and_self, if_true]; exact Shape.expire i t ht h.1 h.2
      · simp only [h, if_false]; exact Shape.same _
  | run i =>
    simp only [step]
    cases ht : s.timers[i]? with
    | none => exact Shape.same _
    | some t =>
      by_cases h : t.st = .expired
      · simp only [h, if_true, hc.keeps, sendCore_retry hc]
        cases hl : s.link with
        | none => exact (Shape.runNoop i t ht h (Or.inl hl)).cast (by simp [hl])
        | some l =>
          by_cases hent : dget s.patterns t.pattern = some i
          · exact (Shape.runRetry i t l ht h hl hent).cast (by simp [hl, hent, mkTx, mkTimer])
          · exact (Shape.runNoop i t ht h (Or.inr hent)).cast (by simp [hl, hent])
      · simp only [h, if_false]; exact Shape.same _
  | advance dt => simp only [step]; exact Shape.advance dt
  | closeSetpoint =>
    simp only [step]
    cases hl : s.link with
    | none => simp; exact Shape.same _
    | some l =>
      by_cases hcs : c.closeSetpoint = true
      · simp only [hcs, Option.isSome_some, Bool.and_self, if_true, sendCore_fresh hc]
        exact (Shape.tx _ l hl setpointPk c.defaultTimeout (Or.inr rfl)).cast (by simp [hl, mkTx])
      · simp [hcs]; exact Shape.same _
  | closeRest =>
    simp only [step, hc.closeCancels, hc.closeClears, hc.closeEarly, Bool.and_self, forget_tt]
    exact (Shape.drop _ (Or.inl rfl)).cast (by unfold dropLink; split <;> simp_all)
  | linkError =>
    simp only [step, hc.errorCancels, hc.errorClears, hc.errorEarly, Bool.and_self, forget_tt]
    exact (Shape.drop _ (Or.inr rfl)).cast (by unfold dropLink; split <;> simp_all)
  | closeEnd =>
    simp only [step, hc.closeEarly, Bool.not_true, Bool.and_false, forget_ff]; exact Shape.same _
  | linkErrorEnd =>
    simp only [step, hc.errorEarly, Bool.not_true, Bool.and_false, forget_ff]; exact Shape.same _
  | openEnd =>
    simp only [step, hc.openEarly, Bool.not_true, Bool.and_false, forget_ff]; exact Shape.same _

/-! ## timers: steps only ever change the `st` of an existing timer -/

def SameButSt (t t' : Timer) : Prop :=
  t'.pk = t.pk ∧ t'.pattern = t.pattern ∧ t'.interval = t.interval ∧ t'.deadline = t.deadline ∧ t'.req = t.req

theorem SameButSt.refl (t : Timer) : SameButSt t t := ⟨rfl, rfl, rfl, rfl, rfl⟩

theorem sameButSt_cancelT (t : Timer) : SameButSt t (cancelT t) := by
  unfold cancelT; split <;> exact ⟨rfl, rfl, rfl, rfl, rfl⟩

theorem sameButSt_setSt (x : TSt) (t : Timer) : SameButSt t (setSt x t) := ⟨rfl, rfl, rfl, rfl, rfl⟩

/-- `ts'` has the same timers as `ts` up to their `st` -/
def TsSim (ts ts' : List Timer) : Prop :=
  ts'.length = ts.length ∧ ∀ (j : Nat) (t' : Timer), ts'[j]? = some t' → ∃ t, ts[j]? = some t ∧ SameButSt t t'

theorem TsSim.refl (ts : List Timer) : TsSim ts ts := ⟨rfl, fun _ t' h => ⟨t', h, SameButSt.refl _⟩⟩

theorem TsSim.trans {a b c : List Timer} (h1 : TsSim a b) (h2 : TsSim b c) : TsSim a c := by
  refine ⟨h2.1.trans h1.1, fun j t' h => ?_⟩
  obtain ⟨t, ht, hs⟩ := h2.2 j t' h
  obtain ⟨t0, ht0, hs0⟩ := h1.2 j t ht
  exact ⟨t0, ht0, hs.1.trans hs0.1, hs.2.1.trans hs0.2.1, hs.2.2.1.trans hs0.2.2.1,
    hs.2.2.2.1.trans hs0.2.2.2.1, hs.2.2.2.2.trans hs0.2.2.2.2⟩

theorem tsSim_modify (ts : List Timer) (i : Nat) (f : Timer → Timer) (hf : ∀ t, SameButSt t (f t)) :
    TsSim ts (ts.modify i f) := by
  refine ⟨List.length_modify .., fun j t' h => ?_⟩
  rw [List.getElem?_modify] at h
  cases hj : ts[j]? with
  | none => simp [hj] at h
  | some t =>
    simp only [hj, Option.map_eq_map, Option.map_some, Option.some.injEq] at h
    refine ⟨t, rfl, ?_⟩
    subst h
    split
    · exact hf t
    · exact SameButSt.refl t

theorem tsSim_cancelAll (ts : List Timer) (d : Dict) : TsSim ts (cancelAll ts d) := by
  induction d generalizing ts with
  | nil => exact TsSim.refl ts
  | cons e r ih =>
    obtain ⟨p, i⟩ := e
    simp only [cancelAll]
    exact (tsSim_modify ts i cancelT sameButSt_cancelT).trans (ih _)

theorem TsSim.getElem? {ts ts' : List Timer} (h : TsSim ts ts') {j : Nat} {t : Timer} (ht : ts[j]? = some t) :
    ∃ t', ts'[j]? = some t' ∧ SameButSt t t' := by
  have hj : j < ts'.length := by
    rw [h.1]; exact (List.getElem?_eq_some_iff.mp ht).1
  refine ⟨ts'[j], List.getElem?_eq_getElem hj, ?_⟩
  obtain ⟨t0, ht0, hs⟩ := h.2 j ts'[j] (List.getElem?_eq_getElem hj)
  rw [ht] at ht0
  cases ht0
  exact hs

/-! ## invariants of the repaired code -/

/-- no timer of request `r` is registered any more: nothing will ever transmit `r` again (`reqDead_run`) -/
def ReqDead (s : State) (r : Nat) : Prop :=
  ∀ (i : Nat) (t : Timer), s.timers[i]? = some t → t.req = r → dget s.patterns t.pattern ≠ some i

/-- every retransmission comes one interval after the previous transmission of the same request (`due`), on the same
link, with the same packet, and not before it is due -/
def Spaced : List Tx → Prop
  | [] => True
  | tx :: b =>
    (tx.retry.isSome → ∃ prev, b.find? (fun x => x.req == tx.req) = some prev ∧ prev.time + tx.interval = tx.due ∧
        tx.due ≤ tx.time ∧ prev.pk = tx.pk ∧ prev.sid = tx.sid ∧ prev.interval = tx.interval) ∧
    (tx.retry = none → ∀ x ∈ b, x.req ≠ tx.req) ∧ Spaced b

structure Inv (s : State) : Prop where
  entry : ∀ (p : Pattern) (i : Nat), dget s.patterns p = some i → ∃ t, s.timers[i]? = some t ∧ t.pattern = p
  treq : ∀ (i : Nat) (t : Timer), s.timers[i]? = some t → t.req < s.nextReq
  lreq : ∀ tx ∈ s.log, tx.req < s.nextReq
  chain : ∀ (i j : Nat) (ti tj : Timer), s.timers[i]? = some ti → s.timers[j]? = some tj → ti.req = tj.req →
    ti.pattern = tj.pattern ∧ ti.pk = tj.pk ∧ ti.interval = tj.interval
  linkFresh : ∀ l, s.link = some l → l.sid < s.nextSid ∧ l.sid ∉ s.closed
  closedLt : ∀ x ∈ s.closed, x < s.nextSid
  noClosedTx : ∀ tx ∈ s.log, tx.onClosed = false
  live : ∀ tx ∈ s.log, ReqDead s tx.req ∨ ∃ l, s.link = some l ∧ tx.sid = l.sid
  sameReq : ∀ a ∈ s.log, ∀ b ∈ s.log, a.req = b.req → a.sid = b.sid ∧ a.pk = b.pk ∧ a.interval = b.interval
  last : ∀ (p : Pattern) (i : Nat) (t : Timer), dget s.patterns p = some i → s.timers[i]? = some t →
    ∃ tx, s.log.find? (fun x => x.req == t.req) = some tx ∧ tx.time + t.interval = t.deadline ∧ tx.pk = t.pk ∧
      tx.interval = t.interval
  expiredDue : ∀ (i : Nat) (t : Timer), s.timers[i]? = some t → t.st = .expired → t.deadline ≤ s.now
  spaced : Spaced s.log
  keyNe : ∀ (p : Pattern) (i : Nat), dget s.patterns p = some i → p ≠ []
  lsid : ∀ tx ∈ s.log, tx.sid < s.nextSid

theorem inv_init : Inv init := by
  constructor <;> simp [init, dget, Spaced]

theorem getElem?_snoc {ts : List Timer} {x t : Timer} {j : Nat} (h : (ts ++ [x])[j]? = some t) :
    ts[j]? = some t ∨ (j = ts.length ∧ t = x) := by
  by_cases hj : j < ts.length
  · left; rwa [List.getElem?_append_left hj] at h
  · right
    have hj' : ts.length ≤ j := Nat.le_of_not_lt hj
    rw [List.getElem?_append_right hj'] at h
    cases hk : j - ts.length with
    | zero => simp [hk] at h; exact ⟨by omega, h.symm⟩
    | succ n => simp [hk] at h

theorem getElem?_lt {ts : List Timer} {t : Timer} {j : Nat} (h : ts[j]? = some t) : j < ts.length :=
  (List.getElem?_eq_some_iff.mp h).1

theorem dget_nil (p : Pattern) : dget [] p = none := rfl

theorem ReqDead.of_nil {s : State} (h : s.patterns = []) (r : Nat) : ReqDead s r := by
  intro i t _ _; rw [h]; simp [dget]

theorem inv_entry {s s' : State} {e : Ev} (hI : Inv s) (h : Shape s e s') :
    ∀ (p : Pattern) (i : Nat), dget s'.patterns p = some i → ∃ t, s'.timers[i]? = some t ∧ t.pattern = p := by
  cases h with
  | same | advance | setResend | bump | tx => exact hI.entry
  | openLink | drop => intro p i h; simp [dget] at h
  | armTx l hl pk ex T hex hnr =>
    intro p i h
    simp only [dget_dset] at h
    split at h
    · cases h; subst_vars; exact ⟨mkTimer s pk (pk.header :: ex) T s.nextReq, by simp, rfl⟩
    · obtain ⟨t, ht, hp⟩ := hI.entry p i h
      exact ⟨t, by rw [List.getElem?_append_left (getElem?_lt ht)]; exact ht, hp⟩
  | cancel hh d p0 i0 hp hne hi =>
    intro p i h
    simp only [dget_ddel] at h
    split at h
    · cases h
    · obtain ⟨t, ht, hpp⟩ := hI.entry p i h
      obtain ⟨t', ht', hs⟩ := (tsSim_modify s.timers i0 cancelT sameButSt_cancelT).getElem? ht
      exact ⟨t', ht', hs.2.1.trans hpp⟩
  | expire i0 t0 ht0 ha hd =>
    intro p i h
    obtain ⟨t, ht, hpp⟩ := hI.entry p i h
    obtain ⟨t', ht', hs⟩ := (tsSim_modify s.timers i0 (setSt .expired) (sameButSt_setSt _)).getElem? ht
    exact ⟨t', ht', hs.2.1.trans hpp⟩
  | runNoop i0 t0 ht0 he hn =>
    intro p i h
    obtain ⟨t, ht, hpp⟩ := hI.entry p i h
    obtain ⟨t', ht', hs⟩ := (tsSim_modify s.timers i0 (setSt .done) (sameButSt_setSt _)).getElem? ht
    exact ⟨t', ht', hs.2.1.trans hpp⟩
  | runRetry i0 t0 l ht0 he hl hent =>
    intro p i h
    simp only [dget_dset] at h
    split at h
    · cases h; subst_vars
      refine ⟨mkTimer s t0.pk t0.pattern t0.interval t0.req, ?_, rfl⟩
      rw [List.getElem?_append_right (by simp)]; simp
    · obtain ⟨t, ht, hpp⟩ := hI.entry p i h
      obtain ⟨t', ht', hs⟩ := (tsSim_modify s.timers i0 (setSt .done) (sameButSt_setSt _)).getElem? ht
      exact ⟨t', by rw [List.getElem?_append_left (getElem?_lt ht')]; exact ht', hs.2.1.trans hpp⟩

theorem sim_expire (s : State) (i : Nat) : TsSim s.timers (s.timers.modify i (setSt .expired)) :=
  tsSim_modify _ _ _ (sameButSt_setSt _)
theorem sim_done (s : State) (i : Nat) : TsSim s.timers (s.timers.modify i (setSt .done)) :=
  tsSim_modify _ _ _ (sameButSt_setSt _)
theorem sim_cancel (s : State) (i : Nat) : TsSim s.timers (s.timers.modify i cancelT) :=
  tsSim_modify _ _ _ sameButSt_cancelT

theorem inv_treq {s s' : State} {e : Ev} (hI : Inv s) (h : Shape s e s') :
    ∀ (i : Nat) (t : Timer), s'.timers[i]? = some t → t.req < s'.nextReq := by
  have sim : ∀ {ts' : List Timer}, TsSim s.timers ts' → ∀ (i : Nat) (t : Timer), ts'[i]? = some t → t.req < s.nextReq := by
    intro ts' hs i t ht
    obtain ⟨t0, ht0, hsb⟩ := hs.2 i t ht
    rw [hsb.2.2.2.2]; exact hI.treq i t0 ht0
  cases h with
  | same | advance | setResend => exact hI.treq
  | bump | tx => intro i t ht; exact Nat.lt_succ_of_lt (hI.treq i t ht)
  | openLink | drop => exact sim (tsSim_cancelAll _ _)
  | armTx l hl pk ex T hex hnr =>
    intro i t ht
    rcases getElem?_snoc ht with h1 | ⟨_, h1⟩
    · exact Nat.lt_succ_of_lt (hI.treq i t h1)
    · subst h1; exact Nat.lt_succ_self _
  | cancel => exact sim (sim_cancel s _)
  | expire => exact sim (sim_expire s _)
  | runNoop => exact sim (sim_done s _)
  | runRetry i0 t0 l ht0 he hl hent =>
    intro i t ht
    rcases getElem?_snoc ht with h1 | ⟨_, h1⟩
    · exact sim (sim_done s i0) i t h1
    · subst h1; exact hI.treq i0 t0 ht0

theorem inv_lreq {s s' : State} {e : Ev} (hI : Inv s) (h : Shape s e s') :
    ∀ tx ∈ s'.log, tx.req < s'.nextReq := by
  cases h with
  | same | advance | setResend | openLink | drop | cancel | expire | runNoop => exact hI.lreq
  | bump => intro tx htx; exact Nat.lt_succ_of_lt (hI.lreq tx htx)
  | tx | armTx =>
    intro tx htx
    rcases List.mem_cons.mp htx with h1 | h1
    · subst h1; exact Nat.lt_succ_self _
    · exact Nat.lt_succ_of_lt (hI.lreq tx h1)
  | runRetry i0 t0 l ht0 he hl hent =>
    intro tx htx
    rcases List.mem_cons.mp htx with h1 | h1
    · subst h1; exact hI.treq i0 t0 ht0
    · exact hI.lreq tx h1

theorem inv_chain {s s' : State} {e : Ev} (hI : Inv s) (h : Shape s e s') :
    ∀ (i j : Nat) (ti tj : Timer), s'.timers[i]? = some ti → s'.timers[j]? = some tj → ti.req = tj.req →
      ti.pattern = tj.pattern ∧ ti.pk = tj.pk ∧ ti.interval = tj.interval := by
  have sim : ∀ {ts' : List Timer}, TsSim s.timers ts' → ∀ (i j : Nat) (ti tj : Timer), ts'[i]? = some ti →
      ts'[j]? = some tj → ti.req = tj.req → ti.pattern = tj.pattern ∧ ti.pk = tj.pk ∧ ti.interval = tj.interval := by
    intro ts' hs i j ti tj hi hj hreq
    obtain ⟨a, ha, hsa⟩ := hs.2 i ti hi
    obtain ⟨b, hb, hsb⟩ := hs.2 j tj hj
    have := hI.chain i j a b ha hb (by rw [← hsa.2.2.2.2, ← hsb.2.2.2.2]; exact hreq)
    exact ⟨by rw [hsa.2.1, hsb.2.1]; exact this.1, by rw [hsa.1, hsb.1]; exact this.2.1,
      by rw [hsa.2.2.1, hsb.2.2.1]; exact this.2.2⟩
  cases h with
  | same | advance | setResend | bump | tx => exact hI.chain
  | openLink | drop => exact sim (tsSim_cancelAll _ _)
  | cancel => exact sim (sim_cancel s _)
  | expire => exact sim (sim_expire s _)
  | runNoop => exact sim (sim_done s _)
  | armTx l hl pk ex T hex hnr =>
    intro i j ti tj hi hj hreq
    rcases getElem?_snoc hi with h1 | ⟨_, h1⟩ <;> rcases getElem?_snoc hj with h2 | ⟨_, h2⟩
    · exact hI.chain i j ti tj h1 h2 hreq
    · subst h2; have := hI.treq i ti h1; simp [mkTimer] at hreq; omega
    · subst h1; have := hI.treq j tj h2; simp [mkTimer] at hreq; omega
    · subst h1; subst h2; exact ⟨rfl, rfl, rfl⟩
  | runRetry i0 t0 l ht0 he hl hent =>
    intro i j ti tj hi hj hreq
    have back : ∀ (k : Nat) (t : Timer), (s.timers.modify i0 (setSt .done))[k]? = some t →
        ∃ a, s.timers[k]? = some a ∧ SameButSt a t := (sim_done s i0).2
    rcases getElem?_snoc hi with h1 | ⟨_, h1⟩ <;> rcases getElem?_snoc hj with h2 | ⟨_, h2⟩
    · exact sim (sim_done s i0) i j ti tj h1 h2 hreq
    · subst h2
      obtain ⟨a, ha, hsa⟩ := back i ti h1
      have := hI.chain i i0 a t0 ha ht0 (by rw [← hsa.2.2.2.2]; exact hreq)
      exact ⟨by rw [hsa.2.1]; exact this.1, by rw [hsa.1]; exact this.2.1, by rw [hsa.2.2.1]; exact this.2.2⟩
    · subst h1
      obtain ⟨b, hb, hsb⟩ := back j tj h2
      have := hI.chain i0 j t0 b ht0 hb (by rw [← hsb.2.2.2.2]; exact hreq)
      exact ⟨by rw [hsb.2.1]; exact this.1, by rw [hsb.1]; exact this.2.1, by rw [hsb.2.2.1]; exact this.2.2⟩
    · subst h1; subst h2; exact ⟨rfl, rfl, rfl⟩

theorem inv_linkFresh {s s' : State} {e : Ev} (hI : Inv s) (h : Shape s e s') :
    (∀ l, s'.link = some l → l.sid < s'.nextSid ∧ l.sid ∉ s'.closed) ∧ (∀ x ∈ s'.closed, x < s'.nextSid) := by
  cases h with
  | same | advance | bump | tx | armTx | cancel | expire | runNoop | runRetry => exact ⟨hI.linkFresh, hI.closedLt⟩
  | setResend nr l hl =>
    refine ⟨?_, hI.closedLt⟩
    intro l' hl'
    simp only [Option.some.injEq] at hl'
    subst hl'
    exact hI.linkFresh l hl
  | openLink nr =>
    refine ⟨?_, fun x hx => Nat.lt_succ_of_lt (hI.closedLt x hx)⟩
    intro l' hl'
    simp only [Option.some.injEq] at hl'
    subst hl'
    exact ⟨Nat.lt_succ_self _, fun hm => Nat.lt_irrefl _ (hI.closedLt _ hm)⟩
  | drop e he =>
    refine ⟨by simp, ?_⟩
    intro x hx
    simp only at hx ⊢
    split at hx
    · next l hl =>
      simp only [List.mem_cons] at hx
      rcases hx with rfl | hx
      · exact (hI.linkFresh l hl).1
      · exact hI.closedLt x hx
    · exact hI.closedLt x hx

theorem mkTx_onClosed {s : State} (hI : Inv s) {l : Link} (hl : s.link = some l) (pk : Pk) (req : Nat)
    (retry : Option Nat) (due T : Nat) : (mkTx s l pk req retry due T).onClosed = false := by
  simp only [mkTx, List.contains_eq_mem, decide_eq_false_iff_not]
  exact (hI.linkFresh l hl).2

theorem inv_noClosedTx {s s' : State} {e : Ev} (hI : Inv s) (h : Shape s e s') :
    ∀ tx ∈ s'.log, tx.onClosed = false := by
  cases h with
  | same | advance | setResend | openLink | drop | bump | cancel | expire | runNoop => exact hI.noClosedTx
  | tx e l hl pk T he =>
    intro tx htx
    rcases List.mem_cons.mp htx with h1 | h1
    · subst h1; exact mkTx_onClosed hI hl ..
    · exact hI.noClosedTx tx h1
  | armTx l hl pk ex T hex hnr =>
    intro tx htx
    rcases List.mem_cons.mp htx with h1 | h1
    · subst h1; exact mkTx_onClosed hI hl ..
    · exact hI.noClosedTx tx h1
  | runRetry i0 t0 l ht0 he hl hent =>
    intro tx htx
    rcases List.mem_cons.mp htx with h1 | h1
    · subst h1; exact mkTx_onClosed hI hl ..
    · exact hI.noClosedTx tx h1

/-- a dead request stays dead, whatever happens -/
theorem reqDead_shape {s s' : State} {e : Ev} (hI : Inv s) {r : Nat} (hr : r < s.nextReq) (hd : ReqDead s r)
    (h : Shape s e s') : ReqDead s' r := by
  have sim : ∀ {ts' : List Timer}, TsSim s.timers ts' → ∀ (i : Nat) (t : Timer), ts'[i]? = some t → t.req = r →
      dget s.patterns t.pattern ≠ some i := by
    intro ts' hs i t ht hreq
    obtain ⟨t0, ht0, hsb⟩ := hs.2 i t ht
    rw [hsb.2.1]; exact hd i t0 ht0 (by rw [← hsb.2.2.2.2]; exact hreq)
  cases h with
  | same | advance | setResend | bump | tx => exact hd
  | openLink | drop => exact ReqDead.of_nil rfl r
  | cancel hh d p0 i0 hp hne hi =>
    intro i t ht hreq
    simp only [dget_ddel]
    split
    · simp
    · exact sim (sim_cancel s i0) i t ht hreq
  | expire i0 => exact sim (sim_expire s i0)
  | runNoop i0 => exact sim (sim_done s i0)
  | armTx l hl pk ex T hex hnr =>
    intro i t ht hreq
    simp only [dget_dset]
    rcases getElem?_snoc ht with h1 | ⟨_, h1⟩
    · split
      · have := getElem?_lt h1; simp; omega
      · exact hd i t h1 hreq
    · subst h1; simp [mkTimer] at hreq; omega
  | runRetry i0 t0 l ht0 he hl hent =>
    have hne : t0.req ≠ r := fun heq => hd i0 t0 ht0 heq hent
    intro i t ht hreq
    simp only [dget_dset]
    rcases getElem?_snoc ht with h1 | ⟨_, h1⟩
    · split
      · have := getElem?_lt h1; simp at this ⊢; omega
      · exact sim (sim_done s i0) i t h1 hreq
    · subst h1; exact absurd hreq hne

theorem inv_live {s s' : State} {e : Ev} (hI : Inv s) (h : Shape s e s') :
    ∀ tx ∈ s'.log, ReqDead s' tx.req ∨ ∃ l, s'.link = some l ∧ tx.sid = l.sid := by
  have old : ∀ tx ∈ s.log, s'.link = s.link → ReqDead s' tx.req ∨ ∃ l, s'.link = some l ∧ tx.sid = l.sid := by
    intro tx htx hlk
    rcases hI.live tx htx with h1 | h1
    · exact Or.inl (reqDead_shape hI (hI.lreq tx htx) h1 h)
    · right; rw [hlk]; exact h1
  cases h with
  | same | advance | bump | cancel | expire | runNoop => exact fun tx htx => old tx htx rfl
  | openLink | drop => exact fun tx _ => Or.inl (ReqDead.of_nil rfl _)
  | setResend nr l hl =>
    intro tx htx
    rcases hI.live tx htx with h1 | ⟨l', hl', hs⟩
    · exact Or.inl h1
    · right; rw [hl] at hl'; cases hl'; exact ⟨_, rfl, hs⟩
  | tx e l hl pk T he =>
    intro tx htx
    rcases List.mem_cons.mp htx with h1 | h1
    · subst h1; exact Or.inr ⟨l, hl, rfl⟩
    · exact old tx h1 rfl
  | armTx l hl pk ex T hex hnr =>
    intro tx htx
    rcases List.mem_cons.mp htx with h1 | h1
    · subst h1; exact Or.inr ⟨l, hl, rfl⟩
    · exact old tx h1 rfl
  | runRetry i0 t0 l ht0 he hl hent =>
    intro tx htx
    rcases List.mem_cons.mp htx with h1 | h1
    · subst h1; exact Or.inr ⟨l, hl, rfl⟩
    · exact old tx h1 rfl

theorem find?_mem_req {log : List Tx} {r : Nat} {tx : Tx} (h : log.find? (fun x => x.req == r) = some tx) :
    tx ∈ log ∧ tx.req = r := by
  refine ⟨List.mem_of_find?_eq_some h, ?_⟩
  have := List.find?_some h
  simpa using this

theorem inv_sameReq {s s' : State} {e : Ev} (hI : Inv s) (h : Shape s e s') :
    ∀ a ∈ s'.log, ∀ b ∈ s'.log, a.req = b.req → a.sid = b.sid ∧ a.pk = b.pk ∧ a.interval = b.interval := by
  have fresh : ∀ (x : Tx), x.req = s.nextReq → ∀ a ∈ x :: s.log, ∀ b ∈ x :: s.log, a.req = b.req →
      a.sid = b.sid ∧ a.pk = b.pk ∧ a.interval = b.interval := by
    intro x hx a ha b hb hreq
    rcases List.mem_cons.mp ha with h1 | h1 <;> rcases List.mem_cons.mp hb with h2 | h2
    · subst h1; subst h2; exact ⟨rfl, rfl, rfl⟩
    · subst h1; have := hI.lreq b h2; omega
    · subst h2; have := hI.lreq a h1; omega
    · exact hI.sameReq a h1 b h2 hreq
  cases h with
  | same | advance | setResend | openLink | drop | bump | cancel | expire | runNoop => exact hI.sameReq
  | tx e l hl pk T he => exact fresh _ rfl
  | armTx l hl pk ex T hex hnr => exact fresh _ rfl
  | runRetry i0 t0 l ht0 he hl hent =>
    obtain ⟨tx0, hf, _, hpk, hint⟩ := hI.last _ i0 t0 hent ht0
    obtain ⟨hmem, hreq0⟩ := find?_mem_req hf
    have key : ∀ b ∈ s.log, b.req = t0.req → l.sid = b.sid ∧ t0.pk = b.pk ∧ t0.interval = b.interval := by
      intro b hb hbr
      have h3 := hI.sameReq b hb tx0 hmem (by rw [hbr, hreq0])
      refine ⟨?_, by rw [h3.2.1]; exact hpk.symm, by rw [h3.2.2]; exact hint.symm⟩
      rcases hI.live b hb with h4 | ⟨l', hl', hs⟩
      · exact absurd hent (h4 i0 t0 ht0 hbr.symm)
      · rw [hl] at hl'; cases hl'; exact hs.symm
    intro a ha b hb hreq
    rcases List.mem_cons.mp ha with h1 | h1 <;> rcases List.mem_cons.mp hb with h2 | h2
    · subst h1; subst h2; exact ⟨rfl, rfl, rfl⟩
    · subst h1; exact key b h2 hreq.symm
    · subst h2; have := key a h1 hreq; exact ⟨this.1.symm, this.2.1.symm, this.2.2.symm⟩
    · exact hI.sameReq a h1 b h2 hreq

theorem find?_cons_ne {x : Tx} {log : List Tx} {r : Nat} (h : x.req ≠ r) :
    (x :: log).find? (fun y => y.req == r) = log.find? (fun y => y.req == r) := by
  simp [h]

theorem find?_cons_eq {x : Tx} {log : List Tx} {r : Nat} (h : x.req = r) :
    (x :: log).find? (fun y => y.req == r) = some x := by
  simp [h]

theorem inv_last {s s' : State} {e : Ev} (hI : Inv s) (h : Shape s e s') :
    ∀ (p : Pattern) (i : Nat) (t : Timer), dget s'.patterns p = some i → s'.timers[i]? = some t →
      ∃ tx, s'.log.find? (fun x => x.req == t.req) = some tx ∧ tx.time + t.interval = t.deadline ∧ tx.pk = t.pk ∧
        tx.interval = t.interval := by
  have sim : ∀ {ts' : List Timer}, TsSim s.timers ts' → ∀ (p : Pattern) (i : Nat) (t : Timer),
      dget s.patterns p = some i → ts'[i]? = some t →
      ∃ tx, s.log.find? (fun x => x.req == t.req) = some tx ∧ tx.time + t.interval = t.deadline ∧ tx.pk = t.pk ∧
        tx.interval = t.interval := by
    intro ts' hs p i t hp ht
    obtain ⟨t0, ht0, hsb⟩ := hs.2 i t ht
    obtain ⟨tx, h1, h2, h3, h4⟩ := hI.last p i t0 hp ht0
    exact ⟨tx, by rw [hsb.2.2.2.2]; exact h1, by rw [hsb.2.2.1, hsb.2.2.2.1]; exact h2, by rw [hsb.1]; exact h3,
      by rw [hsb.2.2.1]; exact h4⟩
  cases h with
  | same | advance | setResend | bump => exact hI.last
  | openLink | drop => intro p i t h; simp [dget] at h
  | tx e l hl pk T he =>
    intro p i t hp ht
    obtain ⟨tx, h1, h2⟩ := hI.last p i t hp ht
    refine ⟨tx, ?_, h2⟩
    rw [find?_cons_ne (by have := hI.treq i t ht; simp [mkTx]; omega)]; exact h1
  | cancel hh d p0 i0 hp0 hne hi =>
    intro p i t hp ht
    simp only [dget_ddel] at hp
    split at hp
    · cases hp
    · exact sim (sim_cancel s i0) p i t hp ht
  | expire i0 => exact sim (sim_expire s i0)
  | runNoop i0 => exact sim (sim_done s i0)
  | armTx l hl pk ex T hex hnr =>
    intro p i t hp ht
    simp only [dget_dset] at hp
    split at hp
    · cases hp
      have : t = mkTimer s pk (pk.header :: ex) T s.nextReq := by simpa using ht.symm
      subst this
      exact ⟨_, find?_cons_eq rfl, rfl, rfl, rfl⟩
    · obtain ⟨t1, ht1, _⟩ := hI.entry p i hp
      have ht' : s.timers[i]? = some t := by
        rwa [List.getElem?_append_left (getElem?_lt ht1)] at ht
      obtain ⟨tx, h1, h2⟩ := hI.last p i t hp ht'
      refine ⟨tx, ?_, h2⟩
      rw [find?_cons_ne (by have := hI.treq i t ht'; simp [mkTx]; omega)]; exact h1
  | runRetry i0 t0 l ht0 he hl hent =>
    intro p i t hp ht
    simp only [dget_dset] at hp
    split at hp
    · cases hp
      have : t = mkTimer s t0.pk t0.pattern t0.interval t0.req := by
        rw [List.getElem?_append_right (by simp)] at ht; simpa using ht.symm
      subst this
      exact ⟨_, find?_cons_eq rfl, rfl, rfl, rfl⟩
    · next hpne =>
      obtain ⟨t1, ht1, hp1⟩ := hI.entry p i hp
      have hlt : i < (s.timers.modify i0 (setSt .done)).length := by
        rw [List.length_modify]; exact getElem?_lt ht1
      rw [List.getElem?_append_left hlt] at ht
      obtain ⟨t2, ht2, hsb⟩ := (sim_done s i0).2 i t ht
      rw [ht1] at ht2; cases ht2
      have hreq : t1.req ≠ t0.req := by
        intro heq
        have := (hI.chain i i0 t1 t0 ht1 ht0 heq).1
        exact hpne (by rw [← this, hp1])
      obtain ⟨tx, h1, h2⟩ := sim (sim_done s i0) p i t hp ht
      refine ⟨tx, ?_, h2⟩
      rw [find?_cons_ne (by simp only [mkTx]; rw [hsb.2.2.2.2]; exact fun h => hreq h.symm)]; exact h1

theorem inv_expiredDue {s s' : State} {e : Ev} (hI : Inv s) (h : Shape s e s') :
    ∀ (i : Nat) (t : Timer), s'.timers[i]? = some t → t.st = .expired → t.deadline ≤ s'.now := by
  have cancel_back : ∀ (ts : List Timer) (d : Dict), (∀ (i : Nat) (t : Timer), ts[i]? = some t → t.st = .expired → t.deadline ≤ s.now) →
      ∀ (i : Nat) (t : Timer), (cancelAll ts d)[i]? = some t → t.st = .expired → t.deadline ≤ s.now := by
    intro ts d
    induction d generalizing ts with
    | nil => intro h; exact h
    | cons e r ih =>
      obtain ⟨p, k⟩ := e
      intro h
      simp only [cancelAll]
      apply ih
      intro i t ht hst
      rw [List.getElem?_modify] at ht
      cases hj : ts[i]? with
      | none => simp [hj] at ht
      | some t1 =>
        simp only [hj, Option.map_eq_map, Option.map_some, Option.some.injEq] at ht
        subst ht
        by_cases hki : k = i
        · simp only [hki, if_true] at hst ⊢
          unfold cancelT at hst ⊢
          split at hst
          · cases hst
          · next hna => simp only [hna, if_false]; exact h i t1 hj hst
        · simp only [hki, if_false] at hst ⊢
          exact h i t1 hj hst
  have modify_back : ∀ (k : Nat) (f : Timer → Timer), (∀ t, (f t).deadline = t.deadline) →
      (∀ t, (f t).st = .expired → t.st = .expired) →
      ∀ (i : Nat) (t : Timer), (s.timers.modify k f)[i]? = some t → t.st = .expired → t.deadline ≤ s.now := by
    intro k f hfd hfs i t ht hst
    rw [List.getElem?_modify] at ht
    cases hj : s.timers[i]? with
    | none => simp [hj] at ht
    | some t1 =>
      simp only [hj, Option.map_eq_map, Option.map_some, Option.some.injEq] at ht
      subst ht
      by_cases hki : k = i
      · simp only [hki, if_true] at hst ⊢
        rw [hfd]; exact hI.expiredDue i t1 hj (hfs t1 hst)
      · simp only [hki, if_false] at hst ⊢
        exact hI.expiredDue i t1 hj hst
  have cancelT_st : ∀ t, (cancelT t).st = .expired → t.st = .expired := by
    intro t h; unfold cancelT at h; split at h
    · cases h
    · exact h
  have cancelT_dl : ∀ t, (cancelT t).deadline = t.deadline := by
    intro t; unfold cancelT; split <;> rfl
  cases h with
  | same | setResend | bump | tx => exact hI.expiredDue
  | advance dt => intro i t ht hst; exact Nat.le_trans (hI.expiredDue i t ht hst) (Nat.le_add_right _ _)
  | openLink | drop => exact cancel_back _ _ hI.expiredDue
  | cancel hh d p0 i0 hp0 hne hi => exact modify_back i0 cancelT cancelT_dl cancelT_st
  | runNoop i0 => exact modify_back i0 (setSt .done) (fun _ => rfl) (fun t h => by simp [setSt] at h)
  | expire i0 t0 ht0 ha hd =>
    intro i t ht hst
    rw [List.getElem?_modify] at ht
    cases hj : s.timers[i]? with
    | none => simp [hj] at ht
    | some t1 =>
      simp only [hj, Option.map_eq_map, Option.map_some, Option.some.injEq] at ht
      subst ht
      by_cases hii : i0 = i
      · subst hii; rw [ht0] at hj; cases hj; simpa [setSt] using hd
      · simp only [hii, if_false] at hst ⊢; exact hI.expiredDue i t1 hj hst
  | armTx l hl pk ex T hex hnr =>
    intro i t ht hst
    rcases getElem?_snoc ht with h1 | ⟨_, h1⟩
    · exact hI.expiredDue i t h1 hst
    · subst h1; simp [mkTimer] at hst
  | runRetry i0 t0 l ht0 he hl hent =>
    intro i t ht hst
    rcases getElem?_snoc ht with h1 | ⟨_, h1⟩
    · exact modify_back i0 (setSt .done) (fun _ => rfl) (fun t h => by simp [setSt] at h) i t h1 hst
    · subst h1; simp [mkTimer] at hst

theorem inv_spaced {s s' : State} {e : Ev} (hI : Inv s) (h : Shape s e s') : Spaced s'.log := by
  cases h with
  | same | advance | setResend | openLink | drop | bump | cancel | expire | runNoop => exact hI.spaced
  | tx e l hl pk T he =>
    exact ⟨by simp [mkTx], fun _ x hx => by have := hI.lreq x hx; simp only [mkTx]; omega, hI.spaced⟩
  | armTx l hl pk ex T hex hnr =>
    exact ⟨by simp [mkTx], fun _ x hx => by have := hI.lreq x hx; simp only [mkTx]; omega, hI.spaced⟩
  | runRetry i0 t0 l ht0 he hl hent =>
    refine ⟨fun _ => ?_, by simp [mkTx], hI.spaced⟩
    obtain ⟨tx0, hf, htime, hpk, hint⟩ := hI.last _ i0 t0 hent ht0
    obtain ⟨hmem, hreq0⟩ := find?_mem_req hf
    refine ⟨tx0, hf, htime, hI.expiredDue i0 t0 ht0 he, hpk, ?_, hint⟩
    rcases hI.live tx0 hmem with h4 | ⟨l', hl', hs⟩
    · exact absurd hent (h4 i0 t0 ht0 hreq0.symm)
    · rw [hl] at hl'; cases hl'; exact hs

theorem inv_keyNe {s s' : State} {e : Ev} (hI : Inv s) (h : Shape s e s') :
    ∀ (p : Pattern) (i : Nat), dget s'.patterns p = some i → p ≠ [] := by
  cases h with
  | same | advance | setResend | bump | tx | expire | runNoop => exact hI.keyNe
  | openLink | drop => intro p i h; simp [dget] at h
  | armTx l hl pk ex T hex hnr =>
    intro p i h
    simp only [dget_dset] at h
    split at h
    · subst_vars; simp
    · exact hI.keyNe p i h
  | cancel hh d p0 i0 hp hne hi =>
    intro p i h
    simp only [dget_ddel] at h
    split at h
    · cases h
    · exact hI.keyNe p i h
  | runRetry i0 t0 l ht0 he hl hent =>
    intro p i h
    simp only [dget_dset] at h
    split at h
    · subst_vars; exact hI.keyNe _ _ hent
    · exact hI.keyNe p i h

theorem inv_lsid {s s' : State} {e : Ev} (hI : Inv s) (h : Shape s e s') : ∀ tx ∈ s'.log, tx.sid < s'.nextSid := by
  cases h with
  | same | advance | setResend | drop | bump | cancel | expire | runNoop => exact hI.lsid
  | openLink => intro tx htx; exact Nat.lt_succ_of_lt (hI.lsid tx htx)
  | tx e l hl pk T he =>
    intro tx htx
    rcases List.mem_cons.mp htx with h1 | h1
    · subst h1; exact (hI.linkFresh l hl).1
    · exact hI.lsid tx h1
  | armTx l hl pk ex T hex hnr =>
    intro tx htx
    rcases List.mem_cons.mp htx with h1 | h1
    · subst h1; exact (hI.linkFresh l hl).1
    · exact hI.lsid tx h1
  | runRetry i0 t0 l ht0 he hl hent =>
    intro tx htx
    rcases List.mem_cons.mp htx with h1 | h1
    · subst h1; exact (hI.linkFresh l hl).1
    · exact hI.lsid tx h1

theorem inv_shape {s s' : State} {e : Ev} (hI : Inv s) (h : Shape s e s') : Inv s' :=
  { entry := inv_entry hI h, treq := inv_treq hI h, lreq := inv_lreq hI h, chain := inv_chain hI h,
    linkFresh := (inv_linkFresh hI h).1, closedLt := (inv_linkFresh hI h).2, noClosedTx := inv_noClosedTx hI h,
    live := inv_live hI h, sameReq := inv_sameReq hI h, last := inv_last hI h, expiredDue := inv_expiredDue hI h,
    spaced := inv_spaced hI h, keyNe := inv_keyNe hI h, lsid := inv_lsid hI h }

theorem inv_stepT {c : Cfg} (hc : c.Repaired) {s : State} (hI : Inv s) (e : Ev) : Inv (stepT c s e) :=
  inv_shape hI (step_shape hc s e)

theorem inv_run {c : Cfg} (hc : c.Repaired) {s : State} (hI : Inv s) (evs : List Ev) : Inv (run c s evs) := by
  induction evs generalizing s with
  | nil => exact hI
  | cons e r ih => exact ih (inv_stepT hc hI e)

theorem run_append (c : Cfg) (s : State) (a b : List Ev) : run c s (a ++ b) = run c (run c s a) b := by
  simp [run, List.foldl_append]

theorem run_cons (c : Cfg) (s : State) (e : Ev) (r : List Ev) : run c s (e :: r) = run c (stepT c s e) r := rfl

/-! ## consequences for whole runs -/

theorem shape_nextReq_le {s s' : State} {e : Ev} (h : Shape s e s') : s.nextReq ≤ s'.nextReq := by
  cases h <;> simp

theorem dead_shape_log {s s' : State} {e : Ev} {r : Nat} (hr : r < s.nextReq) (hd : ReqDead s r)
    (h : Shape s e s') : ∀ tx ∈ s'.log, tx.req = r → tx ∈ s.log := by
  cases h with
  | same | advance | setResend | openLink | drop | bump | cancel | expire | runNoop => exact fun tx h _ => h
  | tx e l hl pk T he =>
    intro tx htx hreq
    rcases List.mem_cons.mp htx with h1 | h1
    · subst h1; simp [mkTx] at hreq; omega
    · exact h1
  | armTx l hl pk ex T hex hnr =>
    intro tx htx hreq
    rcases List.mem_cons.mp htx with h1 | h1
    · subst h1; simp [mkTx] at hreq; omega
    · exact h1
  | runRetry i0 t0 l ht0 he hl hent =>
    intro tx htx hreq
    rcases List.mem_cons.mp htx with h1 | h1
    · subst h1; exact absurd hent (hd i0 t0 ht0 hreq)
    · exact h1

/-- once no timer of request `r` is registered, `r` is never transmitted again -/
theorem dead_run {c : Cfg} (hc : c.Repaired) {s : State} (hI : Inv s) {r : Nat} (hr : r < s.nextReq)
    (hd : ReqDead s r) (evs : List Ev) :
    ReqDead (run c s evs) r ∧ ∀ tx ∈ (run c s evs).log, tx.req = r → tx ∈ s.log := by
  induction evs generalizing s with
  | nil => exact ⟨hd, fun tx h _ => h⟩
  | cons e rest ih =>
    have hsh := step_shape hc s e
    have hI' := inv_shape hI hsh
    have hd' := reqDead_shape hI hr hd hsh
    have hr' : r < (stepT c s e).nextReq := Nat.lt_of_lt_of_le hr (shape_nextReq_le hsh)
    obtain ⟨h1, h2⟩ := ih hI' hr' hd'
    exact ⟨h1, fun tx htx hreq => dead_shape_log hr hd hsh tx (h2 tx htx hreq) hreq⟩

theorem inv_reach {c : Cfg} (hc : c.Repaired) (evs : List Ev) : Inv (run c init evs) := inv_run hc inv_init evs

/-- after a packet whose longest registered prefix is `p`, every request with pattern `p` is dead -/
theorem answered_dead {c : Cfg} (hc : c.Repaired) {s : State} (hI : Inv s) (h : Nat) (d : List Nat)
    {j : Nat} {t : Timer} (ht : s.timers[j]? = some t) (hp : LongestPending s.patterns (h :: d) t.pattern)
    (hne : t.pattern ≠ []) : ReqDead (stepT c s (.recv h d)) t.req := by
  have hlm := longestMatch_of_longestPending hp hne
  have hsome : (dget s.patterns t.pattern).isSome := (dget_isSome_iff _ _).mpr hp.1
  obtain ⟨i, hi⟩ := Option.isSome_iff_exists.mp hsome
  have hpos : t.pattern.length > 0 := List.length_pos_iff.mpr hne
  have hstep : stepT c s (.recv h d) = { s with timers := s.timers.modify i cancelT, patterns := ddel s.patterns t.pattern } := by
    simp only [stepT, step, checkForAnswers, hlm, hpos, if_true, hi]
  rw [hstep]
  intro k tk htk hreq
  obtain ⟨t0, ht0, hsb⟩ := (sim_cancel s i).2 k tk htk
  have hpat : t0.pattern = t.pattern := (hI.chain k j t0 t ht0 ht (by rw [← hsb.2.2.2.2]; exact hreq)).1
  simp only [dget_ddel, hsb.2.1, hpat, if_true]
  simp

/-- when the link is closed, fails or is replaced, every request made so far is dead -/
theorem session_end_dead {c : Cfg} (hc : c.Repaired) (s : State) (e : Ev)
    (he : e = .closeRest ∨ e = .linkError ∨ ∃ nr, e = .openLink nr) (r : Nat) : ReqDead (stepT c s e) r := by
  apply ReqDead.of_nil
  rcases he with rfl | rfl | ⟨nr, rfl⟩
  · simp [stepT, step, forget, hc.closeClears, hc.closeEarly]
  · simp [stepT, step, forget, hc.errorClears, hc.errorEarly]
  · simp [stepT, step, forget, hc.openClears, hc.openEarly]

/-! ## retried until answered -/

/-- timer `j` is the registered, still live retry timer of request `r` (packet `pk`, pattern `p`, timeout `T`)
on an open link -/
def Sched (s : State) (r : Nat) (pk : Pk) (p : Pattern) (T : Nat) (j : Nat) : Prop :=
  ∃ t l, s.timers[j]? = some t ∧ dget s.patterns p = some j ∧ s.link = some l ∧
    t.req = r ∧ t.pk = pk ∧ t.pattern = p ∧ t.interval = T ∧ (t.st = .armed ∨ t.st = .expired)

/-- steps that do not end the request: the link is not closed / lost / replaced, the same pattern is not requested
again (which would supersede the registration), and no packet arrives whose longest registered prefix is `p` -/
def Quiet (s : State) (p : Pattern) : Ev → Prop
  | .closeRest | .linkError | .openLink _ => False
  | .send pk ex _ => pk.header :: ex ≠ p
  | .recv h d => ¬ LongestPending s.patterns (h :: d) p
  | _ => True

theorem getElem?_modify_ne {ts : List Timer} {i j : Nat} (f : Timer → Timer) (h : i ≠ j) :
    (ts.modify i f)[j]? = ts[j]? := by
  rw [List.getElem?_modify]; simp [h]

theorem getElem?_modify_eq {ts : List Timer} {i : Nat} {t : Timer} (f : Timer → Timer) (h : ts[i]? = some t) :
    (ts.modify i f)[i]? = some (f t) := by
  rw [List.getElem?_modify]; simp [h]

theorem sched_shape {s s' : State} {e : Ev} (hI : Inv s) {r : Nat} {pk : Pk} {p : Pattern} {T j : Nat}
    (hs : Sched s r pk p T j) (hq : Quiet s p e) (h : Shape s e s') : ∃ j', Sched s' r pk p T j' := by
  obtain ⟨t, l, ht, hent, hl, hreq, hpk, hpat, hint, hst⟩ := hs
  cases h with
  | same | advance | bump | tx => exact ⟨j, t, l, ht, hent, hl, hreq, hpk, hpat, hint, hst⟩
  | setResend nr l' hl' =>
    rw [hl] at hl'; cases hl'
    exact ⟨j, t, _, ht, hent, rfl, hreq, hpk, hpat, hint, hst⟩
  | openLink nr => exact absurd hq (by simp [Quiet])
  | drop e he => rcases he with rfl | rfl <;> exact absurd hq (by simp [Quiet])
  | armTx l' hl' pk' ex T' hex hnr =>
    refine ⟨j, t, l, ?_, ?_, hl, hreq, hpk, hpat, hint, hst⟩
    · rw [List.getElem?_append_left (getElem?_lt ht)]; exact ht
    · rw [dget_dset]; simp only [Quiet] at hq; simp [hq, hent]
  | cancel hh d p0 i0 hp0 hne hi =>
    have hpp : p0 ≠ p := by
      intro heq; subst heq; exact hq hp0
    obtain ⟨t1, ht1, hp1⟩ := hI.entry p0 i0 hi
    have hij : i0 ≠ j := by
      intro heq; subst heq; rw [ht] at ht1; cases ht1; exact hpp (hp1.symm.trans hpat)
    refine ⟨j, t, l, ?_, ?_, hl, hreq, hpk, hpat, hint, hst⟩
    · rw [getElem?_modify_ne _ hij]; exact ht
    · rw [dget_ddel]; simp [hpp, hent]
  | expire i0 t0 ht0 ha hd =>
    by_cases hij : i0 = j
    · subst hij
      exact ⟨i0, setSt .expired t, l, getElem?_modify_eq _ ht, hent, hl, hreq, hpk, hpat, hint, Or.inr rfl⟩
    · exact ⟨j, t, l, by rw [getElem?_modify_ne _ hij]; exact ht, hent, hl, hreq, hpk, hpat, hint, hst⟩
  | runNoop i0 t0 ht0 he hn =>
    have hij : i0 ≠ j := by
      intro heq; subst heq; rw [ht] at ht0; cases ht0
      rcases hn with hn | hn
      · rw [hl] at hn; cases hn
      · exact hn (by rw [hpat]; exact hent)
    exact ⟨j, t, l, by rw [getElem?_modify_ne _ hij]; exact ht, hent, hl, hreq, hpk, hpat, hint, hst⟩
  | runRetry i0 t0 l' ht0 he hl' hent0 =>
    by_cases hij : i0 = j
    · subst hij
      rw [ht] at ht0; cases ht0
      refine ⟨s.timers.length, mkTimer s t.pk t.pattern t.interval t.req, l, ?_, ?_, hl, hreq, hpk, hpat, hint, Or.inl rfl⟩
      · rw [List.getElem?_append_right (by simp)]; simp
      · rw [dget_dset]; simp [hpat]
    · have hpp : t0.pattern ≠ p := by
        intro heq; rw [heq, hent] at hent0; cases hent0; exact hij rfl
      refine ⟨j, t, l, ?_, ?_, hl, hreq, hpk, hpat, hint, hst⟩
      · rw [List.getElem?_append_left (by rw [List.length_modify]; exact getElem?_lt ht), getElem?_modify_ne _ hij]
        exact ht
      · rw [dget_dset]; simp [hpp, hent]

/-- the latest transmission of a scheduled request went to the open link, one timeout before the timer's deadline -/
theorem sched_last {s : State} (hI : Inv s) {r : Nat} {pk : Pk} {p : Pattern} {T j : Nat} (hs : Sched s r pk p T j) :
    ∃ t l last, s.timers[j]? = some t ∧ s.link = some l ∧ s.log.find? (fun x => x.req == r) = some last ∧
      last.pk = pk ∧ last.sid = l.sid ∧ last.interval = T ∧ last.time + T = t.deadline := by
  obtain ⟨t, l, ht, hent, hl, hreq, hpk, hpat, hint, hst⟩ := hs
  obtain ⟨tx, hf, htime, hpk', hint'⟩ := hI.last p j t hent ht
  obtain ⟨hmem, hreq0⟩ := find?_mem_req hf
  refine ⟨t, l, tx, ht, hl, by rw [← hreq]; exact hf, hpk'.trans hpk, ?_, hint'.trans hint, by rw [← hint]; exact htime⟩
  rcases hI.live tx hmem with h4 | ⟨l', hl', hs'⟩
  · exact absurd (by rw [hpat]; exact hent) (h4 j t ht hreq0.symm)
  · rw [hl] at hl'; cases hl'; exact hs'

theorem stepT_of_ok {c : Cfg} {s s' : State} {e : Ev} (h : step c s e = .ok s') : stepT c s e = s' := by
  unfold stepT; rw [h]

theorem send_arms_eq {c : Cfg} (hc : c.Repaired) {s : State} {l : Link} (hl : s.link = some l)
    (hnr : l.needsResending = true) (pk : Pk) (ex : Pattern) (T : Nat) (hex : ex ≠ [])
    (hsz : pk.size ≤ Gen.C10.maxDataSize) :
    step c s (.send pk ex T) = .ok
      { s with nextReq := s.nextReq + 1,
               timers := s.timers ++ [mkTimer s pk (pk.header :: ex) T s.nextReq],
               patterns := dset s.patterns (pk.header :: ex) s.timers.length,
               log := mkTx s l pk s.nextReq none s.now T :: s.log } := by
  have : ¬ pk.size > Gen.C10.maxDataSize := Nat.not_lt.mpr hsz
  simp [step, this, sendCore_fresh hc, hl, hex, hnr, mkTx, mkTimer]

theorem send_plain_eq {c : Cfg} (hc : c.Repaired) {s : State} {l : Link} (hl : s.link = some l)
    (pk : Pk) (ex : Pattern) (T : Nat) (h : ex = [] ∨ l.needsResending = false)
    (hsz : pk.size ≤ Gen.C10.maxDataSize) :
    step c s (.send pk ex T) = .ok
      { s with nextReq := s.nextReq + 1, log := mkTx s l pk s.nextReq none s.now T :: s.log } := by
  have : ¬ pk.size > Gen.C10.maxDataSize := Nat.not_lt.mpr hsz
  have h' : ¬ (ex ≠ [] ∧ l.needsResending = true) := by
    rintro ⟨h1, h2⟩; rcases h with h | h
    · exact h1 h
    · rw [h] at h2; cases h2
  simp [step, this, sendCore_fresh hc, hl, h', mkTx]

theorem run_retry_eq {c : Cfg} (hc : c.Repaired) {s : State} {j : Nat} {t : Timer} {l : Link}
    (ht : s.timers[j]? = some t) (he : t.st = .expired) (hl : s.link = some l)
    (hent : dget s.patterns t.pattern = some j) :
    step c s (.run j) = .ok
      { s with timers := s.timers.modify j (setSt .done) ++ [mkTimer s t.pk t.pattern t.interval t.req],
               patterns := dset s.patterns t.pattern s.timers.length,
               log := mkTx s l t.pk t.req (some j) t.deadline t.interval :: s.log } := by
  simp [step, ht, he, hc.keeps, sendCore_retry hc, hl, hent, mkTx, mkTimer]

theorem expire_eq (c : Cfg) {s : State} {j : Nat} {t : Timer} (ht : s.timers[j]? = some t) (ha : t.st = .armed)
    (hd : t.deadline ≤ s.now) :
    step c s (.expire j) = .ok { s with timers := s.timers.modify j (setSt .expired) } := by
  simp [step, ht, ha, hd]

/-! ## transmission times of one request -/

/-- the transmissions of request `r`, newest first -/
def txOf (r : Nat) (log : List Tx) : List Tx := log.filter (fun x => x.req == r)

/-- consecutive elements (newest first) are related by `ok newer older` -/
def GapsOf (ok : Tx → Tx → Prop) : List Tx → Prop
  | a :: b :: rest => ok a b ∧ GapsOf ok (b :: rest)
  | _ => True

theorem txOf_head_of_find? {r : Nat} {log : List Tx} {prev : Tx} (h : log.find? (fun x => x.req == r) = some prev) :
    ∃ rest, txOf r log = prev :: rest := by
  induction log with
  | nil => simp at h
  | cons x xs ih =>
    simp only [txOf, List.filter_cons]
    by_cases hx : (x.req == r) = true
    · simp only [hx, if_true]
      simp only [List.find?_cons, hx] at h
      cases h
      exact ⟨_, rfl⟩
    · have hx' : (x.req == r) = false := by simpa using hx
      simp only [hx', Bool.false_eq_true, if_false]
      simp only [List.find?_cons, hx'] at h
      exact ih h

theorem txOf_nil_of_fresh {r : Nat} {log : List Tx} (h : ∀ x ∈ log, x.req ≠ r) : txOf r log = [] := by
  simp only [txOf, List.filter_eq_nil_iff]
  intro x hx; simpa using h x hx

/-- every retransmission of `r` is related to the transmission before it as `Spaced` says -/
theorem gaps_of_spaced {log : List Tx} (hs : Spaced log) (r : Nat) :
    GapsOf (fun a b => b.time + a.interval = a.due ∧ a.due ≤ a.time ∧ b.pk = a.pk ∧ b.sid = a.sid ∧
      b.interval = a.interval ∧ a.retry.isSome) (txOf r log) := by
  induction log with
  | nil => simp [txOf, GapsOf]
  | cons x xs ih =>
    obtain ⟨h1, h2, h3⟩ := hs
    have ih' := ih h3
    simp only [txOf, List.filter_cons]
    by_cases hx : (x.req == r) = true
    · simp only [hx, if_true]
      have hxr : x.req = r := by simpa using hx
      cases hret : x.retry with
      | none =>
        have : txOf r xs = [] := txOf_nil_of_fresh (by rw [← hxr]; exact h2 hret)
        simp only [txOf] at this
        rw [this]; simp [GapsOf]
      | some k =>
        obtain ⟨prev, hf, g1, g2, g3, g4, g5⟩ := h1 (by simp [hret])
        rw [hxr] at hf
        obtain ⟨rest, hrest⟩ := txOf_head_of_find? hf
        simp only [txOf] at hrest ih'
        rw [hrest] at ih' ⊢
        exact ⟨⟨g1, g2, g3, g4, g5, by simp [hret]⟩, ih'⟩
    · have hx' : (x.req == r) = false := by simpa using hx
      simp only [hx', Bool.false_eq_true, if_false]
      exact ih'

/-- closed form: if consecutive transmissions are exactly `T` apart, the `k`-th transmission counted from the first
happens at `t0 + k * T` -/
theorem arith_of_gaps {T : Nat} : ∀ (l : List Tx), GapsOf (fun a b => a.time = b.time + T) l →
    ∀ (k : Nat) (x first : Tx), l.reverse[k]? = some x → l.reverse[0]? = some first → x.time = first.time + k * T := by
  intro l
  induction l with
  | nil => intro _ k x first h; simp at h
  | cons a rest ih =>
    intro hg k x first hk h0
    cases rest with
    | nil =>
      simp only [List.reverse_cons, List.reverse_nil, List.nil_append] at hk h0
      cases k with
      | zero => simp at hk h0; subst hk; subst h0; simp
      | succ n => simp at hk
    | cons b rest' =>
      obtain ⟨hab, hg'⟩ := hg
      have hlen : (b :: rest').reverse.length = rest'.length + 1 := by simp
      rw [List.reverse_cons] at hk h0
      have h0' : (b :: rest').reverse[0]? = some first := by
        rwa [List.getElem?_append_left (by rw [hlen]; omega)] at h0
      by_cases hkl : k < (b :: rest').reverse.length
      · rw [List.getElem?_append_left hkl] at hk
        exact ih hg' k x first hk h0'
      · have hkl' : (b :: rest').reverse.length ≤ k := Nat.le_of_not_lt hkl
        rw [List.getElem?_append_right hkl', hlen] at hk
        obtain ⟨m, hm⟩ : ∃ m, k = rest'.length + 1 + m := ⟨k - (rest'.length + 1), by omega⟩
        subst hm
        rw [Nat.add_sub_cancel_left] at hk
        cases m with
        | succ n => simp at hk
        | zero =>
          simp only [List.getElem?_cons_zero, Option.some.injEq] at hk
          subst hk
          have hb : (b :: rest').reverse[rest'.length]? = some b := by
            rw [List.reverse_cons, List.getElem?_append_right (by simp)]; simp
          have := ih hg' rest'.length b first hb h0'
          rw [hab, this, Nat.add_zero, Nat.succ_mul, Nat.add_assoc]


/-! ## where transmissions go -/

/-- a step transmits at most one packet, at the current time, to the link that is open when it runs -/
theorem shape_log {s s' : State} {e : Ev} (h : Shape s e s') :
    s'.log = s.log ∨ ∃ l tx, s.link = some l ∧ s'.log = tx :: s.log ∧ tx.sid = l.sid ∧ tx.time = s.now := by
  cases h with
  | same | advance | setResend | openLink | drop | bump | cancel | expire | runNoop => exact Or.inl rfl
  | tx e l hl pk T he => exact Or.inr ⟨l, _, hl, rfl, rfl, rfl⟩
  | armTx l hl pk ex T hex hnr => exact Or.inr ⟨l, _, hl, rfl, rfl, rfl⟩
  | runRetry i0 t0 l ht0 he hl hent => exact Or.inr ⟨l, _, hl, rfl, rfl, rfl⟩

/-- only `send`, a timer callback and the set-point of `close_link` can transmit -/
def NoTxEv : Ev → Prop
  | .send .. | .run _ | .closeSetpoint => False
  | _ => True

theorem shape_log_noTx {s s' : State} {e : Ev} (h : Shape s e s') (he : NoTxEv e) : s'.log = s.log := by
  cases h with
  | same | advance | setResend | openLink | drop | bump | cancel | expire | runNoop => rfl
  | tx e l hl pk T he' =>
    rcases he' with ⟨ex, rfl, _⟩ | rfl <;> exact absurd he (by simp [NoTxEv])
  | armTx => exact absurd he (by simp [NoTxEv])
  | runRetry => exact absurd he (by simp [NoTxEv])

/-- only links that guarantee delivery: no retry timer is ever created -/
def ReliableOnly : Ev → Prop
  | .openLink nr => nr = false
  | .setResend nr => nr = false
  | _ => True

theorem cancelAll_nil (d : Dict) : cancelAll [] d = [] :=
  List.eq_nil_of_length_eq_zero (tsSim_cancelAll [] d).1

theorem reliable_shape {s s' : State} {e : Ev} (hl : ∀ l, s.link = some l → l.needsResending = false)
    (ht : s.timers = []) (he : ReliableOnly e) (h : Shape s e s') :
    (∀ l, s'.link = some l → l.needsResending = false) ∧ s'.timers = [] := by
  cases h with
  | same | advance | bump | tx => exact ⟨hl, ht⟩
  | setResend nr l hl' =>
    refine ⟨?_, ht⟩
    intro l' h'; simp only [Option.some.injEq] at h'; subst h'; exact he
  | openLink nr =>
    refine ⟨?_, by simp [ht, cancelAll_nil]⟩
    · intro l' h'; simp only [Option.some.injEq] at h'; subst h'; exact he
  | drop e he' => exact ⟨by simp, by simp [ht, cancelAll_nil]⟩
  | armTx l hl' pk ex T hex hnr => rw [hl l hl'] at hnr; cases hnr
  | cancel => exact ⟨hl, by simp [ht]⟩
  | expire i0 t0 ht0 => rw [ht] at ht0; simp at ht0
  | runNoop i0 t0 ht0 => rw [ht] at ht0; simp at ht0
  | runRetry i0 t0 l ht0 => rw [ht] at ht0; simp at ht0

theorem reliable_run {c : Cfg} (hc : c.Repaired) {s : State} (hl : ∀ l, s.link = some l → l.needsResending = false)
    (ht : s.timers = []) (evs : List Ev) (he : ∀ e ∈ evs, ReliableOnly e) : (run c s evs).timers = [] := by
  induction evs generalizing s with
  | nil => exact ht
  | cons e rest ih =>
    obtain ⟨h1, h2⟩ := reliable_shape hl ht (he e (List.mem_cons_self)) (step_shape hc s e)
    exact ih h1 h2 (fun e' he' => he e' (List.mem_cons_of_mem _ he'))

/-- steps of a continuation that do not end request `p` (see `Quiet`) -/
def QuietRun (c : Cfg) : State → Pattern → List Ev → Prop
  | _, _, [] => True
  | s, p, e :: rest => Quiet s p e ∧ QuietRun c (stepT c s e) p rest

theorem quietRun_append (c : Cfg) (s : State) (p : Pattern) (a b : List Ev) :
    QuietRun c s p (a ++ b) ↔ QuietRun c s p a ∧ QuietRun c (run c s a) p b := by
  induction a generalizing s with
  | nil => simp [QuietRun, run]
  | cons e r ih =>
    simp only [List.cons_append, QuietRun, ih, run_cons]
    exact ⟨fun ⟨h1, h2, h3⟩ => ⟨⟨h1, h2⟩, h3⟩, fun ⟨⟨h1, h2⟩, h3⟩ => ⟨h1, h2, h3⟩⟩

theorem sched_run {c : Cfg} (hc : c.Repaired) {s : State} (hI : Inv s) {r : Nat} {pk : Pk} {p : Pattern} {T j : Nat}
    (hs : Sched s r pk p T j) (evs : List Ev) (hq : QuietRun c s p evs) : ∃ j', Sched (run c s evs) r pk p T j' := by
  induction evs generalizing s j with
  | nil => exact ⟨j, hs⟩
  | cons e rest ih =>
    obtain ⟨j1, h1⟩ := sched_shape hI hs hq.1 (step_shape hc s e)
    exact ih (inv_stepT hc hI e) h1 hq.2

/-! ## exceptional exits of the critical section -/

theorem lstepT_unlocked {c : Cfg} (hr : c.releasesOnRaise = true) (ls : LState) (le : LEv) (hl : ls.locked = false) :
    (lstepT c ls le).locked = false ∧ (lstepT c ls le).st = stepT c ls.st le.erase := by
  unfold lstepT lstep stepT
  cases h : step c ls.st le.erase with
  | error er => simp [hl]
  | ok s' =>
    by_cases hcond : (le.raises && decide (s'.log.length > ls.st.log.length)) = true
    · simp [hl, hr, hcond]
    · simp [hl, hcond]

/-- with the lock released on every exit, raising sends are transparent: the lock is never left held and the retry state
evolves exactly as if the raising steps had returned normally -/
theorem lrun_transparent {c : Cfg} (hr : c.releasesOnRaise = true) (ls : LState) (hl : ls.locked = false) (evs : List LEv) :
    (lrun c ls evs).locked = false ∧ (lrun c ls evs).st = run c ls.st (evs.map LEv.erase) := by
  induction evs generalizing ls with
  | nil => exact ⟨hl, rfl⟩
  | cons e r ih =>
    obtain ⟨h1, h2⟩ := lstepT_unlocked hr ls e hl
    have := ih (lstepT c ls e) h1
    simp only [lrun, List.foldl_cons, List.map_cons, run] at this ⊢
    rw [h2] at this
    exact this

theorem log_of_noLock (c : Cfg) (s s' : State) (e : Ev) (h : takesLock c s e = false) (hs : step c s e = .ok s') :
    s'.log = s.log := by
  cases e with
  | send | run => simp [takesLock] at h
  | closeSetpoint =>
    simp only [takesLock] at h
    simp only [step, h, Bool.false_eq_true, if_false, Except.ok.injEq] at hs
    rw [← hs]
  | recv hd d =>
    simp only [step, checkForAnswers] at hs
    split at hs
    · split at hs
      · cases hs; rfl
      · cases hs
    · cases hs; rfl
  | expire i =>
    simp only [step] at hs
    split at hs
    · split at hs
      · cases hs; rfl
      · cases hs
    · cases hs
  | setResend nr =>
    simp only [step] at hs
    split at hs <;> (cases hs; rfl)
  | openLink nr => simp only [step, Except.ok.injEq] at hs; rw [← hs]; rfl
  | advance dt => simp only [step, Except.ok.injEq] at hs; rw [← hs]
  | closeRest => simp only [step, Except.ok.injEq] at hs; rw [← hs]; simp [forget]
  | linkError => simp only [step, Except.ok.injEq] at hs; rw [← hs]; simp [forget]
  | closeEnd => simp only [step, Except.ok.injEq] at hs; rw [← hs]; rfl
  | linkErrorEnd => simp only [step, Except.ok.injEq] at hs; rw [← hs]; rfl
  | openEnd => simp only [step, Except.ok.injEq] at hs; rw [← hs]; rfl

/-- once the lock is left held nothing releases it, and nothing is transmitted any more -/
theorem locked_forever (c : Cfg) (ls : LState) (hl : ls.locked = true) (evs : List LEv) :
    (lrun c ls evs).locked = true ∧ (lrun c ls evs).st.log = ls.st.log := by
  induction evs generalizing ls with
  | nil => exact ⟨hl, rfl⟩
  | cons e r ih =>
    have key : (lstepT c ls e).locked = true ∧ (lstepT c ls e).st.log = ls.st.log := by
      unfold lstepT lstep
      cases h : step c ls.st e.erase with
      | error er => exact ⟨hl, rfl⟩
      | ok s' =>
        simp only [hl, Bool.true_and]
        by_cases ht : takesLock c ls.st e.erase = true
        · simp [ht, hl]
        · have ht' : takesLock c ls.st e.erase = false := by simpa using ht
          have hlog := log_of_noLock c ls.st s' e.erase ht' h
          simp [ht', hlog, hl]
    obtain ⟨h1, h2⟩ := ih (lstepT c ls e) key.1
    simp only [lrun, List.foldl_cons] at h1 h2 ⊢
    exact ⟨h1, h2.trans key.2⟩

end CfVerif.C10

/-
Proofs/C10 — helper lemmas for the C10 property theorems (Props/C10).  Core Lean only.
-/
import CfVerif.Model.C10
namespace CfVerif.C10

/-- The repaired `send_packet` / `close_link` / `_link_error_cb` / `open_link` (what `Props.src_repaired` checks of the source). -/
structure Cfg.Repaired (c : Cfg) : Prop where
  transmits : ∀ lo he rs nr pe ti, c.transmits lo he rs nr pe ti = (lo && (!rs || ti))
  arms : ∀ lo he rs nr pe ti, c.arms lo he rs nr pe ti = (lo && ((!rs && he && nr) || (rs && ti)))
  keeps : c.retryKeepsTimeout = true
  closeCancels : c.closeCancels = true
  closeClears : c.closeClears = true
  errorCancels : c.errorCancels = true
  errorClears : c.errorClears = true
  openCancels : c.openCancels = true
  openClears : c.openClears = true

/-! ## the pattern dictionary -/

theorem dget_dset (d : Dict) (k : Pattern) (v : Nat) (k' : Pattern) :
    dget (dset d k v) k' = if k = k' then some v else dget d k' := by
  induction d with
  | nil => simp [dset, dget]
  | cons e r ih =>
    obtain ⟨a, b⟩ := e
    simp only [dset]
    split
    · subst_vars; simp only [dget]; split <;> simp_all
    · simp only [dget, ih]; split <;> grind

theorem dget_ddel (d : Dict) (k k' : Pattern) :
    dget (ddel d k) k' = if k = k' then none else dget d k' := by
  induction d with
  | nil => simp [ddel, dget]
  | cons e r ih =>
    obtain ⟨a, b⟩ := e
    simp only [ddel]
    split
    · subst_vars; rw [ih]; simp only [dget]; grind
    · simp only [dget, ih]; grind

def keys (d : Dict) : List Pattern := d.map (·.1)

theorem dget_isSome_iff (d : Dict) (k : Pattern) : (dget d k).isSome ↔ k ∈ keys d := by
  induction d with
  | nil => simp [dget, keys]
  | cons e r ih =>
    obtain ⟨a, b⟩ := e
    simp only [dget, keys, List.map_cons, List.mem_cons]
    split
    · simp_all
    · simp only [keys] at ih; rw [ih]; grind

theorem isPrefix_iff (p d : Pattern) : isPrefix p d = true ↔ p <+: d := by
  simp only [isPrefix, Bool.and_eq_true, decide_eq_true_eq, beq_iff_eq]
  constructor
  · rintro ⟨_, h⟩; exact List.prefix_iff_eq_take.mpr h
  · intro h; exact ⟨h.length_le, List.prefix_iff_eq_take.mp h⟩

theorem prefix_eq_of_length_eq {a b d : Pattern} (ha : a <+: d) (hb : b <+: d) (h : a.length = b.length) : a = b := by
  rw [List.prefix_iff_eq_take.mp ha, List.prefix_iff_eq_take.mp hb, h]

theorem longestMatch_spec (data : Pattern) (d : Dict) (lm : Pattern) (hlm : lm <+: data) :
    let r := longestMatch data d lm
    r <+: data ∧ (r = lm ∨ r ∈ keys d) ∧ lm.length ≤ r.length ∧ ∀ q ∈ keys d, q <+: data → q.length ≤ r.length := by
  induction d generalizing lm with
  | nil => simp [longestMatch, keys, hlm]
  | cons e r ih =>
    obtain ⟨p, i⟩ := e
    simp only [longestMatch]
    by_cases hp : isPrefix p data = true
    · have hpd := (isPrefix_iff p data).mp hp
      have htake : data.take p.length = p := (List.prefix_iff_eq_take.mp hpd).symm
      simp only [hp, if_true, htake]
      by_cases hge : p.length ≥ lm.length
      · simp only [hge, if_true]
        obtain ⟨h1, h2, h3, h4⟩ := ih p hpd
        refine ⟨h1, ?_, by omega, ?_⟩
        · rcases h2 with h2 | h2
          · right; simp [keys, h2]
          · right; simp only [keys, List.map_cons, List.mem_cons]; right; exact h2
        · intro q hq hqd
          simp only [keys, List.map_cons, List.mem_cons] at hq
          rcases hq with rfl | hq
          · exact h3
          · exact h4 q hq hqd
      · simp only [hge, if_false]
        obtain ⟨h1, h2, h3, h4⟩ := ih lm hlm
        refine ⟨h1, ?_, h3, ?_⟩
        · rcases h2 with h2 | h2
          · left; exact h2
          · right; simp only [keys, List.map_cons, List.mem_cons]; right; exact h2
        · intro q hq hqd
          simp only [keys, List.map_cons, List.mem_cons] at hq
          rcases hq with rfl | hq
          · omega
          · exact h4 q hq hqd
    · have hp' : isPrefix p data = false := by simpa using hp
      simp only [hp', Bool.false_eq_true, if_false]
      obtain ⟨h1, h2, h3, h4⟩ := ih lm hlm
      refine ⟨h1, ?_, h3, ?_⟩
      · rcases h2 with h2 | h2
        · left; exact h2
        · right; simp only [keys, List.map_cons, List.mem_cons]; right; exact h2
      · intro q hq hqd
        simp only [keys, List.map_cons, List.mem_cons] at hq
        rcases hq with rfl | hq
        · exact absurd ((isPrefix_iff _ _).mpr hqd) hp
        · exact h4 q hq hqd

/-! ## `_check_for_answers` -/

/-- `p` is the longest registered pattern that is a prefix of the received `data` -/
def LongestPending (d : Dict) (data p : Pattern) : Prop :=
  p ∈ keys d ∧ p <+: data ∧ ∀ q ∈ keys d, q <+: data → q.length ≤ p.length

theorem longestMatch_of_longestPending {d : Dict} {data p : Pattern} (h : LongestPending d data p) (hne : p ≠ []) :
    longestMatch data d [] = p := by
  obtain ⟨h1, h2, _, h4⟩ := longestMatch_spec data d [] List.nil_prefix

  have hlen := h4 p h.1 h.2.1
  have hr : longestMatch data d [] ∈ keys d := by
    rcases h2 with h2 | h2
    · rw [h2] at hlen; simp at hlen; exact absurd hlen hne
    · exact h2
  exact prefix_eq_of_length_eq h1 h.2.1 (by have := h.2.2 _ hr h1; omega)

theorem longestMatch_nil_of_none {d : Dict} {data : Pattern} (h : ∀ q ∈ keys d, ¬ q <+: data) :
    longestMatch data d [] = [] := by
  obtain ⟨h1, h2, _, _⟩ := longestMatch_spec data d [] List.nil_prefix

  rcases h2 with h2 | h2
  · exact h2
  · exact absurd h1 (h _ h2)

/-- whenever the loop finds something, it is the longest registered prefix -/
theorem longestPending_of_longestMatch {d : Dict} {data : Pattern} (hne : longestMatch data d [] ≠ []) :
    LongestPending d data (longestMatch data d []) := by
  obtain ⟨h1, h2, _, h4⟩ := longestMatch_spec data d [] List.nil_prefix

  rcases h2 with h2 | h2
  · exact absurd h2 hne
  · exact ⟨h2, h1, h4⟩

end CfVerif.C10

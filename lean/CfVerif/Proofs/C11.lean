/-
Proofs/C11: helper lemmas about file names, the file-system model and the cache operations.
(The JSON lemmas are in Proofs/C11Json.lean.)  Core Lean only.
-/
import CfVerif.Model.C11
namespace CfVerif.C11
open CfVerif

/-! ## the two `%` patterns -/

theorem fetchPattern_toList : Gen.C11.fetchPattern.toList = ['%','0','8','X','.','j','s','o','n'] := by decide
theorem insertPattern_toList :
    Gen.C11.insertPattern.toList = ['%','s','/','%','0','8','X','.','j','s','o','n'] := by decide

/-- `.json` -/
def dotJson : Str := [46, 106, 115, 111, 110]

theorem fetchPattern_eq (crc : Nat) : fetchPattern crc = some (hex08 crc ++ dotJson) := by
  unfold fetchPattern
  rw [fetchPattern_toList]
  simp [pyFormat, dotJson]

theorem insertName_eq (rw : Str) (crc : Nat) :
    insertName rw crc = some (rw ++ 47 :: (hex08 crc ++ dotJson)) := by
  unfold insertName
  rw [insertPattern_toList]
  simp [pyFormat, dotJson]

/-- the file `insert` writes for `crc` under directory `d` -/
def storedName (d : Str) (crc : Nat) : Str := d ++ 47 :: (hex08 crc ++ dotJson)

theorem hexDigitsU_zero : hexDigitsU 0 = [] := by
  unfold hexDigitsU; simp

theorem hex08_lt (n : Nat) (h : n < 4294967296) :
    hex08 n = [hexDigitU (n / 268435456 % 16), hexDigitU (n / 16777216 % 16), hexDigitU (n / 1048576 % 16),
      hexDigitU (n / 65536 % 16), hexDigitU (n / 4096 % 16), hexDigitU (n / 256 % 16), hexDigitU (n / 16 % 16),
      hexDigitU (n % 16)] := by
  unfold hex08
  have : n / 4294967296 = 0 := by omega
  rw [this, hexDigitsU_zero]
  rfl

theorem hexDigitU_inj {a b : Nat} (ha : a < 16) (hb : b < 16) (h : hexDigitU a = hexDigitU b) : a = b := by
  unfold hexDigitU at h
  split at h <;> split at h <;> omega

theorem hex08_inj {n m : Nat} (hn : n < 4294967296) (hm : m < 4294967296) (h : hex08 n = hex08 m) : n = m := by
  rw [hex08_lt n hn, hex08_lt m hm] at h
  simp only [List.cons.injEq, and_true] at h
  obtain ⟨h1, h2, h3, h4, h5, h6, h7, h8⟩ := h
  have e1 := hexDigitU_inj (Nat.mod_lt _ (by decide)) (Nat.mod_lt _ (by decide)) h1
  have e2 := hexDigitU_inj (Nat.mod_lt _ (by decide)) (Nat.mod_lt _ (by decide)) h2
  have e3 := hexDigitU_inj (Nat.mod_lt _ (by decide)) (Nat.mod_lt _ (by decide)) h3
  have e4 := hexDigitU_inj (Nat.mod_lt _ (by decide)) (Nat.mod_lt _ (by decide)) h4
  have e5 := hexDigitU_inj (Nat.mod_lt _ (by decide)) (Nat.mod_lt _ (by decide)) h5
  have e6 := hexDigitU_inj (Nat.mod_lt _ (by decide)) (Nat.mod_lt _ (by decide)) h6
  have e7 := hexDigitU_inj (Nat.mod_lt _ (by decide)) (Nat.mod_lt _ (by decide)) h7
  have e8 := hexDigitU_inj (Nat.mod_lt _ (by decide)) (Nat.mod_lt _ (by decide)) h8
  omega

theorem hex08_length_lt (n : Nat) (h : n < 4294967296) : (hex08 n).length = 8 := by
  rw [hex08_lt n h]; rfl

theorem endsWith_append_eq {a b c : Str} (hl : b.length = c.length) (h : endsWith (a ++ b) c = true) : b = c := by
  unfold endsWith at h
  simp only [Bool.and_eq_true, decide_eq_true_eq, beq_iff_eq] at h
  have : (a ++ b).length - c.length = a.length := by simp [hl]
  rw [this, List.drop_left] at h
  exact h.2

theorem endsWith_append_self (a b : Str) : endsWith (a ++ b) b = true := by
  unfold endsWith
  simp

/-- For 32-bit checksums a stored file name ends in the fetch pattern of `crc` only if it was stored under `crc`. -/
theorem storedName_endsWith {d : Str} {crc' crc : Nat} (h' : crc' < 4294967296) (h : crc < 4294967296)
    (he : endsWith (storedName d crc') (hex08 crc ++ dotJson) = true) : crc' = crc := by
  unfold storedName at he
  have e : d ++ 47 :: (hex08 crc' ++ dotJson) = (d ++ [47]) ++ (hex08 crc' ++ dotJson) := by simp
  rw [e] at he
  have hl : (hex08 crc' ++ dotJson).length = (hex08 crc ++ dotJson).length := by
    simp [hex08_length_lt _ h', hex08_length_lt _ h]
  have := endsWith_append_eq hl he
  have := List.append_cancel_right this
  exact hex08_inj h' h this

/-! ## file system -/

theorem find_writeFile (fl : List (Path × List UInt8)) (p q : Path) (b : List UInt8) :
    ((writeFile fl p b).find? (·.1 = q)).map (·.2) =
      if q = p then some b else (fl.find? (·.1 = q)).map (·.2) := by
  induction fl with
  | nil =>
    by_cases h : q = p
    · simp [writeFile, h]
    · have : ¬ p = q := fun e => h e.symm
      simp [writeFile, h, this]
  | cons f r ih =>
    obtain ⟨f1, f2⟩ := f
    unfold writeFile
    by_cases h1 : f1 = p
    · subst h1
      by_cases h2 : q = f1
      · subst h2; simp
      · have : ¬ f1 = q := fun e => h2 e.symm
        simp [h2, this]
    · simp only [h1, if_false]
      by_cases h2 : f1 = q
      · subst h2
        have : ¬ f1 = p := h1
        simp [this]
      · simp only [List.find?_cons, h2, decide_false]
        exact ih

theorem read_write (fs : FS) (p q : Path) (b : List UInt8) :
    (fs.write p b).read q = if q = p then some b else fs.read q := by
  unfold FS.read FS.write
  exact find_writeFile fs.files p q b

theorem writeFile_paths (fl : List (Path × List UInt8)) (p : Path) (b : List UInt8) (q : Path) :
    q ∈ (writeFile fl p b).map (·.1) ↔ q = p ∨ q ∈ fl.map (·.1) := by
  induction fl with
  | nil => simp [writeFile]
  | cons f r ih =>
    obtain ⟨f1, f2⟩ := f
    unfold writeFile
    by_cases h1 : f1 = p
    · subst h1; simp
    · simp only [h1, if_false, List.map_cons, List.mem_cons, ih]
      constructor
      · rintro (h | h | h) <;> simp [h]
      · rintro (h | h | h) <;> simp [h]

/-! ## splitting a path at its last slash -/

theorem split_last_slash {a b x y : Str} (hx : 47 ∉ x) (hy : 47 ∉ y)
    (h : a ++ 47 :: x = b ++ 47 :: y) : a = b ∧ x = y := by
  induction a generalizing b with
  | nil =>
    cases b with
    | nil => simpa using h
    | cons c b' =>
      simp only [List.nil_append, List.cons_append, List.cons.injEq] at h
      exact absurd (by rw [h.2]; simp) hx
  | cons c a' ih =>
    cases b with
    | nil =>
      simp only [List.nil_append, List.cons_append, List.cons.injEq] at h
      exact absurd (by rw [← h.2]; simp) hy
    | cons c' b' =>
      simp only [List.cons_append, List.cons.injEq] at h
      obtain ⟨h1, h2⟩ := h
      obtain ⟨e1, e2⟩ := ih h2
      exact ⟨by rw [h1, e1], e2⟩

theorem hexDigitU_ne_slash (n : Nat) : hexDigitU n ≠ 47 := by
  unfold hexDigitU; split <;> omega

theorem hexDigitsU_no_slash (n : Nat) : 47 ∉ hexDigitsU n := by
  induction n using Nat.strongRecOn with
  | _ n ih =>
    unfold hexDigitsU
    by_cases h : n = 0
    · simp [h]
    · simp only [h, dite_false, List.mem_append, List.mem_singleton, not_or]
      exact ⟨ih (n / 16) (by omega), fun e => hexDigitU_ne_slash _ e.symm⟩

theorem hex08_no_slash (n : Nat) : 47 ∉ hex08 n ++ dotJson := by
  unfold hex08
  simp only [List.mem_append, List.mem_cons, not_or]
  have := hexDigitsU_no_slash (n / 4294967296)
  have h := fun k => hexDigitU_ne_slash k
  refine ⟨⟨this, ?_⟩, by decide⟩
  refine ⟨fun e => h _ e.symm, fun e => h _ e.symm, fun e => h _ e.symm, fun e => h _ e.symm, fun e => h _ e.symm,
    fun e => h _ e.symm, fun e => h _ e.symm, fun e => h _ e.symm, by simp⟩

/-! ## the lookup loop -/

theorem findHit_foldl (files : List Path) (pat : Str) (init : Option Path) (p : Path)
    (h : files.foldl (fun hit name => if endsWith name pat then some name else hit) init = some p) :
    (p ∈ files ∧ endsWith p pat = true) ∨ init = some p := by
  induction files generalizing init with
  | nil => right; simpa using h
  | cons f r ih =>
    simp only [List.foldl_cons] at h
    rcases ih _ h with h1 | h1
    · left; exact ⟨List.mem_cons_of_mem _ h1.1, h1.2⟩
    · by_cases hf : endsWith f pat = true
      · simp only [hf, if_true, Option.some.injEq] at h1
        left; subst h1; exact ⟨List.mem_cons_self, hf⟩
      · simp only [hf] at h1
        right; simpa using h1

theorem findHit_some {files : List Path} {pat : Str} {p : Path} (h : findHit files pat = some p) :
    p ∈ files ∧ endsWith p pat = true := by
  rcases findHit_foldl files pat none p h with h1 | h1
  · exact h1
  · cases h1

/-- with a matching path last in the list, that path is the hit -/
theorem findHit_append_match (files : List Path) (pat : Str) (p : Path) (h : endsWith p pat = true) :
    findHit (files ++ [p]) pat = some p := by
  unfold findHit
  simp [List.foldl_append, h]

/-! ## what `fetch` reads -/

theorem fetch_reads_matching (fs : FS) (c : Cache) (crc : Nat) (v : JVal)
    (h : c.fetch fs crc = .ok v) (hv : v ≠ .null) :
    ∃ p bs, p ∈ c.files ∧ endsWith p (hex08 crc ++ dotJson) = true ∧ fs.read p = some bs ∧ loadBytes bs = .ok v := by
  unfold Cache.fetch at h
  rw [fetchPattern_eq] at h
  simp only at h
  cases hh : findHit c.files (hex08 crc ++ dotJson) with
  | none => rw [hh] at h; simp only at h; cases h; exact absurd rfl hv
  | some p =>
    rw [hh] at h; simp only at h
    obtain ⟨hm, he⟩ := findHit_some hh
    cases hr : fs.read p with
    | none => rw [hr] at h; simp only at h; cases h; exact absurd rfl hv
    | some bs =>
      rw [hr] at h; simp only at h
      cases hl : loadBytes bs with
      | ok w => rw [hl] at h; simp only at h; cases h; exact ⟨p, bs, hm, he, hr, hl⟩
      | error e =>
        rw [hl] at h
        cases e with
        | exc => simp only at h; cases h; exact absurd rfl hv
        | unmodelled => simp only at h; cases h

/-- every cached path is a file stored by `insert` under a 32-bit checksum -/
def Cache.Stored (c : Cache) : Prop :=
  ∀ p ∈ c.files, ∃ d crc', crc' < 4294967296 ∧ p = storedName d crc'

/-- `open(p, 'w')` either raises or leaves every readable file, the directories and the flag as they are -/
theorem openW_some {fs fs' : FS} {d p : Path} (h : fs.openW d p = some fs') :
    fs'.files = fs.files ∧ fs'.dirs = fs.dirs ∧ fs'.readonly = fs.readonly ∧ fs.canWrite d = true ∧
    (∀ g ∈ fs'.ghosts, g ∈ fs.ghosts) := by
  unfold FS.openW at h
  by_cases hw : fs.canWrite d = true
  · simp only [hw, if_true] at h
    cases hg : fs.ghostAt p with
    | none => rw [hg] at h; simp only [Option.some.injEq] at h; subst h; exact ⟨rfl, rfl, rfl, hw, fun g hg => hg⟩
    | some k =>
      rw [hg] at h
      cases k with
      | dangling =>
        simp only [Option.some.injEq] at h; subst h
        exact ⟨rfl, rfl, rfl, hw, fun g hg => (List.mem_filter.1 hg).1⟩
      | dir => cases h
      | noperm => cases h
  · simp [hw] at h

theorem read_openW {fs fs' : FS} {d p : Path} (h : fs.openW d p = some fs') (q : Path) : fs'.read q = fs.read q := by
  unfold FS.read; rw [(openW_some h).1]

theorem insert_files (fs : FS) (c : Cache) (crc : Nat) (toc : Toc) :
    (c.insert fs crc toc).2.files = c.files ∨
    ∃ d, c.rw = some d ∧ (c.insert fs crc toc).2.files = c.files ++ [storedName d crc] := by
  unfold Cache.insert
  cases hrw : c.rw with
  | none => left; rfl
  | some d =>
    simp only [insertName_eq]
    cases ho : fs.openW d (d ++ 47 :: (hex08 crc ++ dotJson)) with
    | none => left; rfl
    | some fs' => right; exact ⟨d, rfl, rfl⟩

theorem insert_rw (fs : FS) (c : Cache) (crc : Nat) (toc : Toc) : (c.insert fs crc toc).2.rw = c.rw := by
  unfold Cache.insert
  cases hrw : c.rw with
  | none => simp [hrw]
  | some d =>
    simp only [insertName_eq]
    cases ho : fs.openW d (d ++ 47 :: (hex08 crc ++ dotJson)) <;> simp [hrw]

theorem insert_stored (fs : FS) (c : Cache) (crc : Nat) (toc : Toc) (hc : crc < 4294967296) (hs : c.Stored) :
    (c.insert fs crc toc).2.Stored := by
  intro p hp
  rcases insert_files fs c crc toc with h | ⟨d, _, h⟩
  · rw [h] at hp; exact hs p hp
  · rw [h] at hp
    rcases List.mem_append.1 hp with h1 | h1
    · exact hs p h1
    · simp only [List.mem_singleton] at h1
      exact ⟨d, crc, hc, h1⟩

/-- the only path whose content `insert` can change is the stored name under the rw directory -/
theorem insert_read (fs : FS) (c : Cache) (crc : Nat) (toc : Toc) (p : Path)
    (h : ∀ d, c.rw = some d → p ≠ storedName d crc) : (c.insert fs crc toc).1.read p = fs.read p := by
  unfold Cache.insert
  cases hrw : c.rw with
  | none => rfl
  | some d =>
    simp only [insertName_eq]
    cases ho : fs.openW d (d ++ 47 :: (hex08 crc ++ dotJson)) with
    | none => rfl
    | some fs' =>
      simp only [read_write, read_openW ho]
      have := h d hrw
      unfold storedName at this
      simp [this]

theorem insertCut_read (fs : FS) (c : Cache) (crc : Nat) (toc : Toc) (k : Nat) (p : Path)
    (h : ∀ d, c.rw = some d → p ≠ storedName d crc) : (c.insertCut fs crc toc k).1.read p = fs.read p := by
  unfold Cache.insertCut
  cases hrw : c.rw with
  | none => rfl
  | some d =>
    simp only [insertName_eq]
    cases ho : fs.openW d (d ++ 47 :: (hex08 crc ++ dotJson)) with
    | none => rfl
    | some fs' =>
      simp only [read_write, read_openW ho]
      have := h d hrw
      unfold storedName at this
      simp [this]

theorem insertCut_cache (fs : FS) (c : Cache) (crc : Nat) (toc : Toc) (k : Nat) : (c.insertCut fs crc toc k).2 = c := by
  unfold Cache.insertCut
  cases hrw : c.rw with
  | none => rfl
  | some d =>
    simp only [insertName_eq]
    cases ho : fs.openW d (d ++ 47 :: (hex08 crc ++ dotJson)) <;> rfl

theorem init_read (fs : FS) (ro rw : Option Path) (fs' : FS) (c : Cache) (h : Cache.init fs ro rw = .ok (fs', c)) (p : Path) :
    fs'.read p = fs.read p ∧ c.rw = rw := by
  unfold Cache.init at h
  cases rw with
  | none => simp only [Except.ok.injEq, Prod.mk.injEq] at h; obtain ⟨h1, h2⟩ := h; subst h1; subst h2; exact ⟨rfl, rfl⟩
  | some d =>
    simp only at h
    by_cases hd : fs.dirs.contains d = true
    · simp only [hd, if_true, Except.ok.injEq, Prod.mk.injEq] at h
      obtain ⟨h1, h2⟩ := h; subst h1; subst h2; exact ⟨rfl, rfl⟩
    · simp only [hd] at h
      cases hr : fs.readonly with
      | true => simp [hr] at h
      | false =>
        simp only [hr, Bool.false_eq_true, if_false, Except.ok.injEq, Prod.mk.injEq] at h
        obtain ⟨h1, h2⟩ := h; subst h1; subst h2; exact ⟨rfl, rfl⟩

/-- a file directly inside directory `ro` is not the stored name of any checksum under a different directory -/
theorem storedName_ne_of_dir_ne {ro d name : Str} {crc : Nat} (hne : d ≠ ro) (hname : 47 ∉ name) :
    ro ++ 47 :: name ≠ storedName d crc := by
  intro e
  unfold storedName at e
  exact hne (split_last_slash hname (hex08_no_slash crc) e).1.symm

end CfVerif.C11
